/-
Helper lemmas for the `Notice` layer (C18 part 3 at the sync manager): where the entries of the
"seen" table come from. Core Lean only.
-/
import Aergo.Model.Notice

namespace Aergo.Notice

/-- a hit of `lookup` is an entry of the table -/
theorem lookup_mem (s : Seen) (id : Bytes) (v : Val) (h : s.lookup id = some v) : (id, v) ∈ s.ents := by
  unfold Seen.lookup at h
  cases hf : s.ents.find? (·.1 == id) with
  | none => simp [hf] at h
  | some e =>
    simp [hf] at h
    have hm := List.mem_of_find?_eq_some hf
    have hk := List.find?_some hf
    simp at hk
    cases e with
    | mk k u => simp at h hk; subst h; subst hk; exact hm

/-- `Add` only adds the new entry -/
theorem mem_add (s : Seen) (id : Bytes) (v : Val) (e : Bytes × Val) (h : e ∈ (s.add id v).ents) :
    e = (id, v) ∨ e ∈ s.ents := by
  unfold Seen.add at h
  have h1 := List.mem_of_mem_take h
  simp only [List.mem_cons, List.mem_filter] at h1
  rcases h1 with h1 | h1
  · exact Or.inl h1
  · exact Or.inr h1.1

/-- `Get` adds nothing -/
theorem mem_get (s : Seen) (id : Bytes) (e : Bytes × Val) (h : e ∈ (s.get id).2.ents) : e ∈ s.ents := by
  unfold Seen.get at h
  split at h
  · exact h
  · rename_i v hv
    simp only [List.mem_cons, List.mem_filter] at h
    rcases h with h | h
    · subst h; exact lookup_mem s id v hv
    · exact h.1

/-- what `Get` returns is what `lookup` sees -/
theorem get_fst (s : Seen) (id : Bytes) : (s.get id).1 = s.lookup id := by
  unfold Seen.get
  split <;> simp_all

/-- a table with room keeps what was just added -/
theorem lookup_add_self (s : Seen) (id : Bytes) (v : Val) (hc : 0 < s.cap) : (s.add id v).lookup id = some v := by
  unfold Seen.add Seen.lookup
  obtain ⟨n, hn⟩ : ∃ n, s.cap = n + 1 := ⟨s.cap - 1, by omega⟩
  simp [hn, List.take_succ_cons]

/-- `Get` keeps the value of the entry it moves -/
theorem lookup_get_self (s : Seen) (id : Bytes) : (s.get id).2.lookup id = s.lookup id := by
  unfold Seen.get
  split
  · rfl
  · rename_i v hv
    rw [hv]
    simp [Seen.lookup]

/-- `Add`, `Get` keep the capacity -/
theorem add_cap (s : Seen) (id : Bytes) (v : Val) : (s.add id v).cap = s.cap := rfl
theorem get_cap (s : Seen) (id : Bytes) : (s.get id).2.cap = s.cap := by
  unfold Seen.get; split <;> rfl

/-- the capacity never changes -/
theorem step_cap (s : Seen) (a : Arr) : (step s a).1.cap = s.cap := by
  unfold step
  cases a with
  | bp id p l sd sz c =>
    simp only
    split
    · rfl
    · split
      · rfl
      · split
        · rename_i v s1 hg
          have : s1 = (s.get id).2 := by rw [hg]
          split <;> simp [this, add_cap, get_cap]
        · simp [add_cap]
  | nb id l ps ch =>
    simp only
    split
    · rfl
    · split
      · rfl
      · split <;> rfl
      · split <;> simp [add_cap]
  | gbr ok bs =>
    simp only
    split
    · rfl
    · split
      · split <;> rfl
      · rfl

/-- an arrival that puts `(id, v)` into the table -/
def Puts (a : Arr) (id : Bytes) (v : Val) : Prop :=
  match v with
  | .placeholder => ∃ ch, a = .nb id true false ch
  | .digest c => a = .bp id true true true true c

/-- every entry the step leaves behind was there before or was put by this arrival -/
theorem step_mem (s : Seen) (a : Arr) (e : Bytes × Val) (h : e ∈ (step s a).1.ents) :
    e ∈ s.ents ∨ Puts a e.1 e.2 := by
  unfold step at h
  cases a with
  | bp id p l sd sz c =>
    simp only at h
    split at h
    · exact Or.inl h
    · rename_i h1
      split at h
      · exact Or.inl h
      · rename_i h2
        simp only [Bool.not_eq_eq_eq_not, Bool.not_true, Bool.and_eq_false_imp] at h1 h2
        have hp : p = true ∧ l = true ∧ sd = true := by
          cases p <;> cases l <;> cases sd <;> simp_all
        have hz : sz = true := by cases sz <;> simp_all
        obtain ⟨rfl, rfl, rfl⟩ := hp
        subst hz
        split at h
        · rename_i v s1 hg
          have hs1 : s1 = (s.get id).2 := by rw [hg]
          split at h
          · subst hs1; exact Or.inl (mem_get s id e h)
          · subst hs1
            rcases mem_add _ id _ e h with h | h
            · subst h; exact Or.inr rfl
            · exact Or.inl (mem_get s id e h)
        · rcases mem_add _ id _ e h with h | h
          · subst h; exact Or.inr rfl
          · exact Or.inl h
  | nb id l ps ch =>
    simp only at h
    split at h
    · exact Or.inl h
    · rename_i h1
      have hp : l = true ∧ ps = false := by cases l <;> cases ps <;> simp_all
      obtain ⟨rfl, rfl⟩ := hp
      split at h
      · exact Or.inl h
      · split at h <;> exact Or.inl h
      · split at h
        all_goals
          rcases mem_add _ id _ e h with h | h
          · subst h; exact Or.inr ⟨ch, rfl⟩
          · exact Or.inl h
  | gbr ok bs =>
    simp only at h
    split at h
    · exact Or.inl h
    · split at h
      · split at h <;> exact Or.inl h
      · exact Or.inl h

/-- **Provenance, for every history**: whatever the table holds after a session was put there by an
arrival of that session (or was there at the start). -/
theorem run_mem (s : Seen) (h : List Arr) (e : Bytes × Val) (hm : e ∈ (run s h).1.ents) :
    e ∈ s.ents ∨ ∃ a ∈ h, Puts a e.1 e.2 := by
  induction h generalizing s with
  | nil => exact Or.inl hm
  | cons a as ih =>
    simp only [run] at hm
    rcases ih (step s a).1 hm with h1 | ⟨b, hb, hp⟩
    · rcases step_mem s a e h1 with h2 | h2
      · exact Or.inl h2
      · exact Or.inr ⟨a, by simp, h2⟩
    · exact Or.inr ⟨b, by simp [hb], hp⟩

end Aergo.Notice
