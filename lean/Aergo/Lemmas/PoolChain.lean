/-
Helper lemmas for C13: what the pool operations do to the pool's view of the chain (`best`, `state`), where
listed transactions come from, and the locked half of a submission (`Pool.putLocked`). Core Lean only.
-/
import Aergo.Lemmas.PoolOps

namespace Aergo.Pool

/-! ### `best` / `state` are touched by block notifications only -/

theorem dropTxs_best (P : Pool) (txs : List Tx) : (P.dropTxs txs).best = P.best := by
  unfold Pool.dropTxs
  induction txs generalizing P with
  | nil => rfl
  | cons t r ih => simp only [List.foldl]; rw [ih]

theorem acquire_view (P : Pool) (a : Nat) : (P.acquire a).1.state = P.state ∧ (P.acquire a).1.best = P.best := by
  unfold Pool.acquire
  split <;> exact ⟨rfl, rfl⟩

theorem putLocked_view (P : Pool) (tx : Tx) :
    (P.putLocked tx).1.state = P.state ∧ (P.putLocked tx).1.best = P.best := by
  unfold Pool.putLocked
  simp only
  split
  · exact ⟨by rw [(release_fields _ _).2.2.2.1]; exact (acquire_view P _).1,
      by rw [(release_fields _ _).2.2.2.2.1]; exact (acquire_view P _).2⟩
  · exact ⟨by rw [(release_fields _ _).2.2.2.1]; exact (acquire_view P _).1,
      by rw [(release_fields _ _).2.2.2.2.1]; exact (acquire_view P _).2⟩

/-- Sequentially, `put` is its pre-check followed at once by its locked half. -/
theorem put_eq_check_then_locked (P : Pool) (tx : Tx) :
    P.put tx = match P.putCheck tx with
      | some r => (P, r)
      | none => P.putLocked tx := by
  unfold Pool.put Pool.putCheck Pool.putLocked
  by_cases hc : cacheHas tx.id P.cache = true
  · simp [hc]
  · have hc' : cacheHas tx.id P.cache = false := by simpa using hc
    simp only [hc', Bool.false_eq_true, ↓reduceIte]
    rcases validate_cases (P.state tx.acc) tx with ⟨hv, _⟩ | ⟨hv, _⟩ | ⟨hv, _⟩ | ⟨hv, _⟩ <;> simp only [hv]

theorem put_view (P : Pool) (tx : Tx) : (P.put tx).1.state = P.state ∧ (P.put tx).1.best = P.best := by
  rw [put_eq_check_then_locked]
  split
  · exact ⟨rfl, rfl⟩
  · exact putLocked_view P tx

theorem removeTx_view (P : Pool) (a id : Nat) :
    (P.removeTx a id).1.state = P.state ∧ (P.removeTx a id).1.best = P.best := by
  unfold Pool.removeTx
  split
  · exact ⟨rfl, rfl⟩
  · unfold Pool.removeAt
    simp only
    exact ⟨by rw [(release_fields _ _).2.2.2.1]; exact (acquire_view P _).1,
      by rw [(release_fields _ _).2.2.2.2.1]; exact (acquire_view P _).2⟩

theorem evictAcc_view (P : Pool) (a : Nat) : (P.evictAcc a).state = P.state ∧ (P.evictAcc a).best = P.best := by
  unfold Pool.evictAcc
  split
  · exact ⟨rfl, rfl⟩
  · exact ⟨dropTxs_state _ _, dropTxs_best _ _⟩

theorem evict_view (P : Pool) (old : List Nat) : (P.evict old).state = P.state ∧ (P.evict old).best = P.best := by
  unfold Pool.evict
  generalize keys P.lists = ks
  induction ks generalizing P with
  | nil => exact ⟨rfl, rfl⟩
  | cons k ks ih =>
    simp only [List.foldl]
    split
    · obtain ⟨a, b⟩ := ih (P.evictAcc k); obtain ⟨c, d⟩ := evictAcc_view P k
      exact ⟨a.trans c, b.trans d⟩
    · exact ih P

theorem unconfirmed_view (P : Pool) (a : Nat) :
    (P.unconfirmed a).1.state = P.state ∧ (P.unconfirmed a).1.best = P.best := acquire_view P a

theorem filterAcc_best (P : Pool) (a : Nat) : (P.filterAcc a).best = P.best := by
  cases hl : lookup a P.lists with
  | none => rw [filterAcc_none hl]
  | some L => rw [filterAcc_some hl, (release_fields _ _).2.2.2.2.1, dropTxs_best]; rfl

theorem fold_best (chk : Nat → Bool) (ks : List Nat) (P : Pool) :
    (ks.foldl (fun P k => if chk k then P.filterAcc k else P) P).best = P.best := by
  induction ks generalizing P with
  | nil => rfl
  | cons k ks ih =>
    simp only [List.foldl]
    rw [ih]
    split
    · exact filterAcc_best _ _
    · rfl

/-- A notification makes the block the pool's best block; the account states become the block's unless the block
*is* already the pool's best block (`setStateDB` does nothing then). -/
theorem blockArrival_view (P : Pool) (new parent chain : Nat) (dirty : List Nat) (σ : Nat → Acct) :
    (P.blockArrival new parent chain dirty σ).best = new ∧
    (P.blockArrival new parent chain dirty σ).state = if new = P.best then P.state else σ := by
  have hS : (P.setStateDB new parent chain σ).1.best = new ∧
      (P.setStateDB new parent chain σ).1.state = if new = P.best then P.state else σ := by
    unfold Pool.setStateDB
    by_cases hn : new = P.best
    · simp [hn]
    · simp only [ne_eq, hn, not_false_eq_true, ↓reduceIte]
      split <;> exact ⟨rfl, rfl⟩
  unfold Pool.blockArrival
  simp only
  split
  · exact hS
  · rw [fold_best, fold_state]; exact hS

/-! ### `Tracks`: the pool's account states are those of its best block -/

/-- `σof n` = the account states at the state root of block `n` (what an honest chain service passes along with
block `n`, every time). The pool either has not been told of any block yet (best = 0, the model's "no block",
empty state) or sees exactly the states of its best block. -/
def Tracks (σof : Nat → Nat → Acct) (P : Pool) : Prop :=
  (P.best = 0 ∧ P.state = Pool.init.state) ∨ P.state = σof P.best

theorem tracks_init (σof : Nat → Nat → Acct) : Tracks σof Pool.init := Or.inl ⟨rfl, rfl⟩

theorem tracks_of_view {σof : Nat → Nat → Acct} {P Q : Pool} (h : Tracks σof P) (hs : Q.state = P.state)
    (hb : Q.best = P.best) : Tracks σof Q := by
  unfold Tracks; rw [hs, hb]; exact h

theorem tracks_blockArrival {σof : Nat → Nat → Acct} {P : Pool} (h : Tracks σof P)
    (new parent chain : Nat) (dirty : List Nat) :
    Tracks σof (P.blockArrival new parent chain dirty (σof new)) := by
  obtain ⟨hb, hs⟩ := blockArrival_view P new parent chain dirty (σof new)
  unfold Tracks
  rw [hb, hs]
  by_cases hn : new = P.best
  · subst hn; simp only [↓reduceIte]; exact h
  · simp [hn]

/-- After the notification of a block with a proper identifier (≠ 0) the pool sees that block's account states. -/
theorem view_after_blockArrival {σof : Nat → Nat → Acct} {P : Pool} (h : Tracks σof P)
    (new parent chain : Nat) (dirty : List Nat) (hn : new ≠ 0) :
    (P.blockArrival new parent chain dirty (σof new)).state = σof new := by
  have ht := tracks_blockArrival h new parent chain dirty
  obtain ⟨hb, _⟩ := blockArrival_view P new parent chain dirty (σof new)
  rcases ht with ⟨h0, _⟩ | h1
  · rw [hb] at h0; exact absurd h0 hn
  · rw [hb] at h1; exact h1

/-! ### Where listed transactions come from -/

theorem mem_allTxs_acquire {P : Pool} {a : Nat} {t : Tx} (h : t ∈ allTxs (P.acquire a).1.lists) : t ∈ allTxs P.lists := by
  unfold Pool.acquire at h
  split at h
  · exact h
  · simpa using h

theorem mem_allTxs_release {P : Pool} {a : Nat} {t : Tx} (h : t ∈ allTxs (P.release a).lists) : t ∈ allTxs P.lists := by
  obtain ⟨k, N, hkN, ht⟩ := mem_allTxs.1 h
  exact mem_allTxs.2 ⟨k, N, mem_release hkN, ht⟩

theorem mem_allTxs_setL {a : Nat} {M : TxList} {ls : List (Nat × TxList)} {t : Tx}
    (h : t ∈ allTxs (setL a M ls)) : t ∈ M.list ∨ t ∈ allTxs ls := by
  obtain ⟨k, N, hkN, ht⟩ := mem_allTxs.1 h
  rcases mem_setL hkN with ⟨_, rfl⟩ | h'
  · exact Or.inl ht
  · exact Or.inr (mem_allTxs.2 ⟨k, N, h', ht⟩)

/-- The locked half of a submission adds at most the submitted transaction. -/
theorem mem_allTxs_putLocked {P : Pool} (hP : PInv P) {tx t : Tx} (h : t ∈ allTxs (P.putLocked tx).1.lists) :
    t = tx ∨ t ∈ allTxs P.lists := by
  obtain ⟨hP1, hl, _⟩ := pinv_acquire hP tx.acc
  unfold Pool.putLocked at h
  simp only at h
  cases hput : (P.acquire tx.acc).2.put tx with
  | mk L' r =>
    rw [hput] at h
    cases r with
    | error e => exact Or.inr (mem_allTxs_acquire (mem_allTxs_release h))
    | ok d =>
      simp only at h
      have h' := mem_allTxs_release h
      simp only at h'
      rcases mem_allTxs_setL h' with h1 | h2
      · have hperm := (put_ok (hP1.lists _ _ (lookup_mem hl)).1 hput).2.2.1
        have := hperm.subset h1
        simp only [List.mem_cons] at this
        rcases this with rfl | h3
        · exact Or.inl rfl
        · exact Or.inr (mem_allTxs_acquire (mem_allTxs.2 ⟨_, _, lookup_mem hl, h3⟩))
      · exact Or.inr (mem_allTxs_acquire h2)

theorem mem_allTxs_put {P : Pool} (hP : PInv P) {tx t : Tx} (h : t ∈ allTxs (P.put tx).1.lists) :
    t = tx ∨ t ∈ allTxs P.lists := by
  rw [put_eq_check_then_locked] at h
  split at h
  · exact Or.inr h
  · exact mem_allTxs_putLocked hP h

theorem mem_allTxs_removeTx {P : Pool} (hP : PInv P) {a id : Nat} {t : Tx}
    (h : t ∈ allTxs (P.removeTx a id).1.lists) : t ∈ allTxs P.lists := by
  unfold Pool.removeTx at h
  split at h
  · exact h
  · unfold Pool.removeAt at h
    simp only at h
    generalize P.removeKey a id = key at h
    obtain ⟨hP1, hl, _⟩ := pinv_acquire hP key
    have h' := mem_allTxs_release h
    simp only at h'
    rcases mem_allTxs_setL h' with h1 | h2
    · have hL := (hP1.lists _ _ (lookup_mem hl)).1
      obtain ⟨_, _, hm⟩ := remove_spec hL id
      have hsub : ((P.acquire key).2.remove id).1.list.Sublist (P.acquire key).2.list := by
        cases hr : ((P.acquire key).2.remove id).2.2 with
        | none => rw [hr] at hm; simp only at hm; rw [hm.1]; exact List.Sublist.refl _
        | some x => rw [hr] at hm; simp only at hm; exact hm.2.2.1
      exact mem_allTxs_acquire (mem_allTxs.2 ⟨_, _, lookup_mem hl, hsub.subset h1⟩)
    · exact mem_allTxs_acquire h2

theorem mem_allTxs_filterAcc {P : Pool} (hP : PInv P) {a : Nat} {t : Tx}
    (h : t ∈ allTxs (P.filterAcc a).lists) : t ∈ allTxs P.lists := by
  cases hl : lookup a P.lists with
  | none => rw [filterAcc_none hl] at h; exact h
  | some L =>
    rw [filterAcc_some hl] at h
    have h' := mem_allTxs_release h
    rw [dropTxs_lists] at h'
    unfold filterCore at h'
    simp only at h'
    rcases mem_allTxs_setL h' with h1 | h2
    · have hsub := (filter_spec (hP.lists _ _ (lookup_mem hl)).1 (P.state a)).2.2.2.1
      exact mem_allTxs.2 ⟨_, _, lookup_mem hl, hsub.subset h1⟩
    · exact h2

theorem mem_allTxs_blockArrival {P : Pool} (hP : PInv P) (new parent chain : Nat) (dirty : List Nat)
    (σ : Nat → Acct) {t : Tx} (h : t ∈ allTxs (P.blockArrival new parent chain dirty σ).lists) :
    t ∈ allTxs P.lists := by
  unfold Pool.blockArrival at h
  simp only at h
  have hS : PInv (P.setStateDB new parent chain σ).1 := pinv_setStateDB hP new parent chain σ
  have hl : (P.setStateDB new parent chain σ).1.lists = P.lists := (setStateDB_fields P new parent chain σ).1
  split at h
  · simp [Pool.resetAll] at h
  · rw [← hl]
    revert h
    generalize (P.setStateDB new parent chain σ).1 = Q at hS ⊢
    generalize keys Q.lists = ks
    induction ks generalizing Q with
    | nil => exact fun h => h
    | cons k ks ih =>
      intro h
      simp only [List.foldl] at h
      split at h
      · exact mem_allTxs_filterAcc hS (ih _ (pinv_filterAcc hS k) h)
      · exact ih _ hS h

theorem mem_allTxs_evictAcc {P : Pool} {a : Nat} {t : Tx} (h : t ∈ allTxs (P.evictAcc a).lists) :
    t ∈ allTxs P.lists := by
  unfold Pool.evictAcc at h
  split at h
  · exact h
  · obtain ⟨k, N, hkN, ht⟩ := mem_allTxs.1 h
    have hkN : (k, N) ∈ delL a (P.dropTxs _).lists := hkN
    rw [dropTxs_lists] at hkN
    exact mem_allTxs.2 ⟨k, N, (mem_delL hkN).1, ht⟩

theorem mem_allTxs_evict {P : Pool} (old : List Nat) {t : Tx} (h : t ∈ allTxs (P.evict old).lists) :
    t ∈ allTxs P.lists := by
  unfold Pool.evict at h
  revert h
  generalize keys P.lists = ks
  induction ks generalizing P with
  | nil => exact fun h => h
  | cons k ks ih =>
    intro h
    simp only [List.foldl] at h
    split at h
    · exact mem_allTxs_evictAcc (ih h)
    · exact ih h

theorem mem_allTxs_unconfirmed {P : Pool} {a : Nat} {t : Tx} (h : t ∈ allTxs (P.unconfirmed a).1.lists) :
    t ∈ allTxs P.lists := mem_allTxs_acquire h

/-! ### The locked half of a submission keeps the invariants — whatever the pre-check saw -/

/-- `putLocked` keeps `PInv` for every pool and transaction, provided a hash identifies one transaction among the
transactions held (`hid`: a held transaction with the submitted hash *is* the submitted transaction). No assumption
on what the unlocked pre-check returned, nor on when it ran. -/
theorem pinv_putLocked {P : Pool} (h : PInv P) (tx : Tx)
    (hid : ∀ t ∈ P.cache, t.id = tx.id → t = tx) : PInv (P.putLocked tx).1 := by
  obtain ⟨hP1, hl, hcache, _, _, _, _, _, _, _, hsome⟩ := pinv_acquire h tx.acc
  unfold Pool.putLocked
  simp only
  cases hput : (P.acquire tx.acc).2.put tx with
  | mk L' r =>
    cases r with
    | error e => simp only; exact pinv_release hP1 _
    | ok d =>
      simp only
      have hfresh : cacheHas tx.id (P.acquire tx.acc).1.cache = false := by
        rw [hcache]
        cases hc : cacheHas tx.id P.cache with
        | false => rfl
        | true =>
          exfalso
          obtain ⟨t, ht, htid⟩ := cacheHas_iff.1 hc
          have htx : t = tx := hid t ht htid
          subst htx
          have hin : t ∈ allTxs P.lists := h.cache.subset ht
          obtain ⟨k, N, hkN, htN⟩ := mem_allTxs.1 hin
          have hk : t.acc = k := (h.lists k N hkN).2 t htN
          subst hk
          have hlk := lookup_of_mem h.keys hkN
          obtain ⟨hLN, _⟩ := hsome N hlk
          have hnf := (put_ok (hP1.lists _ _ (lookup_mem hl)).1 hput).2.2.2.2.2
          exact hnf t (hLN ▸ htN) rfl
      exact pinv_release (pinv_put_core hP1 hl hput hfresh) _

/-- `putLocked` keeps every list based on the state the pool sees. -/
theorem baseOK_putLocked {P : Pool} (h : PInv P) (hb : BaseOK P) (tx : Tx) : BaseOK (P.putLocked tx).1 := by
  obtain ⟨hP1, hl, _⟩ := pinv_acquire h tx.acc
  have hb1 : BaseOK (P.acquire tx.acc).1 := baseOK_acquire h hb tx.acc
  unfold Pool.putLocked
  simp only
  cases hput : (P.acquire tx.acc).2.put tx with
  | mk L' r =>
    cases r with
    | error e =>
      simp only
      intro a L hL
      rw [(release_fields _ _).2.2.2.1]
      exact hb1 a L (mem_release hL)
    | ok d =>
      simp only
      intro a L hL
      rw [(release_fields _ _).2.2.2.1]
      have hL' := mem_release hL
      rcases mem_setL hL' with ⟨rfl, rfl⟩ | hL''
      · have hLi := (hP1.lists _ _ (lookup_mem hl)).1
        rw [(put_ok hLi hput).2.1]
        exact hb1 _ _ (lookup_mem hl)
      · exact hb1 a L hL''

end Aergo.Pool
