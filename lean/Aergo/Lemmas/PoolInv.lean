/-
Helper lemmas for C13, pool level (`Aergo.Pool.Pool`): the pool invariant `PInv` and its
preservation by the building blocks of the pool operations. Core Lean only.
-/
import Aergo.Lemmas.PoolList

namespace Aergo.Pool

/-- Every transaction held by the per-account lists. -/
def allTxs (ls : List (Nat × TxList)) : List Tx := ls.flatMap (fun e => e.2.list)

/-- Transactions of one list that are held aside (not ready). -/
def orph (L : TxList) : Int := (L.list.length : Int) - L.ready

def orphans (ls : List (Nat × TxList)) : Int := (ls.map (fun e => orph e.2)).sum

/-- The pool invariant: one list per account key; every list satisfies `LInv` and holds only its
account's transactions; the hash index is exactly the listed transactions (as a multiset) with no
hash twice; the counters are exact. -/
structure PInv (P : Pool) : Prop where
  keys : (keys P.lists).Nodup
  lists : ∀ a L, (a, L) ∈ P.lists → LInv L ∧ ∀ t ∈ L.list, t.acc = a
  cache : P.cache.Perm (allTxs P.lists)
  ids : (P.cache.map (·.id)).Nodup
  length : P.length = ((allTxs P.lists).length : Int)
  orphan : P.orphan = orphans P.lists

/-- No empty list is kept (holds between operations except after the unconfirmed report). -/
def NoEmpty (P : Pool) : Prop := ∀ a L, (a, L) ∈ P.lists → L.list ≠ []

/-- Every list's base is the account state the pool currently sees. -/
def BaseOK (P : Pool) : Prop := ∀ a L, (a, L) ∈ P.lists → L.base = P.state a

@[simp] theorem allTxs_nil : allTxs [] = [] := rfl
@[simp] theorem allTxs_cons (e : Nat × TxList) (r : List (Nat × TxList)) : allTxs (e :: r) = e.2.list ++ allTxs r := by
  simp [allTxs]
@[simp] theorem allTxs_append (a b : List (Nat × TxList)) : allTxs (a ++ b) = allTxs a ++ allTxs b := by
  simp [allTxs]
@[simp] theorem orphans_nil : orphans [] = 0 := rfl
@[simp] theorem orphans_cons (e : Nat × TxList) (r : List (Nat × TxList)) : orphans (e :: r) = orph e.2 + orphans r := by
  simp [orphans]
@[simp] theorem orphans_append (a b : List (Nat × TxList)) : orphans (a ++ b) = orphans a + orphans b := by
  simp [orphans]
@[simp] theorem keys_nil : keys [] = [] := rfl
@[simp] theorem keys_cons (e : Nat × TxList) (r : List (Nat × TxList)) : keys (e :: r) = e.1 :: keys r := rfl
@[simp] theorem keys_append (a b : List (Nat × TxList)) : keys (a ++ b) = keys a ++ keys b := by simp [keys]

theorem mem_keys {a : Nat} {ls : List (Nat × TxList)} : a ∈ keys ls ↔ ∃ L, (a, L) ∈ ls := by
  simp [keys]

/-! ### Association-list facts -/

theorem lookup_mem {a : Nat} {ls : List (Nat × TxList)} {L : TxList} (h : lookup a ls = some L) : (a, L) ∈ ls := by
  induction ls with
  | nil => simp [lookup] at h
  | cons e r ih =>
    obtain ⟨k, M⟩ := e
    unfold lookup at h
    split at h
    · next hk => injection h with h; subst h hk; exact List.mem_cons_self
    · exact List.mem_cons_of_mem _ (ih h)

theorem lookup_none {a : Nat} {ls : List (Nat × TxList)} : lookup a ls = none ↔ a ∉ keys ls := by
  induction ls with
  | nil => simp [lookup]
  | cons e r ih =>
    obtain ⟨k, M⟩ := e
    unfold lookup
    by_cases hk : k = a
    · simp [hk]
    · simp only [hk, ↓reduceIte, keys_cons, List.mem_cons, not_or]
      rw [ih]
      exact ⟨fun h => ⟨fun e => hk e.symm, h⟩, fun h => h.2⟩

theorem lookup_split {a : Nat} {ls : List (Nat × TxList)} {L : TxList} (h : lookup a ls = some L) :
    ∃ pre post, ls = pre ++ (a, L) :: post ∧ a ∉ keys pre := by
  induction ls with
  | nil => simp [lookup] at h
  | cons e r ih =>
    obtain ⟨k, M⟩ := e
    unfold lookup at h
    split at h
    · next hk => injection h with h; subst h hk; exact ⟨[], r, rfl, by simp⟩
    · next hk =>
      obtain ⟨pre, post, h1, h2⟩ := ih h
      refine ⟨(k, M) :: pre, post, by simp [h1], ?_⟩
      simp only [keys_cons, List.mem_cons, not_or]
      exact ⟨fun e => hk e.symm, h2⟩

theorem lookup_of_split {a : Nat} {pre post : List (Nat × TxList)} {L : TxList} (h : a ∉ keys pre) :
    lookup a (pre ++ (a, L) :: post) = some L := by
  induction pre with
  | nil => simp [lookup]
  | cons e r ih =>
    obtain ⟨k, M⟩ := e
    simp only [keys_cons, List.mem_cons, not_or] at h
    simp only [List.cons_append, lookup]
    rw [if_neg (fun e => h.1 e.symm)]
    exact ih h.2

theorem setL_split {a : Nat} {pre post : List (Nat × TxList)} {L M : TxList} (h : a ∉ keys pre) :
    setL a M (pre ++ (a, L) :: post) = pre ++ (a, M) :: post := by
  induction pre with
  | nil => simp [setL]
  | cons e r ih =>
    obtain ⟨k, N⟩ := e
    simp only [keys_cons, List.mem_cons, not_or] at h
    simp only [List.cons_append, setL]
    rw [if_neg (fun e => h.1 e.symm), ih h.2]

theorem delL_cons (a k : Nat) (N : TxList) (r : List (Nat × TxList)) :
    delL a ((k, N) :: r) = if k = a then delL a r else (k, N) :: delL a r := by
  unfold delL
  by_cases hk : k = a <;> simp [List.filter, hk]

@[simp] theorem delL_nil (a : Nat) : delL a [] = [] := rfl

theorem delL_notin {a : Nat} {ls : List (Nat × TxList)} (h : a ∉ keys ls) : delL a ls = ls := by
  induction ls with
  | nil => rfl
  | cons e r ih =>
    obtain ⟨k, N⟩ := e
    simp only [keys_cons, List.mem_cons, not_or] at h
    rw [delL_cons, if_neg (fun e => h.1 e.symm), ih h.2]

theorem delL_split {a : Nat} {pre post : List (Nat × TxList)} {L : TxList} (h1 : a ∉ keys pre) (h2 : a ∉ keys post) :
    delL a (pre ++ (a, L) :: post) = pre ++ post := by
  induction pre with
  | nil => simp only [List.nil_append]; rw [delL_cons, if_pos rfl, delL_notin h2]
  | cons e r ih =>
    obtain ⟨k, N⟩ := e
    simp only [keys_cons, List.mem_cons, not_or] at h1
    simp only [List.cons_append]
    rw [delL_cons, if_neg (fun e => h1.1 e.symm), ih h1.2]

theorem nodup_split {a : Nat} {pre post : List (Nat × TxList)} {L : TxList}
    (h : (keys (pre ++ (a, L) :: post)).Nodup) : a ∉ keys pre ∧ a ∉ keys post ∧ (keys (pre ++ post)).Nodup := by
  simp only [keys_append, keys_cons] at h
  have h' := List.nodup_append.1 h
  obtain ⟨hp, hq, hd⟩ := h'
  rw [List.nodup_cons] at hq
  refine ⟨fun hin => hd a hin a List.mem_cons_self rfl, hq.1, ?_⟩
  simp only [keys_append]
  exact List.nodup_append.2 ⟨hp, hq.2, fun x hx y hy => hd x hx y (List.mem_cons_of_mem _ hy)⟩

theorem lookup_of_mem {a : Nat} {ls : List (Nat × TxList)} {L : TxList} (hn : (keys ls).Nodup) (h : (a, L) ∈ ls) :
    lookup a ls = some L := by
  obtain ⟨pre, post, rfl⟩ := List.append_of_mem h
  exact lookup_of_split (nodup_split hn).1

theorem lookup_setL_ne {a b : Nat} {M : TxList} {ls : List (Nat × TxList)} (h : a ≠ b) :
    lookup a (setL b M ls) = lookup a ls := by
  induction ls with
  | nil => rfl
  | cons e r ih =>
    obtain ⟨k, N⟩ := e
    unfold setL
    by_cases hk : k = b
    · subst hk; simp [lookup, Ne.symm h]
    · simp only [hk, ↓reduceIte, lookup]; rw [ih]

theorem lookup_delL_ne {a b : Nat} {ls : List (Nat × TxList)} (h : a ≠ b) :
    lookup a (delL b ls) = lookup a ls := by
  induction ls with
  | nil => rfl
  | cons e r ih =>
    obtain ⟨k, N⟩ := e
    rw [delL_cons]
    by_cases hk : k = b
    · subst hk; simp only [↓reduceIte, lookup]; rw [if_neg (Ne.symm h)]; exact ih
    · simp only [hk, ↓reduceIte, lookup]; rw [ih]

theorem lookup_delL_self {a : Nat} {ls : List (Nat × TxList)} : lookup a (delL a ls) = none := by
  rw [lookup_none]
  intro h
  obtain ⟨L, hL⟩ := mem_keys.1 h
  unfold delL at hL
  simp at hL

theorem mem_setL {a k : Nat} {M N : TxList} {ls : List (Nat × TxList)} (h : (k, N) ∈ setL a M ls) :
    (k = a ∧ N = M) ∨ (k, N) ∈ ls := by
  induction ls with
  | nil => simp [setL] at h
  | cons e r ih =>
    obtain ⟨k', N'⟩ := e
    unfold setL at h
    split at h
    · next hk =>
      simp only [List.mem_cons, Prod.mk.injEq] at h
      rcases h with ⟨h1, h2⟩ | h
      · left; exact ⟨h1.trans hk, h2⟩
      · right; exact List.mem_cons_of_mem _ h
    · simp only [List.mem_cons, Prod.mk.injEq] at h
      rcases h with ⟨h1, h2⟩ | h
      · right; simp [h1, h2]
      · rcases ih h with h | h
        · left; exact h
        · right; exact List.mem_cons_of_mem _ h

theorem mem_delL {a k : Nat} {N : TxList} {ls : List (Nat × TxList)} (h : (k, N) ∈ delL a ls) : (k, N) ∈ ls ∧ k ≠ a := by
  unfold delL at h
  simpa using h

/-! ### The hash index -/

theorem cacheDel_sublist (id : Nat) (c : List Tx) : (cacheDel id c).Sublist c := List.filter_sublist

theorem cacheDel_ids_nodup {id : Nat} {c : List Tx} (h : (c.map (·.id)).Nodup) : ((cacheDel id c).map (·.id)).Nodup :=
  h.sublist ((cacheDel_sublist id c).map _)

theorem cacheDel_fresh {id : Nat} {c : List Tx} (h : cacheHas id c = false) : cacheDel id c = c := by
  unfold cacheDel
  apply List.filter_eq_self.2
  intro t ht
  unfold cacheHas at h
  have := List.any_eq_false.1 h t ht
  simpa using this

theorem cacheHas_iff {id : Nat} {c : List Tx} : cacheHas id c = true ↔ ∃ t ∈ c, t.id = id := by
  simp [cacheHas]

/-- Deleting the hash of `x` from an index that is a permutation of `x :: r` with distinct hashes leaves `r`. -/
theorem cacheDel_perm {c r : List Tx} {x : Tx} (hp : c.Perm (x :: r)) (hn : (c.map (·.id)).Nodup) :
    (cacheDel x.id c).Perm r := by
  have h1 : (cacheDel x.id c).Perm (cacheDel x.id (x :: r)) := hp.filter _
  have hn' : ((x :: r).map (·.id)).Nodup := (hp.map _).nodup_iff.1 hn
  simp only [List.map_cons, List.nodup_cons, List.mem_map, not_exists, not_and] at hn'
  have h2 : cacheDel x.id (x :: r) = r := by
    unfold cacheDel
    simp only [List.filter, ne_eq, not_true_eq_false, decide_false]
    apply List.filter_eq_self.2
    intro t ht
    have := hn'.1 t ht
    simpa using this
  rwa [h2] at h1

theorem dropTxs_lists (P : Pool) (txs : List Tx) : (P.dropTxs txs).lists = P.lists := by
  unfold Pool.dropTxs
  induction txs generalizing P with
  | nil => rfl
  | cons t r ih => simp only [List.foldl]; rw [ih]

theorem dropTxs_orphan (P : Pool) (txs : List Tx) : (P.dropTxs txs).orphan = P.orphan := by
  unfold Pool.dropTxs
  induction txs generalizing P with
  | nil => rfl
  | cons t r ih => simp only [List.foldl]; rw [ih]

theorem dropTxs_state (P : Pool) (txs : List Tx) : (P.dropTxs txs).state = P.state := by
  unfold Pool.dropTxs
  induction txs generalizing P with
  | nil => rfl
  | cons t r ih => simp only [List.foldl]; rw [ih]

theorem dropTxs_length (P : Pool) (txs : List Tx) : (P.dropTxs txs).length = P.length - txs.length := by
  unfold Pool.dropTxs
  induction txs generalizing P with
  | nil => simp
  | cons t r ih => simp only [List.foldl]; rw [ih]; simp only [List.length_cons]; omega

/-- Dropping from the index every transaction of `del`, when the index is a permutation of
`del ++ r` with distinct hashes, leaves exactly `r`. -/
theorem dropTxs_cache {P : Pool} {del r : List Tx} (hp : P.cache.Perm (del ++ r)) (hn : (P.cache.map (·.id)).Nodup) :
    (P.dropTxs del).cache.Perm r ∧ ((P.dropTxs del).cache.map (·.id)).Nodup := by
  unfold Pool.dropTxs
  induction del generalizing P with
  | nil => exact ⟨by simpa using hp, hn⟩
  | cons x d ih =>
    simp only [List.foldl]
    apply ih
    · exact cacheDel_perm (by simpa using hp) hn
    · exact cacheDel_ids_nodup hn

/-! ### Building blocks preserve the invariant -/

theorem PInv.congr {P Q : Pool} (h : PInv P) (h1 : Q.lists = P.lists) (h2 : Q.cache = P.cache)
    (h3 : Q.length = P.length) (h4 : Q.orphan = P.orphan) : PInv Q :=
  ⟨h1 ▸ h.keys, h1 ▸ h.lists, by rw [h1, h2]; exact h.cache, h2 ▸ h.ids, by rw [h1, h3]; exact h.length,
    by rw [h1, h4]; exact h.orphan⟩

theorem pinv_init : PInv Pool.init :=
  ⟨by simp [Pool.init], by simp [Pool.init], by simp [Pool.init], by simp [Pool.init], by simp [Pool.init],
    by simp [Pool.init]⟩

theorem linv_empty (st : Acct) : LInv ⟨st, [], 0⟩ := ⟨by simp, by simp, by simp [run]⟩

theorem pinv_acquire {P : Pool} (h : PInv P) (a : Nat) :
    PInv (P.acquire a).1 ∧ lookup a (P.acquire a).1.lists = some (P.acquire a).2 ∧
    (P.acquire a).1.cache = P.cache ∧ (P.acquire a).1.length = P.length ∧ (P.acquire a).1.orphan = P.orphan ∧
    (P.acquire a).1.state = P.state ∧ (P.acquire a).1.best = P.best ∧ (P.acquire a).1.chain = P.chain ∧
    (∀ b, b ≠ a → lookup b (P.acquire a).1.lists = lookup b P.lists) ∧
    (lookup a P.lists = none → (P.acquire a).2 = ⟨P.state a, [], 0⟩) ∧
    (∀ L, lookup a P.lists = some L → (P.acquire a).2 = L ∧ (P.acquire a).1 = P) := by
  cases hl : lookup a P.lists with
  | some L =>
    have hA : P.acquire a = (P, L) := by unfold Pool.acquire; simp [hl]
    rw [hA]
    exact ⟨h, hl, rfl, rfl, rfl, rfl, rfl, rfl, fun _ _ => rfl, fun hc => (by cases hc),
      fun L' h' => (by injection h' with h'; exact ⟨h', rfl⟩)⟩
  | none =>
    have hA : P.acquire a = ({ P with lists := P.lists ++ [(a, ⟨P.state a, [], 0⟩)] }, ⟨P.state a, [], 0⟩) := by
      unfold Pool.acquire; simp [hl]
    rw [hA]
    have hk := lookup_none.1 hl
    refine ⟨⟨?_, ?_, ?_, h.ids, ?_, ?_⟩, ?_, rfl, rfl, rfl, rfl, rfl, rfl, ?_, fun _ => rfl, fun L hc => (by cases hc)⟩
    · show (keys (P.lists ++ [(a, _)])).Nodup
      simp only [keys_append, keys_cons, keys_nil]
      exact List.nodup_append.2 ⟨h.keys, by simp, fun x hx y hy => by
        simp only [List.mem_cons, List.not_mem_nil, or_false] at hy; subst hy; exact fun e => hk (e ▸ hx)⟩
    · intro b L hb
      have hb : (b, L) ∈ P.lists ++ [(a, ⟨P.state a, [], 0⟩)] := hb
      simp only [List.mem_append, List.mem_cons, List.not_mem_nil, or_false, Prod.mk.injEq] at hb
      rcases hb with hb | ⟨rfl, rfl⟩
      · exact h.lists b L hb
      · exact ⟨linv_empty _, by simp⟩
    · show P.cache.Perm (allTxs (P.lists ++ [(a, _)]))
      simpa using h.cache
    · show P.length = ((allTxs (P.lists ++ [(a, _)])).length : Int)
      simpa using h.length
    · show P.orphan = orphans (P.lists ++ [(a, _)])
      simpa [orph] using h.orphan
    · show lookup a (P.lists ++ [(a, _)]) = some _
      exact lookup_of_split hk
    · intro b hb
      show lookup b (P.lists ++ [(a, _)]) = lookup b P.lists
      induction P.lists with
      | nil => simp [lookup, Ne.symm hb]
      | cons e r ih => obtain ⟨k, N⟩ := e; simp only [List.cons_append, lookup]; split <;> simp_all

theorem pinv_release {P : Pool} (h : PInv P) (a : Nat) : PInv (P.release a) := by
  unfold Pool.release
  cases hl : lookup a P.lists with
  | none => exact h
  | some L =>
    simp only
    split
    · next he =>
      have hem : L.list = [] := by simpa using he
      obtain ⟨pre, post, hs, _⟩ := lookup_split hl
      have hk := h.keys
      rw [hs] at hk
      obtain ⟨k1, k2, k3⟩ := nodup_split hk
      have hr := (h.lists a L (lookup_mem hl)).1.ready
      rw [hem] at hr
      have hc := h.cache; have hlen := h.length; have ho := h.orphan
      rw [hs] at hc hlen ho
      simp only [allTxs_append, allTxs_cons, hem, List.nil_append, orphans_append, orphans_cons, orph, hr, run,
        List.length_nil] at hc hlen ho
      refine ⟨?_, ?_, ?_, h.ids, ?_, ?_⟩
      · simp only; rw [hs, delL_split k1 k2]; exact k3
      · intro b M hb
        simp only at hb
        exact h.lists b M (mem_delL hb).1
      · simp only; rw [hs, delL_split k1 k2]; simpa using hc
      · simp only; rw [hs, delL_split k1 k2]; simpa using hlen
      · simp only; rw [hs, delL_split k1 k2]; simp only [orphans_append]; omega
    · exact h

theorem release_fields (P : Pool) (a : Nat) :
    (P.release a).cache = P.cache ∧ (P.release a).length = P.length ∧ (P.release a).orphan = P.orphan ∧
    (P.release a).state = P.state ∧ (P.release a).best = P.best ∧ (P.release a).chain = P.chain := by
  unfold Pool.release
  split
  · split <;> exact ⟨rfl, rfl, rfl, rfl, rfl, rfl⟩
  · exact ⟨rfl, rfl, rfl, rfl, rfl, rfl⟩

theorem lookup_release_ne {P : Pool} {a b : Nat} (h : b ≠ a) : lookup b (P.release a).lists = lookup b P.lists := by
  unfold Pool.release
  split
  · split
    · exact lookup_delL_ne h
    · rfl
  · rfl

/-- After `release a` the list at `a` is either gone (it was empty) or unchanged and non-empty. -/
theorem lookup_release_self {P : Pool} {a : Nat} :
    (lookup a (P.release a).lists = none ∧ (∀ L, lookup a P.lists = some L → L.list = [])) ∨
    (∃ L, lookup a (P.release a).lists = some L ∧ lookup a P.lists = some L ∧ L.list ≠ []) := by
  unfold Pool.release
  cases hl : lookup a P.lists with
  | none => left; simp [hl]
  | some L =>
    simp only
    split
    · next he =>
      left
      exact ⟨lookup_delL_self, fun L' h' => by injection h' with h'; subst h'; simpa using he⟩
    · next he =>
      right
      exact ⟨L, hl, rfl, by simpa using he⟩

theorem mem_release {P : Pool} {a k : Nat} {N : TxList} (h : (k, N) ∈ (P.release a).lists) : (k, N) ∈ P.lists := by
  unfold Pool.release at h
  split at h
  · split at h
    · exact (mem_delL h).1
    · exact h
  · exact h

/-- Replacing the list of account `a` by `M`, with matching index and counters, keeps the invariant. -/
theorem pinv_replace {P : Pool} (h : PInv P) {a : Nat} {L M : TxList} (hl : lookup a P.lists = some L)
    (hM : LInv M) (hacc : ∀ t ∈ M.list, t.acc = a) {c : List Tx} {len orp : Int}
    (hc : ∀ X Y : List Tx, P.cache.Perm (X ++ L.list ++ Y) → c.Perm (X ++ M.list ++ Y))
    (hids : (c.map (·.id)).Nodup)
    (hlen : len = P.length - L.list.length + M.list.length)
    (horp : orp = P.orphan - orph L + orph M) :
    PInv { P with lists := setL a M P.lists, cache := c, length := len, orphan := orp } := by
  obtain ⟨pre, post, hs, hpre⟩ := lookup_split hl
  have hcache := h.cache; have hlength := h.length; have ho := h.orphan
  rw [hs] at hcache hlength ho
  simp only [allTxs_append, allTxs_cons, orphans_append, orphans_cons, List.length_append] at hcache hlength ho
  refine ⟨?_, ?_, ?_, hids, ?_, ?_⟩
  · simp only; rw [hs, setL_split hpre]
    have := h.keys; rw [hs] at this; simpa using this
  · intro b N hb
    rcases mem_setL hb with ⟨rfl, rfl⟩ | hb
    · exact ⟨hM, hacc⟩
    · exact h.lists b N hb
  · simp only; rw [hs, setL_split hpre]
    simp only [allTxs_append, allTxs_cons]
    have := hc (allTxs pre) (allTxs post) (by simpa [List.append_assoc] using hcache)
    simpa [List.append_assoc] using this
  · simp only; rw [hs, setL_split hpre]
    simp only [allTxs_append, allTxs_cons, List.length_append]
    omega
  · simp only; rw [hs, setL_split hpre]
    simp only [orphans_append, orphans_cons]
    omega

theorem foldl_preserves {α : Type} (Q : Pool → Prop) (f : Pool → α → Pool) (hf : ∀ P a, Q P → Q (f P a)) :
    ∀ (l : List α) (P : Pool), Q P → Q (l.foldl f P) := by
  intro l
  induction l with
  | nil => intro P h; exact h
  | cons x r ih => intro P h; exact ih _ (hf P x h)

end Aergo.Pool
