/-
Helper lemmas for C13, per-account list level (`Aergo.Pool.TxList`).
Core Lean only.
-/
import Aergo.Model.Pool

namespace Aergo.Pool

/-- Length of the longest prefix of `l` whose nonces are `b+1, b+2, …` (specification of `ready`). -/
def run (b : Nat) : List Tx → Nat
  | [] => 0
  | t :: r => if t.nonce = b + 1 then run (b + 1) r + 1 else 0

/-- The per-account list invariant: every nonce above the base nonce, nonces strictly ascending,
`ready` = length of the maximal gap-free run starting at base+1. -/
structure LInv (L : TxList) : Prop where
  above : ∀ t ∈ L.list, L.base.nonce < t.nonce
  sorted : L.list.Pairwise (fun a b => a.nonce < b.nonce)
  ready : L.ready = run L.base.nonce L.list

/-- Index form of "`r` is the length of the maximal run from `b+1`". -/
def RunSpec (b : Nat) (l : List Tx) (r : Nat) : Prop :=
  r ≤ l.length ∧ (∀ k, k < r → nonceAt l k = b + k + 1) ∧ (r < l.length → nonceAt l r ≠ b + r + 1)

@[simp] theorem nonceAt_cons_zero (t : Tx) (l : List Tx) : nonceAt (t :: l) 0 = t.nonce := rfl
@[simp] theorem nonceAt_cons_succ (t : Tx) (l : List Tx) (k : Nat) : nonceAt (t :: l) (k + 1) = nonceAt l k := by
  simp [nonceAt]

theorem nonceAt_of_lt {l : List Tx} {k : Nat} (h : k < l.length) : nonceAt l k = (l[k]).nonce := by
  simp [nonceAt, h]

theorem run_spec (b : Nat) (l : List Tx) : RunSpec b l (run b l) := by
  induction l generalizing b with
  | nil => exact ⟨Nat.le_refl _, fun k h => absurd h (Nat.not_lt_zero k), fun h => absurd h (Nat.lt_irrefl _)⟩
  | cons t r ih =>
    unfold run
    split
    · next h =>
      obtain ⟨h1, h2, h3⟩ := ih (b + 1)
      refine ⟨by simp; omega, ?_, ?_⟩
      · intro k hk
        cases k with
        | zero => simp [h]
        | succ k => simp; rw [h2 k (by omega)]; omega
      · intro hlt
        simp only [nonceAt_cons_succ]
        have := h3 (by simpa using hlt)
        omega
    · next h =>
      refine ⟨Nat.zero_le _, fun k hk => absurd hk (Nat.not_lt_zero k), fun _ => ?_⟩
      simpa using h

theorem run_unique {b : Nat} {l : List Tx} {r : Nat} (h : RunSpec b l r) : run b l = r := by
  induction l generalizing b r with
  | nil => obtain ⟨h1, _, _⟩ := h; simp at h1; simp [run, h1]
  | cons t l ih =>
    obtain ⟨h1, h2, h3⟩ := h
    unfold run
    split
    · next ht =>
      cases r with
      | zero => exact absurd (by simpa using ht) (h3 (by simp))
      | succ r =>
        have : run (b + 1) l = r := by
          apply ih
          refine ⟨by simpa using h1, ?_, ?_⟩
          · intro k hk
            have := h2 (k + 1) (by omega)
            simp at this; omega
          · intro hlt
            have := h3 (by simpa using hlt)
            simp at this; omega
        omega
    · next ht =>
      cases r with
      | zero => rfl
      | succ r => exact absurd (by simpa using h2 0 (by omega)) ht

theorem run_le_length (b : Nat) (l : List Tx) : run b l ≤ l.length := (run_spec b l).1

theorem LInv.ready_le {L : TxList} (h : LInv L) : L.ready ≤ L.list.length := by
  rw [h.ready]; exact run_le_length _ _

/-- With `ready = index` and a gap-free prefix, `continuous(index)` tests `list[index].nonce = base+index+1`. -/
theorem contAt_sync {b : Nat} {l : List Tx} {r : Nat} (hpre : ∀ k, k < r → nonceAt l k = b + k + 1) :
    contAt b l r r = true ↔ nonceAt l r = b + r + 1 := by
  unfold contAt
  by_cases hr : r > 0
  · have := hpre (r - 1) (by omega)
    simp only [hr, ↓reduceIte, this, beq_iff_eq]
    omega
  · have : r = 0 := by omega
    subst this
    simp only [Nat.lt_irrefl, ↓reduceIte, beq_iff_eq]
    omega

/-- The ready-extension loop started in sync (`index = ready`, prefix gap-free) computes the maximal run. -/
theorem extendGo_sync {b : Nat} {l : List Tx} (n : Nat) : ∀ (r : Nat), l.length - r = n →
    (∀ k, k < r → nonceAt l k = b + k + 1) → r ≤ l.length → RunSpec b l (extendGo b l r r) := by
  induction n with
  | zero =>
    intro r hn hpre hle
    unfold extendGo
    have : ¬ r < l.length := by omega
    simp only [this, ↓reduceIte]
    exact ⟨hle, hpre, fun h => absurd h this⟩
  | succ n ih =>
    intro r hn hpre hle
    unfold extendGo
    have hlt : r < l.length := by omega
    simp only [hlt, ↓reduceIte]
    by_cases hc : contAt b l r r = true
    · simp only [hc, ↓reduceIte]
      apply ih (r + 1) (by omega) _ (by omega)
      intro k hk
      by_cases hk' : k < r
      · exact hpre k hk'
      · have : k = r := by omega
        subst this
        exact (contAt_sync hpre).1 hc
    · simp only [hc]
      refine ⟨hle, hpre, fun _ => ?_⟩
      intro heq
      exact hc ((contAt_sync hpre).2 heq)

/-- `updateReady` computes the specification `run`. -/
theorem updateReady_eq_run (b : Nat) (l : List Tx) : updateReady b l = run b l := by
  unfold updateReady
  exact (run_unique (extendGo_sync (l.length - 0) 0 rfl (fun k hk => absurd hk (Nat.not_lt_zero k)) (Nat.zero_le _))).symm

/-! ### `sort.Search` -/

/-- Invariant of the binary search on a list with non-decreasing nonces. -/
theorem searchGo_spec {l : List Tx} {key : Nat}
    (mono : ∀ k1 k2, k1 ≤ k2 → k2 < l.length → nonceAt l k1 ≤ nonceAt l k2) :
    ∀ (n i j : Nat), j - i = n → i ≤ j → j ≤ l.length →
      (∀ k, k < i → nonceAt l k < key) → (∀ k, j ≤ k → k < l.length → key ≤ nonceAt l k) →
      let r := searchGo l key i j
      i ≤ r ∧ r ≤ j ∧ (∀ k, k < r → nonceAt l k < key) ∧ (∀ k, r ≤ k → k < l.length → key ≤ nonceAt l k) := by
  intro n
  induction n using Nat.strongRecOn with
  | _ n ih =>
    intro i j hn hij hj hlo hhi
    unfold searchGo
    by_cases hlt : i < j
    · simp only [hlt, ↓reduceIte]
      have hh : (i + j) / 2 < j := by omega
      have hh' : i ≤ (i + j) / 2 := by omega
      by_cases hc : nonceAt l ((i + j) / 2) ≥ key
      · simp only [hc, not_true_eq_false, ↓reduceIte]
        have := ih (((i + j) / 2) - i) (by omega) i ((i + j) / 2) rfl hh' (by omega) hlo
          (fun k hk hkl => Nat.le_trans hc (mono _ _ hk hkl))
        obtain ⟨a, b, c, d⟩ := this
        exact ⟨a, by omega, c, d⟩
      · simp only [hc, not_false_eq_true, ↓reduceIte]
        have := ih (j - ((i + j) / 2 + 1)) (by omega) ((i + j) / 2 + 1) j rfl (by omega) hj
          (fun k hk => by
            have h1 := mono k ((i + j) / 2) (by omega) (by omega)
            omega) hhi
        obtain ⟨a, b, c, d⟩ := this
        exact ⟨by omega, b, c, d⟩
    · simp only [hlt, ↓reduceIte]
      have : i = j := by omega
      subst this
      exact ⟨Nat.le_refl _, Nat.le_refl _, hlo, hhi⟩

theorem sorted_mono {l : List Tx} (hs : l.Pairwise (fun a b => a.nonce < b.nonce)) :
    ∀ k1 k2, k1 ≤ k2 → k2 < l.length → nonceAt l k1 ≤ nonceAt l k2 := by
  intro k1 k2 h12 h2
  rw [nonceAt_of_lt h2, nonceAt_of_lt (by omega : k1 < l.length)]
  by_cases h : k1 = k2
  · subst h; exact Nat.le_refl _
  · exact Nat.le_of_lt (List.pairwise_iff_getElem.1 hs k1 k2 (by omega) h2 (by omega))

theorem sorted_strict {l : List Tx} (hs : l.Pairwise (fun a b => a.nonce < b.nonce)) :
    ∀ k1 k2, k1 < k2 → k2 < l.length → nonceAt l k1 < nonceAt l k2 := by
  intro k1 k2 h12 h2
  rw [nonceAt_of_lt h2, nonceAt_of_lt (by omega : k1 < l.length)]
  exact List.pairwise_iff_getElem.1 hs k1 k2 (by omega) h2 h12

/-- `search` on a strictly ascending list: the position splits the list at the key, and `found`
says whether the key's nonce is present. -/
theorem search_spec {l : List Tx} (hs : l.Pairwise (fun a b => a.nonce < b.nonce)) (key : Nat) :
    let i := (search l key).1
    i ≤ l.length ∧ (∀ k, k < i → nonceAt l k < key) ∧ (∀ k, i ≤ k → k < l.length → key ≤ nonceAt l k) ∧
    ((search l key).2 = true ↔ (i < l.length ∧ nonceAt l i = key)) := by
  have := searchGo_spec (key := key) (sorted_mono hs) l.length 0 l.length rfl (Nat.zero_le _) (Nat.le_refl _)
    (fun k hk => absurd hk (Nat.not_lt_zero k)) (fun k hk hkl => absurd hkl (by omega))
  obtain ⟨_, b, c, d⟩ := this
  refine ⟨b, c, d, ?_⟩
  simp [search]

/-! ### Insertion -/

theorem nonceAt_insert_lt {l : List Tx} {i k : Nat} (tx : Tx) (hk : k < i) (hi : i ≤ l.length) :
    nonceAt (l.take i ++ tx :: l.drop i) k = nonceAt l k := by
  unfold nonceAt
  rw [List.getElem?_append_left (by simp; omega), List.getElem?_take_of_lt hk]

theorem nonceAt_insert_eq {l : List Tx} {i : Nat} (tx : Tx) (hi : i ≤ l.length) :
    nonceAt (l.take i ++ tx :: l.drop i) i = tx.nonce := by
  unfold nonceAt
  rw [List.getElem?_append_right (by rw [List.length_take]; exact Nat.min_le_left _ _)]
  simp [Nat.min_eq_left hi]

theorem nonceAt_insert_gt {l : List Tx} {i k : Nat} (tx : Tx) (hk : i ≤ k) (hi : i ≤ l.length) :
    nonceAt (l.take i ++ tx :: l.drop i) (k + 1) = nonceAt l k := by
  unfold nonceAt
  rw [List.getElem?_append_right (by simp; omega)]
  simp only [List.length_take, Nat.min_eq_left hi]
  have : k + 1 - i = (k - i) + 1 := by omega
  rw [this, List.getElem?_cons_succ, List.getElem?_drop]
  congr 2; omega

theorem mem_take_nonce {l : List Tx} {i : Nat} {t : Tx} (h : t ∈ l.take i) : ∃ k, k < i ∧ k < l.length ∧ nonceAt l k = t.nonce := by
  obtain ⟨k, hk, rfl⟩ := List.mem_take_iff_getElem.1 h
  have : k < l.length := by omega
  exact ⟨k, by omega, this, nonceAt_of_lt this⟩

theorem mem_drop_nonce {l : List Tx} {i : Nat} {t : Tx} (h : t ∈ l.drop i) : ∃ k, i ≤ k ∧ k < l.length ∧ nonceAt l k = t.nonce := by
  obtain ⟨k, hk, rfl⟩ := List.mem_drop_iff_getElem.1 h
  exact ⟨i + k, by omega, by omega, nonceAt_of_lt (by omega)⟩

theorem mem_nonceAt {l : List Tx} {k : Nat} (h : k < l.length) : ∃ t ∈ l, t.nonce = nonceAt l k :=
  ⟨l[k], List.getElem_mem h, (nonceAt_of_lt h).symm⟩

/-- Lower bound on the first transaction after the ready run: it is at least two above the run's end. -/
theorem after_run_gap {L : TxList} (h : LInv L) (hr : L.ready < L.list.length) :
    L.base.nonce + L.ready + 2 ≤ nonceAt L.list L.ready := by
  obtain ⟨_, h2, h3⟩ := h.ready ▸ run_spec L.base.nonce L.list
  have hne := h3 hr
  have hgt : L.base.nonce + L.ready < nonceAt L.list L.ready := by
    by_cases h0 : L.ready = 0
    · obtain ⟨t, ht, hn⟩ := mem_nonceAt hr
      have := h.above t ht
      omega
    · have := sorted_strict h.sorted (L.ready - 1) L.ready (by omega) hr
      have := h2 (L.ready - 1) (by omega)
      omega
  omega

/-- `Put` on a list satisfying the invariant, success case. -/
theorem put_ok {L L' : TxList} {tx : Tx} {d : Int} (h : LInv L) (hp : L.put tx = (L', .ok d)) :
    LInv L' ∧ L'.base = L.base ∧ L'.list.Perm (tx :: L.list) ∧
    d = ((L.list.length : Int) - L.ready) - ((L'.list.length : Int) - L'.ready) ∧
    L.base.nonce < tx.nonce ∧ (∀ t ∈ L.list, t.nonce ≠ tx.nonce) := by
  unfold TxList.put at hp
  by_cases hlow : tx.nonce ≤ L.base.nonce
  · simp [hlow] at hp
  · simp only [hlow, ↓reduceIte] at hp
    by_cases hf : (search L.list tx.nonce).2 = true
    · simp [hf] at hp
    · simp only [hf] at hp
      obtain ⟨hi, hlo, hhi, hfound⟩ := search_spec h.sorted tx.nonce
      generalize hidx : (search L.list tx.nonce).1 = i at hp hi hlo hhi hfound
      have hnf : ¬ (i < L.list.length ∧ nonceAt L.list i = tx.nonce) := fun hc => hf (hfound.2 hc)
      -- strictness after the insertion point
      have hhi' : ∀ k, i ≤ k → k < L.list.length → tx.nonce < nonceAt L.list k := by
        intro k hk hkl
        by_cases hki : k = i
        · subst hki
          have := hhi k (Nat.le_refl _) hkl
          have : nonceAt L.list k ≠ tx.nonce := fun e => hnf ⟨hkl, e⟩
          omega
        · have := sorted_strict h.sorted i k (by omega) hkl
          have := hhi i (Nat.le_refl _) (by omega)
          omega
      have hfresh : ∀ t ∈ L.list, t.nonce ≠ tx.nonce := by
        intro t ht
        obtain ⟨k, hk, rfl⟩ := List.mem_iff_getElem.1 ht
        rw [← nonceAt_of_lt hk]
        by_cases hki : k < i
        · have := hlo k hki; omega
        · have := hhi' k (by omega) hk; omega
      injection hp with hL hd
      injection hd with hd
      subst hL
      refine ⟨⟨?_, ?_, ?_⟩, rfl, ?_, hd.symm, by omega, hfresh⟩
      · -- above
        intro t ht
        simp only [List.mem_append, List.mem_cons] at ht
        show L.base.nonce < t.nonce
        rcases ht with ht | rfl | ht
        · exact h.above t (List.mem_of_mem_take ht)
        · omega
        · exact h.above t (List.mem_of_mem_drop ht)
      · -- sorted
        simp only
        rw [List.pairwise_append]
        refine ⟨h.sorted.sublist (List.take_sublist _ _), ?_, ?_⟩
        · rw [List.pairwise_cons]
          refine ⟨?_, h.sorted.sublist (List.drop_sublist _ _)⟩
          intro t ht
          obtain ⟨k, hk1, hk2, hk3⟩ := mem_drop_nonce ht
          rw [← hk3]; exact hhi' k hk1 hk2
        · intro a ha b hb
          obtain ⟨k, hk1, _, hk3⟩ := mem_take_nonce ha
          have ha' : a.nonce < tx.nonce := by rw [← hk3]; exact hlo k hk1
          simp only [List.mem_cons] at hb
          rcases hb with rfl | hb
          · exact ha'
          · obtain ⟨k', hk1', hk2', hk3'⟩ := mem_drop_nonce hb
            have := hhi' k' hk1' hk2'
            omega
      · -- ready
        simp only
        obtain ⟨r1, r2, r3⟩ := h.ready ▸ run_spec L.base.nonce L.list
        have hrle := h.ready_le
        have hri : L.ready ≤ i := by
          apply Nat.le_of_not_lt
          intro hlt
          have e1 := r2 i hlt
          have e2 := hhi' i (Nat.le_refl _) (by omega)
          by_cases hi0 : i = 0
          · omega
          · have e3 := r2 (i - 1) (by omega)
            have e4 := hlo (i - 1) (by omega)
            omega
        have hpre' : ∀ k, k < L.ready → nonceAt (L.list.take i ++ tx :: L.list.drop i) k = L.base.nonce + k + 1 := by
          intro k hk
          rw [nonceAt_insert_lt tx (by omega) hi]; exact r2 k hk
        have hlen' : (L.list.take i ++ tx :: L.list.drop i).length = L.list.length + 1 := by
          simp [Nat.min_eq_left hi]; omega
        by_cases hri' : L.ready = i
        · subst hri'
          exact (run_unique (extendGo_sync _ L.ready rfl hpre' (by rw [hlen']; omega))).symm
        · have hlt : L.ready < i := by omega
          have hgap := after_run_gap h (by omega)
          have hlo' := hlo L.ready hlt
          have hnc : contAt L.base.nonce (L.list.take i ++ tx :: L.list.drop i) L.ready i = false := by
            unfold contAt
            rw [nonceAt_insert_eq tx hi]
            by_cases h0 : L.ready > 0
            · simp only [h0, ↓reduceIte]
              rw [nonceAt_insert_lt tx (by omega) hi, r2 (L.ready - 1) (by omega)]
              simp; omega
            · simp only [h0, ↓reduceIte]
              simp; omega
          unfold extendGo
          simp only [hlen', show i < L.list.length + 1 by omega, ↓reduceIte, hnc, Bool.false_eq_true]
          symm
          apply run_unique
          refine ⟨by omega, hpre', fun _ => ?_⟩
          rw [nonceAt_insert_lt tx hlt hi]
          omega
      · simp only
        have := @List.perm_middle _ tx (L.list.take i) (L.list.drop i)
        rwa [List.take_append_drop] at this

/-- `Put`, error cases: the list is unchanged; `low` iff the nonce is not above the base nonce;
`same` only if a transaction with that nonce is already held. -/
theorem put_err {L L' : TxList} {tx : Tx} {e : PutErr} (h : LInv L) (hp : L.put tx = (L', .error e)) :
    L' = L ∧ (e = .low → tx.nonce ≤ L.base.nonce) ∧
    (e = .same → L.base.nonce < tx.nonce ∧ ∃ t ∈ L.list, t.nonce = tx.nonce) := by
  unfold TxList.put at hp
  by_cases hlow : tx.nonce ≤ L.base.nonce
  · simp only [hlow, ↓reduceIte] at hp
    injection hp with h1 h2; injection h2 with h2
    subst h1 h2
    exact ⟨rfl, fun _ => hlow, fun hc => (by cases hc)⟩
  · simp only [hlow, ↓reduceIte] at hp
    by_cases hf : (search L.list tx.nonce).2 = true
    · simp only [hf, ↓reduceIte] at hp
      injection hp with h1 h2; injection h2 with h2
      subst h1 h2
      obtain ⟨_, _, _, hfound⟩ := search_spec h.sorted tx.nonce
      obtain ⟨hk, hn⟩ := hfound.1 hf
      obtain ⟨t, ht, htn⟩ := mem_nonceAt hk
      exact ⟨rfl, fun hc => (by cases hc), fun _ => ⟨by omega, t, ht, by omega⟩⟩
    · simp [hf] at hp

/-! ### FilterByState -/

theorem filterGo_sublist (st : Acct) (bc : Bool) (l : List Tx) : (filterGo st bc l).1.Sublist l := by
  induction l with
  | nil => simp [filterGo]
  | cons x rest ih =>
    unfold filterGo
    split
    · exact List.Sublist.cons_cons _ ih
    · split
      · exact List.Sublist.refl _
      · exact List.Sublist.cons_cons _ ih
    · exact List.Sublist.cons _ ih

theorem filterGo_perm (st : Acct) (bc : Bool) (l : List Tx) :
    ((filterGo st bc l).1 ++ (filterGo st bc l).2).Perm l := by
  induction l with
  | nil => simp [filterGo]
  | cons x rest ih =>
    unfold filterGo
    split
    · simpa using ih
    · split
      · simp
      · simpa using ih
    · simp only
      exact (List.perm_middle).trans (List.Perm.cons _ ih)

theorem validate_cases (st : Acct) (t : Tx) :
    (validate st t = some .low ∧ t.nonce ≤ st.nonce) ∨
    (validate st t = some .insufficient ∧ st.nonce < t.nonce ∧ st.bal < t.cost) ∨
    (validate st t = some .high ∧ st.nonce + 1 < t.nonce ∧ t.cost ≤ st.bal) ∨
    (validate st t = none ∧ t.nonce = st.nonce + 1 ∧ t.cost ≤ st.bal) := by
  by_cases h1 : st.nonce + 1 > t.nonce
  · exact Or.inl ⟨by simp [validate, h1], by omega⟩
  · by_cases h2 : st.bal < t.cost
    · exact Or.inr (Or.inl ⟨by simp [validate, h1, h2], by omega, h2⟩)
    · by_cases h3 : st.nonce + 1 < t.nonce
      · exact Or.inr (Or.inr (Or.inl ⟨by simp [validate, h1, h2, h3], h3, by omega⟩))
      · exact Or.inr (Or.inr (Or.inr ⟨by simp [validate, h1, h2, h3], by omega, by omega⟩))

theorem filterGo_above {st : Acct} {bc : Bool} {l : List Tx} (hs : l.Pairwise (fun a b => a.nonce < b.nonce)) :
    ∀ t ∈ (filterGo st bc l).1, st.nonce < t.nonce := by
  induction l with
  | nil => simp [filterGo]
  | cons x rest ih =>
    rw [List.pairwise_cons] at hs
    rcases validate_cases st x with ⟨hv, h⟩ | ⟨hv, h⟩ | ⟨hv, h⟩ | ⟨hv, h⟩
    · simp only [filterGo, hv]; exact ih hs.2
    · simp only [filterGo, hv]; exact ih hs.2
    · simp only [filterGo, hv]
      split
      · intro t ht
        simp only [List.mem_cons] at ht
        rcases ht with rfl | ht
        · omega
        · have := hs.1 t ht; omega
      · intro t ht
        simp only [List.mem_cons] at ht
        rcases ht with rfl | ht
        · omega
        · exact ih hs.2 t ht
    · simp only [filterGo, hv]
      intro t ht
      simp only [List.mem_cons] at ht
      rcases ht with rfl | ht
      · omega
      · exact ih hs.2 t ht

/-- What `filterGo` removes fails validation with *nonce too low* or *insufficient balance*. -/
theorem filterGo_removed {st : Acct} {bc : Bool} {l : List Tx} :
    ∀ t ∈ (filterGo st bc l).2, t.nonce ≤ st.nonce ∨ st.bal < t.cost := by
  induction l with
  | nil => simp [filterGo]
  | cons x rest ih =>
    rcases validate_cases st x with ⟨hv, h⟩ | ⟨hv, h⟩ | ⟨hv, h⟩ | ⟨hv, h⟩
    · simp only [filterGo, hv]
      intro t ht
      simp only [List.mem_cons] at ht
      rcases ht with rfl | ht
      · left; exact h
      · exact ih t ht
    · simp only [filterGo, hv]
      intro t ht
      simp only [List.mem_cons] at ht
      rcases ht with rfl | ht
      · right; exact h.2
      · exact ih t ht
    · simp only [filterGo, hv]
      split
      · simp
      · exact ih
    · simp only [filterGo, hv]; exact ih

/-- `FilterByState` on a list satisfying the invariant. -/
theorem filter_spec {L : TxList} (h : LInv L) (st : Acct) :
    LInv (L.filter st).1 ∧ (L.filter st).1.base = st ∧ ((L.filter st).1.list ++ (L.filter st).2.2).Perm L.list ∧
    (L.filter st).1.list.Sublist L.list ∧
    (L.filter st).2.1 = ((L.list.length : Int) - L.ready) - (((L.filter st).1.list.length : Int) - (L.filter st).1.ready) ∧
    (∀ t ∈ (L.filter st).1.list, st.nonce < t.nonce) ∧
    (∀ t ∈ (L.filter st).2.2, t.nonce ≤ st.nonce ∨ st.bal < t.cost) := by
  by_cases hn : L.base.nonce = st.nonce
  · have hF : L.filter st = ({ L with base := st }, 0, []) := by unfold TxList.filter; simp [hn]
    rw [hF]
    refine ⟨⟨?_, h.sorted, ?_⟩, rfl, by simp, List.Sublist.refl _, by simp, ?_, by simp⟩
    · intro t ht; have := h.above t ht; show st.nonce < t.nonce; omega
    · show L.ready = run st.nonce L.list; rw [← hn]; exact h.ready
    · intro t ht; have := h.above t ht; omega
  · have hF : L.filter st =
        ((⟨st, (filterGo st (decide (L.base.bal > st.bal)) L.list).1,
            updateReady st.nonce (filterGo st (decide (L.base.bal > st.bal)) L.list).1⟩ : TxList),
        ((L.list.length : Int) - L.ready) - (((filterGo st (decide (L.base.bal > st.bal)) L.list).1.length : Int) -
          updateReady st.nonce (filterGo st (decide (L.base.bal > st.bal)) L.list).1),
        (filterGo st (decide (L.base.bal > st.bal)) L.list).2) := by
      unfold TxList.filter; simp [hn]
    rw [hF]
    have habove := filterGo_above (st := st) (bc := decide (L.base.bal > st.bal)) h.sorted
    exact ⟨⟨habove, h.sorted.sublist (filterGo_sublist _ _ _), updateReady_eq_run _ _⟩, rfl,
      filterGo_perm _ _ _, filterGo_sublist _ _ _, rfl, habove, filterGo_removed⟩

/-! ### RemoveTx -/

theorem removeFirst_some {id : Nat} {l l' : List Tx} {x : Tx} (h : removeFirst id l = some (x, l')) :
    x.id = id ∧ l.Perm (x :: l') ∧ l'.Sublist l := by
  induction l generalizing l' with
  | nil => simp [removeFirst] at h
  | cons y rest ih =>
    unfold removeFirst at h
    split at h
    · next hy =>
      injection h with h; injection h with h1 h2; subst h1 h2
      exact ⟨hy, List.Perm.refl _, List.sublist_cons_self _ _⟩
    · split at h
      · simp at h
      · next z r hr =>
        injection h with h; injection h with h1 h2; subst h1 h2
        obtain ⟨a, b, c⟩ := ih hr
        exact ⟨a, (List.Perm.cons _ b).trans (List.Perm.swap _ _ _), List.Sublist.cons_cons _ c⟩

theorem removeFirst_none {id : Nat} {l : List Tx} (h : removeFirst id l = none) : ∀ t ∈ l, t.id ≠ id := by
  induction l with
  | nil => simp
  | cons y rest ih =>
    unfold removeFirst at h
    split at h
    · simp at h
    · next hy =>
      split at h
      · next hr =>
        intro t ht
        simp only [List.mem_cons] at ht
        rcases ht with rfl | ht
        · exact hy
        · exact ih hr t ht
      · simp at h

/-- `RemoveTx` on a list satisfying the invariant. -/
theorem remove_spec {L : TxList} (h : LInv L) (id : Nat) :
    LInv (L.remove id).1 ∧ (L.remove id).1.base = L.base ∧
    (match (L.remove id).2.2 with
     | none => (L.remove id).1 = L ∧ (L.remove id).2.1 = 0 ∧ ∀ t ∈ L.list, t.id ≠ id
     | some x => x.id = id ∧ L.list.Perm (x :: (L.remove id).1.list) ∧ (L.remove id).1.list.Sublist L.list ∧
        (L.remove id).2.1 = (((L.remove id).1.list.length : Int) - (L.remove id).1.ready) - ((L.list.length : Int) - L.ready)) := by
  unfold TxList.remove
  split
  · next hr => exact ⟨h, rfl, rfl, rfl, removeFirst_none hr⟩
  · next x l' hr =>
    obtain ⟨a, b, c⟩ := removeFirst_some hr
    refine ⟨⟨fun t ht => h.above t (c.subset ht), h.sorted.sublist c, updateReady_eq_run _ _⟩, rfl, a, b, c, ?_⟩
    have := b.length_eq
    simp only [List.length_cons] at this
    simp only
    omega

/-! ### What is offered -/

theorem get_nonces {L : TxList} (h : LInv L) : L.get.map (·.nonce) = List.range' (L.base.nonce + 1) L.ready := by
  obtain ⟨r1, r2, _⟩ := h.ready ▸ run_spec L.base.nonce L.list
  apply List.ext_getElem
  · simp [TxList.get, Nat.min_eq_left h.ready_le]
  · intro k h1 h2
    simp only [TxList.get, List.length_map, List.length_take, List.length_range'] at h1 h2
    simp only [TxList.get, List.getElem_map, List.getElem_take, List.getElem_range']
    have := r2 k (by omega)
    rw [nonceAt_of_lt (by omega)] at this
    omega

/-- A held transaction is offered iff every nonce from base+1 up to its own is held. -/
theorem offered_iff {L : TxList} (h : LInv L) (t : Tx) :
    t ∈ L.get ↔ t ∈ L.list ∧ ∀ n, L.base.nonce < n → n ≤ t.nonce → ∃ s ∈ L.list, s.nonce = n := by
  obtain ⟨r1, r2, r3⟩ := h.ready ▸ run_spec L.base.nonce L.list
  have hrle := h.ready_le
  constructor
  · intro ht
    obtain ⟨k, hk1, hk2, hk3⟩ := mem_take_nonce ht
    refine ⟨List.mem_of_mem_take ht, fun n hn1 hn2 => ?_⟩
    have := r2 k hk1
    obtain ⟨s, hs, hsn⟩ := mem_nonceAt (l := L.list) (k := n - L.base.nonce - 1) (by omega)
    refine ⟨s, hs, ?_⟩
    rw [hsn, r2 _ (by omega)]; omega
  · rintro ⟨ht, hall⟩
    obtain ⟨k, hk, rfl⟩ := List.mem_iff_getElem.1 ht
    by_cases hkr : k < L.ready
    · exact List.mem_take_iff_getElem.2 ⟨k, by omega, rfl⟩
    · exfalso
      have hr : L.ready < L.list.length := by omega
      have hgap := after_run_gap h hr
      have hmono := sorted_mono h.sorted L.ready k (by omega) hk
      rw [nonceAt_of_lt hk] at hmono
      obtain ⟨s, hs, hsn⟩ := hall (L.base.nonce + L.ready + 1) (by omega) (by omega)
      obtain ⟨j, hj, rfl⟩ := List.mem_iff_getElem.1 hs
      rw [← nonceAt_of_lt hj] at hsn
      by_cases hjr : j < L.ready
      · have := r2 j hjr; omega
      · have := sorted_mono h.sorted L.ready j (by omega) hj
        omega

end Aergo.Pool
