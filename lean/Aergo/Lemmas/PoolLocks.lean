/-
Lock discipline of the transaction pool (C13, concurrency clause): a checker over the table that
`tools/goext poollocks` regenerates from mempool/mempool.go, txverifier.go and txlist.go on every run
(`Aergo.Gen.PoolLocks.fns`: per function, every write / read of a guarded field of the pool, every list mutation,
hash-index update and call of another pool function, each with the level of the pool's own `sync.RWMutex` held at that
point of the body: 0 none, 1 shared, 2 exclusive).

`entry` makes the table interprocedural: a *helper* (`internal` in the table: unexported, or a method of an unexported
type, and never used as a value) is entered with the minimum over ALL its call sites of max(entry of the caller, level
at the site), iterated to a fixpoint for helpers of helpers; a helper called once with and once without the lock is
unlocked, one without any call site too. Every other function may be called from anywhere holding nothing (level 0).
A read named `<field>~` is a mention of a local variable derived from that field (for `pool`: the lists and the slices
they hand out), judged at the level held where the local is *used*.
`violations` lists every write, list mutation or hash-index update that can happen below the exclusive level and every
read of a guarded field that can happen with no lock at all. Core Lean only.
-/
import Aergo.Gen.PoolLocks

namespace Aergo.PoolLocks
open Aergo.Gen.PoolLocks

/-- A helper: every function of that name in the table is `internal` (unexported or a method of an unexported type,
and never used as a value — decided by the extractor), so it is entered only through the call sites the table lists.
Everything else — the actor's `Receive`, `Size`, `Statistics`, … — may be called from anywhere, holding nothing. -/
def isHelper (fs : List Fn) (n : String) : Bool :=
  (fs.filter fun f => f.name == n).all fun f => f.internal

/-- Start-up code: runs once when the component is started (`BeforeStart` before the actor exists; `AfterStart` spawns
the verifier pool, then calls `setStateDB` for the chain's best block without the lock, then starts the monitor). Its call
sites do not count for the entry levels and its own accesses are not judged. -/
def startup : List String := ["BeforeStart", "AfterStart"]

/-- Entry level recorded for a name (the weakest, should two functions share a short name). -/
def lookupE (e : List (String × Nat)) (n : String) : Nat :=
  match e.filter (fun p => p.1 == n) with
  | [] => 0
  | p :: r => r.foldl (fun m q => Nat.min m q.2) p.2

/-- (caller, level at the site) of every call of `h` from another function: `call` effects and list operations by
method name. -/
def sitesOf (fs : List Fn) (h : String) : List (String × Nat) :=
  (fs.filter fun f => !startup.contains f.name && f.name != h).flatMap fun f =>
    (f.effs.filter (fun x => (x.kind == 4 || x.kind == 2) && x.what == h)).map (fun x => (f.name, x.lock))

/-- One round: a helper is entered with the weakest of max(entry of the caller, level at the site) over all its call
sites; with no call site at all, or when it is not a helper, with nothing. -/
def entryStep (fs : List Fn) (e : List (String × Nat)) : List (String × Nat) :=
  fs.map fun f =>
    (f.name, if isHelper fs f.name then
        match sitesOf fs f.name with
        | [] => 0
        | ss => ss.foldl (fun m s => Nat.min m (Nat.max (lookupE e s.1) s.2)) 2
      else 0)

def iter (fs : List Fn) : Nat → List (String × Nat) → List (String × Nat)
  | 0, e => e
  | n + 1, e => iter fs n (entryStep fs e)

/-- Entry levels: the greatest fixpoint, reached from "exclusive" for every helper by one round per function (levels only
go down, a call chain is no longer than the table). -/
def entry (fs : List Fn) : List (String × Nat) :=
  iter fs fs.length (fs.map fun f => (f.name, if isHelper fs f.name then 2 else 0))

structure Viol where
  fn : String
  kind : Nat
  what : String
  level : Nat
deriving DecidableEq, Repr

/-- Fields whose *reads* need no lock: `cache` is a `sync.Map` (its own synchronisation). -/
def freeReads : List String := ["cache"]

def violations (fs : List Fn) : List Viol :=
  let e := entry fs
  (fs.filter fun f => !startup.contains f.name).flatMap fun f =>
    f.effs.filterMap fun x =>
      let lvl := Nat.max (lookupE e f.name) x.lock
      if (x.kind == 0 || x.kind == 2 || x.kind == 3) && lvl < 2 then some ⟨f.name, x.kind, x.what, lvl⟩
      else if x.kind == 1 && lvl < 1 && !freeReads.contains x.what then some ⟨f.name, x.kind, x.what, lvl⟩
      else none

/-- The accesses of the pinned code that are *not* under the required lock — each one named, none of them in a
critical section the model treats as atomic:
* `acquireMemPoolList` inserts an empty list while `getUnconfirmed` holds only the read lock — every other holder of
  the read lock that touches the map (`get`, `listHash`, `getUnconfirmed` itself) runs on the pool actor's goroutine;
* `loadTxs`: counters read for the log line after loading the dump (start-up of the actor);
* `monitor`: `len(mp.pool)` read for the metrics log line.
(`Statistics` and `verifyTx` were on this list until repair 99f668fe put their reads under the read lock; `Size` and the
pre-check of `put` until 8b360882.) -/
def known : List (String × Nat × String) :=
  [("acquireMemPoolList", 0, "pool"),
   ("loadTxs", 1, "length"), ("loadTxs", 1, "orphan"),
   ("monitor", 1, "pool")]

def allKnown (fs : List Fn) : Bool :=
  (violations fs).all fun v => known.contains (v.fn, v.kind, v.what)

end Aergo.PoolLocks
