/-
Helper lemmas for C13: every pool operation preserves `PInv`; freshness of re-checked accounts
after a block notification. Core Lean only.
-/
import Aergo.Lemmas.PoolInv

namespace Aergo.Pool

theorem mem_allTxs {t : Tx} {ls : List (Nat × TxList)} : t ∈ allTxs ls ↔ ∃ k N, (k, N) ∈ ls ∧ t ∈ N.list := by
  simp only [allTxs, List.mem_flatMap]
  constructor
  · rintro ⟨⟨k, N⟩, h1, h2⟩; exact ⟨k, N, h1, h2⟩
  · rintro ⟨k, N, h1, h2⟩; exact ⟨(k, N), h1, h2⟩

/-! ### put -/

theorem pinv_put_core {P1 : Pool} (h : PInv P1) {tx : Tx} {L L' : TxList} {d : Int}
    (hl : lookup tx.acc P1.lists = some L) (hput : L.put tx = (L', .ok d)) (hfresh : cacheHas tx.id P1.cache = false) :
    PInv { P1 with lists := setL tx.acc L' P1.lists, orphan := P1.orphan - d,
                   cache := cacheStore tx P1.cache, length := P1.length + 1 } := by
  obtain ⟨hL, hLacc⟩ := h.lists _ _ (lookup_mem hl)
  obtain ⟨hL', _, hperm, hd, _, _⟩ := put_ok hL hput
  have hstore : cacheStore tx P1.cache = tx :: P1.cache := by unfold cacheStore; rw [cacheDel_fresh hfresh]
  refine pinv_replace h hl hL' ?_ ?_ ?_ ?_ ?_
  · intro t ht
    have := hperm.subset ht
    simp only [List.mem_cons] at this
    rcases this with rfl | ht'
    · rfl
    · exact hLacc t ht'
  · intro X Y hc
    rw [hstore]
    have h1 : (tx :: P1.cache).Perm (tx :: (X ++ L.list ++ Y)) := List.Perm.cons _ hc
    have h2 : (tx :: (X ++ L.list ++ Y)).Perm (X ++ (tx :: L.list) ++ Y) := by
      simp only [List.append_assoc, List.cons_append]
      exact (List.perm_middle).symm
    exact h1.trans (h2.trans (List.Perm.append_right Y (List.Perm.append_left X hperm.symm)))
  · rw [hstore]
    simp only [List.map_cons, List.nodup_cons]
    refine ⟨?_, h.ids⟩
    intro hin
    obtain ⟨t, ht, hid⟩ := List.mem_map.1 hin
    have : cacheHas tx.id P1.cache = true := cacheHas_iff.2 ⟨t, ht, hid⟩
    rw [hfresh] at this; cases this
  · have := hperm.length_eq
    simp only [List.length_cons] at this
    omega
  · unfold orph; omega

theorem pinv_put {P : Pool} (h : PInv P) (tx : Tx) : PInv (P.put tx).1 := by
  unfold Pool.put
  by_cases hc : cacheHas tx.id P.cache = true
  · simp only [hc, ↓reduceIte]; exact h
  · have hc' : cacheHas tx.id P.cache = false := by simpa using hc
    simp only [hc', Bool.false_eq_true, ↓reduceIte]
    obtain ⟨hP1, hl, hcache, _⟩ := pinv_acquire h tx.acc
    have hfresh : cacheHas tx.id (P.acquire tx.acc).1.cache = false := by rw [hcache]; exact hc'
    have key : PInv (match ((P.acquire tx.acc).2.put tx).2 with
        | .error e => ((P.acquire tx.acc).1.release tx.acc, match e with | .low => PutRes.low | .same => PutRes.same)
        | .ok diff =>
          (({ (P.acquire tx.acc).1 with
              lists := setL tx.acc ((P.acquire tx.acc).2.put tx).1 (P.acquire tx.acc).1.lists,
              orphan := (P.acquire tx.acc).1.orphan - diff,
              cache := cacheStore tx (P.acquire tx.acc).1.cache,
              length := (P.acquire tx.acc).1.length + 1 } : Pool).release tx.acc, PutRes.ok)).1 := by
      cases hput : (P.acquire tx.acc).2.put tx with
      | mk L' r =>
        cases r with
        | error e => simp only; exact pinv_release hP1 _
        | ok d => simp only; exact pinv_release (pinv_put_core hP1 hl hput hfresh) _
    rcases validate_cases (P.state tx.acc) tx with ⟨hv, _⟩ | ⟨hv, _⟩ | ⟨hv, _⟩ | ⟨hv, _⟩
    · simp only [hv]; exact h
    · simp only [hv]; exact h
    · simp only [hv]; exact key
    · simp only [hv]; exact key

/-! ### removeTx -/

theorem release_with (P : Pool) (a : Nat) (c : List Tx) (l : Int) :
    ({ (P.release a) with cache := c, length := l } : Pool) = ({ P with cache := c, length := l } : Pool).release a := by
  unfold Pool.release
  simp only
  split
  · split <;> rfl
  · rfl

/-- Removal under the list key of the pooled transaction with that hash keeps the invariant. -/
theorem pinv_removeAt {P : Pool} (h : PInv P) (key id : Nat) (hc : cacheHas id P.cache = true)
    (hacc : ∀ t ∈ P.cache, t.id = id → t.acc = key) : PInv (P.removeAt key id) := by
  unfold Pool.removeAt
  obtain ⟨t, ht, hid⟩ := cacheHas_iff.1 hc
  have hta := hacc t ht hid
  obtain ⟨k, N, hkN, htN⟩ := mem_allTxs.1 (h.cache.subset ht)
  have hk : k = key := by rw [← (h.lists k N hkN).2 t htN]; exact hta
  subst hk
  have hl := lookup_of_mem h.keys hkN
  obtain ⟨_, _, _, _, _, _, _, _, _, _, hsome⟩ := pinv_acquire h k
  obtain ⟨e2, e1⟩ := hsome N hl
  simp only [e1, e2]
  rw [release_with]
  simp only [(release_fields _ _).1, (release_fields _ _).2.1]
  apply pinv_release
  have hN := (h.lists k N hkN).1
  obtain ⟨hM, _, hm⟩ := remove_spec hN id
  cases hr : (N.remove id).2.2 with
  | none =>
    rw [hr] at hm
    exact absurd hid (hm.2.2 t htN)
  | some x =>
    rw [hr] at hm
    obtain ⟨hx, hperm, hsub, hdiff⟩ := hm
    refine pinv_replace h hl hM (fun t ht => (h.lists k N hkN).2 t (hsub.subset ht)) ?_ (cacheDel_ids_nodup h.ids) ?_ ?_
    · intro X Y hcp
      have h1 : P.cache.Perm (x :: (X ++ (N.remove id).1.list ++ Y)) := by
        refine hcp.trans ?_
        have : (X ++ N.list ++ Y).Perm (X ++ (x :: (N.remove id).1.list) ++ Y) :=
          List.Perm.append_right Y (List.Perm.append_left X hperm)
        refine this.trans ?_
        simp only [List.append_assoc, List.cons_append]
        exact List.perm_middle
      have := cacheDel_perm h1 h.ids
      rwa [hx] at this
    · have := hperm.length_eq
      simp only [List.length_cons] at this
      omega
    · rw [hdiff]; unfold orph; omega

/-- In an index with distinct hashes, `find?` by hash returns the one entry with that hash. -/
theorem find_id_unique {c : List Tx} (hn : (c.map (·.id)).Nodup) {id : Nat} {t t' : Tx}
    (hf : c.find? (fun t => t.id == id) = some t) (ht' : t' ∈ c) (hid' : t'.id = id) : t' = t := by
  have h1 := List.find?_some hf
  have h2 := List.mem_of_find?_eq_some hf
  simp only [beq_iff_eq] at h1
  obtain ⟨i, hi, rfl⟩ := List.mem_iff_getElem.1 ht'
  obtain ⟨j, hj, rfl⟩ := List.mem_iff_getElem.1 h2
  have hpw := List.pairwise_iff_getElem.1 hn
  have hij : i = j := by
    apply Classical.byContradiction
    intro hne
    by_cases hlt : i < j
    · have := hpw i j (by simpa using hi) (by simpa using hj) hlt
      simp only [List.getElem_map] at this
      exact this (by rw [hid', h1])
    · have := hpw j i (by simpa using hj) (by simpa using hi) (by omega)
      simp only [List.getElem_map] at this
      exact this (by rw [hid', h1])
  subst hij
  rfl

/-- `removeTx` keeps the invariant. The only hypothesis left is hash identity for a pooled transaction that was
*not* filed under a verified address: the transaction handed in (same hash) carries the same sender field. -/
theorem pinv_removeTx {P : Pool} (h : PInv P) (a id : Nat)
    (hacc : ∀ t ∈ P.cache, t.id = id → t.named = false → t.acc = a) : PInv (P.removeTx a id).1 := by
  unfold Pool.removeTx
  by_cases hc : cacheHas id P.cache = true
  · simp only [hc, Bool.not_true, Bool.false_eq_true, ↓reduceIte]
    apply pinv_removeAt h _ _ hc
    intro t ht hid
    unfold Pool.removeKey
    cases hf : P.cache.find? (fun t => t.id == id) with
    | none =>
      have := List.find?_eq_none.1 hf t ht
      simp [hid] at this
    | some t0 =>
      have := find_id_unique h.ids hf ht hid
      subst this
      simp only
      split
      · rfl
      · next hn => exact hacc t ht hid (by simpa using hn)
  · have hc' : cacheHas id P.cache = false := by simpa using hc
    simp only [hc', Bool.not_false, ↓reduceIte]
    exact h

/-! ### block arrival -/

/-- The pool after `FilterByState` replaced the list of `a` and `orphan -= diff`, before the index is updated. -/
def filterCore (P : Pool) (a : Nat) (L : TxList) : Pool :=
  { P with lists := setL a (L.filter (P.state a)).1 P.lists, orphan := P.orphan - (L.filter (P.state a)).2.1 }

theorem filterAcc_some {P : Pool} {a : Nat} {L : TxList} (hl : lookup a P.lists = some L) :
    P.filterAcc a = ((filterCore P a L).dropTxs (L.filter (P.state a)).2.2).release a := by
  unfold Pool.filterAcc filterCore
  rw [hl]

theorem filterAcc_none {P : Pool} {a : Nat} (hl : lookup a P.lists = none) : P.filterAcc a = P := by
  unfold Pool.filterAcc
  rw [hl]

theorem pinv_filterAcc {P : Pool} (h : PInv P) (a : Nat) : PInv (P.filterAcc a) := by
  cases hl : lookup a P.lists with
  | none => rw [filterAcc_none hl]; exact h
  | some L =>
    rw [filterAcc_some hl]
    apply pinv_release
    obtain ⟨hL, hLacc⟩ := h.lists _ _ (lookup_mem hl)
    obtain ⟨hF, _, hperm, hsub, hdiff, _, _⟩ := filter_spec hL (P.state a)
    obtain ⟨pre, post, hs, _⟩ := lookup_split hl
    have hcache := h.cache
    rw [hs] at hcache
    simp only [allTxs_append, allTxs_cons] at hcache
    -- index after dropping the removed transactions
    have hdrop : ∀ X Y : List Tx, P.cache.Perm (X ++ L.list ++ Y) →
        ((filterCore P a L).dropTxs (L.filter (P.state a)).2.2).cache.Perm (X ++ (L.filter (P.state a)).1.list ++ Y) ∧
        (((filterCore P a L).dropTxs (L.filter (P.state a)).2.2).cache.map (·.id)).Nodup := by
      intro X Y hc
      apply dropTxs_cache (P := filterCore P a L) _ h.ids
      refine List.Perm.trans (show (filterCore P a L).cache.Perm (X ++ L.list ++ Y) from hc) ?_
      have h1 : (X ++ L.list ++ Y).Perm (X ++ ((L.filter (P.state a)).2.2 ++ (L.filter (P.state a)).1.list) ++ Y) :=
        List.Perm.append_right Y (List.Perm.append_left X (hperm.symm.trans List.perm_append_comm))
      refine h1.trans ?_
      simp only [List.append_assoc]
      exact List.perm_append_comm_assoc _ _ _
    have hrep := pinv_replace h hl hF (fun t ht => hLacc t (hsub.subset ht))
      (c := ((filterCore P a L).dropTxs (L.filter (P.state a)).2.2).cache)
      (len := P.length - (L.filter (P.state a)).2.2.length)
      (orp := P.orphan - (L.filter (P.state a)).2.1)
      (fun X Y hc => (hdrop X Y hc).1)
      (hdrop (allTxs pre) (allTxs post) (by simpa [List.append_assoc] using hcache)).2
      (by
        have := hperm.length_eq
        simp only [List.length_append] at this
        omega)
      (by rw [hdiff]; unfold orph; omega)
    exact hrep.congr (by rw [dropTxs_lists]; rfl) rfl (by rw [dropTxs_length]; rfl) (by rw [dropTxs_orphan]; rfl)

theorem setStateDB_fields (P : Pool) (new parent chain : Nat) (σ : Nat → Acct) :
    (P.setStateDB new parent chain σ).1.lists = P.lists ∧ (P.setStateDB new parent chain σ).1.cache = P.cache ∧
    (P.setStateDB new parent chain σ).1.length = P.length ∧ (P.setStateDB new parent chain σ).1.orphan = P.orphan := by
  unfold Pool.setStateDB
  split
  · split <;> exact ⟨rfl, rfl, rfl, rfl⟩
  · exact ⟨rfl, rfl, rfl, rfl⟩

theorem pinv_setStateDB {P : Pool} (h : PInv P) (new parent chain : Nat) (σ : Nat → Acct) :
    PInv (P.setStateDB new parent chain σ).1 := by
  obtain ⟨a, b, c, d⟩ := setStateDB_fields P new parent chain σ
  exact h.congr a b c d

theorem pinv_blockArrival {P : Pool} (h : PInv P) (new parent chain : Nat) (dirty : List Nat) (σ : Nat → Acct) :
    PInv (P.blockArrival new parent chain dirty σ) := by
  unfold Pool.blockArrival
  have hS : PInv (P.setStateDB new parent chain σ).1 := pinv_setStateDB h new parent chain σ
  simp only
  split
  · exact ⟨by simp [Pool.resetAll], by simp [Pool.resetAll], by simp [Pool.resetAll], by simp [Pool.resetAll],
      by simp [Pool.resetAll], by simp [Pool.resetAll]⟩
  · apply foldl_preserves PInv _ _ _ _ hS
    intro Q a hQ
    split
    · exact pinv_filterAcc hQ a
    · exact hQ

/-! ### eviction -/

theorem pinv_evictAcc {P : Pool} (h : PInv P) (a : Nat) : PInv (P.evictAcc a) := by
  unfold Pool.evictAcc
  cases hl : lookup a P.lists with
  | none => exact h
  | some L =>
    simp only
    obtain ⟨pre, post, hs, _⟩ := lookup_split hl
    have hk := h.keys
    rw [hs] at hk
    obtain ⟨k1, k2, k3⟩ := nodup_split hk
    have hcache := h.cache; have hlen := h.length; have ho := h.orphan
    rw [hs] at hcache hlen ho
    simp only [allTxs_append, allTxs_cons, orphans_append, orphans_cons, List.length_append] at hcache hlen ho
    have hd := dropTxs_cache (P := P) (del := L.list) (r := allTxs pre ++ allTxs post)
      (hcache.trans (by
        simp only [← List.append_assoc]
        exact List.Perm.append_right _ List.perm_append_comm)) h.ids
    refine ⟨?_, ?_, ?_, hd.2, ?_, ?_⟩
    · show (keys (delL a (P.dropTxs L.list).lists)).Nodup
      rw [dropTxs_lists, hs, delL_split k1 k2]; exact k3
    · intro b M hb
      have hb : (b, M) ∈ delL a (P.dropTxs L.list).lists := hb
      rw [dropTxs_lists] at hb
      exact h.lists b M (mem_delL hb).1
    · show (P.dropTxs L.list).cache.Perm (allTxs (delL a (P.dropTxs L.list).lists))
      rw [dropTxs_lists, hs, delL_split k1 k2]
      simpa using hd.1
    · show (P.dropTxs L.list).length = ((allTxs (delL a (P.dropTxs L.list).lists)).length : Int)
      rw [dropTxs_lists, dropTxs_length, hs, delL_split k1 k2]
      simp only [allTxs_append, List.length_append]
      omega
    · show (P.dropTxs L.list).orphan - ((L.list.length : Int) - L.ready) = orphans (delL a (P.dropTxs L.list).lists)
      rw [dropTxs_lists, dropTxs_orphan, hs, delL_split k1 k2]
      simp only [orphans_append]
      unfold orph at ho
      omega

theorem pinv_evict {P : Pool} (h : PInv P) (old : List Nat) : PInv (P.evict old) := by
  unfold Pool.evict
  apply foldl_preserves PInv _ _ _ _ h
  intro Q a hQ
  split
  · exact pinv_evictAcc hQ a
  · exact hQ

theorem pinv_unconfirmed {P : Pool} (h : PInv P) (a : Nat) : PInv (P.unconfirmed a).1 :=
  (pinv_acquire h a).1

/-! ### Freshness of re-checked accounts -/

/-- The list of account `a` (if any) is based on the state the pool sees and holds no stale nonce. -/
def Fresh (P : Pool) (a : Nat) : Prop :=
  ∀ L, lookup a P.lists = some L → L.base = P.state a ∧ ∀ t ∈ L.list, (P.state a).nonce < t.nonce

theorem lookup_setL_self {a : Nat} {M L : TxList} {ls : List (Nat × TxList)} (h : lookup a ls = some L) :
    lookup a (setL a M ls) = some M := by
  obtain ⟨pre, post, hs, hpre⟩ := lookup_split h
  rw [hs, setL_split hpre]
  exact lookup_of_split hpre

theorem filterAcc_state (P : Pool) (a : Nat) : (P.filterAcc a).state = P.state := by
  cases hl : lookup a P.lists with
  | none => rw [filterAcc_none hl]
  | some L => rw [filterAcc_some hl, (release_fields _ _).2.2.2.1, dropTxs_state]; rfl

theorem filterAcc_lookup_ne {P : Pool} {a b : Nat} (h : b ≠ a) : lookup b (P.filterAcc a).lists = lookup b P.lists := by
  cases hl : lookup a P.lists with
  | none => rw [filterAcc_none hl]
  | some L =>
    rw [filterAcc_some hl, lookup_release_ne h, dropTxs_lists]
    exact lookup_setL_ne h

theorem filterAcc_fresh {P : Pool} (h : PInv P) (a : Nat) : Fresh (P.filterAcc a) a := by
  intro M hM
  rw [filterAcc_state]
  cases hl : lookup a P.lists with
  | none => rw [filterAcc_none hl, hl] at hM; cases hM
  | some L =>
    rw [filterAcc_some hl] at hM
    rcases @lookup_release_self ((filterCore P a L).dropTxs (L.filter (P.state a)).2.2) a with ⟨hn, _⟩ | ⟨M', h1, h2, _⟩
    · rw [hn] at hM; cases hM
    · rw [h1] at hM
      injection hM with hM; subst hM
      rw [dropTxs_lists] at h2
      have : lookup a (filterCore P a L).lists = some (L.filter (P.state a)).1 := lookup_setL_self hl
      rw [this] at h2
      injection h2 with h2
      obtain ⟨_, hb, _, _, _, hab, _⟩ := filter_spec (h.lists _ _ (lookup_mem hl)).1 (P.state a)
      rw [← h2]
      exact ⟨hb, hab⟩

theorem fresh_of_filterAcc_ne {P : Pool} {a b : Nat} (hne : a ≠ b) (hf : Fresh P a) : Fresh (P.filterAcc b) a := by
  intro L hL
  rw [filterAcc_state]
  rw [filterAcc_lookup_ne hne] at hL
  exact hf L hL

/-- The re-check loop of `removeOnBlockArrival`: every account that is re-checked ends up fresh. -/
theorem fold_fresh (chk : Nat → Bool) :
    ∀ (ks : List Nat) (P : Pool), PInv P → ks.Nodup →
      ∀ a, chk a = true → (a ∈ ks ∨ Fresh P a) →
        Fresh (ks.foldl (fun P k => if chk k then P.filterAcc k else P) P) a := by
  intro ks
  induction ks with
  | nil => intro P _ _ a _ h; rcases h with h | h; · cases h
           · exact h
  | cons k ks ih =>
    intro P hP hnd a ha h
    rw [List.nodup_cons] at hnd
    simp only [List.foldl]
    have hP' : PInv (if chk k = true then P.filterAcc k else P) := by
      split
      · exact pinv_filterAcc hP k
      · exact hP
    apply ih _ hP' hnd.2 a ha
    by_cases hak : a = k
    · subst hak
      right
      rw [if_pos ha]
      exact filterAcc_fresh hP a
    · rcases h with h | h
      · left
        simp only [List.mem_cons] at h
        rcases h with h | h
        · exact absurd h hak
        · exact h
      · right
        split
        · exact fresh_of_filterAcc_ne hak h
        · exact h

theorem fold_state (chk : Nat → Bool) (ks : List Nat) (P : Pool) :
    (ks.foldl (fun P k => if chk k then P.filterAcc k else P) P).state = P.state := by
  induction ks generalizing P with
  | nil => rfl
  | cons k ks ih =>
    simp only [List.foldl]
    rw [ih]
    split
    · exact filterAcc_state _ _
    · rfl

/-- Lists of accounts that are not re-checked are left exactly as they were. -/
theorem fold_untouched (chk : Nat → Bool) (ks : List Nat) (P : Pool) (a : Nat) (ha : chk a = false) :
    lookup a (ks.foldl (fun P k => if chk k then P.filterAcc k else P) P).lists = lookup a P.lists := by
  induction ks generalizing P with
  | nil => rfl
  | cons k ks ih =>
    simp only [List.foldl]
    rw [ih]
    split
    · next hk =>
      have : a ≠ k := fun e => by rw [e, hk] at ha; cases ha
      exact filterAcc_lookup_ne this
    · rfl

/-! ### `BaseOK` / `NoEmpty` building blocks -/

theorem baseOK_acquire {P : Pool} (h : PInv P) (hb : BaseOK P) (a : Nat) : BaseOK (P.acquire a).1 := by
  obtain ⟨hP1, hl, _, _, _, hst, _, _, hne, hnone, hsome⟩ := pinv_acquire h a
  intro b L hL
  rw [hst]
  by_cases hba : b = a
  · subst hba
    have := lookup_of_mem hP1.keys hL
    rw [hl] at this
    injection this with this
    cases hq : lookup b P.lists with
    | none => rw [← this, hnone hq]
    | some M => rw [← this, (hsome M hq).1]; exact hb _ _ (lookup_mem hq)
  · have := lookup_of_mem hP1.keys hL
    rw [hne b hba] at this
    exact hb b L (lookup_mem this)

/-- `release a` leaves no empty list if every list other than `a`'s is non-empty. -/
theorem noEmpty_release {P : Pool} (h : PInv P) (a : Nat)
    (hne : ∀ b M, (b, M) ∈ P.lists → b ≠ a → M.list ≠ []) : NoEmpty (P.release a) := by
  intro b M hM
  by_cases hba : b = a
  · subst hba
    have hl := lookup_of_mem (pinv_release h b).keys hM
    rcases @lookup_release_self P b with ⟨hn, _⟩ | ⟨M', h1, _, h3⟩
    · rw [hn] at hl; cases hl
    · rw [h1] at hl; injection hl with hl; subst hl; exact h3
  · exact hne b M (mem_release hM) hba

theorem mem_acquire {P : Pool} {a b : Nat} {M : TxList} (h : (b, M) ∈ (P.acquire a).1.lists) (hba : b ≠ a) :
    (b, M) ∈ P.lists := by
  unfold Pool.acquire at h
  split at h
  · exact h
  · simp only [List.mem_append, List.mem_cons, List.not_mem_nil, or_false, Prod.mk.injEq] at h
    rcases h with h | ⟨h1, _⟩
    · exact h
    · exact absurd h1 hba

theorem noEmpty_filterAcc {P : Pool} (h : PInv P) (hn : NoEmpty P) (a : Nat) : NoEmpty (P.filterAcc a) := by
  cases hl : lookup a P.lists with
  | none => rw [filterAcc_none hl]; exact hn
  | some L =>
    have hp := pinv_filterAcc h a
    rw [filterAcc_some hl] at hp ⊢
    intro b M hM
    by_cases hba : b = a
    · subst hba
      have hlk := lookup_of_mem hp.keys hM
      rcases @lookup_release_self ((filterCore P b L).dropTxs (L.filter (P.state b)).2.2) b with ⟨hn', _⟩ | ⟨M', h1, _, h3⟩
      · rw [hn'] at hlk; cases hlk
      · rw [h1] at hlk; injection hlk with hlk; subst hlk; exact h3
    · have := mem_release hM
      rw [dropTxs_lists] at this
      rcases mem_setL this with ⟨h1, _⟩ | h2
      · exact absurd h1 hba
      · exact hn b M h2

theorem noEmpty_evictAcc {P : Pool} (hn : NoEmpty P) (a : Nat) : NoEmpty (P.evictAcc a) := by
  unfold Pool.evictAcc
  split
  · exact hn
  · intro b M hM
    have hM : (b, M) ∈ delL a (P.dropTxs _).lists := hM
    rw [dropTxs_lists] at hM
    exact hn b M (mem_delL hM).1

end Aergo.Pool
