/-
C13, per-account list: the index and slice expressions of mempool/txlist.go stay in range.

`Model/Pool.lean` totalises `list[i]` (`nonceAt` returns 0 out of range, where Go panics), so the `LInv` theorems alone
would also hold of code that indexes out of range. Here the same functions are written once more with *checked*
indexing (`none` = run-time panic: index out of range / slice bounds out of range) and shown to return a value — the
value of the unchecked model function — on every list satisfying `LInv` (for the binary search: on every list).
Core Lean only.
-/
import Aergo.Lemmas.PoolList

namespace Aergo.Pool

/-- `list[i].GetBody().GetNonce()` as Go evaluates it: `none` = index out of range. -/
def nonceAt? (l : List Tx) (i : Nat) : Option Nat := (l[i]?).map (·.nonce)

theorem nonceAt?_of_lt {l : List Tx} {i : Nat} (h : i < l.length) : nonceAt? l i = some (nonceAt l i) := by
  simp [nonceAt?, nonceAt, h]

/-- The `sort.Search` loop with the index of `list[h]` checked. -/
def searchGo? (l : List Tx) (key : Nat) (i j : Nat) : Option Nat :=
  if i < j then
    let h := (i + j) / 2
    match nonceAt? l h with
    | none => none
    | some n => if ¬ (n ≥ key) then searchGo? l key (h + 1) j else searchGo? l key i h
  else some i
termination_by j - i
decreasing_by all_goals omega

theorem searchGo?_safe (l : List Tx) (key : Nat) : ∀ (n i j : Nat), j - i = n → j ≤ l.length →
    searchGo? l key i j = some (searchGo l key i j) := by
  intro n
  induction n using Nat.strongRecOn with
  | _ n ih =>
    intro i j hn hj
    unfold searchGo? searchGo
    by_cases hij : i < j
    · simp only [hij, ↓reduceIte]
      have hh : (i + j) / 2 < l.length := by omega
      rw [nonceAt?_of_lt hh]
      simp only
      split
      · exact ih (j - ((i + j) / 2 + 1)) (by omega) _ _ rfl hj
      · exact ih ((i + j) / 2 - i) (by omega) _ _ rfl (by omega)
    · simp [hij]

/-- `txList.search` with checked indexing: `tl.compare(tx, ind)` is evaluated only when `ind < len`. -/
def search? (l : List Tx) (key : Nat) : Option (Nat × Bool) :=
  match searchGo? l key 0 l.length with
  | none => none
  | some ind =>
    if ind < l.length then (nonceAt? l ind).map (fun n => (ind, n == key)) else some (ind, false)

theorem search?_safe (l : List Tx) (key : Nat) : search? l key = some (search l key) := by
  unfold search? search
  rw [searchGo?_safe l key _ 0 l.length rfl (Nat.le_refl _)]
  simp only
  by_cases h : searchGo l key 0 l.length < l.length
  · simp [h, nonceAt?_of_lt h]
  · simp [h]

/-- `txList.continuous(index)` with checked indexing of `list[index]` and `list[ready-1]`. -/
def contAt? (baseNonce : Nat) (l : List Tx) (ready index : Nat) : Option Bool :=
  match nonceAt? l index with
  | none => none
  | some r =>
    match (if ready > 0 then nonceAt? l (ready - 1) else some baseNonce) with
    | none => none
    | some lft => some (lft + 1 == r)

theorem contAt?_safe {b : Nat} {l : List Tx} {ready index : Nat} (hi : index < l.length) (hr : ready ≤ index) :
    contAt? b l ready index = some (contAt b l ready index) := by
  unfold contAt? contAt
  rw [nonceAt?_of_lt hi]
  simp only
  by_cases h0 : ready > 0
  · simp only [h0, ↓reduceIte]
    rw [nonceAt?_of_lt (by omega)]
  · simp [h0]

/-- The ready-extension loop of `Put` / `updateReady` with checked `continuous`. -/
def extendGo? (baseNonce : Nat) (l : List Tx) (ready index : Nat) : Option Nat :=
  if index < l.length then
    match contAt? baseNonce l ready index with
    | none => none
    | some true => extendGo? baseNonce l (ready + 1) (index + 1)
    | some false => some ready
  else some ready
termination_by l.length - index
decreasing_by omega

theorem extendGo?_safe (b : Nat) (l : List Tx) : ∀ (n ready index : Nat), l.length - index = n → ready ≤ index →
    extendGo? b l ready index = some (extendGo b l ready index) := by
  intro n
  induction n with
  | zero =>
    intro ready index hn _
    unfold extendGo? extendGo
    have : ¬ index < l.length := by omega
    simp [this]
  | succ n ih =>
    intro ready index hn hr
    unfold extendGo? extendGo
    by_cases hi : index < l.length
    · simp only [hi, ↓reduceIte]
      rw [contAt?_safe hi hr]
      cases hc : contAt b l ready index with
      | true => simp only; exact ih (ready + 1) (index + 1) (by omega) (by omega)
      | false => simp
    · simp [hi]

/-- `updateReady` never indexes out of range, on any list. -/
theorem updateReady_safe (b : Nat) (l : List Tx) : extendGo? b l 0 0 = some (updateReady b l) :=
  extendGo?_safe b l _ 0 0 rfl (Nat.le_refl _)

/-- `txList.Put` with checked indexing and slicing (`list[:index]`, `list[index:]` need `index ≤ len`). -/
def TxList.put? (L : TxList) (tx : Tx) : Option (TxList × Except PutErr Int) :=
  if tx.nonce ≤ L.base.nonce then some (L, .error .low) else
  match search? L.list tx.nonce with
  | none => none
  | some (index, found) =>
    if found then some (L, .error .same) else
    if ¬ index ≤ L.list.length then none else
    let oldCnt : Int := (L.list.length : Int) - L.ready
    let list' := L.list.take index ++ tx :: L.list.drop index
    match extendGo? L.base.nonce list' L.ready index with
    | none => none
    | some ready' =>
      let newCnt : Int := (list'.length : Int) - ready'
      some ({ L with list := list', ready := ready' }, .ok (oldCnt - newCnt))

/-- Where `Put` inserts is never inside the ready run. -/
theorem ready_le_insert_pos {L : TxList} (h : LInv L) {tx : Tx} (hlow : ¬ tx.nonce ≤ L.base.nonce)
    (hnf : (search L.list tx.nonce).2 = false) : L.ready ≤ (search L.list tx.nonce).1 := by
  obtain ⟨hi, hlo, hhi, hfound⟩ := search_spec h.sorted tx.nonce
  obtain ⟨r1, r2, _⟩ := h.ready ▸ run_spec L.base.nonce L.list
  apply Classical.byContradiction
  intro hc
  have hlt : (search L.list tx.nonce).1 < L.ready := by omega
  have hlen : (search L.list tx.nonce).1 < L.list.length := by omega
  have heq := r2 _ hlt
  have hge := hhi _ (Nat.le_refl _) hlen
  have hne : nonceAt L.list (search L.list tx.nonce).1 ≠ tx.nonce := by
    intro e
    have := hfound.2 ⟨hlen, e⟩
    rw [hnf] at this; cases this
  by_cases h0 : (search L.list tx.nonce).1 = 0
  · rw [h0] at heq hge hne; omega
  · have := hlo ((search L.list tx.nonce).1 - 1) (by omega)
    have h2 := r2 ((search L.list tx.nonce).1 - 1) (by omega)
    omega

theorem put_safe {L : TxList} (h : LInv L) (tx : Tx) : L.put? tx = some (L.put tx) := by
  unfold TxList.put? TxList.put
  by_cases hlow : tx.nonce ≤ L.base.nonce
  · simp [hlow]
  · simp only [hlow, ↓reduceIte]
    rw [search?_safe]
    simp only
    cases hf : (search L.list tx.nonce).2 with
    | true => simp
    | false =>
      simp only [Bool.false_eq_true, ↓reduceIte]
      have hi := (search_spec h.sorted tx.nonce).1
      have hr := ready_le_insert_pos h hlow hf
      simp only [hi, not_true_eq_false, ↓reduceIte]
      rw [extendGo?_safe _ _ _ _ _ rfl hr]

/-- `txList.Get` / `pooled()` / `orphaned()`: `list[:ready]` and `list[ready:]` need `ready ≤ len`. -/
def TxList.get? (L : TxList) : Option (List Tx) := if L.ready ≤ L.list.length then some (L.list.take L.ready) else none

theorem get_safe {L : TxList} (h : LInv L) : L.get? = some L.get := by
  simp [TxList.get?, TxList.get, h.ready_le]

end Aergo.Pool
