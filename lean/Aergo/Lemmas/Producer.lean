/-
Lemmas for C09's `Producer` model: election arithmetic, the snapshot map, and the invariant that ties the producer
list a DPoS node has in force to the ranking on its own main chain. Core only.
-/
import Aergo.Model.Producer

namespace Aergo.Producer
open Aergo.Slot Aergo.Gen.Slot Aergo.Gen.Snap

/-! ### Election arithmetic (over the regenerated `snapBlockNo`, `isSnapPeriod`) -/

theorem snapBlockNo_eq (b : Int) (hb : 0 ≤ b) :
    snapBlockNo b = if b < 3 * getElectionPeriod then 0 else (b / getElectionPeriod - 1) * getElectionPeriod := by
  simp only [snapBlockNo, bootstrapHeight, Int.tdiv_eq_ediv_of_nonneg hb]
  by_cases h : b < getElectionPeriod * 3
  · have h' : b < 3 * getElectionPeriod := by rw [Int.mul_comm]; exact h
    simp [h, h']
  · have h' : ¬ b < 3 * getElectionPeriod := by rw [Int.mul_comm]; exact h
    simp [h, h']

theorem isSnapPeriod_iff (b : Int) (hb : 0 ≤ b) : isSnapPeriod b = true ↔ b % getElectionPeriod = 0 := by
  simp only [isSnapPeriod, Int.tmod_eq_emod_of_nonneg hb, beq_iff_eq]

theorem needToRefresh_eq (b : Int) : Snapshots_NeedToRefresh b = isSnapPeriod b := rfl

theorem snapBlockNo_nonneg (b : Int) (hb : 0 ≤ b) : 0 ≤ snapBlockNo b := by
  rw [snapBlockNo_eq b hb]
  by_cases h : b < 3 * getElectionPeriod
  · rw [if_pos h]; omega
  · rw [if_neg h]; simp only [getElectionPeriod] at *; omega

theorem snapBlockNo_le (b : Int) (hb : 0 ≤ b) : snapBlockNo b ≤ b := by
  rw [snapBlockNo_eq b hb]
  by_cases h : b < 3 * getElectionPeriod
  · rw [if_pos h]; omega
  · rw [if_neg h]; simp only [getElectionPeriod] at *; omega

/-- Between election boundaries the reference block does not move. -/
theorem snapBlockNo_succ (b : Int) (hb : 0 ≤ b) (h : isSnapPeriod (b + 1) = false) :
    snapBlockNo (b + 1) = snapBlockNo b := by
  have h' : ¬ ((b + 1) % getElectionPeriod = 0) := by
    intro e; rw [(isSnapPeriod_iff (b + 1) (by omega)).2 e] at h; cases h
  rw [snapBlockNo_eq b hb, snapBlockNo_eq (b + 1) (by omega)]
  by_cases h1 : b + 1 < 3 * getElectionPeriod <;> by_cases h2 : b < 3 * getElectionPeriod
  · rw [if_pos h1, if_pos h2]
  · rw [if_pos h1, if_neg h2]; simp only [getElectionPeriod] at *; omega
  · rw [if_neg h1, if_pos h2]; simp only [getElectionPeriod] at *; omega
  · rw [if_neg h1, if_neg h2]; simp only [getElectionPeriod] at *; omega

/-- At a boundary `n` (from the third on) the reference block is the previous boundary. -/
theorem snapBlockNo_boundary (n : Int) (hn : 0 ≤ n) (h : isSnapPeriod n = true) (h3 : ¬ snapBlockNo n = 0) :
    snapBlockNo n = n - getElectionPeriod := by
  have h' := (isSnapPeriod_iff n hn).1 h
  rw [snapBlockNo_eq n hn] at h3 ⊢
  by_cases h1 : n < 3 * getElectionPeriod
  · rw [if_pos h1] at h3; exact absurd rfl h3
  · rw [if_neg h1]; simp only [getElectionPeriod] at *; omega

/-! ### The snapshot map -/

theorem lookup_filter_key (p : Int → Bool) (m : List (Int × List String)) (k : Int) :
    lookup (m.filter (fun e => p e.1)) k = if p k then lookup m k else none := by
  induction m with
  | nil => simp [lookup]
  | cons e rest ih =>
    obtain ⟨k', v⟩ := e
    by_cases hp : p k' = true
    · simp only [List.filter_cons, hp, if_true, lookup]
      by_cases hk : (k' == k) = true
      · have : k' = k := by simpa using hk
        subst this; simp [hp]
      · simp [hk, ih]
    · have hp' : p k' = false := by simpa using hp
      simp only [List.filter_cons, hp', lookup]
      by_cases hk : (k' == k) = true
      · have : k' = k := by simpa using hk
        subst this
        simp [hp', ih]
      · simp [hk, ih]

theorem lookup_insert (m : List (Int × List String)) (k k' : Int) (v : List String) :
    lookup (insert m k v) k' = if k' = k then some v else lookup m k' := by
  unfold insert
  simp only [lookup]
  by_cases h : k' = k
  · subst h; simp
  · have : (k == k') = false := by simp; exact fun e => h e.symm
    simp only [this, h, if_false]
    rw [lookup_filter_key (fun x => !(x == k)) m k']
    have : (k' == k) = false := by simp [h]
    simp [this]

theorem lookup_gc (m : List (Int × List String)) (n k : Int) (l : List String)
    (h : lookup (gc m n) k = some l) : lookup m k = some l := by
  unfold gc at h
  generalize (if n > Snapshots_gcPeriod then n - Snapshots_gcPeriod else 0) = g at h
  rw [lookup_filter_key (fun x => !(decide (x < g))) m k] at h
  by_cases hp : (!(decide (k < g))) = true
  · rw [if_pos hp] at h; exact h
  · rw [if_neg hp] at h; cases h

/-! ### The invariant -/

/-- The producer list the property entitles after best block `best` of a chain whose block `k` left ranking
`ranks[k]` behind: the genesis list during bootstrap, else the ranking at the reference boundary. -/
def specSet (genesis : List String) (ranks : List (List String)) (best : Int) : Option (List String) :=
  if snapBlockNo best = 0 then some genesis else ranks[(snapBlockNo best).toNat]?

/-- All ids of a ranking decode (`Cluster.Update` cannot fail on it). -/
def RankOk (l : List String) : Prop := l.all idOk = true

structure Inv (n : Node) : Prop where
  best_nonneg : 0 ≤ n.best
  len : n.ranks.length = n.best.toNat + 1
  ranks_ok : ∀ l ∈ n.ranks, RankOk l
  gen_ok : RankOk n.sn.genesis
  /-- keys are election boundaries above the genesis block -/
  keys : ∀ k l, lookup n.sn.snaps k = some l → isSnapPeriod k = true ∧ 0 < k
  /-- an entry at or below the best block is the ranking of that block of the CURRENT chain
  (entries above it may be left over from an abandoned branch) -/
  entries : ∀ k l, lookup n.sn.snaps k = some l → k ≤ n.best → n.ranks[k.toNat]? = some l
  /-- the list in force is the specified one -/
  current : some n.sn.members = specSet n.sn.genesis n.ranks n.best
  size_eq : n.sn.size = n.sn.members.length

theorem loadOf_some (ranks : List (List String)) (b : Int) (hb : 0 ≤ b) (hlen : ranks.length = b.toNat + 1) :
    ∃ l, loadOf ranks b = some l ∧ ranks[(snapBlockNo b).toNat]? = some l := by
  have h1 := snapBlockNo_le b hb
  have h0 := snapBlockNo_nonneg b hb
  have : (snapBlockNo b).toNat < ranks.length := by omega
  exact ⟨ranks[(snapBlockNo b).toNat], by simp [loadOf, this], by simp [this]⟩

/-- `updateCluster` on a state whose relevant entries are right installs exactly the specified list. -/
theorem updateCluster_spec (s : Snaps) (ranks : List (List String)) (b : Int) (hb : 0 ≤ b)
    (hlen : ranks.length = b.toNat + 1) (hok : ∀ l ∈ ranks, RankOk l) (hg : RankOk s.genesis)
    (hent : ∀ k l, lookup s.snaps k = some l → k ≤ b → ranks[k.toNat]? = some l) :
    let s' := (updateCluster s b (loadOf ranks b)).1
    some s'.members = specSet s.genesis ranks b ∧ s'.size = s'.members.length ∧ s'.snaps = s.snaps
      ∧ s'.genesis = s.genesis := by
  obtain ⟨l0, hl0, hr0⟩ := loadOf_some ranks b hb hlen
  have hle := snapBlockNo_le b hb
  simp only [updateCluster, getCurrent, specSet]
  by_cases hz : snapBlockNo b = 0
  · simp only [if_true, hz]
    have : s.genesis.all idOk = true := hg
    simp [this]
  · have : (snapBlockNo b == 0) = false := by simp [hz]
    simp only [this, hz, if_false]
    cases hlk : lookup s.snaps (snapBlockNo b) with
    | some l =>
      have hl := hent _ _ hlk hle
      have hmem : l ∈ ranks := List.mem_of_getElem? hl
      have : l.all idOk = true := hok l hmem
      simp [this, hl]
    | none =>
      simp only [hl0]
      have hmem : l0 ∈ ranks := List.mem_of_getElem? hr0
      have : l0.all idOk = true := hok l0 hmem
      simp [this, hr0]

theorem Inv.init (genesis : List String) (hg : RankOk genesis) : Inv (Node.init genesis) := by
  have hs : snapBlockNo 0 = 0 := by decide
  refine ⟨by simp [Node.init], by simp [Node.init], ?_, ?_, ?_, ?_, ?_, ?_⟩
  · intro l hl; simp [Node.init] at hl; subst hl; exact hg
  · simp only [Node.init, boot, updateCluster, getCurrent, hs]
    have : genesis.all idOk = true := hg
    simp [this]; exact hg
  · intro k l h
    simp only [Node.init, boot, updateCluster, getCurrent, hs] at h
    have : genesis.all idOk = true := hg
    simp [this, lookup] at h
  · intro k l h
    simp only [Node.init, boot, updateCluster, getCurrent, hs] at h
    have : genesis.all idOk = true := hg
    simp [this, lookup] at h
  · simp only [Node.init, boot, updateCluster, getCurrent, specSet, hs]
    have : genesis.all idOk = true := hg
    simp [this]
  · simp only [Node.init, boot, updateCluster, getCurrent, hs]
    have : genesis.all idOk = true := hg
    simp [this]

/-- `AddSnapshot` for block `N` connected on top of a chain with rankings `ranks` (blocks `0..N-1`). -/
theorem addSnapshot_spec (s : Snaps) (ranks : List (List String)) (rank : List String) (N : Int)
    (hN : 1 ≤ N) (hlen : ranks.length = N.toNat)
    (hok : ∀ l ∈ ranks, RankOk l) (hrank : RankOk rank) (hg : RankOk s.genesis)
    (hkeys : ∀ k l, lookup s.snaps k = some l → isSnapPeriod k = true ∧ 0 < k)
    (hent : ∀ k l, lookup s.snaps k = some l → k ≤ N - 1 → ranks[k.toNat]? = some l)
    (hcur : some s.members = specSet s.genesis ranks (N - 1)) (hsize : s.size = s.members.length) :
    let s' := (addSnapshot s N (some rank) (loadOf (ranks ++ [rank]) N)).1
    (∀ k l, lookup s'.snaps k = some l → isSnapPeriod k = true ∧ 0 < k)
    ∧ (∀ k l, lookup s'.snaps k = some l → k ≤ N → (ranks ++ [rank])[k.toNat]? = some l)
    ∧ some s'.members = specSet s.genesis (ranks ++ [rank]) N
    ∧ s'.size = s'.members.length ∧ s'.genesis = s.genesis := by
  -- the state after the (never taken in /repo) reset
  have hs0 : ∃ s0 : Snaps, (if s.maxRef > N then { s with snaps := [] } else s) = s0
      ∧ s0.genesis = s.genesis ∧ s0.members = s.members ∧ s0.size = s.size
      ∧ (∀ k l, lookup s0.snaps k = some l → lookup s.snaps k = some l) := by
    by_cases hm : s.maxRef > N
    · exact ⟨{ s with snaps := [] }, by simp [hm], rfl, rfl, rfl, by intro k l h; simp [lookup] at h⟩
    · exact ⟨s, by simp [hm], rfl, rfl, rfl, fun _ _ h => h⟩
  obtain ⟨s0, hs0e, hg0, hm0, hz0, hsub⟩ := hs0
  have hkeys0 : ∀ k l, lookup s0.snaps k = some l → isSnapPeriod k = true ∧ 0 < k :=
    fun k l h => hkeys k l (hsub k l h)
  have hent0 : ∀ k l, lookup s0.snaps k = some l → k ≤ N - 1 → ranks[k.toNat]? = some l :=
    fun k l h => hent k l (hsub k l h)
  have hpre : ∀ k : Int, 0 ≤ k → k ≤ N - 1 → (ranks ++ [rank])[k.toNat]? = ranks[k.toNat]? := by
    intro k h0 hk
    exact List.getElem?_append_left (by omega)
  have hlast : (ranks ++ [rank])[N.toNat]? = some rank := by rw [← hlen]; simp
  have hN0 : (N == 0) = false := by simp; omega
  simp only [addSnapshot, hs0e, hN0, Bool.or_false]
  by_cases hp : isSnapPeriod N = true
  · -- an election boundary
    simp only [hp, Bool.not_true, Bool.false_eq_true, if_false, needToRefresh_eq, if_true]
    have hent1 : ∀ k l, lookup (insert s0.snaps N rank) k = some l → k ≤ N → (ranks ++ [rank])[k.toNat]? = some l := by
      intro k l h hk
      rw [lookup_insert] at h
      by_cases hkN : k = N
      · subst hkN; simp at h; subst h; exact hlast
      · simp only [hkN, if_false] at h
        have := hkeys0 k l h
        rw [hpre k (by omega) (by omega)]
        exact hent0 k l h (by omega)
    have hok' : ∀ l ∈ ranks ++ [rank], RankOk l := by
      intro l hl
      rcases List.mem_append.1 hl with h | h
      · exact hok l h
      · simp at h; subst h; exact hrank
    have hu := updateCluster_spec { s0 with snaps := insert s0.snaps N rank } (ranks ++ [rank]) N (by omega)
      (by simp [hlen]) hok' (by simpa [hg0] using hg) hent1
    simp only at hu
    obtain ⟨hu1, hu2, hu3, hu4⟩ := hu
    refine ⟨?_, ?_, ?_, hu2, ?_⟩
    · intro k l h
      have h := lookup_gc _ _ _ _ h
      rw [hu3, lookup_insert] at h
      by_cases hkN : k = N
      · subst hkN; exact ⟨hp, by omega⟩
      · simp only [hkN, if_false] at h; exact hkeys0 k l h
    · intro k l h hk
      have h := lookup_gc _ _ _ _ h
      rw [hu3] at h
      exact hent1 k l h hk
    · simpa [hg0] using hu1
    · simpa [hg0] using hu4
  · -- between boundaries nothing changes
    have hp' : isSnapPeriod N = false := by simpa using hp
    simp only [hp', Bool.not_false, if_true]
    refine ⟨hkeys0, ?_, ?_, by rw [hz0, hm0]; exact hsize, hg0⟩
    · intro k l h hk
      have hk' := hkeys0 k l h
      by_cases hkN : k = N
      · subst hkN; rw [hp'] at hk'; cases hk'.1
      · rw [hpre k (by omega) (by omega)]; exact hent0 k l h (by omega)
    · have hsucc := snapBlockNo_succ (N - 1) (by omega) (by simpa using hp')
      have e : N - 1 + 1 = N := by omega
      rw [e] at hsucc
      rw [hm0, hcur]
      simp only [specSet, hsucc]
      by_cases hz : snapBlockNo (N - 1) = 0
      · simp [hz]
      · simp only [hz, if_false]
        have h1 := snapBlockNo_le (N - 1) (by omega)
        have h0 := snapBlockNo_nonneg (N - 1) (by omega)
        exact (hpre _ h0 h1).symm

/-- What events carry must be decodable rankings (otherwise `Cluster.Update` fails and the old set stays). -/
def EvOk : Ev → Prop
  | .offer _ _ rank => RankOk rank
  | _ => True

theorem Inv.step {Key : Type} (c : Crypto Key) (iv : Int) (n : Node) (ev : Ev) (hev : EvOk ev) (h : Inv n) :
    Inv (n.step c iv ev) ∧ (n.step c iv ev).sn.genesis = n.sn.genesis := by
  cases ev with
  | offer now b rank =>
    simp only [Node.step]
    split
    · rename_i hc
      simp only [Bool.and_eq_true, beq_iff_eq] at hc
      have hno : b.no = n.best + 1 := hc.1.1
      have hb := h.best_nonneg
      have hs := addSnapshot_spec n.sn n.ranks rank b.no (by omega) (by rw [h.len, hno]; omega) h.ranks_ok hev h.gen_ok
        h.keys (by intro k l hl hk; exact h.entries k l hl (by omega))
        (by have e : b.no - 1 = n.best := by omega
            rw [e]; exact h.current) h.size_eq
      simp only at hs
      obtain ⟨k1, k2, k3, k4, k5⟩ := hs
      refine ⟨⟨by simp; omega, ?_, ?_, by simpa [k5] using h.gen_ok, k1, k2, by simpa [k5] using k3, k4⟩, k5⟩
      · simp [h.len, hno]; omega
      · intro l hl
        rcases List.mem_append.1 hl with h' | h'
        · exact h.ranks_ok l h'
        · simp at h'; subst h'; exact hev
    · exact ⟨h, rfl⟩
  | rollback to =>
    simp only [Node.step]
    split
    · rename_i hc
      simp only [Bool.and_eq_true, decide_eq_true_eq] at hc
      have hb := h.best_nonneg
      have hlen' : (n.ranks.take (to.toNat + 1)).length = to.toNat + 1 := by
        rw [List.length_take, h.len]; omega
      have hok' : ∀ l ∈ n.ranks.take (to.toNat + 1), RankOk l := fun l hl => h.ranks_ok l (List.mem_of_mem_take hl)
      have hent' : ∀ k l, lookup n.sn.snaps k = some l → k ≤ to → (n.ranks.take (to.toNat + 1))[k.toNat]? = some l := by
        intro k l hl hk
        have hk0 := (h.keys k l hl).2
        have : k.toNat < to.toNat + 1 := by omega
        simp only [List.getElem?_take, this, if_true]
        exact h.entries k l hl (by omega)
      have hu := updateCluster_spec n.sn (n.ranks.take (to.toNat + 1)) to hc.1 hlen' hok' h.gen_ok hent'
      simp only at hu
      obtain ⟨hu1, hu2, hu3, hu4⟩ := hu
      refine ⟨⟨hc.1, hlen', hok', by simpa [hu4] using h.gen_ok, ?_, ?_, by simpa [hu4] using hu1, hu2⟩, hu4⟩
      · intro k l hl; rw [hu3] at hl; exact h.keys k l hl
      · intro k l hl hk; rw [hu3] at hl; exact hent' k l hl hk
    · exact ⟨h, rfl⟩
  | restart =>
    simp only [Node.step, boot]
    have hu := updateCluster_spec { snaps := [], maxRef := 0, genesis := n.sn.genesis, members := [], size := n.sn.genesis.length }
      n.ranks n.best h.best_nonneg h.len h.ranks_ok h.gen_ok (by intro k l hl; simp [lookup] at hl)
    simp only at hu
    obtain ⟨hu1, hu2, hu3, hu4⟩ := hu
    refine ⟨⟨h.best_nonneg, h.len, h.ranks_ok, by simpa [hu4] using h.gen_ok, ?_, ?_, by simpa [hu4] using hu1, hu2⟩, hu4⟩
    · intro k l hl; rw [hu3] at hl; simp [lookup] at hl
    · intro k l hl; rw [hu3] at hl; simp [lookup] at hl

/-- What the log records about an accepted block: it passed the three checks with the list then in force, and that
list was the one specified for the chain the block extended. -/
def LogOk {Key : Type} (c : Crypto Key) (iv : Int) (genesis : List String) (a : Accepted) : Prop :=
  accept c iv a.ids a.nowNs none a.blk.hdr a.blk.no a.blk.tsNs = true
    ∧ some a.ids = specSet genesis a.ranks (a.blk.no - 1)
    ∧ a.ranks.length = a.blk.no.toNat ∧ 1 ≤ a.blk.no

theorem log_step {Key : Type} (c : Crypto Key) (iv : Int) (n : Node) (ev : Ev) (h : Inv n)
    (hl : ∀ a ∈ n.log, LogOk c iv n.sn.genesis a) : ∀ a ∈ (n.step c iv ev).log, LogOk c iv n.sn.genesis a := by
  cases ev with
  | offer now b rank =>
    simp only [Node.step]
    split
    · rename_i hc
      simp only [Bool.and_eq_true, beq_iff_eq] at hc
      intro a ha
      simp only [List.mem_cons] at ha
      rcases ha with rfl | ha
      · have hno : b.no = n.best + 1 := hc.1.1
        have hb := h.best_nonneg
        refine ⟨hc.2, ?_, ?_, ?_⟩
        · have e : b.no - 1 = n.best := by omega
          simp only [e]; exact h.current
        · simp only [h.len, hno]; omega
        · simp only; omega
      · exact hl a ha
    · exact hl
  | rollback to =>
    simp only [Node.step]
    split <;> exact hl
  | restart => exact hl

theorem run_inv {Key : Type} (c : Crypto Key) (iv : Int) (evs : List Ev) : ∀ (n : Node), Inv n →
    (∀ ev ∈ evs, EvOk ev) → (∀ a ∈ n.log, LogOk c iv n.sn.genesis a) →
    Inv (n.run c iv evs) ∧ (n.run c iv evs).sn.genesis = n.sn.genesis
      ∧ ∀ a ∈ (n.run c iv evs).log, LogOk c iv n.sn.genesis a := by
  induction evs with
  | nil => intro n h _ hl; exact ⟨h, rfl, hl⟩
  | cons ev rest ih =>
    intro n h hev hl
    have hs := Inv.step c iv n ev (hev ev (by simp)) h
    have hl' := log_step c iv n ev h hl
    have := ih (n.step c iv ev) hs.1 (fun e he => hev e (by simp [he])) (by rw [hs.2]; exact hl')
    simp only [Node.run, List.foldl_cons] at this ⊢
    exact ⟨this.1, by rw [this.2.1, hs.2], by rw [← hs.2]; exact this.2.2⟩

/-- Without any hypothesis on rankings: whatever is in the log passed the three checks with the list in force. -/
theorem run_log_accept {Key : Type} (c : Crypto Key) (iv : Int) (evs : List Ev) : ∀ (n : Node),
    (∀ a ∈ n.log, accept c iv a.ids a.nowNs none a.blk.hdr a.blk.no a.blk.tsNs = true) →
    ∀ a ∈ (n.run c iv evs).log, accept c iv a.ids a.nowNs none a.blk.hdr a.blk.no a.blk.tsNs = true := by
  induction evs with
  | nil => intro n h; exact h
  | cons ev rest ih =>
    intro n h
    simp only [Node.run, List.foldl_cons]
    apply ih
    cases ev with
    | offer now b rank =>
      simp only [Node.step]
      split
      · rename_i hc
        simp only [Bool.and_eq_true] at hc
        intro a ha
        simp only [List.mem_cons] at ha
        rcases ha with rfl | ha
        · exact hc.2
        · exact h a ha
      · exact h
    | rollback to => simp only [Node.step]; split <;> exact h
    | restart => exact h

end Aergo.Producer
