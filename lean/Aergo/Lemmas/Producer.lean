/-
Lemmas for C09's `Producer` model: election arithmetic, the snapshot map, and the invariant that ties the producer
list a DPoS node has in force to the ranking on its own main chain. Core only.
-/
import Aergo.Model.Producer

namespace Aergo.Producer
open Aergo.Slot Aergo.Gen.Slot Aergo.Gen.Snap

/-! ### Election arithmetic (over the regenerated `snapBlockNo`, `isSnapPeriod`) -/

theorem snapBlockNo_eq (b : Int) (hb : 0 ≤ b) :
    snapBlockNo b = if b < 3 * getElectionPeriod then 0 else (b / getElectionPeriod - 1) * getElectionPeriod := by
  simp only [snapBlockNo, bootstrapHeight, Int.tdiv_eq_ediv_of_nonneg hb]
  by_cases h : b < getElectionPeriod * 3
  · have h' : b < 3 * getElectionPeriod := by rw [Int.mul_comm]; exact h
    simp [h, h']
  · have h' : ¬ b < 3 * getElectionPeriod := by rw [Int.mul_comm]; exact h
    simp [h, h']

theorem isSnapPeriod_iff (b : Int) (hb : 0 ≤ b) : isSnapPeriod b = true ↔ b % getElectionPeriod = 0 := by
  simp only [isSnapPeriod, Int.tmod_eq_emod_of_nonneg hb, beq_iff_eq]

theorem needToRefresh_eq (b : Int) : Snapshots_NeedToRefresh b = isSnapPeriod b := rfl

theorem snapBlockNo_nonneg (b : Int) (hb : 0 ≤ b) : 0 ≤ snapBlockNo b := by
  rw [snapBlockNo_eq b hb]
  simp only [getElectionPeriod]
  by_cases h : b < 3 * 100
  · simp [h]
  · simp only [h, if_false]; omega

theorem snapBlockNo_le (b : Int) (hb : 0 ≤ b) : snapBlockNo b ≤ b := by
  rw [snapBlockNo_eq b hb]
  simp only [getElectionPeriod]
  by_cases h : b < 3 * 100
  · simp only [h, if_true]; omega
  · simp only [h, if_false]; omega

/-- Between election boundaries the reference block does not move. -/
theorem snapBlockNo_succ (b : Int) (hb : 0 ≤ b) (h : isSnapPeriod (b + 1) = false) :
    snapBlockNo (b + 1) = snapBlockNo b := by
  have h' : ¬ ((b + 1) % getElectionPeriod = 0) := by
    intro e; rw [(isSnapPeriod_iff (b + 1) (by omega)).2 e] at h; cases h
  rw [snapBlockNo_eq b hb, snapBlockNo_eq (b + 1) (by omega)]
  simp only [getElectionPeriod] at *
  by_cases h1 : b + 1 < 3 * 100 <;> by_cases h2 : b < 3 * 100 <;> simp only [h1, h2, if_true, if_false] <;> omega

/-- At a boundary `n` (from the third on) the reference block is the previous boundary. -/
theorem snapBlockNo_boundary (n : Int) (hn : 0 ≤ n) (h : isSnapPeriod n = true) (h3 : ¬ snapBlockNo n = 0) :
    snapBlockNo n = n - getElectionPeriod := by
  have h' := (isSnapPeriod_iff n hn).1 h
  rw [snapBlockNo_eq n hn] at h3 ⊢
  simp only [getElectionPeriod] at *
  by_cases h1 : n < 3 * 100
  · simp only [h1, if_true] at h3; exact absurd rfl h3
  · simp only [h1, if_false]; omega

/-! ### The snapshot map -/

theorem lookup_filter_key (p : Int → Bool) (m : List (Int × List String)) (k : Int) :
    lookup (m.filter (fun e => p e.1)) k = if p k then lookup m k else none := by
  induction m with
  | nil => simp [lookup]
  | cons e rest ih =>
    obtain ⟨k', v⟩ := e
    by_cases hp : p k' = true
    · simp only [List.filter_cons, hp, if_true, lookup]
      by_cases hk : (k' == k) = true
      · have : k' = k := by simpa using hk
        subst this; simp [hp]
      · simp [hk, ih]
    · have hp' : p k' = false := by simpa using hp
      simp only [List.filter_cons, hp', lookup]
      by_cases hk : (k' == k) = true
      · have : k' = k := by simpa using hk
        subst this
        simp [hp', ih]
      · simp [hk, ih]

theorem lookup_insert (m : List (Int × List String)) (k k' : Int) (v : List String) :
    lookup (insert m k v) k' = if k' = k then some v else lookup m k' := by
  unfold insert
  simp only [lookup]
  by_cases h : k' = k
  · subst h; simp
  · have : (k == k') = false := by simp; exact fun e => h e.symm
    simp only [this, h, if_false]
    rw [lookup_filter_key (fun x => !(x == k)) m k']
    have : (k' == k) = false := by simp [h]
    simp [this]

theorem lookup_gc (m : List (Int × List String)) (n k : Int) (l : List String)
    (h : lookup (gc m n) k = some l) : lookup m k = some l := by
  unfold gc at h
  generalize (if n > Snapshots_gcPeriod then n - Snapshots_gcPeriod else 0) = g at h
  rw [lookup_filter_key (fun x => !(decide (x < g))) m k] at h
  by_cases hp : (!(decide (k < g))) = true
  · rw [if_pos hp] at h; exact h
  · rw [if_neg hp] at h; cases h

/-! ### The invariant -/

/-- The producer list the property entitles after best block `best` of a chain whose block `k` left ranking
`ranks[k]` behind: the genesis list during bootstrap, else the ranking at the reference boundary. -/
def specSet (genesis : List String) (ranks : List (List String)) (best : Int) : Option (List String) :=
  if snapBlockNo best = 0 then some genesis else ranks[(snapBlockNo best).toNat]?

/-- All ids of a ranking decode (`Cluster.Update` cannot fail on it). -/
def RankOk (l : List String) : Prop := l.all idOk = true

structure Inv (n : Node) : Prop where
  best_nonneg : 0 ≤ n.best
  len : n.ranks.length = n.best.toNat + 1
  ranks_ok : ∀ l ∈ n.ranks, RankOk l
  gen_ok : RankOk n.sn.genesis
  /-- keys are election boundaries above the genesis block -/
  keys : ∀ k l, lookup n.sn.snaps k = some l → isSnapPeriod k = true ∧ 0 < k
  /-- an entry at or below the best block is the ranking of that block of the CURRENT chain
  (entries above it may be left over from an abandoned branch) -/
  entries : ∀ k l, lookup n.sn.snaps k = some l → k ≤ n.best → n.ranks[k.toNat]? = some l
  /-- the list in force is the specified one -/
  current : some n.sn.members = specSet n.sn.genesis n.ranks n.best
  size_eq : n.sn.size = n.sn.members.length

theorem loadOf_some (ranks : List (List String)) (b : Int) (hb : 0 ≤ b) (hlen : ranks.length = b.toNat + 1) :
    ∃ l, loadOf ranks b = some l ∧ ranks[(snapBlockNo b).toNat]? = some l := by
  have h1 := snapBlockNo_le b hb
  have h0 := snapBlockNo_nonneg b hb
  have : (snapBlockNo b).toNat < ranks.length := by omega
  exact ⟨ranks[(snapBlockNo b).toNat], by simp [loadOf, this], by simp [this]⟩

/-- `updateCluster` on a state whose relevant entries are right installs exactly the specified list. -/
theorem updateCluster_spec (s : Snaps) (ranks : List (List String)) (b : Int) (hb : 0 ≤ b)
    (hlen : ranks.length = b.toNat + 1) (hok : ∀ l ∈ ranks, RankOk l) (hg : RankOk s.genesis)
    (hent : ∀ k l, lookup s.snaps k = some l → k ≤ b → ranks[k.toNat]? = some l) :
    let s' := (updateCluster s b (loadOf ranks b)).1
    some s'.members = specSet s.genesis ranks b ∧ s'.size = s'.members.length ∧ s'.snaps = s.snaps
      ∧ s'.genesis = s.genesis := by
  obtain ⟨l0, hl0, hr0⟩ := loadOf_some ranks b hb hlen
  have hle := snapBlockNo_le b hb
  simp only [updateCluster, getCurrent, specSet]
  by_cases hz : snapBlockNo b = 0
  · have : (snapBlockNo b == 0) = true := by simp [hz]
    simp only [this, if_true, hz]
    have : s.genesis.all idOk = true := hg
    simp [this]
  · have : (snapBlockNo b == 0) = false := by simp [hz]
    simp only [this, hz, if_false]
    cases hlk : lookup s.snaps (snapBlockNo b) with
    | some l =>
      have hl := hent _ _ hlk hle
      have hmem : l ∈ ranks := List.mem_of_getElem? hl
      have : l.all idOk = true := hok l hmem
      simp [this, hl]
    | none =>
      simp only [hl0]
      have hmem : l0 ∈ ranks := List.mem_of_getElem? hr0
      have : l0.all idOk = true := hok l0 hmem
      simp [this, hr0]

theorem Inv.init (genesis : List String) (hg : RankOk genesis) : Inv (Node.init genesis) := by
  have hs : snapBlockNo 0 = 0 := by decide
  refine ⟨by simp [Node.init], by simp [Node.init], ?_, ?_, ?_, ?_, ?_, ?_⟩
  · intro l hl; simp [Node.init] at hl; subst hl; exact hg
  · simp only [Node.init, boot, updateCluster, getCurrent, hs]
    have : genesis.all idOk = true := hg
    simp [this]; exact hg
  · intro k l h
    simp only [Node.init, boot, updateCluster, getCurrent, hs] at h
    have : genesis.all idOk = true := hg
    simp [this, lookup] at h
  · intro k l h
    simp only [Node.init, boot, updateCluster, getCurrent, hs] at h
    have : genesis.all idOk = true := hg
    simp [this, lookup] at h
  · simp only [Node.init, boot, updateCluster, getCurrent, specSet, hs]
    have : genesis.all idOk = true := hg
    simp [this]
  · simp only [Node.init, boot, updateCluster, getCurrent, hs]
    have : genesis.all idOk = true := hg
    simp [this]

end Aergo.Producer
