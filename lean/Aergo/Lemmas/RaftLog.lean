/-
Helper definitions and lemmas for C16 (`Aergo.Props.C16`): the specification side of the raft
log (what "the entry most recently stored at an index" means for a history of operations),
well-formedness of batches, and the invariants that the model's operations preserve.
Core Lean only.
-/
import Aergo.Model.RaftLog

namespace Aergo.RaftLog

/-! ## Specification vocabulary -/

/-- The item of the batch written last at index `j` (later positions win), if any. -/
def written : List Item → Nat → Option Item
  | [], _ => none
  | it :: rest, j =>
    match written rest j with
    | some x => some x
    | none => if it.e.index = j then some it else none

/-- The batch is contiguous and ascending, starting at index `f`. -/
def Contig : Nat → List Item → Prop
  | _, [] => True
  | f, it :: rest => it.e.index = f ∧ Contig (f + 1) rest

/-- The slices handed to `WriteRaftEntry` are coherent: a block entry comes with its block, a
conf-change entry with its proposal (otherwise the real call panics / exits). -/
def Item.wf (it : Item) : Prop :=
  (it.e.typ = tBlock → it.blk.isSome = true) ∧ (it.e.typ = tConf → it.cc.isSome = true)

/-- What etcd/raft guarantees about a batch it hands to the storage, relative to the current
last index `last`: non-empty, contiguous ascending, first index in `[1, last+1]`. -/
def ValidBatch (last : Nat) (items : List Item) : Prop :=
  items ≠ [] ∧ (∀ it ∈ items, it.wf) ∧ ∃ f, 1 ≤ f ∧ f ≤ last + 1 ∧ Contig f items

/-- The batch an operation writes, if it writes one. -/
def Op.items : Op → Option (List Item)
  | .write items => some items
  | .save _ ents => if ents.isEmpty then none else some (ents.map convertFromRaft)
  | _ => none

/-- An operation is admissible in state `s`: write batches are valid w.r.t. the current last index. -/
def OpOk (s : St) (op : Op) : Prop :=
  match op.items with
  | some items => ValidBatch (lastIdx s) items
  | none => True

/-- Every operation of the history is admissible in the state it is applied to. -/
def ValidFrom : St → List Op → Prop
  | _, [] => True
  | s, op :: rest => OpOk s op ∧ ValidFrom (applyOp s op) rest

/-- The same without the bound `first ≤ last + 1`: etcd/raft also hands over a batch that starts right
after an installed snapshot whose index lies beyond the stored log (the follower catch-up flow). -/
def ValidBatchG (items : List Item) : Prop :=
  items ≠ [] ∧ (∀ it ∈ items, it.wf) ∧ ∃ f, 1 ≤ f ∧ Contig f items

theorem ValidBatch.toG {last : Nat} {items : List Item} (h : ValidBatch last items) : ValidBatchG items := by
  obtain ⟨a, b, f, c, _, d⟩ := h
  exact ⟨a, b, f, c, d⟩

def OpOkG (op : Op) : Prop :=
  match op.items with
  | some items => ValidBatchG items
  | none => True

def ValidFromG : List Op → Prop
  | [] => True
  | op :: rest => OpOkG op ∧ ValidFromG rest

theorem OpOk.toG {s : St} {op : Op} (h : OpOk s op) : OpOkG op := by
  unfold OpOk at h
  unfold OpOkG
  cases hi : op.items with
  | none => trivial
  | some items => rw [hi] at h; exact ValidBatch.toG h

theorem ValidFrom.toG : ∀ {s : St} {ops : List Op}, ValidFrom s ops → ValidFromG ops
  | _, [], _ => trivial
  | _, _ :: _, h => ⟨OpOk.toG h.1, ValidFrom.toG h.2⟩

theorem validFromG_snoc (ops : List Op) (op : Op) : ValidFromG (ops ++ [op]) ↔ ValidFromG ops ∧ OpOkG op := by
  induction ops with
  | nil => simp [ValidFromG]
  | cons a l ih =>
    simp only [List.cons_append, ValidFromG, ih]
    constructor
    · rintro ⟨h1, h2, h3⟩; exact ⟨⟨h1, h2⟩, h3⟩
    · rintro ⟨⟨h1, h2⟩, h3⟩; exact ⟨h1, h2, h3⟩

/-- One step of the reference view "item most recently stored at index j": a batch overrides
the indices it contains, `ClearWAL`/`ResetWAL` forget everything, other operations change nothing. -/
def specStep (acc : Nat → Option Item) (op : Op) : Nat → Option Item :=
  match op with
  | .clear => fun _ => none
  | .reset (some _) => fun _ => none
  | op =>
    match op.items with
    | some items => fun j =>
      match written items j with
      | some it => some it
      | none => acc j
    | none => acc

/-- The item most recently stored at index `j` by the history `ops` (since the last clear/reset). -/
def mostRecent (ops : List Op) : Nat → Option Item := ops.foldl specStep (fun _ => none)

/-! ## Generic list facts -/

theorem snoc_induction {α : Type} {P : List α → Prop} (nil : P [])
    (snoc : ∀ l a, P l → P (l ++ [a])) : ∀ l, P l := by
  intro l
  have h : ∀ r : List α, P r.reverse := by
    intro r
    induction r with
    | nil => simpa using nil
    | cons a r ih => simpa using snoc _ a ih
  simpa using h l.reverse

theorem run_snoc (s : St) (ops : List Op) (op : Op) : run s (ops ++ [op]) = applyOp (run s ops) op := by
  simp [run, List.foldl_append]

theorem mostRecent_snoc (ops : List Op) (op : Op) : mostRecent (ops ++ [op]) = specStep (mostRecent ops) op := by
  simp [mostRecent, List.foldl_append]

theorem validFrom_snoc (s : St) (ops : List Op) (op : Op) :
    ValidFrom s (ops ++ [op]) ↔ ValidFrom s ops ∧ OpOk (run s ops) op := by
  induction ops generalizing s with
  | nil => simp [ValidFrom, run]
  | cons a l ih =>
    simp only [List.cons_append, ValidFrom, ih, run, List.foldl_cons]
    constructor
    · rintro ⟨h1, h2, h3⟩; exact ⟨⟨h1, h2⟩, h3⟩
    · rintro ⟨⟨h1, h2⟩, h3⟩; exact ⟨h1, h2, h3⟩

/-! ## `written` on contiguous batches -/

theorem written_index {items : List Item} {j : Nat} {it : Item} (h : written items j = some it) :
    it.e.index = j ∧ it ∈ items := by
  induction items with
  | nil => simp [written] at h
  | cons a rest ih =>
    simp only [written] at h
    cases hr : written rest j with
    | some x =>
      rw [hr] at h
      cases h
      exact ⟨(ih hr).1, List.mem_cons_of_mem _ (ih hr).2⟩
    | none =>
      rw [hr] at h
      by_cases ha : a.e.index = j
      · simp [ha] at h; subst h; exact ⟨ha, List.mem_cons_self⟩
      · simp [ha] at h

theorem written_contig {f : Nat} {items : List Item} (hc : Contig f items) (j : Nat) :
    (written items j).isSome = true ↔ f ≤ j ∧ j < f + items.length := by
  induction items generalizing f with
  | nil => simp [written]
  | cons a rest ih =>
    obtain ⟨ha, hr⟩ := hc
    have := ih hr
    simp only [written, List.length_cons]
    cases hw : written rest j with
    | some x =>
      have h2 := this.mp (by simp [hw])
      simp; omega
    | none =>
      have h2 : ¬ (f + 1 ≤ j ∧ j < f + 1 + rest.length) := by
        intro hh; have := this.mpr hh; simp [hw] at this
      by_cases hj : a.e.index = j
      · simp [hj]; omega
      · simp [hj]; omega

theorem batchLast_contig {f : Nat} {items : List Item} (hc : Contig f items) (hne : items ≠ []) :
    batchLast items = f + items.length - 1 := by
  unfold batchLast
  induction items generalizing f with
  | nil => exact absurd rfl hne
  | cons a rest ih =>
    obtain ⟨ha, hr⟩ := hc
    cases rest with
    | nil => simp [ha]
    | cons b rest' =>
      have := ih (f := f + 1) hr (by simp)
      simp only [List.foldl_cons, List.length_cons] at this ⊢
      rw [this]; omega

/-! ## `putItems` -/

/-- Fields of the state that `WriteRaftEntry` never touches, and the entry map after one item. -/
theorem putItem_ok {s s1 : St} {it : Item} (h : putItem s it = .ok s1) :
    s1.ents = upd s.ents it.e.index it.e ∧ s1.lastKey = s.lastKey ∧ s1.hard = s.hard ∧ s1.snap = s.snap ∧
    s1.ident = s.ident ∧ s1.best = s.best ∧ s1.latestNo = s.latestNo ∧ s1.hashByNo = s.hashByNo := by
  unfold putItem at h
  split at h
  · split at h
    · cases h
    · cases h; simp
  · split at h
    · split at h
      · cases h
      · cases h; simp
    · cases h; simp

theorem putItem_wf (s : St) {it : Item} (h : it.wf) : ∃ s1, putItem s it = .ok s1 := by
  unfold putItem
  split
  · next ht =>
    have := h.1 ht
    cases hb : it.blk with
    | none => simp [hb] at this
    | some b => exact ⟨_, rfl⟩
  · split
    · next ht =>
      have := h.2 ht
      cases hc : it.cc with
      | none => simp [hc] at this
      | some c => exact ⟨_, rfl⟩
    · exact ⟨_, rfl⟩

theorem putItems_ok {s : St} {items : List Item} (h : ∀ it ∈ items, it.wf) :
    ∃ s', putItems s items = .ok s' ∧
      (∀ j, s'.ents j = match written items j with
                        | some it => some it.e
                        | none => s.ents j) ∧
      s'.lastKey = s.lastKey ∧ s'.hard = s.hard ∧ s'.snap = s.snap ∧ s'.ident = s.ident ∧
      s'.best = s.best ∧ s'.latestNo = s.latestNo ∧ s'.hashByNo = s.hashByNo := by
  induction items generalizing s with
  | nil => exact ⟨s, rfl, fun j => by simp [written], rfl, rfl, rfl, rfl, rfl, rfl, rfl⟩
  | cons a rest ih =>
    obtain ⟨s1, h1⟩ := putItem_wf s (h a List.mem_cons_self)
    obtain ⟨he, hk, hh, hs, hi, hb, hl, hn⟩ := putItem_ok h1
    obtain ⟨s', h2, hents, r2, r3, r4, r5, r6, r7, r8⟩ := ih (s := s1) (fun it hit => h it (List.mem_cons_of_mem _ hit))
    refine ⟨s', by simp [putItems, h1, h2], ?_, by rw [r2, hk], by rw [r3, hh], by rw [r4, hs], by rw [r5, hi],
      by rw [r6, hb], by rw [r7, hl], by rw [r8, hn]⟩
    intro j
    rw [hents j]
    simp only [written]
    cases hw : written rest j with
    | some x => rfl
    | none =>
      simp only [he, upd]
      by_cases hj : a.e.index = j
      · simp [hj]
      · have : ¬ j = a.e.index := fun h => hj h.symm
        simp [hj, this]

/-- (General form, any first index ≥ 1.) `WriteRaftEntry` on a valid batch: it succeeds, the last index is the index of the last
entry, an index holds the batch's entry if the batch contains it, nothing if it lies in the
truncated range, and its old content otherwise. -/
theorem writeRaftEntry_validG {s : St} {items : List Item} (hv : ValidBatchG items) :
    ∃ s' f, writeRaftEntry s items = (s', .ok) ∧ 1 ≤ f ∧ Contig f items ∧
      lastIdx s' = f + items.length - 1 ∧
      (∀ j, s'.ents j = match written items j with
                        | some it => some it.e
                        | none => if f ≤ j ∧ j ≤ lastIdx s then none else s.ents j) ∧
      s'.hard = s.hard ∧ s'.snap = s.snap ∧ s'.ident = s.ident ∧ s'.best = s.best ∧
      s'.latestNo = s.latestNo ∧ s'.hashByNo = s.hashByNo := by
  obtain ⟨hne, hwf, f, hf1, hc⟩ := hv
  cases items with
  | nil => exact absurd rfl hne
  | cons it0 rest =>
    have h0 : it0.e.index = f := hc.1
    let s1 : St := if it0.e.index ≤ lastIdx s then { s with ents := delRange s.ents it0.e.index (lastIdx s) } else s
    obtain ⟨s2, hp, hents, r2, r3, r4, r5, r6, r7, r8⟩ := putItems_ok (s := s1) hwf
    have hs1 : s1.lastKey = s.lastKey ∧ s1.hard = s.hard ∧ s1.snap = s.snap ∧ s1.ident = s.ident ∧ s1.best = s.best ∧
        s1.latestNo = s.latestNo ∧ s1.hashByNo = s.hashByNo := by
      simp only [s1]; split <;> simp
    have hs1e : ∀ j, s1.ents j = if f ≤ j ∧ j ≤ lastIdx s then none else s.ents j := by
      intro j
      simp only [s1]
      split
      · simp [delRange, h0]
      · next hgt =>
        have : ¬ (f ≤ j ∧ j ≤ lastIdx s) := by omega
        simp [this]
    refine ⟨{ s2 with lastKey := some (batchLast (it0 :: rest)) }, f, ?_, hf1, hc, ?_, ?_, ?_⟩
    · show writeRaftEntry s (it0 :: rest) = _
      simp only [writeRaftEntry]
      show (match putItems s1 (it0 :: rest) with
        | .error r => (s, r)
        | .ok s2 => ({ s2 with lastKey := some (batchLast (it0 :: rest)) }, Res.ok)) = _
      rw [hp]
    · simp [lastIdx, batchLast_contig hc (by simp)]
    · intro j
      show s2.ents j = _
      rw [hents j]
      cases written (it0 :: rest) j with
      | some x => rfl
      | none => exact hs1e j
    · refine ⟨by show s2.hard = _; rw [r3, hs1.2.1], by show s2.snap = _; rw [r4, hs1.2.2.1],
        by show s2.ident = _; rw [r5, hs1.2.2.2.1], by show s2.best = _; rw [r6, hs1.2.2.2.2.1],
        by show s2.latestNo = _; rw [r7, hs1.2.2.2.2.2.1], by show s2.hashByNo = _; rw [r8, hs1.2.2.2.2.2.2]⟩

/-- `WriteRaftEntry` on a batch valid w.r.t. the current last index. -/
theorem writeRaftEntry_valid {s : St} {items : List Item} (hv : ValidBatch (lastIdx s) items) :
    ∃ s' f, writeRaftEntry s items = (s', .ok) ∧ 1 ≤ f ∧ f ≤ lastIdx s + 1 ∧ Contig f items ∧
      lastIdx s' = f + items.length - 1 ∧
      (∀ j, s'.ents j = match written items j with
                        | some it => some it.e
                        | none => if f ≤ j ∧ j ≤ lastIdx s then none else s.ents j) ∧
      s'.hard = s.hard ∧ s'.snap = s.snap ∧ s'.ident = s.ident ∧ s'.best = s.best ∧
      s'.latestNo = s.latestNo ∧ s'.hashByNo = s.hashByNo := by
  obtain ⟨s', f, hw, hf1, hc, r⟩ := writeRaftEntry_validG (s := s) hv.toG
  obtain ⟨hne, _, f', _, hf2', hc'⟩ := hv
  have : f' = f := by
    cases items with
    | nil => exact absurd rfl hne
    | cons a t => rw [← hc.1, ← hc'.1]
  subst this
  exact ⟨s', f', hw, hf1, hf2', hc, r⟩

/-! ## The log invariant -/

/-- Nothing is stored above the last index, nor at index 0. -/
def WF (s : St) : Prop := (∀ j, lastIdx s < j → s.ents j = none) ∧ s.ents 0 = none

/-- The stored log agrees with the reference view `spec` up to the last index, and holds nothing beyond. -/
def LogInv (s : St) (spec : Nat → Option Item) : Prop :=
  WF s ∧ ∀ j, j ≤ lastIdx s → s.ents j = (spec j).map (·.e)

theorem logInv_same {s s' : St} {spec : Nat → Option Item} (h1 : s'.ents = s.ents) (h2 : s'.lastKey = s.lastKey)
    (h : LogInv s spec) : LogInv s' spec := by
  have hl : lastIdx s' = lastIdx s := by simp [lastIdx, h2]
  obtain ⟨⟨w1, w2⟩, h3⟩ := h
  refine ⟨⟨fun j hj => ?_, by rw [h1]; exact w2⟩, fun j hj => ?_⟩
  · rw [h1]; exact w1 j (by omega)
  · rw [h1]; exact h3 j (by omega)

theorem logInv_write {s : St} {spec : Nat → Option Item} {items : List Item}
    (hv : ValidBatch (lastIdx s) items) (h : LogInv s spec) :
    LogInv (writeRaftEntry s items).1 (fun j => match written items j with
                                                 | some it => some it
                                                 | none => spec j) := by
  obtain ⟨s', f, hw, hf1, hf2, hc, hlast, hents, -⟩ := writeRaftEntry_valid hv
  obtain ⟨⟨w1, w2⟩, h3⟩ := h
  have hne : items.length ≥ 1 := by
    cases items with
    | nil => exact absurd rfl hv.1
    | cons a r => simp
  rw [hw]
  refine ⟨⟨fun j hj => ?_, ?_⟩, fun j hj => ?_⟩
  · show s'.ents j = none
    have hnone : written items j = none := by
      cases hx : written items j with
      | none => rfl
      | some x =>
        have := (written_contig hc j).mp (by simp [hx])
        show _ = _
        simp only [] at hj
        omega
    rw [hents j, hnone]
    by_cases hr : f ≤ j ∧ j ≤ lastIdx s
    · simp [hr]
    · simp only [hr, if_false]
      exact w1 j (by simp only [] at hj; omega)
  · show s'.ents 0 = none
    have hnone : written items 0 = none := by
      cases hx : written items 0 with
      | none => rfl
      | some x =>
        have := (written_contig hc 0).mp (by simp [hx])
        omega
    rw [hents 0, hnone]
    have : ¬ (f ≤ 0 ∧ 0 ≤ lastIdx s) := by omega
    simp only [this, if_false]
    exact w2
  · show s'.ents j = Option.map (·.e) (match written items j with
                                            | some it => some it
                                            | none => spec j)
    rw [hents j]
    cases hx : written items j with
    | some x => rfl
    | none =>
      have hnot : ¬ (f ≤ j ∧ j < f + items.length) := by
        intro hh
        have := (written_contig hc j).mpr hh
        simp [hx] at this
      have hjf : j < f := by simp only [] at hj; omega
      have : ¬ (f ≤ j ∧ j ≤ lastIdx s) := by omega
      simp only [this, if_false]
      exact h3 j (by omega)

theorem wf_empty : WF empty := ⟨fun _ _ => rfl, rfl⟩

theorem logInv_clear {s : St} {spec : Nat → Option Item} (h : LogInv s spec) : LogInv (clearWAL s) (fun _ => none) := by
  obtain ⟨⟨w1, w2⟩, -⟩ := h
  have hl : lastIdx (clearWAL s) = 0 := rfl
  have he : ∀ j, (clearWAL s).ents j = none := by
    intro j
    show delRange s.ents 1 (lastIdx s) j = none
    unfold delRange
    by_cases hr : 1 ≤ j ∧ j ≤ lastIdx s
    · simp [hr]
    · simp only [hr, if_false]
      by_cases h0 : j = 0
      · subst h0; exact w2
      · exact w1 j (by omega)
  exact ⟨⟨fun j _ => he j, he 0⟩, fun j _ => by simp [he j]⟩

theorem applyOp_save_items {s : St} {hs : HardState} {ents : List RaftIn}
    (hv : OpOk s (.save hs ents)) :
    ∃ s1, (applyOp s (.save hs ents)).ents = s1.ents ∧ (applyOp s (.save hs ents)).lastKey = s1.lastKey ∧
      ((ents.isEmpty = true ∧ s1 = s) ∨
       (ents.isEmpty = false ∧ s1 = (writeRaftEntry s (ents.map convertFromRaft)).1 ∧
          ValidBatch (lastIdx s) (ents.map convertFromRaft))) := by
  cases he : ents.isEmpty with
  | true =>
    refine ⟨s, ?_, ?_, Or.inl ⟨rfl, rfl⟩⟩ <;>
    · simp only [applyOp, step, saveEntry, he, if_true]
      by_cases hz : hs = ⟨0, 0, 0⟩ <;> simp [hz]
  | false =>
    have hvb : ValidBatch (lastIdx s) (ents.map convertFromRaft) := by
      simpa [OpOk, Op.items, he] using hv
    obtain ⟨s', f, hw, -⟩ := writeRaftEntry_valid hvb
    refine ⟨s', ?_, ?_, Or.inr ⟨rfl, by rw [hw], hvb⟩⟩ <;>
    · simp only [applyOp, step, saveEntry, he, hw]
      by_cases hz : hs = ⟨0, 0, 0⟩ <;> simp [hz]

/-- One admissible operation preserves the log invariant, with the reference view advanced by `specStep`. -/
theorem logInv_step {s : St} {spec : Nat → Option Item} (op : Op) (hok : OpOk s op) (h : LogInv s spec) :
    LogInv (applyOp s op) (specStep spec op) := by
  cases op with
  | write items =>
    have hv : ValidBatch (lastIdx s) items := by simpa [OpOk, Op.items] using hok
    simpa [applyOp, step, specStep, Op.items] using logInv_write hv h
  | save hs ents =>
    obtain ⟨s1, h1, h2, hcase⟩ := applyOp_save_items hok
    rcases hcase with ⟨he, rfl⟩ | ⟨he, rfl, hvb⟩
    · have : specStep spec (.save hs ents) = spec := by simp [specStep, Op.items, he]
      rw [this]
      exact logInv_same h1 h2 h
    · have : specStep spec (.save hs ents) = (fun j => match written (ents.map convertFromRaft) j with
                                                        | some it => some it
                                                        | none => spec j) := by
        simp [specStep, Op.items, he]
      rw [this]
      exact logInv_same h1 h2 (logInv_write hvb h)
  | hard hs => exact logInv_same (s := s) rfl rfl h
  | snap sn => exact logInv_same (s := s) rfl rfl h
  | ident id => exact logInv_same (s := s) rfl rfl h
  | restart =>
    show LogInv (applyOp s .restart) spec
    simp only [applyOp, step]
    cases hr : restart s with
    | none => exact h
    | some s' =>
      unfold restart at hr
      split at hr
      · cases hr; exact logInv_same (s := s) rfl rfl h
      · cases hr
  | clear => exact logInv_clear h
  | best b => exact logInv_same (s := s) rfl rfl h
  | ccprog id st => exact logInv_same (s := s) rfl rfl h
  | reset hs =>
    cases hs with
    | none => exact h
    | some tc =>
      obtain ⟨t, c⟩ := tc
      have hc := logInv_clear h
      show LogInv (applyOp s (.reset (some (t, c)))) (fun _ => none)
      simp only [applyOp, step, resetWAL]
      cases hb : (clearWAL s).best with
      | none =>
        exact logInv_same (s := clearWAL s) rfl rfl hc
      | some b =>
        obtain ⟨⟨w1, w2⟩, -⟩ := hc
        have he : ∀ j, (clearWAL s).ents j = none := by
          intro j
          by_cases h0 : j = 0
          · subst h0; exact w2
          · exact w1 j (by have : lastIdx (clearWAL s) = 0 := rfl; omega)
        exact ⟨⟨fun j _ => he j, he 0⟩, fun j _ => by simp [he j]⟩

/-- The invariant holds after every admissible history from the fresh store. -/
theorem logInv_run (ops : List Op) : ValidFrom empty ops → LogInv (run empty ops) (mostRecent ops) := by
  induction ops using snoc_induction with
  | nil => intro _; exact ⟨wf_empty, fun j _ => rfl⟩
  | snoc l a ih =>
    intro hv
    obtain ⟨hv1, hv2⟩ := (validFrom_snoc empty l a).mp hv
    rw [run_snoc, mostRecent_snoc]
    exact logInv_step a hv2 (ih hv1)

/-! ## Stored blocks -/

/-- The block an item makes `WriteRaftEntry` store (only block entries store one). -/
def Item.stored (it : Item) : Option Block := if it.e.typ = tBlock then it.blk else none

/-- The blocks an operation puts into the block store. -/
def Op.blocks (op : Op) : List Block :=
  match op with
  | .best b => [b]
  | op =>
    match op.items with
    | some items => items.filterMap Item.stored
    | none => []

/-- Every block the history put into the block store. -/
def blocksOf (ops : List Op) : List Block := ops.flatMap Op.blocks

/-- Every block of `bs` is present under its hash, and whatever is present is a block of `bs`
stored under its own hash. -/
def BlkInv (s : St) (bs : List Block) : Prop :=
  (∀ b ∈ bs, (s.blocks b.hash).isSome = true) ∧ (∀ h b, s.blocks h = some b → b.hash = h ∧ b ∈ bs)

theorem putItem_blocks {s s1 : St} {it : Item} (h : putItem s it = .ok s1) :
    s1.blocks = match it.stored with
                | some b => upd s.blocks b.hash b
                | none => s.blocks := by
  unfold putItem at h
  unfold Item.stored
  split at h
  · next ht =>
    split at h
    · cases h
    · next b hb => cases h; simp [ht, hb]
  · next ht =>
    split at h
    · split at h
      · cases h
      · cases h; simp [ht]
    · cases h; simp [ht]

theorem putItems_blocks {s s' : St} {items : List Item} (h : putItems s items = .ok s') :
    (∀ h0, (s.blocks h0).isSome = true → (s'.blocks h0).isSome = true) ∧
    (∀ b ∈ items.filterMap Item.stored, (s'.blocks b.hash).isSome = true) ∧
    (∀ h0 b, s'.blocks h0 = some b → s.blocks h0 = some b ∨ (b.hash = h0 ∧ b ∈ items.filterMap Item.stored)) := by
  induction items generalizing s with
  | nil => simp [putItems] at h; subst h; simp
  | cons a rest ih =>
    simp only [putItems] at h
    cases h1 : putItem s a with
    | error r => simp [h1] at h
    | ok s1 =>
      rw [h1] at h
      obtain ⟨i1, i2, i3⟩ := ih h
      have hb := putItem_blocks h1
      cases hst : a.stored with
      | none =>
        replace hb : s1.blocks = s.blocks := by simpa [hst] using hb
        simp only [List.filterMap_cons, hst]
        exact ⟨fun h0 hh => i1 h0 (by rw [hb]; exact hh), i2, fun h0 b hh => by
          rcases i3 h0 b hh with h' | h'
          · left; rw [← hb]; exact h'
          · right; exact h'⟩
      | some b0 =>
        replace hb : s1.blocks = upd s.blocks b0.hash b0 := by simpa [hst] using hb
        simp only [List.filterMap_cons, hst]
        refine ⟨fun h0 hh => i1 h0 ?_, fun b hbm => ?_, fun h0 b hh => ?_⟩
        · rw [hb]; unfold upd; split <;> simp [hh]
        · rcases List.mem_cons.mp hbm with rfl | hm
          · exact i1 _ (by rw [hb]; simp [upd])
          · exact i2 b hm
        · rcases i3 h0 b hh with h' | ⟨h', hm⟩
          · rw [hb] at h'
            unfold upd at h'
            split at h'
            · next heq => cases h'; right; exact ⟨heq.symm, List.mem_cons_self⟩
            · left; exact h'
          · right; exact ⟨h', List.mem_cons_of_mem _ hm⟩

theorem putItem_error {s : St} {it : Item} {r : Res} (h : putItem s it = .error r) : r ≠ .ok := by
  unfold putItem at h
  split at h
  · split at h
    · cases h; simp
    · cases h
  · split at h
    · split at h
      · cases h; simp
      · cases h
    · cases h

theorem putItems_error {s : St} {items : List Item} {r : Res} (h : putItems s items = .error r) : r ≠ .ok := by
  induction items generalizing s with
  | nil => simp [putItems] at h
  | cons a rest ih =>
    simp only [putItems] at h
    cases h1 : putItem s a with
    | error r' => rw [h1] at h; cases h; exact putItem_error h1
    | ok s1 => rw [h1] at h; exact ih h

theorem writeRaftEntry_blocks {s s' : St} {items : List Item} (h : writeRaftEntry s items = (s', .ok)) :
    (∀ h0, (s.blocks h0).isSome = true → (s'.blocks h0).isSome = true) ∧
    (∀ b ∈ items.filterMap Item.stored, (s'.blocks b.hash).isSome = true) ∧
    (∀ h0 b, s'.blocks h0 = some b → s.blocks h0 = some b ∨ (b.hash = h0 ∧ b ∈ items.filterMap Item.stored)) := by
  cases items with
  | nil => simp [writeRaftEntry] at h
  | cons it0 rest =>
    simp only [writeRaftEntry] at h
    split at h
    · next r hp =>
      cases h
      exact absurd rfl (putItems_error hp)
    · next s2 hp =>
      cases h
      have := putItems_blocks hp
      have hs1 : (if it0.e.index ≤ lastIdx s then { s with ents := delRange s.ents it0.e.index (lastIdx s) } else s).blocks = s.blocks := by
        split <;> rfl
      rw [hs1] at this
      exact this

theorem blkInv_grow {s s' : St} {bs new : List Block}
    (h1 : ∀ h0, (s.blocks h0).isSome = true → (s'.blocks h0).isSome = true)
    (h2 : ∀ b ∈ new, (s'.blocks b.hash).isSome = true)
    (h3 : ∀ h0 b, s'.blocks h0 = some b → s.blocks h0 = some b ∨ (b.hash = h0 ∧ b ∈ new))
    (h : BlkInv s bs) : BlkInv s' (bs ++ new) := by
  refine ⟨fun b hb => ?_, fun h0 b hb => ?_⟩
  · rcases List.mem_append.mp hb with hb | hb
    · exact h1 _ (h.1 b hb)
    · exact h2 b hb
  · rcases h3 h0 b hb with h' | ⟨h', hm⟩
    · exact ⟨(h.2 h0 b h').1, List.mem_append_left _ (h.2 h0 b h').2⟩
    · exact ⟨h', List.mem_append_right _ hm⟩

theorem blkInv_same {s s' : St} {bs : List Block} (he : s'.blocks = s.blocks) (h : BlkInv s bs) : BlkInv s' (bs ++ []) := by
  simpa [BlkInv, he] using h

theorem blkInv_step {s : St} {bs : List Block} (op : Op) (hok : OpOkG op) (h : BlkInv s bs) :
    BlkInv (applyOp s op) (bs ++ op.blocks) := by
  cases op with
  | write items =>
    have hv : ValidBatchG items := by simpa [OpOkG, Op.items] using hok
    obtain ⟨s', f, hw, -⟩ := writeRaftEntry_validG (s := s) hv
    obtain ⟨i1, i2, i3⟩ := writeRaftEntry_blocks hw
    have : applyOp s (.write items) = s' := by simp [applyOp, step, hw]
    rw [this]
    exact blkInv_grow i1 i2 i3 h
  | save hs ents =>
    cases he : ents.isEmpty with
    | true =>
      have hb : (Op.save hs ents).blocks = [] := by simp [Op.blocks, Op.items, he]
      rw [hb]
      refine blkInv_same ?_ h
      simp only [applyOp, step, saveEntry, he, if_true]
      by_cases hz : hs = ⟨0, 0, 0⟩ <;> simp [hz]
    | false =>
      have hvb : ValidBatchG (ents.map convertFromRaft) := by
        simpa [OpOkG, Op.items, he] using hok
      obtain ⟨s', f, hw, -⟩ := writeRaftEntry_validG (s := s) hvb
      obtain ⟨i1, i2, i3⟩ := writeRaftEntry_blocks hw
      have hb : (Op.save hs ents).blocks = (ents.map convertFromRaft).filterMap Item.stored := by
        simp [Op.blocks, Op.items, he]
      rw [hb]
      have : (applyOp s (.save hs ents)).blocks = s'.blocks := by
        simp only [applyOp, step, saveEntry, he, hw]
        by_cases hz : hs = ⟨0, 0, 0⟩ <;> simp [hz]
      have h' := blkInv_grow i1 i2 i3 h
      simpa [BlkInv, this] using h'
  | hard hs => exact blkInv_same (s := s) rfl h
  | snap sn => exact blkInv_same (s := s) rfl h
  | ident id => exact blkInv_same (s := s) rfl h
  | restart =>
    refine blkInv_same ?_ h
    simp only [applyOp, step]
    cases hr : restart s with
    | none => rfl
    | some s' =>
      unfold restart at hr
      split at hr
      · cases hr; rfl
      · cases hr
  | clear => exact blkInv_same (s := s) rfl h
  | best b =>
    show BlkInv (connectBest s b) (bs ++ [b])
    refine blkInv_grow (s := s) (fun h0 hh => ?_) (fun b' hb' => ?_) (fun h0 b' hh => ?_) h
    · show (upd s.blocks b.hash b h0).isSome = true
      unfold upd; split <;> simp [hh]
    · have : b' = b := by simpa using hb'
      subst this
      show (upd s.blocks b'.hash b' b'.hash).isSome = true
      simp [upd]
    · have hh' : upd s.blocks b.hash b h0 = some b' := hh
      unfold upd at hh'
      split at hh'
      · next heq => cases hh'; right; exact ⟨heq.symm, by simp⟩
      · left; exact hh'
  | ccprog id st => exact blkInv_same (s := s) rfl h
  | reset hs =>
    refine blkInv_same ?_ h
    cases hs with
    | none => rfl
    | some tc =>
      obtain ⟨t, c⟩ := tc
      simp only [applyOp, step, resetWAL]
      cases hb : (clearWAL s).best <;> rfl

theorem blocksOf_snoc (ops : List Op) (op : Op) : blocksOf (ops ++ [op]) = blocksOf ops ++ op.blocks := by
  simp [blocksOf, List.flatMap_append]

theorem blkInv_run (ops : List Op) : ValidFromG ops → BlkInv (run empty ops) (blocksOf ops) := by
  induction ops using snoc_induction with
  | nil => intro _; exact ⟨fun b hb => by simp [blocksOf] at hb, fun h b hb => by simp [run, empty] at hb⟩
  | snoc l a ih =>
    intro hv
    obtain ⟨hv1, hv2⟩ := (validFromG_snoc l a).mp hv
    rw [run_snoc, blocksOf_snoc]
    exact blkInv_step a hv2 (ih hv1)

/-- The most recent item at an index comes from a batch of the history; if it is a block
entry, its block is among the blocks the history stored. -/
theorem mostRecent_stored (ops : List Op) (j : Nat) (it : Item) (b : Block)
    (h : mostRecent ops j = some it) (ht : it.e.typ = tBlock) (hb : it.blk = some b) : b ∈ blocksOf ops := by
  induction ops using snoc_induction generalizing it with
  | nil => simp [mostRecent] at h
  | snoc l a ih =>
    rw [mostRecent_snoc] at h
    rw [blocksOf_snoc]
    have key : ∀ items, a.items = some items → a.blocks = items.filterMap Item.stored := by
      intro items hi
      cases a <;> simp_all [Op.blocks, Op.items]
    cases hai : a.items with
    | none =>
      have : specStep (mostRecent l) a j = mostRecent l j ∨ specStep (mostRecent l) a j = none := by
        cases a with
        | clear => right; rfl
        | reset hs => cases hs with
          | none => left; simp [specStep, Op.items]
          | some _ => right; rfl
        | write items => simp [Op.items] at hai
        | save hs ents => left; simp [specStep, hai]
        | hard _ => left; simp [specStep, Op.items]
        | snap _ => left; simp [specStep, Op.items]
        | ident _ => left; simp [specStep, Op.items]
        | restart => left; simp [specStep, Op.items]
        | best _ => left; simp [specStep, Op.items]
        | ccprog _ _ => left; simp [specStep, Op.items]
      rcases this with h' | h'
      · rw [h'] at h; exact List.mem_append_left _ (ih it h ht hb)
      · rw [h'] at h; cases h
    | some items =>
      have hs : specStep (mostRecent l) a j = match written items j with
                                               | some it => some it
                                               | none => mostRecent l j := by
        cases a <;> simp_all [specStep, Op.items]
      rw [hs] at h
      cases hw : written items j with
      | none => rw [hw] at h; exact List.mem_append_left _ (ih it h ht hb)
      | some x =>
        rw [hw] at h
        cases h
        have hm := (written_index hw).2
        rw [key items hai]
        refine List.mem_append_right _ (List.mem_filterMap.mpr ⟨it, hm, ?_⟩)
        simp [Item.stored, ht, hb]

/-- The most recent item at an index carries that index. -/
theorem mostRecent_index (ops : List Op) (j : Nat) (it : Item) (h : mostRecent ops j = some it) : it.e.index = j := by
  induction ops using snoc_induction generalizing it with
  | nil => simp [mostRecent] at h
  | snoc l a ih =>
    rw [mostRecent_snoc] at h
    cases a with
    | clear => cases h
    | reset hs => cases hs with
      | none => exact ih it (by simpa [specStep, Op.items] using h)
      | some _ => cases h
    | write items =>
      simp only [specStep, Op.items] at h
      cases hw : written items j with
      | none => rw [hw] at h; exact ih it h
      | some x => rw [hw] at h; cases h; exact (written_index hw).1
    | save hs ents =>
      cases he : ents.isEmpty with
      | true => exact ih it (by simpa [specStep, Op.items, he] using h)
      | false =>
        simp only [specStep, Op.items, he] at h
        cases hw : written (ents.map convertFromRaft) j with
        | none => simp [hw] at h; exact ih it h
        | some x => simp [hw] at h; subst h; exact (written_index hw).1
    | hard _ => exact ih it (by simpa [specStep, Op.items] using h)
    | snap _ => exact ih it (by simpa [specStep, Op.items] using h)
    | ident _ => exact ih it (by simpa [specStep, Op.items] using h)
    | restart => exact ih it (by simpa [specStep, Op.items] using h)
    | best _ => exact ih it (by simpa [specStep, Op.items] using h)
    | ccprog _ _ => exact ih it (by simpa [specStep, Op.items] using h)

/-! ## The best block across restart -/

/-- The in-memory best block is the one the durable latest-key / number-index point at. -/
def BestInv (s : St) (bs : List Block) : Prop :=
  match s.latestNo with
  | none => s.best = none
  | some n => ∃ b, s.best = some b ∧ s.hashByNo n = some b.hash ∧ b ∈ bs

/-- No two different blocks share a hash, and no hash is empty. -/
def HashOk (bs : List Block) : Prop :=
  (∀ b ∈ bs, ∀ b' ∈ bs, b.hash = b'.hash → b = b') ∧ (∀ b ∈ bs, b.hash ≠ [])

theorem restart_id {s : St} {bs : List Block} (hb : BlkInv s bs) (hi : BestInv s bs) (hok : HashOk bs) :
    restart s = some s := by
  obtain ⟨ents, lastKey, inv, blocks, hard, snap, ident, ccp, latestNo, hashByNo, best⟩ := s
  unfold BestInv at hi
  unfold restart loadBest
  cases latestNo with
  | none =>
    simp only [] at hi
    subst hi
    rfl
  | some n =>
    simp only [] at hi
    obtain ⟨b, h1, h2, h3⟩ := hi
    have hs := hb.1 b h3
    simp only [] at hs h1 h2
    cases hx : blocks b.hash with
    | none => simp [hx] at hs
    | some b' =>
      obtain ⟨e1, e2⟩ := hb.2 _ _ hx
      have : b' = b := hok.1 b' e2 b h3 e1
      subst this
      subst h1
      simp [h2, getBlock, hok.2 b' h3, hx]

theorem resetWAL_best (s : St) (hs : Option (Nat × Nat)) :
    (resetWAL s hs).1.best = s.best ∧ (resetWAL s hs).1.latestNo = s.latestNo ∧
    (resetWAL s hs).1.hashByNo = s.hashByNo := by
  cases hs with
  | none => exact ⟨rfl, rfl, rfl⟩
  | some tc =>
    obtain ⟨t, c⟩ := tc
    cases hb : s.best with
    | none =>
      have : (clearWAL s).best = none := hb
      simp only [resetWAL, this]
      refine ⟨?_, ?_, ?_⟩ <;> first | trivial | rfl
    | some b =>
      have : (clearWAL s).best = some b := hb
      simp only [resetWAL, this]
      refine ⟨?_, ?_, ?_⟩ <;> first | trivial | rfl

theorem bestInv_mono {s : St} {bs new : List Block} (h : BestInv s bs) : BestInv s (bs ++ new) := by
  unfold BestInv at *
  split
  · next hl => simpa [hl] using h
  · next n hl =>
    rw [hl] at h
    obtain ⟨b, h1, h2, h3⟩ := h
    exact ⟨b, h1, h2, List.mem_append_left _ h3⟩

theorem bestInv_same {s s' : St} {bs : List Block} (h1 : s'.best = s.best) (h2 : s'.latestNo = s.latestNo)
    (h3 : s'.hashByNo = s.hashByNo) (h : BestInv s bs) : BestInv s' bs := by
  unfold BestInv at *
  rw [h1, h2, h3]; exact h

theorem bestInv_step {s : St} {bs : List Block} (op : Op) (hok : OpOkG op) (hb : BlkInv s bs)
    (hh : HashOk bs) (h : BestInv s bs) : BestInv (applyOp s op) (bs ++ op.blocks) := by
  cases op with
  | write items =>
    apply bestInv_mono
    have hv : ValidBatchG items := by simpa [OpOkG, Op.items] using hok
    obtain ⟨s', f, hw, -, -, -, -, -, -, -, r1, r2, r3⟩ := writeRaftEntry_validG (s := s) hv
    have : applyOp s (.write items) = s' := by simp [applyOp, step, hw]
    rw [this]
    exact bestInv_same r1 r2 r3 h
  | save hs ents =>
    apply bestInv_mono
    cases he : ents.isEmpty with
    | true =>
      refine bestInv_same ?_ ?_ ?_ h <;>
      · simp only [applyOp, step, saveEntry, he, if_true]
        by_cases hz : hs = ⟨0, 0, 0⟩ <;> simp [hz]
    | false =>
      have hvb : ValidBatchG (ents.map convertFromRaft) := by
        simpa [OpOkG, Op.items, he] using hok
      obtain ⟨s', f, hw, -, -, -, -, -, -, -, r1, r2, r3⟩ := writeRaftEntry_validG (s := s) hvb
      refine bestInv_same ?_ ?_ ?_ (bestInv_same r1 r2 r3 h) <;>
      · simp only [applyOp, step, saveEntry, he, hw]
        by_cases hz : hs = ⟨0, 0, 0⟩ <;> simp [hz]
  | hard hs => exact bestInv_mono <| bestInv_same (s := s) rfl rfl rfl h
  | snap sn => exact bestInv_mono <| bestInv_same (s := s) rfl rfl rfl h
  | ident id => exact bestInv_mono <| bestInv_same (s := s) rfl rfl rfl h
  | restart =>
    apply bestInv_mono
    simp only [applyOp, step, restart_id hb h hh]
    exact h
  | clear => exact bestInv_mono <| bestInv_same (s := s) rfl rfl rfl h
  | best b =>
    show BestInv (connectBest s b) _
    unfold BestInv connectBest
    exact ⟨b, rfl, by simp [upd], List.mem_append_right _ (by simp [Op.blocks])⟩
  | ccprog id st => exact bestInv_mono <| bestInv_same (s := s) rfl rfl rfl h
  | reset hs =>
    apply bestInv_mono
    cases hs with
    | none => exact h
    | some tc =>
      obtain ⟨r1, r2, r3⟩ := resetWAL_best s (some tc)
      exact bestInv_same (s := s) r1 r2 r3 h

theorem hashOk_prefix {bs new : List Block} (h : HashOk (bs ++ new)) : HashOk bs :=
  ⟨fun b hb b' hb' => h.1 b (List.mem_append_left _ hb) b' (List.mem_append_left _ hb'),
   fun b hb => h.2 b (List.mem_append_left _ hb)⟩

theorem bestInv_run (ops : List Op) : ValidFromG ops → HashOk (blocksOf ops) →
    BestInv (run empty ops) (blocksOf ops) := by
  induction ops using snoc_induction with
  | nil => intro _ _; rfl
  | snoc l a ih =>
    intro hv hh
    obtain ⟨hv1, hv2⟩ := (validFromG_snoc l a).mp hv
    rw [blocksOf_snoc] at hh
    rw [run_snoc, blocksOf_snoc]
    exact bestInv_step a hv2 (blkInv_run l hv1) (hashOk_prefix hh) (ih hv1 (hashOk_prefix hh))

/-! ## The hard state -/

/-- Reference view of the hard state: the last non-empty one handed to `SaveEntry` /
`WriteHardState`; `ClearWAL` forgets it, `ResetWAL(term, commit)` sets `(term, 0, commit)`. -/
def hardStep (acc : Option HardState) : Op → Option HardState
  | .save hs _ => if hs = ⟨0, 0, 0⟩ then acc else some hs
  | .hard hs => some hs
  | .clear => none
  | .reset (some (t, c)) => some ⟨t, 0, c⟩
  | _ => acc

def lastHard (ops : List Op) : Option HardState := ops.foldl hardStep none

theorem hard_step {s : St} (op : Op) (hok : OpOkG op) : (applyOp s op).hard = hardStep s.hard op := by
  cases op with
  | write items =>
    have hv : ValidBatchG items := by simpa [OpOkG, Op.items] using hok
    obtain ⟨s', f, hw, -, -, -, -, r, -⟩ := writeRaftEntry_validG (s := s) hv
    simp [applyOp, step, hw, hardStep, r]
  | save hs ents =>
    cases he : ents.isEmpty with
    | true =>
      simp only [applyOp, step, saveEntry, he, if_true, hardStep]
      by_cases hz : hs = ⟨0, 0, 0⟩ <;> simp [hz]
    | false =>
      have hvb : ValidBatchG (ents.map convertFromRaft) := by
        simpa [OpOkG, Op.items, he] using hok
      obtain ⟨s', f, hw, -, -, -, -, r, -⟩ := writeRaftEntry_validG (s := s) hvb
      simp only [applyOp, step, saveEntry, he, hw, hardStep]
      by_cases hz : hs = ⟨0, 0, 0⟩ <;> simp [hz, r]
  | hard hs => rfl
  | snap sn => rfl
  | ident id => rfl
  | restart =>
    simp only [applyOp, step, hardStep]
    cases hr : restart s with
    | none => rfl
    | some s' =>
      unfold restart at hr
      split at hr
      · cases hr; rfl
      · cases hr
  | clear => rfl
  | best b => rfl
  | ccprog id st => rfl
  | reset hs =>
    cases hs with
    | none => rfl
    | some tc =>
      obtain ⟨t, c⟩ := tc
      simp only [applyOp, step, resetWAL, hardStep]
      cases hb : (clearWAL s).best <;> rfl

theorem hard_run (ops : List Op) : ValidFromG ops → (run empty ops).hard = lastHard ops := by
  induction ops using snoc_induction with
  | nil => intro _; rfl
  | snoc l a ih =>
    intro hv
    obtain ⟨hv1, hv2⟩ := (validFromG_snoc l a).mp hv
    rw [run_snoc, hard_step a hv2, ih hv1]
    simp [lastHard, List.foldl_append]

/-! ## ReadAll -/

theorem readFrom_sound (s : St) (snapTerm : Nat) : ∀ (n i : Nat) (es : List RaftOut),
    readFrom s snapTerm i n = .ok es →
    es.length = n ∧ ∀ k, k < n → ∃ e re, getRaftEntry s (i + k) = .ok e ∧ snapTerm ≤ e.term ∧
      convertWalToRaft s e = .ok re ∧ es[k]? = some re := by
  intro n
  induction n with
  | zero => intro i es h; simp [readFrom] at h; subst h; simp
  | succ n ih =>
    intro i es h
    simp only [readFrom] at h
    cases hg : getRaftEntry s i with
    | noEntry => simp [hg] at h
    | mismatch => simp [hg] at h
    | ok e =>
      simp only [hg] at h
      by_cases ht : e.term < snapTerm
      · simp [ht] at h
      · simp only [ht, if_false] at h
        cases hc : convertWalToRaft s e with
        | error r => simp [hc] at h
        | ok re =>
          simp only [hc] at h
          cases hr : readFrom s snapTerm (i + 1) n with
          | error r => simp [hr] at h
          | ok rest =>
            simp only [hr] at h
            cases h
            obtain ⟨hl, hk⟩ := ih (i + 1) rest hr
            refine ⟨by simp [hl], fun k hk' => ?_⟩
            cases k with
            | zero => exact ⟨e, re, by simpa using hg, by omega, hc, by simp⟩
            | succ k =>
              obtain ⟨e', re', g1, g2, g3, g4⟩ := hk k (by omega)
              exact ⟨e', re', by rw [← g1]; congr 1; omega, g2, g3, by simpa using g4⟩

end Aergo.RaftLog
