/-
Helper definitions and lemmas for C16, second part: the *truncating* reference view of the log
(valid for every contiguous batch, also one that starts right after an installed snapshot), the
durable states inside one operation (crash points), the restart hand-over
(HasWal → loadSnapshot → replayWAL → raft restart) and the round trip ReadAll ∘ SaveEntry.
Core Lean only.
-/
import Aergo.Lemmas.RaftLog

namespace Aergo.RaftLog

/-! ## The truncating reference view -/

/-- First index of a batch. -/
def firstIdx : List Item → Nat
  | [] => 0
  | it :: _ => it.e.index

/-- One step of the reference view "what the log holds at index j": a batch overrides the indices
it contains and *removes everything from its first index on* (conflict truncation); `ClearWAL` /
`ResetWAL` forget everything; other operations change nothing. -/
def storeStep (acc : Nat → Option Item) (op : Op) : Nat → Option Item :=
  match op with
  | .clear => fun _ => none
  | .reset (some _) => fun _ => none
  | op =>
    match op.items with
    | some items => fun j =>
      match written items j with
      | some it => some it
      | none => if firstIdx items ≤ j then none else acc j
    | none => acc

/-- The item the log holds at index `j` after the history `ops`: the one most recently stored
there, unless a later conflicting overwrite (or clear/reset) removed it. -/
def stored (ops : List Op) : Nat → Option Item := ops.foldl storeStep (fun _ => none)

theorem stored_snoc (ops : List Op) (op : Op) : stored (ops ++ [op]) = storeStep (stored ops) op := by
  simp [stored, List.foldl_append]

/-- The store agrees with the reference view at *every* index, and holds nothing above the last index nor at 0. -/
def LogEq (s : St) (spec : Nat → Option Item) : Prop :=
  WF s ∧ ∀ j, s.ents j = (spec j).map (·.e)

theorem logEq_same {s s' : St} {spec : Nat → Option Item} (h1 : s'.ents = s.ents) (h2 : s'.lastKey = s.lastKey)
    (h : LogEq s spec) : LogEq s' spec := by
  have hl : lastIdx s' = lastIdx s := by simp [lastIdx, h2]
  obtain ⟨⟨w1, w2⟩, h3⟩ := h
  refine ⟨⟨fun j hj => ?_, by rw [h1]; exact w2⟩, fun j => by rw [h1]; exact h3 j⟩
  rw [h1]; exact w1 j (by omega)

theorem firstIdx_contig {f : Nat} {items : List Item} (hc : Contig f items) (hne : items ≠ []) : firstIdx items = f := by
  cases items with
  | nil => exact absurd rfl hne
  | cons a t => exact hc.1

theorem logEq_write {s : St} {spec : Nat → Option Item} {items : List Item}
    (hv : ValidBatchG items) (h : LogEq s spec) :
    LogEq (writeRaftEntry s items).1 (fun j => match written items j with
                                                | some it => some it
                                                | none => if firstIdx items ≤ j then none else spec j) := by
  obtain ⟨s', f, hw, hf1, hc, hlast, hents, -⟩ := writeRaftEntry_validG (s := s) hv
  obtain ⟨⟨w1, w2⟩, h3⟩ := h
  have hfi : firstIdx items = f := firstIdx_contig hc hv.1
  have hne : items.length ≥ 1 := by
    cases items with
    | nil => exact absurd rfl hv.1
    | cons a r => simp
  rw [hw, hfi]
  refine ⟨⟨fun j hj => ?_, ?_⟩, fun j => ?_⟩
  · show s'.ents j = none
    have hnone : written items j = none := by
      cases hx : written items j with
      | none => rfl
      | some x =>
        have := (written_contig hc j).mp (by simp [hx])
        simp only [] at hj
        omega
    rw [hents j, hnone]
    by_cases hr : f ≤ j ∧ j ≤ lastIdx s
    · simp [hr]
    · simp only [hr, if_false]
      exact w1 j (by simp only [] at hj; omega)
  · show s'.ents 0 = none
    have hnone : written items 0 = none := by
      cases hx : written items 0 with
      | none => rfl
      | some x =>
        have := (written_contig hc 0).mp (by simp [hx])
        omega
    rw [hents 0, hnone]
    have : ¬ (f ≤ 0 ∧ 0 ≤ lastIdx s) := by omega
    simp only [this, if_false]
    exact w2
  · show s'.ents j = Option.map (·.e) (match written items j with
                                          | some it => some it
                                          | none => if f ≤ j then none else spec j)
    rw [hents j]
    cases hx : written items j with
    | some x => rfl
    | none =>
      simp only []
      by_cases hfj : f ≤ j
      · simp only [hfj, if_true, true_and, Option.map_none]
        by_cases hjl : j ≤ lastIdx s
        · simp [hjl]
        · simp only [hjl, if_false]
          exact w1 j (by omega)
      · have : ¬ (f ≤ j ∧ j ≤ lastIdx s) := fun hh => hfj hh.1
        simp only [hfj, if_false]
        exact h3 j

theorem logEq_clear {s : St} {spec : Nat → Option Item} (h : LogEq s spec) : LogEq (clearWAL s) (fun _ => none) := by
  obtain ⟨⟨w1, w2⟩, -⟩ := h
  have he : ∀ j, (clearWAL s).ents j = none := by
    intro j
    show delRange s.ents 1 (lastIdx s) j = none
    unfold delRange
    by_cases hr : 1 ≤ j ∧ j ≤ lastIdx s
    · simp [hr]
    · simp only [hr, if_false]
      by_cases h0 : j = 0
      · subst h0; exact w2
      · exact w1 j (by omega)
  exact ⟨⟨fun j _ => he j, he 0⟩, fun j => by simp [he j]⟩

/-- What a `SaveEntry` does to the entry map and the last index, for a general valid batch. -/
theorem applyOp_save_itemsG {s : St} {hs : HardState} {ents : List RaftIn}
    (hv : OpOkG (.save hs ents)) :
    ∃ s1, (applyOp s (.save hs ents)).ents = s1.ents ∧ (applyOp s (.save hs ents)).lastKey = s1.lastKey ∧
      ((ents.isEmpty = true ∧ s1 = s) ∨
       (ents.isEmpty = false ∧ s1 = (writeRaftEntry s (ents.map convertFromRaft)).1 ∧
          ValidBatchG (ents.map convertFromRaft))) := by
  cases he : ents.isEmpty with
  | true =>
    refine ⟨s, ?_, ?_, Or.inl ⟨rfl, rfl⟩⟩ <;>
    · simp only [applyOp, step, saveEntry, he, if_true]
      by_cases hz : hs = ⟨0, 0, 0⟩ <;> simp [hz]
  | false =>
    have hvb : ValidBatchG (ents.map convertFromRaft) := by
      simpa [OpOkG, Op.items, he] using hv
    obtain ⟨s', f, hw, -⟩ := writeRaftEntry_validG (s := s) hvb
    refine ⟨s', ?_, ?_, Or.inr ⟨rfl, by rw [hw], hvb⟩⟩ <;>
    · simp only [applyOp, step, saveEntry, he, hw]
      by_cases hz : hs = ⟨0, 0, 0⟩ <;> simp [hz]

theorem logEq_step {s : St} {spec : Nat → Option Item} (op : Op) (hok : OpOkG op) (h : LogEq s spec) :
    LogEq (applyOp s op) (storeStep spec op) := by
  cases op with
  | write items =>
    have hv : ValidBatchG items := by simpa [OpOkG, Op.items] using hok
    simpa [applyOp, step, storeStep, Op.items] using logEq_write hv h
  | save hs ents =>
    obtain ⟨s1, h1, h2, hcase⟩ := applyOp_save_itemsG (s := s) hok
    rcases hcase with ⟨he, rfl⟩ | ⟨he, rfl, hvb⟩
    · have : storeStep spec (.save hs ents) = spec := by simp [storeStep, Op.items, he]
      rw [this]
      exact logEq_same h1 h2 h
    · have : storeStep spec (.save hs ents) = (fun j => match written (ents.map convertFromRaft) j with
                                                        | some it => some it
                                                        | none => if firstIdx (ents.map convertFromRaft) ≤ j then none else spec j) := by
        simp [storeStep, Op.items, he]
      rw [this]
      exact logEq_same h1 h2 (logEq_write hvb h)
  | hard hs => exact logEq_same (s := s) rfl rfl h
  | snap sn => exact logEq_same (s := s) rfl rfl h
  | ident id => exact logEq_same (s := s) rfl rfl h
  | restart =>
    show LogEq (applyOp s .restart) spec
    simp only [applyOp, step]
    cases hr : restart s with
    | none => exact h
    | some s' =>
      unfold restart at hr
      split at hr
      · cases hr; exact logEq_same (s := s) rfl rfl h
      · cases hr
  | clear => exact logEq_clear h
  | best b => exact logEq_same (s := s) rfl rfl h
  | ccprog id st => exact logEq_same (s := s) rfl rfl h
  | reset hs =>
    cases hs with
    | none => exact h
    | some tc =>
      obtain ⟨t, c⟩ := tc
      have hc := logEq_clear h
      show LogEq (applyOp s (.reset (some (t, c)))) (fun _ => none)
      simp only [applyOp, step, resetWAL]
      cases hb : (clearWAL s).best with
      | none =>
        exact logEq_same (s := clearWAL s) rfl rfl hc
      | some b =>
        obtain ⟨⟨w1, w2⟩, h3⟩ := hc
        exact ⟨⟨fun j _ => by simpa using h3 j, w2⟩, fun j => h3 j⟩

theorem logEq_empty : LogEq empty (fun _ => none) := ⟨wf_empty, fun _ => rfl⟩

theorem logEq_run (ops : List Op) : ValidFromG ops → LogEq (run empty ops) (stored ops) := by
  induction ops using snoc_induction with
  | nil => intro _; exact logEq_empty
  | snoc l a ih =>
    intro hv
    obtain ⟨hv1, hv2⟩ := (validFromG_snoc l a).mp hv
    rw [run_snoc, stored_snoc]
    exact logEq_step a hv2 (ih hv1)

/-- `GetRaftEntry` in a state that agrees with a reference view. -/
theorem getRaftEntry_of_logEq {s : St} {spec : Nat → Option Item} (h : LogEq s spec)
    (hidx : ∀ j it, spec j = some it → it.e.index = j) (j : Nat) :
    getRaftEntry s j = match spec j with
                       | some it => .ok it.e
                       | none => .noEntry := by
  unfold getRaftEntry
  rw [h.2 j]
  cases hm : spec j with
  | none => rfl
  | some it => simp [hidx j it hm]

theorem storeStep_index {acc : Nat → Option Item} (hacc : ∀ j it, acc j = some it → it.e.index = j) (op : Op) :
    ∀ j it, storeStep acc op j = some it → it.e.index = j := by
  intro j it h
  cases op with
  | clear => cases h
  | reset hs => cases hs with
    | none => exact hacc j it (by simpa [storeStep, Op.items] using h)
    | some _ => cases h
  | write items =>
    simp only [storeStep, Op.items] at h
    cases hw : written items j with
    | none =>
      rw [hw] at h
      by_cases hf : firstIdx items ≤ j
      · simp [hf] at h
      · simp only [hf, if_false] at h; exact hacc j it h
    | some x => rw [hw] at h; cases h; exact (written_index hw).1
  | save hs ents =>
    cases he : ents.isEmpty with
    | true => exact hacc j it (by simpa [storeStep, Op.items, he] using h)
    | false =>
      have hst : storeStep acc (.save hs ents) j =
          (match written (ents.map convertFromRaft) j with
           | some it => some it
           | none => if firstIdx (ents.map convertFromRaft) ≤ j then none else acc j) := by
        simp [storeStep, Op.items, he]
      rw [hst] at h
      cases hw : written (ents.map convertFromRaft) j with
      | none =>
        rw [hw] at h
        by_cases hf : firstIdx (ents.map convertFromRaft) ≤ j
        · simp [hf] at h
        · simp only [hf, if_false] at h; exact hacc j it h
      | some x => rw [hw] at h; cases h; exact (written_index hw).1
  | hard _ => exact hacc j it (by simpa [storeStep, Op.items] using h)
  | snap _ => exact hacc j it (by simpa [storeStep, Op.items] using h)
  | ident _ => exact hacc j it (by simpa [storeStep, Op.items] using h)
  | restart => exact hacc j it (by simpa [storeStep, Op.items] using h)
  | best _ => exact hacc j it (by simpa [storeStep, Op.items] using h)
  | ccprog _ _ => exact hacc j it (by simpa [storeStep, Op.items] using h)

theorem stored_index (ops : List Op) : ∀ j it, stored ops j = some it → it.e.index = j := by
  induction ops using snoc_induction with
  | nil => intro j it h; cases h
  | snoc l a ih => rw [stored_snoc]; exact storeStep_index ih a

/-! ## Crash points: the durable states inside one operation -/

theorem writeRaftEntry_fail {s : St} {items : List Item} (h : (writeRaftEntry s items).2 ≠ .ok) :
    (writeRaftEntry s items).1 = s := by
  unfold writeRaftEntry at h ⊢
  cases items with
  | nil => rfl
  | cons it0 rest =>
    simp only [] at h ⊢
    split
    · rfl
    · next s2 hp => simp [hp] at h

theorem writeStates_cases (s : St) (items : List Item) :
    (writeStates s items = [(writeRaftEntry s items).1] ∧ (writeRaftEntry s items).2 = .ok) ∨
    (writeStates s items = [] ∧ (writeRaftEntry s items).2 ≠ .ok) := by
  unfold writeStates
  cases hw : writeRaftEntry s items with
  | mk s' r => cases r <;> simp

/-- The last durable state of an operation is the state the operation leaves (`restart` writes nothing). -/
theorem prefixStates_last (s : St) (op : Op) (h : op ≠ .restart) :
    (prefixStates s op).getLast? = some (applyOp s op) := by
  cases op with
  | restart => exact absurd rfl h
  | write items =>
    rcases writeStates_cases s items with ⟨h1, _⟩ | ⟨h1, h2⟩
    · simp [prefixStates, unitStates, h1, applyOp, step]
    · simp [prefixStates, unitStates, h1, applyOp, step, writeRaftEntry_fail h2]
  | save hs ents =>
    cases he : ents.isEmpty with
    | true =>
      by_cases hz : hs = ⟨0, 0, 0⟩ <;> simp [prefixStates, unitStates, he, hz, applyOp, step, saveEntry]
    | false =>
      cases hw : writeRaftEntry s (ents.map convertFromRaft) with
      | mk s1 r =>
        have hfail : r ≠ .ok → s1 = s := by
          intro hr
          have := writeRaftEntry_fail (s := s) (items := ents.map convertFromRaft) (by rw [hw]; exact hr)
          rw [hw] at this
          exact this
        cases r <;> by_cases hz : hs = ⟨0, 0, 0⟩ <;>
          simp [prefixStates, unitStates, he, hz, hw, applyOp, step, saveEntry] <;>
          exact (hfail (by simp)).symm
  | hard hs => rfl
  | snap sn => rfl
  | ident id => rfl
  | clear => rfl
  | best b => rfl
  | ccprog id st => by_cases h0 : id = 0 <;> simp [prefixStates, unitStates, h0, applyOp, step]
  | reset hs =>
    cases hs with
    | none => rfl
    | some tc =>
      obtain ⟨t, c⟩ := tc
      cases hb : (clearWAL s).best with
      | none =>
        simp [prefixStates, unitStates, applyOp, step, resetWAL, hb]
      | some b =>
        simp [prefixStates, unitStates, applyOp, step, resetWAL, hb]

/-- `WriteRaftEntry` is atomic: a crash leaves the store before the call or the store after it. -/
theorem mem_prefixStates_write {s c : St} {items : List Item} (hc : c ∈ prefixStates s (.write items)) :
    c = s ∨ c = applyOp s (.write items) := by
  rcases writeStates_cases s items with ⟨h1, _⟩ | ⟨h1, _⟩
  · simp [prefixStates, unitStates, h1, applyOp, step] at hc ⊢
    exact hc
  · simp [prefixStates, unitStates, h1, applyOp, step] at hc ⊢
    exact Or.inl hc

/-- `SaveEntry`: a crash leaves the store before the call, or with the entries of the call and the old
hard state (what `SaveEntry` of the same entries with an empty hard state leaves), or after the call. -/
theorem mem_prefixStates_save {s c : St} {hs : HardState} {ents : List RaftIn}
    (hc : c ∈ prefixStates s (.save hs ents)) :
    c = s ∨ c = applyOp s (.save ⟨0, 0, 0⟩ ents) ∨ c = applyOp s (.save hs ents) := by
  cases he : ents.isEmpty with
  | true =>
    by_cases hz : hs = ⟨0, 0, 0⟩
    · simp [prefixStates, unitStates, he, hz] at hc
      exact Or.inl hc
    · simp [prefixStates, unitStates, he, hz] at hc
      rcases hc with h | h
      · exact Or.inl h
      · refine Or.inr (Or.inr ?_)
        simp [applyOp, step, saveEntry, he, hz, h]
  | false =>
    cases hw : writeRaftEntry s (ents.map convertFromRaft) with
    | mk s1 r =>
      by_cases hr : r = .ok
      · subst hr
        by_cases hz : hs = ⟨0, 0, 0⟩
        · simp [prefixStates, unitStates, he, hz, hw] at hc
          rcases hc with h | h
          · exact Or.inl h
          · refine Or.inr (Or.inl ?_)
            simp [applyOp, step, saveEntry, he, hw, h]
        · simp [prefixStates, unitStates, he, hz, hw] at hc
          rcases hc with h | h | h
          · exact Or.inl h
          · refine Or.inr (Or.inl ?_)
            simp [applyOp, step, saveEntry, he, hw, h]
          · refine Or.inr (Or.inr ?_)
            simp [applyOp, step, saveEntry, he, hw, hz, h]
      · have : unitStates s (.save hs ents) = [] := by
          cases r <;> simp_all [unitStates]
        simp [prefixStates, this] at hc
        exact Or.inl hc

/-- After the first write unit of `ClearWAL` / `ResetWAL` there is no identity any more. -/
theorem unitStates_clear_ident {s c : St} (hc : c ∈ unitStates s .clear) : c.ident = none := by
  simp [unitStates] at hc
  rcases hc with rfl | rfl <;> rfl

theorem unitStates_reset_ident {s c : St} {x : Option (Nat × Nat)} (hc : c ∈ unitStates s (.reset x)) : c.ident = none := by
  cases x with
  | none => simp [unitStates] at hc
  | some tc =>
    obtain ⟨t, cm⟩ := tc
    cases hb : (clearWAL s).best with
    | none =>
      simp [unitStates, hb] at hc
      rcases hc with rfl | rfl | rfl <;> rfl
    | some b =>
      simp [unitStates, hb] at hc
      rcases hc with rfl | rfl | rfl | rfl | rfl <;> rfl

/-! ## Identity, snapshot, best block: reference views -/

/-- Reference view of the identity: the last one written; `ClearWAL`/`ResetWAL` forget it. -/
def identStep (acc : Option Identity) : Op → Option Identity
  | .ident id => some id
  | .clear => none
  | .reset (some _) => none
  | _ => acc

def lastIdent (ops : List Op) : Option Identity := ops.foldl identStep none

/-- Reference view of the best block in memory: the last one connected. -/
def bestStep (acc : Option Block) : Op → Option Block
  | .best b => some b
  | _ => acc

/-- Reference view of the snapshot: the last one written; `ClearWAL` forgets it; `ResetWAL(term, commit)`
stores a snapshot of the best block at `(commit, term)` (none if there is no best block). -/
def snapStep (acc : Option Snapshot) (best : Option Block) : Op → Option Snapshot
  | .snap sn => some sn
  | .clear => none
  | .reset (some (t, c)) => best.map (fun b => ⟨c, t, b⟩)
  | _ => acc

def sbStep (p : Option Snapshot × Option Block) (op : Op) : Option Snapshot × Option Block :=
  (snapStep p.1 p.2 op, bestStep p.2 op)

def lastSB (ops : List Op) : Option Snapshot × Option Block := ops.foldl sbStep (none, none)

def lastSnap (ops : List Op) : Option Snapshot := (lastSB ops).1
def lastBest (ops : List Op) : Option Block := (lastSB ops).2

/-- What one admissible operation does to identity and snapshot, and that the in-memory best block only
changes by `.best` (a restart may reload it: see `sb_run`). -/
theorem frame_step {s : St} (op : Op) (hok : OpOkG op) :
    (applyOp s op).ident = identStep s.ident op ∧ (applyOp s op).snap = snapStep s.snap s.best op ∧
    (op ≠ .restart → (applyOp s op).best = bestStep s.best op) := by
  cases op with
  | write items =>
    have hv : ValidBatchG items := by simpa [OpOkG, Op.items] using hok
    obtain ⟨s', f, hw, -, -, -, -, -, r1, r2, r3, -⟩ := writeRaftEntry_validG (s := s) hv
    simp [applyOp, step, hw, identStep, snapStep, bestStep, r1, r2, r3]
  | save hs ents =>
    cases he : ents.isEmpty with
    | true =>
      simp only [applyOp, step, saveEntry, he, if_true, identStep, snapStep, bestStep]
      by_cases hz : hs = ⟨0, 0, 0⟩ <;> simp [hz]
    | false =>
      have hvb : ValidBatchG (ents.map convertFromRaft) := by
        simpa [OpOkG, Op.items, he] using hok
      obtain ⟨s', f, hw, -, -, -, -, -, r1, r2, r3, -⟩ := writeRaftEntry_validG (s := s) hvb
      simp only [applyOp, step, saveEntry, he, hw, identStep, snapStep, bestStep]
      by_cases hz : hs = ⟨0, 0, 0⟩ <;> simp [hz, r1, r2, r3]
  | hard hs => exact ⟨rfl, rfl, fun _ => rfl⟩
  | snap sn => exact ⟨rfl, rfl, fun _ => rfl⟩
  | ident id => exact ⟨rfl, rfl, fun _ => rfl⟩
  | restart =>
    refine ⟨?_, ?_, fun h => absurd rfl h⟩ <;>
    · simp only [applyOp, step, identStep, snapStep]
      cases hr : restart s with
      | none => rfl
      | some s' =>
        unfold restart at hr
        split at hr
        · cases hr; rfl
        · cases hr
  | clear => exact ⟨rfl, rfl, fun _ => rfl⟩
  | best b => exact ⟨rfl, rfl, fun _ => rfl⟩
  | ccprog id st => exact ⟨rfl, rfl, fun _ => rfl⟩
  | reset hs =>
    cases hs with
    | none => exact ⟨rfl, rfl, fun _ => rfl⟩
    | some tc =>
      obtain ⟨t, c⟩ := tc
      cases hb : s.best with
      | none =>
        simp [applyOp, step, resetWAL, identStep, snapStep, bestStep, clearWAL, hb]
      | some b =>
        simp [applyOp, step, resetWAL, identStep, snapStep, bestStep, clearWAL, hb]

theorem ident_run (ops : List Op) : ValidFromG ops → (run empty ops).ident = lastIdent ops := by
  induction ops using snoc_induction with
  | nil => intro _; rfl
  | snoc l a ih =>
    intro hv
    obtain ⟨hv1, hv2⟩ := (validFromG_snoc l a).mp hv
    rw [run_snoc, (frame_step a hv2).1, ih hv1]
    simp [lastIdent, List.foldl_append]

/-- Snapshot and in-memory best block after any admissible history, under pairwise different non-empty
block hashes (needed only for: a restart reloads the best block that was in memory). -/
theorem sb_run (ops : List Op) : ValidFromG ops → HashOk (blocksOf ops) →
    (run empty ops).snap = lastSnap ops ∧ (run empty ops).best = lastBest ops := by
  induction ops using snoc_induction with
  | nil => intro _ _; exact ⟨rfl, rfl⟩
  | snoc l a ih =>
    intro hv hh
    obtain ⟨hv1, hv2⟩ := (validFromG_snoc l a).mp hv
    rw [blocksOf_snoc] at hh
    obtain ⟨i1, i2⟩ := ih hv1 (hashOk_prefix hh)
    have hsb : lastSB (l ++ [a]) = sbStep (lastSB l) a := by simp [lastSB, List.foldl_append]
    obtain ⟨-, f2, f3⟩ := frame_step (s := run empty l) a hv2
    rw [run_snoc]
    refine ⟨?_, ?_⟩
    · rw [f2, i1, i2]; simp [lastSnap, lastBest, hsb, sbStep]
    · by_cases hr : a = .restart
      · subst hr
        have hid := restart_id (blkInv_run l hv1) (bestInv_run l hv1 (hashOk_prefix hh)) (hashOk_prefix hh)
        simp only [applyOp, step, hid, i2]
        simp [lastBest, hsb, sbStep, bestStep]
      · rw [f3 hr, i2]; simp [lastBest, hsb, sbStep]

/-! ## HasWal -/

theorem hasWal_ok_iff (s : St) (cfg : Config) :
    hasWal s cfg = .ok ↔ ∃ id, s.ident = some id ∧ id.name = cfg.name ∧ id.peer = cfg.peer ∧ s.hard.isSome = true := by
  unfold hasWal
  cases hi : s.ident with
  | none => simp
  | some id =>
    by_cases hn : id.name = cfg.name
    · by_cases hp : id.peer = cfg.peer
      · cases hh : s.hard <;> simp [hn, hp]
      · simp [hn, hp]
    · simp [hn]

theorem hasWal_no_identity {s : St} (h : s.ident = none) (cfg : Config) : hasWal s cfg = .noIdentity := by
  simp [hasWal, h]

/-! ## No holes above the snapshot, and ReadAll succeeds -/

def snapIdxOf (s : St) : Nat := (s.snap.map (·.index)).getD 0
def snapTermOf (s : St) : Nat := (s.snap.map (·.term)).getD 0

/-- An item as `convertFromRaft` builds it (and as `ReadAll` can convert back): a known type code,
a block entry with its block and the block's hash as data. -/
def Item.coherent (it : Item) : Prop :=
  (it.e.typ = tBlock ∨ it.e.typ = tEmpty ∨ it.e.typ = tConf) ∧
  (it.e.typ = tBlock → ∃ b, it.blk = some b ∧ it.e.data = b.hash)

/-- Admissibility in the flows of a running node: batches are contiguous and either continue /
overwrite the log (`first ≤ last + 1`) or start right after a snapshot that lies at or beyond the end of
the log (follower catch-up); snapshots move forward. -/
def OpOkS (s : St) (op : Op) : Prop :=
  match op with
  | .snap sn => snapIdxOf s ≤ sn.index
  | op =>
    match op.items with
    | some items => ValidBatchG items ∧ (∀ it ∈ items, it.coherent) ∧
        (firstIdx items ≤ lastIdx s + 1 ∨ (lastIdx s ≤ snapIdxOf s ∧ firstIdx items = snapIdxOf s + 1))
    | none => True

def ValidFromS : St → List Op → Prop
  | _, [] => True
  | s, op :: rest => OpOkS s op ∧ ValidFromS (applyOp s op) rest

theorem OpOkS.toG {s : St} {op : Op} (h : OpOkS s op) : OpOkG op := by
  unfold OpOkG
  cases op <;> simp_all [OpOkS, Op.items]
  all_goals (split <;> simp_all)

theorem ValidFromS.toG : ∀ {s : St} {ops : List Op}, ValidFromS s ops → ValidFromG ops
  | _, [], _ => trivial
  | _, _ :: _, h => ⟨OpOkS.toG h.1, ValidFromS.toG h.2⟩

theorem validFromS_snoc (s : St) (ops : List Op) (op : Op) :
    ValidFromS s (ops ++ [op]) ↔ ValidFromS s ops ∧ OpOkS (run s ops) op := by
  induction ops generalizing s with
  | nil => simp [ValidFromS, run]
  | cons a l ih =>
    simp only [List.cons_append, ValidFromS, ih, run, List.foldl_cons]
    constructor
    · rintro ⟨h1, h2, h3⟩; exact ⟨⟨h1, h2⟩, h3⟩
    · rintro ⟨⟨h1, h2⟩, h3⟩; exact ⟨h1, h2, h3⟩

/-- Every index between the snapshot and the last index holds an entry. -/
def Complete (s : St) : Prop := ∀ j, snapIdxOf s < j → j ≤ lastIdx s → (s.ents j).isSome = true

theorem complete_same {s s' : St} (h1 : s'.ents = s.ents) (h2 : s'.lastKey = s.lastKey) (h3 : s'.snap = s.snap)
    (h : Complete s) : Complete s' := by
  intro j hj1 hj2
  have hl : lastIdx s' = lastIdx s := by simp [lastIdx, h2]
  have hs : snapIdxOf s' = snapIdxOf s := by simp [snapIdxOf, h3]
  rw [h1]; exact h j (by omega) (by omega)

theorem complete_write {s : St} {items : List Item} (hv : ValidBatchG items)
    (hpos : firstIdx items ≤ lastIdx s + 1 ∨ (lastIdx s ≤ snapIdxOf s ∧ firstIdx items = snapIdxOf s + 1))
    (h : Complete s) : Complete (writeRaftEntry s items).1 := by
  obtain ⟨s', f, hw, hf1, hc, hlast, hents, -, hsn, -⟩ := writeRaftEntry_validG (s := s) hv
  have hfi : firstIdx items = f := firstIdx_contig hc hv.1
  rw [hfi] at hpos
  rw [hw]
  show Complete s'
  intro j hj1 hj2
  have hs : snapIdxOf s' = snapIdxOf s := by simp [snapIdxOf, hsn]
  rw [hs] at hj1
  rw [hlast] at hj2
  rw [hents j]
  by_cases hfj : f ≤ j
  · have : (written items j).isSome = true := (written_contig hc j).mpr ⟨hfj, by omega⟩
    cases hx : written items j with
    | none => simp [hx] at this
    | some x => rfl
  · have hnone : written items j = none := by
      cases hx : written items j with
      | none => rfl
      | some x =>
        have := (written_contig hc j).mp (by simp [hx])
        omega
    rw [hnone]
    have : ¬ (f ≤ j ∧ j ≤ lastIdx s) := fun hh => hfj hh.1
    simp only [this, if_false]
    rcases hpos with hp | ⟨hp1, hp2⟩
    · exact h j (by omega) (by omega)
    · omega

theorem complete_step {s : St} (op : Op) (hok : OpOkS s op) (h : Complete s) : Complete (applyOp s op) := by
  cases op with
  | write items =>
    obtain ⟨hv, -, hpos⟩ : ValidBatchG items ∧ (∀ it ∈ items, it.coherent) ∧ _ := by simpa [OpOkS, Op.items] using hok
    simpa [applyOp, step] using complete_write hv hpos h
  | save hs ents =>
    cases he : ents.isEmpty with
    | true =>
      refine complete_same ?_ ?_ ?_ h <;>
      · simp only [applyOp, step, saveEntry, he, if_true]
        by_cases hz : hs = ⟨0, 0, 0⟩ <;> simp [hz]
    | false =>
      obtain ⟨hvb, -, hpos⟩ : ValidBatchG (ents.map convertFromRaft) ∧ (∀ it ∈ ents.map convertFromRaft, it.coherent) ∧ _ := by
        simpa [OpOkS, Op.items, he] using hok
      obtain ⟨s', f, hw, -⟩ := writeRaftEntry_validG (s := s) hvb
      have hc := complete_write hvb hpos h
      rw [hw] at hc
      refine complete_same ?_ ?_ ?_ hc <;>
      · simp only [applyOp, step, saveEntry, he, hw]
        by_cases hz : hs = ⟨0, 0, 0⟩ <;> simp [hz]
  | hard hs => exact complete_same (s := s) rfl rfl rfl h
  | snap sn =>
    have hle : snapIdxOf s ≤ sn.index := by simpa [OpOkS] using hok
    intro j hj1 hj2
    have h1 : snapIdxOf (applyOp s (.snap sn)) = sn.index := rfl
    exact h j (by omega) hj2
  | ident id => exact complete_same (s := s) rfl rfl rfl h
  | restart =>
    simp only [applyOp, step]
    cases hr : restart s with
    | none => exact h
    | some s' =>
      unfold restart at hr
      split at hr
      · cases hr; exact complete_same (s := s) rfl rfl rfl h
      · cases hr
  | clear =>
    intro j _ hj2
    have : lastIdx (applyOp s .clear) = 0 := rfl
    have : snapIdxOf (applyOp s .clear) = 0 := rfl
    omega
  | best b => exact complete_same (s := s) rfl rfl rfl h
  | ccprog id st => exact complete_same (s := s) rfl rfl rfl h
  | reset hs =>
    cases hs with
    | none => exact h
    | some tc =>
      obtain ⟨t, c⟩ := tc
      cases hb : (clearWAL s).best with
      | none =>
        have e : applyOp s (.reset (some (t, c))) = { clearWAL s with hard := some ⟨t, 0, c⟩ } := by
          simp [applyOp, step, resetWAL, hb]
        rw [e]
        intro j _ hj2
        have : lastIdx ({ clearWAL s with hard := some ⟨t, 0, c⟩ } : St) = 0 := rfl
        omega
      | some b =>
        have e : applyOp s (.reset (some (t, c))) =
            { clearWAL s with hard := some ⟨t, 0, c⟩, snap := some ⟨c, t, b⟩, lastKey := some c } := by
          simp [applyOp, step, resetWAL, hb]
        rw [e]
        intro j hj1 hj2
        have h1 : snapIdxOf ({ clearWAL s with hard := some ⟨t, 0, c⟩, snap := some ⟨c, t, b⟩, lastKey := some c } : St) = c := rfl
        have h2 : lastIdx ({ clearWAL s with hard := some ⟨t, 0, c⟩, snap := some ⟨c, t, b⟩, lastKey := some c } : St) = c := rfl
        omega

theorem complete_run (ops : List Op) : ValidFromS empty ops → Complete (run empty ops) := by
  induction ops using snoc_induction with
  | nil =>
    intro _
    show Complete empty
    intro j _ hj
    have : lastIdx empty = 0 := rfl
    omega
  | snoc l a ih =>
    intro hv
    obtain ⟨hv1, hv2⟩ := (validFromS_snoc empty l a).mp hv
    rw [run_snoc]
    exact complete_step a hv2 (ih hv1)

/-! ## ReadAll ∘ SaveEntry -/

/-- The `raftpb.Entry` that `ReadAll` rebuilds from a stored item. -/
def Item.toOut (it : Item) : RaftOut :=
  if it.e.typ = tConf then .conf it.e.term it.e.index it.e.data
  else if it.e.typ = tEmpty then .normal it.e.term it.e.index none
  else .normal it.e.term it.e.index it.blk

/-- A `raftpb.Entry` handed to `SaveEntry`, as etcd/raft gets it back (the proposal id of a conf change
lives inside its data). -/
def RaftIn.toOut : RaftIn → RaftOut
  | .normal t i b => .normal t i b
  | .conf t i d _ => .conf t i d

/-- One entry: what `convertFromRaft` stores converts back to the entry that came in. -/
theorem toOut_convertFromRaft (x : RaftIn) : (convertFromRaft x).toOut = x.toOut := by
  cases x with
  | normal t i b => cases b <;> simp [convertFromRaft, Item.toOut, RaftIn.toOut, tBlock, tEmpty, tConf]
  | conf t i d id => simp [convertFromRaft, Item.toOut, RaftIn.toOut, tConf]

theorem convertFromRaft_coherent (x : RaftIn) : (convertFromRaft x).coherent := by
  cases x with
  | normal t i b =>
    cases b with
    | none => exact ⟨Or.inr (Or.inl rfl), fun h => by simp [convertFromRaft, tBlock, tEmpty] at h⟩
    | some b => exact ⟨Or.inl rfl, fun _ => ⟨b, rfl, rfl⟩⟩
  | conf t i d id => exact ⟨Or.inr (Or.inr rfl), fun h => by simp [convertFromRaft, tBlock, tConf] at h⟩

/-- `convertWalToRaft` of a coherent item whose block is in the store under its (non-empty) hash. -/
theorem convertWalToRaft_coherent {s : St} {it : Item} (hc : it.coherent)
    (hb : ∀ b, it.e.typ = tBlock → it.blk = some b → getBlock s b.hash = .ok b) :
    convertWalToRaft s it.e = .ok it.toOut := by
  obtain ⟨h1, h2⟩ := hc
  unfold convertWalToRaft Item.toOut
  rcases h1 with h | h | h
  · obtain ⟨b, hb1, hb2⟩ := h2 h
    have := hb b h hb1
    simp [h, tBlock, tEmpty, tConf, hb2, this, hb1]
  · simp [h, tEmpty, tConf]
  · simp [h]

theorem readFrom_ok (s : St) (snapTerm : Nat) : ∀ (n i : Nat),
    (∀ k, k < n → ∃ e re, getRaftEntry s (i + k) = .ok e ∧ snapTerm ≤ e.term ∧ convertWalToRaft s e = .ok re) →
    ∃ es, readFrom s snapTerm i n = .ok es := by
  intro n
  induction n with
  | zero => intro i _; exact ⟨[], rfl⟩
  | succ n ih =>
    intro i h
    obtain ⟨e, re, g1, g2, g3⟩ := h 0 (by omega)
    obtain ⟨rest, hr⟩ := ih (i + 1) (fun k hk => by
      obtain ⟨e', re', a1, a2, a3⟩ := h (k + 1) (by omega)
      exact ⟨e', re', by rw [← a1]; congr 1; omega, a2, a3⟩)
    refine ⟨re :: rest, ?_⟩
    simp only [readFrom]
    have g1' : getRaftEntry s i = .ok e := by simpa using g1
    rw [g1']
    have : ¬ e.term < snapTerm := by omega
    simp only [this, if_false, g3, hr]

/-- Every stored item comes from a batch of the history. -/
theorem stored_mem (ops : List Op) (j : Nat) (it : Item) (h : stored ops j = some it) :
    ∃ op ∈ ops, ∃ items, op.items = some items ∧ it ∈ items := by
  induction ops using snoc_induction generalizing it with
  | nil => cases h
  | snoc l a ih =>
    rw [stored_snoc] at h
    have keep : stored l j = some it → ∃ op ∈ l ++ [a], ∃ items, op.items = some items ∧ it ∈ items := by
      intro h'
      obtain ⟨op, ho, items, hi, hm⟩ := ih it h'
      exact ⟨op, List.mem_append_left _ ho, items, hi, hm⟩
    cases hai : a.items with
    | none =>
      have : storeStep (stored l) a j = stored l j ∨ storeStep (stored l) a j = none := by
        cases a with
        | clear => right; rfl
        | reset hs => cases hs with
          | none => left; simp [storeStep, Op.items]
          | some _ => right; rfl
        | write items => simp [Op.items] at hai
        | save hs ents => left; simp [storeStep, hai]
        | hard _ => left; simp [storeStep, Op.items]
        | snap _ => left; simp [storeStep, Op.items]
        | ident _ => left; simp [storeStep, Op.items]
        | restart => left; simp [storeStep, Op.items]
        | best _ => left; simp [storeStep, Op.items]
        | ccprog _ _ => left; simp [storeStep, Op.items]
      rcases this with h' | h'
      · rw [h'] at h; exact keep h
      · rw [h'] at h; cases h
    | some items =>
      have hs : storeStep (stored l) a j = match written items j with
                                            | some it => some it
                                            | none => if firstIdx items ≤ j then none else stored l j := by
        cases a <;> simp_all [storeStep, Op.items]
      rw [hs] at h
      cases hw : written items j with
      | none =>
        rw [hw] at h
        by_cases hf : firstIdx items ≤ j
        · simp [hf] at h
        · simp only [hf, if_false] at h; exact keep h
      | some x =>
        rw [hw] at h
        cases h
        exact ⟨a, by simp, items, hai, (written_index hw).2⟩

theorem validFromS_coherent : ∀ {s : St} {ops : List Op}, ValidFromS s ops →
    ∀ op ∈ ops, ∀ items, op.items = some items → ∀ it ∈ items, it.coherent
  | _, [], _ => by intro op ho; cases ho
  | s, a :: rest, h => by
    intro op ho items hi it hit
    rcases List.mem_cons.mp ho with rfl | ho'
    · have h1 := h.1
      unfold OpOkS at h1
      cases op <;> simp_all [Op.items]
      all_goals (split at h1 <;> simp_all)
    · exact validFromS_coherent h.2 op ho' items hi it hit

/-- The block of a stored block entry is among the blocks the history stored. -/
theorem stored_block_mem (ops : List Op) (j : Nat) (it : Item) (b : Block)
    (h : stored ops j = some it) (ht : it.e.typ = tBlock) (hb : it.blk = some b) : b ∈ blocksOf ops := by
  obtain ⟨op, ho, items, hi, hm⟩ := stored_mem ops j it h
  unfold blocksOf
  refine List.mem_flatMap.mpr ⟨op, ho, ?_⟩
  have key : op.blocks = items.filterMap Item.stored := by
    cases op <;> simp_all [Op.blocks, Op.items]
  rw [key]
  exact List.mem_filterMap.mpr ⟨it, hm, by simp [Item.stored, ht, hb]⟩

/-- A block the history stored is returned by `getBlock` under its hash (hashes pairwise different, non-empty). -/
theorem getBlock_stored {ops : List Op} (hv : ValidFromG ops) (hh : HashOk (blocksOf ops)) {b : Block}
    (hb : b ∈ blocksOf ops) : getBlock (run empty ops) b.hash = .ok b := by
  obtain ⟨i1, i2⟩ := blkInv_run ops hv
  have hs := i1 b hb
  cases hx : (run empty ops).blocks b.hash with
  | none => simp [hx] at hs
  | some b' =>
    obtain ⟨e1, e2⟩ := i2 _ _ hx
    have : b' = b := hh.1 b' e2 b hb e1
    subst this
    simp [getBlock, hh.2 b' hb, hx]

/-! ## What a (re)started node reads -/

/-- In state `c` the index-addressed reads and the last index are those of the history `ops`. -/
def LogView (c : St) (ops : List Op) : Prop :=
  (∀ j, getRaftEntry c j = match stored ops j with
                           | some it => .ok it.e
                           | none => .noEntry) ∧
  lastIdx c = lastIdx (run empty ops)

theorem logView_run (ops : List Op) (hv : ValidFromG ops) : LogView (run empty ops) ops :=
  ⟨getRaftEntry_of_logEq (logEq_run ops hv) (stored_index ops), rfl⟩

/-- The entries and the last index `SaveEntry` leaves do not depend on the hard state handed with them. -/
theorem save_log_indep (s : St) (hs hs' : HardState) (ents : List RaftIn) :
    (applyOp s (.save hs ents)).ents = (applyOp s (.save hs' ents)).ents ∧
    (applyOp s (.save hs ents)).lastKey = (applyOp s (.save hs' ents)).lastKey := by
  simp only [applyOp, step, saveEntry]
  cases he : ents.isEmpty with
  | true => by_cases hz : hs = ⟨0, 0, 0⟩ <;> by_cases hz' : hs' = ⟨0, 0, 0⟩ <;> simp [hz, hz']
  | false =>
    cases hw : writeRaftEntry s (ents.map convertFromRaft) with
    | mk s1 r => cases r <;> by_cases hz : hs = ⟨0, 0, 0⟩ <;> by_cases hz' : hs' = ⟨0, 0, 0⟩ <;> simp [hz, hz']

theorem storeStep_save_indep (acc : Nat → Option Item) (hs hs' : HardState) (ents : List RaftIn) :
    storeStep acc (.save hs ents) = storeStep acc (.save hs' ents) := rfl

end Aergo.RaftLog
