/-
Helper lemmas for the membership part of C16: the healthy count, the quorum formula against a
plain majority, `Cluster.Recover`. Core Lean only.
-/
import Aergo.Model.RaftLog

namespace Aergo.RaftLog

/-- `k` of `n` nodes are a strict majority. The property's "would lose quorum" is its negation. -/
def Majority (k n : Nat) : Prop := 2 * k > n

instance (k n : Nat) : Decidable (Majority k n) := by unfold Majority; infer_instance

theorem healthyCount_pos {ms : List (Nat × Nat)} {id : Nat} (h : ms.lookup id = some healthy) :
    1 ≤ healthyCount ms := by
  induction ms with
  | nil => simp at h
  | cons a t ih =>
    obtain ⟨a1, a2⟩ := a
    simp only [List.lookup] at h
    unfold healthyCount
    by_cases ha : id == a1
    · simp only [ha] at h
      cases h
      simp [List.filter, healthy]
    · simp only [ha] at h
      have := ih h
      unfold healthyCount at this
      simp only [List.filter]
      split <;> simp <;> omega

theorem clusterProgress_len (r : Raft) : (clusterProgress r).1 = (clusterProgress r).2.length := by
  unfold clusterProgress
  split
  · rfl
  · split
    · rfl
    · simp

/-- The regenerated guard `removeKeepsQuorum N h` says exactly: after the removal the remaining
healthy nodes are a strict majority of the remaining nodes (for `N ≥ 1`, `h ≥ 1`). -/
theorem removeKeepsQuorum_iff_majority (N h : Nat) (hN : 1 ≤ N) (hh : 1 ≤ h) :
    Aergo.Gen.RaftQuorum.removeKeepsQuorum (N : Int) (h : Int) = true ↔ Majority (h - 1) (N - 1) := by
  have hnn : (0 : Int) ≤ (N : Int) - 1 := by omega
  simp only [Aergo.Gen.RaftQuorum.removeKeepsQuorum, Aergo.Gen.RaftQuorum.isClusterAvilable, decide_eq_true_eq, Majority]
  rw [Int.tdiv_eq_ediv_of_nonneg hnn]
  omega

/-! ## Cluster.Recover -/

theorem memberEq_id {a b : Member} (h : memberEq a b = true) : a.id = b.id := by
  simp [memberEq] at h
  exact h.1.1.1

theorem membersEqual_ids : ∀ {x y : List Member}, membersEqual x y = true → x.map (·.id) = y.map (·.id)
  | [], [], _ => rfl
  | a :: x, b :: y, h => by
    simp only [membersEqual, Bool.and_eq_true] at h
    simp [memberEq_id h.1, membersEqual_ids h.2]
  | [], _ :: _, h => by simp [membersEqual] at h
  | _ :: _, [], h => by simp [membersEqual] at h

theorem sortByName_mem (ms : List Member) (id : Nat) :
    (∃ m ∈ sortByName ms, m.id = id) ↔ ∃ m ∈ ms, m.id = id := by
  have hp : (sortByName ms).Perm ms := List.mergeSort_perm ms _
  constructor
  · rintro ⟨m, hm, h⟩; exact ⟨m, hp.mem_iff.mp hm, h⟩
  · rintro ⟨m, hm, h⟩; exact ⟨m, hp.mem_iff.mpr hm, h⟩

theorem ids_mem_iff {x y : List Member} (h : x.map (·.id) = y.map (·.id)) (id : Nat) :
    (∃ m ∈ x, m.id = id) ↔ ∃ m ∈ y, m.id = id := by
  have e1 : (∃ m ∈ x, m.id = id) ↔ id ∈ x.map (·.id) := by simp [List.mem_map]
  have e2 : (∃ m ∈ y, m.id = id) ↔ id ∈ y.map (·.id) := by simp [List.mem_map]
  rw [e1, e2, h]

/-- Lists that `membersEqual` after sorting by name have the same member ids. -/
theorem membersEqual_sorted_ids {x y : List Member} (h : membersEqual (sortByName x) (sortByName y) = true) (id : Nat) :
    (∃ m ∈ x, m.id = id) ↔ ∃ m ∈ y, m.id = id := by
  rw [← sortByName_mem x, ← sortByName_mem y]
  exact ids_mem_iff (membersEqual_ids h) id

theorem addAll_eq : ∀ (acc ms r : List Member), addAll acc ms = some r → r = acc ++ ms
  | acc, [], r, h => by simp [addAll] at h; simp [h]
  | acc, m :: rest, r, h => by
    simp only [addAll] at h
    split at h
    · cases h
    · have := addAll_eq (acc ++ [m]) rest r h
      simp [this]

end Aergo.RaftLog
