/-
Helper lemmas for the `Receipt` layer (used by Props/C19): primitive reader lemmas, stage-by-stage
round trips of the storage codec, and a proof-only parser of the Merkle form. Core only.
-/
import Aergo.Model.Receipt
namespace Aergo.Receipt
open Aergo.Enc

theorem le_length' (w n : Nat) : (le w n).length = w := by
  induction w generalizing n with
  | zero => rfl
  | succ w ih => simp [le, ih]

theorem takeN_append (n : Nat) (a rest : Bytes) (h : a.length = n) : takeN n (a ++ rest) = some (a, rest) := by
  subst h
  simp [takeN]

theorem fromLE_le (w n : Nat) (h : n < 2 ^ (8 * w)) : fromLE (le w n) = n := by
  induction w generalizing n with
  | zero => simp at h; simp [le, fromLE, h]
  | succ w ih =>
    simp only [le, fromLE]
    have e : 2 ^ (8 * (w + 1)) = 256 * 2 ^ (8 * w) := by rw [Nat.mul_add, Nat.pow_add]; omega
    rw [ih (n / 256) (by rw [e] at h; omega)]
    simp [UInt8.toNat_ofNat']
    omega

theorem readLE_append (w n : Nat) (rest : Bytes) (h : n < 2 ^ (8 * w)) :
    readLE w (le w n ++ rest) = some (n, rest) := by
  simp [readLE, takeN_append w (le w n) rest (le_length' w n), fromLE_le w n h]

theorem readLE_one (b : UInt8) (rest : Bytes) : readLE 1 (b :: rest) = some (b.toNat, rest) := by
  simp [readLE, takeN, fromLE]

theorem Event.unstore_store (raddr : Bytes) (e : Event) (rest : Bytes) (hw : Event.wf raddr e = true) :
    Event.unstore raddr (Event.store raddr e ++ rest) = some (e.stored, rest) := by
  simp only [Event.wf, Bool.and_eq_true, beq_iff_eq, Bool.or_eq_true, bne_iff_ne, decide_eq_true_eq] at hw
  obtain ⟨⟨⟨⟨hlen, hhead⟩, hn⟩, ha⟩, hi⟩ := hw
  unfold Event.unstore Event.store
  by_cases hsame : e.addr = raddr
  · simp only [hsame, if_true, List.cons_append, List.nil_append, List.append_assoc, readLE_one, u32]
    simp [readLE_append, takeN_append, hn, ha, hi, Event.stored, ← hsame]
  · have hh : e.addr.head? ≠ some 0 := by
      rcases hhead with h | h
      · exact absurd h hsame
      · exact h
    match hea : e.addr, hlen, hh with
    | b :: tl, hlen, hh =>
      have hb : b.toNat ≠ 0 := by
        intro h0; apply hh; simp; exact UInt8.toNat_inj.mp (by simpa using h0)
      have hsame' : ¬ (b :: tl = raddr) := by rw [← hea]; exact hsame
      simp only [hsame', if_false, List.cons_append, List.append_assoc, readLE_one, u32]
      rw [← List.cons_append, takeN_append 33 (b :: tl) _ hlen]
      simp [readLE_append, takeN_append, hn, ha, hi, Event.stored, hea, hb]


theorem readEvents_store (raddr : Bytes) (es : List Event) (rest : Bytes)
    (hw : es.all (Event.wf raddr) = true) :
    readEvents raddr es.length ((es.map (Event.store raddr)).flatten ++ rest) = some (es.map Event.stored, rest) := by
  induction es with
  | nil => simp [readEvents]
  | cons e es ih =>
    simp only [List.all_cons, Bool.and_eq_true] at hw
    simp only [List.map_cons, List.flatten_cons, List.length_cons, readEvents, List.append_assoc]
    rw [Event.unstore_store raddr e _ hw.1]
    simp [ih hw.2]

/-- the header part of a receipt as the body decoder returns it -/
def Receipt.bodyOf (v2 : Bool) (r : Receipt) : Receipt :=
  { r with events := [], gas := if v2 then r.gas else 0, feeDeleg := if v2 then r.feeDeleg else false }

theorem statusName_code (s : String) (c : Nat) (h : statusCode s = some c) : statusName c = s ∧ c < 4 := by
  unfold statusCode at h
  split at h
  · simp at h; subst h; simp [statusName, *]
  · split at h
    · simp at h; subst h; simp [statusName, *]
    · split at h
      · simp at h; subst h; simp [statusName, *]
      · split at h
        · simp at h; subst h; simp [statusName, *]
        · cases h

theorem takeN_zero (d : Bytes) : takeN 0 d = some ([], d) := by simp [takeN]

theorem readGas_append (v2 : Bool) (gas : Nat) (fd : Bool) (rest : Bytes) (hg : gas < 2 ^ 64) :
    readGas v2 (gasBytes v2 gas fd ++ rest) =
      some ((if v2 then gas else 0, if v2 then (if fd then 1 else 0) else 0), rest) := by
  cases v2
  · simp [readGas, gasBytes]
  · simp only [readGas, gasBytes, if_true, List.append_assoc, List.cons_append, List.nil_append]
    rw [readLE_append 8 gas _ (by simpa using hg)]
    cases fd <;> simp [readLE_one]

theorem readBloom_append (bloom rest : Bytes) (hb : bloom = [] ∨ bloom.length = 256) :
    readBloom (bloomBytes bloom ++ rest) = some (bloom, rest) := by
  rcases hb with hb | hb
  · subst hb; simp [readBloom, bloomBytes, readLE_one]
  · have hne : bloom.isEmpty = false := by
      cases bloom with
      | nil => simp at hb
      | cons _ _ => rfl
    simp only [readBloom, bloomBytes, hne, Bool.false_eq_true, if_false, List.cons_append, readLE_one]
    simp [takeN_append 256 bloom rest hb]

theorem unmarshalBody_marshalBody (v2 : Bool) (r : Receipt) (body rest : Bytes) (hw : r.wf = true)
    (hm : marshalBody v2 false r = some body) :
    unmarshalBody v2 (body ++ rest) = some (r.bodyOf v2, rest, r.events.length) := by
  simp only [Receipt.wf, Bool.and_eq_true, beq_iff_eq, decide_eq_true_eq, Bool.or_eq_true, List.isEmpty_iff] at hw
  obtain ⟨⟨⟨⟨⟨⟨⟨⟨⟨haddr, hst⟩, htx⟩, hret⟩, hfee⟩, hcum⟩, hgas⟩, hbloom⟩, hev⟩, _⟩ := hw
  unfold marshalBody at hm
  match hc : statusCode r.status, hst with
  | some c, _ =>
    obtain ⟨hname, hc4⟩ := statusName_code _ _ hc
    rw [hc] at hm
    simp only [Option.some.injEq] at hm
    subst hm
    have hcb : (UInt8.ofNat c).toNat = c := by simp [UInt8.toNat_ofNat']; omega
    unfold unmarshalBody
    simp only [Bool.not_false, Bool.true_or, if_true, List.append_assoc, List.cons_append, List.nil_append, u32, hcum,
      List.length_nil]
    rw [takeN_append 33 r.addr _ haddr]
    simp only [Option.bind_eq_bind, Option.bind_some, readLE_one, hcb]
    rw [readLE_append 4 _ _ hret]
    simp only [Option.bind_some]
    rw [takeN_append _ r.ret _ rfl]
    simp only [Option.bind_some]
    rw [takeN_append 32 r.txHash _ htx]
    simp only [Option.bind_some]
    rw [readLE_append 4 _ _ hfee]
    simp only [Option.bind_some]
    rw [takeN_append _ r.fee _ rfl]
    simp only [Option.bind_some]
    rw [readLE_append 4 0 _ (by decide)]
    simp only [Option.bind_some, takeN_zero]
    rw [readGas_append v2 r.gas r.feeDeleg _ hgas]
    simp only [Option.bind_some]
    rw [readBloom_append r.bloom _ hbloom]
    simp only [Option.bind_some]
    rw [readLE_append 4 _ _ hev]
    simp only [Option.bind_some, Option.pure_def, Option.some.injEq, Prod.mk.injEq, and_true, Receipt.bodyOf, hname, hcum]
    cases v2 <;> cases hfd : r.feeDeleg <;> simp


theorem unmarshalStore_marshalStore (v2 : Bool) (r : Receipt) (b rest : Bytes) (hw : r.wf = true)
    (hm : marshalStore v2 r = some b) : unmarshalStore v2 (b ++ rest) = some (r.stored v2, rest) := by
  unfold marshalStore at hm
  match hb : marshalBody v2 false r with
  | none => rw [hb] at hm; cases hm
  | some body =>
    rw [hb] at hm
    simp only [Option.map_some, Option.some.injEq] at hm
    subst hm
    have hev : r.events.all (Event.wf r.addr) = true := by
      simp only [Receipt.wf, Bool.and_eq_true] at hw; exact hw.2
    unfold unmarshalStore
    rw [List.append_assoc, unmarshalBody_marshalBody v2 r body _ hw hb]
    simp only [Option.bind_eq_bind, Option.bind_some, Receipt.bodyOf]
    rw [readEvents_store r.addr r.events rest hev]
    simp [Receipt.stored]

theorem unmarshalList_marshalList (v2 : Bool) (rs : List Receipt) (b rest : Bytes)
    (hw : ∀ r ∈ rs, r.wf = true) (hm : marshalList v2 rs = some b) :
    unmarshalList v2 rs.length (b ++ rest) = some (rs.map (Receipt.stored v2)) := by
  induction rs generalizing b with
  | nil => simp [unmarshalList]
  | cons r rs ih =>
    simp only [marshalList] at hm
    match h1 : marshalStore v2 r, h2 : marshalList v2 rs with
    | some a, some c =>
      rw [h1, h2] at hm
      simp only [Option.some.injEq] at hm
      subst hm
      simp only [List.length_cons, unmarshalList, List.append_assoc]
      rw [unmarshalStore_marshalStore v2 r a _ (hw r (by simp)) h1]
      simp only [Option.bind_eq_bind, Option.bind_some]
      rw [ih c (fun x hx => hw x (by simp [hx])) h2]
      simp
    | none, _ => rw [h1] at hm; simp at hm
    | some _, none => rw [h1, h2] at hm; simp at hm

theorem unmarshalAll_marshalAll (v2 : Bool) (bloom : Option Bytes) (rs : List Receipt) (b : Bytes)
    (hb : ∀ x, bloom = some x → x.length = 256) (hn : rs.length < 2 ^ 32)
    (hw : ∀ r ∈ rs, r.wf = true) (hm : marshalAll v2 bloom rs = some b) :
    unmarshalAll v2 b = some (bloom, rs.map (Receipt.stored v2)) := by
  unfold marshalAll at hm
  match hl : marshalList v2 rs with
  | none => rw [hl] at hm; cases hm
  | some body =>
    rw [hl] at hm
    simp only [Option.map_some, Option.some.injEq] at hm
    subst hm
    have hrt := unmarshalList_marshalList v2 rs body [] hw hl
    rw [List.append_nil] at hrt
    unfold unmarshalAll
    cases bloom with
    | none =>
      simp only [List.cons_append, List.nil_append, readLE_one, Option.bind_eq_bind, Option.bind_some, u32]
      simp [readLE_append 4 _ _ hn, hrt]
    | some x =>
      have hx := hb x rfl
      simp only [List.cons_append, readLE_one, Option.bind_eq_bind, Option.bind_some, u32]
      simp [takeN_append 256 x _ hx, readLE_append 4 _ _ hn, hrt]


/-! ### Merkle bytes: a proof-only parser (the Go code has no decoder for this format) -/

def Event.uncommon (d : Bytes) : Option (Event × Bytes) := do
  let (addr, d) ← takeN 33 d
  let (l, d) ← readLE 4 d
  let (name, d) ← takeN l d
  let (l, d) ← readLE 4 d
  let (args, d) ← takeN l d
  let (tx, d) ← takeN 32 d
  let (idx, d) ← readLE 4 d
  pure ({ addr := addr, name := name, args := args, idx := idx, txHash := tx }, d)

def readEventsM : Nat → Bytes → Option (List Event × Bytes)
  | 0, d => some ([], d)
  | n + 1, d => do
    let (e, d) ← Event.uncommon d
    let (es, d) ← readEventsM n d
    pure (e :: es, d)

def readRet (st : Nat) (d : Bytes) : Option (Bytes × Bytes) :=
  if st = 2 then some ([], d) else do
    let (l, d) ← readLE 4 d
    takeN l d

def parseMerkle (v2 : Bool) (d : Bytes) : Option (Receipt × Bytes) := do
  let (addr, d) ← takeN 33 d
  let (st, d) ← readLE 1 d
  let (ret, d) ← readRet st d
  let (tx, d) ← takeN 32 d
  let (l, d) ← readLE 4 d
  let (fee, d) ← takeN l d
  let (l, d) ← readLE 4 d
  let (cum, d) ← takeN l d
  let (gf, d) ← readGas v2 d
  let (bloom, d) ← readBloom d
  let (n, d) ← readLE 4 d
  let (es, d) ← readEventsM n d
  pure ({ addr := addr, status := statusName st, ret := ret, txHash := tx, fee := fee, cum := cum,
          gas := gf.1, feeDeleg := gf.2 = 1, bloom := bloom, events := es }, d)

/-- Well-formedness for the Merkle form (no condition on CumulativeFeeUsed beyond its length). -/
def Event.wfM (e : Event) : Bool :=
  e.addr.length == 33 && e.txHash.length == 32 &&
  decide (e.name.length < 2 ^ 32) && decide (e.args.length < 2 ^ 32) && decide (e.idx < 2 ^ 32)

def Receipt.wfM (r : Receipt) : Bool :=
  r.addr.length == 33 && (statusCode r.status).isSome && r.txHash.length == 32 &&
  decide (r.ret.length < 2 ^ 32) && decide (r.fee.length < 2 ^ 32) && decide (r.cum.length < 2 ^ 32) &&
  decide (r.gas < 2 ^ 64) && (r.bloom.isEmpty || r.bloom.length == 256) &&
  decide (r.events.length < 2 ^ 32) && r.events.all Event.wfM

/-- The fields the receipts-root leaf of format `v2` commits to: everything except the return value
of a failed execution and, in the old format, gas and the fee-delegation flag. -/
def Receipt.view (v2 : Bool) (r : Receipt) : Receipt :=
  { r with ret := if statusCode r.status = some 2 then [] else r.ret,
           gas := if v2 then r.gas else 0, feeDeleg := if v2 then r.feeDeleg else false }

theorem Event.uncommon_common (e : Event) (rest : Bytes) (hw : e.wfM = true) :
    Event.uncommon (e.common ++ rest) = some (e, rest) := by
  simp only [Event.wfM, Bool.and_eq_true, beq_iff_eq, decide_eq_true_eq] at hw
  obtain ⟨⟨⟨⟨ha, ht⟩, hn⟩, hg⟩, hi⟩ := hw
  unfold Event.uncommon Event.common
  simp only [List.append_assoc, u32]
  rw [takeN_append 33 e.addr _ ha]
  simp only [Option.bind_eq_bind, Option.bind_some]
  rw [readLE_append 4 _ _ hn]
  simp only [Option.bind_some]
  rw [takeN_append _ e.name _ rfl]
  simp only [Option.bind_some]
  rw [readLE_append 4 _ _ hg]
  simp only [Option.bind_some]
  rw [takeN_append _ e.args _ rfl]
  simp only [Option.bind_some]
  rw [takeN_append 32 e.txHash _ ht]
  simp only [Option.bind_some]
  rw [readLE_append 4 _ _ hi]
  simp

theorem readEventsM_common (es : List Event) (rest : Bytes) (hw : es.all Event.wfM = true) :
    readEventsM es.length ((es.map Event.common).flatten ++ rest) = some (es, rest) := by
  induction es with
  | nil => simp [readEventsM]
  | cons e es ih =>
    simp only [List.all_cons, Bool.and_eq_true] at hw
    simp only [List.map_cons, List.flatten_cons, List.length_cons, readEventsM, List.append_assoc]
    rw [Event.uncommon_common e _ hw.1]
    simp [ih hw.2]

theorem parseMerkle_marshalMerkle (v2 : Bool) (r : Receipt) (b rest : Bytes) (hw : r.wfM = true)
    (hm : marshalMerkle v2 r = some b) : parseMerkle v2 (b ++ rest) = some (r.view v2, rest) := by
  simp only [Receipt.wfM, Bool.and_eq_true, beq_iff_eq, decide_eq_true_eq, Bool.or_eq_true, List.isEmpty_iff] at hw
  obtain ⟨⟨⟨⟨⟨⟨⟨⟨⟨haddr, hst⟩, htx⟩, hret⟩, hfee⟩, hcum⟩, hgas⟩, hbloom⟩, hev⟩, hevs⟩ := hw
  unfold marshalMerkle marshalBody at hm
  match hc : statusCode r.status, hst with
  | some c, _ =>
    obtain ⟨hname, hc4⟩ := statusName_code _ _ hc
    rw [hc] at hm
    simp only [Option.map_some, Option.some.injEq] at hm
    subst hm
    have hcb : (UInt8.ofNat c).toNat = c := by simp [UInt8.toNat_ofNat']; omega
    have hretp : readRet c ((if (!true || c != 2) = true then u32 r.ret.length ++ r.ret else []) ++
        (r.txHash ++ (u32 r.fee.length ++ (r.fee ++ (u32 r.cum.length ++ (r.cum ++ (gasBytes v2 r.gas r.feeDeleg ++
          (bloomBytes r.bloom ++ u32 r.events.length))))))) ++ ((r.events.map Event.common).flatten ++ rest))
        = some (if c = 2 then [] else r.ret, (r.txHash ++ (u32 r.fee.length ++ (r.fee ++ (u32 r.cum.length ++ (r.cum ++ (gasBytes v2 r.gas r.feeDeleg ++
          (bloomBytes r.bloom ++ u32 r.events.length))))))) ++ ((r.events.map Event.common).flatten ++ rest)) := by
      unfold readRet
      by_cases h2 : c = 2
      · simp [h2]
      · simp only [h2, if_false, Bool.not_true, Bool.false_or, bne_iff_ne, ne_eq, not_false_eq_true, if_true, u32,
          List.append_assoc]
        rw [readLE_append 4 _ _ hret]
        simp [takeN_append _ r.ret _ rfl]
    unfold parseMerkle
    simp only [List.append_assoc, List.cons_append, List.nil_append]
    rw [takeN_append 33 r.addr _ haddr]
    simp only [Option.bind_eq_bind, Option.bind_some, readLE_one, hcb]
    simp only [List.append_assoc] at hretp
    rw [hretp]
    simp only [Option.bind_some, u32]
    rw [takeN_append 32 r.txHash _ htx]
    simp only [Option.bind_some]
    rw [readLE_append 4 _ _ hfee]
    simp only [Option.bind_some]
    rw [takeN_append _ r.fee _ rfl]
    simp only [Option.bind_some]
    rw [readLE_append 4 _ _ hcum]
    simp only [Option.bind_some]
    rw [takeN_append _ r.cum _ rfl]
    simp only [Option.bind_some]
    rw [readGas_append v2 r.gas r.feeDeleg _ hgas]
    simp only [Option.bind_some]
    rw [readBloom_append r.bloom _ hbloom]
    simp only [Option.bind_some]
    rw [readLE_append 4 _ _ hev]
    simp only [Option.bind_some]
    rw [readEventsM_common r.events rest hevs]
    simp only [Option.bind_some, Option.pure_def, Option.some.injEq, Prod.mk.injEq, and_true, Receipt.view, hname, hc]
    cases v2 <;> cases hfd : r.feeDeleg <;> simp
theorem map_hash_inj (H : Bytes → Bytes) (xs ys : List Bytes) (h : xs.map H = ys.map H) :
    xs = ys ∨ ∃ x ∈ xs, ∃ y ∈ ys, x ≠ y ∧ H x = H y := by
  induction xs generalizing ys with
  | nil => cases ys with
    | nil => exact .inl rfl
    | cons _ _ => simp at h
  | cons x xs ih => cases ys with
    | nil => simp at h
    | cons y ys =>
      simp only [List.map_cons, List.cons.injEq] at h
      by_cases hxy : x = y
      · rcases ih ys h.2 with h1 | ⟨a, ha, b, hb, hne, he⟩
        · exact .inl (by rw [hxy, h1])
        · exact .inr ⟨a, List.mem_cons_of_mem _ ha, b, List.mem_cons_of_mem _ hb, hne, he⟩
      · exact .inr ⟨x, by simp, y, by simp, hxy, h.1⟩

end Aergo.Receipt
