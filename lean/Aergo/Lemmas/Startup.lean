/-
Helper lemmas for the `Startup` layer (used by Props/C19). Core only.
-/
import Aergo.Lemmas.Hardfork
import Aergo.Model.Startup
namespace Aergo.Startup
open Aergo.Hardfork

theorem lookup_recFrom (c : Config) (i k : Nat) :
    (recFrom i c).lookup k = if i + 2 ≤ k ∧ k < i + 2 + c.length then c[k - (i + 2)]? else none := by
  induction c generalizing i with
  | nil => simp [recFrom]
  | cons x rest ih =>
    simp only [recFrom, List.lookup_cons, List.length_cons]
    by_cases hk : k = i + 2
    · subst hk; simp
    · have hb : (k == i + 2) = false := by simpa using hk
      rw [hb, ih (i + 1)]
      by_cases hc : i + 1 + 2 ≤ k ∧ k < i + 1 + 2 + rest.length
      · rw [if_pos hc, if_pos (by omega)]
        obtain ⟨m, hm⟩ : ∃ m, k - (i + 2) = m + 1 := ⟨k - (i + 3), by omega⟩
        rw [hm, List.getElem?_cons_succ]
        have hm' : m = k - (i + 1 + 2) := by omega
        rw [hm']
      · rw [if_neg hc, if_neg (by omega)]

theorem lookup_fixFromWith (fill : Nat → Nat) (c : Config) (d : List (Nat × Nat)) (i k : Nat) :
    (fixFromWith fill d i c).lookup k =
      match d.lookup k with
      | some v => some v
      | none => if i + 2 ≤ k ∧ k < i + 2 + c.length then (c[k - (i + 2)]?).map fill else none := by
  induction c generalizing d i with
  | nil => simp only [fixFromWith]; cases d.lookup k <;> simp
  | cons x rest ih =>
    simp only [fixFromWith, List.length_cons]
    rw [ih]
    by_cases hs : (d.lookup (i + 2)).isSome
    · rw [if_pos hs]
      cases hdk : d.lookup k with
      | some v => rfl
      | none =>
        have hk : k ≠ i + 2 := by
          intro e; subst e; rw [hdk] at hs; cases hs
        simp only
        by_cases hc : i + 1 + 2 ≤ k ∧ k < i + 1 + 2 + rest.length
        · rw [if_pos hc, if_pos (by omega)]
          obtain ⟨m, hm⟩ : ∃ m, k - (i + 2) = m + 1 := ⟨k - (i + 3), by omega⟩
          rw [hm, List.getElem?_cons_succ]
          have hm' : m = k - (i + 1 + 2) := by omega
          rw [hm']
        · rw [if_neg hc, if_neg (by omega)]
    · rw [if_neg hs]
      have hnone : d.lookup (i + 2) = none := by
        cases h : d.lookup (i + 2) with
        | none => rfl
        | some v => rw [h] at hs; exact absurd rfl hs
      rw [List.lookup_append]
      cases hdk : d.lookup k with
      | some v => simp
      | none =>
        simp only [Option.none_or, List.lookup_cons, List.lookup_nil]
        by_cases hk : k = i + 2
        · subst hk; simp
        · have hb : (k == i + 2) = false := by simpa using hk
          rw [hb]
          simp only
          by_cases hc : i + 1 + 2 ≤ k ∧ k < i + 1 + 2 + rest.length
          · rw [if_pos hc, if_pos (by omega)]
            obtain ⟨m, hm⟩ : ∃ m, k - (i + 2) = m + 1 := ⟨k - (i + 3), by omega⟩
            rw [hm, List.getElem?_cons_succ]
            have hm' : m = k - (i + 1 + 2) := by omega
            rw [hm']
          · rw [if_neg hc, if_neg (by omega)]

/-- the record of `old`, completed for configuration `c` -/
def fixedRecord (fill : Nat → Nat) (old c : Config) : DbConfig :=
  { entries := fixFromWith fill (recFrom 0 old) 0 c, badKeys := 0 }

/-- `dbCfg["V<j+2>"]` of the completed record: the recorded height for the fields the old release knew,
`fill` of the node's height for the others. -/
theorem get_fixedRecord (fill : Nat → Nat) (old c : Config) (j : Nat) (hj : j < c.length) (_hlen : old.length ≤ c.length) :
    (fixedRecord fill old c).get (j + 2) = (old ++ (c.drop old.length).map fill)[j]?.getD 0 := by
  unfold fixedRecord DbConfig.get
  simp only
  rw [lookup_fixFromWith, lookup_recFrom]
  by_cases hjo : j < old.length
  · rw [if_pos (by omega)]
    have : j + 2 - (0 + 2) = j := by omega
    rw [this, List.getElem?_append_left hjo]
    rw [List.getElem?_eq_getElem hjo]
    rfl
  · rw [if_neg (by omega)]
    simp only
    rw [if_pos (by omega)]
    have : j + 2 - (0 + 2) = j := by omega
    rw [this, List.getElem?_append_right (by omega)]
    rw [List.getElem?_map, List.getElem?_drop]
    have : old.length + (j - old.length) = j := by omega
    rw [this, List.getElem?_eq_getElem hj]
    rfl

theorem fixedRecord_list (fill : Nat → Nat) (old c : Config) (hlen : old.length ≤ c.length) :
    (List.range' 0 c.length).map (fun j => (fixedRecord fill old c).get (j + 2)) = old ++ (c.drop old.length).map fill := by
  apply List.ext_getElem
  · simp; omega
  · intro n h1 h2
    simp only [List.getElem_map, List.getElem_range', Nat.zero_add, Nat.one_mul]
    have hn : n < c.length := by simpa using h1
    rw [get_fixedRecord fill old c n hn hlen, List.getElem?_eq_getElem h2]
    rfl

theorem verFrom_all_gt (h i : Nat) (b : Config) (hb : ∀ x ∈ b, h < x) : verFrom h i b = 0 := by
  induction b generalizing i with
  | nil => rfl
  | cons x rest ih =>
    simp only [verFrom]
    rw [ih (i + 1) (fun y hy => hb y (List.mem_cons_of_mem _ hy))]
    have : ¬ x ≤ h := by have := hb x (List.mem_cons_self); omega
    simp [this]

theorem verFrom_append_gt (h i : Nat) (a b : Config) (hb : ∀ x ∈ b, h < x) : verFrom h i (a ++ b) = verFrom h i a := by
  induction a generalizing i with
  | nil => simpa [verFrom] using verFrom_all_gt h i b hb
  | cons x rest ih => simp only [List.cons_append, verFrom]; rw [ih]

/-- in a valid (non-decreasing) tail every height is at least the previous one: if some version of the tail is reached at `h`,
so is the previous height -/
theorem validFrom_le_of_ver (h i : Nat) (l : Config) (prev : Nat) (hv : validFrom prev l = true) (hne : verFrom h i l ≠ 0) : prev ≤ h := by
  induction l generalizing prev i with
  | nil => exact absurd rfl hne
  | cons x rest ih =>
    simp only [validFrom, Bool.and_eq_true, Bool.not_eq_true', decide_eq_false_iff_not] at hv
    simp only [verFrom] at hne
    by_cases hl : verFrom h (i + 1) rest = 0
    · simp only [hl, ne_eq, not_true_eq_false, if_false] at hne
      by_cases hx : x ≤ h
      · omega
      · simp [hx] at hne
    · have := ih (i + 1) x hv.2 hl
      omega

theorem fixFromWith_ne_nil (fill : Nat → Nat) (d : List (Nat × Nat)) (i x : Nat) (rest : Config) :
    fixFromWith fill d i (x :: rest) ≠ [] := by
  intro e
  have := lookup_fixFromWith fill (x :: rest) d i (i + 2)
  rw [e] at this
  cases hd : d.lookup (i + 2) with
  | some v => rw [hd] at this; cases this
  | none =>
    rw [hd] at this
    simp at this

/-- The core of the stability results: a start on the record of `old` that is accepted keeps, for every height up to
the best block, the version of the recorded configuration completed with `fill` of the node's own heights. -/
theorem started_versions (fill : Nat → Nat) (strict : Bool) (c old : Config) (best h : Nat) (hlen : old.length ≤ c.length)
    (hs : checkHardforkWith fill strict c (.record (recordOf old)) best = .started) (hh : h ≤ best) :
    version c h = version (old ++ (c.drop old.length).map fill) h := by
  cases c with
  | nil =>
    have : old = [] := List.eq_nil_of_length_eq_zero (by simpa using hlen)
    subst this; rfl
  | cons x rest =>
    unfold checkHardforkWith at hs
    simp only [recordOf] at hs
    have hne : fixFromWith fill (recFrom 0 old) 0 (x :: rest) ≠ [] := fixFromWith_ne_nil fill _ 0 x rest
    have hemp : (fixFromWith fill (recFrom 0 old) 0 (x :: rest)).isEmpty = false := by
      cases hl : fixFromWith fill (recFrom 0 old) 0 (x :: rest) with
      | nil => exact absurd hl hne
      | cons _ _ => rfl
    simp only [hemp, Bool.false_and] at hs
    have hok : checkCompatibility (x :: rest) (fixedRecord fill old (x :: rest)) best = .ok := by
      unfold fixedRecord
      cases hcc : checkCompatibility (x :: rest) { entries := fixFromWith fill (recFrom 0 old) 0 (x :: rest), badKeys := 0 } best with
      | ok => rfl
      | invalid => rw [hcc] at hs; cases hs
      | fork k => rw [hcc] at hs; cases hs
      | older => rw [hcc] at hs; cases hs
    unfold checkCompatibility at hok
    split at hok
    · cases hok
    · split at hok
      · cases hok
      · rename_i hm
        have := stable_aux (fixedRecord fill old (x :: rest)) best h 0 (x :: rest) hh hm
        rw [fixedRecord_list fill old (x :: rest) hlen] at this
        exact this

/-- length discipline of a sequence of starts: each configuration is related to the one recorded before it -/
def Chain (R : Nat → Nat → Prop) : Nat → List (Config × Nat) → Prop
  | _, [] => True
  | n, (c, _) :: rest => R n c.length ∧ Chain R c.length rest

theorem Chain.weaken (R : Nat → Nat → Prop) (htr : ∀ a b c, R a b → R b c → R a c) (n m : Nat) (starts : List (Config × Nat))
    (hnm : R n m) (h : Chain R m starts) : Chain R n starts := by
  cases starts with
  | nil => trivial
  | cons s rest => exact ⟨htr _ _ _ hnm h.1, h.2⟩

theorem lastAccepted_stable (check : Config → Stored → Nat → Outcome) (R : Nat → Nat → Prop)
    (htr : ∀ a b c, R a b → R b c → R a c)
    (hcheck : ∀ c old best, R old.length c.length → check c (.record (recordOf old)) best = .started →
      ∀ h, h ≤ best → version c h = version old h)
    (old : Config) (starts : List (Config × Nat)) (hch : Chain R old.length starts)
    (h : Nat) (hh : ∀ s ∈ starts, h ≤ s.2) : version (lastAccepted check old starts) h = version old h := by
  induction starts generalizing old with
  | nil => rfl
  | cons s rest ih =>
    obtain ⟨c, best⟩ := s
    simp only [lastAccepted]
    have hb : h ≤ best := hh (c, best) List.mem_cons_self
    have hrest : ∀ s ∈ rest, h ≤ s.2 := fun s hs => hh s (List.mem_cons_of_mem _ hs)
    cases hc : check c (.record (recordOf old)) best with
    | started =>
      simp only
      rw [ih c hch.2 hrest]
      exact hcheck c old best hch.1 hc h hb
    | refused e =>
      simp only
      exact ih old (Chain.weaken R htr _ _ _ hch.1 hch.2) hrest
    | unreadable =>
      simp only
      exact ih old (Chain.weaken R htr _ _ _ hch.1 hch.2) hrest

end Aergo.Startup
