/-
Helper lemmas for C17 (block sync) about the model `Aergo.Sync` (Model/Sync.lean).

* binary search: `bs_general` (loop invariant of `Finder.binarySearch`), `bs_sound`, `bs_err`.
* fetcher/processor: the invariants `FInv` (every fetch task and waiting hash set carries ids that
  were announced for exactly the heights it claims) and `PInv` (every queued connect task is a
  non-empty run of consecutive heights starting at its `firstNo`, the current connect task points
  at the block being connected / just connected), preserved by every step (`step_inv`), and what a
  step hands to the chain service (`DeliversNext`): nothing, or exactly the block of height
  `nextNo`. `run_delivers` lifts this to event lists of any length.

`Ann n h` ("id `h` was announced for height `n`") is a parameter; Props/C17.lean instantiates it
with the hash sets that actually occur in the event list.
Core Lean only.
-/
import Aergo.Model.Sync

namespace Aergo.Sync

/-- `r` is the greatest height `≤ HI` whose probe says `same` (`none`: there is none). -/
def IsHighest (probe : Nat → Probe) (HI : Nat) (r : Option Nat) : Prop :=
  match r with
  | some k => k ≤ HI ∧ probe k = .same ∧ ∀ j, k < j → j ≤ HI → probe j ≠ .same
  | none => ∀ j, j ≤ HI → probe j ≠ .same

theorem bs_general (probe : Nat → Probe) (HI : Nat)
    (hok : ∀ i, i ≤ HI → probe i = .same ∨ probe i = .diff)
    (hmono : ∀ i j, i ≤ j → j ≤ HI → probe j = .same → probe i = .same) :
    ∀ lo hi last, hi ≤ HI → lo ≤ hi + 1 →
      (last = if lo = 0 then none else some (lo - 1)) →
      (∀ i, i < lo → probe i = .same) →
      (∀ j, hi < j → j ≤ HI → probe j ≠ .same) →
      ∃ r, binarySearch probe lo hi last = .ok r ∧ IsHighest probe HI r := by
  intro lo hi last
  fun_induction binarySearch probe lo hi last with
  | case1 lo hi last hle hp =>  -- localErr
    intro hH _ _ _ _
    rcases hok ((lo+hi)/2) (by omega) with h | h <;> simp [h] at hp
  | case2 lo hi last hle hp =>
    intro hH _ _ _ _
    rcases hok ((lo+hi)/2) (by omega) with h | h <;> simp [h] at hp
  | case3 lo hi last hle hp ih =>
    intro hH hlo hlast hA hB
    apply ih hH (by omega) (by simp)
    · intro i hi'
      exact hmono i ((lo+hi)/2) (by omega) (by omega) hp
    · exact hB
  | case4 lo hi last hle hp h0 =>
    intro hH hlo hlast hA hB
    have hlo0 : lo = 0 := by omega
    subst hlo0
    simp at hlast
    subst hlast
    refine ⟨none, rfl, ?_⟩
    intro j hj hs
    have := hmono 0 j (by omega) hj hs
    have h00 : (0 + hi) / 2 = 0 := h0
    rw [h00] at hp
    simp [this] at hp
  | case5 lo hi last hle hp h0 ih =>
    intro hH hlo hlast hA hB
    apply ih (by omega) (by omega) hlast hA
    intro j hj1 hj2 hs
    by_cases hjm : j = (lo+hi)/2
    · subst hjm; simp [hs] at hp
    · have := hmono ((lo+hi)/2) j (by omega) hj2 hs
      simp [this] at hp
  | case6 lo hi last hnle =>
    intro hH hlo hlast hA hB
    have : lo = hi + 1 := by omega
    subst this
    simp at hlast
    subst hlast
    refine ⟨some hi, rfl, hH, hA hi (by omega), hB⟩

theorem bs_sound (probe : Nat → Probe) : ∀ lo hi last k,
    binarySearch probe lo hi last = .ok (some k) →
    last = some k ∨ (lo ≤ k ∧ k ≤ hi ∧ probe k = .same) := by
  intro lo hi last
  fun_induction binarySearch probe lo hi last with
  | case1 lo hi last hle hp => intro k h; simp at h
  | case2 lo hi last hle hp => intro k h; simp at h
  | case3 lo hi last hle hp ih =>
    intro k h
    rcases ih k h with h1 | ⟨h1, h2, h3⟩
    · simp at h1; subst h1; exact Or.inr ⟨by omega, by omega, hp⟩
    · exact Or.inr ⟨by omega, h2, h3⟩
  | case4 lo hi last hle hp h0 => intro k h; simp at h; exact Or.inl h
  | case5 lo hi last hle hp h0 ih =>
    intro k h
    rcases ih k h with h1 | ⟨h1, h2, h3⟩
    · exact Or.inl h1
    · exact Or.inr ⟨h1, by omega, h3⟩
  | case6 lo hi last hnle => intro k h; simp at h; exact Or.inl h

/-- An error result means an error answer was met inside the window. -/
theorem bs_err (probe : Nat → Probe) : ∀ lo hi last,
    (binarySearch probe lo hi last = .remoteErr → ∃ i, lo ≤ i ∧ i ≤ hi ∧ probe i = .remoteErr) ∧
    (binarySearch probe lo hi last = .localErr → ∃ i, lo ≤ i ∧ i ≤ hi ∧ probe i = .localErr) := by
  intro lo hi last
  fun_induction binarySearch probe lo hi last with
  | case1 lo hi last hle hp => exact ⟨by simp, fun _ => ⟨_, by omega, by omega, hp⟩⟩
  | case2 lo hi last hle hp => exact ⟨fun _ => ⟨_, by omega, by omega, hp⟩, by simp⟩
  | case3 lo hi last hle hp ih =>
    constructor
    · intro h; obtain ⟨i, h1, h2, h3⟩ := ih.1 h; exact ⟨i, by omega, h2, h3⟩
    · intro h; obtain ⟨i, h1, h2, h3⟩ := ih.2 h; exact ⟨i, by omega, h2, h3⟩
  | case4 lo hi last hle hp h0 => simp
  | case5 lo hi last hle hp h0 ih =>
    constructor
    · intro h; obtain ⟨i, h1, h2, h3⟩ := ih.1 h; exact ⟨i, h1, by omega, h3⟩
    · intro h; obtain ⟨i, h1, h2, h3⟩ := ih.2 h; exact ⟨i, h1, by omega, h3⟩
  | case6 lo hi last hnle => simp

section
variable (Ann : Nat → Nat → Prop)

def HashesOK (st : Nat) (hs : List Nat) : Prop := ∀ i h, hs[i]? = some h → Ann (st + i) h
def TaskOK (t : Task) : Prop := HashesOK Ann t.startNo t.hashes
def ConnOK (c : ConnTask) : Prop :=
  c.blocks ≠ [] ∧ ∀ i b, c.blocks[i]? = some b → b.no = c.firstNo + i ∧ Ann b.no b.hash

def EvOK : Ev → Prop
  | .hashSet st hs => HashesOK Ann st hs
  | .chunk _ _ blocks => ∀ b, b ∈ blocks → ∀ n, Ann n b.hash → b.no = n
  | _ => True

structure FInv (s : St) : Prop where
  run : ∀ t, t ∈ s.running → TaskOK Ann t
  pend : ∀ t, t ∈ s.pending → TaskOK Ann t
  retry : ∀ t, t ∈ s.retryQ → TaskOK Ann t
  hfq : ∀ p, p ∈ s.hfq → HashesOK Ann p.1 p.2

def nextNo (s : St) : Nat :=
  match s.curBlock with
  | some b => b.no + 1
  | none => s.prev.no + 1

structure PInv (s : St) : Prop where
  connq : ∀ c, c ∈ s.connQ → ConnOK Ann c ∧ c.cur = 0
  cur : ∀ c, s.curConn = some c → ConnOK Ann c ∧
          (match s.curBlock with
           | some b => c.blocks[c.cur]? = some b
           | none => ∃ b, c.blocks[c.cur]? = some b ∧ b.no = s.prev.no)

theorem mem_pushRetry (q : List Task) (x t : Task) : t ∈ pushRetry q x ↔ t = x ∨ t ∈ q := by
  induction q with
  | nil => simp [pushRetry]
  | cons c r ih =>
    simp only [pushRetry]
    split
    · simp
    · simp [ih]; constructor <;> (intro h; rcases h with h | h | h <;> simp [h])

theorem mem_pushConn (q : List ConnTask) (x t : ConnTask) : t ∈ pushConn q x ↔ t = x ∨ t ∈ q := by
  induction q with
  | nil => simp [pushConn]
  | cons c r ih =>
    simp only [pushConn]
    split
    · simp
    · simp [ih]; constructor <;> (intro h; rcases h with h | h | h <;> simp [h])

theorem findTask_spec (p : Task → Bool) : ∀ (l : List Task) t r, findTask p l = some (t, r) →
    t ∈ l ∧ p t = true ∧ (∀ x, x ∈ r → x ∈ l) := by
  intro l
  induction l with
  | nil => intro t r h; simp [findTask] at h
  | cons a l ih =>
    intro t r h
    simp only [findTask] at h
    split at h
    · simp at h; obtain ⟨rfl, rfl⟩ := h; simp_all
    · split at h
      · simp at h
      · rename_i x r' heq
        simp at h; obtain ⟨rfl, rfl⟩ := h
        obtain ⟨h1, h2, h3⟩ := ih _ _ heq
        refine ⟨by simp [h1], h2, ?_⟩
        intro y hy
        simp at hy
        rcases hy with rfl | hy
        · simp
        · simp [h3 y hy]


/-- The processor's fields are untouched. -/
def ProcEq (s s' : St) : Prop :=
  s'.connQ = s.connQ ∧ s'.curConn = s.curConn ∧ s'.prev = s.prev ∧ s'.curBlock = s.curBlock

theorem ProcEq.refl (s : St) : ProcEq s s := ⟨rfl, rfl, rfl, rfl⟩
theorem ProcEq.trans {a b c : St} (h1 : ProcEq a b) (h2 : ProcEq b c) : ProcEq a c := by
  obtain ⟨a1, a2, a3, a4⟩ := h1; obtain ⟨b1, b2, b3, b4⟩ := h2
  exact ⟨b1.trans a1, b2.trans a2, b3.trans a3, b4.trans a4⟩

theorem PInv.of_procEq {s s' : St} (h : ProcEq s s') (hp : PInv Ann s) : PInv Ann s' := by
  obtain ⟨h1, h2, h3, h4⟩ := h
  constructor
  · rw [h1]; exact hp.connq
  · rw [h2, h4, h3]; exact hp.cur

theorem nextNo_of_procEq {s s' : St} (h : ProcEq s s') : nextNo s' = nextNo s := by
  obtain ⟨h1, h2, h3, h4⟩ := h
  simp [nextNo, h3, h4]

@[simp] theorem failPeer_running (s : St) (p : Peer) : (failPeer s p).running = s.running := by
  unfold failPeer; split <;> rfl
@[simp] theorem failPeer_pending (s : St) (p : Peer) : (failPeer s p).pending = s.pending := by
  unfold failPeer; split <;> rfl
@[simp] theorem failPeer_retryQ (s : St) (p : Peer) : (failPeer s p).retryQ = s.retryQ := by
  unfold failPeer; split <;> rfl
@[simp] theorem failPeer_hfq (s : St) (p : Peer) : (failPeer s p).hfq = s.hfq := by
  unfold failPeer; split <;> rfl
@[simp] theorem failPeer_connQ (s : St) (p : Peer) : (failPeer s p).connQ = s.connQ := by
  unfold failPeer; split <;> rfl
@[simp] theorem failPeer_curConn (s : St) (p : Peer) : (failPeer s p).curConn = s.curConn := by
  unfold failPeer; split <;> rfl
@[simp] theorem failPeer_prev (s : St) (p : Peer) : (failPeer s p).prev = s.prev := by
  unfold failPeer; split <;> rfl
@[simp] theorem failPeer_curBlock (s : St) (p : Peer) : (failPeer s p).curBlock = s.curBlock := by
  unfold failPeer; split <;> rfl

theorem failTask_inv {s s' : St} {t : Task} (hf : FInv Ann s) (ht : TaskOK Ann t)
    (h : failTask s t = .ok s') : FInv Ann s' ∧ ProcEq s s' := by
  unfold failTask at h
  split at h
  · simp at h
  · rename_i p hp
    simp only at h
    split at h
    · simp at h
    · simp only [Except.ok.injEq] at h
      subst h
      refine ⟨⟨by simpa using hf.run, by simpa using hf.pend, ?_, by simpa using hf.hfq⟩, ?_⟩
      · intro x hx
        simp [mem_pushRetry] at hx
        rcases hx with rfl | hx
        · exact ht
        · exact hf.retry x hx
      · simp [ProcEq]

theorem failTask_ok_spec {s s' : St} {t : Task} (h : failTask s t = .ok s') :
    s'.running = s.running ∧ s'.pending = s.pending ∧ s'.hfq = s.hfq ∧
    s'.retryQ = pushRetry s.retryQ { t with retry := t.retry + 1, peer := none } := by
  unfold failTask at h
  split at h
  · simp at h
  · simp only at h
    split at h
    · simp at h
    · simp only [Except.ok.injEq] at h
      subst h
      simp

theorem failTask_error_spec {s : St} {t : Task} {e : Err} (h : failTask s t = .error e) :
    (t.peer = none ∧ e = .panic) ∨ e = .allPeerBad := by
  unfold failTask at h
  split at h
  · rename_i hp; simp at h; exact Or.inl ⟨hp, h.symm⟩
  · simp only at h
    split at h
    · simp at h; exact Or.inr h.symm
    · simp at h

theorem findTask_length (p : Task → Bool) : ∀ (l : List Task) t r, findTask p l = some (t, r) →
    r.length + 1 = l.length := by
  intro l
  induction l with
  | nil => intro t r h; simp [findTask] at h
  | cons a l ih =>
    intro t r h
    simp only [findTask] at h
    split at h
    · simp at h; obtain ⟨_, rfl⟩ := h; simp
    · split at h
      · simp at h
      · rename_i x r' heq
        simp at h; obtain ⟨_, rfl⟩ := h
        have := ih _ _ heq
        simp; omega

theorem cutTasks_ok (size : Nat) : ∀ fuel st hs, HashesOK Ann st hs →
    ∀ t, t ∈ cutTasks size fuel st hs → TaskOK Ann t := by
  intro fuel
  induction fuel with
  | zero => intro st hs _ t ht; simp [cutTasks] at ht
  | succ n ih =>
    intro st hs hok t ht
    simp only [cutTasks] at ht
    split at ht
    · simp at ht
    · simp at ht
      rcases ht with rfl | ht
      · intro i h hi
        simp [List.getElem?_take] at hi
        exact hok i h hi.2
      · apply ih _ _ _ t ht
        intro i h hi
        simp at hi
        have := hok _ h hi
        rw [show st + (if size = 0 then hs.length else min size hs.length) + i =
              st + ((if size = 0 then hs.length else min size hs.length) + i) by omega]
        exact this


theorem searchCandidate_inv {s : St} (hf : FInv Ann s) :
    FInv Ann (searchCandidate s).1 ∧ ProcEq s (searchCandidate s).1 ∧
    (∀ t, (searchCandidate s).2 = some t → TaskOK Ann t) := by
  unfold searchCandidate
  split
  · rename_i t r heq
    refine ⟨hf, ProcEq.refl s, ?_⟩
    intro t' ht'
    simp at ht'
    subst ht'
    exact hf.retry t (by simp [heq])
  · split
    · rename_i t r heq
      refine ⟨hf, ProcEq.refl s, ?_⟩
      intro t' ht'
      simp at ht'
      subst ht'
      exact hf.pend t (by simp [heq])
    · split
      · exact ⟨hf, ProcEq.refl s, by simp⟩
      · rename_i hr hp st hs q heq
        have hok : HashesOK Ann st hs := hf.hfq (st, hs) (by simp [heq])
        have hcut := cutTasks_ok Ann s.cfg.maxFetchSize hs.length st hs hok
        refine ⟨⟨hf.run, ?_, hf.retry, ?_⟩, ⟨rfl, rfl, rfl, rfl⟩, ?_⟩
        · intro t ht; exact hcut t ht
        · intro p hp'; exact hf.hfq p (by simp [heq, hp'])
        · intro t ht
          simp at ht
          exact hcut t (List.mem_of_mem_head? ht)

theorem scheduleLoop_inv : ∀ fuel (s s' : St) outs, FInv Ann s → scheduleLoop fuel s = .ok (s', outs) →
    FInv Ann s' ∧ ProcEq s s' ∧ delivered outs = [] := by
  intro fuel
  induction fuel with
  | zero =>
    intro s s' outs hf h
    simp [scheduleLoop] at h
    obtain ⟨rfl, rfl⟩ := h
    exact ⟨hf, ProcEq.refl _, rfl⟩
  | succ n ih =>
    intro s s' outs hf h
    simp only [scheduleLoop] at h
    split at h
    · simp at h; obtain ⟨rfl, rfl⟩ := h; exact ⟨hf, ProcEq.refl _, rfl⟩
    · rename_i p free' hfree
      split at h
      · simp at h; obtain ⟨rfl, rfl⟩ := h; exact ⟨hf, ProcEq.refl _, rfl⟩
      · obtain ⟨hf1, hp1, hc1⟩ := searchCandidate_inv Ann hf
        generalize hsc : searchCandidate s = sc at h hf1 hp1 hc1
        obtain ⟨s1, cand⟩ := sc
        simp only at h hf1 hp1 hc1
        split at h
        · simp at h; obtain ⟨rfl, rfl⟩ := h; exact ⟨hf1, hp1, rfl⟩
        · rename_i t
          have ht := hc1 t rfl
          split at h
          · simp at h; obtain ⟨rfl, rfl⟩ := h; exact ⟨hf1, hp1, rfl⟩
          · split at h
            · simp at h
            · split at h
              · simp at h
              · rename_i s2 outs2 heq
                simp at h
                obtain ⟨rfl, rfl⟩ := h
                have hf2 : FInv Ann ({ (if t.retry > 0 then { s1 with retryQ := s1.retryQ.tail } else { s1 with pending := s1.pending.tail }) with
                    free := free', running := (if t.retry > 0 then { s1 with retryQ := s1.retryQ.tail } else { s1 with pending := s1.pending.tail }).running ++ [{ t with peer := some p, age := 0 }] }) := by
                  split
                  · refine ⟨?_, hf1.pend, ?_, hf1.hfq⟩
                    · intro x hx; simp at hx
                      rcases hx with hx | rfl
                      · exact hf1.run x hx
                      · exact ht
                    · intro x hx; exact hf1.retry x (List.mem_of_mem_tail hx)
                  · refine ⟨?_, ?_, hf1.retry, hf1.hfq⟩
                    · intro x hx; simp at hx
                      rcases hx with hx | rfl
                      · exact hf1.run x hx
                      · exact ht
                    · intro x hx; exact hf1.pend x (List.mem_of_mem_tail hx)
                obtain ⟨hf3, hp3, hd3⟩ := ih _ _ _ hf2 heq
                refine ⟨hf3, ?_, by simpa [delivered] using hd3⟩
                refine ProcEq.trans hp1 (ProcEq.trans ?_ hp3)
                split <;> exact ⟨rfl, rfl, rfl, rfl⟩


theorem timeoutWalk_inv : ∀ (l : List Task) (s s' : St) (keep : List Task), FInv Ann s →
    (∀ t, t ∈ l → TaskOK Ann t) → (∀ t, t ∈ keep → TaskOK Ann t) →
    timeoutWalk s l keep = .ok s' → FInv Ann s' ∧ ProcEq s s' := by
  intro l
  induction l with
  | nil =>
    intro s s' keep hf _ hk h
    simp [timeoutWalk] at h
    subst h
    exact ⟨⟨by intro t ht; exact hk t (by simpa using ht), hf.pend, hf.retry, hf.hfq⟩, ⟨rfl, rfl, rfl, rfl⟩⟩
  | cons t r ih =>
    intro s s' keep hf hl hk h
    simp only [timeoutWalk] at h
    split at h
    · split at h
      · simp at h
      · rename_i s1 heq
        obtain ⟨hf1, hp1⟩ := failTask_inv Ann hf (hl t (by simp)) heq
        obtain ⟨hf2, hp2⟩ := ih s1 s' keep hf1 (fun x hx => hl x (by simp [hx])) hk h
        exact ⟨hf2, ProcEq.trans hp1 hp2⟩
    · apply ih s s' (t :: keep) hf (fun x hx => hl x (by simp [hx])) ?_ h
      intro x hx
      simp at hx
      rcases hx with rfl | hx
      · exact hl _ (by simp)
      · exact hk x hx

theorem tick_inv {s s' : St} {d : Nat} (hf : FInv Ann s) (h : tick s d = .ok s') :
    FInv Ann s' ∧ ProcEq s s' := by
  unfold tick at h
  have hrun : ∀ t, t ∈ s.running.map (fun t => { t with age := t.age + d }) → TaskOK Ann t := by
    intro t ht
    simp at ht
    obtain ⟨t0, h0, rfl⟩ := ht
    exact hf.run t0 h0
  have hf0 : FInv Ann { s with running := s.running.map fun t => { t with age := t.age + d } } :=
    ⟨hrun, hf.pend, hf.retry, hf.hfq⟩
  obtain ⟨h1, h2⟩ := timeoutWalk_inv Ann _ _ _ [] hf0 hrun (by simp) h
  exact ⟨h1, ProcEq.trans ⟨rfl, rfl, rfl, rfl⟩ h2⟩

/-- What one processor step hands to the chain service: nothing, or exactly the block of the next height. -/
def DeliversNext (s s' : St) (outs : List Out) : Prop :=
  (delivered outs = [] ∧ nextNo s' = nextNo s) ∨
  (∃ b, delivered outs = [b] ∧ b.no = nextNo s ∧ Ann b.no b.hash ∧ nextNo s' = nextNo s + 1)

theorem pickConn_spec {s s1 : St} {c : ConnTask} (hp : PInv Ann s) (hcb : s.curBlock = none)
    (h : pickConn s = some (s1, c)) :
    ConnOK Ann c ∧ (∃ b, c.blocks[c.cur]? = some b ∧ b.no = s.prev.no + 1) ∧
    (∀ c', c' ∈ s1.connQ → ConnOK Ann c' ∧ c'.cur = 0) ∧ s1.curConn = some c ∧ s1.prev = s.prev ∧
    s1.running = s.running ∧ s1.pending = s.pending ∧ s1.retryQ = s.retryQ ∧ s1.hfq = s.hfq := by
  unfold pickConn at h
  split at h
  · rename_i c1 hadv
    simp at h
    obtain ⟨rfl, rfl⟩ := h
    -- the current request has a block left
    unfold advanceCur at hadv
    split at hadv
    · simp at hadv
    · rename_i c0 hc0
      split at hadv
      · simp at hadv
      · rename_i hlt
        simp at hadv
        subst hadv
        obtain ⟨hok, hcur⟩ := hp.cur c0 hc0
        rw [hcb] at hcur
        obtain ⟨b0, hb0, hno⟩ := hcur
        have hlen : c0.cur + 1 < c0.blocks.length := by omega
        refine ⟨⟨hok.1, hok.2⟩, ?_, hp.connq, rfl, rfl, rfl, rfl, rfl, rfl⟩
        refine ⟨c0.blocks[c0.cur + 1], by simp [hlen], ?_⟩
        have h1 := (hok.2 (c0.cur + 1) c0.blocks[c0.cur + 1] (by simp [hlen])).1
        have h0 := (hok.2 c0.cur b0 hb0).1
        omega
  · split at h
    · simp at h
    · rename_i c1 q hpop
      simp at h
      obtain ⟨rfl, rfl⟩ := h
      unfold popConn at hpop
      split at hpop
      · simp at hpop
      · rename_i c0 r hq
        split at hpop
        · simp at hpop
        · rename_i hfirst
          simp at hpop
          obtain ⟨rfl, rfl⟩ := hpop
          obtain ⟨hok, hcur0⟩ := hp.connq c0 (by simp [hq])
          refine ⟨hok, ?_, ?_, rfl, rfl, rfl, rfl, rfl, rfl⟩
          · have hne := hok.1
            cases hbl : c0.blocks with
            | nil => exact absurd hbl hne
            | cons b0 rest =>
              refine ⟨b0, by simp [hcur0], ?_⟩
              have := (hok.2 0 b0 (by simp [hbl])).1
              simp at hfirst
              omega
          · intro c' hc'
            exact hp.connq c' (by simp [hq, hc'])


/-- The fetcher's queues are untouched. -/
def FetchEq (s s' : St) : Prop :=
  s'.running = s.running ∧ s'.pending = s.pending ∧ s'.retryQ = s.retryQ ∧ s'.hfq = s.hfq

theorem FInv.of_fetchEq {s s' : St} (h : FetchEq s s') (hf : FInv Ann s) : FInv Ann s' := by
  obtain ⟨h1, h2, h3, h4⟩ := h
  exact ⟨by rw [h1]; exact hf.run, by rw [h2]; exact hf.pend, by rw [h3]; exact hf.retry, by rw [h4]; exact hf.hfq⟩

theorem connectNext_inv {s s' : St} {outs : List Out} (hp : PInv Ann s)
    (h : connectNext s = .ok (s', outs)) :
    PInv Ann s' ∧ DeliversNext Ann s s' outs ∧ FetchEq s s' := by
  unfold connectNext at h
  split at h
  · simp at h; obtain ⟨rfl, rfl⟩ := h
    exact ⟨hp, Or.inl ⟨rfl, rfl⟩, rfl, rfl, rfl, rfl⟩
  · rename_i hcb
    have hcb' : s.curBlock = none := by simpa using hcb
    split at h
    · simp at h; obtain ⟨rfl, rfl⟩ := h
      refine ⟨⟨hp.connq, by simp⟩, Or.inl ⟨rfl, ?_⟩, rfl, rfl, rfl, rfl⟩
      simp [nextNo]
    · rename_i s1 c hpick
      obtain ⟨hok, ⟨b, hb, hbno⟩, hq, hcur, hprev, hfe⟩ := pickConn_spec Ann hp hcb' hpick
      split at h
      · simp at h
      · rename_i b' hb'
        simp at h; obtain ⟨rfl, rfl⟩ := h
        rw [hb] at hb'
        simp at hb'
        subst hb'
        refine ⟨⟨hq, ?_⟩, Or.inr ⟨b, rfl, ?_, ?_, ?_⟩, hfe⟩
        · intro c' hc'
          simp only at hc'
          rw [hcur] at hc'
          simp at hc'
          subst hc'
          exact ⟨hok, hb⟩
        · simp [nextNo, hcb', hbno]
        · exact (hok.2 _ b hb).2
        · simp [nextNo, hcb', hbno]

theorem isMatched_spec {t : Task} {peer : Nat} {blocks : List Blk} (h : isMatched t peer blocks = true) :
    t.hashes = blocks.map (·.hash) ∧ t.peer.map (·.no) = some peer := by
  unfold isMatched at h
  simp only [Bool.and_eq_true, beq_iff_eq] at h
  exact ⟨h.2, h.1.2⟩

theorem freePeer_procEq (s : St) (p : Option Peer) : ProcEq s (freePeer s p) := by
  cases p <;> exact ⟨rfl, rfl, rfl, rfl⟩
theorem freePeer_fetchEq (s : St) (p : Option Peer) : FetchEq s (freePeer s p) := by
  cases p <;> exact ⟨rfl, rfl, rfl, rfl⟩

theorem chunkRsp_inv {s s' : St} {peer : Nat} {err : Bool} {blocks : List Blk} {outs : List Out}
    (hf : FInv Ann s) (hp : PInv Ann s)
    (hev : ∀ b, b ∈ blocks → ∀ n, Ann n b.hash → b.no = n)
    (h : chunkRsp s peer err blocks = .ok (s', outs)) :
    FInv Ann s' ∧ PInv Ann s' ∧ DeliversNext Ann s s' outs := by
  unfold chunkRsp at h
  split at h
  · rename_i hvalid
    split at h
    · simp at h; obtain ⟨rfl, rfl⟩ := h
      exact ⟨hf, hp, Or.inl ⟨rfl, rfl⟩⟩
    · rename_i t run hfind
      obtain ⟨htmem, hmatch, hsub⟩ := findTask_spec _ _ _ _ hfind
      obtain ⟨hhashes, _⟩ := isMatched_spec hmatch
      have htok := hf.run t htmem
      -- the chunk: nonempty, heights consecutive from the task's start, ids announced
      have hne : blocks ≠ [] := by
        intro hnil; subst hnil; simp [validChunk] at hvalid
      have hblk : ∀ i b, blocks[i]? = some b → b.no = t.startNo + i ∧ Ann b.no b.hash := by
        intro i b hib
        have hh : t.hashes[i]? = some b.hash := by rw [hhashes]; simp [hib]
        have hann := htok i b.hash hh
        have hno := hev b (List.mem_of_getElem? hib) _ hann
        exact ⟨hno, by rw [hno]; exact hann⟩
      have hfirst : (blocks.head?.map (·.no)).getD 0 = t.startNo := by
        cases hbl : blocks with
        | nil => exact absurd hbl hne
        | cons b0 r =>
          have := (hblk 0 b0 (by simp [hbl])).1
          simp [this]
      simp only at h
      generalize hs0 : freePeer { s with running := run } t.peer = s0 at h
      have hpe0 : ProcEq s s0 := by
        rw [← hs0]; exact ProcEq.trans ⟨rfl, rfl, rfl, rfl⟩ (freePeer_procEq _ _)
      have hfe0 : FetchEq { s with running := run } s0 := by rw [← hs0]; exact freePeer_fetchEq _ _
      have hf0 : FInv Ann s0 :=
        FInv.of_fetchEq Ann hfe0 ⟨fun x hx => hf.run x (hsub x hx), hf.pend, hf.retry, hf.hfq⟩
      have hp0 : PInv Ann s0 := PInv.of_procEq Ann hpe0 hp
      have hp1 : PInv Ann { s0 with connQ := pushConn s0.connQ ⟨blocks, (blocks.head?.map (·.no)).getD 0, 0⟩ } := by
        constructor
        · intro c hc
          simp only [mem_pushConn] at hc
          rcases hc with rfl | hc
          · refine ⟨⟨hne, ?_⟩, rfl⟩
            intro i b hib
            simp only at hib ⊢
            rw [hfirst]
            exact hblk i b hib
          · exact hp0.connq c hc
        · exact hp0.cur
      have hf1 : FInv Ann { s0 with connQ := pushConn s0.connQ ⟨blocks, (blocks.head?.map (·.no)).getD 0, 0⟩ } :=
        ⟨hf0.run, hf0.pend, hf0.retry, hf0.hfq⟩
      obtain ⟨hp2, hd2, hfe2⟩ := connectNext_inv Ann hp1 h
      refine ⟨FInv.of_fetchEq Ann hfe2 hf1, hp2, ?_⟩
      have hn : nextNo { s0 with connQ := pushConn s0.connQ ⟨blocks, (blocks.head?.map (·.no)).getD 0, 0⟩ } = nextNo s := by
        rw [← nextNo_of_procEq hpe0]; rfl
      unfold DeliversNext at hd2 ⊢
      rw [hn] at hd2
      exact hd2
  · split at h
    · simp at h; obtain ⟨rfl, rfl⟩ := h
      exact ⟨hf, hp, Or.inl ⟨rfl, rfl⟩⟩
    · rename_i t run hfind
      obtain ⟨htmem, _, hsub⟩ := findTask_spec _ _ _ _ hfind
      split at h
      · simp at h
      · rename_i s1 hft
        simp at h; obtain ⟨rfl, rfl⟩ := h
        have hf0 : FInv Ann { s with running := run } :=
          ⟨fun x hx => hf.run x (hsub x hx), hf.pend, hf.retry, hf.hfq⟩
        obtain ⟨hf1, hpe⟩ := failTask_inv Ann hf0 (hf.run t htmem) hft
        have hpe' : ProcEq s s1 := ProcEq.trans ⟨rfl, rfl, rfl, rfl⟩ hpe
        exact ⟨hf1, PInv.of_procEq Ann hpe' hp, Or.inl ⟨rfl, nextNo_of_procEq hpe'⟩⟩


theorem delivered_append (a b : List Out) : delivered (a ++ b) = delivered a ++ delivered b := by
  induction a with
  | nil => rfl
  | cons x r ih => cases x <;> simp [delivered, ih]

theorem addRsp_inv {s s' : St} {no hash : Nat} {err nilHash : Bool} {outs : List Out}
    (hf : FInv Ann s) (hp : PInv Ann s)
    (h : addRsp s no hash err nilHash = .ok (s', outs)) :
    FInv Ann s' ∧ PInv Ann s' ∧ DeliversNext Ann s s' outs := by
  unfold addRsp at h
  split at h
  · simp at h
  · split at h
    · simp at h
    · split at h
      · simp at h
      · rename_i cb hcb
        split at h
        · simp at h
        · split at h
          · simp at h
          · rename_i s1 outs1 hcn
            simp at h; obtain ⟨rfl, rfl⟩ := h
            have hp0 : PInv Ann { s with prev := cb, curBlock := none } := by
              constructor
              · exact hp.connq
              · intro c hc
                have := hp.cur c hc
                rw [hcb] at this
                exact ⟨this.1, cb, this.2, rfl⟩
            obtain ⟨hp1, hd1, hfe1⟩ := connectNext_inv Ann hp0 hcn
            refine ⟨FInv.of_fetchEq Ann hfe1 ⟨hf.run, hf.pend, hf.retry, hf.hfq⟩, hp1, ?_⟩
            have hn : nextNo { s with prev := cb, curBlock := none } = nextNo s := by
              simp [nextNo, hcb]
            have hdel : delivered (stopOuts s cb ++ outs1) = delivered outs1 := by
              rw [delivered_append]; unfold stopOuts; split <;> simp [delivered]
            unfold DeliversNext at hd1 ⊢
            rw [hn] at hd1
            rw [hdel]
            exact hd1

/-- One step keeps the invariants and hands over nothing or exactly the block of the next height. -/
theorem step_inv {s : St} {e : Ev} (hf : FInv Ann s) (hp : PInv Ann s) (hev : EvOK Ann e) :
    FInv Ann (step s e).1 ∧ PInv Ann (step s e).1 ∧ DeliversNext Ann s (step s e).1 (step s e).2 := by
  unfold step
  split
  · exact ⟨hf, hp, Or.inl ⟨rfl, rfl⟩⟩
  · have key : ∀ r : Except Err (St × List Out),
        (∀ s' outs, r = .ok (s', outs) → FInv Ann s' ∧ PInv Ann s' ∧ DeliversNext Ann s s' outs) →
        FInv Ann (match r with | .ok x => x | .error e => ({ s with halted := true }, [Out.stop (some e)])).1 ∧
        PInv Ann (match r with | .ok x => x | .error e => ({ s with halted := true }, [Out.stop (some e)])).1 ∧
        DeliversNext Ann s (match r with | .ok x => x | .error e => ({ s with halted := true }, [Out.stop (some e)])).1
          (match r with | .ok x => x | .error e => ({ s with halted := true }, [Out.stop (some e)])).2 := by
      intro r hr
      cases r with
      | error e =>
        exact ⟨⟨hf.run, hf.pend, hf.retry, hf.hfq⟩, ⟨hp.connq, hp.cur⟩, Or.inl ⟨rfl, rfl⟩⟩
      | ok x => obtain ⟨s', outs⟩ := x; exact hr s' outs rfl
    apply key
    intro s' outs hr
    cases e with
    | hashSet st hs =>
      simp at hr; obtain ⟨rfl, rfl⟩ := hr
      refine ⟨⟨hf.run, hf.pend, hf.retry, ?_⟩, ⟨hp.connq, hp.cur⟩, Or.inl ⟨rfl, rfl⟩⟩
      intro p hp'
      simp at hp'
      rcases hp' with hp' | rfl
      · exact hf.hfq p hp'
      · exact hev
    | sched =>
      simp only [schedule] at hr
      obtain ⟨h1, h2, h3⟩ := scheduleLoop_inv Ann _ _ _ _ hf hr
      exact ⟨h1, PInv.of_procEq Ann h2 hp, Or.inl ⟨h3, nextNo_of_procEq h2⟩⟩
    | tick d =>
      simp only at hr
      cases ht : tick s d with
      | error e => simp [ht, Except.map] at hr
      | ok s1 =>
        simp [ht, Except.map] at hr
        obtain ⟨rfl, rfl⟩ := hr
        obtain ⟨h1, h2⟩ := tick_inv Ann hf ht
        exact ⟨h1, PInv.of_procEq Ann h2 hp, Or.inl ⟨rfl, nextNo_of_procEq h2⟩⟩
    | chunk peer err blocks => exact chunkRsp_inv Ann hf hp hev hr
    | addRsp no hash err nilHash => exact addRsp_inv Ann hf hp hr

/-- All events of a list respect the announcement relation. -/
def EvsOK (es : List Ev) : Prop := ∀ e, e ∈ es → EvOK Ann e

/-- **Delivery order over a whole session.** -/
theorem run_delivers {es : List Ev} : ∀ {s : St}, FInv Ann s → PInv Ann s → EvsOK Ann es →
    ∀ k b, (delivered (run s es).2)[k]? = some b → b.no = nextNo s + k ∧ Ann b.no b.hash := by
  induction es with
  | nil => intro s _ _ _ k b h; simp [run, delivered] at h
  | cons e es ih =>
    intro s hf hp hev k b h
    obtain ⟨hf1, hp1, hd⟩ := step_inv Ann hf hp (hev e (by simp))
    have ih' := ih hf1 hp1 (fun x hx => hev x (by simp [hx]))
    simp only [run] at h
    rw [delivered_append] at h
    rcases hd with ⟨hd0, hn⟩ | ⟨b0, hd0, hb0, hann, hn⟩
    · rw [hd0] at h
      simp at h
      have := ih' k b h
      rw [hn] at this
      exact this
    · rw [hd0] at h
      cases k with
      | zero =>
        simp at h; subst h
        exact ⟨by simpa using hb0, hann⟩
      | succ k =>
        simp at h
        have := ih' k b h
        rw [hn] at this
        exact ⟨by omega, this.2⟩

theorem init_inv (cfg : Cfg) (anc : Blk) (target npeers : Nat) :
    FInv Ann (St.init cfg anc target npeers) ∧ PInv Ann (St.init cfg anc target npeers) := by
  constructor
  · constructor <;> simp [St.init]
  · constructor <;> simp [St.init]

end
/-! ## P2P chunk receiver -/

def RInv (r : Recv) : Prop := r.got.map (·.hash) = r.want.take r.got.length

theorem recvAdd_inv (want : List Nat) (big : Blk → Bool) : ∀ (blocks got : List Blk),
    got.map (·.hash) = want.take got.length →
    (recvAdd want big got blocks).1.map (·.hash) = want.take (recvAdd want big got blocks).1.length := by
  intro blocks
  induction blocks with
  | nil => intro got h; simpa [recvAdd] using h
  | cons b r ih =>
    intro got h
    simp only [recvAdd]
    split
    · exact h
    · rename_i hw hget
      split
      · exact h
      · rename_i hne
        split
        · exact h
        · apply ih
          have hb : hw = b.hash := by simpa using hne
          have hlt : got.length < want.length := by
            have := List.getElem?_eq_some_iff.mp hget
            exact this.1
          simp [h, List.take_add_one, hget, hb]

theorem receive_inv (r : Recv) (big : Blk → Bool) (p : Part) (h : RInv r) : RInv (r.receive big p).1 := by
  unfold Recv.receive
  split
  · exact h
  · exact h
  · split
    · exact h
    · split
      · exact h
      · split
        · exact h
        · have := recvAdd_inv r.want big p.blocks r.got h
          split
          · rename_i got e heq
            rw [heq] at this
            exact this
          · rename_i got heq
            rw [heq] at this
            split
            · exact this
            · split <;> exact this

theorem receive_rsp (r : Recv) (big : Blk → Bool) (p : Part) (h : RInv r) (blocks : List Blk)
    (ho : (r.receive big p).2 = .rsp blocks) : blocks.map (·.hash) = r.want := by
  unfold Recv.receive at ho
  split at ho
  · simp at ho
  · simp at ho
  · split at ho
    · simp at ho
    · split at ho
      · simp at ho
      · split at ho
        · simp at ho
        · have hinv := recvAdd_inv r.want big p.blocks r.got h
          split at ho
          · simp at ho
          · rename_i got heq
            rw [heq] at hinv
            simp only at hinv
            split at ho
            · simp at ho
            · split at ho
              · simp at ho
              · simp at ho
                subst ho
                rw [hinv]
                apply List.take_of_length_le
                omega

theorem receive_want (r : Recv) (big : Blk → Bool) (p : Part) : (r.receive big p).1.want = r.want := by
  unfold Recv.receive
  repeat' split
  all_goals rfl

theorem receive_not_waiting (r : Recv) (big : Blk → Bool) (p : Part) (h : r.status ≠ .waiting) :
    r.receive big p = (r, .nothing) := by
  unfold Recv.receive
  split
  · rfl
  · rfl
  · rename_i hw; exact absurd hw h

theorem receive_out_status (r : Recv) (big : Blk → Bool) (p : Part) :
    (r.receive big p).2 ≠ .nothing → (r.receive big p).1.status ≠ .waiting := by
  by_cases hw : r.status = .waiting
  · unfold Recv.receive
    simp only [hw]
    repeat' split
    all_goals simp
  · rw [receive_not_waiting r big p hw]; simp

/-- Number of messages sent to the syncer. -/
def answers : List RecvOut → Nat
  | [] => 0
  | .nothing :: r => answers r
  | _ :: r => answers r + 1

/-- Whatever parts arrive: every chunk the receiver hands to the syncer is exactly the requested
ids in order, and it answers at most once. -/
theorem feed_spec (big : Blk → Bool) : ∀ (parts : List Part) (r : Recv), RInv r →
    (∀ blocks, RecvOut.rsp blocks ∈ (Recv.feed big r parts).2 → blocks.map (·.hash) = r.want) ∧
    answers (Recv.feed big r parts).2 ≤ (if r.status = .waiting then 1 else 0) := by
  intro parts
  induction parts with
  | nil => intro r _; simp [Recv.feed, answers]
  | cons p ps ih =>
    intro r hr
    simp only [Recv.feed]
    have hinv := receive_inv r big p hr
    have hwant := receive_want r big p
    have hrsp := receive_rsp r big p hr
    have hst := receive_out_status r big p
    have hnw := receive_not_waiting r big p
    generalize r.receive big p = x at hinv hwant hrsp hst hnw
    obtain ⟨r1, o⟩ := x
    simp only at hinv hwant hrsp hst hnw
    obtain ⟨ih1, ih2⟩ := ih r1 hinv
    constructor
    · intro blocks hb
      simp at hb
      rcases hb with rfl | hb
      · exact hrsp blocks rfl
      · rw [← hwant]; exact ih1 blocks hb
    · by_cases hw : r.status = .waiting
      · simp only [hw, ↓reduceIte]
        by_cases ho : o = .nothing
        · subst ho
          simp only [answers]
          split at ih2 <;> omega
        · have := hst ho
          simp [this] at ih2
          cases o with
          | nothing => exact absurd rfl ho
          | rsp b => simp only [answers]; omega
          | rspErr e => simp only [answers]; omega
      · have := hnw hw
        simp at this
        obtain ⟨rfl, rfl⟩ := this
        simp [hw] at ih2 ⊢
        simpa [answers] using ih2

end Aergo.Sync
