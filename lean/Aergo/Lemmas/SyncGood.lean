/-
One good peer keeps a session alive (C17): if the chain service answers honestly and one peer `g`
never lets a task run over time and never sends a malformed chunk, then no step of the session
raises an error — in particular `ErrAllPeerBad` never fires, whatever the other peers do.

`GoodLive s g`: peer `g` is in the free list or holds a running task (it is never moved to the bad
list). Core Lean only.
-/
import Aergo.Lemmas.SyncLive

namespace Aergo.Sync

def GoodLiveL (free : List Peer) (running : List Task) (g : Nat) : Prop :=
  (∃ p, p ∈ free ∧ p.no = g) ∨ (∃ t, t ∈ running ∧ t.peer.map (·.no) = some g)

def GoodLive (s : St) (g : Nat) : Prop := GoodLiveL s.free s.running g

/-- What the good peer and the chain service guarantee about an event, given the state it meets. -/
def EvGood (g : Nat) (s : St) : Ev → Prop
  | .tick d => ∀ t, t ∈ s.running → t.peer.map (·.no) = some g → ¬ (t.age + d > s.cfg.timeout)
  | .chunk peer err blocks => peer = g → validChunk err blocks = true
  | .addRsp no hash err nh => ∃ cb, s.curBlock = some cb ∧ no = cb.no ∧ hash = cb.hash ∧ err = false ∧ nh = false
  | _ => True

theorem GoodLiveL_pos {free : List Peer} {running : List Task} {g : Nat} (h : GoodLiveL free running g) :
    1 ≤ free.length + running.length := by
  rcases h with ⟨p, hp, _⟩ | ⟨t, ht, _⟩
  · have := List.length_pos_of_mem hp; omega
  · have := List.length_pos_of_mem ht; omega

theorem failTask_good {s : St} {t : Task} {R : List Task} {g : Nat} {p : Peer}
    (hp : t.peer = some p) (_hpg : p.no ≠ g) (hg : GoodLiveL s.free R g)
    (hcnt : s.free.length + R.length + 1 + s.bad = s.total) :
    ∃ s1, failTask s t = .ok s1 ∧ GoodLiveL s1.free R g ∧ s1.free.length + R.length + s1.bad = s1.total ∧
      s1.cfg = s.cfg := by
  have hpos := GoodLiveL_pos hg
  unfold failTask
  rw [hp]
  simp only
  unfold failPeer
  split
  · simp only
    rw [if_neg (by omega)]
    refine ⟨_, rfl, hg, by simp only; omega, rfl⟩
  · simp only
    rw [if_neg (by omega)]
    refine ⟨_, rfl, ?_, by simp only [List.length_append, List.length_cons, List.length_nil]; omega, rfl⟩
    rcases hg with ⟨q, hq, hqg⟩ | h2
    · exact Or.inl ⟨q, by simp [hq], hqg⟩
    · exact Or.inr h2

theorem timeoutWalk_good {g : Nat} : ∀ (l : List Task) (s : St) (keep : List Task),
    GoodLiveL s.free (keep.reverse ++ l) g →
    s.free.length + (keep.reverse ++ l).length + s.bad = s.total →
    (∀ t, t ∈ l → t.peer ≠ none) →
    (∀ t, t ∈ l → t.peer.map (·.no) = some g → ¬ t.age > s.cfg.timeout) →
    ∃ s', timeoutWalk s l keep = .ok s' ∧ GoodLive s' g := by
  intro l
  induction l with
  | nil =>
    intro s keep hg _ _ _
    refine ⟨_, rfl, ?_⟩
    simpa [GoodLive] using hg
  | cons t r ih =>
    intro s keep hg hcnt hpeer hok
    simp only [timeoutWalk]
    split
    · rename_i hto
      cases hp : t.peer with
      | none => exact absurd hp (hpeer t (by simp))
      | some p =>
        have hpg : p.no ≠ g := by
          intro h
          exact hok t (by simp) (by simp [hp, h]) hto
        have hg' : GoodLiveL s.free (keep.reverse ++ r) g := by
          rcases hg with h1 | ⟨x, hx, hxg⟩
          · exact Or.inl h1
          · right
            simp at hx
            rcases hx with hx | rfl | hx
            · exact ⟨x, by simp [hx], hxg⟩
            · rw [hp] at hxg; simp at hxg; exact absurd hxg hpg
            · exact ⟨x, by simp [hx], hxg⟩
        obtain ⟨s1, h1, h2, h3, h4⟩ := failTask_good (s := s) (R := keep.reverse ++ r) hp hpg hg'
          (by simp at hcnt ⊢; omega)
        rw [h1]
        simp only
        exact ih s1 keep h2 h3 (fun x hx => hpeer x (by simp [hx]))
          (fun x hx => by rw [h4]; exact hok x (by simp [hx]))
    · exact ih s (t :: keep) (by simpa using hg) (by simpa using hcnt) (fun x hx => hpeer x (by simp [hx]))
        (fun x hx => hok x (by simp [hx]))

theorem tick_good {s : St} {d g : Nat} (hg : GoodLive s g)
    (hcnt : s.free.length + s.running.length + s.bad = s.total)
    (hpeer : ∀ t, t ∈ s.running → t.peer ≠ none)
    (hok : ∀ t, t ∈ s.running → t.peer.map (·.no) = some g → ¬ (t.age + d > s.cfg.timeout)) :
    ∃ s', tick s d = .ok s' ∧ GoodLive s' g := by
  unfold tick
  simp only
  apply timeoutWalk_good
  · simp only [List.reverse_nil, List.nil_append]
    rcases hg with h1 | ⟨t, ht, htg⟩
    · exact Or.inl h1
    · exact Or.inr ⟨{ t with age := t.age + d }, List.mem_map.mpr ⟨t, ht, rfl⟩, htg⟩
  · simpa using hcnt
  · intro t ht
    simp at ht
    obtain ⟨t0, h0, rfl⟩ := ht
    exact hpeer t0 h0
  · intro t ht htg
    simp at ht
    obtain ⟨t0, h0, rfl⟩ := ht
    exact hok t0 h0 htg

theorem searchCandidate_peers (s : St) :
    (searchCandidate s).1.free = s.free ∧ (searchCandidate s).1.running = s.running ∧
    (searchCandidate s).1.total = s.total ∧ (searchCandidate s).1.bad = s.bad := by
  unfold searchCandidate; repeat' split
  all_goals exact ⟨rfl, rfl, rfl, rfl⟩

theorem scheduleLoop_good {g : Nat} : ∀ fuel (s : St),
    s.free.length + s.running.length + s.bad = s.total → GoodLive s g →
    ∃ s' outs, scheduleLoop fuel s = .ok (s', outs) ∧ GoodLive s' g := by
  intro fuel
  induction fuel with
  | zero => intro s _ hg; exact ⟨s, [], rfl, hg⟩
  | succ k ih =>
    intro s hcnt hg
    simp only [scheduleLoop]
    split
    · exact ⟨s, [], rfl, hg⟩
    · rename_i p free' hfree
      split
      · exact ⟨s, [], rfl, hg⟩
      · obtain ⟨e1, e2, e3, e4⟩ := searchCandidate_peers s
        generalize searchCandidate s = sc at e1 e2 e3 e4
        obtain ⟨s1, cand⟩ := sc
        simp only at e1 e2 e3 e4 ⊢
        have hg1 : GoodLive s1 g := by unfold GoodLive; rw [e1, e2]; exact hg
        split
        · exact ⟨s1, [], rfl, hg1⟩
        · rename_i t
          split
          · exact ⟨s1, [], rfl, hg1⟩
          · have hfree1 : s1.free = p :: free' := by rw [e1]; exact hfree
            have hne : ¬ s1.total = s1.bad := by
              rw [e3, e4]; rw [hfree] at hcnt; simp at hcnt; omega
            rw [if_neg hne]
            have hcnt2 : ∀ (q : St), q.free = s1.free → q.running = s1.running → q.total = s1.total → q.bad = s1.bad →
                free'.length + (q.running ++ [{ t with peer := some p, age := 0 }]).length + q.bad = q.total := by
              intro q h1 h2 h3 h4
              rw [h2, h3, h4, e2, e3, e4]
              rw [hfree] at hcnt
              simp at hcnt ⊢; omega
            have hg2 : ∀ (q : St), q.running = s1.running →
                GoodLiveL free' (q.running ++ [{ t with peer := some p, age := 0 }]) g := by
              intro q h2
              rw [h2]
              rcases hg1 with ⟨x, hx, hxg⟩ | ⟨x, hx, hxg⟩
              · rw [hfree1] at hx
                simp at hx
                rcases hx with rfl | hx
                · exact Or.inr ⟨{ t with peer := some x, age := 0 }, by simp, by simp [hxg]⟩
                · exact Or.inl ⟨x, hx, hxg⟩
              · exact Or.inr ⟨x, by simp [hx], hxg⟩
            by_cases hr : t.retry > 0
            · simp only [hr, ↓reduceIte]
              obtain ⟨s', outs, h1, h2⟩ := ih ({ ({ s1 with retryQ := s1.retryQ.tail } : St) with free := free', running := ({ s1 with retryQ := s1.retryQ.tail } : St).running ++ [{ t with peer := some p, age := 0 }] } : St)
                (hcnt2 { s1 with retryQ := s1.retryQ.tail } rfl rfl rfl rfl) (hg2 { s1 with retryQ := s1.retryQ.tail } rfl)
              split
              · rename_i e heq
                exact absurd (h1.symm.trans heq) (by simp)
              · rename_i s2 outs2 heq
                have := h1.symm.trans heq
                simp only [Except.ok.injEq, Prod.mk.injEq] at this
                obtain ⟨rfl, rfl⟩ := this
                exact ⟨s', _, rfl, h2⟩
            · simp only [hr, ↓reduceIte]
              obtain ⟨s', outs, h1, h2⟩ := ih ({ ({ s1 with pending := s1.pending.tail } : St) with free := free', running := ({ s1 with pending := s1.pending.tail } : St).running ++ [{ t with peer := some p, age := 0 }] } : St)
                (hcnt2 { s1 with pending := s1.pending.tail } rfl rfl rfl rfl) (hg2 { s1 with pending := s1.pending.tail } rfl)
              split
              · rename_i e heq
                exact absurd (h1.symm.trans heq) (by simp)
              · rename_i s2 outs2 heq
                have := h1.symm.trans heq
                simp only [Except.ok.injEq, Prod.mk.injEq] at this
                obtain ⟨rfl, rfl⟩ := this
                exact ⟨s', _, rfl, h2⟩

theorem findTask_mem (p : Task → Bool) : ∀ (l : List Task) t r, findTask p l = some (t, r) →
    ∀ x, x ∈ l → x = t ∨ x ∈ r := by
  intro l
  induction l with
  | nil => intro t r h; simp [findTask] at h
  | cons a l ih =>
    intro t r h x hx
    simp only [findTask] at h
    split at h
    · simp at h; obtain ⟨rfl, rfl⟩ := h
      simp at hx; exact hx
    · split at h
      · simp at h
      · rename_i y r' heq
        simp at h; obtain ⟨rfl, rfl⟩ := h
        simp at hx
        rcases hx with rfl | hx
        · right; simp
        · rcases ih _ _ heq x hx with h1 | h1
          · exact Or.inl h1
          · right; simp [h1]

section
variable (Ann : Nat → Nat → Prop)

theorem connectNext_noerr {s : St} (hp : PInv Ann s) : ∃ r, connectNext s = .ok r := by
  unfold connectNext
  split
  · exact ⟨_, rfl⟩
  · rename_i hcb
    have hcb' : s.curBlock = none := by simpa using hcb
    split
    · exact ⟨_, rfl⟩
    · rename_i s1 c hpick
      obtain ⟨_, ⟨b, hb, _⟩, _⟩ := pickConn_spec Ann hp hcb' hpick
      rw [hb]
      exact ⟨_, rfl⟩

theorem GoodLive_of_fetchEq {s s' : St} {g : Nat} (h : FetchEq s s') (hfree : s'.free = s.free)
    (hg : GoodLive s g) : GoodLive s' g := by
  unfold GoodLive
  rw [hfree, h.1]; exact hg

theorem chunkRsp_good {s : St} {peer : Nat} {err : Bool} {blocks : List Blk} {g : Nat}
    (hf : FInv Ann s) (hp : PInv Ann s) (hg : GoodLive s g)
    (hcnt : s.free.length + s.running.length + s.bad = s.total)
    (hpeer : ∀ t, t ∈ s.running → t.peer ≠ none)
    (hev : ∀ b, b ∈ blocks → ∀ n, Ann n b.hash → b.no = n)
    (hgood : peer = g → validChunk err blocks = true) :
    ∃ r, chunkRsp s peer err blocks = .ok r ∧ GoodLive r.1 g := by
  unfold chunkRsp
  split
  · rename_i hvalid
    split
    · exact ⟨_, rfl, hg⟩
    · rename_i t run hfind
      obtain ⟨htmem, hmatch, hsub⟩ := findTask_spec _ _ _ _ hfind
      obtain ⟨hhashes, hpm⟩ := isMatched_spec hmatch
      have htok := hf.run t htmem
      have hne : blocks ≠ [] := by
        intro hnil; subst hnil; simp [validChunk] at hvalid
      have hblk : ∀ i b, blocks[i]? = some b → b.no = t.startNo + i ∧ Ann b.no b.hash := by
        intro i b hib
        have hh : t.hashes[i]? = some b.hash := by rw [hhashes]; simp [hib]
        have hann := htok i b.hash hh
        have hno := hev b (List.mem_of_getElem? hib) _ hann
        exact ⟨hno, by rw [hno]; exact hann⟩
      have hfirst : (blocks.head?.map (·.no)).getD 0 = t.startNo := by
        cases hbl : blocks with
        | nil => exact absurd hbl hne
        | cons b0 r =>
          have := (hblk 0 b0 (by simp [hbl])).1
          simp [this]
      simp only
      generalize hs0 : freePeer { s with running := run } t.peer = s0
      have hpe0 : ProcEq s s0 := by
        rw [← hs0]; exact ProcEq.trans ⟨rfl, rfl, rfl, rfl⟩ (freePeer_procEq _ _)
      have hp0 : PInv Ann s0 := PInv.of_procEq Ann hpe0 hp
      have hp1 : PInv Ann { s0 with connQ := pushConn s0.connQ ⟨blocks, (blocks.head?.map (·.no)).getD 0, 0⟩ } := by
        constructor
        · intro c hc
          simp only [mem_pushConn] at hc
          rcases hc with rfl | hc
          · refine ⟨⟨hne, ?_⟩, rfl⟩
            intro i b hib
            simp only at hib ⊢
            rw [hfirst]
            exact hblk i b hib
          · exact hp0.connq c hc
        · exact hp0.cur
      have hg0 : GoodLive s0 g := by
        rw [← hs0]
        rcases hg with ⟨x, hx, hxg⟩ | ⟨x, hx, hxg⟩
        · left
          refine ⟨x, ?_, hxg⟩
          cases t.peer <;> simp [freePeer, hx]
        · rcases findTask_mem _ _ _ _ hfind x hx with rfl | hxr
          · cases hxp : x.peer with
            | none => rw [hxp] at hxg; simp at hxg
            | some q =>
              rw [hxp] at hxg
              left
              exact ⟨q, by simp [freePeer], by simpa using hxg⟩
          · right
            refine ⟨x, ?_, hxg⟩
            cases t.peer <;> simp [freePeer, hxr]
      obtain ⟨r, hr⟩ := connectNext_noerr Ann hp1
      obtain ⟨s', outs⟩ := r
      refine ⟨_, hr, ?_⟩
      obtain ⟨_, _, h3, h4⟩ := connectNext_phi hr
      exact GoodLive_of_fetchEq h3 h4 hg0
  · rename_i hvalid
    split
    · exact ⟨_, rfl, hg⟩
    · rename_i t run hfind
      obtain ⟨htmem, hpm, _⟩ := findTask_spec _ _ _ _ hfind
      have hpeer' : t.peer.map (·.no) = some peer := by simpa using hpm
      have hng : peer ≠ g := by
        intro h; exact hvalid (hgood h)
      cases htp : t.peer with
      | none => exact absurd htp (hpeer t htmem)
      | some p =>
        have hpg : p.no ≠ g := by
          rw [htp] at hpeer'; simp at hpeer'; omega
        have hlen := findTask_length _ _ _ _ hfind
        obtain ⟨s1, h1, h2, _, _⟩ := failTask_good (s := { s with running := run }) (R := run) (g := g) htp hpg
          (by
            rcases hg with h1 | ⟨x, hx, hxg⟩
            · exact Or.inl h1
            · right
              rcases findTask_mem _ _ _ _ hfind x hx with rfl | hxr
              · rw [htp] at hxg; simp at hxg; exact absurd hxg hpg
              · exact ⟨x, hxr, hxg⟩)
          (by simp only; omega)
        rw [h1]
        refine ⟨_, rfl, ?_⟩
        have := (failTask_ok_spec h1).1
        unfold GoodLive
        rw [this]
        exact h2

theorem addRsp_good {s : St} {no hash : Nat} {err nh : Bool} {g : Nat}
    (hp : PInv Ann s) (hg : GoodLive s g)
    (hgood : ∃ cb, s.curBlock = some cb ∧ no = cb.no ∧ hash = cb.hash ∧ err = false ∧ nh = false) :
    ∃ r, addRsp s no hash err nh = .ok r ∧ GoodLive r.1 g := by
  obtain ⟨cb, hcb, rfl, rfl, rfl, rfl⟩ := hgood
  unfold addRsp
  simp only [Bool.false_eq_true, ↓reduceIte, hcb, ne_eq, not_true_eq_false, or_self]
  have hp0 : PInv Ann { s with prev := cb, curBlock := none } := by
    constructor
    · exact hp.connq
    · intro c hc
      have := hp.cur c hc
      rw [hcb] at this
      exact ⟨this.1, cb, this.2, rfl⟩
  obtain ⟨r, hr⟩ := connectNext_noerr Ann hp0
  obtain ⟨s', outs⟩ := r
  rw [hr]
  refine ⟨_, rfl, ?_⟩
  obtain ⟨_, _, h3, h4⟩ := connectNext_phi hr
  exact GoodLive_of_fetchEq h3 h4 (by exact hg)

/-- **With a good peer and an honest chain service no step raises an error.** -/
theorem step_good {s : St} {e : Ev} {g B E : Nat} (hf : FInv Ann s) (hp : PInv Ann s) (hl : LCore s B E)
    (hq : QInv s) (hg : GoodLive s g) (hev : EvOK Ann e) (hgood : EvGood g s e) (hh : s.halted = false) :
    (step s e).1.halted = false ∧ GoodLive (step s e).1 g := by
  cases e with
  | hashSet st hs =>
    simp only [step, hh, Bool.false_eq_true, ↓reduceIte]
    exact ⟨trivial, hg⟩
  | sched =>
    obtain ⟨s', outs, h1, h2⟩ := scheduleLoop_good (g := g) (s.free.length + 1) s hl.peers hg
    obtain ⟨_, h3, _⟩ := scheduleLoop_phi _ _ _ _ hq h1
    simp only [step, hh, Bool.false_eq_true, ↓reduceIte, schedule, h1]
    exact ⟨by rw [h3]; exact hh, h2⟩
  | tick d =>
    obtain ⟨s', h1, h2⟩ := tick_good (d := d) hg hl.peers hl.runPeer hgood
    obtain ⟨_, h3, _⟩ := tick_phi hq h1
    simp only [step, hh, Bool.false_eq_true, ↓reduceIte, h1, Except.map]
    exact ⟨by rw [h3]; exact hh, h2⟩
  | chunk peer err blocks =>
    obtain ⟨r, h1, h2⟩ := chunkRsp_good Ann (peer := peer) (err := err) hf hp hg hl.peers hl.runPeer hev hgood
    obtain ⟨s', outs⟩ := r
    obtain ⟨_, h3, _⟩ := chunkRsp_phi hq h1
    simp only [step, hh, Bool.false_eq_true, ↓reduceIte, h1]
    exact ⟨by rw [h3]; exact hh, h2⟩
  | addRsp no hash err nilHash =>
    obtain ⟨r, h1, h2⟩ := addRsp_good Ann hp hg hgood
    obtain ⟨s', outs⟩ := r
    obtain ⟨_, h3, _⟩ := addRsp_phi hq h1
    simp only [step, hh, Bool.false_eq_true, ↓reduceIte, h1]
    exact ⟨by rw [h3]; exact hh, h2⟩

theorem run_fpinv : ∀ (es : List Ev) (s : St), FInv Ann s → PInv Ann s → EvsOK Ann es →
    FInv Ann (run s es).1 ∧ PInv Ann (run s es).1 := by
  intro es
  induction es with
  | nil => intro s hf hp _; exact ⟨hf, hp⟩
  | cons e es ih =>
    intro s hf hp hev
    simp only [run]
    obtain ⟨hf1, hp1, _⟩ := step_inv Ann hf hp (hev e (by simp))
    exact ih _ hf1 hp1 (fun x hx => hev x (by simp [hx]))
end

section
variable {Ann : Nat → Nat → Prop} {cfg : Cfg} {anc : Blk} {target npeers : Nat} {evs : Nat → Ev}

/-- **A session with a good peer and an honest chain service never stops with an error.** -/
theorem good_never_halts (h : EnvOK Ann cfg anc target npeers evs) (g : Nat) (hg : g < npeers)
    (hgood : ∀ i, EvGood g (stAt (St.init cfg anc target npeers) evs i) (evs i)) :
    ∀ n, (stAt (St.init cfg anc target npeers) evs n).halted = false ∧
      GoodLive (stAt (St.init cfg anc target npeers) evs n) g := by
  intro n
  induction n with
  | zero =>
    refine ⟨rfl, Or.inl ⟨⟨g, 0⟩, ?_, rfl⟩⟩
    simp [stAt_zero, St.init]
    exact hg
  | succ n ih =>
    obtain ⟨hh, hgl⟩ := ih
    obtain ⟨hq, hinv⟩ := inv_at h n
    rcases hinv with hx | ⟨B, hl, _, hp, _⟩
    · rw [hh] at hx; cases hx
    · obtain ⟨hf0, hp0⟩ := init_inv Ann cfg anc target npeers
      have hev : EvsOK Ann (pre evs n) := by
        intro e he
        obtain ⟨i, _, rfl⟩ := mem_pre he
        exact h.ev i
      obtain ⟨hf, _⟩ := run_fpinv Ann (pre evs n) _ hf0 hp0 hev
      rw [stAt_succ]
      exact step_good Ann hf hp hl hq hgl (h.ev n) (hgood n) hh
end

end Aergo.Sync
