/-
Termination of fetcher/processor sessions (C17): infinite event streams, fairness, and the
well-founded argument on the measure `phi` (Lemmas/SyncTerm.lean) plus the number of heights not
yet announced.

A *stream* is `evs : Nat → Ev`; the session state after the first `n` events is
`stAt s0 evs n = (run s0 (pre evs n)).1`. Core Lean only.
-/
import Aergo.Lemmas.SyncTerm

namespace Aergo.Sync

/-! ### finite runs -/

theorem run_append (s : St) (a b : List Ev) :
    run s (a ++ b) = ((run (run s a).1 b).1, (run s a).2 ++ (run (run s a).1 b).2) := by
  induction a generalizing s with
  | nil => simp [run]
  | cons e es ih =>
    simp only [List.cons_append, run]
    rw [ih]
    simp [List.append_assoc]

theorem run_qinv : ∀ (es : List Ev) (s : St), QInv s → QInv (run s es).1 := by
  intro es
  induction es with
  | nil => intro s h; exact h
  | cons e es ih =>
    intro s h
    simp only [run]
    exact ih _ (step_phi_le e h).1

/-- Total weight of the hash sets of an event list. -/
def hsGain : List Ev → Nat
  | [] => 0
  | e :: es => gain e + hsGain es

/-- Number of events of a run that change more than ages / the tail of the hash-set queue. -/
def effCount (s : St) : List Ev → Nat
  | [] => 0
  | e :: es => (if s.halted = false ∧ (step s e).1 ≠ quietStep s e then 1 else 0) + effCount (step s e).1 es

/-- Every effective event costs a unit of the measure. -/
theorem effCount_le : ∀ (es : List Ev) (s : St), QInv s →
    effCount s es + phi (run s es).1 ≤ phi s + hsGain es := by
  intro es
  induction es with
  | nil => intro s _; simp [effCount, run, hsGain]
  | cons e es ih =>
    intro s hq
    simp only [effCount, run, hsGain]
    have h1 := step_phi_le e hq
    have h2 := ih _ h1.1
    by_cases hh : s.halted = false
    · obtain ⟨_, hd⟩ := step_dich e hq hh
      rcases hd with hd | ⟨hd, _⟩
      · split <;> omega
      · have : ¬ (s.halted = false ∧ (step s e).1 ≠ quietStep s e) := by
          intro ⟨_, hne⟩; exact hne hd
        simp only [this, ↓reduceIte]
        omega
    · have : ¬ (s.halted = false ∧ (step s e).1 ≠ quietStep s e) := by
        intro ⟨h, _⟩; exact hh h
      simp only [this, ↓reduceIte]
      omega

/-! ### streams -/

def pre (evs : Nat → Ev) (n : Nat) : List Ev := (List.range n).map evs

theorem pre_succ (evs : Nat → Ev) (n : Nat) : pre evs (n + 1) = pre evs n ++ [evs n] := by
  simp [pre, List.range_succ]

theorem mem_pre {evs : Nat → Ev} {n : Nat} {e : Ev} (h : e ∈ pre evs n) : ∃ i, i < n ∧ evs i = e := by
  simp [pre] at h
  exact h

def stAt (s0 : St) (evs : Nat → Ev) (n : Nat) : St := (run s0 (pre evs n)).1
def outsAt (s0 : St) (evs : Nat → Ev) (n : Nat) : List Out := (run s0 (pre evs n)).2

theorem stAt_zero (s0 : St) (evs : Nat → Ev) : stAt s0 evs 0 = s0 := rfl

theorem stAt_succ (s0 : St) (evs : Nat → Ev) (n : Nat) :
    stAt s0 evs (n + 1) = (step (stAt s0 evs n) (evs n)).1 := by
  simp only [stAt, pre_succ, run_append, run]

theorem outsAt_succ (s0 : St) (evs : Nat → Ev) (n : Nat) :
    outsAt s0 evs (n + 1) = outsAt s0 evs n ++ (step (stAt s0 evs n) (evs n)).2 := by
  simp only [outsAt, stAt, pre_succ, run_append, run]
  simp

theorem annEnd_append (E : Nat) (a b : List Ev) : annEnd E (a ++ b) = annEnd (annEnd E a) b := by
  induction a generalizing E with
  | nil => rfl
  | cons e es ih => simp only [List.cons_append, annEnd]; exact ih _

theorem annEnd_succ (E : Nat) (evs : Nat → Ev) (n : Nat) :
    annEnd E (pre evs (n + 1)) = annEnd E (pre evs n) + evLen (evs n) := by
  rw [pre_succ, annEnd_append]; rfl

theorem annEnd_mono (E : Nat) (evs : Nat → Ev) {m n : Nat} (h : m ≤ n) :
    annEnd E (pre evs m) ≤ annEnd E (pre evs n) := by
  induction n with
  | zero => have : m = 0 := by omega
            subst this; exact Nat.le_refl _
  | succ k ih =>
    by_cases hk : m = k + 1
    · subst hk; exact Nat.le_refl _
    · have := ih (by omega)
      rw [annEnd_succ]; omega

theorem HashSetsFrom_append_single : ∀ (es : List Ev) (E : Nat) (e : Ev), HashSetsFrom E (es ++ [e]) →
    ∀ st hs, e = .hashSet st hs → st = annEnd E es ∧ hs ≠ [] := by
  intro es
  induction es with
  | nil =>
    intro E e h st hs he
    subst he
    simp only [List.nil_append, HashSetsFrom] at h
    exact ⟨h.1, h.2.1⟩
  | cons x r ih =>
    intro E e h st hs he
    cases x with
    | hashSet st' hs' =>
      simp only [List.cons_append, HashSetsFrom] at h
      have := ih _ e h.2.2 st hs he
      simpa [annEnd, evLen] using this
    | sched => simp only [List.cons_append, HashSetsFrom] at h; simpa [annEnd, evLen] using ih _ e h st hs he
    | tick d => simp only [List.cons_append, HashSetsFrom] at h; simpa [annEnd, evLen] using ih _ e h st hs he
    | chunk a b c => simp only [List.cons_append, HashSetsFrom] at h; simpa [annEnd, evLen] using ih _ e h st hs he
    | addRsp a b c d => simp only [List.cons_append, HashSetsFrom] at h; simpa [annEnd, evLen] using ih _ e h st hs he

/-- Time that passes during the `k` events from position `n` on. -/
def tickAmt : Ev → Nat
  | .tick d => d
  | _ => 0

def elapsed (evs : Nat → Ev) (n : Nat) : Nat → Nat
  | 0 => 0
  | k + 1 => elapsed evs n k + tickAmt (evs (n + k))

theorem ageSt_zero (s : St) : ageSt 0 s = s := by
  simp [ageSt, ageBy_zero]

theorem ageSt_ageSt (a b : Nat) (s : St) : ageSt a (ageSt b s) = ageSt (b + a) s := by
  simp [ageSt, ageBy_ageBy]

theorem quietStep_not_hs (s : St) (e : Ev) (h : ∀ st hs, e ≠ .hashSet st hs) :
    quietStep s e = ageSt (tickAmt e) s := by
  cases e with
  | hashSet st hs => exact absurd rfl (h st hs)
  | tick d => rfl
  | sched => simp [quietStep, tickAmt, ageSt_zero]
  | chunk a b c => simp [quietStep, tickAmt, ageSt_zero]
  | addRsp a b c d => simp [quietStep, tickAmt, ageSt_zero]

/-- If time diverges (positive ticks keep coming), any amount of time eventually passes, and the
moment it does is a tick. -/
theorem elapsed_unbounded (evs : Nat → Ev) (hticks : ∀ i, ∃ j, i ≤ j ∧ ∃ d, 0 < d ∧ evs j = .tick d)
    (n : Nat) : ∀ T, ∃ k d, evs (n + k) = .tick d ∧ T < elapsed evs n k + d := by
  intro T
  induction T with
  | zero =>
    obtain ⟨j, hj, d, hd, he⟩ := hticks n
    refine ⟨j - n, d, ?_, by omega⟩
    rw [show n + (j - n) = j by omega]; exact he
  | succ T ih =>
    obtain ⟨k, d, he, hT⟩ := ih
    obtain ⟨j, hj, d', hd', he'⟩ := hticks (n + k + 1)
    refine ⟨j - n, d', ?_, ?_⟩
    · rw [show n + (j - n) = j by omega]; exact he'
    · have hmono : ∀ a b, a ≤ b → elapsed evs n a ≤ elapsed evs n b := by
        intro a b hab
        induction b with
        | zero => have : a = 0 := by omega
                  subst this; exact Nat.le_refl _
        | succ c ihc =>
          by_cases hc : a = c + 1
          · subst hc; exact Nat.le_refl _
          · have := ihc (by omega)
            simp only [elapsed]; omega
      have h1 : elapsed evs n (k + 1) = elapsed evs n k + d := by
        simp only [elapsed, he, tickAmt]
      have h2 := hmono (k + 1) (j - n) (by omega)
      omega


/-! ### the environment of a session, fairness, and the potential -/

/-- Well-formedness of the environment of a session: ids bind heights, hash sets arrive as the hash
fetcher sends them and never reach beyond the target, positive limits, at least one peer. -/
structure EnvOK (Ann : Nat → Nat → Prop) (cfg : Cfg) (anc : Blk) (target npeers : Nat) (evs : Nat → Ev) : Prop where
  ev : ∀ i, EvOK Ann (evs i)
  hs : ∀ n, HashSetsFrom (anc.no + 1) (pre evs n)
  le : ∀ n, annEnd (anc.no + 1) (pre evs n) ≤ target + 1
  sz : 0 < cfg.maxFetchSize
  tk : 0 < cfg.maxFetchTasks
  pc : 0 < cfg.maxPendingConn
  np : 0 < npeers

/-- Fairness of the environment: the chain service answers the block it was handed, time
advances, the scheduler keeps running, and the hash fetcher announces up to the target. -/
structure Fair (s0 : St) (E0 target : Nat) (evs : Nat → Ev) : Prop where
  add : ∀ i, (stAt s0 evs i).curBlock ≠ none → ∃ j, i ≤ j ∧ ∃ no hash err nh, evs j = .addRsp no hash err nh
  ticks : ∀ i, ∃ j, i ≤ j ∧ ∃ d, 0 < d ∧ evs j = .tick d
  sched : ∀ i, ∃ j, i ≤ j ∧ evs j = .sched
  hashes : ∃ m, annEnd E0 (pre evs m) = target + 1

/-- The session has stopped with an error, or the target block has been connected. -/
def Final (target : Nat) (s : St) : Prop := s.halted = true ∨ (s.curBlock = none ∧ s.prev.no = target)

section live
variable {Ann : Nat → Nat → Prop} {cfg : Cfg} {anc : Blk} {target npeers : Nat} {evs : Nat → Ev}

theorem inv_at (h : EnvOK Ann cfg anc target npeers evs) (n : Nat) :
    QInv (stAt (St.init cfg anc target npeers) evs n) ∧
    ((stAt (St.init cfg anc target npeers) evs n).halted = true ∨
      ∃ B, LCore (stAt (St.init cfg anc target npeers) evs n) B (annEnd (anc.no + 1) (pre evs n)) ∧
        Quiet (stAt (St.init cfg anc target npeers) evs n) ∧ PInv Ann (stAt (St.init cfg anc target npeers) evs n) ∧
        (stAt (St.init cfg anc target npeers) evs n).cfg = cfg) := by
  refine ⟨run_qinv _ _ (init_qinv cfg anc target npeers), ?_⟩
  obtain ⟨hf0, hp0⟩ := init_inv Ann cfg anc target npeers
  obtain ⟨hl0, hq0⟩ := init_lcore cfg anc target npeers h.np
  have hev : EvsOK Ann (pre evs n) := by
    intro e he
    obtain ⟨i, _, rfl⟩ := mem_pre he
    exact h.ev i
  rcases run_lcore Ann (pre evs n) _ _ _ hf0 hp0 hl0 hq0 (by simpa [St.init] using h.sz) hev (h.hs n) with hh | ⟨B, h1, h2, h3, h4⟩
  · exact Or.inl hh
  · exact Or.inr ⟨B, h1, h2, h3, by rw [stAt, h4]; rfl⟩

/-- The potential: the measure of the state plus eight units per height not yet announced. -/
def psi (cfg : Cfg) (anc : Blk) (target npeers : Nat) (evs : Nat → Ev) (n : Nat) : Nat :=
  phi (stAt (St.init cfg anc target npeers) evs n) + 8 * (target + 1 - annEnd (anc.no + 1) (pre evs n))

theorem hs_at (h : EnvOK Ann cfg anc target npeers evs) (n st : Nat) (hs : List Nat)
    (he : evs n = .hashSet st hs) : hs ≠ [] := by
  have := h.hs (n + 1)
  rw [pre_succ] at this
  exact (HashSetsFrom_append_single _ _ _ this st hs he).2

theorem psi_step (h : EnvOK Ann cfg anc target npeers evs) (n : Nat) :
    psi cfg anc target npeers evs (n + 1) ≤ psi cfg anc target npeers evs n ∧
    ((∃ st hs, evs n = .hashSet st hs) → psi cfg anc target npeers evs (n + 1) < psi cfg anc target npeers evs n) := by
  have hq := (inv_at h n).1
  have hle := (step_phi_le (evs n) hq).2
  have hE := annEnd_succ (anc.no + 1) evs n
  have hb := h.le (n + 1)
  simp only [psi, stAt_succ]
  cases he : evs n with
  | hashSet st hs =>
    have hne := hs_at h n st hs he
    have hpos : 0 < hs.length := by cases hs <;> simp_all
    rw [he] at hle hE
    simp only [gain, evLen] at hle hE
    constructor
    · omega
    · intro _; omega
  | sched => rw [he] at hle hE; simp only [gain, evLen] at hle hE; exact ⟨by omega, by intro ⟨_, _, h'⟩; cases h'⟩
  | tick d => rw [he] at hle hE; simp only [gain, evLen] at hle hE; exact ⟨by omega, by intro ⟨_, _, h'⟩; cases h'⟩
  | chunk a b c => rw [he] at hle hE; simp only [gain, evLen] at hle hE; exact ⟨by omega, by intro ⟨_, _, h'⟩; cases h'⟩
  | addRsp a b c d => rw [he] at hle hE; simp only [gain, evLen] at hle hE; exact ⟨by omega, by intro ⟨_, _, h'⟩; cases h'⟩

/-- An event that costs a unit of the measure lowers the potential. -/
theorem psi_eff (h : EnvOK Ann cfg anc target npeers evs) (n : Nat)
    (hd : phi (step (stAt (St.init cfg anc target npeers) evs n) (evs n)).1 + 1 ≤
      phi (stAt (St.init cfg anc target npeers) evs n) + gain (evs n)) :
    psi cfg anc target npeers evs (n + 1) < psi cfg anc target npeers evs n := by
  by_cases hhs : ∃ st hs, evs n = .hashSet st hs
  · exact (psi_step h n).2 hhs
  · have hE := annEnd_succ (anc.no + 1) evs n
    have hg : gain (evs n) = 0 ∧ evLen (evs n) = 0 := by
      cases he : evs n with
      | hashSet st hs => exact absurd ⟨st, hs, he⟩ hhs
      | sched => exact ⟨rfl, rfl⟩
      | tick d => exact ⟨rfl, rfl⟩
      | chunk a b c => exact ⟨rfl, rfl⟩
      | addRsp a b c d => exact ⟨rfl, rfl⟩
    simp only [psi, stAt_succ]
    omega

/-- While the potential does not drop, nothing happens but ageing. -/
theorem frozen (h : EnvOK Ann cfg anc target npeers evs) (n : Nat)
    (hn : (stAt (St.init cfg anc target npeers) evs n).halted = false)
    (hfz : ∀ k, psi cfg anc target npeers evs (n + k) ≤ psi cfg anc target npeers evs (n + k + 1)) :
    ∀ k, stAt (St.init cfg anc target npeers) evs (n + k) =
        ageSt (elapsed evs n k) (stAt (St.init cfg anc target npeers) evs n) ∧
      annEnd (anc.no + 1) (pre evs (n + k)) = annEnd (anc.no + 1) (pre evs n) := by
  intro k
  induction k with
  | zero => simp [elapsed, ageSt_zero]
  | succ k ih =>
    obtain ⟨ih1, ih2⟩ := ih
    have hnh : ∀ st hs, evs (n + k) ≠ .hashSet st hs := by
      intro st hs he
      have := (psi_step h (n + k)).2 ⟨st, hs, he⟩
      have := hfz k
      omega
    have hq := (inv_at h (n + k)).1
    have hh : (stAt (St.init cfg anc target npeers) evs (n + k)).halted = false := by
      rw [ih1]; exact hn
    obtain ⟨_, hd⟩ := step_dich (evs (n + k)) hq hh
    rcases hd with hd | ⟨hd, _⟩
    · have := psi_eff h (n + k) hd
      have := hfz k
      omega
    · refine ⟨?_, ?_⟩
      · rw [show n + (k + 1) = n + k + 1 by omega, stAt_succ, hd, quietStep_not_hs _ _ hnh, ih1, ageSt_ageSt]
        rfl
      · rw [show n + (k + 1) = n + k + 1 by omega, annEnd_succ, ih2]
        have : evLen (evs (n + k)) = 0 := by
          cases he : evs (n + k) with
          | hashSet st hs => exact absurd he (hnh st hs)
          | sched => rfl
          | tick d => rfl
          | chunk a b c => rfl
          | addRsp a b c d => rfl
        omega

theorem addRsp_eff {s : St} (no hash : Nat) (err nilHash : Bool) (hq : QInv s) (hh : s.halted = false) :
    phi (step s (.addRsp no hash err nilHash)).1 + 1 ≤ phi s := by
  unfold step
  simp only [hh, Bool.false_eq_true, ↓reduceIte]
  have hph : phi0 ({ s with halted := true } : St) = phi0 s := rfl
  cases hr : addRsp s no hash err nilHash with
  | error e => simp only [phi, hh, hph]; simp; omega
  | ok x =>
    obtain ⟨s', outs⟩ := x
    obtain ⟨_, h2, h3⟩ := addRsp_phi hq hr
    simp only [phi, h2, hh]; omega

/-- **The next effective event.** In a fair environment a session that is neither stopped nor
complete meets an event that lowers the potential. -/
theorem next_eff (h : EnvOK Ann cfg anc target npeers evs)
    (hf : Fair (St.init cfg anc target npeers) (anc.no + 1) target evs) (n : Nat)
    (hnf : ¬ Final target (stAt (St.init cfg anc target npeers) evs n)) :
    ∃ k, psi cfg anc target npeers evs (n + k + 1) < psi cfg anc target npeers evs (n + k) := by
  apply Classical.byContradiction
  intro hno
  have hfz : ∀ k, psi cfg anc target npeers evs (n + k) ≤ psi cfg anc target npeers evs (n + k + 1) := by
    intro k
    apply Classical.byContradiction
    intro hk
    exact hno ⟨k, by omega⟩
  have hn : (stAt (St.init cfg anc target npeers) evs n).halted = false := by
    cases hv : (stAt (St.init cfg anc target npeers) evs n).halted with
    | true => exact absurd (Or.inl hv) hnf
    | false => rfl
  have hfr := frozen h n hn hfz
  obtain ⟨hq, hinv⟩ := inv_at h n
  rcases hinv with hh | ⟨B, hl, hqt, hp, hcfg⟩
  · rw [hn] at hh; cases hh
  -- abbreviations
  generalize hS : stAt (St.init cfg anc target npeers) evs n = s at *
  have key : ∀ k, phi (step (ageSt (elapsed evs n k) s) (evs (n + k))).1 + 1 ≤ phi (ageSt (elapsed evs n k) s) + gain (evs (n + k)) → False := by
    intro k hd
    have h1 := psi_eff h (n + k) (by rw [(hfr k).1]; exact hd)
    have h2 := hfz k
    omega
  rcases progress_core Ann hp hl hqt hn (by rw [hcfg]; exact h.sz) (by rw [hcfg]; exact h.tk) (by rw [hcfg]; exact h.pc) with
    hidle | ⟨cb, hcb, _⟩ | ⟨hrun, _⟩ | ⟨hcb, hrun, hsch⟩
  · -- everything announced is connected: the hash fetcher still has heights to announce
    obtain ⟨hcb, hnext, _⟩ := hidle
    obtain ⟨m, hm⟩ := hf.hashes
    have hle := h.le n
    have hlt : annEnd (anc.no + 1) (pre evs n) < target + 1 := by
      apply Nat.lt_of_le_of_ne hle
      intro heq
      apply hnf
      right
      refine ⟨hcb, ?_⟩
      simp only [nextNo, hcb] at hnext
      omega
    by_cases hmn : m ≤ n
    · have := annEnd_mono (anc.no + 1) evs hmn
      omega
    · have := (hfr (m - n)).2
      rw [show n + (m - n) = m by omega] at this
      omega
  · -- a block is being connected: the chain service answers
    obtain ⟨j, hj, no, hash, err, nh, he⟩ := hf.add n (by rw [hS, hcb]; simp)
    apply key (j - n)
    rw [show n + (j - n) = j by omega, he]
    have := addRsp_eff no hash err nh (QInv_ageSt (d := elapsed evs n (j - n)) hq) (by simpa [ageSt] using hn)
    simpa [gain] using this
  · -- tasks are running: time passes until the first of them is overdue
    cases hr : s.running with
    | nil => exact absurd hr hrun
    | cons t0 r =>
      obtain ⟨k, d, he, hT⟩ := elapsed_unbounded evs hf.ticks n (s.cfg.timeout)
      apply key k
      rw [he]
      have := tick_overdue (s := ageSt (elapsed evs n k) s) (d := d)
        (t := { t0 with age := t0.age + elapsed evs n k })
        (QInv_ageSt hq) (by simpa [ageSt] using hn)
        (by simp [ageSt, ageBy, hr])
        (by simp [ageSt]; omega)
      simpa [gain] using this
  · -- nothing runs and no block is being connected: the scheduler starts a task
    obtain ⟨j, hj, he⟩ := hf.sched n
    apply key (j - n)
    rw [show n + (j - n) = j by omega, he]
    have hsame : ageSt (elapsed evs n (j - n)) s = s := by
      have : ageBy (elapsed evs n (j - n)) s.running = s.running := by rw [hrun]; rfl
      unfold ageSt; rw [this]
    rw [hsame]
    obtain ⟨_, hd⟩ := step_dich .sched hq hn
    rcases hd with hd | ⟨hd, _⟩
    · exact hd
    · exact absurd hd hsch

/-- **Every fair session ends**: it stops with an error or connects the target block. -/
theorem eventually_final (h : EnvOK Ann cfg anc target npeers evs)
    (hf : Fair (St.init cfg anc target npeers) (anc.no + 1) target evs) :
    ∃ n, Final target (stAt (St.init cfg anc target npeers) evs n) := by
  have main : ∀ m n, psi cfg anc target npeers evs n ≤ m →
      ∃ n', Final target (stAt (St.init cfg anc target npeers) evs n') := by
    intro m
    induction m with
    | zero =>
      intro n hn
      apply Classical.byContradiction
      intro hno
      have hnf : ¬ Final target (stAt (St.init cfg anc target npeers) evs n) := fun hF => hno ⟨n, hF⟩
      obtain ⟨k, hk⟩ := next_eff h hf n hnf
      have hmono : ∀ k, psi cfg anc target npeers evs (n + k) ≤ psi cfg anc target npeers evs n := by
        intro k
        induction k with
        | zero => exact Nat.le_refl _
        | succ k ih => have := (psi_step h (n + k)).1; rw [show n + (k + 1) = n + k + 1 by omega]; omega
      have := hmono k
      omega
    | succ m ih =>
      intro n hn
      apply Classical.byContradiction
      intro hno
      have hnf : ¬ Final target (stAt (St.init cfg anc target npeers) evs n) := fun hF => hno ⟨n, hF⟩
      obtain ⟨k, hk⟩ := next_eff h hf n hnf
      have hmono : ∀ k, psi cfg anc target npeers evs (n + k) ≤ psi cfg anc target npeers evs n := by
        intro k
        induction k with
        | zero => exact Nat.le_refl _
        | succ k ih => have := (psi_step h (n + k)).1; rw [show n + (k + 1) = n + k + 1 by omega]; omega
      have := hmono k
      exact hno (ih (n + k + 1) (by omega))
  exact main _ 0 (Nat.le_refl _)

end live


/-! ### what has been sent when the session is final -/

theorem failTask_target {s s1 : St} {t : Task} (h : failTask s t = .ok s1) : s1.target = s.target := by
  unfold failTask at h
  split at h
  · simp at h
  · simp only at h
    split at h
    · simp at h
    · simp only [Except.ok.injEq] at h
      subst h
      unfold failPeer; split <;> rfl

theorem timeoutWalk_target : ∀ (l : List Task) (s s' : St) keep, timeoutWalk s l keep = .ok s' → s'.target = s.target := by
  intro l
  induction l with
  | nil => intro s s' keep h; simp [timeoutWalk] at h; subst h; rfl
  | cons t r ih =>
    intro s s' keep h
    simp only [timeoutWalk] at h
    split at h
    · split at h
      · simp at h
      · rename_i s1 heq
        rw [ih _ _ _ h, failTask_target heq]
    · exact ih _ _ _ h

theorem searchCandidate_target (s : St) : (searchCandidate s).1.target = s.target := by
  unfold searchCandidate; repeat' split
  all_goals rfl

theorem scheduleLoop_target : ∀ fuel (s s' : St) outs, scheduleLoop fuel s = .ok (s', outs) → s'.target = s.target := by
  intro fuel
  induction fuel with
  | zero => intro s s' outs h; simp [scheduleLoop] at h; obtain ⟨rfl, rfl⟩ := h; rfl
  | succ k ih =>
    intro s s' outs h
    simp only [scheduleLoop] at h
    split at h
    · simp at h; obtain ⟨rfl, rfl⟩ := h; rfl
    · split at h
      · simp at h; obtain ⟨rfl, rfl⟩ := h; rfl
      · have e2 := searchCandidate_target s
        generalize searchCandidate s = sc at h e2
        obtain ⟨s1, cand⟩ := sc
        simp only at h e2
        split at h
        · simp at h; obtain ⟨rfl, rfl⟩ := h; exact e2
        · split at h
          · simp at h; obtain ⟨rfl, rfl⟩ := h; exact e2
          · split at h
            · simp at h
            · split at h
              · simp at h
              · rename_i s2 outs2 heq
                simp at h; obtain ⟨rfl, rfl⟩ := h
                have := ih _ _ _ heq
                rw [this, ← e2]
                split <;> rfl

theorem connectNext_static {s s' : St} {outs : List Out} (h : connectNext s = .ok (s', outs)) :
    s'.target = s.target ∧ s'.prev = s.prev ∧ (∀ e, Out.stop e ∉ outs) := by
  unfold connectNext at h
  split at h
  · simp at h; obtain ⟨rfl, rfl⟩ := h; exact ⟨rfl, rfl, by simp⟩
  · split at h
    · simp at h; obtain ⟨rfl, rfl⟩ := h; exact ⟨rfl, rfl, by simp⟩
    · rename_i s1 c hpick
      split at h
      · simp at h
      · simp at h; obtain ⟨rfl, rfl⟩ := h
        unfold pickConn at hpick
        split at hpick
        · simp at hpick; obtain ⟨rfl, _⟩ := hpick; exact ⟨rfl, rfl, by simp⟩
        · split at hpick
          · simp at hpick
          · simp at hpick; obtain ⟨rfl, _⟩ := hpick; exact ⟨rfl, rfl, by simp⟩

/-- `prev` changes only when the chain service acknowledges the block being connected; connecting
the target block sends the success notice. -/
theorem step_prev (s : St) (e : Ev) :
    (step s e).1.target = s.target ∧
    ((step s e).1.prev = s.prev ∨
      ∃ cb, s.curBlock = some cb ∧ (step s e).1.prev = cb ∧ (cb.no = s.target → Out.stop none ∈ (step s e).2)) := by
  unfold step
  split
  · exact ⟨rfl, Or.inl rfl⟩
  · have triv : FInv (fun _ _ => True) s :=
      ⟨fun _ _ _ _ _ => trivial, fun _ _ _ _ _ => trivial, fun _ _ _ _ _ => trivial, fun _ _ _ _ _ => trivial⟩
    cases e with
    | hashSet st hs => exact ⟨rfl, Or.inl rfl⟩
    | sched =>
      simp only
      cases hs : schedule s with
      | error e => exact ⟨rfl, Or.inl rfl⟩
      | ok x =>
        obtain ⟨s', outs⟩ := x
        obtain ⟨_, h2, _⟩ := scheduleLoop_inv _ _ _ _ _ triv hs
        exact ⟨scheduleLoop_target _ _ _ _ hs, Or.inl h2.2.2.1⟩
    | tick d =>
      simp only
      cases ht : tick s d with
      | error e => exact ⟨rfl, Or.inl rfl⟩
      | ok s1 =>
        simp only [Except.map]
        obtain ⟨_, h2⟩ := tick_inv _ triv ht
        unfold tick at ht
        simp only at ht
        exact ⟨(timeoutWalk_target _ _ _ _ ht).trans rfl, Or.inl h2.2.2.1⟩
    | chunk peer err blocks =>
      simp only
      cases hc : chunkRsp s peer err blocks with
      | error e => exact ⟨rfl, Or.inl rfl⟩
      | ok x =>
        obtain ⟨s', outs⟩ := x
        simp only
        unfold chunkRsp at hc
        split at hc
        · split at hc
          · simp at hc; obtain ⟨rfl, rfl⟩ := hc; exact ⟨rfl, Or.inl rfl⟩
          · obtain ⟨h1, h2, _⟩ := connectNext_static hc
            refine ⟨?_, Or.inl ?_⟩
            · rw [h1]; simp only; unfold freePeer; split <;> rfl
            · rw [h2]; simp only; unfold freePeer; split <;> rfl
        · split at hc
          · simp at hc; obtain ⟨rfl, rfl⟩ := hc; exact ⟨rfl, Or.inl rfl⟩
          · split at hc
            · simp at hc
            · rename_i s1 hft
              simp at hc; obtain ⟨rfl, rfl⟩ := hc
              obtain ⟨_, hpe⟩ := failTask_inv (fun _ _ => True)
                (s := { s with running := _ }) ⟨fun _ _ _ _ _ => trivial, fun _ _ _ _ _ => trivial, fun _ _ _ _ _ => trivial, fun _ _ _ _ _ => trivial⟩
                (fun _ _ _ => trivial) hft
              exact ⟨(failTask_target hft).trans rfl, Or.inl hpe.2.2.1⟩
    | addRsp no hash err nilHash =>
      simp only
      cases hc : addRsp s no hash err nilHash with
      | error e => exact ⟨rfl, Or.inl rfl⟩
      | ok x =>
        obtain ⟨s', outs⟩ := x
        simp only
        unfold addRsp at hc
        split at hc
        · simp at hc
        · split at hc
          · simp at hc
          · split at hc
            · simp at hc
            · rename_i cb hcb
              split at hc
              · simp at hc
              · split at hc
                · simp at hc
                · rename_i s1 outs1 hcn
                  simp at hc; obtain ⟨rfl, rfl⟩ := hc
                  obtain ⟨h1, h2, _⟩ := connectNext_static hcn
                  refine ⟨h1.trans rfl, Or.inr ⟨cb, hcb, h2.trans rfl, ?_⟩⟩
                  intro ht
                  simp [stopOuts, ht]

theorem scheduleLoop_outs : ∀ fuel (s s' : St) outs, scheduleLoop fuel s = .ok (s', outs) →
    ∀ o, o ∈ outs → ∃ p hs, o = Out.fetch p hs := by
  intro fuel
  induction fuel with
  | zero => intro s s' outs h; simp [scheduleLoop] at h; obtain ⟨_, rfl⟩ := h; simp
  | succ k ih =>
    intro s s' outs h
    simp only [scheduleLoop] at h
    split at h
    · simp at h; obtain ⟨_, rfl⟩ := h; simp
    · split at h
      · simp at h; obtain ⟨_, rfl⟩ := h; simp
      · generalize searchCandidate s = sc at h
        obtain ⟨s1, cand⟩ := sc
        simp only at h
        split at h
        · simp at h; obtain ⟨_, rfl⟩ := h; simp
        · split at h
          · simp at h; obtain ⟨_, rfl⟩ := h; simp
          · split at h
            · simp at h
            · split at h
              · simp at h
              · rename_i s2 outs2 heq
                simp at h; obtain ⟨_, rfl⟩ := h
                intro o ho
                simp at ho
                rcases ho with rfl | ho
                · exact ⟨_, _, rfl⟩
                · exact ih _ _ _ heq o ho

theorem connectNext_cur {s s' : St} {outs : List Out} (h : connectNext s = .ok (s', outs)) :
    ∀ b, s'.curBlock = some b → s.curBlock = some b ∨ b ∈ delivered outs := by
  unfold connectNext at h
  split at h
  · simp at h; obtain ⟨rfl, rfl⟩ := h; intro b hb; exact Or.inl hb
  · rename_i hcb
    split at h
    · simp at h; obtain ⟨rfl, rfl⟩ := h
      intro b hb
      simp only at hb
      rw [hb] at hcb; simp at hcb
    · split at h
      · simp at h
      · simp at h; obtain ⟨rfl, rfl⟩ := h
        intro b hb
        simp at hb; subst hb
        right; simp [delivered]

/-- The block being connected has been handed to the chain service by this step or was being
connected before; the success notice is sent only on the acknowledgement of a target-height block. -/
theorem step_cur (s : St) (e : Ev) :
    (∀ b, (step s e).1.curBlock = some b → s.curBlock = some b ∨ b ∈ delivered (step s e).2) ∧
    (Out.stop none ∈ (step s e).2 → ∃ cb, s.curBlock = some cb ∧ cb.no = s.target) := by
  unfold step
  split
  · exact ⟨fun b hb => Or.inl hb, by simp⟩
  · have triv : FInv (fun _ _ => True) s :=
      ⟨fun _ _ _ _ _ => trivial, fun _ _ _ _ _ => trivial, fun _ _ _ _ _ => trivial, fun _ _ _ _ _ => trivial⟩
    cases e with
    | hashSet st hs => exact ⟨fun b hb => Or.inl hb, by simp⟩
    | sched =>
      simp only
      cases hs : schedule s with
      | error e => exact ⟨fun b hb => Or.inl hb, by simp⟩
      | ok x =>
        obtain ⟨s', outs⟩ := x
        obtain ⟨_, h2, _⟩ := scheduleLoop_inv _ _ _ _ _ triv hs
        refine ⟨fun b hb => Or.inl (by rw [← h2.2.2.2]; exact hb), ?_⟩
        intro hmem
        obtain ⟨p, hs', hc⟩ := scheduleLoop_outs _ _ _ _ hs _ hmem
        cases hc
    | tick d =>
      simp only
      cases ht : tick s d with
      | error e => exact ⟨fun b hb => Or.inl hb, by simp [Except.map]⟩
      | ok s1 =>
        simp only [Except.map]
        obtain ⟨_, h2⟩ := tick_inv _ triv ht
        exact ⟨fun b hb => Or.inl (by rw [← h2.2.2.2]; exact hb), by simp⟩
    | chunk peer err blocks =>
      simp only
      cases hc : chunkRsp s peer err blocks with
      | error e => exact ⟨fun b hb => Or.inl hb, by simp⟩
      | ok x =>
        obtain ⟨s', outs⟩ := x
        simp only
        unfold chunkRsp at hc
        split at hc
        · split at hc
          · simp at hc; obtain ⟨rfl, rfl⟩ := hc; exact ⟨fun b hb => Or.inl hb, by simp⟩
          · obtain ⟨_, _, h3⟩ := connectNext_static hc
            refine ⟨?_, fun hmem => absurd hmem (h3 none)⟩
            intro b hb
            rcases connectNext_cur hc b hb with h1 | h1
            · left
              simp only at h1
              revert h1
              unfold freePeer; split <;> exact id
            · exact Or.inr h1
        · split at hc
          · simp at hc; obtain ⟨rfl, rfl⟩ := hc; exact ⟨fun b hb => Or.inl hb, by simp⟩
          · split at hc
            · simp at hc
            · rename_i s1 hft
              simp at hc; obtain ⟨rfl, rfl⟩ := hc
              obtain ⟨_, hpe⟩ := failTask_inv (fun _ _ => True)
                (s := { s with running := _ }) ⟨fun _ _ _ _ _ => trivial, fun _ _ _ _ _ => trivial, fun _ _ _ _ _ => trivial, fun _ _ _ _ _ => trivial⟩
                (fun _ _ _ => trivial) hft
              exact ⟨fun b hb => Or.inl (by rw [← hpe.2.2.2]; exact hb), by simp⟩
    | addRsp no hash err nilHash =>
      simp only
      cases hc : addRsp s no hash err nilHash with
      | error e => exact ⟨fun b hb => Or.inl hb, by simp⟩
      | ok x =>
        obtain ⟨s', outs⟩ := x
        simp only
        unfold addRsp at hc
        split at hc
        · simp at hc
        · split at hc
          · simp at hc
          · split at hc
            · simp at hc
            · rename_i cb hcb
              split at hc
              · simp at hc
              · split at hc
                · simp at hc
                · rename_i s1 outs1 hcn
                  simp at hc; obtain ⟨rfl, rfl⟩ := hc
                  obtain ⟨_, _, h3⟩ := connectNext_static hcn
                  refine ⟨?_, ?_⟩
                  · intro b hb
                    rcases connectNext_cur hcn b hb with h1 | h1
                    · simp at h1
                    · right; rw [delivered_append]; exact List.mem_append_right _ h1
                  · intro hmem
                    simp only [List.mem_append] at hmem
                    rcases hmem with hmem | hmem
                    · refine ⟨cb, hcb, ?_⟩
                      unfold stopOuts at hmem
                      split at hmem
                      · assumption
                      · simp at hmem
                    · exact absurd hmem (h3 none)

/-- **Success is reported only after a block of the target height was handed over.** For every
event list: if the success notice is among the outputs, a block of the target height is among the
blocks handed to the chain service. -/
theorem run_stop_none_delivered : ∀ (es : List Ev) (s : St),
    Out.stop none ∈ (run s es).2 →
    (∃ b, s.curBlock = some b ∧ b.no = s.target) ∨ ∃ b, b ∈ delivered (run s es).2 ∧ b.no = s.target := by
  intro es
  induction es with
  | nil => intro s h; simp [run] at h
  | cons e es ih =>
    intro s h
    simp only [run] at h ⊢
    obtain ⟨hc1, hc2⟩ := step_cur s e
    have ht := (step_prev s e).1
    simp only [List.mem_append] at h
    rcases h with h | h
    · exact Or.inl (hc2 h)
    · rcases ih _ h with ⟨b, hb, hbt⟩ | ⟨b, hb, hbt⟩
      · rcases hc1 b hb with h1 | h1
        · exact Or.inl ⟨b, h1, by rw [← ht]; exact hbt⟩
        · right
          exact ⟨b, by rw [delivered_append]; exact List.mem_append_left _ h1, by rw [← ht]; exact hbt⟩
      · right
        exact ⟨b, by rw [delivered_append]; exact List.mem_append_right _ hb, by rw [← ht]; exact hbt⟩

theorem run_target : ∀ (es : List Ev) (s : St), (run s es).1.target = s.target := by
  intro es
  induction es with
  | nil => intro s; rfl
  | cons e es ih => intro s; simp only [run]; rw [ih, (step_prev s e).1]

/-- Over a run: either `prev` is still the block the run started from, or, if it is a block of the
target height, the success notice has been sent. -/
theorem run_stop_none : ∀ (es : List Ev) (s : St),
    (run s es).1.prev = s.prev ∨ ((run s es).1.prev.no = s.target → Out.stop none ∈ (run s es).2) := by
  intro es
  induction es with
  | nil => intro s; exact Or.inl rfl
  | cons e es ih =>
    intro s
    simp only [run]
    obtain ⟨ht, hp⟩ := step_prev s e
    rcases ih (step s e).1 with h1 | h1
    · rcases hp with hp | ⟨cb, _, hp, hs⟩
      · exact Or.inl (h1.trans hp)
      · right
        intro hno
        rw [h1, hp] at hno
        exact List.mem_append_left _ (hs hno)
    · right
      intro hno
      rw [ht] at h1
      exact List.mem_append_right _ (h1 hno)

/-- A session stops only by sending the error notice. -/
theorem step_halts (s : St) (e : Ev) (hq : QInv s) (hh : s.halted = false)
    (h : (step s e).1.halted = true) : ∃ err, Out.stop (some err) ∈ (step s e).2 := by
  unfold step at h ⊢
  simp only [hh, Bool.false_eq_true, ↓reduceIte] at h ⊢
  cases e with
  | hashSet st hs => simp at h
  | sched =>
    simp only at h ⊢
    cases hs : schedule s with
    | error e => exact ⟨e, by simp⟩
    | ok x =>
      obtain ⟨s', outs⟩ := x
      rw [hs] at h
      obtain ⟨_, h2, _⟩ := scheduleLoop_phi _ _ _ _ hq hs
      simp only at h
      rw [h2, hh] at h; cases h
  | tick d =>
    simp only at h ⊢
    cases ht : tick s d with
    | error e => exact ⟨e, by simp [Except.map]⟩
    | ok s1 =>
      rw [ht] at h
      obtain ⟨_, h2, _⟩ := tick_phi hq ht
      simp only [Except.map] at h
      rw [h2, hh] at h; cases h
  | chunk peer err blocks =>
    simp only at h ⊢
    cases hc : chunkRsp s peer err blocks with
    | error e => exact ⟨e, by simp⟩
    | ok x =>
      obtain ⟨s', outs⟩ := x
      rw [hc] at h
      obtain ⟨_, h2, _⟩ := chunkRsp_phi hq hc
      simp only at h
      rw [h2, hh] at h; cases h
  | addRsp no hash err nilHash =>
    simp only at h ⊢
    cases hc : addRsp s no hash err nilHash with
    | error e => exact ⟨e, by simp⟩
    | ok x =>
      obtain ⟨s', outs⟩ := x
      rw [hc] at h
      obtain ⟨_, h2, _⟩ := addRsp_phi hq hc
      simp only at h
      rw [h2, hh] at h; cases h

theorem run_halts : ∀ (es : List Ev) (s : St), QInv s → s.halted = false → (run s es).1.halted = true →
    ∃ err, Out.stop (some err) ∈ (run s es).2 := by
  intro es
  induction es with
  | nil => intro s _ hh h; simp [run] at h; rw [hh] at h; cases h
  | cons e es ih =>
    intro s hq hh h
    simp only [run] at h ⊢
    cases hv : (step s e).1.halted with
    | true =>
      obtain ⟨err, he⟩ := step_halts s e hq hh hv
      exact ⟨err, List.mem_append_left _ he⟩
    | false =>
      obtain ⟨err, he⟩ := ih _ (step_phi_le e hq).1 hv h
      exact ⟨err, List.mem_append_right _ he⟩

section
variable (Ann : Nat → Nat → Prop)

/-- The number of blocks handed to the chain service is how far `nextNo` has moved. -/
theorem run_nextNo {es : List Ev} : ∀ {s : St}, FInv Ann s → PInv Ann s → EvsOK Ann es →
    nextNo (run s es).1 = nextNo s + (delivered (run s es).2).length := by
  induction es with
  | nil => intro s _ _ _; simp [run, delivered]
  | cons e es ih =>
    intro s hf hp hev
    obtain ⟨hf1, hp1, hd⟩ := step_inv Ann hf hp (hev e (by simp))
    have ih' := ih hf1 hp1 (fun x hx => hev x (by simp [hx]))
    simp only [run]
    rw [delivered_append, ih']
    rcases hd with ⟨hd0, hn⟩ | ⟨b0, hd0, _, _, hn⟩
    · rw [hd0, hn]; simp
    · rw [hd0, hn]; simp; omega
end

end Aergo.Sync
