/-
Progress of the fetcher/processor state machine (C17): the bookkeeping invariant `LCore`/`Quiet`
and its preservation by every step, and `progress_core`: a session that is not halted has a named
step that changes it, unless everything announced so far has been connected.

`LCore s B E`: the heights `[nextNo s, B)` are owned exactly once by the "fetched stage" (rest of
the current connect task, connect queue, retry queue, running tasks — counted by `fcov`); the
pending tasks followed by the waiting hash sets cover `[B, E)` in order without gap (`Contig`);
the connect queue is sorted; peers are conserved (`free + running + bad = total`) and not all bad
while the session is not halted; retry tasks have `retry > 0`, pending ones `retry = 0`.
`Quiet s`: when no block is being connected, nothing can be taken from the connect queue.

Core Lean only.
-/
import Aergo.Lemmas.Sync

namespace Aergo.Sync

/-- 1 if `n` lies in `[st, st+len)`, else 0. -/
def inR (st len n : Nat) : Nat := if st ≤ n ∧ n < st + len then 1 else 0

def covT : List Task → Nat → Nat
  | [], _ => 0
  | t :: r, n => inR t.startNo t.hashes.length n + covT r n

def covC : List ConnTask → Nat → Nat
  | [], _ => 0
  | c :: r, n => inR c.firstNo c.blocks.length n + covC r n

def covCur : Option ConnTask → Nat → Nat
  | none, _ => 0
  | some c, n => inR (c.firstNo + c.cur + 1) (c.blocks.length - c.cur - 1) n

/-- Heights owned by the fetched stage: rest of the current connect task, connect queue, retry queue, running tasks. -/
def fcov (s : St) (n : Nat) : Nat :=
  covCur s.curConn n + covC s.connQ n + covT s.retryQ n + covT s.running n

theorem covT_append (a b : List Task) (n : Nat) : covT (a ++ b) n = covT a n + covT b n := by
  induction a with
  | nil => simp [covT]
  | cons x r ih => simp [covT, ih]; omega

theorem covT_reverse (a : List Task) (n : Nat) : covT a.reverse n = covT a n := by
  induction a with
  | nil => rfl
  | cons x r ih => simp [covT_append, covT, ih]; omega

theorem covT_pushRetry (q : List Task) (t : Task) (n : Nat) :
    covT (pushRetry q t) n = inR t.startNo t.hashes.length n + covT q n := by
  induction q with
  | nil => simp [pushRetry, covT]
  | cons c r ih =>
    simp only [pushRetry]
    split
    · simp [covT]
    · simp [covT, ih]; omega

theorem covC_pushConn (q : List ConnTask) (c : ConnTask) (n : Nat) :
    covC (pushConn q c) n = inR c.firstNo c.blocks.length n + covC q n := by
  induction q with
  | nil => simp [pushConn, covC]
  | cons x r ih =>
    simp only [pushConn]
    split
    · simp [covC]
    · simp [covC, ih]; omega

theorem covT_findTask (p : Task → Bool) : ∀ (l : List Task) t r, findTask p l = some (t, r) →
    ∀ n, covT l n = inR t.startNo t.hashes.length n + covT r n := by
  intro l
  induction l with
  | nil => intro t r h; simp [findTask] at h
  | cons a l ih =>
    intro t r h n
    simp only [findTask] at h
    split at h
    · simp at h; obtain ⟨rfl, rfl⟩ := h; simp [covT]
    · split at h
      · simp at h
      · rename_i x r' heq
        simp at h; obtain ⟨rfl, rfl⟩ := h
        simp [covT, ih _ _ heq n]; omega

theorem covT_map_age (l : List Task) (d n : Nat) :
    covT (l.map fun t => { t with age := t.age + d }) n = covT l n := by
  induction l with
  | nil => rfl
  | cons x r ih => simp [covT, ih]

theorem covT_cut (size : Nat) (hsz : 0 < size) : ∀ fuel st (hs : List Nat), hs.length ≤ fuel →
    ∀ n, covT (cutTasks size fuel st hs) n = inR st hs.length n := by
  intro fuel
  induction fuel with
  | zero =>
    intro st hs hle n
    have : hs = [] := by cases hs <;> simp_all
    subst this
    simp [cutTasks, covT, inR]
  | succ k ih =>
    intro st hs hle n
    simp only [cutTasks]
    split
    · rename_i he
      have : hs = [] := by simpa using he
      subst this
      simp [covT, inR]
    · rename_i hne
      have hpos : 0 < hs.length := by
        cases hs with
        | nil => simp at hne
        | cons a r => simp
      have hsz' : ¬ size = 0 := by omega
      simp only [hsz', ↓reduceIte, covT]
      rw [ih _ _ (by simp; omega)]
      simp [inR]
      by_cases h1 : size ≤ hs.length
      · simp [Nat.min_eq_left h1]
        repeat' split
        all_goals omega
      · have h2 : hs.length ≤ size := by omega
        simp [Nat.min_eq_right h2]
        repeat' split
        all_goals omega


def rngT (t : Task) : Nat × Nat := (t.startNo, t.hashes.length)
def rngH (p : Nat × List Nat) : Nat × Nat := (p.1, p.2.length)

/-- The ranges follow one another without gap from `b` to `e`. -/
def Contig : Nat → List (Nat × Nat) → Nat → Prop
  | b, [], e => b = e
  | b, (st, len) :: r, e => st = b ∧ Contig (b + len) r e

def SortedC : List ConnTask → Prop
  | [] => True
  | [_] => True
  | a :: b :: r => a.firstNo ≤ b.firstNo ∧ SortedC (b :: r)

theorem Contig_le : ∀ (l : List (Nat × Nat)) b e, Contig b l e → b ≤ e := by
  intro l
  induction l with
  | nil => intro b e h; simp [Contig] at h; omega
  | cons x r ih =>
    intro b e h
    obtain ⟨st, len⟩ := x
    simp [Contig] at h
    have := ih _ _ h.2
    omega

theorem Contig_append_single : ∀ (l : List (Nat × Nat)) b e len, Contig b l e →
    Contig b (l ++ [(e, len)]) (e + len) := by
  intro l
  induction l with
  | nil => intro b e len h; simp [Contig] at h; subst h; simp [Contig]
  | cons x r ih =>
    intro b e len h
    obtain ⟨st, l0⟩ := x
    simp [Contig] at h ⊢
    exact ⟨h.1, ih _ _ _ h.2⟩

theorem SortedC_pushConn : ∀ (q : List ConnTask) (c : ConnTask), SortedC q → SortedC (pushConn q c) := by
  intro q
  induction q with
  | nil => intro c _; simp [pushConn, SortedC]
  | cons a r ih =>
    intro c hs
    simp only [pushConn]
    split
    · rename_i hlt
      exact ⟨by omega, hs⟩
    · rename_i hnlt
      have hr : SortedC r := by
        cases r with
        | nil => trivial
        | cons b r' => exact hs.2
      have := ih c hr
      cases r with
      | nil => simp [pushConn, SortedC]; omega
      | cons b r' =>
        simp only [pushConn] at this ⊢
        split
        · rename_i h2
          simp only [h2, ↓reduceIte] at this
          exact ⟨by omega, this⟩
        · rename_i h2
          simp only [h2, ↓reduceIte] at this
          exact ⟨hs.1, this⟩

theorem SortedC_head_le : ∀ (q : List ConnTask) a, SortedC (a :: q) → ∀ c, c ∈ q → a.firstNo ≤ c.firstNo := by
  intro q
  induction q with
  | nil => intro a _ c hc; simp at hc
  | cons b r ih =>
    intro a hs c hc
    simp at hc
    rcases hc with rfl | hc
    · exact hs.1
    · have := ih b hs.2 c hc
      have := hs.1
      omega

theorem SortedC_tail : ∀ (q : List ConnTask) a, SortedC (a :: q) → SortedC q := by
  intro q a h
  cases q with
  | nil => trivial
  | cons b r => exact h.2


/-- Nothing more can be taken from the connect queue right now. -/
def Quiet (s : St) : Prop :=
  s.curBlock = none → advanceCur s.curConn = none ∧ ∀ c r, s.connQ = c :: r → c.firstNo ≠ s.prev.no + 1

/-- Bookkeeping invariant behind progress. `B`: first height not yet given to a peer; `E`: first
height not yet announced. Heights `[nextNo, B)` are owned exactly once by the fetched stage,
`[B, E)` is what pending tasks and waiting hash sets cover, in order. -/
structure LCore (s : St) (B E : Nat) : Prop where
  tile : ∀ n, fcov s n = inR (nextNo s) (B - nextNo s) n
  le1 : nextNo s ≤ B
  contig : Contig B (s.pending.map rngT ++ s.hfq.map rngH) E
  sorted : SortedC s.connQ
  peers : s.free.length + s.running.length + s.bad = s.total
  alive : s.halted = false → s.bad < s.total
  retryPos : ∀ t, t ∈ s.retryQ → 0 < t.retry
  pendZero : ∀ t, t ∈ s.pending → t.retry = 0
  hfqNe : ∀ p, p ∈ s.hfq → p.2 ≠ []
  runPeer : ∀ t, t ∈ s.running → t.peer ≠ none

theorem covCur_advance_none (c : Option ConnTask) (h : advanceCur c = none) (n : Nat) : covCur c n = 0 := by
  cases c with
  | none => rfl
  | some c =>
    simp only [advanceCur] at h
    split at h
    · rename_i hge
      simp [covCur, inR]
      omega
    · simp at h

theorem inR_succ (A B n : Nat) (h : A < B) : inR A (B - A) n = (if n = A then 1 else 0) + inR (A + 1) (B - (A + 1)) n := by
  simp only [inR]
  repeat' split
  all_goals omega

theorem inR_extend (A B len n : Nat) (h : A ≤ B) : inR A (B + len - A) n = inR A (B - A) n + inR B len n := by
  simp only [inR]
  repeat' split
  all_goals omega

theorem failPeer_counts (s : St) (p : Peer) :
    (failPeer s p).free.length + (failPeer s p).bad = s.free.length + s.bad + 1 ∧
    (failPeer s p).total = s.total ∧ (failPeer s p).halted = s.halted ∧ s.bad ≤ (failPeer s p).bad := by
  unfold failPeer; split <;> simp <;> omega

/-- Moving one fetched task from `running` to the retry queue through `failTask`. -/
theorem failTask_lcore {s s1 : St} {t : Task} {R : List Task} {B E : Nat} (hl : LCore s B E) (hq : Quiet s)
    (hcov : ∀ n, covT s.running n = inR t.startNo t.hashes.length n + covT R n)
    (hlen : R.length + 1 = s.running.length) (hsub : ∀ x, x ∈ R → x ∈ s.running)
    (h : failTask { s with running := R } t = .ok s1) : LCore s1 B E ∧ Quiet s1 := by
  unfold failTask at h
  split at h
  · simp at h
  · rename_i p hp
    simp only at h
    obtain ⟨hc1, hc2, hc3, hc4⟩ := failPeer_counts { s with running := R } { p with failCnt := p.failCnt + 1 }
    have f1 := failPeer_running { s with running := R } { p with failCnt := p.failCnt + 1 }
    have f2 := failPeer_pending { s with running := R } { p with failCnt := p.failCnt + 1 }
    have f3 := failPeer_retryQ { s with running := R } { p with failCnt := p.failCnt + 1 }
    have f4 := failPeer_hfq { s with running := R } { p with failCnt := p.failCnt + 1 }
    have f5 := failPeer_connQ { s with running := R } { p with failCnt := p.failCnt + 1 }
    have f6 := failPeer_curConn { s with running := R } { p with failCnt := p.failCnt + 1 }
    have f7 := failPeer_prev { s with running := R } { p with failCnt := p.failCnt + 1 }
    have f8 := failPeer_curBlock { s with running := R } { p with failCnt := p.failCnt + 1 }
    generalize failPeer { s with running := R } { p with failCnt := p.failCnt + 1 } = s0 at *
    dsimp only at hc1 hc2 hc3 hc4 f1 f2 f3 f4 f5 f6 f7 f8
    split at h
    · simp at h
    · rename_i hne
      simp only [Except.ok.injEq] at h
      subst h
      have hpeers := hl.peers
      constructor
      · constructor
        · intro n
          have := hl.tile n
          simp only [fcov, nextNo, f1, f3, f5, f6, f7, f8, covT_pushRetry] at this ⊢
          rw [hcov n] at this
          omega
        · simpa [nextNo, f7, f8] using hl.le1
        · simpa [f2, f4] using hl.contig
        · simpa [f5] using hl.sorted
        · dsimp only; rw [f1]; omega
        · intro _; dsimp only; omega
        · intro x hx
          simp [mem_pushRetry, f3] at hx
          rcases hx with rfl | hx
          · simp
          · exact hl.retryPos x hx
        · simpa [f2] using hl.pendZero
        · simpa [f4] using hl.hfqNe
        · intro x hx
          simp [f1] at hx
          exact hl.runPeer x (hsub x hx)
      · intro hcb
        simp [f8] at hcb
        have := hq hcb
        simpa [f5, f6, f7] using this


theorem failPeer_setRunning (s : St) (p : Peer) (R : List Task) :
    failPeer { s with running := R } p = { failPeer s p with running := R } := by
  unfold failPeer; split <;> rfl

theorem failTask_setRunning {s s1 : St} {t : Task} (R : List Task) (h : failTask s t = .ok s1) :
    failTask { s with running := R } t = .ok { s1 with running := R } := by
  unfold failTask at h ⊢
  split at h
  · simp at h
  · rename_i p hp
    simp only at h ⊢
    rw [failPeer_setRunning]
    split at h
    · simp at h
    · rename_i hne
      simp only [Except.ok.injEq] at h
      subst h
      simp only at hne ⊢
      rw [if_neg hne]

/-- `checkTaskTimeout`: the walk over the running queue. The state's own `running` field is not
read during the walk; the queue it stands for is `keep.reverse ++ l`. -/
theorem timeoutWalk_lcore {B E : Nat} : ∀ (l : List Task) (s s' : St) (keep : List Task),
    LCore { s with running := keep.reverse ++ l } B E → Quiet s →
    timeoutWalk s l keep = .ok s' → LCore s' B E ∧ Quiet s' := by
  intro l
  induction l with
  | nil =>
    intro s s' keep hl hq h
    simp [timeoutWalk] at h
    subst h
    simp at hl
    exact ⟨hl, hq⟩
  | cons t r ih =>
    intro s s' keep hl hq h
    simp only [timeoutWalk] at h
    split at h
    · split at h
      · simp at h
      · rename_i s1 heq
        have h1 := failTask_setRunning (keep.reverse ++ r) heq
        have hq0 : Quiet { s with running := keep.reverse ++ t :: r } := hq
        obtain ⟨hl1, hq1⟩ := failTask_lcore (t := t) (R := keep.reverse ++ r) hl hq0
          (by intro n; simp [covT_append, covT]; omega) (by simp; omega) (by intro x hx; simp at hx ⊢; rcases hx with hx | hx <;> simp [hx])
          (by simpa using h1)
        exact ih s1 s' keep hl1 hq1 h
    · apply ih s s' (t :: keep) ?_ hq h
      simpa using hl

theorem tick_lcore {s s' : St} {d B E : Nat} (hl : LCore s B E) (hq : Quiet s) (h : tick s d = .ok s') :
    LCore s' B E ∧ Quiet s' := by
  unfold tick at h
  simp only at h
  refine timeoutWalk_lcore _ _ _ [] ?_ (by exact hq) h
  simp only [List.reverse_nil, List.nil_append]
  constructor
  · intro n; have := hl.tile n; simpa [fcov, nextNo, covT_map_age] using this
  · exact hl.le1
  · exact hl.contig
  · exact hl.sorted
  · simpa using hl.peers
  · exact hl.alive
  · exact hl.retryPos
  · exact hl.pendZero
  · exact hl.hfqNe
  · intro x hx
    simp at hx
    obtain ⟨x0, h0, rfl⟩ := hx
    exact hl.runPeer x0 h0


theorem Contig_cut (size : Nat) (hsz : 0 < size) : ∀ fuel st (hs : List Nat) rest e, hs.length ≤ fuel →
    Contig (st + hs.length) rest e → Contig st ((cutTasks size fuel st hs).map rngT ++ rest) e := by
  intro fuel
  induction fuel with
  | zero =>
    intro st hs rest e hle h
    have : hs = [] := by cases hs <;> simp_all
    subst this
    simpa [cutTasks] using h
  | succ k ih =>
    intro st hs rest e hle h
    simp only [cutTasks]
    split
    · rename_i he
      have : hs = [] := by simpa using he
      subst this
      simpa using h
    · rename_i hne
      have hsz' : ¬ size = 0 := by omega
      simp only [hsz', ↓reduceIte, List.map_cons, List.cons_append, rngT, Contig, List.length_take, true_and]
      have h2 : min (min size hs.length) hs.length = min size hs.length := by omega
      rw [h2]
      apply ih
      · simp; omega
      · simp
        have : st + min size hs.length + (hs.length - min size hs.length) = st + hs.length := by omega
        rw [this]
        exact h

theorem cutTasks_retry (size : Nat) : ∀ fuel st (hs : List Nat) t, t ∈ cutTasks size fuel st hs → t.retry = 0 := by
  intro fuel
  induction fuel with
  | zero => intro st hs t h; simp [cutTasks] at h
  | succ k ih =>
    intro st hs t h
    simp only [cutTasks] at h
    split at h
    · simp at h
    · simp at h
      rcases h with rfl | h
      · rfl
      · exact ih _ _ _ h

theorem cutTasks_ne (size : Nat) (fuel st : Nat) (hs : List Nat) (hne : hs ≠ []) (hf : 0 < fuel) :
    cutTasks size fuel st hs ≠ [] := by
  cases fuel with
  | zero => omega
  | succ k =>
    simp only [cutTasks]
    have : hs.isEmpty = false := by cases hs <;> simp_all
    simp [this]

/-- What `searchCandidateTask` returns, and that it keeps the bookkeeping. -/
theorem searchCandidate_lcore {s : St} {B E : Nat} (hl : LCore s B E) (hq : Quiet s) (hsz : 0 < s.cfg.maxFetchSize) :
    LCore (searchCandidate s).1 B E ∧ Quiet (searchCandidate s).1 ∧
    (searchCandidate s).1.free = s.free ∧ (searchCandidate s).1.running = s.running ∧
    (searchCandidate s).1.connQ = s.connQ ∧ (searchCandidate s).1.total = s.total ∧ (searchCandidate s).1.bad = s.bad ∧
    (searchCandidate s).1.cfg = s.cfg ∧
    (∀ t, (searchCandidate s).2 = some t →
      (∃ r, (searchCandidate s).1.retryQ = t :: r ∧ 0 < t.retry) ∨
      ((searchCandidate s).1.retryQ = [] ∧ ∃ r, (searchCandidate s).1.pending = t :: r ∧ t.retry = 0)) ∧
    ((searchCandidate s).2 = none → s.retryQ = [] ∧ s.pending = [] ∧ s.hfq = []) := by
  unfold searchCandidate
  split
  · rename_i t r heq
    refine ⟨hl, hq, rfl, rfl, rfl, rfl, rfl, rfl, ?_, by simp⟩
    intro t' ht'
    simp at ht'; subst ht'
    exact Or.inl ⟨r, heq, hl.retryPos t (by simp [heq])⟩
  · rename_i hr
    split
    · rename_i t r heq
      refine ⟨hl, hq, rfl, rfl, rfl, rfl, rfl, rfl, ?_, by simp⟩
      intro t' ht'
      simp at ht'; subst ht'
      exact Or.inr ⟨hr, r, heq, hl.pendZero t (by simp [heq])⟩
    · rename_i hp
      split
      · rename_i hh
        exact ⟨hl, hq, rfl, rfl, rfl, rfl, rfl, rfl, by simp, fun _ => ⟨hr, hp, hh⟩⟩
      · rename_i st hs q heq
        have hcon := hl.contig
        rw [hp, heq] at hcon
        simp [rngH, Contig] at hcon
        obtain ⟨hst, hcon⟩ := hcon
        subst hst
        have hne : hs ≠ [] := hl.hfqNe (st, hs) (by simp [heq])
        refine ⟨?_, hq, rfl, rfl, rfl, rfl, rfl, rfl, ?_, ?_⟩
        · constructor
          · exact hl.tile
          · exact hl.le1
          · exact Contig_cut _ hsz _ _ _ _ _ (Nat.le_refl _) hcon
          · exact hl.sorted
          · exact hl.peers
          · exact hl.alive
          · exact hl.retryPos
          · intro t ht; exact cutTasks_retry _ _ _ _ t ht
          · intro p hp'; exact hl.hfqNe p (by simp [heq, hp'])
          · exact hl.runPeer
        · intro t ht
          simp only at ht
          cases hc : cutTasks s.cfg.maxFetchSize hs.length st hs with
          | nil => rw [hc] at ht; simp at ht
          | cons a r =>
            rw [hc] at ht; simp at ht; subst ht
            refine Or.inr ⟨hr, r, by simp, cutTasks_retry _ _ _ _ a (by rw [hc]; simp)⟩
        · intro hnone
          simp only at hnone
          have hpos : 0 < hs.length := by cases hs <;> simp_all
          have := cutTasks_ne s.cfg.maxFetchSize hs.length st hs hne hpos
          cases hc : cutTasks s.cfg.maxFetchSize hs.length st hs with
          | nil => exact absurd hc this
          | cons a r => rw [hc] at hnone; simp at hnone


theorem scheduleLoop_lcore {E : Nat} : ∀ fuel (s s' : St) outs B, LCore s B E → Quiet s → 0 < s.cfg.maxFetchSize →
    scheduleLoop fuel s = .ok (s', outs) →
    ∃ B', LCore s' B' E ∧ Quiet s' ∧ s.running.length ≤ s'.running.length ∧ s'.halted = s.halted := by
  intro fuel
  induction fuel with
  | zero =>
    intro s s' outs B hl hq _ h
    simp [scheduleLoop] at h
    obtain ⟨rfl, rfl⟩ := h
    exact ⟨B, hl, hq, Nat.le_refl _, rfl⟩
  | succ k ih =>
    intro s s' outs B hl hq hsz h
    simp only [scheduleLoop] at h
    split at h
    · simp at h; obtain ⟨rfl, rfl⟩ := h; exact ⟨B, hl, hq, Nat.le_refl _, rfl⟩
    · rename_i p free' hfree
      split at h
      · simp at h; obtain ⟨rfl, rfl⟩ := h; exact ⟨B, hl, hq, Nat.le_refl _, rfl⟩
      · obtain ⟨hl1, hq1, e1, e2, e3, e4, e5, e6, hc, _⟩ := searchCandidate_lcore hl hq hsz
        have eh : (searchCandidate s).1.halted = s.halted := by
          unfold searchCandidate; repeat' split
          all_goals rfl
        generalize hsc : searchCandidate s = sc at h hl1 hq1 e1 e2 e3 e4 e5 e6 hc eh
        obtain ⟨s1, cand⟩ := sc
        simp only at h hl1 hq1 e1 e2 e3 e4 e5 e6 hc eh
        split at h
        · simp at h; obtain ⟨rfl, rfl⟩ := h; exact ⟨B, hl1, hq1, by rw [e2]; exact Nat.le_refl _, eh⟩
        · rename_i t
          split at h
          · simp at h; obtain ⟨rfl, rfl⟩ := h; exact ⟨B, hl1, hq1, by rw [e2]; exact Nat.le_refl _, eh⟩
          · split at h
            · simp at h
            · split at h
              · simp at h
              · rename_i s2 outs2 heq
                simp at h
                obtain ⟨rfl, rfl⟩ := h
                have hfree1 : s1.free = p :: free' := by rw [e1]; exact hfree
                rcases hc t rfl with ⟨r, hr, hpos⟩ | ⟨hr0, r, hpd, hz⟩
                · -- a retry task goes back to running
                  have hpos' : t.retry > 0 := hpos
                  simp only [hpos', ↓reduceIte] at heq
                  have hl2 : LCore ({ ({ s1 with retryQ := s1.retryQ.tail } : St) with free := free', running := ({ s1 with retryQ := s1.retryQ.tail } : St).running ++ [{ t with peer := some p, age := 0 }] } : St) B E := by
                    constructor
                    · intro n
                      have := hl1.tile n
                      simp only [fcov, nextNo, hr, List.tail_cons, covT_append, covT] at this ⊢
                      omega
                    · exact hl1.le1
                    · exact hl1.contig
                    · exact hl1.sorted
                    · have := hl1.peers; simp [hfree1] at this ⊢; omega
                    · exact hl1.alive
                    · intro x hx; exact hl1.retryPos x (List.mem_of_mem_tail hx)
                    · exact hl1.pendZero
                    · exact hl1.hfqNe
                    · intro x hx; simp at hx
                      rcases hx with hx | rfl
                      · exact hl1.runPeer x hx
                      · simp
                  obtain ⟨B', h1, h2, h3, h4⟩ := ih _ _ _ B hl2 hq1 (by rw [← e6] at hsz; exact hsz) heq
                  refine ⟨B', h1, h2, ?_, by rw [h4]; exact eh⟩
                  simp at h3; rw [← e2]; omega
                · -- the next pending task starts: the fetched stage grows by its range
                  have hz' : ¬ t.retry > 0 := by omega
                  simp only [hz', ↓reduceIte] at heq
                  have hcon := hl1.contig
                  rw [hpd] at hcon
                  simp [rngT, Contig] at hcon
                  obtain ⟨hst, hcon⟩ := hcon
                  subst hst
                  have hl2 : LCore ({ ({ s1 with pending := s1.pending.tail } : St) with free := free', running := ({ s1 with pending := s1.pending.tail } : St).running ++ [{ t with peer := some p, age := 0 }] } : St) (t.startNo + t.hashes.length) E := by
                    constructor
                    · intro n
                      have := hl1.tile n
                      have hle := hl1.le1
                      simp only [fcov, nextNo, covT_append, covT] at this ⊢ hle
                      rw [inR_extend _ _ _ _ hle]
                      omega
                    · have := hl1.le1; simp only [nextNo] at this ⊢; omega
                    · simpa [hpd] using hcon
                    · exact hl1.sorted
                    · have := hl1.peers; simp [hfree1] at this ⊢; omega
                    · exact hl1.alive
                    · exact hl1.retryPos
                    · intro x hx; exact hl1.pendZero x (List.mem_of_mem_tail hx)
                    · exact hl1.hfqNe
                    · intro x hx; simp at hx
                      rcases hx with hx | rfl
                      · exact hl1.runPeer x hx
                      · simp
                  obtain ⟨B', h1, h2, h3, h4⟩ := ih _ _ _ _ hl2 hq1 (by rw [← e6] at hsz; exact hsz) heq
                  refine ⟨B', h1, h2, ?_, by rw [h4]; exact eh⟩
                  simp at h3; rw [← e2]; omega


section
variable (Ann : Nat → Nat → Prop)

theorem inR_self_pos (A len : Nat) (h : 0 < len) : inR A len A = 1 := by
  simp [inR]; omega

theorem lt_of_tile_pos {A B : Nat} (h : 1 ≤ inR A (B - A) A) : A < B := by
  simp only [inR] at h
  split at h <;> omega

theorem connectNext_lcore {s s' : St} {outs : List Out} {B E : Nat} (hp : PInv Ann s) (hl : LCore s B E)
    (h : connectNext s = .ok (s', outs)) : LCore s' B E ∧ Quiet s' := by
  unfold connectNext at h
  split at h
  · rename_i hcb
    simp at h; obtain ⟨rfl, rfl⟩ := h
    refine ⟨hl, ?_⟩
    intro hn; rw [hn] at hcb; simp at hcb
  · rename_i hcb
    have hcb' : s.curBlock = none := by simpa using hcb
    have hA : nextNo s = s.prev.no + 1 := by simp [nextNo, hcb']
    split at h
    · -- nothing to take
      rename_i hpick
      simp at h; obtain ⟨rfl, rfl⟩ := h
      unfold pickConn at hpick
      split at hpick
      · simp at hpick
      · rename_i hadv
        split at hpick
        · rename_i hpop
          constructor
          · constructor
            · intro n
              have := hl.tile n
              have hz := covCur_advance_none _ hadv n
              simp only [fcov, nextNo] at this ⊢
              rw [hz] at this
              simp only [covCur]
              omega
            · exact hl.le1
            · exact hl.contig
            · exact hl.sorted
            · exact hl.peers
            · exact hl.alive
            · exact hl.retryPos
            · exact hl.pendZero
            · exact hl.hfqNe
            · exact hl.runPeer
          · intro _
            refine ⟨rfl, ?_⟩
            intro c r hq
            simp only at hq
            unfold popConn at hpop
            rw [hq] at hpop
            simp only at hpop
            split at hpop
            · assumption
            · simp at hpop
        · simp at hpick
    · rename_i s1 c hpick
      split at h
      · simp at h
      · rename_i b hb
        simp at h; obtain ⟨rfl, rfl⟩ := h
        refine ⟨?_, by intro hn; simp at hn⟩
        unfold pickConn at hpick
        split at hpick
        · -- next block of the current request
          rename_i c1 hadv
          simp at hpick
          obtain ⟨rfl, rfl⟩ := hpick
          unfold advanceCur at hadv
          split at hadv
          · simp at hadv
          · rename_i c0 hc0
            split at hadv
            · simp at hadv
            · rename_i hlt
              simp at hadv
              subst hadv
              obtain ⟨hok, hcur⟩ := hp.cur c0 hc0
              rw [hcb'] at hcur
              obtain ⟨b0, hb0, hno⟩ := hcur
              have h0 := (hok.2 c0.cur b0 hb0).1
              have hlen : c0.cur + 1 < c0.blocks.length := by omega
              have hfa : c0.firstNo + c0.cur + 1 = nextNo s := by rw [hA]; omega
              have hpos : 1 ≤ inR (nextNo s) (B - nextNo s) (nextNo s) := by
                rw [← hl.tile (nextNo s)]
                simp only [fcov, hc0, covCur, hfa]
                have := inR_self_pos (nextNo s) (c0.blocks.length - c0.cur - 1) (by omega)
                omega
              have hAB := lt_of_tile_pos hpos
              have hb1 : b.no = nextNo s := by
                have := (hok.2 (c0.cur + 1) b (by simpa using hb)).1
                omega
              constructor
              · intro n
                have := hl.tile n
                simp only [fcov, hc0, covCur, hfa] at this
                simp only [fcov, nextNo, covCur]
                rw [hb1]
                rw [inR_succ _ _ n hAB] at this
                have e1 : c0.firstNo + (c0.cur + 1) + 1 = nextNo s + 1 := by omega
                have e2 : c0.blocks.length - (c0.cur + 1) - 1 = c0.blocks.length - c0.cur - 1 - 1 := by omega
                rw [e1, e2]
                have hsplit : inR (nextNo s) (c0.blocks.length - c0.cur - 1) n =
                    (if n = nextNo s then 1 else 0) + inR (nextNo s + 1) (c0.blocks.length - c0.cur - 1 - 1) n := by
                  simp only [inR]; repeat' split
                  all_goals omega
                rw [hsplit] at this
                omega
              · simp only [nextNo]; rw [hb1]; omega
              · exact hl.contig
              · exact hl.sorted
              · exact hl.peers
              · exact hl.alive
              · exact hl.retryPos
              · exact hl.pendZero
              · exact hl.hfqNe
              · exact hl.runPeer
        · rename_i hadv
          split at hpick
          · simp at hpick
          · rename_i c1 q hpop
            simp at hpick
            obtain ⟨rfl, rfl⟩ := hpick
            unfold popConn at hpop
            split at hpop
            · simp at hpop
            · rename_i c0 r hq
              split at hpop
              · simp at hpop
              · rename_i hfirst
                simp at hpop
                obtain ⟨rfl, rfl⟩ := hpop
                obtain ⟨hok, hcur0⟩ := hp.connq c0 (by simp [hq])
                have hfa : c0.firstNo = nextNo s := by rw [hA]; simpa using hfirst
                have hlenpos : 0 < c0.blocks.length := by
                  cases hbl : c0.blocks with
                  | nil => exact absurd hbl hok.1
                  | cons _ _ => simp
                have hpos : 1 ≤ inR (nextNo s) (B - nextNo s) (nextNo s) := by
                  rw [← hl.tile (nextNo s)]
                  simp only [fcov, hq, covC, hfa]
                  have := inR_self_pos (nextNo s) c0.blocks.length hlenpos
                  omega
                have hAB := lt_of_tile_pos hpos
                have hb1 : b.no = nextNo s := by
                  have := (hok.2 c0.cur b (by simpa using hb)).1
                  omega
                constructor
                · intro n
                  have := hl.tile n
                  simp only [fcov, hq, covC, hfa, covCur_advance_none _ hadv n] at this
                  simp only [fcov, nextNo, covCur]
                  rw [hb1, hcur0, hfa]
                  rw [inR_succ _ _ n hAB] at this
                  have hsplit : inR (nextNo s) c0.blocks.length n =
                      (if n = nextNo s then 1 else 0) + inR (nextNo s + 0 + 1) (c0.blocks.length - 0 - 1) n := by
                    simp only [inR]; repeat' split
                    all_goals omega
                  rw [hsplit] at this
                  omega
                · simp only [nextNo]; rw [hb1]; omega
                · exact hl.contig
                · have := hl.sorted; rw [hq] at this; exact SortedC_tail _ _ this
                · exact hl.peers
                · exact hl.alive
                · exact hl.retryPos
                · exact hl.pendZero
                · exact hl.hfqNe
                · exact hl.runPeer

theorem chunkRsp_lcore {s s' : St} {peer : Nat} {err : Bool} {blocks : List Blk} {outs : List Out} {B E : Nat}
    (hf : FInv Ann s) (hp : PInv Ann s) (hl : LCore s B E) (hq : Quiet s)
    (hev : ∀ b, b ∈ blocks → ∀ n, Ann n b.hash → b.no = n)
    (h : chunkRsp s peer err blocks = .ok (s', outs)) : LCore s' B E ∧ Quiet s' := by
  unfold chunkRsp at h
  split at h
  · rename_i hvalid
    split at h
    · simp at h; obtain ⟨rfl, rfl⟩ := h; exact ⟨hl, hq⟩
    · rename_i t run hfind
      obtain ⟨htmem, hmatch, hsub⟩ := findTask_spec _ _ _ _ hfind
      obtain ⟨hhashes, _⟩ := isMatched_spec hmatch
      have htok := hf.run t htmem
      have hne : blocks ≠ [] := by
        intro hnil; subst hnil; simp [validChunk] at hvalid
      have hfirst : (blocks.head?.map (·.no)).getD 0 = t.startNo := by
        cases hbl : blocks with
        | nil => exact absurd hbl hne
        | cons b0 r =>
          have hh : t.hashes[0]? = some b0.hash := by rw [hhashes, hbl]; simp
          have := hev b0 (by simp [hbl]) _ (htok 0 b0.hash hh)
          simp [this]
      have hlen : blocks.length = t.hashes.length := by rw [hhashes]; simp
      simp only at h
      -- the peer of the task
      cases hpeer : t.peer with
      | none => exact absurd hpeer (hl.runPeer t htmem)
      | some p =>
        rw [hpeer] at h
        simp only [freePeer] at h
        have hl1 : LCore { ({ ({ s with running := run } : St) with free := ({ s with running := run } : St).free ++ [p] } : St) with
            connQ := pushConn ({ ({ s with running := run } : St) with free := ({ s with running := run } : St).free ++ [p] } : St).connQ
              ⟨blocks, (blocks.head?.map (·.no)).getD 0, 0⟩ } B E := by
          constructor
          · intro n
            have := hl.tile n
            simp only [fcov, nextNo, covC_pushConn, hfirst, hlen] at this ⊢
            rw [covT_findTask _ _ _ _ hfind n] at this
            omega
          · exact hl.le1
          · exact hl.contig
          · exact SortedC_pushConn _ _ hl.sorted
          · have := hl.peers
            have := findTask_length _ _ _ _ hfind
            simp at *
            omega
          · exact hl.alive
          · exact hl.retryPos
          · exact hl.pendZero
          · exact hl.hfqNe
          · intro x hx; exact hl.runPeer x (hsub x hx)
        have hp1 : PInv Ann { ({ ({ s with running := run } : St) with free := ({ s with running := run } : St).free ++ [p] } : St) with
            connQ := pushConn ({ ({ s with running := run } : St) with free := ({ s with running := run } : St).free ++ [p] } : St).connQ
              ⟨blocks, (blocks.head?.map (·.no)).getD 0, 0⟩ } := by
          constructor
          · intro c hc
            simp only [mem_pushConn] at hc
            rcases hc with rfl | hc
            · refine ⟨⟨hne, ?_⟩, rfl⟩
              intro i b hib
              simp only at hib ⊢
              rw [hfirst]
              have hh : t.hashes[i]? = some b.hash := by rw [hhashes]; simp [hib]
              have hann := htok i b.hash hh
              have hno := hev b (List.mem_of_getElem? hib) _ hann
              exact ⟨hno, by rw [hno]; exact hann⟩
            · exact hp.connq c hc
          · exact hp.cur
        exact connectNext_lcore Ann hp1 hl1 h
  · split at h
    · simp at h; obtain ⟨rfl, rfl⟩ := h; exact ⟨hl, hq⟩
    · rename_i t run hfind
      obtain ⟨htmem, _, hsub⟩ := findTask_spec _ _ _ _ hfind
      split at h
      · simp at h
      · rename_i s1 hft
        simp at h; obtain ⟨rfl, rfl⟩ := h
        exact failTask_lcore hl hq (covT_findTask _ _ _ _ hfind) (findTask_length _ _ _ _ hfind) hsub hft

theorem addRsp_lcore {s s' : St} {no hash : Nat} {err nilHash : Bool} {outs : List Out} {B E : Nat}
    (hp : PInv Ann s) (hl : LCore s B E)
    (h : addRsp s no hash err nilHash = .ok (s', outs)) : LCore s' B E ∧ Quiet s' := by
  unfold addRsp at h
  split at h
  · simp at h
  · split at h
    · simp at h
    · split at h
      · simp at h
      · rename_i cb hcb
        split at h
        · simp at h
        · split at h
          · simp at h
          · rename_i s1 outs1 hcn
            simp at h; obtain ⟨rfl, rfl⟩ := h
            have hp0 : PInv Ann { s with prev := cb, curBlock := none } := by
              constructor
              · exact hp.connq
              · intro c hc
                have := hp.cur c hc
                rw [hcb] at this
                exact ⟨this.1, cb, this.2, rfl⟩
            have hl0 : LCore { s with prev := cb, curBlock := none } B E := by
              constructor
              · intro n; have := hl.tile n; simpa [fcov, nextNo, hcb] using this
              · have := hl.le1; simpa [nextNo, hcb] using this
              · exact hl.contig
              · exact hl.sorted
              · exact hl.peers
              · exact hl.alive
              · exact hl.retryPos
              · exact hl.pendZero
              · exact hl.hfqNe
              · exact hl.runPeer
            exact connectNext_lcore Ann hp0 hl0 hcn

/-- Number of heights an event announces. -/
def evLen : Ev → Nat
  | .hashSet _ hs => hs.length
  | _ => 0

/-- One step keeps the bookkeeping (or halts the session), given that hash sets arrive as the hash
fetcher sends them: non-empty and starting right after the last announced height. -/
theorem step_lcore {s : St} {e : Ev} {B E : Nat} (hf : FInv Ann s) (hp : PInv Ann s) (hl : LCore s B E) (hq : Quiet s)
    (hsz : 0 < s.cfg.maxFetchSize) (hev : EvOK Ann e) (hh : s.halted = false)
    (hhs : ∀ st hs, e = .hashSet st hs → st = E ∧ hs ≠ []) :
    (step s e).1.halted = true ∨
    ∃ B', LCore (step s e).1 B' (E + evLen e) ∧ Quiet (step s e).1 := by
  unfold step
  simp only [hh, Bool.false_eq_true, ↓reduceIte]
  have key : ∀ r : Except Err (St × List Out),
      (∀ s' outs, r = .ok (s', outs) → ∃ B', LCore s' B' (E + evLen e) ∧ Quiet s') →
      (match r with | .ok x => x | .error e => ({ s with halted := true }, [Out.stop (some e)])).1.halted = true ∨
      ∃ B', LCore (match r with | .ok x => x | .error e => ({ s with halted := true }, [Out.stop (some e)])).1 B' (E + evLen e) ∧
        Quiet (match r with | .ok x => x | .error e => ({ s with halted := true }, [Out.stop (some e)])).1 := by
    intro r hr
    cases r with
    | error e => exact Or.inl rfl
    | ok x => obtain ⟨s', outs⟩ := x; exact Or.inr (hr s' outs rfl)
  apply key
  intro s' outs hr
  cases e with
  | hashSet st hs =>
    simp at hr; obtain ⟨rfl, rfl⟩ := hr
    obtain ⟨rfl, hne⟩ := hhs st hs rfl
    refine ⟨B, ?_, hq⟩
    constructor
    · exact hl.tile
    · exact hl.le1
    · have := Contig_append_single _ _ _ hs.length hl.contig
      simpa [rngH, evLen, List.append_assoc] using this
    · exact hl.sorted
    · exact hl.peers
    · intro _; exact hl.alive hh
    · exact hl.retryPos
    · exact hl.pendZero
    · intro p hp'
      simp at hp'
      rcases hp' with hp' | rfl
      · exact hl.hfqNe p hp'
      · exact hne
    · exact hl.runPeer
  | sched =>
    simp only [schedule] at hr
    obtain ⟨B', h1, h2, _, _⟩ := scheduleLoop_lcore _ _ _ _ B hl hq hsz hr
    exact ⟨B', by simpa [evLen] using h1, h2⟩
  | tick d =>
    simp only at hr
    cases ht : tick s d with
    | error e => simp [ht, Except.map] at hr
    | ok s1 =>
      simp [ht, Except.map] at hr
      obtain ⟨rfl, rfl⟩ := hr
      obtain ⟨h1, h2⟩ := tick_lcore hl hq ht
      exact ⟨B, by simpa [evLen] using h1, h2⟩
  | chunk peer err blocks =>
    obtain ⟨h1, h2⟩ := chunkRsp_lcore Ann hf hp hl hq hev hr
    exact ⟨B, by simpa [evLen] using h1, h2⟩
  | addRsp no hash err nilHash =>
    obtain ⟨h1, h2⟩ := addRsp_lcore Ann hp hl hr
    exact ⟨B, by simpa [evLen] using h1, h2⟩

theorem covC_pos : ∀ (l : List ConnTask) n, 1 ≤ covC l n →
    ∃ c, c ∈ l ∧ c.firstNo ≤ n ∧ n < c.firstNo + c.blocks.length := by
  intro l
  induction l with
  | nil => intro n h; simp [covC] at h
  | cons a r ih =>
    intro n h
    simp only [covC] at h
    by_cases ha : 1 ≤ inR a.firstNo a.blocks.length n
    · refine ⟨a, by simp, ?_⟩
      simp only [inR] at ha
      split at ha <;> omega
    · obtain ⟨c, hc, h1⟩ := ih n (by omega)
      exact ⟨c, by simp [hc], h1⟩

/-- With nothing running, nothing to retry and no block being connected, the connect queue cannot
hold anything: its lowest entry would be the next block and would have been taken. -/
theorem connQ_empty_of_idle {s : St} {B E : Nat} (hp : PInv Ann s) (hl : LCore s B E) (hq : Quiet s)
    (hcb : s.curBlock = none) (hrun : s.running = []) (hretry : s.retryQ = []) : s.connQ = [] := by
  cases hc : s.connQ with
  | nil => rfl
  | cons c q =>
    exfalso
    obtain ⟨hadv, hhead⟩ := hq hcb
    have hne := hhead c q hc
    have hA : nextNo s = s.prev.no + 1 := by simp [nextNo, hcb]
    have hok := (hp.connq c (by simp [hc])).1
    have hlen : 0 < c.blocks.length := by
      cases hbl : c.blocks with
      | nil => exact absurd hbl hok.1
      | cons _ _ => simp
    have hcov : ∀ n, covC s.connQ n = inR (nextNo s) (B - nextNo s) n := by
      intro n
      have := hl.tile n
      simp only [fcov, hrun, hretry, covT, covCur_advance_none _ hadv n] at this
      omega
    have h1 : 1 ≤ inR (nextNo s) (B - nextNo s) c.firstNo := by
      rw [← hcov c.firstNo, hc]
      simp only [covC]
      have := inR_self_pos c.firstNo c.blocks.length hlen
      omega
    have hAc : nextNo s ≤ c.firstNo ∧ c.firstNo < B := by
      simp only [inR] at h1
      split at h1 <;> omega
    have h2 : 1 ≤ covC s.connQ (nextNo s) := by
      rw [hcov]
      have := inR_self_pos (nextNo s) (B - nextNo s) (by omega)
      omega
    obtain ⟨c', hc', hle, _⟩ := covC_pos _ _ h2
    have hsorted := hl.sorted
    rw [hc] at hsorted hc'
    simp at hc'
    have : c.firstNo ≤ c'.firstNo := by
      rcases hc' with rfl | hc'
      · exact Nat.le_refl _
      · exact SortedC_head_le _ _ hsorted c' hc'
    omega

theorem connectNext_curBlock {s s' : St} {outs : List Out} (hp : PInv Ann s) (hcb : s.curBlock = none)
    (h : connectNext s = .ok (s', outs)) :
    s'.curBlock = none ∨ ∃ b, s'.curBlock = some b ∧ b.no = s.prev.no + 1 := by
  unfold connectNext at h
  simp only [hcb, Option.isSome_none, Bool.false_eq_true, ↓reduceIte] at h
  split at h
  · simp at h; obtain ⟨rfl, rfl⟩ := h; exact Or.inl rfl
  · rename_i s1 c hpick
    obtain ⟨_, ⟨b, hb, hbno⟩, _⟩ := pickConn_spec Ann hp hcb hpick
    rw [hb] at h
    simp at h; obtain ⟨rfl, rfl⟩ := h
    exact Or.inr ⟨b, rfl, hbno⟩

theorem timeoutWalk_all : ∀ (l : List Task) (s s' : St) (keep : List Task),
    (∀ t, t ∈ l → t.age > s.cfg.timeout) → timeoutWalk s l keep = .ok s' → s'.running = keep.reverse := by
  intro l
  induction l with
  | nil => intro s s' keep _ h; simp [timeoutWalk] at h; subst h; rfl
  | cons t r ih =>
    intro s s' keep hall h
    simp only [timeoutWalk] at h
    have ht := hall t (by simp)
    simp only [ht, ↓reduceIte] at h
    split at h
    · simp at h
    · rename_i s1 heq
      have hcfg : s1.cfg = s.cfg := by
        unfold failTask at heq
        split at heq
        · simp at heq
        · simp only at heq
          split at heq
          · simp at heq
          · simp only [Except.ok.injEq] at heq
            subst heq
            unfold failPeer; split <;> rfl
      exact ih s1 s' keep (by intro x hx; rw [hcfg]; exact hall x (by simp [hx])) h

theorem searchCandidate_running (s : St) : (searchCandidate s).1.running = s.running := by
  unfold searchCandidate; repeat' split
  all_goals rfl

theorem scheduleLoop_running_len : ∀ fuel (s s' : St) outs, scheduleLoop fuel s = .ok (s', outs) →
    s.running.length ≤ s'.running.length := by
  intro fuel
  induction fuel with
  | zero => intro s s' outs h; simp [scheduleLoop] at h; obtain ⟨rfl, rfl⟩ := h; exact Nat.le_refl _
  | succ k ih =>
    intro s s' outs h
    simp only [scheduleLoop] at h
    split at h
    · simp at h; obtain ⟨rfl, rfl⟩ := h; exact Nat.le_refl _
    · split at h
      · simp at h; obtain ⟨rfl, rfl⟩ := h; exact Nat.le_refl _
      · have e2 := searchCandidate_running s
        generalize searchCandidate s = sc at h e2
        obtain ⟨s1, cand⟩ := sc
        simp only at h e2
        split at h
        · simp at h; obtain ⟨rfl, rfl⟩ := h; rw [e2]; exact Nat.le_refl _
        · split at h
          · simp at h; obtain ⟨rfl, rfl⟩ := h; rw [e2]; exact Nat.le_refl _
          · split at h
            · simp at h
            · split at h
              · simp at h
              · rename_i s2 outs2 heq
                simp at h; obtain ⟨rfl, rfl⟩ := h
                have := ih _ _ _ heq
                split at this <;> (simp at this; rw [← e2]; omega)

/-- **Progress of the state machine.** -/
theorem progress_core {s : St} {B E : Nat} (hp : PInv Ann s) (hl : LCore s B E) (hq : Quiet s)
    (hh : s.halted = false) (hsz : 0 < s.cfg.maxFetchSize) (htk : 0 < s.cfg.maxFetchTasks)
    (hpc : 0 < s.cfg.maxPendingConn) :
    (s.curBlock = none ∧ nextNo s = E ∧ s.running = [] ∧ s.retryQ = [] ∧ s.pending = [] ∧ s.hfq = [] ∧ s.connQ = []) ∨
    (∃ cb, s.curBlock = some cb ∧ (step s (.addRsp cb.no cb.hash false false)).1 ≠ s) ∨
    (s.running ≠ [] ∧ (step s (.tick (s.cfg.timeout + 1))).1 ≠ s) ∨
    (s.curBlock = none ∧ s.running = [] ∧ (step s .sched).1 ≠ s) := by
  cases hcb : s.curBlock with
  | some cb =>
    refine Or.inr (Or.inl ⟨cb, rfl, ?_⟩)
    unfold step
    simp only [hh, Bool.false_eq_true, ↓reduceIte]
    unfold addRsp
    simp only [Bool.false_eq_true, ↓reduceIte, hcb, ne_eq, not_true_eq_false, or_self]
    cases hcn : connectNext { s with prev := cb, curBlock := none } with
    | error e =>
      simp only
      intro heq
      have := congrArg St.halted heq
      simp [hh] at this
    | ok x =>
      obtain ⟨s1, outs1⟩ := x
      simp only
      have hp0 : PInv Ann { s with prev := cb, curBlock := none } := by
        constructor
        · exact hp.connq
        · intro c hc
          have := hp.cur c hc
          rw [hcb] at this
          exact ⟨this.1, cb, this.2, rfl⟩
      intro heq
      rcases connectNext_curBlock Ann hp0 rfl hcn with h1 | ⟨b, h1, h2⟩
      · rw [heq, hcb] at h1; simp at h1
      · rw [heq, hcb] at h1
        simp at h1
        subst h1
        simp at h2
  | none =>
    cases hrun : s.running with
    | cons t0 r =>
      refine Or.inr (Or.inr (Or.inl ⟨by simp, ?_⟩))
      unfold step
      simp only [hh, Bool.false_eq_true, ↓reduceIte]
      cases ht : tick s (s.cfg.timeout + 1) with
      | error e =>
        simp only [Except.map]
        intro heq
        have := congrArg St.halted heq
        simp [hh] at this
      | ok s1 =>
        simp only [Except.map]
        intro heq
        subst heq
        unfold tick at ht
        simp only at ht
        have := timeoutWalk_all _ _ _ [] (by
          intro x hx
          simp at hx
          obtain ⟨x0, _, rfl⟩ := hx
          simp; omega) ht
        rw [hrun] at this
        simp at this
    | nil =>
      have hconn := fun hr => connQ_empty_of_idle Ann hp hl hq hcb hrun hr
      by_cases hidle : s.retryQ = [] ∧ s.pending = [] ∧ s.hfq = []
      · obtain ⟨h1, h2, h3⟩ := hidle
        have hc0 := hconn h1
        refine Or.inl ⟨rfl, ?_, rfl, h1, h2, h3, hc0⟩
        obtain ⟨hadv, _⟩ := hq hcb
        have hcov : inR (nextNo s) (B - nextNo s) (nextNo s) = 0 := by
          rw [← hl.tile (nextNo s)]
          simp [fcov, hrun, h1, hc0, covT, covC, covCur_advance_none _ hadv]
        have hAB : nextNo s = B := by
          have := hl.le1
          simp only [inR] at hcov
          split at hcov <;> omega
        have hcon := hl.contig
        rw [h2, h3] at hcon
        simp [Contig] at hcon
        omega
      · refine Or.inr (Or.inr (Or.inr ⟨rfl, rfl, ?_⟩))
        unfold step
        simp only [hh, Bool.false_eq_true, ↓reduceIte]
        cases hs : schedule s with
        | error e =>
          simp only
          intro heq
          have := congrArg St.halted heq
          simp [hh] at this
        | ok x =>
          obtain ⟨s', outs⟩ := x
          simp only
          intro heq
          subst heq
          -- a free peer exists
          have hfree : ∃ p f, s'.free = p :: f := by
            have h1 := hl.peers
            have h2 := hl.alive hh
            rw [hrun] at h1
            cases hf : s'.free with
            | nil => rw [hf] at h1; simp at h1; omega
            | cons p f => exact ⟨p, f, rfl⟩
          obtain ⟨p, f, hfree⟩ := hfree
          unfold schedule at hs
          rw [hfree] at hs
          simp only [List.length_cons] at hs
          rw [scheduleLoop.eq_2] at hs
          simp only [hfree, hrun, List.length_nil] at hs
          have htk' : ¬ 0 ≥ s'.cfg.maxFetchTasks := by omega
          simp only [htk', ↓reduceIte] at hs
          obtain ⟨hl1, hq1, e1, e2, e3, e4, e5, e6, hc, hnone⟩ := searchCandidate_lcore hl hq hsz
          obtain ⟨_, hpe1, _⟩ := searchCandidate_inv (fun _ _ => True) (s := s')
            ⟨fun _ _ _ _ _ => trivial, fun _ _ _ _ _ => trivial, fun _ _ _ _ _ => trivial, fun _ _ _ _ _ => trivial⟩
          generalize hsc : searchCandidate s' = sc at hs hl1 hq1 e1 e2 e3 e4 e5 e6 hc hnone hpe1
          obtain ⟨s1, cand⟩ := sc
          simp only at hs hl1 hq1 e1 e2 e3 e4 e5 e6 hc hnone hpe1
          cases cand with
          | none => exact hidle (hnone rfl)
          | some t =>
            simp only at hs
            have hp1 : PInv Ann s1 := PInv.of_procEq Ann hpe1 hp
            have hcb1 : s1.curBlock = none := by rw [hpe1.2.2.2]; exact hcb
            have hblocked : ¬ (s1.connQ.length ≥ s1.cfg.maxPendingConn ∧ t.retry = 0) := by
              intro ⟨hge, hz⟩
              rcases hc t rfl with ⟨r, _, hpos⟩ | ⟨hr0, _⟩
              · omega
              · have := connQ_empty_of_idle Ann hp1 hl1 hq1 hcb1 (by rw [e2]; exact hrun) hr0
                rw [this, e6] at hge
                simp at hge
                omega
            simp only [hblocked, ↓reduceIte] at hs
            have hbad : ¬ s1.total = s1.bad := by
              have := hl.alive hh
              rw [e4, e5]; omega
            simp only [hbad, ↓reduceIte] at hs
            split at hs
            · simp at hs
            · rename_i s3 outs3 heq
              simp at hs
              obtain ⟨rfl, _⟩ := hs
              have := scheduleLoop_running_len _ _ _ _ heq
              rw [hrun] at this
              split at this <;> simp at this
end


/-! ### the configuration never changes -/

theorem failTask_cfg {s s1 : St} {t : Task} (h : failTask s t = .ok s1) : s1.cfg = s.cfg := by
  unfold failTask at h
  split at h
  · simp at h
  · simp only at h
    split at h
    · simp at h
    · simp only [Except.ok.injEq] at h
      subst h
      unfold failPeer; split <;> rfl

theorem timeoutWalk_cfg : ∀ (l : List Task) (s s' : St) keep, timeoutWalk s l keep = .ok s' → s'.cfg = s.cfg := by
  intro l
  induction l with
  | nil => intro s s' keep h; simp [timeoutWalk] at h; subst h; rfl
  | cons t r ih =>
    intro s s' keep h
    simp only [timeoutWalk] at h
    split at h
    · split at h
      · simp at h
      · rename_i s1 heq
        rw [ih _ _ _ h, failTask_cfg heq]
    · exact ih _ _ _ h

theorem searchCandidate_cfg (s : St) : (searchCandidate s).1.cfg = s.cfg := by
  unfold searchCandidate; repeat' split
  all_goals rfl

theorem scheduleLoop_cfg : ∀ fuel (s s' : St) outs, scheduleLoop fuel s = .ok (s', outs) → s'.cfg = s.cfg := by
  intro fuel
  induction fuel with
  | zero => intro s s' outs h; simp [scheduleLoop] at h; obtain ⟨rfl, rfl⟩ := h; rfl
  | succ k ih =>
    intro s s' outs h
    simp only [scheduleLoop] at h
    split at h
    · simp at h; obtain ⟨rfl, rfl⟩ := h; rfl
    · split at h
      · simp at h; obtain ⟨rfl, rfl⟩ := h; rfl
      · have e2 := searchCandidate_cfg s
        generalize searchCandidate s = sc at h e2
        obtain ⟨s1, cand⟩ := sc
        simp only at h e2
        split at h
        · simp at h; obtain ⟨rfl, rfl⟩ := h; exact e2
        · split at h
          · simp at h; obtain ⟨rfl, rfl⟩ := h; exact e2
          · split at h
            · simp at h
            · split at h
              · simp at h
              · rename_i s2 outs2 heq
                simp at h; obtain ⟨rfl, rfl⟩ := h
                have := ih _ _ _ heq
                rw [this, ← e2]
                split <;> rfl

theorem connectNext_cfg {s s' : St} {outs : List Out} (h : connectNext s = .ok (s', outs)) : s'.cfg = s.cfg := by
  unfold connectNext at h
  split at h
  · simp at h; obtain ⟨rfl, rfl⟩ := h; rfl
  · split at h
    · simp at h; obtain ⟨rfl, rfl⟩ := h; rfl
    · rename_i s1 c hpick
      split at h
      · simp at h
      · simp at h; obtain ⟨rfl, rfl⟩ := h
        unfold pickConn at hpick
        split at hpick
        · simp at hpick; obtain ⟨rfl, _⟩ := hpick; rfl
        · split at hpick
          · simp at hpick
          · simp at hpick; obtain ⟨rfl, _⟩ := hpick; rfl

theorem step_cfg (s : St) (e : Ev) : (step s e).1.cfg = s.cfg := by
  unfold step
  split
  · rfl
  · cases e with
    | hashSet st hs => rfl
    | sched =>
      simp only
      cases hs : schedule s with
      | error e => rfl
      | ok x => obtain ⟨s', outs⟩ := x; exact scheduleLoop_cfg _ _ _ _ hs
    | tick d =>
      simp only
      cases ht : tick s d with
      | error e => rfl
      | ok s1 =>
        simp only [Except.map]
        unfold tick at ht
        simp only at ht
        exact (timeoutWalk_cfg _ _ _ _ ht).trans rfl
    | chunk peer err blocks =>
      simp only
      cases hc : chunkRsp s peer err blocks with
      | error e => rfl
      | ok x =>
        obtain ⟨s', outs⟩ := x
        simp only
        unfold chunkRsp at hc
        split at hc
        · split at hc
          · simp at hc; obtain ⟨rfl, rfl⟩ := hc; rfl
          · rw [connectNext_cfg hc]
            simp only
            unfold freePeer; split <;> rfl
        · split at hc
          · simp at hc; obtain ⟨rfl, rfl⟩ := hc; rfl
          · split at hc
            · simp at hc
            · rename_i s1 hft
              simp at hc; obtain ⟨rfl, rfl⟩ := hc
              exact (failTask_cfg hft).trans rfl
    | addRsp no hash err nilHash =>
      simp only
      cases hc : addRsp s no hash err nilHash with
      | error e => rfl
      | ok x =>
        obtain ⟨s', outs⟩ := x
        simp only
        unfold addRsp at hc
        split at hc
        · simp at hc
        · split at hc
          · simp at hc
          · split at hc
            · simp at hc
            · split at hc
              · simp at hc
              · split at hc
                · simp at hc
                · rename_i s1 outs1 hcn
                  simp at hc; obtain ⟨rfl, rfl⟩ := hc
                  exact (connectNext_cfg hcn).trans rfl

/-! ### whole sessions -/

/-- Hash sets arrive as the hash fetcher sends them: each one non-empty and starting right after
the last height announced so far (`hash_sets_contiguous`). -/
def HashSetsFrom : Nat → List Ev → Prop
  | _, [] => True
  | E, .hashSet st hs :: es => st = E ∧ hs ≠ [] ∧ HashSetsFrom (E + hs.length) es
  | E, _ :: es => HashSetsFrom E es

/-- First height not announced after the events. -/
def annEnd : Nat → List Ev → Nat
  | E, [] => E
  | E, e :: es => annEnd (E + evLen e) es

theorem run_halted : ∀ (es : List Ev) (s : St), s.halted = true → (run s es).1 = s := by
  intro es
  induction es with
  | nil => intro s _; rfl
  | cons e es ih =>
    intro s h
    simp only [run]
    have : step s e = (s, []) := by simp [step, h]
    rw [this]
    exact ih s h

section
variable (Ann : Nat → Nat → Prop)

theorem run_lcore : ∀ (es : List Ev) (s : St) (B E : Nat), FInv Ann s → PInv Ann s → LCore s B E → Quiet s →
    0 < s.cfg.maxFetchSize → EvsOK Ann es → HashSetsFrom E es →
    (run s es).1.halted = true ∨
    ∃ B', LCore (run s es).1 B' (annEnd E es) ∧ Quiet (run s es).1 ∧ PInv Ann (run s es).1 ∧ (run s es).1.cfg = s.cfg := by
  intro es
  induction es with
  | nil =>
    intro s B E _ hp hl hq _ _ _
    exact Or.inr ⟨B, hl, hq, hp, rfl⟩
  | cons e es ih =>
    intro s B E hf hp hl hq hsz hev hhs
    simp only [run]
    by_cases hh : s.halted = true
    · left
      have : step s e = (s, []) := by simp [step, hh]
      rw [this]
      simp only
      rw [run_halted es s hh]; exact hh
    · have hh' : s.halted = false := by simpa using hh
      obtain ⟨hf1, hp1, _⟩ := step_inv Ann hf hp (hev e (by simp))
      have hhs1 : ∀ st hs, e = .hashSet st hs → st = E ∧ hs ≠ [] := by
        intro st hs he; subst he
        simp only [HashSetsFrom] at hhs
        exact ⟨hhs.1, hhs.2.1⟩
      have hhs2 : HashSetsFrom (E + evLen e) es := by
        cases e with
        | hashSet st hs => simp only [HashSetsFrom] at hhs; simpa [evLen] using hhs.2.2
        | sched => simpa [evLen, HashSetsFrom] using hhs
        | tick d => simpa [evLen, HashSetsFrom] using hhs
        | chunk a b c => simpa [evLen, HashSetsFrom] using hhs
        | addRsp a b c d => simpa [evLen, HashSetsFrom] using hhs
      rcases step_lcore Ann hf hp hl hq hsz (hev e (by simp)) hh' hhs1 with hhalt | ⟨B1, hl1, hq1⟩
      · left
        generalize step s e = r at hhalt
        obtain ⟨s1, o1⟩ := r
        simp only at hhalt ⊢
        rw [run_halted es s1 hhalt]; exact hhalt
      · have hcfg := step_cfg s e
        generalize step s e = r at hf1 hp1 hl1 hq1 hcfg
        obtain ⟨s1, o1⟩ := r
        simp only at hf1 hp1 hl1 hq1 hcfg ⊢
        rcases ih s1 B1 _ hf1 hp1 hl1 hq1 (by rw [hcfg]; exact hsz) (fun x hx => hev x (by simp [hx])) hhs2 with h | ⟨B', h1, h2, h3, h4⟩
        · exact Or.inl h
        · exact Or.inr ⟨B', by simpa [annEnd] using h1, h2, h3, by rw [h4, hcfg]⟩
end


section
variable (Ann : Nat → Nat → Prop)

theorem init_lcore (cfg : Cfg) (anc : Blk) (target npeers : Nat) (hnp : 0 < npeers) :
    LCore (St.init cfg anc target npeers) (anc.no + 1) (anc.no + 1) ∧ Quiet (St.init cfg anc target npeers) := by
  constructor
  · constructor
    · intro n; simp [fcov, St.init, covCur, covC, covT, nextNo, inR]
    · simp [nextNo, St.init]
    · simp [St.init, Contig]
    · simp [St.init, SortedC]
    · simp [St.init]
    · intro _; simpa [St.init] using hnp
    · simp [St.init]
    · simp [St.init]
    · simp [St.init]
    · simp [St.init]
  · intro _
    simp [St.init, advanceCur]
end

end Aergo.Sync
