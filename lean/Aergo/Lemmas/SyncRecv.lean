/-
The P2P chunk receiver (p2p/blkreceiver.go) over whole response streams (C17): what it has
accepted is at every moment a prefix of what the peer sent and of what was requested; a success
answer is exactly the concatenation of the parts up to the one without `hasNext`; an honest stream
is answered with success; a time-out is silent; a surplus block is an error. Core Lean only.
-/
import Aergo.Lemmas.Sync

namespace Aergo.Sync

theorem recvAdd_take (want : List Nat) (big : Blk → Bool) : ∀ (bs got : List Blk),
    ∃ m, m ≤ bs.length ∧ (recvAdd want big got bs).1 = got ++ bs.take m ∧
      ((recvAdd want big got bs).2 = none → m = bs.length) := by
  intro bs
  induction bs with
  | nil => intro got; exact ⟨0, by simp, by simp [recvAdd], fun _ => rfl⟩
  | cons b r ih =>
    intro got
    simp only [recvAdd]
    split
    · exact ⟨0, by simp, by simp, by simp⟩
    · split
      · exact ⟨0, by simp, by simp, by simp⟩
      · split
        · exact ⟨0, by simp, by simp, by simp⟩
        · obtain ⟨m, hm, h1, h2⟩ := ih (got ++ [b])
          refine ⟨m + 1, by simp; omega, ?_, ?_⟩
          · rw [h1]; simp
          · intro hn; have := h2 hn; simp; omega

/-- What a successful pass of the add loop means. -/
theorem recvAdd_none (want : List Nat) (big : Blk → Bool) : ∀ (bs got : List Blk),
    (recvAdd want big got bs).2 = none →
    (recvAdd want big got bs).1 = got ++ bs ∧ (bs ≠ [] → got.length + bs.length ≤ want.length) ∧
    (∀ i b, bs[i]? = some b → want[got.length + i]? = some b.hash ∧ big b = false) := by
  intro bs
  induction bs with
  | nil => intro got _; simp [recvAdd]
  | cons b r ih =>
    intro got h
    simp only [recvAdd] at h ⊢
    split at h
    · simp at h
    · rename_i hw hget
      split at h
      · simp at h
      · rename_i hne
        split at h
        · simp at h
        · rename_i hbig
          rw [if_neg hne, if_neg hbig]
          obtain ⟨h1, h2, h3⟩ := ih (got ++ [b]) h
          have hlt : got.length < want.length := (List.getElem?_eq_some_iff.mp hget).1
          refine ⟨by rw [h1]; simp, ?_, ?_⟩
          · intro _
            cases r with
            | nil => simp; omega
            | cons y ys => have := h2 (by simp); simp at this ⊢; omega
          intro i x hi
          cases i with
          | zero =>
            simp at hi; subst hi
            have : hw = b.hash := by simpa using hne
            exact ⟨by simpa [this] using hget, by simpa using hbig⟩
          | succ i =>
            have := h3 i x (by simpa using hi)
            simp at this
            rw [show got.length + (i + 1) = got.length + 1 + i by omega]
            exact this

/-- Conversely: blocks that carry the next requested ids, none oversized, are all accepted. -/
theorem recvAdd_ok (want : List Nat) (big : Blk → Bool) : ∀ (bs got : List Blk),
    (∀ i b, bs[i]? = some b → want[got.length + i]? = some b.hash ∧ big b = false) →
    recvAdd want big got bs = (got ++ bs, none) := by
  intro bs
  induction bs with
  | nil => intro got _; simp [recvAdd]
  | cons b r ih =>
    intro got h
    obtain ⟨h0, hb⟩ := h 0 b (by simp)
    simp only [recvAdd]
    simp only [Nat.add_zero] at h0
    rw [h0]
    simp only [ne_eq, not_true_eq_false, ↓reduceIte, hb, Bool.false_eq_true]
    rw [ih (got ++ [b])]
    · simp
    · intro i x hi
      have := h (i + 1) x (by simpa using hi)
      simp
      rw [show got.length + 1 + i = got.length + (i + 1) by omega]
      exact this

/-- More blocks than remain to be received is an error, whatever they are. -/
theorem recvAdd_surplus (want : List Nat) (big : Blk → Bool) : ∀ (bs got : List Blk),
    want.length < got.length + bs.length → got.length ≤ want.length → (recvAdd want big got bs).2 ≠ none := by
  intro bs got h1 h2 hn
  have := (recvAdd_none want big bs got hn).2.1 (by intro hb; subst hb; simp at h1; omega)
  omega

/-- One part: the receiver keeps what it had and appends a prefix of the part's blocks. -/
theorem receive_got (r : Recv) (big : Blk → Bool) (p : Part) :
    ∃ m, m ≤ p.blocks.length ∧ (r.receive big p).1.got = r.got ++ p.blocks.take m := by
  unfold Recv.receive
  split
  · exact ⟨0, by simp, by simp⟩
  · exact ⟨0, by simp, by simp⟩
  · split
    · exact ⟨0, by simp, by simp⟩
    · split
      · exact ⟨0, by simp, by simp⟩
      · split
        · exact ⟨0, by simp, by simp⟩
        · obtain ⟨m, hm, h1, _⟩ := recvAdd_take r.want big p.blocks r.got
          split
          · rename_i got e heq
            rw [heq] at h1
            exact ⟨m, hm, h1⟩
          · rename_i got heq
            rw [heq] at h1
            split
            · exact ⟨m, hm, h1⟩
            · split <;> exact ⟨m, hm, h1⟩

theorem take_append_prefix {α : Type} (a : List α) (m : Nat) (b : List α) : a.take m <+: a ++ b := by
  refine ⟨a.drop m ++ b, ?_⟩
  rw [← List.append_assoc, List.take_append_drop]

/-- The receiver is still waiting after a part only if the part was an acceptable continuation:
in time, status OK, not empty, every block the next requested one and not oversized, more to come.
Then it has taken all its blocks and told the syncer nothing. -/
theorem receive_waiting (r : Recv) (big : Blk → Bool) (p : Part) (hw : (r.receive big p).1.status = .waiting) :
    r.status = .waiting ∧ p.timedOut = false ∧ p.statusOk = true ∧ p.blocks ≠ [] ∧ p.hasNext = true ∧
    recvAdd r.want big r.got p.blocks = (r.got ++ p.blocks, none) ∧
    r.receive big p = ({ r with got := r.got ++ p.blocks }, .nothing) := by
  by_cases hs : r.status = .waiting
  · by_cases ht : p.timedOut = true
    · simp [Recv.receive, hs, ht] at hw
    · by_cases hok : p.statusOk = true
      · by_cases he : p.blocks.isEmpty = true
        · simp [Recv.receive, hs, ht, hok, he] at hw
        · cases hra : recvAdd r.want big r.got p.blocks with
          | mk got e =>
            cases e with
            | some e =>
              simp only [Recv.receive, hs, ht, hok, he, hra] at hw
              simp at hw
              split at hw <;> simp at hw
            | none =>
              have hgot := (recvAdd_none r.want big p.blocks r.got (by rw [hra])).1
              rw [hra] at hgot
              simp only at hgot
              subst hgot
              by_cases hn : p.hasNext = true
              · refine ⟨hs, by simpa using ht, hok, by simpa using he, hn, rfl, ?_⟩
                simp [Recv.receive, hs, ht, hok, he, hra, hn]
              · simp only [Recv.receive, hs, ht, hok, he, hra, hn] at hw
                simp at hw
                split at hw <;> simp at hw
      · simp [Recv.receive, hs, ht, hok] at hw
  · rw [receive_not_waiting r big p hs] at hw
    exact absurd hw hs

theorem feed_not_waiting (big : Blk → Bool) : ∀ (ps : List Part) (q : Recv), q.status ≠ .waiting →
    (Recv.feed big q ps).1 = q ∧ ∀ o, o ∈ (Recv.feed big q ps).2 → o = .nothing := by
  intro ps
  induction ps with
  | nil => intro q _; exact ⟨rfl, by simp [Recv.feed]⟩
  | cons x xs ih =>
    intro q hq
    simp only [Recv.feed]
    rw [receive_not_waiting q big x hq]
    obtain ⟨h1, h2⟩ := ih q hq
    refine ⟨h1, ?_⟩
    intro o ho
    simp at ho
    rcases ho with rfl | ho
    · rfl
    · exact h2 o ho

/-- **At every moment what the receiver holds is a prefix of what the peer sent**, extending what
it held before. -/
theorem feed_got (big : Blk → Bool) : ∀ (parts : List Part) (r : Recv),
    ∃ l, l <+: parts.flatMap (·.blocks) ∧ (Recv.feed big r parts).1.got = r.got ++ l := by
  intro parts
  induction parts with
  | nil => intro r; exact ⟨[], by simp, by simp [Recv.feed]⟩
  | cons p ps ih =>
    intro r
    simp only [Recv.feed]
    by_cases hw : (r.receive big p).1.status = .waiting
    · obtain ⟨_, _, _, _, _, _, heq⟩ := receive_waiting r big p hw
      obtain ⟨l, hl, h2⟩ := ih (r.receive big p).1
      refine ⟨p.blocks ++ l, ?_, ?_⟩
      · simp only [List.flatMap_cons]
        exact (List.prefix_append_right_inj _).mpr hl
      · rw [h2, heq]; simp
    · obtain ⟨m, hm, h1⟩ := receive_got r big p
      refine ⟨p.blocks.take m, ?_, ?_⟩
      · simp only [List.flatMap_cons]
        exact take_append_prefix _ _ _
      · rw [(feed_not_waiting big ps _ hw).1, h1]

/-- What a success answer means for the part that triggered it. -/
theorem receive_rsp_spec (r : Recv) (big : Blk → Bool) (p : Part) (blocks : List Blk)
    (ho : (r.receive big p).2 = .rsp blocks) :
    r.status = .waiting ∧ p.timedOut = false ∧ p.statusOk = true ∧ p.hasNext = false ∧
    blocks = r.got ++ p.blocks ∧ r.want.length ≤ blocks.length ∧ (r.receive big p).1.status = .finished ∧
    recvAdd r.want big r.got p.blocks = (r.got ++ p.blocks, none) := by
  by_cases hs : r.status = .waiting
  · by_cases ht : p.timedOut = true
    · simp [Recv.receive, hs, ht] at ho
    · by_cases hok : p.statusOk = true
      · by_cases he : p.blocks.isEmpty = true
        · simp [Recv.receive, hs, ht, hok, he] at ho
        · cases hra : recvAdd r.want big r.got p.blocks with
          | mk got e =>
            cases e with
            | some e => simp [Recv.receive, hs, ht, hok, he, hra] at ho
            | none =>
              have hgot := (recvAdd_none r.want big p.blocks r.got (by rw [hra])).1
              rw [hra] at hgot
              simp only at hgot
              subst hgot
              by_cases hn : p.hasNext = true
              · simp [Recv.receive, hs, ht, hok, he, hra, hn] at ho
              · by_cases hlt : r.got.length + p.blocks.length < r.want.length
                · simp [Recv.receive, hs, ht, hok, he, hra, hn, hlt] at ho
                · have hrec : r.receive big p =
                      ({ r with got := r.got ++ p.blocks, status := .finished }, .rsp (r.got ++ p.blocks)) := by
                    simp [Recv.receive, hs, ht, hok, he, hra, hn, hlt]
                  rw [hrec] at ho ⊢
                  simp only [RecvOut.rsp.injEq] at ho
                  subst ho
                  exact ⟨hs, by simpa using ht, hok, by simpa using hn, rfl, by simp; omega, rfl, rfl⟩
      · simp [Recv.receive, hs, ht, hok] at ho
  · rw [receive_not_waiting r big p hs] at ho
    cases ho

/-- **A success answer is exactly what the peer sent up to the part without `hasNext`**: if the
`k`-th output is `rsp blocks`, then `blocks` is what the receiver held plus all blocks of parts
`0..k`, every earlier part was an in-time OK part announcing more, part `k` announced the end, and
every other output is `nothing`. -/
theorem feed_rsp_exact (big : Blk → Bool) : ∀ (parts : List Part) (r : Recv) (k : Nat) (blocks : List Blk),
    (Recv.feed big r parts).2[k]? = some (.rsp blocks) →
    blocks = r.got ++ (parts.take (k + 1)).flatMap (·.blocks) ∧ r.want.length ≤ blocks.length ∧
    (∀ i p, i < k → parts[i]? = some p → p.hasNext = true ∧ p.timedOut = false ∧ p.statusOk = true) ∧
    (∃ p, parts[k]? = some p ∧ p.hasNext = false ∧ p.timedOut = false ∧ p.statusOk = true) ∧
    (∀ j o, j ≠ k → (Recv.feed big r parts).2[j]? = some o → o = .nothing) := by
  intro parts
  induction parts with
  | nil => intro r k blocks h; simp [Recv.feed] at h
  | cons p ps ih =>
    intro r k blocks h
    simp only [Recv.feed] at h ⊢
    cases k with
    | zero =>
      simp at h
      obtain ⟨h1, h2, h3, h4, h5, h6, h7, _⟩ := receive_rsp_spec r big p blocks h
      refine ⟨by simpa using h5, h6, by intro i q hi; omega, ⟨p, by simp, h4, h2, h3⟩, ?_⟩
      intro j o hj ho
      cases j with
      | zero => exact absurd rfl hj
      | succ j =>
        simp at ho
        exact (feed_not_waiting big ps _ (by rw [h7]; simp)).2 o (List.mem_of_getElem? ho)
    | succ k =>
      simp at h
      have hw : (r.receive big p).1.status = .waiting := by
        apply Classical.byContradiction
        intro hnw
        have := (feed_not_waiting big ps _ hnw).2 _ (List.mem_of_getElem? h)
        cases this
      obtain ⟨_, h2, h3, _, h5, _, heq⟩ := receive_waiting r big p hw
      obtain ⟨i1, i2, i3, i4, i5⟩ := ih _ k blocks h
      rw [heq] at i1 i2
      refine ⟨by simp at i1 ⊢; exact i1, by simpa using i2, ?_, ?_, ?_⟩
      · intro i q hi hq
        cases i with
        | zero => simp at hq; subst hq; exact ⟨h5, h2, h3⟩
        | succ i => exact i3 i q (by omega) (by simpa using hq)
      · obtain ⟨q, hq, hq'⟩ := i4
        exact ⟨q, by simpa using hq, hq'⟩
      · intro j o hj ho
        cases j with
        | zero => simp at ho; rw [heq] at ho; simp at ho; exact ho.symm
        | succ j => exact i5 j o (by omega) (by simpa using ho)

/-- An honest answer to a request: in-time OK parts, none empty, all but the last announcing more,
carrying together exactly the requested ids in order, no block oversized. -/
def HonestParts (want : List Nat) (big : Blk → Bool) (parts : List Part) : Prop :=
  parts ≠ [] ∧ (∀ p, p ∈ parts → p.timedOut = false ∧ p.statusOk = true ∧ p.blocks ≠ []) ∧
  (∀ i p, parts[i]? = some p → (p.hasNext = true ↔ i + 1 < parts.length)) ∧
  (parts.flatMap (·.blocks)).map (·.hash) = want ∧ ∀ b, b ∈ parts.flatMap (·.blocks) → big b = false

/-- **An honest stream is answered with success at its last part and with nothing before.** -/
theorem feed_honest (big : Blk → Bool) : ∀ (parts : List Part) (r : Recv), r.status = .waiting →
    parts ≠ [] → (∀ p, p ∈ parts → p.timedOut = false ∧ p.statusOk = true ∧ p.blocks ≠ []) →
    (∀ i p, parts[i]? = some p → (p.hasNext = true ↔ i + 1 < parts.length)) →
    r.got.map (·.hash) ++ (parts.flatMap (·.blocks)).map (·.hash) = r.want →
    (∀ b, b ∈ parts.flatMap (·.blocks) → big b = false) →
    (Recv.feed big r parts).2 = List.replicate (parts.length - 1) .nothing ++ [.rsp (r.got ++ parts.flatMap (·.blocks))] := by
  intro parts
  induction parts with
  | nil => intro r _ h; exact absurd rfl h
  | cons p ps ih =>
    intro r hs _ hp hnext hwant hbig
    obtain ⟨ht, hok, hne⟩ := hp p (by simp)
    have hadd : recvAdd r.want big r.got p.blocks = (r.got ++ p.blocks, none) := by
      apply recvAdd_ok
      intro i b hi
      refine ⟨?_, hbig b (by simp only [List.flatMap_cons]; exact List.mem_append_left _ (List.mem_of_getElem? hi))⟩
      rw [← hwant]
      simp only [List.flatMap_cons, List.map_append]
      rw [List.getElem?_append_right (by simp)]
      simp only [List.length_map, Nat.add_sub_cancel_left]
      rw [List.getElem?_append_left (by simp; exact (List.getElem?_eq_some_iff.mp hi).1)]
      simp [hi]
    have hemp : p.blocks.isEmpty = false := by cases hb : p.blocks <;> simp_all
    simp only [Recv.feed]
    cases ps with
    | nil =>
      have hn : p.hasNext = false := by
        have := hnext 0 p (by simp)
        simp at this
        exact this
      have hlen : ¬ r.got.length + p.blocks.length < r.want.length := by
        rw [← hwant]; simp
      simp [Recv.receive, hs, ht, hok, hemp, hadd, hn, hlen, Recv.feed]
    | cons q qs =>
      have hn : p.hasNext = true := (hnext 0 p (by simp)).mpr (by simp)
      have hrec : r.receive big p = ({ r with got := r.got ++ p.blocks }, .nothing) := by
        simp [Recv.receive, hs, ht, hok, hemp, hadd, hn]
      rw [hrec]
      have := ih { r with got := r.got ++ p.blocks } hs (by simp)
        (fun x hx => hp x (by simp [hx]))
        (fun i x hi => by
          have := hnext (i + 1) x (by simpa using hi)
          simp at this ⊢
          exact this)
        (by simp only [List.map_append, List.append_assoc]; simpa [List.flatMap_cons] using hwant)
        (fun b hb => hbig b (by simp only [List.flatMap_cons]; exact List.mem_append_right _ hb))
      simp only at this
      rw [this]
      simp [List.replicate_succ]

/-- If the receiver is still waiting it has told the syncer nothing yet. -/
theorem feed_waiting_silent (big : Blk → Bool) : ∀ (parts : List Part) (r : Recv),
    (Recv.feed big r parts).1.status = .waiting → ∀ o, o ∈ (Recv.feed big r parts).2 → o = .nothing := by
  intro parts
  induction parts with
  | nil => intro r _ o ho; simp [Recv.feed] at ho
  | cons p ps ih =>
    intro r hw o ho
    simp only [Recv.feed] at hw ho
    have hw1 : (r.receive big p).1.status = .waiting := by
      apply Classical.byContradiction
      intro hnw
      rw [(feed_not_waiting big ps _ hnw).1] at hw
      exact hnw hw
    obtain ⟨_, _, _, _, _, _, heq⟩ := receive_waiting r big p hw1
    simp at ho
    rcases ho with rfl | ho
    · rw [heq]
    · exact ih _ hw o ho

theorem feed_append (big : Blk → Bool) : ∀ (a b : List Part) (r : Recv),
    Recv.feed big r (a ++ b) = ((Recv.feed big (Recv.feed big r a).1 b).1,
      (Recv.feed big r a).2 ++ (Recv.feed big (Recv.feed big r a).1 b).2) := by
  intro a
  induction a with
  | nil => intro b r; simp [Recv.feed]
  | cons p ps ih => intro b r; simp only [List.cons_append, Recv.feed]; rw [ih]

theorem answers_append (a b : List RecvOut) : answers (a ++ b) = answers a + answers b := by
  induction a with
  | nil => simp [answers]
  | cons x r ih => cases x <;> simp [answers, ih] <;> omega

theorem answers_nothing (l : List RecvOut) (h : ∀ o, o ∈ l → o = .nothing) : answers l = 0 := by
  induction l with
  | nil => rfl
  | cons x r ih =>
    have := h x (by simp)
    subst this
    simp only [answers]
    exact ih (fun o ho => h o (by simp [ho]))

end Aergo.Sync
