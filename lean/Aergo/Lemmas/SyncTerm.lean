/-
Termination measure for the fetcher/processor state machine (C17).

`phi s` is a natural number that no step of the state machine increases (except the arrival of a
hash set, which adds exactly `gain e`), and that every step which changes anything but the ages of
running tasks decreases strictly (`step_dich`). It weighs

* the session being alive                                  1
* a hash set of `k` heights waiting in `hfCh`              6k+1
* a pending task of `k` heights                            4k+2
* a running task of `k` heights on peer `p`                3k+1 + wPeer p
* a task of `k` heights in the retry queue                 3k+2
* a free peer `p`                                          wPeer p = 2·(MaxPeerFailCount − failCnt)
* a queued connect task of `k` blocks                      2k
* the rest of the current connect task                     2·(len − cur − 1)
* a block being connected                                  1

`QInv` is the small invariant the accounting needs (retry counters, fail counters below the limit);
it holds from `St.init` on without any assumption on the events.

Core Lean only.
-/
import Aergo.Lemmas.SyncProgress

namespace Aergo.Sync

def wPeer (p : Peer) : Nat := 2 * (maxPeerFailCount - p.failCnt)

def wPeerO : Option Peer → Nat
  | none => 0
  | some p => wPeer p

def phiH : List (Nat × List Nat) → Nat
  | [] => 0
  | p :: r => 6 * p.2.length + 1 + phiH r

def phiP : List Task → Nat
  | [] => 0
  | t :: r => 4 * t.hashes.length + 2 + phiP r

def phiR : List Task → Nat
  | [] => 0
  | t :: r => 3 * t.hashes.length + 1 + wPeerO t.peer + phiR r

def phiQ : List Task → Nat
  | [] => 0
  | t :: r => 3 * t.hashes.length + 2 + phiQ r

def phiF : List Peer → Nat
  | [] => 0
  | p :: r => wPeer p + phiF r

def phiC : List ConnTask → Nat
  | [] => 0
  | c :: r => 2 * c.blocks.length + phiC r

def phiCur : Option ConnTask → Nat
  | none => 0
  | some c => 2 * (c.blocks.length - c.cur - 1)

def phiB : Option Blk → Nat
  | none => 0
  | some _ => 1

/-- The measure without the "alive" unit. -/
def phi0 (s : St) : Nat :=
  phiH s.hfq + phiP s.pending + phiR s.running + phiQ s.retryQ + phiF s.free +
    phiC s.connQ + phiCur s.curConn + phiB s.curBlock

def phi (s : St) : Nat := (if s.halted then 0 else 1) + phi0 s

structure QInv (s : St) : Prop where
  retryPos : ∀ t, t ∈ s.retryQ → 0 < t.retry
  pendZero : ∀ t, t ∈ s.pending → t.retry = 0
  freeOK : ∀ p, p ∈ s.free → p.failCnt < maxPeerFailCount
  runOK : ∀ t, t ∈ s.running → ∀ p, t.peer = some p → p.failCnt < maxPeerFailCount

theorem phiH_append (a b : List (Nat × List Nat)) : phiH (a ++ b) = phiH a + phiH b := by
  induction a with
  | nil => simp [phiH]
  | cons x r ih => simp [phiH, ih]; omega

theorem phiR_append (a b : List Task) : phiR (a ++ b) = phiR a + phiR b := by
  induction a with
  | nil => simp [phiR]
  | cons x r ih => simp [phiR, ih]; omega

theorem phiF_append (a b : List Peer) : phiF (a ++ b) = phiF a + phiF b := by
  induction a with
  | nil => simp [phiF]
  | cons x r ih => simp [phiF, ih]; omega

theorem phiR_reverse (a : List Task) : phiR a.reverse = phiR a := by
  induction a with
  | nil => rfl
  | cons x r ih => simp [phiR_append, phiR, ih]; omega

theorem phiQ_pushRetry (q : List Task) (t : Task) :
    phiQ (pushRetry q t) = 3 * t.hashes.length + 2 + phiQ q := by
  induction q with
  | nil => simp [pushRetry, phiQ]
  | cons c r ih =>
    simp only [pushRetry]
    split
    · simp [phiQ]
    · simp [phiQ, ih]; omega

theorem phiC_pushConn (q : List ConnTask) (c : ConnTask) :
    phiC (pushConn q c) = 2 * c.blocks.length + phiC q := by
  induction q with
  | nil => simp [pushConn, phiC]
  | cons x r ih =>
    simp only [pushConn]
    split
    · simp [phiC]
    · simp [phiC, ih]; omega

theorem phiR_findTask (p : Task → Bool) : ∀ (l : List Task) t r, findTask p l = some (t, r) →
    phiR l = 3 * t.hashes.length + 1 + wPeerO t.peer + phiR r := by
  intro l
  induction l with
  | nil => intro t r h; simp [findTask] at h
  | cons a l ih =>
    intro t r h
    simp only [findTask] at h
    split at h
    · simp at h; obtain ⟨rfl, rfl⟩ := h; simp [phiR]
    · split at h
      · simp at h
      · rename_i x r' heq
        simp at h; obtain ⟨rfl, rfl⟩ := h
        simp [phiR, ih _ _ heq]; omega

/-- Ageing every running task by `d`. -/
def ageBy (d : Nat) (l : List Task) : List Task := l.map fun t => { t with age := t.age + d }

theorem phiR_ageBy (d : Nat) (l : List Task) : phiR (ageBy d l) = phiR l := by
  induction l with
  | nil => rfl
  | cons x r ih =>
    simp only [ageBy, List.map_cons, phiR] at ih ⊢
    rw [ih]

theorem ageBy_zero (l : List Task) : ageBy 0 l = l := by
  induction l with
  | nil => rfl
  | cons x r ih => simp only [ageBy, List.map_cons] at ih ⊢; rw [ih]; rfl

theorem ageBy_ageBy (a b : Nat) (l : List Task) : ageBy a (ageBy b l) = ageBy (b + a) l := by
  induction l with
  | nil => rfl
  | cons x r ih =>
    simp only [ageBy, List.map_cons] at ih ⊢
    rw [ih]
    simp [Nat.add_assoc]

/-! ### failTask -/

theorem failPeer_phiF (s : St) (p p' : Peer) (hp : p.failCnt < maxPeerFailCount)
    (hp' : p' = { p with failCnt := p.failCnt + 1 }) :
    phiF (failPeer s p').free + 2 ≤ phiF s.free + wPeer p ∧
    (∀ q, q ∈ (failPeer s p').free → q ∈ s.free ∨ (q = p' ∧ p'.failCnt < maxPeerFailCount)) := by
  subst hp'
  unfold failPeer
  split
  · rename_i hge
    simp only [wPeer, maxPeerFailCount] at *
    refine ⟨by omega, fun q hq => Or.inl hq⟩
  · rename_i hlt
    simp only [phiF_append, phiF, wPeer, maxPeerFailCount] at *
    refine ⟨by omega, ?_⟩
    intro q hq
    simp at hq
    rcases hq with hq | rfl
    · exact Or.inl hq
    · exact Or.inr ⟨rfl, by first | omega | (dsimp only; omega)⟩

/-- Moving one task from `running` to the retry queue through `failTask` costs at least one unit. -/
theorem failTask_phi {s s1 : St} {t : Task} {R : List Task} (hq : QInv s)
    (hphi : phiR s.running = 3 * t.hashes.length + 1 + wPeerO t.peer + phiR R)
    (hsub : ∀ x, x ∈ R → x ∈ s.running)
    (htp : ∀ p, t.peer = some p → p.failCnt < maxPeerFailCount)
    (h : failTask { s with running := R } t = .ok s1) :
    phi0 s1 + 1 ≤ phi0 s ∧ QInv s1 ∧ s1.halted = s.halted := by
  unfold failTask at h
  split at h
  · simp at h
  · rename_i p hp
    simp only at h
    obtain ⟨hF, hFm⟩ := failPeer_phiF { s with running := R } p { p with failCnt := p.failCnt + 1 } (htp p hp) rfl
    have f1 := failPeer_running { s with running := R } { p with failCnt := p.failCnt + 1 }
    have f2 := failPeer_pending { s with running := R } { p with failCnt := p.failCnt + 1 }
    have f3 := failPeer_retryQ { s with running := R } { p with failCnt := p.failCnt + 1 }
    have f4 := failPeer_hfq { s with running := R } { p with failCnt := p.failCnt + 1 }
    have f5 := failPeer_connQ { s with running := R } { p with failCnt := p.failCnt + 1 }
    have f6 := failPeer_curConn { s with running := R } { p with failCnt := p.failCnt + 1 }
    have f8 := failPeer_curBlock { s with running := R } { p with failCnt := p.failCnt + 1 }
    have f9 := (failPeer_counts { s with running := R } { p with failCnt := p.failCnt + 1 }).2.2.1
    generalize failPeer { s with running := R } { p with failCnt := p.failCnt + 1 } = s0 at *
    dsimp only at hF hFm f1 f2 f3 f4 f5 f6 f8 f9
    split at h
    · simp at h
    · simp only [Except.ok.injEq] at h
      subst h
      refine ⟨?_, ?_, f9⟩
      · simp only [phi0, f1, f2, f3, f4, f5, f6, f8, phiQ_pushRetry]
        rw [hphi, hp]
        simp only [wPeerO]
        omega
      · constructor
        · intro x hx
          simp [mem_pushRetry, f3] at hx
          rcases hx with rfl | hx
          · simp
          · exact hq.retryPos x hx
        · simpa [f2] using hq.pendZero
        · intro q hq'
          rcases hFm q hq' with h1 | ⟨rfl, h2⟩
          · exact hq.freeOK q h1
          · exact h2
        · intro x hx
          simp [f1] at hx
          exact hq.runOK x (hsub x hx)

/-! ### checkTaskTimeout -/

/-- The state the walk stands for: the `running` field is not read during the walk. -/
theorem timeoutWalk_phi : ∀ (l : List Task) (s s' : St) (keep : List Task),
    QInv { s with running := keep.reverse ++ l } →
    timeoutWalk s l keep = .ok s' →
    QInv s' ∧ s'.halted = s.halted ∧
    ((s' = { s with running := keep.reverse ++ l } ∧ ∀ t, t ∈ l → ¬ t.age > s.cfg.timeout) ∨
      phi0 s' + 1 ≤ phi0 { s with running := keep.reverse ++ l }) := by
  intro l
  induction l with
  | nil =>
    intro s s' keep hq h
    simp [timeoutWalk] at h
    subst h
    simp at hq
    exact ⟨hq, rfl, Or.inl ⟨by simp, by simp⟩⟩
  | cons t r ih =>
    intro s s' keep hq h
    simp only [timeoutWalk] at h
    split at h
    · rename_i hto
      split at h
      · simp at h
      · rename_i s1 heq
        have h1 := failTask_setRunning (keep.reverse ++ r) heq
        have hphi : phiR ({ s with running := keep.reverse ++ t :: r } : St).running =
            3 * t.hashes.length + 1 + wPeerO t.peer + phiR (keep.reverse ++ r) := by
          simp [phiR_append, phiR]; omega
        obtain ⟨hd, hq1, hh1⟩ := failTask_phi (t := t) (R := keep.reverse ++ r) hq hphi
          (by intro x hx; simp at hx ⊢; rcases hx with hx | hx <;> simp [hx])
          (by intro p hp; exact hq.runOK t (by simp) p hp)
          (by simpa using h1)
        obtain ⟨hq2, hh2, hd2⟩ := ih s1 s' keep (by simpa using hq1) h
        have hh1' : s1.halted = s.halted := by simpa using hh1
        refine ⟨hq2, by rw [hh2, hh1'], Or.inr ?_⟩
        have e1 : phi0 ({ s1 with running := keep.reverse ++ r } : St) + 1 ≤ phi0 ({ s with running := keep.reverse ++ t :: r } : St) := hd
        rcases hd2 with ⟨rfl, _⟩ | hd2
        · omega
        · omega
    · rename_i hto
      obtain ⟨hq2, hh2, hd2⟩ := ih s s' (t :: keep) (by simpa using hq) h
      refine ⟨hq2, hh2, ?_⟩
      rcases hd2 with ⟨rfl, hno⟩ | hd2
      · left
        refine ⟨by simp, ?_⟩
        intro x hx
        simp at hx
        rcases hx with rfl | hx
        · exact hto
        · exact hno x hx
      · right
        simpa using hd2

/-- The state after a tick in which nothing timed out. -/
def ageSt (d : Nat) (s : St) : St := { s with running := ageBy d s.running }

theorem phi0_ageSt (d : Nat) (s : St) : phi0 (ageSt d s) = phi0 s := by
  simp [phi0, ageSt, phiR_ageBy]

theorem QInv_ageSt {d : Nat} {s : St} (hq : QInv s) : QInv (ageSt d s) := by
  refine ⟨hq.retryPos, hq.pendZero, hq.freeOK, ?_⟩
  intro t ht p hp
  simp [ageSt, ageBy] at ht
  obtain ⟨t0, h0, rfl⟩ := ht
  exact hq.runOK t0 h0 p hp

theorem tick_phi {s s' : St} {d : Nat} (hq : QInv s) (h : tick s d = .ok s') :
    QInv s' ∧ s'.halted = s.halted ∧
    ((s' = ageSt d s ∧ ∀ t, t ∈ s.running → ¬ t.age + d > s.cfg.timeout) ∨ phi0 s' + 1 ≤ phi0 s) := by
  unfold tick at h
  simp only at h
  have hq0 : QInv (ageSt d s) := QInv_ageSt hq
  obtain ⟨h1, h2, h3⟩ := timeoutWalk_phi _ _ _ [] (by simpa [ageSt, ageBy] using hq0) h
  refine ⟨h1, h2, ?_⟩
  rcases h3 with ⟨rfl, hno⟩ | h3
  · left
    refine ⟨by simp [ageSt, ageBy], ?_⟩
    intro t ht
    have := hno { t with age := t.age + d } (List.mem_map.mpr ⟨t, ht, rfl⟩)
    simpa using this
  · right
    have := phi0_ageSt d s
    simp only [ageSt, ageBy] at this
    simp only [List.reverse_nil, List.nil_append] at h3
    omega


/-! ### schedule -/

theorem phiP_cut (size : Nat) : ∀ fuel st (hs : List Nat),
    phiP (cutTasks size fuel st hs) ≤ 4 * hs.length + 2 * fuel := by
  intro fuel
  induction fuel with
  | zero => intro st hs; simp [cutTasks, phiP]
  | succ k ih =>
    intro st hs
    simp only [cutTasks]
    split
    · simp [phiP]
    · simp only [phiP, List.length_take]
      have := ih (st + if size = 0 then hs.length else min size hs.length)
        (hs.drop (if size = 0 then hs.length else min size hs.length))
      simp only [List.length_drop] at this
      omega

theorem searchCandidate_phi {s : St} (hq : QInv s) :
    QInv (searchCandidate s).1 ∧ (searchCandidate s).1.halted = s.halted ∧
    (searchCandidate s).1.free = s.free ∧ (searchCandidate s).1.running = s.running ∧
    (searchCandidate s).1.total = s.total ∧ (searchCandidate s).1.bad = s.bad ∧
    ((searchCandidate s).1 = s ∨ phi0 (searchCandidate s).1 + 1 ≤ phi0 s) ∧
    (∀ t, (searchCandidate s).2 = some t →
      (∃ r, (searchCandidate s).1.retryQ = t :: r ∧ 0 < t.retry) ∨
      (∃ r, (searchCandidate s).1.pending = t :: r ∧ t.retry = 0)) := by
  unfold searchCandidate
  split
  · rename_i t r heq
    refine ⟨hq, rfl, rfl, rfl, rfl, rfl, Or.inl rfl, ?_⟩
    intro t' ht'
    simp at ht'; subst ht'
    exact Or.inl ⟨r, heq, hq.retryPos t (by simp [heq])⟩
  · split
    · rename_i t r heq
      refine ⟨hq, rfl, rfl, rfl, rfl, rfl, Or.inl rfl, ?_⟩
      intro t' ht'
      simp at ht'; subst ht'
      exact Or.inr ⟨r, heq, hq.pendZero t (by simp [heq])⟩
    · rename_i hp
      split
      · exact ⟨hq, rfl, rfl, rfl, rfl, rfl, Or.inl rfl, by simp⟩
      · rename_i st hs q heq
        refine ⟨?_, rfl, rfl, rfl, rfl, rfl, Or.inr ?_, ?_⟩
        · exact ⟨hq.retryPos, fun t ht => cutTasks_retry _ _ _ _ t ht, hq.freeOK, hq.runOK⟩
        · have := phiP_cut s.cfg.maxFetchSize hs.length st hs
          simp only [phi0, heq, hp, phiH, phiP]
          omega
        · intro t ht
          simp only at ht
          cases hc : cutTasks s.cfg.maxFetchSize hs.length st hs with
          | nil => rw [hc] at ht; simp at ht
          | cons a r =>
            rw [hc] at ht; simp at ht; subst ht
            exact Or.inr ⟨r, by simp, cutTasks_retry _ _ _ _ a (by rw [hc]; simp)⟩

theorem scheduleLoop_phi : ∀ fuel (s s' : St) outs, QInv s → scheduleLoop fuel s = .ok (s', outs) →
    QInv s' ∧ s'.halted = s.halted ∧ ((s' = s ∧ outs = []) ∨ phi0 s' + 1 ≤ phi0 s) := by
  intro fuel
  induction fuel with
  | zero =>
    intro s s' outs hq h
    simp [scheduleLoop] at h
    obtain ⟨rfl, rfl⟩ := h
    exact ⟨hq, rfl, Or.inl ⟨rfl, rfl⟩⟩
  | succ k ih =>
    intro s s' outs hq h
    simp only [scheduleLoop] at h
    split at h
    · simp at h; obtain ⟨rfl, rfl⟩ := h; exact ⟨hq, rfl, Or.inl ⟨rfl, rfl⟩⟩
    · rename_i p free' hfree
      split at h
      · simp at h; obtain ⟨rfl, rfl⟩ := h; exact ⟨hq, rfl, Or.inl ⟨rfl, rfl⟩⟩
      · obtain ⟨hq1, eh, e1, e2, _, _, hd1, hc⟩ := searchCandidate_phi hq
        generalize hsc : searchCandidate s = sc at h hq1 eh e1 e2 hd1 hc
        obtain ⟨s1, cand⟩ := sc
        simp only at h hq1 eh e1 e2 hd1 hc
        have hstay : QInv s1 ∧ s1.halted = s.halted ∧ ((s1 = s ∧ ([] : List Out) = []) ∨ phi0 s1 + 1 ≤ phi0 s) := by
          refine ⟨hq1, eh, ?_⟩
          rcases hd1 with h1 | h1
          · exact Or.inl ⟨h1, rfl⟩
          · exact Or.inr h1
        split at h
        · simp at h; obtain ⟨rfl, rfl⟩ := h; exact hstay
        · rename_i t
          split at h
          · simp at h; obtain ⟨rfl, rfl⟩ := h; exact hstay
          · split at h
            · simp at h
            · split at h
              · simp at h
              · rename_i s2 outs2 heq
                simp at h
                obtain ⟨rfl, rfl⟩ := h
                have hfree1 : s1.free = p :: free' := by rw [e1]; exact hfree
                have hpok : p.failCnt < maxPeerFailCount := hq1.freeOK p (by simp [hfree1])
                have hle1 : phi0 s1 ≤ phi0 s := by
                  rcases hd1 with h1 | h1
                  · rw [h1]; exact Nat.le_refl _
                  · omega
                rcases hc t rfl with ⟨r, hr, hpos⟩ | ⟨r, hpd, hz⟩
                · have hpos' : t.retry > 0 := hpos
                  simp only [hpos', ↓reduceIte] at heq
                  obtain ⟨hq3, eh3, hd3⟩ := ih ({ ({ s1 with retryQ := s1.retryQ.tail } : St) with free := free', running := ({ s1 with retryQ := s1.retryQ.tail } : St).running ++ [{ t with peer := some p, age := 0 }] } : St) _ _ (by
                    refine ⟨?_, hq1.pendZero, ?_, ?_⟩
                    · intro x hx; exact hq1.retryPos x (List.mem_of_mem_tail hx)
                    · intro x hx; exact hq1.freeOK x (by simp [hfree1, hx])
                    · intro x hx q hq'
                      simp at hx
                      rcases hx with hx | rfl
                      · exact hq1.runOK x hx q hq'
                      · simp at hq'; subst hq'; exact hpok) heq
                  refine ⟨hq3, by rw [eh3]; exact eh, Or.inr ?_⟩
                  have hstep : phi0 ({ ({ s1 with retryQ := s1.retryQ.tail } : St) with free := free', running := ({ s1 with retryQ := s1.retryQ.tail } : St).running ++ [{ t with peer := some p, age := 0 }] } : St) + 1 ≤ phi0 s1 := by
                    simp only [phi0, hr, hfree1, List.tail_cons, phiR_append, phiR, phiQ, phiF, wPeerO]
                    omega
                  rcases hd3 with ⟨rfl, _⟩ | hd3 <;> omega
                · have hz' : ¬ t.retry > 0 := by omega
                  simp only [hz', ↓reduceIte] at heq
                  obtain ⟨hq3, eh3, hd3⟩ := ih ({ ({ s1 with pending := s1.pending.tail } : St) with free := free', running := ({ s1 with pending := s1.pending.tail } : St).running ++ [{ t with peer := some p, age := 0 }] } : St) _ _ (by
                    refine ⟨hq1.retryPos, ?_, ?_, ?_⟩
                    · intro x hx; exact hq1.pendZero x (List.mem_of_mem_tail hx)
                    · intro x hx; exact hq1.freeOK x (by simp [hfree1, hx])
                    · intro x hx q hq'
                      simp at hx
                      rcases hx with hx | rfl
                      · exact hq1.runOK x hx q hq'
                      · simp at hq'; subst hq'; exact hpok) heq
                  refine ⟨hq3, by rw [eh3]; exact eh, Or.inr ?_⟩
                  have hstep : phi0 ({ ({ s1 with pending := s1.pending.tail } : St) with free := free', running := ({ s1 with pending := s1.pending.tail } : St).running ++ [{ t with peer := some p, age := 0 }] } : St) + 1 ≤ phi0 s1 := by
                    simp only [phi0, hpd, hfree1, List.tail_cons, phiR_append, phiR, phiP, phiF, wPeerO]
                    omega
                  rcases hd3 with ⟨rfl, _⟩ | hd3 <;> omega

/-! ### the processor -/

theorem connectNext_phi {s s' : St} {outs : List Out} (h : connectNext s = .ok (s', outs)) :
    phi0 s' ≤ phi0 s ∧ s'.halted = s.halted ∧ FetchEq s s' ∧ s'.free = s.free := by
  unfold connectNext at h
  split at h
  · simp at h; obtain ⟨rfl, rfl⟩ := h
    exact ⟨Nat.le_refl _, rfl, ⟨rfl, rfl, rfl, rfl⟩, rfl⟩
  · rename_i hcb
    have hcb' : s.curBlock = none := by simpa using hcb
    split at h
    · rename_i hpick
      simp at h; obtain ⟨rfl, rfl⟩ := h
      refine ⟨?_, rfl, ⟨rfl, rfl, rfl, rfl⟩, rfl⟩
      simp only [phi0, phiCur]
      omega
    · rename_i s1 c hpick
      split at h
      · simp at h
      · rename_i b hb
        simp at h; obtain ⟨rfl, rfl⟩ := h
        unfold pickConn at hpick
        split at hpick
        · rename_i c1 hadv
          simp at hpick
          obtain ⟨rfl, rfl⟩ := hpick
          unfold advanceCur at hadv
          split at hadv
          · simp at hadv
          · rename_i c0 hc0
            split at hadv
            · simp at hadv
            · rename_i hlt
              simp at hadv
              subst hadv
              refine ⟨?_, rfl, ⟨rfl, rfl, rfl, rfl⟩, rfl⟩
              simp only [phi0, hc0, hcb', phiCur, phiB]
              omega
        · rename_i hadv
          split at hpick
          · simp at hpick
          · rename_i c1 q hpop
            simp at hpick
            obtain ⟨rfl, rfl⟩ := hpick
            unfold popConn at hpop
            split at hpop
            · simp at hpop
            · rename_i c0 r hq
              split at hpop
              · simp at hpop
              · simp at hpop
                obtain ⟨rfl, rfl⟩ := hpop
                have hlen : c0.cur < c0.blocks.length := by
                  have := List.getElem?_eq_some_iff.mp hb
                  exact this.1
                refine ⟨?_, rfl, ⟨rfl, rfl, rfl, rfl⟩, rfl⟩
                simp only [phi0, hq, hcb', phiC, phiCur, phiB]
                omega

theorem QInv_of_fetchEq {s s' : St} (h : FetchEq s s') (hfree : s'.free = s.free) (hq : QInv s) : QInv s' := by
  obtain ⟨h1, h2, h3, _⟩ := h
  exact ⟨by rw [h3]; exact hq.retryPos, by rw [h2]; exact hq.pendZero, by rw [hfree]; exact hq.freeOK,
    by rw [h1]; exact hq.runOK⟩

theorem chunkRsp_phi {s s' : St} {peer : Nat} {err : Bool} {blocks : List Blk} {outs : List Out}
    (hq : QInv s) (h : chunkRsp s peer err blocks = .ok (s', outs)) :
    QInv s' ∧ s'.halted = s.halted ∧ ((s' = s ∧ outs = []) ∨ phi0 s' + 1 ≤ phi0 s) := by
  unfold chunkRsp at h
  split at h
  · rename_i hvalid
    split at h
    · simp at h; obtain ⟨rfl, rfl⟩ := h; exact ⟨hq, rfl, Or.inl ⟨rfl, rfl⟩⟩
    · rename_i t run hfind
      obtain ⟨htmem, hmatch, hsub⟩ := findTask_spec _ _ _ _ hfind
      obtain ⟨hhashes, _⟩ := isMatched_spec hmatch
      have hlen : blocks.length = t.hashes.length := by rw [hhashes]; simp
      have hphi := phiR_findTask _ _ _ _ hfind
      simp only at h
      generalize hs0 : freePeer { s with running := run } t.peer = s0 at h
      have hq0 : QInv s0 := by
        rw [← hs0]
        cases hp : t.peer with
        | none =>
          simp only [freePeer]
          exact ⟨hq.retryPos, hq.pendZero, hq.freeOK, fun x hx => hq.runOK x (hsub x hx)⟩
        | some p =>
          simp only [freePeer]
          refine ⟨hq.retryPos, hq.pendZero, ?_, fun x hx => hq.runOK x (hsub x hx)⟩
          intro x hx
          simp at hx
          rcases hx with hx | rfl
          · exact hq.freeOK x hx
          · exact hq.runOK t htmem x hp
      have hh0 : s0.halted = s.halted := by rw [← hs0]; cases t.peer <;> rfl
      have hmid : phi0 s0 + 3 * t.hashes.length + 1 ≤ phi0 s := by
        rw [← hs0]
        cases hp : t.peer with
        | none =>
          simp only [freePeer, phi0, hphi, hp, wPeerO]
          omega
        | some p =>
          simp only [freePeer, phi0, hphi, hp, wPeerO, phiF_append, phiF]
          omega
      generalize hs1 : ({ s0 with connQ := pushConn s0.connQ ⟨blocks, (blocks.head?.map (·.no)).getD 0, 0⟩ } : St) = s1 at h
      have hq1 : QInv s1 := by rw [← hs1]; exact ⟨hq0.retryPos, hq0.pendZero, hq0.freeOK, hq0.runOK⟩
      have hh1 : s1.halted = s0.halted := by rw [← hs1]
      have hmid1 : phi0 s1 = phi0 s0 + 2 * blocks.length := by
        rw [← hs1]; simp only [phi0, phiC_pushConn]; omega
      obtain ⟨h1, h2, h3, h4⟩ := connectNext_phi h
      refine ⟨QInv_of_fetchEq h3 h4 hq1, by rw [h2, hh1, hh0], Or.inr ?_⟩
      omega
  · split at h
    · simp at h; obtain ⟨rfl, rfl⟩ := h; exact ⟨hq, rfl, Or.inl ⟨rfl, rfl⟩⟩
    · rename_i t run hfind
      obtain ⟨htmem, _, hsub⟩ := findTask_spec _ _ _ _ hfind
      split at h
      · simp at h
      · rename_i s1 hft
        simp at h; obtain ⟨rfl, rfl⟩ := h
        obtain ⟨h1, h2, h3⟩ := failTask_phi hq (phiR_findTask _ _ _ _ hfind) hsub
          (fun p hp => hq.runOK t htmem p hp) hft
        exact ⟨h2, h3, Or.inr h1⟩

theorem addRsp_phi {s s' : St} {no hash : Nat} {err nilHash : Bool} {outs : List Out}
    (hq : QInv s) (h : addRsp s no hash err nilHash = .ok (s', outs)) :
    QInv s' ∧ s'.halted = s.halted ∧ phi0 s' + 1 ≤ phi0 s := by
  unfold addRsp at h
  split at h
  · simp at h
  · split at h
    · simp at h
    · split at h
      · simp at h
      · rename_i cb hcb
        split at h
        · simp at h
        · split at h
          · simp at h
          · rename_i s1 outs1 hcn
            simp at h; obtain ⟨rfl, rfl⟩ := h
            obtain ⟨h1, h2, h3, h4⟩ := connectNext_phi hcn
            refine ⟨QInv_of_fetchEq h3 h4 ⟨hq.retryPos, hq.pendZero, hq.freeOK, hq.runOK⟩, h2, ?_⟩
            have : phi0 ({ s with prev := cb, curBlock := none } : St) + 1 = phi0 s := by
              simp only [phi0, hcb, phiB]
            omega

/-! ### one step -/

/-- What a hash set adds to the measure. -/
def gain : Ev → Nat
  | .hashSet _ hs => 6 * hs.length + 1
  | _ => 0

/-- What a step that changes nothing but ages (or appends a hash set) yields. -/
def quietStep (s : St) : Ev → St
  | .hashSet st hs => { s with hfq := s.hfq ++ [(st, hs)] }
  | .tick d => ageSt d s
  | _ => s

theorem phi_quietStep (s : St) (e : Ev) : phi (quietStep s e) = phi s + gain e := by
  cases e with
  | hashSet st hs =>
    unfold quietStep phi phi0
    dsimp only
    rw [phiH_append]
    simp only [phiH, gain]
    omega
  | tick d =>
    show (if (ageSt d s).halted then 0 else 1) + phi0 (ageSt d s) = (if s.halted then 0 else 1) + phi0 s + 0
    rw [phi0_ageSt]; rfl
  | sched => rfl
  | chunk a b c => rfl
  | addRsp a b c d => rfl

/-- **Dichotomy.** A step of a session that has not stopped either costs at least one unit of the
measure, or changes nothing but the ages of the running tasks (a tick in which nothing timed out)
or the tail of the waiting hash sets (a hash set arrives). -/
theorem step_dich {s : St} (e : Ev) (hq : QInv s) (hh : s.halted = false) :
    QInv (step s e).1 ∧
    (phi (step s e).1 + 1 ≤ phi s + gain e ∨ ((step s e).1 = quietStep s e ∧ delivered (step s e).2 = [])) := by
  unfold step
  have hh' : ¬ (s.halted = true) := by simp [hh]
  rw [if_neg hh']
  have hph : phi0 ({ s with halted := true } : St) = phi0 s := rfl
  have key : ∀ r : Except Err (St × List Out),
      (∀ s' outs, r = .ok (s', outs) → QInv s' ∧ s'.halted = false ∧
        (phi0 s' + 1 ≤ phi0 s + gain e ∨ (s' = quietStep s e ∧ delivered outs = []))) →
      QInv (match r with | .ok x => x | .error e => ({ s with halted := true }, [Out.stop (some e)])).1 ∧
      (phi (match r with | .ok x => x | .error e => ({ s with halted := true }, [Out.stop (some e)])).1 + 1 ≤ phi s + gain e ∨
        ((match r with | .ok x => x | .error e => ({ s with halted := true }, [Out.stop (some e)])).1 = quietStep s e ∧
          delivered (match r with | .ok x => x | .error e => ({ s with halted := true }, [Out.stop (some e)])).2 = [])) := by
    intro r hr
    cases r with
    | error e' =>
      refine ⟨⟨hq.retryPos, hq.pendZero, hq.freeOK, hq.runOK⟩, Or.inl ?_⟩
      simp only [phi, hh, hph]
      simp
      omega
    | ok x =>
      obtain ⟨s', outs⟩ := x
      obtain ⟨h1, h2, h3⟩ := hr s' outs rfl
      refine ⟨h1, ?_⟩
      rcases h3 with h3 | h3
      · left; simp only [phi, h2, hh]; simp; omega
      · right; exact h3
  apply key
  intro s' outs hr
  cases e with
  | hashSet st hs =>
    simp only [Except.ok.injEq, Prod.mk.injEq] at hr; obtain ⟨rfl, rfl⟩ := hr
    exact ⟨⟨hq.retryPos, hq.pendZero, hq.freeOK, hq.runOK⟩, hh, Or.inr ⟨rfl, rfl⟩⟩
  | sched =>
    simp only [schedule] at hr
    obtain ⟨h1, h2, h3⟩ := scheduleLoop_phi _ _ _ _ hq hr
    refine ⟨h1, by rw [h2]; exact hh, ?_⟩
    rcases h3 with ⟨rfl, rfl⟩ | h3
    · exact Or.inr ⟨rfl, rfl⟩
    · left; simpa [gain] using h3
  | tick d =>
    simp only at hr
    cases ht : tick s d with
    | error e => simp [ht, Except.map] at hr
    | ok s1 =>
      simp [ht, Except.map] at hr
      obtain ⟨rfl, rfl⟩ := hr
      obtain ⟨h1, h2, h3⟩ := tick_phi hq ht
      refine ⟨h1, by rw [h2]; exact hh, ?_⟩
      rcases h3 with ⟨rfl, _⟩ | h3
      · exact Or.inr ⟨rfl, rfl⟩
      · left; simpa [gain] using h3
  | chunk peer err blocks =>
    obtain ⟨h1, h2, h3⟩ := chunkRsp_phi hq hr
    refine ⟨h1, by rw [h2]; exact hh, ?_⟩
    rcases h3 with ⟨rfl, rfl⟩ | h3
    · exact Or.inr ⟨rfl, rfl⟩
    · left; simpa [gain] using h3
  | addRsp no hash err nilHash =>
    obtain ⟨h1, h2, h3⟩ := addRsp_phi hq hr
    exact ⟨h1, by rw [h2]; exact hh, Or.inl (by simpa [gain] using h3)⟩

/-- No step increases the measure by more than the hash set it brings. -/
theorem step_phi_le {s : St} (e : Ev) (hq : QInv s) : QInv (step s e).1 ∧ phi (step s e).1 ≤ phi s + gain e := by
  by_cases hh : s.halted = true
  · have : step s e = (s, []) := by simp [step, hh]
    rw [this]; exact ⟨hq, Nat.le_add_right _ _⟩
  · obtain ⟨h1, h2⟩ := step_dich e hq (by simpa using hh)
    refine ⟨h1, ?_⟩
    rcases h2 with h2 | ⟨h2, _⟩
    · omega
    · rw [h2, phi_quietStep]; exact Nat.le_refl _

/-- A tick at which some running task is overdue costs a unit. -/
theorem tick_overdue {s : St} {d : Nat} {t : Task} (hq : QInv s) (hh : s.halted = false)
    (ht : t ∈ s.running) (hto : t.age + d > s.cfg.timeout) :
    phi (step s (.tick d)).1 + 1 ≤ phi s := by
  unfold step
  simp only [hh, Bool.false_eq_true, ↓reduceIte]
  have hph : phi0 ({ s with halted := true } : St) = phi0 s := rfl
  cases htk : tick s d with
  | error e =>
    simp only [Except.map, phi, hh, hph]
    simp
    omega
  | ok s1 =>
    simp only [Except.map]
    obtain ⟨_, h2, h3⟩ := tick_phi hq htk
    rcases h3 with ⟨_, hno⟩ | h3
    · exact absurd hto (hno t ht)
    · simp only [phi, h2, hh]; omega

theorem init_qinv (cfg : Cfg) (anc : Blk) (target npeers : Nat) : QInv (St.init cfg anc target npeers) := by
  refine ⟨by simp [St.init], by simp [St.init], ?_, by simp [St.init]⟩
  intro p hp
  simp [St.init] at hp
  obtain ⟨i, _, rfl⟩ := hp
  simp [maxPeerFailCount]

theorem phiF_init (n : Nat) : phiF ((List.range n).map fun i => (⟨i, 0⟩ : Peer)) = 6 * n := by
  induction n with
  | zero => rfl
  | succ k ih =>
    rw [List.range_succ, List.map_append, phiF_append, ih]
    simp [phiF, wPeer, maxPeerFailCount]; omega

theorem phi_init (cfg : Cfg) (anc : Blk) (target npeers : Nat) :
    phi (St.init cfg anc target npeers) = 1 + 6 * npeers := by
  simp [phi, phi0, St.init, phiH, phiP, phiR, phiQ, phiC, phiCur, phiB, phiF_init]

end Aergo.Sync
