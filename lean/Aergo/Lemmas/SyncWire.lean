/-
Lemmas for C17, round 3:
* provenance of what is handed to the chain service (`Src`): every block in the connect queue, in the current
  connect task and in the output of a step is a block of some chunk reply — the link between a delivered block
  and the peer's reply that carried it (needed for the parent field, which no other invariant talks about);
* `findAncestor` of the serving node;
* the p2p hash receiver over whole part lists.
-/
import Aergo.Lemmas.Sync

namespace Aergo.Sync

/-! ## Provenance -/

section Src
variable (S : Blk → Prop)

/-- Every block waiting in the processor satisfies `S`. -/
structure Src (s : St) : Prop where
  connq : ∀ c, c ∈ s.connQ → ∀ b, b ∈ c.blocks → S b
  cur : ∀ c, s.curConn = some c → ∀ b, b ∈ c.blocks → S b

theorem Src.of_procEq {s s' : St} (h : ProcEq s s') (hs : Src S s) : Src S s' := by
  obtain ⟨h1, h2, _, _⟩ := h
  exact ⟨by rw [h1]; exact hs.connq, by rw [h2]; exact hs.cur⟩

theorem advanceCur_blocks {o : Option ConnTask} {c : ConnTask} (h : advanceCur o = some c) :
    ∃ c0, o = some c0 ∧ c.blocks = c0.blocks := by
  cases o with
  | none => simp [advanceCur] at h
  | some c0 =>
    simp only [advanceCur] at h
    split at h
    · simp at h
    · simp at h; subst h; exact ⟨c0, rfl, rfl⟩

theorem pickConn_src {s s1 : St} {c : ConnTask} (hs : Src S s) (h : pickConn s = some (s1, c)) :
    (∀ c', c' ∈ s1.connQ → ∀ b, b ∈ c'.blocks → S b) ∧ s1.curConn = some c ∧ (∀ b, b ∈ c.blocks → S b) := by
  unfold pickConn at h
  split at h
  · rename_i c0 hadv
    simp at h; obtain ⟨rfl, rfl⟩ := h
    obtain ⟨c1, hc1, hb⟩ := advanceCur_blocks hadv
    refine ⟨hs.connq, rfl, ?_⟩
    rw [hb]; exact hs.cur c1 hc1
  · split at h
    · simp at h
    · rename_i c0 q hpop
      simp at h; obtain ⟨rfl, rfl⟩ := h
      unfold popConn at hpop
      split at hpop
      · simp at hpop
      · rename_i c1 r hq
        split at hpop
        · simp at hpop
        · simp at hpop; obtain ⟨rfl, rfl⟩ := hpop
          refine ⟨?_, rfl, ?_⟩
          · intro c' hc'; exact hs.connq c' (by rw [hq]; simp [hc'])
          · exact hs.connq c1 (by rw [hq]; simp)

theorem connectNext_src {s s' : St} {outs : List Out} (hs : Src S s) (h : connectNext s = .ok (s', outs)) :
    Src S s' ∧ ∀ b, b ∈ delivered outs → S b := by
  unfold connectNext at h
  split at h
  · simp at h; obtain ⟨rfl, rfl⟩ := h
    exact ⟨hs, by simp [delivered]⟩
  · split at h
    · simp at h; obtain ⟨rfl, rfl⟩ := h
      exact ⟨⟨hs.connq, by simp⟩, by simp [delivered]⟩
    · rename_i s1 c hpick
      obtain ⟨hq, hcur, hc⟩ := pickConn_src S hs hpick
      split at h
      · simp at h
      · rename_i b hb
        simp at h; obtain ⟨rfl, rfl⟩ := h
        refine ⟨⟨hq, ?_⟩, ?_⟩
        · intro c' hc'
          simp only at hc'
          rw [hcur] at hc'
          simp at hc'; subst hc'
          exact hc
        · intro b' hb'
          simp [delivered] at hb'
          rw [hb']
          exact hc b (List.mem_of_getElem? hb)

private theorem failTask_procEq {s s' : St} {t : Task} (h : failTask s t = .ok s') : ProcEq s s' := by
  unfold failTask at h
  split at h
  · simp at h
  · simp only at h
    split at h
    · simp at h
    · simp at h; subst h
      exact ⟨by simp, by simp, by simp, by simp⟩

theorem chunkRsp_src {s s' : St} {peer : Nat} {err : Bool} {blocks : List Blk} {outs : List Out}
    (hs : Src S s) (hb : ∀ b, b ∈ blocks → S b) (h : chunkRsp s peer err blocks = .ok (s', outs)) :
    Src S s' ∧ ∀ b, b ∈ delivered outs → S b := by
  unfold chunkRsp at h
  split at h
  · split at h
    · simp at h; obtain ⟨rfl, rfl⟩ := h
      exact ⟨hs, by simp [delivered]⟩
    · rename_i t run hfind
      apply connectNext_src S ?_ h
      have h0 : Src S (freePeer { s with running := run } t.peer) :=
        Src.of_procEq S (freePeer_procEq _ _) ⟨hs.connq, hs.cur⟩
      constructor
      · intro c hc b hbc
        simp only at hc
        rcases (mem_pushConn _ _ _).mp hc with rfl | hc
        · exact hb b hbc
        · exact h0.connq c hc b hbc
      · exact h0.cur
  · split at h
    · simp at h; obtain ⟨rfl, rfl⟩ := h
      exact ⟨hs, by simp [delivered]⟩
    · rename_i t run hfind
      split at h
      · simp at h
      · rename_i s1 hft
        simp at h; obtain ⟨rfl, rfl⟩ := h
        exact ⟨Src.of_procEq S (failTask_procEq hft) ⟨hs.connq, hs.cur⟩, by simp [delivered]⟩

theorem addRsp_src {s s' : St} {no hash : Nat} {err nilHash : Bool} {outs : List Out}
    (hs : Src S s) (h : addRsp s no hash err nilHash = .ok (s', outs)) :
    Src S s' ∧ ∀ b, b ∈ delivered outs → S b := by
  unfold addRsp at h
  split at h
  · simp at h
  · split at h
    · simp at h
    · split at h
      · simp at h
      · rename_i cb hcb
        split at h
        · simp at h
        · split at h
          · simp at h
          · rename_i s1 outs1 hcn
            simp at h; obtain ⟨rfl, rfl⟩ := h
            obtain ⟨h1, h2⟩ := connectNext_src S (s := { s with prev := cb, curBlock := none }) ⟨hs.connq, hs.cur⟩ hcn
            refine ⟨h1, ?_⟩
            intro b hb
            rw [delivered_append] at hb
            have : delivered (stopOuts s cb) = [] := by unfold stopOuts; split <;> simp [delivered]
            rw [this] at hb
            exact h2 b (by simpa using hb)

/-- One step keeps the provenance and hands over only blocks of `S`, if the blocks of a chunk reply are in `S`. -/
theorem step_src {s : St} {e : Ev} (hs : Src S s)
    (he : ∀ peer err blocks, e = .chunk peer err blocks → ∀ b, b ∈ blocks → S b) :
    Src S (step s e).1 ∧ ∀ b, b ∈ delivered (step s e).2 → S b := by
  unfold step
  split
  · exact ⟨hs, by simp [delivered]⟩
  · have key : ∀ r : Except Err (St × List Out),
        (∀ s' outs, r = .ok (s', outs) → Src S s' ∧ ∀ b, b ∈ delivered outs → S b) →
        Src S (match r with | .ok x => x | .error e => ({ s with halted := true }, [Out.stop (some e)])).1 ∧
        ∀ b, b ∈ delivered (match r with | .ok x => x | .error e => ({ s with halted := true }, [Out.stop (some e)])).2 → S b := by
      intro r hr
      cases r with
      | error e => exact ⟨⟨hs.connq, hs.cur⟩, by simp [delivered]⟩
      | ok x => obtain ⟨s', outs⟩ := x; exact hr s' outs rfl
    apply key
    intro s' outs hr
    cases e with
    | hashSet st hsh =>
      simp at hr; obtain ⟨rfl, rfl⟩ := hr
      exact ⟨⟨hs.connq, hs.cur⟩, by simp [delivered]⟩
    | sched =>
      simp only [schedule] at hr
      have hf : FInv (fun _ _ => True) s := ⟨fun _ _ _ _ _ => trivial, fun _ _ _ _ _ => trivial, fun _ _ _ _ _ => trivial, fun _ _ _ _ _ => trivial⟩
      obtain ⟨_, h2, h3⟩ := scheduleLoop_inv (fun _ _ => True) _ _ _ _ hf hr
      exact ⟨Src.of_procEq S h2 hs, by rw [h3]; simp⟩
    | tick d =>
      simp only at hr
      cases ht : tick s d with
      | error e => simp [ht, Except.map] at hr
      | ok s1 =>
        simp [ht, Except.map] at hr
        obtain ⟨rfl, rfl⟩ := hr
        have hf : FInv (fun _ _ => True) s := ⟨fun _ _ _ _ _ => trivial, fun _ _ _ _ _ => trivial, fun _ _ _ _ _ => trivial, fun _ _ _ _ _ => trivial⟩
        obtain ⟨_, h2⟩ := tick_inv (fun _ _ => True) hf ht
        exact ⟨Src.of_procEq S h2 hs, by simp [delivered]⟩
    | chunk peer err blocks => exact chunkRsp_src S hs (he peer err blocks rfl) hr
    | addRsp no hash err nilHash => exact addRsp_src S hs hr

/-- Over a whole session: every block handed to the chain service satisfies `S`. -/
theorem run_src {es : List Ev} : ∀ {s : St}, Src S s →
    (∀ peer err blocks, Ev.chunk peer err blocks ∈ es → ∀ b, b ∈ blocks → S b) →
    ∀ b, b ∈ delivered (run s es).2 → S b := by
  induction es with
  | nil => intro s _ _ b h; simp [run, delivered] at h
  | cons e es ih =>
    intro s hs he b h
    obtain ⟨h1, h2⟩ := step_src S (e := e) hs (by intro p er bl heq; exact he p er bl (by simp [heq]))
    simp only [run] at h
    rw [delivered_append] at h
    rcases List.mem_append.mp h with h | h
    · exact h2 b h
    · exact ih h1 (fun p er bl hm => he p er bl (by simp [hm])) b h

theorem init_src (cfg : Cfg) (anc : Blk) (target npeers : Nat) : Src S (St.init cfg anc target npeers) := by
  constructor <;> simp [St.init]

end Src

/-! ## findAncestor -/

/-- What `findAncestor` returns is one of the listed ids, stored at the height it names, and the main-chain
block there; no id listed before it is on the main chain. -/
theorem findAncestor_some (store main : Nat → Option Nat) : ∀ (hs : List Nat) (h n : Nat),
    findAncestor store main hs = some (h, n) →
    ∃ pre post, hs = pre ++ h :: post ∧ store h = some n ∧ main n = some h ∧
      ∀ x, x ∈ pre → ∀ m, store x = some m → main m ≠ some x := by
  intro hs
  induction hs with
  | nil => intro h n hf; simp [findAncestor] at hf
  | cons x r ih =>
    intro h n hf
    simp only [findAncestor] at hf
    split at hf
    · rename_i hst
      obtain ⟨pre, post, e, h1, h2, h3⟩ := ih h n hf
      refine ⟨x :: pre, post, by simp [e], h1, h2, ?_⟩
      intro y hy m hm
      simp at hy
      rcases hy with rfl | hy
      · rw [hst] at hm; simp at hm
      · exact h3 y hy m hm
    · rename_i m hst
      split at hf
      · rename_i hmain
        simp at hf; obtain ⟨rfl, rfl⟩ := hf
        exact ⟨[], r, rfl, hst, hmain, by simp⟩
      · rename_i hmain
        obtain ⟨pre, post, e, h1, h2, h3⟩ := ih h n hf
        refine ⟨x :: pre, post, by simp [e], h1, h2, ?_⟩
        intro y hy m' hm'
        simp at hy
        rcases hy with rfl | hy
        · rw [hst] at hm'; simp at hm'; subst hm'; exact hmain
        · exact h3 y hy m' hm'

theorem findAncestor_none (store main : Nat → Option Nat) : ∀ (hs : List Nat),
    findAncestor store main hs = none → ∀ x, x ∈ hs → ∀ m, store x = some m → main m ≠ some x := by
  intro hs
  induction hs with
  | nil => intro _ x hx; simp at hx
  | cons y r ih =>
    intro hf x hx m hm
    simp only [findAncestor] at hf
    split at hf
    · rename_i hst
      simp at hx
      rcases hx with rfl | hx
      · rw [hst] at hm; simp at hm
      · exact ih hf x hx m hm
    · rename_i m0 hst
      split at hf
      · simp at hf
      · rename_i hmain
        simp at hx
        rcases hx with rfl | hx
        · rw [hst] at hm; simp at hm; subst hm; exact hmain
        · exact ih hf x hx m hm

/-! ## The hash receiver -/

/-- `got` never exceeds the requested count. -/
def HInv (r : HRecv) : Prop := r.got.length ≤ r.reqCnt

theorem hrecvAdd_spec (reqCnt : Nat) : ∀ (hs : List (Nat × Bool)) (got : List Nat), got.length ≤ reqCnt →
    (hrecvAdd reqCnt got hs).1.length ≤ reqCnt ∧
    (∃ k, (hrecvAdd reqCnt got hs).1 = got ++ (hs.take k).map (·.1)) ∧
    ((hrecvAdd reqCnt got hs).2 = none → (hrecvAdd reqCnt got hs).1 = got ++ hs.map (·.1) ∧ ∀ x, x ∈ hs → x.2 = true) := by
  intro hs
  induction hs with
  | nil => intro got hg; simp [hrecvAdd, hg]
  | cons x r ih =>
    intro got hg
    obtain ⟨h, ok⟩ := x
    simp only [hrecvAdd]
    split
    · exact ⟨hg, ⟨0, by simp⟩, by simp⟩
    · rename_i hok
      split
      · exact ⟨hg, ⟨0, by simp⟩, by simp⟩
      · rename_i hlen
        have hg' : (got ++ [h]).length ≤ reqCnt := by simp; omega
        obtain ⟨h1, ⟨k, h2⟩, h3⟩ := ih (got ++ [h]) hg'
        refine ⟨h1, ⟨k + 1, by rw [h2]; simp⟩, ?_⟩
        intro hn
        obtain ⟨e, hall⟩ := h3 hn
        refine ⟨by rw [e]; simp, ?_⟩
        intro y hy
        simp at hy
        rcases hy with rfl | hy
        · simpa using hok
        · exact hall y hy

theorem hreceive_inv (r : HRecv) (p : HPart) (h : HInv r) : HInv (r.receive p).1 := by
  unfold HRecv.receive
  split
  · exact h
  · exact h
  · split
    · exact h
    · split
      · exact h
      · split
        · exact h
        · have := (hrecvAdd_spec r.reqCnt p.hashes r.got h).1
          split
          · rename_i got e heq
            rw [heq] at this
            exact this
          · rename_i got heq
            rw [heq] at this
            split
            · exact this
            · exact this

theorem hreceive_reqCnt (r : HRecv) (p : HPart) : (r.receive p).1.reqCnt = r.reqCnt := by
  unfold HRecv.receive
  repeat' split
  all_goals rfl

def hanswers : List HRecvOut → Nat
  | [] => 0
  | .nothing :: r => hanswers r
  | _ :: r => hanswers r + 1

theorem hreceive_not_waiting (r : HRecv) (p : HPart) (h : r.status ≠ .waiting) : r.receive p = (r, .nothing) := by
  unfold HRecv.receive
  cases hs : r.status with
  | waiting => exact absurd hs h
  | canceled => rfl
  | finished => rfl

theorem hreceive_out_status (r : HRecv) (p : HPart) :
    (r.receive p).2 ≠ .nothing → (r.receive p).1.status ≠ .waiting := by
  unfold HRecv.receive
  split
  · simp
  · simp
  · split
    · simp
    · split
      · simp
      · split
        · simp
        · split
          · intro _; simp; split <;> simp
          · split
            · simp
            · simp

/-- Over a whole exchange: a success carries at most the requested number of hashes, `Count` is their number,
and at most one message goes to the syncer. -/
theorem hfeed_spec : ∀ (parts : List HPart) (r : HRecv), HInv r →
    (∀ hs c, HRecvOut.rsp hs c ∈ (HRecv.feed r parts).2 → hs.length ≤ r.reqCnt ∧ c = hs.length) ∧
    hanswers (HRecv.feed r parts).2 ≤ (if r.status = .waiting then 1 else 0) := by
  intro parts
  induction parts with
  | nil => intro r _; simp [HRecv.feed, hanswers]
  | cons p ps ih =>
    intro r hr
    have hinv := hreceive_inv r p hr
    obtain ⟨ih1, ih2⟩ := ih (r.receive p).1 hinv
    simp only [HRecv.feed]
    constructor
    · intro hs c hm
      simp at hm
      rcases hm with hm | hm
      · -- this part produced it
        have : (r.receive p).2 = .rsp hs c := hm.symm
        revert this
        unfold HRecv.receive
        split
        · simp
        · simp
        · split
          · simp
          · split
            · simp
            · split
              · simp
              · have hsp := (hrecvAdd_spec r.reqCnt p.hashes r.got hr).1
                split
                · simp
                · rename_i got heq
                  rw [heq] at hsp
                  split
                  · simp
                  · intro h; simp at h; obtain ⟨rfl, rfl⟩ := h; exact ⟨hsp, rfl⟩
      · have := ih1 hs c hm
        rw [hreceive_reqCnt] at this
        exact this
    · by_cases hw : r.status = .waiting
      · simp only [hw, if_true]
        cases ho : (r.receive p).2 with
        | nothing => simp [hanswers]; exact Nat.le_trans ih2 (by split <;> omega)
        | rsp hs c =>
          have := hreceive_out_status r p (by rw [ho]; simp)
          simp [this] at ih2
          simp [hanswers, ih2]
        | rspErr e =>
          have := hreceive_out_status r p (by rw [ho]; simp)
          simp [this] at ih2
          simp [hanswers, ih2]
      · have hnw := hreceive_not_waiting r p hw
        rw [hnw] at ih2 ⊢
        simp [hw] at ih2 ⊢
        simp [hanswers, ih2]

/-! ## Anchors are strictly descending -/

theorem anchorsFrom_le' : ∀ fuel no a, a ∈ anchorsFrom fuel no → a ≤ no := by
  intro fuel
  induction fuel with
  | zero => intro no a h; simp [anchorsFrom] at h
  | succ n ih =>
    intro no a h
    simp only [anchorsFrom] at h
    simp at h
    rcases h with rfl | ⟨_, h⟩
    · omega
    · have := ih _ a h
      split at this <;> omega

theorem anchorsFrom_pairwise : ∀ fuel no, (anchorsFrom fuel no).Pairwise (· > ·) := by
  intro fuel
  induction fuel with
  | zero => intro no; simp [anchorsFrom]
  | succ n ih =>
    intro no
    simp only [anchorsFrom]
    rw [List.pairwise_cons]
    constructor
    · intro a ha
      split at ha
      · simp at ha
      · rename_i hne
        have := anchorsFrom_le' n _ a ha
        simp only [skip] at this
        by_cases h16 : no < 16
        · simp [h16] at this; omega
        · simp [h16] at this; omega
    · split
      · simp
      · exact ih _

theorem anchors_pairwise (best : Nat) : (anchors best).Pairwise (· > ·) := anchorsFrom_pairwise _ _

theorem anchors_le (best a : Nat) (h : a ∈ anchors best) : a ≤ best := anchorsFrom_le' _ _ a h

theorem anchors_ne_nil (best : Nat) : anchors best ≠ [] := by
  unfold anchors maxAnchors
  rw [show (32 : Nat) = 31 + 1 from rfl, anchorsFrom]
  exact List.cons_ne_nil _ _

theorem lastAnchor_mem (best : Nat) : lastAnchorOf best ∈ anchors best := by
  unfold lastAnchorOf
  cases hl : (anchors best).getLast? with
  | none =>
    have : anchors best = [] := by simpa using hl
    exact absurd this (anchors_ne_nil best)
  | some x => simpa using List.mem_of_getLast? hl

theorem findAncestor_eq_none (store main : Nat → Option Nat) : ∀ (hs : List Nat),
    (∀ x, x ∈ hs → ∀ m, store x = some m → main m ≠ some x) → findAncestor store main hs = none := by
  intro hs
  induction hs with
  | nil => intro _; rfl
  | cons y r ih =>
    intro h
    simp only [findAncestor]
    split
    · exact ih (fun x hx => h x (by simp [hx]))
    · rename_i m hst
      have := h y (by simp) m hst
      simp [this]
      exact ih (fun x hx => h x (by simp [hx]))

end Aergo.Sync
