/-
Concrete environments (C17): a finite list of events followed for ever by scheduler passes and
ticks in turn. Used for the satisfiability witnesses of the termination theorems and for the
model witness of the session without peers. Core Lean only.
-/
import Aergo.Lemmas.SyncLive

namespace Aergo.Sync

/-- `l`, then `sched, tick 1, sched, tick 1, …`. -/
def tailStream (l : List Ev) : Nat → Ev :=
  fun i => l.getD i (if (i - l.length) % 2 = 0 then .sched else .tick 1)

theorem pre_tailStream_le (l : List Ev) : ∀ n, n ≤ l.length → pre (tailStream l) n = l.take n := by
  intro n
  induction n with
  | zero => intro _; simp [pre]
  | succ k ih =>
    intro hk
    rw [pre_succ, ih (by omega)]
    have hlt : k < l.length := by omega
    have : tailStream l k = l[k] := by
      simp [tailStream, List.getD, List.getElem?_eq_getElem hlt]
    rw [this, List.take_succ_eq_append_getElem hlt]

theorem pre_tailStream (l : List Ev) : pre (tailStream l) l.length = l := by
  rw [pre_tailStream_le l _ (Nat.le_refl _)]; simp

theorem tailStream_ge (l : List Ev) (i : Nat) (h : l.length ≤ i) :
    tailStream l i = .sched ∨ tailStream l i = .tick 1 := by
  have : l[i]? = none := by simp; omega
  simp only [tailStream, List.getD, this, Option.getD_none]
  split
  · exact Or.inl rfl
  · exact Or.inr rfl

/-- Once the list is used up in a state that neither a scheduler pass nor a tick changes, the
state stays, and nothing more is sent. -/
theorem tailStream_fix (s0 : St) (l : List Ev)
    (h1 : step (run s0 l).1 .sched = ((run s0 l).1, []))
    (h2 : step (run s0 l).1 (.tick 1) = ((run s0 l).1, [])) :
    ∀ k, stAt s0 (tailStream l) (l.length + k) = (run s0 l).1 ∧
      outsAt s0 (tailStream l) (l.length + k) = (run s0 l).2 := by
  intro k
  induction k with
  | zero => simp [stAt, outsAt, pre_tailStream]
  | succ k ih =>
    rw [show l.length + (k + 1) = l.length + k + 1 by omega, stAt_succ, outsAt_succ, ih.1, ih.2]
    rcases tailStream_ge l (l.length + k) (by omega) with h | h
    · rw [h, h1]; simp
    · rw [h, h2]; simp

theorem tailStream_sched (l : List Ev) (i : Nat) : ∃ j, i ≤ j ∧ tailStream l j = .sched := by
  refine ⟨l.length + 2 * i, by omega, ?_⟩
  have : l[l.length + 2 * i]? = none := by simp
  simp only [tailStream, List.getD, this, Option.getD_none]
  rw [if_pos (by omega)]

theorem tailStream_tick (l : List Ev) (i : Nat) : ∃ j, i ≤ j ∧ ∃ d, 0 < d ∧ tailStream l j = .tick d := by
  refine ⟨l.length + 2 * i + 1, by omega, 1, by omega, ?_⟩
  have : l[l.length + 2 * i + 1]? = none := by simp; omega
  simp only [tailStream, List.getD, this, Option.getD_none]
  rw [if_neg (by omega)]

theorem HashSetsFrom_append_quiet : ∀ (a : List Ev) (E : Nat) (b : List Ev), HashSetsFrom E a →
    (∀ e, e ∈ b → e = .sched ∨ e = .tick 1) → HashSetsFrom E (a ++ b) := by
  intro a
  induction a with
  | nil =>
    intro E b _ hb
    induction b with
    | nil => trivial
    | cons x r ihb =>
      rcases hb x (by simp) with rfl | rfl
      · exact ihb (fun e he => hb e (by simp [he]))
      · exact ihb (fun e he => hb e (by simp [he]))
  | cons x r ih =>
    intro E b ha hb
    cases x with
    | hashSet st hs => exact ⟨ha.1, ha.2.1, ih _ b ha.2.2 hb⟩
    | sched => exact ih _ b ha hb
    | tick d => exact ih _ b ha hb
    | chunk p q w => exact ih _ b ha hb
    | addRsp p q w z => exact ih _ b ha hb

theorem HashSetsFrom_take : ∀ (l : List Ev) (E n : Nat), HashSetsFrom E l → HashSetsFrom E (l.take n) := by
  intro l
  induction l with
  | nil => intro E n _; simp [HashSetsFrom]
  | cons x r ih =>
    intro E n h
    cases n with
    | zero => simp [HashSetsFrom]
    | succ k =>
      cases x with
      | hashSet st hs => exact ⟨h.1, h.2.1, ih _ k h.2.2⟩
      | sched => exact ih _ k h
      | tick d => exact ih _ k h
      | chunk p q w => exact ih _ k h
      | addRsp p q w z => exact ih _ k h

theorem annEnd_append_quiet : ∀ (b : List Ev) (E : Nat), (∀ e, e ∈ b → e = .sched ∨ e = .tick 1) → annEnd E b = E := by
  intro b
  induction b with
  | nil => intro E _; rfl
  | cons x r ih =>
    intro E hb
    rcases hb x (by simp) with rfl | rfl
    · simp only [annEnd, evLen]; exact ih _ (fun e he => hb e (by simp [he]))
    · simp only [annEnd, evLen]; exact ih _ (fun e he => hb e (by simp [he]))

theorem annEnd_take_le : ∀ (l : List Ev) (E n : Nat), annEnd E (l.take n) ≤ annEnd E l := by
  intro l
  induction l with
  | nil => intro E n; simp [annEnd]
  | cons x r ih =>
    intro E n
    cases n with
    | zero =>
      simp only [List.take_zero, annEnd]
      have : ∀ (l : List Ev) (E : Nat), E ≤ annEnd E l := by
        intro l
        induction l with
        | nil => intro E; exact Nat.le_refl _
        | cons y q ihq => intro E; simp only [annEnd]; have := ihq (E + evLen y); omega
      have := this r (E + evLen x)
      omega
    | succ k => simp only [List.take_succ_cons, annEnd]; exact ih _ k

/-- The prefix of a tail stream beyond the list: the list followed by quiet events. -/
theorem pre_tailStream_ge (l : List Ev) (k : Nat) :
    ∃ b, pre (tailStream l) (l.length + k) = l ++ b ∧ ∀ e, e ∈ b → e = .sched ∨ e = .tick 1 := by
  induction k with
  | zero => exact ⟨[], by simp [pre_tailStream], by simp⟩
  | succ k ih =>
    obtain ⟨b, hb, hq⟩ := ih
    refine ⟨b ++ [tailStream l (l.length + k)], ?_, ?_⟩
    · rw [show l.length + (k + 1) = l.length + k + 1 by omega, pre_succ, hb, List.append_assoc]
    · intro e he
      simp at he
      rcases he with he | rfl
      · exact hq e he
      · exact tailStream_ge l _ (by omega)

theorem tailStream_hashSets (l : List Ev) (E : Nat) (h : HashSetsFrom E l) :
    ∀ n, HashSetsFrom E (pre (tailStream l) n) := by
  intro n
  by_cases hn : n ≤ l.length
  · rw [pre_tailStream_le l n hn]; exact HashSetsFrom_take l E n h
  · obtain ⟨b, hb, hq⟩ := pre_tailStream_ge l (n - l.length)
    rw [show l.length + (n - l.length) = n by omega] at hb
    rw [hb]; exact HashSetsFrom_append_quiet l E b h hq

theorem tailStream_annEnd (l : List Ev) (E : Nat) :
    (∀ n, annEnd E (pre (tailStream l) n) ≤ annEnd E l) ∧ annEnd E (pre (tailStream l) l.length) = annEnd E l := by
  refine ⟨?_, by rw [pre_tailStream]⟩
  intro n
  by_cases hn : n ≤ l.length
  · rw [pre_tailStream_le l n hn]; exact annEnd_take_le l E n
  · obtain ⟨b, hb, hq⟩ := pre_tailStream_ge l (n - l.length)
    rw [show l.length + (n - l.length) = n by omega] at hb
    rw [hb, annEnd_append, annEnd_append_quiet b _ hq]
    exact Nat.le_refl _

end Aergo.Sync
