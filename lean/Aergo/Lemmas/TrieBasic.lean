/-
Helper lemmas for the trie model (C10/C11): key order, batch well-formedness, the specification
of `maybeAddShortcutToKV` as a sorted insertion, and the split of a sorted batch at a bit.
-/
import Aergo.Model.Trie

namespace Aergo.Trie
variable {V : Type}

/-! ### order on remaining key bits -/

theorem cmp_refl (a : List Bool) : cmp a a = .eq := by
  induction a with
  | nil => rfl
  | cons x xs ih => simp [cmp, ih]

theorem cmp_eq_iff (a b : List Bool) : cmp a b = .eq ↔ a = b := by
  induction a generalizing b with
  | nil => cases b <;> simp [cmp]
  | cons x xs ih =>
    cases b with
    | nil => simp [cmp]
    | cons y ys =>
      simp only [cmp]
      by_cases hxy : x = y
      · subst hxy; simp [ih]
      · have : (x == y) = false := by simpa using hxy
        simp only [this, Bool.false_eq_true, ↓reduceIte, List.cons.injEq, hxy, false_and, iff_false]
        cases x <;> simp

theorem cmp_cons (b : Bool) (a c : List Bool) : cmp (b :: a) (b :: c) = cmp a c := by
  simp [cmp]

theorem cmp_lt_head {x y : Bool} {a c : List Bool} (h : cmp (x :: a) (y :: c) = .lt) (hx : x = true) :
    y = true := by
  subst hx
  cases y with
  | true => rfl
  | false => simp [cmp] at h

theorem cmp_gt_of_lt : ∀ (a b : List Bool), cmp a b = .lt → cmp b a = .gt := by
  intro a
  induction a with
  | nil => intro b h; cases b <;> simp_all [cmp]
  | cons x xs ih =>
    intro b h
    cases b with
    | nil => simp [cmp] at h
    | cons y ys =>
      simp only [cmp] at h ⊢
      by_cases hxy : x = y
      · subst hxy; simp at h ⊢; exact ih _ h
      · have h1 : (x == y) = false := by simpa using hxy
        have h2 : (y == x) = false := by simpa using (Ne.symm hxy)
        simp only [h1, h2, Bool.false_eq_true, ↓reduceIte] at h ⊢
        cases x <;> cases y <;> simp_all

theorem cmp_lt_of_gt : ∀ (a b : List Bool), cmp a b = .gt → cmp b a = .lt := by
  intro a
  induction a with
  | nil => intro b h; cases b <;> simp_all [cmp]
  | cons x xs ih =>
    intro b h
    cases b with
    | nil => simp [cmp]
    | cons y ys =>
      simp only [cmp] at h ⊢
      by_cases hxy : x = y
      · subst hxy; simp at h ⊢; exact ih _ h
      · have h1 : (x == y) = false := by simpa using hxy
        have h2 : (y == x) = false := by simpa using (Ne.symm hxy)
        simp only [h1, h2, Bool.false_eq_true, ↓reduceIte] at h ⊢
        cases x <;> cases y <;> simp_all

theorem cmp_lt_trans : ∀ (a b c : List Bool), cmp a b = .lt → cmp b c = .lt → cmp a c = .lt := by
  intro a
  induction a with
  | nil =>
    intro b c h1 h2
    cases b with
    | nil => simp [cmp] at h1
    | cons y ys => cases c with
      | nil => simp [cmp] at h2
      | cons z zs => simp [cmp]
  | cons x xs ih =>
    intro b c h1 h2
    cases b with
    | nil => simp [cmp] at h1
    | cons y ys =>
      cases c with
      | nil => simp [cmp] at h2
      | cons z zs =>
        simp only [cmp] at h1 h2 ⊢
        cases x <;> cases y <;> cases z <;> simp_all
        all_goals exact ih _ _ h1 h2

/-! ### batches -/

/-- A batch as `Trie.Update` requires it at height `h`: keys of `h` remaining bits, strictly ascending. -/
def WF (h : Nat) (kvs : List (KV V)) : Prop :=
  (∀ kv ∈ kvs, kv.1.length = h) ∧ kvs.Pairwise (fun a b => cmp a.1 b.1 = .lt)

/-- What a batch says about key `k`: `none` = not mentioned, `some none` = delete, `some (some v)` = put. -/
def look (kvs : List (KV V)) (k : List Bool) : Option (Option V) :=
  match kvs with
  | [] => none
  | (k', ov) :: rest => if k' = k then some ov else look rest k

/-- The map after applying a batch to the map `f`. -/
def applyF (f : List Bool → Option V) (kvs : List (KV V)) (k : List Bool) : Option V :=
  match look kvs k with
  | some ov => ov
  | none => f k

theorem WF.tail {h : Nat} {kv : KV V} {kvs : List (KV V)} (w : WF h (kv :: kvs)) : WF h kvs :=
  ⟨fun x hx => w.1 x (List.mem_cons_of_mem _ hx), (List.pairwise_cons.mp w.2).2⟩

theorem WF.zero_length {kvs : List (KV V)} (w : WF 0 kvs) : kvs.length ≤ 1 := by
  match kvs, w with
  | [], _ => simp
  | [_], _ => simp
  | a :: b :: rest, w =>
    have ha := w.1 a (by simp)
    have hb := w.1 b (by simp)
    have hlt := (List.pairwise_cons.mp w.2).1 b (by simp)
    have : a.1 = [] := List.length_eq_zero_iff.mp ha
    have : b.1 = [] := List.length_eq_zero_iff.mp hb
    simp_all [cmp]

/-! ### `maybeAddShortcutToKV` is a sorted insertion -/

/-- Specification: insert the shortcut into the sorted batch unless the batch already mentions its
key (an update keeps the batch; a delete drops the entry). -/
def addSc (sk : List Bool) (sv : V) : List (KV V) → List (KV V)
  | [] => [(sk, some sv)]
  | (k, v) :: rest =>
    match cmp sk k with
    | .lt => (sk, some sv) :: (k, v) :: rest
    | .eq => match v with
      | some _ => (k, v) :: rest
      | none => rest
    | .gt => (k, v) :: addSc sk sv rest

theorem look_none_of_lt (k : List Bool) (l : List (KV V)) (h : ∀ kv ∈ l, cmp k kv.1 = .lt) :
    look l k = none := by
  induction l with
  | nil => rfl
  | cons x xs ih =>
    obtain ⟨k', ov⟩ := x
    have hx := h (k', ov) (by simp)
    have : k' ≠ k := by
      intro e; subst e; rw [cmp_refl] at hx; cases hx
    simp only [look, this, ↓reduceIte]
    exact ih (fun kv hkv => h kv (List.mem_cons_of_mem _ hkv))

theorem look_addSc (sk : List Bool) (sv : V) (kvs : List (KV V))
    (hs : kvs.Pairwise (fun a b => cmp a.1 b.1 = .lt)) (k : List Bool) :
    applyF (fun _ => none) (addSc sk sv kvs) k = applyF (get (T.leaf sk sv)) kvs k := by
  induction kvs with
  | nil => simp [addSc, applyF, look, get]; split <;> simp_all
  | cons x xs ih =>
    obtain ⟨k', v⟩ := x
    have hrest := (List.pairwise_cons.mp hs).2
    have hhead := (List.pairwise_cons.mp hs).1
    simp only [addSc]
    cases hc : cmp sk k' with
    | lt =>
      have hne : k' ≠ sk := by intro e; subst e; rw [cmp_refl] at hc; cases hc
      have hlt : ∀ kv ∈ xs, cmp sk kv.1 = .lt := fun kv hkv => cmp_lt_trans _ _ _ hc (hhead kv hkv)
      by_cases hk : sk = k
      · subst hk
        simp [applyF, look, hne, look_none_of_lt sk xs hlt, get]
      · by_cases hk' : k' = k
        · simp [applyF, look, hk, hk']
        · simp only [applyF, look, hk, hk', ↓reduceIte, get]
    | eq =>
      have he : sk = k' := (cmp_eq_iff _ _).mp hc
      subst he
      have hlt : ∀ kv ∈ xs, cmp sk kv.1 = .lt := hhead
      cases v with
      | some x =>
        by_cases hk : sk = k
        · simp [applyF, look, hk]
        · simp only [applyF, look, hk, ↓reduceIte, get]
      | none =>
        by_cases hk : sk = k
        · subst hk; simp [applyF, look, look_none_of_lt sk xs hlt]
        · simp only [applyF, look, hk, ↓reduceIte, get]
    | gt =>
      by_cases hk' : k' = k
      · simp [applyF, look, hk']
      · have := ih hrest
        simp only [applyF, look, hk', ↓reduceIte] at this ⊢
        exact this

theorem mem_addSc {sk : List Bool} {sv : V} {kvs : List (KV V)} {x : KV V}
    (h : x ∈ addSc sk sv kvs) : x = (sk, some sv) ∨ x ∈ kvs := by
  induction kvs with
  | nil => simpa [addSc] using h
  | cons y ys ih =>
    obtain ⟨k', v⟩ := y
    simp only [addSc] at h
    split at h
    · simp only [List.mem_cons] at h ⊢; rcases h with h | h | h <;> simp [h]
    · split at h
      · exact Or.inr h
      · exact Or.inr (List.mem_cons_of_mem _ h)
    · rcases List.mem_cons.mp h with h | h
      · exact Or.inr (by simp [h])
      · rcases ih h with h | h
        · exact Or.inl h
        · exact Or.inr (List.mem_cons_of_mem _ h)

theorem addSc_wf {h : Nat} {sk : List Bool} (sv : V) {kvs : List (KV V)} (w : WF h kvs)
    (hsk : sk.length = h) : WF h (addSc sk sv kvs) := by
  refine ⟨fun kv hkv => ?_, ?_⟩
  · rcases mem_addSc hkv with e | m
    · simp [e, hsk]
    · exact w.1 kv m
  · have hs := w.2
    clear w
    induction kvs with
    | nil => simp [addSc]
    | cons y ys ih =>
      obtain ⟨k', v⟩ := y
      have hrest := (List.pairwise_cons.mp hs).2
      have hhead := (List.pairwise_cons.mp hs).1
      simp only [addSc]
      cases hc : cmp sk k' with
      | lt =>
        refine List.pairwise_cons.mpr ⟨fun kv hkv => ?_, hs⟩
        rcases List.mem_cons.mp hkv with e | m
        · simpa [e] using hc
        · exact cmp_lt_trans _ _ _ hc (hhead kv m)
      | eq => cases v <;> simp [hs, hrest]
      | gt =>
        refine List.pairwise_cons.mpr ⟨fun kv hkv => ?_, ih hrest⟩
        rcases mem_addSc hkv with e | m
        · simpa [e] using cmp_lt_of_gt _ _ hc
        · exact hhead kv m

theorem addSc_all_gt (sk : List Bool) (sv : V) (kvs : List (KV V))
    (h : ∀ kv ∈ kvs, cmp sk kv.1 = .gt) : addSc sk sv kvs = kvs ++ [(sk, some sv)] := by
  induction kvs with
  | nil => rfl
  | cons y ys ih =>
    obtain ⟨k', v⟩ := y
    have := h (k', v) (by simp)
    simp only [addSc, this, List.cons_append]
    rw [ih (fun kv hkv => h kv (List.mem_cons_of_mem _ hkv))]

/-- The index loop of `maybeAddShortcutToKV` computes the sorted insertion. -/
theorem loop_eq (sk : List Bool) (sv : V) (kvs : List (KV V)) :
    ∀ (rest pre : List (KV V)), kvs = pre ++ rest →
      (∀ p ∈ pre, cmp sk p.1 = .gt) →
      (∃ kv ∈ rest, cmp sk kv.1 ≠ .gt) →
      (pre = [] → ∀ kv, rest.head? = some kv → cmp sk kv.1 ≠ .lt) →
      addShortcutLoop kvs sk sv rest pre.length (!pre.isEmpty) = pre ++ addSc sk sv rest := by
  intro rest
  induction rest with
  | nil => intro pre _ _ hb _; obtain ⟨kv, hm, _⟩ := hb; cases hm
  | cons y ys ih =>
    intro pre hk hpre hb hfirst
    obtain ⟨k, v⟩ := y
    simp only [addShortcutLoop]
    by_cases hks : k = sk
    · subst hks
      simp only [↓reduceIte, addSc, cmp_refl]
      cases v with
      | some x => simp [hk]
      | none =>
        simp only [hk]
        rw [List.take_left' rfl]
        have e : pre ++ (k, none) :: ys = (pre ++ [(k, none)]) ++ ys := by simp
        rw [e, List.drop_left' (by simp)]
    · simp only [hks, ↓reduceIte]
      cases hc : cmp sk k with
      | eq => exact absurd ((cmp_eq_iff _ _).mp hc).symm hks
      | gt =>
        have key : addShortcutLoop kvs sk sv ys (pre.length + 1) true = pre ++ (k, v) :: addSc sk sv ys := by
          have := ih (pre ++ [(k, v)]) (by simp [hk])
            (by intro p hp; rcases List.mem_append.mp hp with h | h
                · exact hpre p h
                · simp at h; subst h; exact hc)
            (by obtain ⟨kv, hm, hne⟩ := hb
                rcases List.mem_cons.mp hm with e | m
                · subst e; exact absurd hc hne
                · exact ⟨kv, m, hne⟩)
            (by intro e; simp at e)
          have he : (pre ++ [(k, v)]).isEmpty = false := by cases pre <;> rfl
          simpa [he] using this
        simp only [addSc, hc]
        cases hp : pre.isEmpty <;> simp [key]
      | lt =>
        cases hp : pre.isEmpty with
        | true =>
          have : pre = [] := by simpa using hp
          exact absurd hc (hfirst this (k, v) rfl)
        | false =>
          simp only [Bool.not_false, Bool.not_true, Bool.false_and, Bool.false_eq_true, ↓reduceIte, beq_self_eq_true,
            Bool.and_self, addSc, hc, hk]
          rw [List.take_left' rfl, List.drop_left' rfl]
          simp

theorem pairwise_last {α : Type} {R : α → α → Prop} {l : List α} (hp : l.Pairwise R) (hne : l ≠ [])
    (x : α) (hx : x ∈ l) : x = l.getLast hne ∨ R x (l.getLast hne) := by
  have e := List.dropLast_concat_getLast hne
  rw [← e] at hp hx
  rcases List.mem_append.mp hx with h | h
  · exact Or.inr ((List.pairwise_append.mp hp).2.2 x h _ (by simp))
  · exact Or.inl (by simpa using h)

/-- `maybeAddShortcutToKV` on a sorted non-empty batch is the sorted insertion `addSc`. -/
theorem addShortcut_eq {h : Nat} (sk : List Bool) (sv : V) (kvs : List (KV V)) (w : WF h kvs)
    (hne : kvs ≠ []) : addShortcut kvs sk sv = addSc sk sv kvs := by
  match kvs, hne, w with
  | (k0, v0) :: xs, hne, w =>
    have hl : ((k0, v0) :: xs).getLast? = some (((k0, v0) :: xs).getLast hne) := List.getLast?_eq_some_getLast hne
    generalize hlast : ((k0, v0) :: xs).getLast hne = lst at hl
    obtain ⟨kl, vl⟩ := lst
    simp only [addShortcut, hl]
    by_cases h1 : cmp sk k0 = .lt
    · simp [h1, addSc]
    · by_cases h2 : cmp sk kl = .gt
      · have hall : ∀ kv ∈ (k0, v0) :: xs, cmp sk kv.1 = .gt := by
          intro kv hkv
          rcases pairwise_last w.2 hne kv hkv with e | r
          · rw [e, hlast]; exact h2
          · rw [hlast] at r
            exact cmp_gt_of_lt _ _ (cmp_lt_trans _ _ _ r (cmp_lt_of_gt _ _ h2))
        have h1' : (cmp sk k0 == .lt) = false := by simpa using h1
        simp only [h1', Bool.false_eq_true, ↓reduceIte, h2, beq_self_eq_true]
        exact (addSc_all_gt sk sv _ hall).symm
      · have h1' : (cmp sk k0 == .lt) = false := by simpa using h1
        have h2' : (cmp sk kl == .gt) = false := by simpa using h2
        simp only [h1', h2', Bool.false_eq_true, ↓reduceIte]
        have := loop_eq sk sv ((k0, v0) :: xs) ((k0, v0) :: xs) [] rfl (by simp)
          ⟨(kl, vl), by rw [← hlast]; exact List.getLast_mem hne, h2⟩
          (by intro _ kv hkv; simp at hkv; subst hkv; exact h1)
        simpa using this

/-! ### splitting a sorted batch at the current bit (`splitKeys`) -/

def lkeys (kvs : List (KV V)) : List (KV V) := kvs.takeWhile fun kv => !headBit kv.1
def rkeys (kvs : List (KV V)) : List (KV V) := kvs.dropWhile fun kv => !headBit kv.1

theorem lkeys_append_rkeys (kvs : List (KV V)) : lkeys kvs ++ rkeys kvs = kvs :=
  List.takeWhile_append_dropWhile

theorem lkeys_head {kvs : List (KV V)} : ∀ kv ∈ lkeys kvs, headBit kv.1 = false := by
  induction kvs with
  | nil => intro kv hkv; simp [lkeys] at hkv
  | cons x xs ih =>
    intro kv hkv
    simp only [lkeys, List.takeWhile] at hkv
    cases hx : headBit x.1 with
    | true => simp [hx] at hkv
    | false =>
      simp only [hx, Bool.not_false] at hkv
      rcases List.mem_cons.mp hkv with e | m
      · rw [e]; exact hx
      · exact ih kv m

theorem rkeys_head {h : Nat} {kvs : List (KV V)} (w : WF (h + 1) kvs) : ∀ kv ∈ rkeys kvs, headBit kv.1 = true := by
  induction kvs with
  | nil => intro kv hkv; simp [rkeys] at hkv
  | cons x xs ih =>
    intro kv hkv
    by_cases hx : headBit x.1 = true
    · -- x stops the takeWhile: rkeys = x :: xs, and everything after x is larger, so its bit is set too
      have hr : rkeys (x :: xs) = x :: xs := by simp [rkeys, List.dropWhile, hx]
      rw [hr] at hkv
      rcases List.mem_cons.mp hkv with e | m
      · rw [e]; exact hx
      · have hlt := (List.pairwise_cons.mp w.2).1 kv m
        have lx := w.1 x (by simp)
        have lk := w.1 kv (List.mem_cons_of_mem _ m)
        obtain ⟨k1, _⟩ := x
        obtain ⟨k2, _⟩ := kv
        match k1, k2, lx, lk with
        | a :: as, b :: bs, _, _ =>
          simp only [headBit] at hx ⊢
          exact cmp_lt_head hlt hx
    · have hx' : headBit x.1 = false := by simpa using hx
      have hr : rkeys (x :: xs) = rkeys xs := by simp [rkeys, List.dropWhile, hx']
      rw [hr] at hkv
      exact ih w.tail kv hkv

theorem WF.sublist {h : Nat} {l l' : List (KV V)} (w : WF h l) (s : l'.Sublist l) : WF h l' :=
  ⟨fun kv hkv => w.1 kv (s.subset hkv), w.2.sublist s⟩

theorem tails_wf {h : Nat} {b : Bool} {l : List (KV V)} (w : WF (h + 1) l)
    (hb : ∀ kv ∈ l, headBit kv.1 = b) : WF h (tails l) := by
  induction l with
  | nil => exact ⟨by simp [tails], by simp [tails]⟩
  | cons x xs ih =>
    have ihx := ih w.tail (fun kv hkv => hb kv (List.mem_cons_of_mem _ hkv))
    obtain ⟨k1, v1⟩ := x
    have l1 := w.1 (k1, v1) (by simp)
    refine ⟨?_, ?_⟩
    · intro kv hkv
      simp only [tails, List.map_cons, List.mem_cons] at hkv
      rcases hkv with e | m
      · subst e; simp at l1 ⊢; omega
      · exact ihx.1 kv m
    · simp only [tails, List.map_cons]
      refine List.pairwise_cons.mpr ⟨?_, ihx.2⟩
      intro kv hkv
      simp only [List.mem_map] at hkv
      obtain ⟨⟨k2, v2⟩, m, e⟩ := hkv
      subst e
      have hlt := (List.pairwise_cons.mp w.2).1 (k2, v2) m
      have l2 := w.1 (k2, v2) (List.mem_cons_of_mem _ m)
      have b1 := hb (k1, v1) (by simp)
      have b2 := hb (k2, v2) (List.mem_cons_of_mem _ m)
      match k1, k2, l1, l2 with
      | a :: as, c :: cs, _, _ =>
        simp only [headBit] at b1 b2
        subst b1; subst b2
        simpa [cmp_cons] using hlt

theorem look_append (l1 l2 : List (KV V)) (k : List Bool) :
    look (l1 ++ l2) k = match look l1 k with
      | some r => some r
      | none => look l2 k := by
  induction l1 with
  | nil => rfl
  | cons x xs ih =>
    obtain ⟨k', ov⟩ := x
    simp only [List.cons_append, look]
    split <;> simp_all

theorem look_other_head {b : Bool} {l : List (KV V)} (hb : ∀ kv ∈ l, headBit kv.1 = !b)
    (k : List Bool) : look l (b :: k) = none := by
  induction l with
  | nil => rfl
  | cons x xs ih =>
    obtain ⟨k', ov⟩ := x
    have := hb (k', ov) (by simp)
    have hne : k' ≠ b :: k := by
      intro e; subst e; simp [headBit] at this
    simp only [look, hne, ↓reduceIte]
    exact ih (fun kv hkv => hb kv (List.mem_cons_of_mem _ hkv))

theorem look_tails {h : Nat} {b : Bool} {l : List (KV V)} (hl : ∀ kv ∈ l, kv.1.length = h + 1)
    (hb : ∀ kv ∈ l, headBit kv.1 = b) (k : List Bool) : look l (b :: k) = look (tails l) k := by
  induction l with
  | nil => rfl
  | cons x xs ih =>
    obtain ⟨k', ov⟩ := x
    have l1 := hl (k', ov) (by simp)
    have b1 := hb (k', ov) (by simp)
    have ihx := ih (fun kv hkv => hl kv (List.mem_cons_of_mem _ hkv)) (fun kv hkv => hb kv (List.mem_cons_of_mem _ hkv))
    match k', l1 with
    | a :: as, _ =>
      simp only [headBit] at b1
      subst b1
      simp only [look, tails, List.map_cons, List.tail_cons, List.cons.injEq, true_and]
      simp only [tails] at ihx
      rw [ihx]

/-- The effect of a sorted batch on key `b :: k` is the effect of the half sent to that child. -/
theorem look_split {h : Nat} {kvs : List (KV V)} (w : WF (h + 1) kvs) (b : Bool) (k : List Bool) :
    look kvs (b :: k) = if b then look (tails (rkeys kvs)) k else look (tails (lkeys kvs)) k := by
  have wl : WF (h + 1) (lkeys kvs) := w.sublist (List.takeWhile_sublist _)
  have wr : WF (h + 1) (rkeys kvs) := w.sublist (List.dropWhile_sublist _)
  conv => lhs; rw [← lkeys_append_rkeys kvs, look_append]
  cases b with
  | true =>
    rw [look_other_head (b := true) (by simpa using lkeys_head (kvs := kvs))]
    simpa using look_tails wr.1 (rkeys_head w) k
  | false =>
    rw [look_tails wl.1 lkeys_head k]
    cases hx : look (tails (lkeys kvs)) k with
    | some r => simp
    | none => simpa using look_other_head (b := false) (by simpa using rkeys_head w) k

end Aergo.Trie
