import Aergo.Model.TrieBatch

namespace Aergo.TrieBatch

theorem byteBits_mkByte (a b c d e f g h : Bool) : byteBits (mkByte a b c d e f g h) = [a, b, c, d, e, f, g, h] := by
  cases a <;> cases b <;> cases c <;> cases d <;> cases e <;> cases f <;> cases g <;> cases h <;> rfl

theorem unpack_pack : ∀ (bits : List Bool) (n : Nat), bits.length = 8 * n →
    (packBits bits).flatMap byteBits = bits ∧ (packBits bits).length = n := by
  intro bits n
  induction n generalizing bits with
  | zero => intro h; have : bits = [] := List.length_eq_zero_iff.mp (by omega); subst this; simp [packBits]
  | succ n ih =>
    intro h
    match bits, h with
    | a :: b :: c :: d :: e :: f :: g :: hh :: rest, h =>
      have hr : rest.length = 8 * n := by simp at h; omega
      obtain ⟨i1, i2⟩ := ih rest hr
      simp [packBits, byteBits_mkByte, i1, i2]

theorem readSlots_payload : ∀ (slots : List (Option Bytes)) (tail : Bytes),
    (∀ s ∈ slots, ∀ x, s = some x → x.length = 33) →
    readSlots (slots.map present) (payloadOf slots ++ tail) = some slots := by
  intro slots
  induction slots with
  | nil => intro tail _; simp [readSlots]
  | cons s ss ih =>
    intro tail hw
    have hss : ∀ s' ∈ ss, ∀ x, s' = some x → x.length = 33 := fun s' m => hw s' (List.mem_cons_of_mem _ m)
    cases s with
    | none =>
      simp only [List.map_cons, present, readSlots, payloadOf, List.filterMap_cons]
      have := ih tail hss
      simp only [payloadOf] at this
      rw [this]; rfl
    | some x =>
      have hx : x.length = 33 := hw (some x) (by simp) x rfl
      have hne : x.isEmpty = false := by
        cases x with
        | nil => simp at hx
        | cons _ _ => rfl
      simp only [List.map_cons, present, hne, Bool.not_false, readSlots, payloadOf, List.filterMap_cons,
        Bool.false_eq_true, ↓reduceIte, List.flatten_cons, List.append_assoc]
      split
      · rename_i hlt
        simp [hx] at hlt
        omega
      · rw [List.drop_left' hx, List.take_left' hx]
        have := ih tail hss
        simp only [payloadOf] at this
        rw [this]; rfl

theorem bitsOf_eq (b : Batch) (h : b.slots.length = 30) :
    bitsOf b = b.slots.map present ++ [false, b.shortcut] := by
  have hl : (b.slots.map present).length = 30 := by simp [h]
  simp only [bitsOf, hl]
  rw [show (31 - 30) = 1 from rfl]
  rw [List.take_of_length_le (by simp [hl])]
  simp

/-- **Store/load round trip of a trie batch**: parsing the serialised value gives the batch back
(a shortcut batch keeps exactly its key and value slots). -/
theorem parse_serialize (b : Batch) (w : WF b) : parse (serialize b) = some (norm b) := by
  obtain ⟨hlen, h33, hsc⟩ := w
  have hb := bitsOf_eq b hlen
  have hbl : (bitsOf b).length = 8 * 4 := by rw [hb]; simp [hlen]
  obtain ⟨u1, u2⟩ := unpack_pack (bitsOf b) 4 hbl
  have hge : ¬ (packBits (bitsOf b) ++ payloadOf b.slots).length < 4 := by simp [u2]
  have h31 : (b.slots.map present ++ [false, b.shortcut]).getD 31 false = b.shortcut := by
    rw [List.getD_eq_getElem?_getD, List.getElem?_append_right (by simp [hlen])]
    simp [hlen]
  simp only [parse, serialize, if_neg hge, List.take_left' u2, List.drop_left' u2, u1]
  simp only [hb, h31]
  cases hs : b.shortcut with
  | true =>
    obtain ⟨k, v, rest, e⟩ := hsc hs
    have hk : k.length = 33 := h33 (some k) (by simp [e]) k rfl
    have hv : v.length = 33 := h33 (some v) (by simp [e]) v rfl
    have hkne : k ≠ [] := by intro h; rw [h] at hk; simp at hk
    have hvne : v ≠ [] := by intro h; rw [h] at hv; simp at hv
    have hp : payloadOf b.slots = k ++ (v ++ payloadOf rest) := by
      simp [payloadOf, e, hkne, hvne]
    have : ¬ (k ++ (v ++ payloadOf rest)).length < 66 := by simp [hk, hv]; omega
    simp only [↓reduceIte, hp, if_neg this, List.take_left' hk, List.drop_left' hk, List.take_left' hv]
    simp [norm, hs, e]
  | false =>
    simp only [Bool.false_eq_true, ↓reduceIte]
    have ht : (b.slots.map present ++ [false, false]).take 30 = b.slots.map present := by
      rw [List.take_left' (by simp [hlen])]
    have := readSlots_payload b.slots [] h33
    rw [List.append_nil] at this
    simp only [ht, this]
    cases b
    simp_all [norm]

end Aergo.TrieBatch
