/-
Canonical trees are determined by their lookup function (C10: the root depends only on the
resulting set of key-value pairs).
-/
import Aergo.Lemmas.TrieUpdate

namespace Aergo.Trie
variable {V : Type}

/-- A canonical non-empty tree holds a key; a canonical interior node holds two different keys. -/
theorem canon_keys : ∀ (h : Nat) (t : T V), Canon h t →
    (t ≠ .empty → ∃ k, k.length = h ∧ get t k ≠ none) ∧
    (small t = false → ∃ k1 k2, k1 ≠ k2 ∧ k1.length = h ∧ k2.length = h ∧ get t k1 ≠ none ∧ get t k2 ≠ none) := by
  intro h
  induction h with
  | zero =>
    intro t c
    cases t with
    | empty => simp [small]
    | leaf k v => exact ⟨fun _ => ⟨k, c, by simp [get]⟩, by simp [small]⟩
    | node l r => exact absurd c (by simp [Canon])
  | succ h ih =>
    intro t c
    cases t with
    | empty => simp [small]
    | leaf k v => exact ⟨fun _ => ⟨k, c, by simp [get]⟩, by simp [small]⟩
    | node l r =>
      obtain ⟨cl, cr, n1, n2⟩ := c
      have two : ∃ k1 k2, k1 ≠ k2 ∧ k1.length = h + 1 ∧ k2.length = h + 1 ∧
          get (T.node l r) k1 ≠ none ∧ get (T.node l r) k2 ≠ none := by
        by_cases hl : l = .empty
        · -- then r is an interior node: two keys on the right
          have hr : small r = false := by
            cases hs : small r with
            | false => rfl
            | true => exact absurd ⟨hl, hs⟩ n1
          obtain ⟨k1, k2, hne, l1, l2, g1, g2⟩ := (ih r cr).2 hr
          exact ⟨true :: k1, true :: k2, by simpa using hne, by simp [l1], by simp [l2], by simpa [get] using g1, by simpa [get] using g2⟩
        · by_cases hr : r = .empty
          · have hl' : small l = false := by
              cases hs : small l with
              | false => rfl
              | true => exact absurd ⟨hs, hr⟩ n2
            obtain ⟨k1, k2, hne, l1, l2, g1, g2⟩ := (ih l cl).2 hl'
            exact ⟨false :: k1, false :: k2, by simpa using hne, by simp [l1], by simp [l2], by simpa [get] using g1, by simpa [get] using g2⟩
          · obtain ⟨k1, l1, g1⟩ := (ih l cl).1 hl
            obtain ⟨k2, l2, g2⟩ := (ih r cr).1 hr
            exact ⟨false :: k1, true :: k2, by simp, by simp [l1], by simp [l2], by simpa [get] using g1, by simpa [get] using g2⟩
      refine ⟨fun _ => ?_, fun _ => two⟩
      obtain ⟨k1, _, _, l1, _, g1, _⟩ := two
      exact ⟨k1, l1, g1⟩

/-- **Two canonical trees with the same contents are the same tree** (hence have the same root hash). -/
theorem canon_unique : ∀ (h : Nat) (t t' : T V), Canon h t → Canon h t' →
    (∀ k, k.length = h → get t k = get t' k) → t = t' := by
  intro h
  induction h with
  | zero =>
    intro t t' c c' hs
    cases t with
    | node l r => exact absurd c (by simp [Canon])
    | empty =>
      cases t' with
      | node l r => exact absurd c' (by simp [Canon])
      | empty => rfl
      | leaf k v => have := hs k c'; simp [get] at this
    | leaf k v =>
      cases t' with
      | node l r => exact absurd c' (by simp [Canon])
      | empty => have := hs k c; simp [get] at this
      | leaf k' v' =>
        have := hs k c
        simp only [get, ↓reduceIte] at this
        split at this <;> simp_all
  | succ h ih =>
    intro t t' c c' hs
    -- a leaf cannot agree with an interior node: the node has two keys
    have leaf_node : ∀ (k : List Bool) (v : V) (l r : T V), Canon (h + 1) (T.node l r) →
        (∀ k', k'.length = h + 1 → get (T.leaf k v) k' = get (T.node l r) k') → False := by
      intro k v l r cn hs
      obtain ⟨k1, k2, hne, l1, l2, g1, g2⟩ := (canon_keys (h + 1) _ cn).2 rfl
      have e1 := hs k1 l1
      have e2 := hs k2 l2
      simp only [get] at e1 e2
      by_cases h1 : k = k1
      · by_cases h2 : k = k2
        · exact hne (h1.symm.trans h2)
        · simp only [h2, ↓reduceIte] at e2; exact g2 e2.symm
      · simp only [h1, ↓reduceIte] at e1; exact g1 e1.symm
    cases t with
    | empty =>
      by_cases he : t' = .empty
      · exact he.symm
      · obtain ⟨k, lk, g⟩ := (canon_keys (h + 1) t' c').1 he
        have := hs k lk
        simp only [get] at this
        exact absurd this.symm g
    | leaf k v =>
      cases t' with
      | empty => have := hs k c; simp [get] at this
      | leaf k' v' =>
        have := hs k c
        simp only [get, ↓reduceIte] at this
        split at this <;> simp_all
      | node l r => exact absurd (leaf_node k v l r c' hs) id
    | node l r =>
      cases t' with
      | empty =>
        obtain ⟨k, lk, g⟩ := (canon_keys (h + 1) _ c).1 (by simp)
        have := hs k lk
        simp only [get] at this g
        exact absurd this g
      | leaf k v => exact absurd (leaf_node k v l r c (fun k' hk' => (hs k' hk').symm)) id
      | node l' r' =>
        obtain ⟨cl, cr, _, _⟩ := c
        obtain ⟨cl', cr', _, _⟩ := c'
        have el : l = l' := ih l l' cl cl' (fun k hk => by simpa [get] using hs (false :: k) (by simp [hk]))
        have er : r = r' := ih r r' cr cr' (fun k hk => by simpa [get] using hs (true :: k) (by simp [hk]))
        rw [el, er]

end Aergo.Trie
