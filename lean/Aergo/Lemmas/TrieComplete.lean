/-
Completeness of the trie's Merkle proofs (C11): what `merkleProof` returns verifies.
-/
import Aergo.Lemmas.TrieSoundD

namespace Aergo.Trie
variable {c : HashCtx}

/-- the hashes the Go code appends to the audit path -/
def sibHashes (c : HashCtx) (ap : List (Sib Bytes)) : List Bytes := ap.map fun s => hashT c s.1 s.2.1 s.2.2

/-- hash of the subtree at which the proof path of `ks` ends -/
def bottomOf (c : HashCtx) : Nat → List Bool → T Bytes → List Bool → Bytes
  | h, p, .node l r, b :: ks => if b then bottomOf c (h - 1) (p ++ [true]) r ks else bottomOf c (h - 1) (p ++ [false]) l ks
  | h, p, t, _ => hashT c h p t

theorem sibHashes_snoc (ap : List (Sib Bytes)) (s : Sib Bytes) :
    (sibHashes c (ap ++ [s])).reverse = hashT c s.1 s.2.1 s.2.2 :: (sibHashes c ap).reverse := by
  simp [sibHashes]

/-- The subtree hash is what the verifier recomputes from the bottom of the path and the siblings. -/
theorem path_hash : ∀ (t : T Bytes) (h : Nat) (p ks : List Bool),
    hashT c h p t = vUp c ks (sibHashes c (merkleProof h p t ks).ap).reverse (bottomOf c h p t ks) := by
  intro t
  induction t with
  | empty => intro h p ks; simp [merkleProof, sibHashes, vUp_nil, bottomOf]
  | leaf sk sv =>
    intro h p ks
    simp only [merkleProof]
    split <;> simp [sibHashes, vUp_nil, bottomOf]
  | node l r ihl ihr =>
    intro h p ks
    cases ks with
    | nil => simp [merkleProof, sibHashes, vUp_nil, bottomOf]
    | cons b ks' =>
      cases b with
      | true =>
        simp only [merkleProof, ↓reduceIte, sibHashes_snoc, vUp, bottomOf, hashT]
        rw [← ihr (h - 1) (p ++ [true]) ks']
      | false =>
        simp only [merkleProof, Bool.false_eq_true, ↓reduceIte, sibHashes_snoc, vUp, bottomOf, hashT]
        rw [← ihl (h - 1) (p ++ [false]) ks']

theorem ap_len : ∀ (t : T Bytes) (h : Nat) (p ks : List Bool), Canon h t → ks.length = h →
    (merkleProof h p t ks).ap.length ≤ h := by
  intro t
  induction t with
  | empty => intro h p ks _ _; simp [merkleProof]
  | leaf sk sv => intro h p ks _ _; simp only [merkleProof]; split <;> simp
  | node l r ihl ihr =>
    intro h p ks cn hk
    match h, ks, cn, hk with
    | h' + 1, b :: ks', cn, hk =>
      obtain ⟨cl, cr, _, _⟩ := cn
      have hk' : ks'.length = h' := by simpa using hk
      cases b with
      | true =>
        have := ihr h' (p ++ [true]) ks' cr hk'
        simp only [merkleProof, ↓reduceIte, Nat.add_sub_cancel, List.length_append, List.length_cons, List.length_nil]
        omega
      | false =>
        have := ihl h' (p ++ [false]) ks' cl hk'
        simp only [merkleProof, Bool.false_eq_true, ↓reduceIte, Nat.add_sub_cancel, List.length_append, List.length_cons, List.length_nil]
        omega

/-- The bottom of the path of a present key is that key's leaf, `|ap|` levels down. -/
theorem bottom_present : ∀ (t : T Bytes) (h : Nat) (p ks : List Bool) (v : Bytes), Canon h t → ks.length = h →
    get t ks = some v →
    (merkleProof h p t ks).included = true ∧ (merkleProof h p t ks).value = some v ∧
    bottomOf c h p t ks = c.H (c.enc (p ++ ks) ++ v ++ [byteOf (h - (merkleProof h p t ks).ap.length)]) := by
  intro t
  induction t with
  | empty => intro h p ks v _ _ g; simp [get] at g
  | leaf sk sv =>
    intro h p ks v _ _ g
    simp only [get] at g
    split at g
    · rename_i e
      simp only [Option.some.injEq] at g
      subst e; subst g
      simp [merkleProof, bottomOf, hashT]
    · cases g
  | node l r ihl ihr =>
    intro h p ks v cn hk g
    match h, ks, cn, hk with
    | h' + 1, b :: ks', cn, hk =>
      obtain ⟨cl, cr, _, _⟩ := cn
      have hk' : ks'.length = h' := by simpa using hk
      cases b with
      | true =>
        obtain ⟨i1, i2, i3⟩ := ihr h' (p ++ [true]) ks' v cr hk' (by simpa [get] using g)
        simp only [merkleProof, ↓reduceIte, Nat.add_sub_cancel, bottomOf, List.length_append, List.length_cons, List.length_nil]
        refine ⟨i1, i2, ?_⟩
        rw [i3, Nat.add_sub_add_right]
        simp only [List.append_assoc, List.singleton_append]
      | false =>
        obtain ⟨i1, i2, i3⟩ := ihl h' (p ++ [false]) ks' v cl hk' (by simpa [get] using g)
        simp only [merkleProof, Bool.false_eq_true, ↓reduceIte, Nat.add_sub_cancel, bottomOf, List.length_append, List.length_cons, List.length_nil]
        refine ⟨i1, i2, ?_⟩
        rw [i3, Nat.add_sub_add_right]
        simp only [List.append_assoc, List.singleton_append]

/-- The bottom of the path of an absent key is an empty subtree, or a foreign leaf on the path. -/
theorem bottom_absent : ∀ (t : T Bytes) (h : Nat) (p ks : List Bool), Canon h t → ks.length = h →
    get t ks = none →
    let pr := merkleProof h p t ks
    pr.included = false ∧
    ((pr.proofKV = none ∧ bottomOf c h p t ks = defaultLeaf) ∨
     (∃ sk sv, pr.proofKV = some (p ++ ks.take pr.ap.length ++ sk, sv) ∧ sk ≠ ks.drop pr.ap.length ∧
        sk.length = h - pr.ap.length ∧
        bottomOf c h p t ks = c.H (c.enc (p ++ ks.take pr.ap.length ++ sk) ++ sv ++ [byteOf (h - pr.ap.length)]))) := by
  intro t
  induction t with
  | empty => intro h p ks _ _ _; simp [merkleProof, bottomOf, hashT]
  | leaf sk sv =>
    intro h p ks cn _ g
    have hsk : sk.length = h := by simpa [Canon] using cn
    simp only [get] at g
    split at g
    · cases g
    · rename_i ne
      simp only [merkleProof, ne, ↓reduceIte, List.length_nil, List.take_zero, List.append_nil, List.drop_zero,
        Nat.sub_zero, bottomOf, hashT, true_and]
      exact Or.inr ⟨sk, sv, rfl, ne, hsk, rfl⟩
  | node l r ihl ihr =>
    intro h p ks cn hk g
    match h, ks, cn, hk with
    | h' + 1, b :: ks', cn, hk =>
      obtain ⟨cl, cr, _, _⟩ := cn
      have hk' : ks'.length = h' := by simpa using hk
      cases b with
      | true =>
        obtain ⟨i1, i2⟩ := ihr h' (p ++ [true]) ks' cr hk' (by simpa [get] using g)
        simp only [merkleProof, ↓reduceIte, Nat.add_sub_cancel, bottomOf, List.length_append, List.length_cons,
          List.length_nil, List.take_succ_cons, List.drop_succ_cons]
        refine ⟨i1, ?_⟩
        rcases i2 with ⟨a, b'⟩ | ⟨sk, sv, a, b', c', d⟩
        · exact Or.inl ⟨a, b'⟩
        · refine Or.inr ⟨sk, sv, ?_, b', by rw [Nat.add_sub_add_right]; exact c', ?_⟩
          · rw [a]; simp
          · rw [d, Nat.add_sub_add_right]; simp only [List.append_assoc, List.singleton_append]
      | false =>
        obtain ⟨i1, i2⟩ := ihl h' (p ++ [false]) ks' cl hk' (by simpa [get] using g)
        simp only [merkleProof, Bool.false_eq_true, ↓reduceIte, Nat.add_sub_cancel, bottomOf, List.length_append, List.length_cons,
          List.length_nil, List.take_succ_cons, List.drop_succ_cons]
        refine ⟨i1, ?_⟩
        rcases i2 with ⟨a, b'⟩ | ⟨sk, sv, a, b', c', d⟩
        · exact Or.inl ⟨a, b'⟩
        · refine Or.inr ⟨sk, sv, ?_, b', by rw [Nat.add_sub_add_right]; exact c', ?_⟩
          · rw [a]; simp
          · rw [d, Nat.add_sub_add_right]; simp only [List.append_assoc, List.singleton_append]

/-- `vUp` reads only as many key bits as there are siblings. -/
theorem vUp_take : ∀ (sibs : List Bytes) (k k' : List Bool) (leaf : Bytes),
    k.take sibs.length = k'.take sibs.length → sibs.length ≤ k.length → sibs.length ≤ k'.length →
    vUp c k sibs leaf = vUp c k' sibs leaf := by
  intro sibs
  induction sibs with
  | nil => intro k k' leaf _ _ _; rw [vUp_nil, vUp_nil]
  | cons s rest ih =>
    intro k k' leaf h h1 h2
    match k, k', h1, h2 with
    | b :: ks, b' :: ks', h1, h2 =>
      simp only [List.length_cons, List.take_succ_cons, List.cons.injEq] at h
      obtain ⟨hb, ht⟩ := h
      subst hb
      simp only [vUp]
      rw [ih ks ks' leaf ht (by simpa using h1) (by simpa using h2)]

end Aergo.Trie
