/-
Compressed Merkle proofs (C11): what `merkleProofCompressed` generates expands back to the plain audit
path; byte-level packing lemmas; key/value length lemmas for the split ambiguity; auxiliary lemmas for
root and height binding.
-/
import Aergo.Lemmas.TrieComplete
import Aergo.Model.TrieCompress

namespace Aergo.Trie
variable {c : HashCtx}

/-! ### bit packing -/

theorem byteBits_pack (a b c d e f g h : Bool) :
    byteBits (UInt8.ofNat ((if a then 128 else 0) + (if b then 64 else 0) + (if c then 32 else 0) + (if d then 16 else 0) +
      (if e then 8 else 0) + (if f then 4 else 0) + (if g then 2 else 0) + (if h then 1 else 0))) = [a, b, c, d, e, f, g, h] := by
  cases a <;> cases b <;> cases c <;> cases d <;> cases e <;> cases f <;> cases g <;> cases h <;> rfl

/-- unpacking what was packed gives the bits back (whole bytes) -/
theorem unpack_pack : ∀ (n : Nat) (l : List Bool), l.length = 8 * n → unpackBits (packBits l) = l := by
  intro n
  induction n with
  | zero =>
    intro l h
    have : l = [] := List.length_eq_zero_iff.mp (by simpa using h)
    subst this; rfl
  | succ n ih =>
    intro l h
    match l, h with
    | a :: b :: c :: d :: e :: f :: g :: hh :: rest, h =>
      have hr : rest.length = 8 * n := by simp only [List.length_cons] at h; omega
      simp only [packBits, unpackBits, List.flatMap_cons, byteBits_pack]
      have := ih rest hr
      simp only [unpackBits] at this
      rw [this]
      rfl

theorem unpackBits_length (bs : Bytes) : (unpackBits bs).length = 8 * bs.length := by
  induction bs with
  | nil => rfl
  | cons b bs ih =>
    have e : unpackBits (b :: bs) = byteBits b ++ unpackBits bs := by simp [unpackBits]
    rw [e, List.length_append, ih]
    simp only [byteBits, List.length_cons, List.length_nil]
    omega

/-! ### compress, then expand -/

/-- the audit path (root first) is recovered from its `stored` bits and its stored elements -/
theorem expand_stored : ∀ l : List Bytes, expand (l.map stored) (l.filter stored) = some l := by
  intro l
  induction l with
  | nil => rfl
  | cons s rest ih =>
    by_cases hs : stored s = true
    · simp only [List.map_cons, hs, List.filter_cons_of_pos, expand, ih, Option.map_some]
    · have hs' : stored s = false := by simpa using hs
      have e : s = defaultLeaf := by simpa [stored] using hs'
      have hf : (s :: rest).filter stored = rest.filter stored := List.filter_cons_of_neg (by simp [hs'])
      rw [List.map_cons, hs', hf]
      have : expand (false :: rest.map stored) (rest.filter stored) = (expand (rest.map stored) (rest.filter stored)).map (defaultLeaf :: ·) := by
        cases rest.filter stored <;> simp [expand]
      rw [this, ih, e]
      rfl

theorem padded_len (n : Nat) : n + ((n / 8 + 1) * 8 - n) = 8 * (n / 8 + 1) := by omega

/-- the compressed verifier reads back exactly the `stored` flags of the plain path, root first -/
theorem readBits_compress (ap : List Bytes) :
    readBits (compress ap).1 ap.length = some ((ap.map stored).reverse) := by
  have hu : unpackBits (compress ap).1 = ap.map stored ++ List.replicate ((ap.length / 8 + 1) * 8 - ap.length) false := by
    simp only [compress]
    exact unpack_pack (ap.length / 8 + 1) _
      (by simp only [List.length_append, List.length_map, List.length_replicate]; exact padded_len _)
  simp only [readBits, hu]
  have hl : ap.length ≤ (ap.map stored ++ List.replicate ((ap.length / 8 + 1) * 8 - ap.length) false).length := by simp
  simp only [hl, ↓reduceIte]
  rw [List.take_append_of_le_length (by simp)]
  simp [List.take_of_length_le]

/-- an element of an expanded path comes from the compressed path or is `DefaultLeaf`; lengths agree -/
theorem expand_some : ∀ (bits : List Bool) (ap full : List Bytes), expand bits ap = some full →
    full.length = bits.length ∧ ∀ s ∈ full, s ∈ ap ∨ s = defaultLeaf := by
  intro bits
  induction bits with
  | nil => intro ap full h; simp only [expand, Option.some.injEq] at h; subst h; simp
  | cons b bits ih =>
    intro ap full h
    cases b with
    | true =>
      cases ap with
      | nil => simp [expand] at h
      | cons s rest =>
        simp only [expand, Option.map_eq_some_iff] at h
        obtain ⟨f, hf, e⟩ := h
        subst e
        obtain ⟨l1, l2⟩ := ih rest f hf
        refine ⟨by simp [l1], ?_⟩
        intro x hx
        rcases List.mem_cons.mp hx with e | m
        · left; simp [e]
        · rcases l2 x m with m' | m'
          · left; exact List.mem_cons_of_mem _ m'
          · right; exact m'
    | false =>
      have h' : (expand bits ap).map (defaultLeaf :: ·) = some full := by
        cases ap <;> simpa [expand] using h
      simp only [Option.map_eq_some_iff] at h'
      obtain ⟨f, hf, e⟩ := h'
      subst e
      obtain ⟨l1, l2⟩ := ih ap f hf
      refine ⟨by simp [l1], ?_⟩
      intro x hx
      rcases List.mem_cons.mp hx with e | m
      · right; exact e
      · exact l2 x m

theorem readBits_len {bm : Bytes} {len : Nat} {bits : List Bool} (h : readBits bm len = some bits) : bits.length = len := by
  simp only [readBits] at h
  split at h
  · simp only [Option.some.injEq] at h; subst h; simp; omega
  · cases h

/-! ### auxiliary: values, siblings, leaves on a path -/

theorem vals32_get : ∀ (t : T Bytes) (k : List Bool) (v : Bytes), Vals32 t → get t k = some v → v.length = 32 := by
  intro t
  induction t with
  | empty => intro k v _ g; simp [get] at g
  | leaf sk sv =>
    intro k v h g
    simp only [get] at g
    split at g
    · simp only [Option.some.injEq] at g; subst g; exact h
    · cases g
  | node l r ihl ihr =>
    intro k v h g
    cases k with
    | nil => simp [get] at g
    | cons b ks =>
      simp only [get] at g
      cases b with
      | true => exact ihr ks v h.2 (by simpa using g)
      | false => exact ihl ks v h.1 (by simpa using g)

/-- The state DB is content addressed on `t`: what is stored under a leaf value `v` (`loadData(store, v)`) hashes
(`vh`) to `v` - `stateBuffer.stage` writes `txn.Set(et.Hash(), marshal(value))`. -/
def Addressed (vh load : Bytes → Bytes) (t : T Bytes) : Prop := ∀ k v, get t k = some v → vh (load v) = v

theorem sibH_eq (ap : List (Sib Bytes)) : sibH c ap = sibHashes c ap := rfl

/-! ### nothing but the empty proof verifies against a nil root -/

theorem vUp_ne_nil {Ht : Nat} (ok : HashOK c Ht) (ks : List Bool) (sibs : List Bytes) (leaf : Bytes) (h : leaf ≠ []) :
    vUp c ks sibs leaf ≠ [] := by
  cases ks with
  | nil => simpa [vUp] using h
  | cons b ks =>
    cases sibs with
    | nil => simpa [vUp] using h
    | cons s rest =>
      simp only [vUp]
      split <;> (intro e; have := congrArg List.length e; rw [ok.outLen] at this; simp at this)

theorem nil_beq_false {x : Bytes} (h : x ≠ []) : (([] : Bytes) == x) = false := by
  cases x with
  | nil => exact absurd rfl h
  | cons _ _ => rfl

theorem verifyInclusion_nil_root {Ht : Nat} (ok : HashOK c Ht) (ap : List Bytes) (key : List Bool) (val : Bytes) :
    verifyInclusion c Ht [] ap key val = false := by
  simp only [verifyInclusion]
  apply nil_beq_false
  apply vUp_ne_nil ok
  intro e
  have := ok.outLen (c.enc key ++ val ++ [byteOf (Ht - ap.length)])
  rw [e] at this; simp at this

theorem verifyNonInclusion_nil_root {Ht : Nat} (ok : HashOK c Ht) (ap : List Bytes) (k : List Bool) (pv : Bytes)
    (pk : Option (List Bool)) (h : verifyNonInclusion c Ht [] ap k pv pk = true) : pk = none ∧ ap = [] := by
  cases pk with
  | some p =>
    simp only [verifyNonInclusion, verifyInclusion_nil_root ok, Bool.false_and] at h
    split at h <;> cases h
  | none =>
    refine ⟨rfl, ?_⟩
    simp only [verifyNonInclusion] at h
    split at h
    · rename_i e; simpa using e
    · rw [nil_beq_false (vUp_ne_nil ok _ _ _ (by simp [defaultLeaf]))] at h; cases h

/-- the empty proof (no sibling, no foreign leaf, not included) is produced for the empty trie only -/
theorem proof_trivial_empty {Ht : Nat} (t : T Bytes) (k : List Bool) (cn : Canon Ht t) (hk : k.length = Ht)
    (hap : (merkleProof Ht [] t k).ap = []) (hpk : (merkleProof Ht [] t k).proofKV = none)
    (hi : (merkleProof Ht [] t k).included = false) : t = .empty := by
  cases t with
  | empty => rfl
  | leaf sk sv =>
    simp only [merkleProof] at hpk hi
    split at hpk
    · simp_all
    · simp at hpk
  | node l r =>
    cases k with
    | nil =>
      have : Ht = 0 := by simpa using hk.symm
      subst this
      simp [Canon] at cn
    | cons b ks => cases b <;> simp [merkleProof] at hap

/-- a canonical trie of height `h` answers only keys of `h` bits -/
theorem get_some_len {V : Type} : ∀ (t : T V) (h : Nat) (k : List Bool) (v : V), Canon h t → get t k = some v → k.length = h := by
  intro t
  induction t with
  | empty => intro h k v _ g; simp [get] at g
  | leaf sk sv =>
    intro h k v cn g
    simp only [get] at g
    split at g
    · rename_i e; rw [← e]; simpa [Canon] using cn
    · cases g
  | node l r ihl ihr =>
    intro h k v cn g
    match h, cn with
    | h' + 1, cn =>
      obtain ⟨cl, cr, _, _⟩ := cn
      cases k with
      | nil => simp [get] at g
      | cons b ks =>
        simp only [get] at g
        cases b with
        | true => simp [ihr h' ks v cr (by simpa using g)]
        | false => simp [ihl h' ks v cl (by simpa using g)]

/-- packing distributes over a whole-byte prefix -/
theorem packBits_append : ∀ (n : Nat) (l1 l2 : List Bool), l1.length = 8 * n → packBits (l1 ++ l2) = packBits l1 ++ packBits l2 := by
  intro n
  induction n with
  | zero =>
    intro l1 l2 h
    have : l1 = [] := List.length_eq_zero_iff.mp (by simpa using h)
    subst this; simp [packBits]
  | succ n ih =>
    intro l1 l2 h
    match l1, h with
    | a :: b :: c :: d :: e :: f :: g :: hh :: rest, h =>
      have hr : rest.length = 8 * n := by simp only [List.length_cons] at h; omega
      simp only [List.cons_append, packBits, ih rest l2 hr]

/-- what the node puts on an audit path is well formed: 32-byte digests or `DefaultLeaf` -/
theorem sibHashes_wf {Ht : Nat} (ok : HashOK c Ht) (ap : List (Sib Bytes)) : ∀ s ∈ sibHashes c ap, WfSib s := by
  intro s hs
  simp only [sibHashes, List.mem_map] at hs
  obtain ⟨x, _, e⟩ := hs
  subst e
  rcases hashT_empty_or_len ok x.1 x.2.1 x.2.2 with ⟨_, e⟩ | ⟨_, e⟩
  · exact Or.inr e
  · exact Or.inl e

/-- along one key there is at most one depth at which a leaf sits -/
theorem subAt_leaf_unique {V : Type} : ∀ (n m : Nat) (t : T V) (k : List Bool) (a b : List Bool) (v w : V),
    subAt t k n = some (.leaf a v) → subAt t k m = some (.leaf b w) → n = m := by
  intro n
  induction n with
  | zero =>
    intro m t k a b v w h1 h2
    simp only [subAt, Option.some.injEq] at h1
    subst h1
    cases m with
    | zero => rfl
    | succ m => simp [subAt] at h2
  | succ n ih =>
    intro m t k a b v w h1 h2
    cases t with
    | empty => simp [subAt] at h1
    | leaf _ _ => simp [subAt] at h1
    | node l r =>
      cases k with
      | nil => simp [subAt] at h1
      | cons bt ks =>
        cases m with
        | zero => simp [subAt] at h2
        | succ m =>
          simp only [subAt] at h1 h2
          rw [ih m _ ks a b v w h1 h2]

end Aergo.Trie
