/-
Merkle proofs of the trie (C11): completeness and soundness of `verifyInclusion` /
`verifyNonInclusion` against `hashT`, for an arbitrary hash function.
-/
import Aergo.Lemmas.TrieCanon

namespace Aergo.Trie

/-- What is assumed of the hash function and the key encoding (true of SHA-256 and of packing 256
bits into 32 bytes): fixed output length, fixed-length injective key encoding. -/
structure HashOK (c : HashCtx) (Ht : Nat) : Prop where
  outLen : ∀ x, (c.H x).length = 32
  encLen : ∀ k : List Bool, k.length = Ht → (c.enc k).length = 32
  encInj : ∀ k k' : List Bool, k.length = Ht → k'.length = Ht → c.enc k = c.enc k' → k = k'

/-- Every byte string the hash function is applied to while hashing subtree `t`. -/
def hashedT (c : HashCtx) : Nat → List Bool → T Bytes → List Bytes
  | _, _, .empty => []
  | h, p, .leaf k v => [c.enc (p ++ k) ++ v ++ [byteOf h]]
  | h, p, .node l r =>
    (hashT c (h - 1) (p ++ [false]) l ++ hashT c (h - 1) (p ++ [true]) r) ::
      (hashedT c (h - 1) (p ++ [false]) l ++ hashedT c (h - 1) (p ++ [true]) r)

/-- Every byte string the hash function is applied to by `vUp … (H z)` (the verifier's side). -/
def hashedUp (c : HashCtx) : List Bool → List Bytes → Bytes → List Bytes
  | b :: ks, s :: rest, z =>
    (if b then s ++ vUp c ks rest (c.H z) else vUp c ks rest (c.H z) ++ s) :: hashedUp c ks rest z
  | _, _, z => [z]

/-- The hash function is exhibited broken *on explicit inputs*: a collision between a string hashed
for the tree (`A`) and a string hashed by the verifier (`B`), or two of those strings whose digests
overlap shifted by one byte (`DefaultLeaf ++ H x = H y ++ DefaultLeaf`: interior nodes hash
`left ++ right` with an empty child written as the single byte `DefaultLeaf`, so `(empty, h)` and
`(h', empty)` have the same pre-image exactly then). Stated over the finite lists `A`, `B` — an
unrestricted "∃ collision" would be vacuous (pigeonhole) — so the theorems say: whoever makes the
verifier accept a false claim has, in hand, a collision/overlap among these very strings. -/
def BrokenOn (H : Bytes → Bytes) (A B : List Bytes) : Prop :=
  (∃ x ∈ A, ∃ y ∈ B, x ≠ y ∧ H x = H y) ∨
  (∃ x ∈ A ++ B, ∃ y ∈ A ++ B, defaultLeaf ++ H x = H y ++ defaultLeaf)

theorem BrokenOn.mono {H : Bytes → Bytes} {A A' B B' : List Bytes} (h : BrokenOn H A' B')
    (ha : ∀ x ∈ A', x ∈ A) (hb : ∀ x ∈ B', x ∈ B) : BrokenOn H A B := by
  have hab : ∀ x ∈ A' ++ B', x ∈ A ++ B := by
    intro x hx
    rcases List.mem_append.mp hx with m | m
    · exact List.mem_append.mpr (Or.inl (ha x m))
    · exact List.mem_append.mpr (Or.inr (hb x m))
  rcases h with ⟨x, hx, y, hy, ne, e⟩ | ⟨x, hx, y, hy, e⟩
  · exact Or.inl ⟨x, ha x hx, y, hb y hy, ne, e⟩
  · exact Or.inr ⟨x, hab x hx, y, hab y hy, e⟩

/-- The subtree reached after `n` steps down the path of a key. -/
def subAt {V : Type} : T V → List Bool → Nat → Option (T V)
  | t, _, 0 => some t
  | .node l r, b :: ks, n + 1 => subAt (if b then r else l) ks n
  | _, _, _ + 1 => none

/-- every stored value is a 32-byte hash -/
def Vals32 : T Bytes → Prop
  | .empty => True
  | .leaf _ v => v.length = 32
  | .node l r => Vals32 l ∧ Vals32 r

variable {c : HashCtx} {Ht : Nat}

theorem hashT_empty_or_len (ok : HashOK c Ht) (h : Nat) (p : List Bool) (t : T Bytes) :
    (t = .empty ∧ hashT c h p t = defaultLeaf) ∨ (t ≠ .empty ∧ (hashT c h p t).length = 32) := by
  cases t with
  | empty => exact Or.inl ⟨rfl, rfl⟩
  | leaf k v => exact Or.inr ⟨by simp, ok.outLen _⟩
  | node l r => exact Or.inr ⟨by simp, ok.outLen _⟩

theorem hashT_len (ok : HashOK c Ht) (h : Nat) (p : List Bool) (t : T Bytes) :
    (hashT c h p t).length = 1 ∨ (hashT c h p t).length = 32 := by
  rcases hashT_empty_or_len ok h p t with ⟨_, e⟩ | ⟨_, e⟩
  · left; rw [e]; rfl
  · right; exact e

/-- A hash value on the audit path as the node produces it: 32 bytes, or `DefaultLeaf`. -/
def WfSib (s : Bytes) : Prop := s.length = 32 ∨ s = defaultLeaf

theorem vUp_len (ok : HashOK c Ht) (ks : List Bool) (sibs : List Bytes) (leaf : Bytes) (hl : leaf.length = 32) :
    (vUp c ks sibs leaf).length = 32 := by
  cases ks with
  | nil => simpa [vUp] using hl
  | cons b ks =>
    cases sibs with
    | nil => simpa [vUp] using hl
    | cons s rest =>
      simp only [vUp]
      split <;> exact ok.outLen _

theorem hashT_is_hash (h : Nat) (p : List Bool) (t : T Bytes) (hne : t ≠ .empty) :
    ∃ x ∈ hashedT c h p t, hashT c h p t = c.H x := by
  cases t with
  | empty => exact absurd rfl hne
  | leaf k v => exact ⟨_, by simp [hashedT], rfl⟩
  | node l r => exact ⟨_, by simp [hashedT], rfl⟩

theorem vUp_is_hash (ks : List Bool) (sibs : List Bytes) (z : Bytes) :
    ∃ x ∈ hashedUp c ks sibs z, vUp c ks sibs (c.H z) = c.H x := by
  cases ks with
  | nil => exact ⟨z, by simp [hashedUp], by simp [vUp]⟩
  | cons b ks =>
    cases sibs with
    | nil => exact ⟨z, by simp [hashedUp], by simp [vUp]⟩
    | cons s rest =>
      simp only [vUp, hashedUp]
      split
      · exact ⟨_, by simp, rfl⟩
      · exact ⟨_, by simp, rfl⟩

theorem wfSib_len_one {s : Bytes} (w : WfSib s) (h : s.length = 1) : s = defaultLeaf := by
  rcases w with w | w
  · omega
  · exact w

theorem wfSib_len {s : Bytes} (w : WfSib s) : s.length = 1 ∨ s.length = 32 := by
  rcases w with w | w
  · exact Or.inr w
  · left; rw [w]; rfl

theorem hashedUp_sub (b : Bool) (ks : List Bool) (s : Bytes) (rest : List Bytes) (z : Bytes) :
    ∀ x ∈ hashedUp c ks rest z, x ∈ hashedUp c (b :: ks) (s :: rest) z := by
  intro x hx; simp only [hashedUp]; exact List.mem_cons_of_mem _ hx

theorem hashedT_left (h : Nat) (p : List Bool) (l r : T Bytes) :
    ∀ x ∈ hashedT c h (p ++ [false]) l, x ∈ hashedT c (h + 1) p (T.node l r) := by
  intro x hx; simp only [hashedT, Nat.add_sub_cancel]
  exact List.mem_cons_of_mem _ (List.mem_append.mpr (Or.inl hx))

theorem hashedT_right (h : Nat) (p : List Bool) (l r : T Bytes) :
    ∀ x ∈ hashedT c h (p ++ [true]) r, x ∈ hashedT c (h + 1) p (T.node l r) := by
  intro x hx; simp only [hashedT, Nat.add_sub_cancel]
  exact List.mem_cons_of_mem _ (List.mem_append.mpr (Or.inr hx))

end Aergo.Trie
