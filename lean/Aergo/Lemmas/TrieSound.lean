/-
Soundness of the trie's inclusion check (C11), one subtree at a time, with explicit witnesses.
-/
import Aergo.Lemmas.TrieProof

namespace Aergo.Trie
variable {c : HashCtx} {Ht : Nat}

theorem hashedUp_nil (ks : List Bool) (z : Bytes) : hashedUp c ks [] z = [z] := by
  cases ks <;> simp [hashedUp]

theorem vUp_nil (ks : List Bool) (leaf : Bytes) : vUp c ks [] leaf = leaf := by
  cases ks <;> simp [vUp]

/-- If `H x = H y` for `x` hashed in the tree and `y` hashed by the verifier, the inputs are equal or
the pair is an explicit collision. -/
theorem eq_or_broken {A B : List Bytes} {x y : Bytes} (hx : x ∈ A) (hy : y ∈ B) (h : c.H x = c.H y) :
    x = y ∨ BrokenOn c.H A B := by
  by_cases e : x = y
  · exact Or.inl e
  · exact Or.inr (Or.inl ⟨x, hx, y, hy, e, h⟩)

/-- **Soundness of the inclusion check, one subtree at a time**: if hashing the claimed leaf up the
claimed audit path reproduces the hash of a canonical subtree, then the node reached after
`|path|` steps along the key is exactly the claimed shortcut leaf — or the hash function is
exhibited broken on the strings hashed on the two sides. -/
theorem sound_desc (ok : HashOK c Ht) :
    ∀ (sibs : List Bytes) (h : Nat) (p : List Bool) (t : T Bytes) (ks key : List Bool) (v : Bytes),
      Canon h t → Vals32 t → p.length + h = Ht → ks.length = h → key = p ++ ks → v.length = 32 →
      (∀ s ∈ sibs, WfSib s) → sibs.length ≤ h →
      hashT c h p t = vUp c ks sibs (c.H (c.enc key ++ v ++ [byteOf (h - sibs.length)])) →
      subAt t ks sibs.length = some (.leaf (ks.drop sibs.length) v) ∨
        BrokenOn c.H (hashedT c h p t) (hashedUp c ks sibs (c.enc key ++ v ++ [byteOf (h - sibs.length)])) := by
  intro sibs
  induction sibs with
  | nil =>
    intro h p t ks key v cn v32 hp hks hkey hv _ _ heq
    simp only [List.length_nil, Nat.sub_zero, vUp_nil, hashedUp_nil, List.drop_zero, subAt] at heq ⊢
    have keylen : key.length = Ht := by rw [hkey]; simp [hks, hp]
    cases t with
    | empty =>
      have := congrArg List.length heq
      simp [hashT, defaultLeaf, ok.outLen] at this
    | leaf k' v' =>
      have hk' : k'.length = h := by simpa [Canon] using cn
      simp only [hashT] at heq
      rcases eq_or_broken (A := hashedT c h p (T.leaf k' v')) (B := [c.enc key ++ v ++ [byteOf h]])
          (by simp [hashedT]) (by simp) heq with e | br
      · have l1 : (c.enc (p ++ k')).length = (c.enc key).length := by
          rw [ok.encLen _ (by simp [hk', hp]), ok.encLen _ keylen]
        rw [List.append_assoc, List.append_assoc] at e
        obtain ⟨e1, e2⟩ := List.append_inj e l1
        have e3 := ok.encInj _ _ (by simp [hk', hp]) keylen e1
        rw [hkey] at e3
        have e4 : k' = ks := List.append_cancel_left e3
        have e5 : v' = v := List.append_cancel_right e2
        left; simp [e4, e5]
      · exact Or.inr br
    | node l r =>
      simp only [hashT] at heq
      rcases eq_or_broken (A := hashedT c h p (T.node l r)) (B := [c.enc key ++ v ++ [byteOf h]])
          (by simp [hashedT]) (by simp) heq with e | br
      · have := congrArg List.length e
        simp only [List.length_append, List.length_cons, List.length_nil, ok.encLen _ keylen, hv] at this
        rcases hashT_len ok (h - 1) (p ++ [false]) l with a | a <;>
          rcases hashT_len ok (h - 1) (p ++ [true]) r with b | b <;> omega
      · exact Or.inr br
  | cons s rest ih =>
    intro h p t ks key v cn v32 hp hks hkey hv hw hlen heq
    have hs := hw s (by simp)
    have hrest : ∀ s' ∈ rest, WfSib s' := fun s' m => hw s' (List.mem_cons_of_mem _ m)
    simp only [List.length_cons] at hlen heq ⊢
    match h, ks, hks, hlen with
    | h' + 1, b :: ks', hks', hlen' =>
      have hks'' : ks'.length = h' := by simpa using hks'
      have hbyte : h' + 1 - (rest.length + 1) = h' - rest.length := by omega
      rw [hbyte] at heq ⊢
      generalize hz : c.enc key ++ v ++ [byteOf (h' - rest.length)] = z at heq ⊢
      have leafLen : (c.H z).length = 32 := ok.outLen _
      have recLen : (vUp c ks' rest (c.H z)).length = 32 := vUp_len ok ks' rest _ leafLen
      have keylen : key.length = Ht := by rw [hkey]; simp [hks'', ← hp] <;> omega
      cases t with
      | empty =>
        have := congrArg List.length heq
        simp only [vUp, hashT, defaultLeaf] at this
        split at this <;> simp [ok.outLen] at this
      | leaf k' v' =>
        have hk' : k'.length = h' + 1 := by simpa [Canon] using cn
        have v'32 : v'.length = 32 := v32
        simp only [hashT, vUp] at heq
        right
        have big : (c.enc (p ++ k') ++ v' ++ [byteOf (h' + 1)]).length = 65 := by
          simp [ok.encLen _ (show (p ++ k').length = Ht by simp [hk', ← hp] <;> omega), v'32]
        have small : ∀ (w : Bytes), (w = s ++ vUp c ks' rest (c.H z) ∨ w = vUp c ks' rest (c.H z) ++ s) → w.length ≠ 65 := by
          intro w hw'
          rcases hw' with e | e <;> rw [e] <;> simp only [List.length_append, recLen] <;>
            rcases wfSib_len hs with sl | sl <;> omega
        cases b with
        | true =>
          simp only [↓reduceIte] at heq
          refine Or.inl ⟨_, by simp [hashedT], _, by simp [hashedUp], ?_, heq⟩
          intro e; exact small _ (Or.inl rfl) (by rw [← e, big])
        | false =>
          simp only [Bool.false_eq_true, ↓reduceIte] at heq
          refine Or.inl ⟨_, by simp [hashedT], _, by simp [hashedUp], ?_, heq⟩
          intro e; exact small _ (Or.inr rfl) (by rw [← e, big])
      | node l r =>
        obtain ⟨cl, cr, _, _⟩ := cn
        obtain ⟨vl, vr⟩ := v32
        simp only [hashT, vUp, Nat.add_sub_cancel] at heq
        -- lifting a broken-ness found one level down
        have liftL : BrokenOn c.H (hashedT c h' (p ++ [false]) l) (hashedUp c ks' rest z) →
            BrokenOn c.H (hashedT c (h' + 1) p (T.node l r)) (hashedUp c (b :: ks') (s :: rest) z) :=
          fun br => br.mono (hashedT_left h' p l r) (hashedUp_sub b ks' s rest z)
        have liftR : BrokenOn c.H (hashedT c h' (p ++ [true]) r) (hashedUp c ks' rest z) →
            BrokenOn c.H (hashedT c (h' + 1) p (T.node l r)) (hashedUp c (b :: ks') (s :: rest) z) :=
          fun br => br.mono (hashedT_right h' p l r) (hashedUp_sub b ks' s rest z)
        have inT : ∀ x, (x ∈ hashedT c h' (p ++ [false]) l ∨ x ∈ hashedT c h' (p ++ [true]) r) →
            x ∈ hashedT c (h' + 1) p (T.node l r) ++ hashedUp c (b :: ks') (s :: rest) z := by
          intro x hx
          rcases hx with m | m
          · exact List.mem_append.mpr (Or.inl (hashedT_left h' p l r x m))
          · exact List.mem_append.mpr (Or.inl (hashedT_right h' p l r x m))
        have inU : ∀ x, x ∈ hashedUp c ks' rest z →
            x ∈ hashedT c (h' + 1) p (T.node l r) ++ hashedUp c (b :: ks') (s :: rest) z :=
          fun x m => List.mem_append.mpr (Or.inr (hashedUp_sub b ks' s rest z x m))
        cases b with
        | true =>
          simp only [↓reduceIte] at heq
          rcases eq_or_broken (A := hashedT c (h' + 1) p (T.node l r)) (B := hashedUp c (true :: ks') (s :: rest) z)
              (by simp [hashedT]) (by simp [hashedUp]) heq with e | br
          · rcases hashT_empty_or_len ok h' (p ++ [true]) r with ⟨re, rh⟩ | ⟨rne, rl⟩
            · -- right child empty: (lh ++ [0]) = (s ++ rec) forces s = [0] and an overlap
              right; right
              rw [rh] at e
              have hl := congrArg List.length e
              simp only [List.length_append, recLen, defaultLeaf, List.length_cons, List.length_nil] at hl
              have s1 : s.length = 1 := by
                rcases wfSib_len hs with a | a <;> rcases hashT_len ok h' (p ++ [false]) l with b' | b' <;> omega
              have sd := wfSib_len_one hs s1
              have lne : l ≠ .empty := by
                intro le
                rcases hashT_empty_or_len ok h' (p ++ [false]) l with ⟨_, lh⟩ | ⟨ne, _⟩
                · rw [lh, s1] at hl; simp [defaultLeaf] at hl
                · exact ne le
              obtain ⟨y, hym, hy⟩ := hashT_is_hash (c := c) h' (p ++ [false]) l lne
              obtain ⟨x, hxm, hx⟩ := vUp_is_hash (c := c) ks' rest z
              refine ⟨x, inU x hxm, y, inT y (Or.inl hym), ?_⟩
              rw [sd] at e
              rw [← hx, ← hy]
              exact e.symm
            · have hl := congrArg List.length e
              simp only [List.length_append, recLen, rl] at hl
              obtain ⟨_, e2⟩ := List.append_inj e (by omega)
              have := ih h' (p ++ [true]) r ks' key v cr vr (by simp <;> omega) hks''
                (by rw [hkey]; simp) hv hrest (by omega) (by rw [hz]; exact e2)
              rw [hz] at this
              rcases this with g | br
              · left; simpa [subAt] using g
              · exact Or.inr (liftR br)
          · exact Or.inr br
        | false =>
          simp only [Bool.false_eq_true, ↓reduceIte] at heq
          rcases eq_or_broken (A := hashedT c (h' + 1) p (T.node l r)) (B := hashedUp c (false :: ks') (s :: rest) z)
              (by simp [hashedT]) (by simp [hashedUp]) heq with e | br
          · rcases hashT_empty_or_len ok h' (p ++ [false]) l with ⟨le, lh⟩ | ⟨lne, ll⟩
            · right; right
              rw [lh] at e
              have hl := congrArg List.length e
              simp only [List.length_append, recLen, defaultLeaf, List.length_cons, List.length_nil] at hl
              have s1 : s.length = 1 := by
                rcases wfSib_len hs with a | a <;> rcases hashT_len ok h' (p ++ [true]) r with b' | b' <;> omega
              have sd := wfSib_len_one hs s1
              have rne : r ≠ .empty := by
                intro re
                rcases hashT_empty_or_len ok h' (p ++ [true]) r with ⟨_, rh⟩ | ⟨ne, _⟩
                · rw [rh, s1] at hl; simp [defaultLeaf] at hl
                · exact ne re
              obtain ⟨x, hxm, hx⟩ := hashT_is_hash (c := c) h' (p ++ [true]) r rne
              obtain ⟨y, hym, hy⟩ := vUp_is_hash (c := c) ks' rest z
              refine ⟨x, inT x (Or.inr hxm), y, inU y hym, ?_⟩
              rw [sd] at e
              rw [← hx, ← hy]
              exact e
            · have hl := congrArg List.length e
              simp only [List.length_append, recLen, ll] at hl
              obtain ⟨e1, _⟩ := List.append_inj e (by omega)
              have := ih h' (p ++ [false]) l ks' key v cl vl (by simp <;> omega) hks''
                (by rw [hkey]; simp) hv hrest (by omega) (by rw [hz]; exact e1)
              rw [hz] at this
              rcases this with g | br
              · left; simpa [subAt] using g
              · exact Or.inr (liftL br)
          · exact Or.inr br

end Aergo.Trie
