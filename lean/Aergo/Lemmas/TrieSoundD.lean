/-
Soundness of the non-inclusion check that ends in an empty subtree (C11), and the structural
lemmas that turn "the node reached along the path is …" into statements about reads.
-/
import Aergo.Lemmas.TrieSound

namespace Aergo.Trie
variable {c : HashCtx} {Ht : Nat}

/-- The verifier-side hash inputs when the bottom of the path is `DefaultLeaf`. -/
def hashedUpD (c : HashCtx) : List Bool → List Bytes → List Bytes
  | b :: ks, s :: rest =>
    (if b then s ++ vUp c ks rest defaultLeaf else vUp c ks rest defaultLeaf ++ s) :: hashedUpD c ks rest
  | _, _ => []

/-- No interior node has an empty child next to a child whose digest could be re-read with the
`DefaultLeaf` byte on the other side: `(empty, h)` is hashed as `00 ++ h`, which is also
`s ++ 00` for `s = 00 ++ h[0..31)` when `h` ends in `00` (and symmetrically). This is a property of
the *data* (about one node in 256 with an empty sibling violates it), not of the hash function;
without it the non-inclusion check is forgeable — see `Props/C11` and the known finding. -/
def NoZeroEdge (c : HashCtx) : Nat → List Bool → T Bytes → Prop
  | _, _, .empty => True
  | _, _, .leaf _ _ => True
  | h, p, .node l r =>
    (l = .empty → ∀ s : Bytes, defaultLeaf ++ hashT c (h - 1) (p ++ [true]) r ≠ s ++ defaultLeaf) ∧
    (r = .empty → ∀ s : Bytes, hashT c (h - 1) (p ++ [false]) l ++ defaultLeaf ≠ defaultLeaf ++ s) ∧
    NoZeroEdge c (h - 1) (p ++ [false]) l ∧ NoZeroEdge c (h - 1) (p ++ [true]) r

theorem vUpD_cases (ok : HashOK c Ht) (ks : List Bool) (rest : List Bytes) (hl : rest.length ≤ ks.length) :
    (rest = [] ∧ vUp c ks rest defaultLeaf = defaultLeaf) ∨
    (rest ≠ [] ∧ (vUp c ks rest defaultLeaf).length = 32 ∧ ∃ x ∈ hashedUpD c ks rest, vUp c ks rest defaultLeaf = c.H x) := by
  cases rest with
  | nil => left; exact ⟨rfl, vUp_nil ks _⟩
  | cons s rest' =>
    right
    cases ks with
    | nil => simp at hl
    | cons b ks' =>
      refine ⟨by simp, ?_, ?_⟩
      · simp only [vUp]; split <;> exact ok.outLen _
      · simp only [vUp, hashedUpD]
        split
        · exact ⟨_, by simp, rfl⟩
        · exact ⟨_, by simp, rfl⟩

theorem hashedUpD_sub (b : Bool) (ks : List Bool) (s : Bytes) (rest : List Bytes) :
    ∀ x ∈ hashedUpD c ks rest, x ∈ hashedUpD c (b :: ks) (s :: rest) := by
  intro x hx; simp only [hashedUpD]; exact List.mem_cons_of_mem _ hx

/-- **Soundness of the empty-subtree non-inclusion check, one subtree at a time.** -/
theorem sound_desc_default (ok : HashOK c Ht) :
    ∀ (sibs : List Bytes) (h : Nat) (p : List Bool) (t : T Bytes) (ks : List Bool),
      Canon h t → Vals32 t → NoZeroEdge c h p t → p.length + h = Ht → ks.length = h →
      (∀ s ∈ sibs, WfSib s) → sibs.length ≤ h →
      hashT c h p t = vUp c ks sibs defaultLeaf →
      subAt t ks sibs.length = some .empty ∨ BrokenOn c.H (hashedT c h p t) (hashedUpD c ks sibs) := by
  intro sibs
  induction sibs with
  | nil =>
    intro h p t ks cn v32 nz hp hks _ _ heq
    rw [vUp_nil] at heq
    rcases hashT_empty_or_len ok h p t with ⟨te, _⟩ | ⟨_, tl⟩
    · left; simp [subAt, te]
    · rw [heq] at tl; simp [defaultLeaf] at tl
  | cons s rest ih =>
    intro h p t ks cn v32 nz hp hks hw hlen heq
    have hs := hw s (by simp)
    have hrest : ∀ s' ∈ rest, WfSib s' := fun s' m => hw s' (List.mem_cons_of_mem _ m)
    simp only [List.length_cons] at hlen ⊢
    match h, ks, hks, hlen with
    | h' + 1, b :: ks', hks', hlen' =>
      have hks'' : ks'.length = h' := by simpa using hks'
      have recC := vUpD_cases ok ks' rest (by omega)
      have recLen : (vUp c ks' rest defaultLeaf).length = 1 ∨ (vUp c ks' rest defaultLeaf).length = 32 := by
        rcases recC with ⟨_, e⟩ | ⟨_, e, _⟩
        · left; rw [e]; rfl
        · right; exact e
      cases t with
      | empty =>
        have := congrArg List.length heq
        simp only [vUp, hashT, defaultLeaf] at this
        split at this <;> simp [ok.outLen] at this
      | leaf k' v' =>
        have hk' : k'.length = h' + 1 := by simpa [Canon] using cn
        have v'32 : v'.length = 32 := v32
        simp only [hashT, vUp] at heq
        right
        have big : (c.enc (p ++ k') ++ v' ++ [byteOf (h' + 1)]).length = 65 := by
          simp [ok.encLen _ (show (p ++ k').length = Ht by simp [hk', ← hp] <;> omega), v'32]
        have small : ∀ (w : Bytes), (w = s ++ vUp c ks' rest defaultLeaf ∨ w = vUp c ks' rest defaultLeaf ++ s) → w.length ≠ 65 := by
          intro w hw'
          rcases hw' with e | e <;> rw [e] <;> simp only [List.length_append] <;>
            rcases wfSib_len hs with sl | sl <;> rcases recLen with rl | rl <;> omega
        cases b with
        | true =>
          simp only [↓reduceIte] at heq
          refine Or.inl ⟨_, by simp [hashedT], _, by simp [hashedUpD], ?_, heq⟩
          intro e; exact small _ (Or.inl rfl) (by rw [← e, big])
        | false =>
          simp only [Bool.false_eq_true, ↓reduceIte] at heq
          refine Or.inl ⟨_, by simp [hashedT], _, by simp [hashedUpD], ?_, heq⟩
          intro e; exact small _ (Or.inr rfl) (by rw [← e, big])
      | node l r =>
        obtain ⟨cl, cr, _, _⟩ := cn
        obtain ⟨vl, vr⟩ := v32
        obtain ⟨nzl, nzr, nl, nr⟩ := nz
        simp only [Nat.add_sub_cancel] at nzl nzr nl nr
        simp only [hashT, vUp, Nat.add_sub_cancel] at heq
        have liftL : BrokenOn c.H (hashedT c h' (p ++ [false]) l) (hashedUpD c ks' rest) →
            BrokenOn c.H (hashedT c (h' + 1) p (T.node l r)) (hashedUpD c (b :: ks') (s :: rest)) :=
          fun br => br.mono (hashedT_left h' p l r) (hashedUpD_sub b ks' s rest)
        have liftR : BrokenOn c.H (hashedT c h' (p ++ [true]) r) (hashedUpD c ks' rest) →
            BrokenOn c.H (hashedT c (h' + 1) p (T.node l r)) (hashedUpD c (b :: ks') (s :: rest)) :=
          fun br => br.mono (hashedT_right h' p l r) (hashedUpD_sub b ks' s rest)
        have inT : ∀ x, (x ∈ hashedT c h' (p ++ [false]) l ∨ x ∈ hashedT c h' (p ++ [true]) r) →
            x ∈ hashedT c (h' + 1) p (T.node l r) ++ hashedUpD c (b :: ks') (s :: rest) := by
          intro x hx
          rcases hx with m | m
          · exact List.mem_append.mpr (Or.inl (hashedT_left h' p l r x m))
          · exact List.mem_append.mpr (Or.inl (hashedT_right h' p l r x m))
        have inU : ∀ x, x ∈ hashedUpD c ks' rest →
            x ∈ hashedT c (h' + 1) p (T.node l r) ++ hashedUpD c (b :: ks') (s :: rest) :=
          fun x m => List.mem_append.mpr (Or.inr (hashedUpD_sub b ks' s rest x m))
        cases b with
        | true =>
          simp only [↓reduceIte] at heq
          rcases eq_or_broken (A := hashedT c (h' + 1) p (T.node l r)) (B := hashedUpD c (true :: ks') (s :: rest))
              (by simp [hashedT]) (by simp [hashedUpD]) heq with e | br
          · have hl := congrArg List.length e
            simp only [List.length_append] at hl
            rcases hashT_empty_or_len ok h' (p ++ [true]) r with ⟨re, rh⟩ | ⟨rne, rl⟩
            · rcases recC with ⟨_, rd⟩ | ⟨_, r32, x, hxm, hx⟩
              · -- both bottoms are DefaultLeaf: same length, descend
                rw [rh, rd] at e
                have := ih h' (p ++ [true]) r ks' cr vr nr (by simp only [List.length_append, List.length_cons, List.length_nil]; omega) hks'' hrest (Nat.le_of_succ_le_succ hlen') (by rw [rh, rd])
                rcases this with g | br
                · left; simpa [subAt] using g
                · exact Or.inr (liftR br)
              · -- (lh ++ 00) = (s ++ rec): overlap of two digests
                right; right
                rw [rh] at e hl
                rw [r32] at hl
                simp only [defaultLeaf, List.length_cons, List.length_nil] at hl
                have s1 : s.length = 1 := by
                  rcases wfSib_len hs with a | a <;> rcases hashT_len ok h' (p ++ [false]) l with b' | b' <;> omega
                have sd := wfSib_len_one hs s1
                have lne : l ≠ .empty := by
                  intro le
                  rcases hashT_empty_or_len ok h' (p ++ [false]) l with ⟨_, lh⟩ | ⟨ne, _⟩
                  · rw [lh, s1] at hl; simp [defaultLeaf] at hl
                  · exact ne le
                obtain ⟨y, hym, hy⟩ := hashT_is_hash (c := c) h' (p ++ [false]) l lne
                refine ⟨x, inU x hxm, y, inT y (Or.inl hym), ?_⟩
                rw [sd] at e
                rw [← hx, ← hy]
                exact e.symm
            · rcases recC with ⟨_, rd⟩ | ⟨_, r32, _⟩
              · -- real right child is a digest, claimed bottom is DefaultLeaf: the zero-edge ambiguity
                rw [rd] at e hl
                simp only [rl, defaultLeaf, List.length_cons, List.length_nil] at hl
                have l1 : (hashT c h' (p ++ [false]) l).length = 1 := by
                  rcases wfSib_len hs with a | a <;> rcases hashT_len ok h' (p ++ [false]) l with b' | b' <;> omega
                have le : l = .empty := by
                  rcases hashT_empty_or_len ok h' (p ++ [false]) l with ⟨le, _⟩ | ⟨_, ll⟩
                  · exact le
                  · omega
                have lh : hashT c h' (p ++ [false]) l = defaultLeaf := by rw [le]; rfl
                rw [lh] at e
                exact absurd e (nzl le s)
              · obtain ⟨_, e2⟩ := List.append_inj e (by omega)
                have := ih h' (p ++ [true]) r ks' cr vr nr (by simp only [List.length_append, List.length_cons, List.length_nil]; omega) hks'' hrest (Nat.le_of_succ_le_succ hlen') e2
                rcases this with g | br
                · left; simpa [subAt] using g
                · exact Or.inr (liftR br)
          · exact Or.inr br
        | false =>
          simp only [Bool.false_eq_true, ↓reduceIte] at heq
          rcases eq_or_broken (A := hashedT c (h' + 1) p (T.node l r)) (B := hashedUpD c (false :: ks') (s :: rest))
              (by simp [hashedT]) (by simp [hashedUpD]) heq with e | br
          · have hl := congrArg List.length e
            simp only [List.length_append] at hl
            rcases hashT_empty_or_len ok h' (p ++ [false]) l with ⟨le, lh⟩ | ⟨lne, ll⟩
            · rcases recC with ⟨_, rd⟩ | ⟨_, r32, y, hym, hy⟩
              · rw [lh, rd] at e
                have := ih h' (p ++ [false]) l ks' cl vl nl (by simp only [List.length_append, List.length_cons, List.length_nil]; omega) hks'' hrest (Nat.le_of_succ_le_succ hlen') (by rw [lh, rd])
                rcases this with g | br
                · left; simpa [subAt] using g
                · exact Or.inr (liftL br)
              · right; right
                rw [lh] at e hl
                rw [r32] at hl
                simp only [defaultLeaf, List.length_cons, List.length_nil] at hl
                have s1 : s.length = 1 := by
                  rcases wfSib_len hs with a | a <;> rcases hashT_len ok h' (p ++ [true]) r with b' | b' <;> omega
                have sd := wfSib_len_one hs s1
                have rne : r ≠ .empty := by
                  intro re
                  rcases hashT_empty_or_len ok h' (p ++ [true]) r with ⟨_, rh⟩ | ⟨ne, _⟩
                  · rw [rh, s1] at hl; simp [defaultLeaf] at hl
                  · exact ne re
                obtain ⟨x, hxm, hx⟩ := hashT_is_hash (c := c) h' (p ++ [true]) r rne
                refine ⟨x, inT x (Or.inr hxm), y, inU y hym, ?_⟩
                rw [sd] at e
                rw [← hx, ← hy]
                exact e
            · rcases recC with ⟨_, rd⟩ | ⟨_, r32, _⟩
              · rw [rd] at e hl
                simp only [ll, defaultLeaf, List.length_cons, List.length_nil] at hl
                have r1 : (hashT c h' (p ++ [true]) r).length = 1 := by
                  rcases wfSib_len hs with a | a <;> rcases hashT_len ok h' (p ++ [true]) r with b' | b' <;> omega
                have re : r = .empty := by
                  rcases hashT_empty_or_len ok h' (p ++ [true]) r with ⟨re, _⟩ | ⟨_, rl⟩
                  · exact re
                  · omega
                have rh : hashT c h' (p ++ [true]) r = defaultLeaf := by rw [re]; rfl
                rw [rh] at e
                exact absurd e (nzr re s)
              · obtain ⟨e1, _⟩ := List.append_inj e (by omega)
                have := ih h' (p ++ [false]) l ks' cl vl nl (by simp only [List.length_append, List.length_cons, List.length_nil]; omega) hks'' hrest (Nat.le_of_succ_le_succ hlen') e1
                rcases this with g | br
                · left; simpa [subAt] using g
                · exact Or.inr (liftL br)
          · exact Or.inr br

/-! ### from "the node reached along the path" to reads -/

theorem get_subAt {V : Type} : ∀ (n : Nat) (t t' : T V) (k : List Bool),
    subAt t k n = some t' → get t k = get t' (k.drop n) := by
  intro n
  induction n with
  | zero => intro t t' k h; simp only [subAt, Option.some.injEq] at h; subst h; simp
  | succ n ih =>
    intro t t' k h
    cases t with
    | empty => simp [subAt] at h
    | leaf _ _ => simp [subAt] at h
    | node l r =>
      cases k with
      | nil => simp [subAt] at h
      | cons b ks =>
        simp only [subAt] at h
        cases b with
        | true => simpa [get] using ih r t' ks (by simpa using h)
        | false => simpa [get] using ih l t' ks (by simpa using h)

theorem subAt_take {V : Type} : ∀ (n : Nat) (t : T V) (k k' : List Bool),
    k.take n = k'.take n → n ≤ k.length → n ≤ k'.length → subAt t k n = subAt t k' n := by
  intro n
  induction n with
  | zero => intro t k k' _ _ _; simp [subAt]
  | succ n ih =>
    intro t k k' h h1 h2
    match k, k', h1, h2 with
    | b :: ks, b' :: ks', h1, h2 =>
      simp only [List.take_succ_cons, List.cons.injEq] at h
      obtain ⟨hb, ht⟩ := h
      subst hb
      cases t with
      | empty => simp [subAt]
      | leaf _ _ => simp [subAt]
      | node l r =>
        simp only [subAt]
        exact ih _ ks ks' ht (by simpa using h1) (by simpa using h2)

end Aergo.Trie
