/-
`updatedNodes` bookkeeping (C10), third part: a history of blocks, each committing exactly what its `Update`
left in `updatedNodes` (`runBlocks`), keeps every committed root readable.
-/
import Aergo.Lemmas.TrieStoreInc

namespace Aergo.TrieStore
open Aergo.Trie Aergo.TrieBatch

variable {c : HashCtx} {L : List Trie.Bytes} {n : Nat}

/-- what the store holds after some blocks: only genuine pairs, and the batches of the trees in `ts` -/
structure StoreInv (c : HashCtx) (n : Nat) (L : List Trie.Bytes) (σ : Store) (ts : List (T Trie.Bytes)) : Prop where
  genuine : ∀ k v, σ k = some v → Genuine c (4 * n) L (k, v)
  covers : ∀ t ∈ ts, Covers σ (pairsAt c (4 * n) [] t)

theorem storeInv_empty : StoreInv c n L emptyStore [] :=
  ⟨fun k v h => by simp [emptyStore] at h, fun t h => by simp at h⟩

/-- one block preserves the invariant and adds the new tree -/
theorem blockStep_inv (env : Env c (4 * n) L) {σ : Store} {ts : List (T Trie.Bytes)} {t : T Trie.Bytes}
    (si : StoreInv c n L σ ts) (cur : Covers σ (pairsAt c (4 * n) [] t))
    (cn : Canon (4 * n) t) (v32 : Vals32 t) (clt : Closed c (4 * n) L (4 * n) [] t)
    (b : List (KV Trie.Bytes)) (w : Trie.WF (4 * n) b) (hne : b ≠ []) (k32 : KV32 b)
    (cl' : Closed c (4 * n) L (4 * n) [] (update (4 * n) t b).1) :
    StoreInv c n L (blockStep c n (σ, t) b).1 (ts ++ [(blockStep c n (σ, t) b).2]) ∧
      (blockStep c n (σ, t) b).2 = (update (4 * n) t b).1 := by
  have inv := updU_inv env (4 * n) [] t b [] cn v32 w hne k32 (by simp) cl'
  have etree : (updU c (batchVal c) (4 * n) [] t b []).1 = update (4 * n) t b := updU_tree (batchVal c) (4 * n) [] t b []
  have g := update_good (4 * n) t b cn w hne
  have vres := update_vals32 cn v32 w hne k32
  -- every entry of `updatedNodes` is genuine
  have ung : ∀ e ∈ (updU c (batchVal c) (4 * n) [] t b []).2, Genuine c (4 * n) L e := by
    intro e he
    rcases inv.genuine e he with h | h
    · simp at h
    · exact h
  -- a genuine pair the store holds survives the commit
  have keep : ∀ k v, σ k = some v → Genuine c (4 * n) L (k, v) →
      commitS σ (updU c (batchVal c) (4 * n) [] t b []).2 k = some v := by
    intro k v h gk
    apply commitS_preserve _ _ _ _ h
    intro kv' hkv' e
    exact genuine_unique env.ok env.good (ung kv' hkv') gk e
  refine ⟨⟨?_, ?_⟩, ?_⟩
  · intro k v h
    simp only [blockStep] at h
    rcases commitS_cases (updU c (batchVal c) (4 * n) [] t b []).2 σ k with e | ⟨kv, mkv, ek, e⟩
    · rw [e] at h; exact si.genuine k v h
    · rw [e] at h
      have : kv = (k, v) := by cases kv; simp_all
      rw [← this]; exact ung kv mkv
  · intro t' ht'
    simp only [List.mem_append, List.mem_singleton] at ht'
    rcases ht' with ht' | rfl
    · intro kv hkv
      have h := si.covers t' ht' kv hkv
      exact keep kv.1 kv.2 h (si.genuine _ _ h)
    · intro kv hkv
      simp only [blockStep] at hkv ⊢
      rw [etree] at hkv
      have gkv : Genuine c (4 * n) L kv :=
        (pairsAt_genuine (c := c) (Ht := 4 * n) (L := L) _ (4 * n) [] g.canon vres (by simp) cl'.1 kv hkv).weaken
      have hkv' : kv ∈ pairsAt c (4 * n) [] (updU c (batchVal c) (4 * n) [] t b []).1.1 := by rw [etree]; exact hkv
      rcases inv.present kv hkv' with h | h
      · -- recorded by this update
        have cov := commitS_covers (updU c (batchVal c) (4 * n) [] t b []).2 σ
          (fun a ha b hb e => genuine_unique env.ok env.good (ung a ha) (ung b hb) e)
        exact cov kv h
      · -- its key is the key of a batch root of the old tree: the store has it already, with the same bytes
        simp only [OKt, List.mem_map] at h
        obtain ⟨kv0, m0, e0⟩ := h
        have h0 := cur kv0 m0
        have g0 : Genuine c (4 * n) L kv0 :=
          (pairsAt_genuine (c := c) (Ht := 4 * n) (L := L) _ (4 * n) [] cn v32 (by simp) clt.1 kv0 m0).weaken
        have ev : kv0.2 = kv.2 := genuine_unique env.ok env.good g0 gkv e0
        have := keep kv0.1 kv0.2 h0 g0
        rw [e0, ev] at this
        exact this
  · simp only [blockStep, etree]

end Aergo.TrieStore
