/-
Storage layer of the trie (C10): `getS` (the Go `Trie.get` through `loadChildren`/`parseBatch`) on a
store covering the pairs of a canonical tree answers as `Trie.get` on the tree. Induction over the
batch levels (outer) and the ≤ 3 levels inside a batch (inner).
-/
import Aergo.Lemmas.TrieStoreLayout

namespace Aergo.TrieStore
open Aergo.Trie Aergo.TrieBatch

variable {c : HashCtx} {Ht : Nat}

theorem norm_shortcut (b : Batch) : (norm b).shortcut = b.shortcut := by
  simp only [norm]; split <;> simp_all

theorem norm_of_not_shortcut (b : Batch) (h : b.shortcut = false) : norm b = b := by
  simp [norm, h]

/-! ### `loadChildren` -/

theorem load_boundary (ok : HashOK c Ht) {σ : Store} {h : Nat} {p : List Bool} {t : T Trie.Bytes} {root : Trie.Bytes}
    (h4 : h % 4 = 0) (cn : Canon h t) (v32 : Vals32 t) (hp : p.length + h = Ht)
    (hr : root.take 32 = hashT c h p t) (hσ : σ (hashT c h p t) = some (serialize (batchOf c h p t)))
    (i : Nat) (batch : Batch) :
    loadChildren σ root h i batch = some (norm (batchOf c h p t), 0, isLeaf t) := by
  have wf := batchOf_wf ok cn v32 hp
  simp only [loadChildren, if_pos h4, hr, hσ, serialize_ne_nil _ wf.1, parse_serialize _ wf, Bool.false_eq_true,
    ↓reduceIte, Option.map_some, norm_shortcut]
  rfl

theorem load_inner {σ : Store} {h i : Nat} {batch : Batch} {root hsh : Trie.Bytes} {flag : UInt8}
    (h4 : h % 4 ≠ 0) (hs : slotAt batch i = some (some (hsh ++ [flag]))) (hl : hsh.length = 32) :
    loadChildren σ root h i batch = some (batch, i, flag == 1) := by
  have hx : (hsh ++ [flag])[32]? = some flag := by
    rw [List.getElem?_append_right (by omega)]; simp [hl]
  have hne : (hsh ++ [flag]).isEmpty = false := by simp
  simp only [loadChildren, if_neg h4, hs, hne, hx, Bool.false_eq_true, ↓reduceIte]

/-! ### `afterLoad` -/

theorem afterLoad_leaf (ok : HashOK c Ht) {key p sk k : List Bool} {sv : Trie.Bytes} {b : Batch} {j h : Nat}
    (hkey : key = p ++ k) (hsk : (p ++ sk).length = Ht) (klen : key.length = Ht) (sv32 : sv.length = 32)
    (s1 : slotAt b (2 * j + 1) = some (some (c.enc (p ++ sk) ++ [2])))
    (s2 : slotAt b (2 * j + 2) = some (some (sv ++ [2]))) :
    afterLoad c Ht key h (b, j, true) = .done (.ok (get (.leaf sk sv) k)) := by
  have e32 : (c.enc (p ++ sk)).length = 32 := ok.encLen _ hsk
  have t1 : (c.enc (p ++ sk) ++ [2]).take 32 = c.enc (p ++ sk) := List.take_left' e32
  have t2 : (sv ++ [2]).take 32 = sv := List.take_left' sv32
  simp only [afterLoad, s1, s2, Option.getD_some, ↓reduceIte, t1, t2, List.length_append, e32, sv32,
    List.length_cons, List.length_nil, Trie.get]
  have n1 : ¬ (32 + (0 + 1) < 32) := by omega
  simp only [if_neg n1]
  by_cases hk : sk = k
  · subst hk; simp [hkey]
  · have : c.enc (p ++ sk) ≠ c.enc key := by
      intro e
      have := ok.encInj _ _ hsk klen e
      rw [hkey] at this
      exact hk (List.append_cancel_left this)
    simp [this, hk]

theorem afterLoad_node {key : List Bool} {b : Batch} {j h : Nat} {lb rb : Option Trie.Bytes} {bit : Bool}
    (s1 : slotAt b (2 * j + 1) = some lb) (s2 : slotAt b (2 * j + 2) = some rb) (hbit : key[Ht - h]? = some bit) :
    afterLoad c Ht key h (b, j, false) =
      .down ((if bit then rb else lb).getD []) b (2 * j + (if bit then 2 else 1)) := by
  simp only [afterLoad, s1, s2, Bool.false_eq_true, ↓reduceIte, hbit]
  cases bit <;> simp

/-! ### unfolding `getS` -/

theorem getS_done {σ : Store} {key : List Bool} {h : Nat} {root : Trie.Bytes} {batch : Batch} {i : Nat} {r : Res}
    (e : getStep c σ Ht key h root batch i = .done r) : getS c σ Ht key h root batch i = r := by
  cases h <;> (unfold getS; simp only [e])

theorem getS_down {σ : Store} {key : List Bool} {h : Nat} {root node : Trie.Bytes} {batch b : Batch} {i j : Nat}
    (e : getStep c σ Ht key (h + 1) root batch i = .down node b j) :
    getS c σ Ht key (h + 1) root batch i = getS c σ Ht key h node b j := by
  rw [getS]; simp only [e]

theorem getStep_nil {σ : Store} {key : List Bool} {h : Nat} {batch : Batch} {i : Nat} :
    getStep c σ Ht key h [] batch i = .done (.ok none) := by
  simp [getStep]

theorem getStep_load {σ : Store} {key : List Bool} {h : Nat} {root : Trie.Bytes} {batch : Batch} {i : Nat}
    {ld : Batch × Nat × Bool} (hr : root ≠ []) (hl : loadChildren σ root h i batch = some ld) :
    getStep c σ Ht key h root batch i = afterLoad c Ht key h ld := by
  have : root.isEmpty = false := by cases root <;> simp_all
  simp [getStep, this, hl]

/-! ### references -/

theorem refBytes_empty (h : Nat) (p : List Bool) : refBytes c h p .empty = [] := rfl

theorem refBytes_ne {h : Nat} {p : List Bool} {t : T Trie.Bytes} (hne : t ≠ .empty) :
    refBytes c h p t = hashT c h p t ++ [if isLeaf t then 1 else 0] ∧
    (refOf h p t).map (render c) = some (hashT c h p t ++ [if isLeaf t then 1 else 0]) := by
  cases t with
  | empty => exact absurd rfl hne
  | leaf k v => exact ⟨rfl, rfl⟩
  | node l r => exact ⟨rfl, rfl⟩

theorem refOf_map_eq (h : Nat) (p : List Bool) (t : T Trie.Bytes) :
    (refOf h p t).map (render c) = if t = .empty then none else some (refBytes c h p t) := by
  cases t <;> simp [refOf, refBytes]

/-- key bit consumed at height `h` below the prefix `p` -/
theorem key_bit {p k : List Bool} {bit : Bool} {h : Nat} (hp : p.length + h = Ht) :
    (p ++ bit :: k)[Ht - h]? = some bit := by
  have : Ht - h = p.length := by omega
  rw [this, List.getElem?_append_right (by omega)]
  simp

/-! ### the claim at a batch boundary, and inside a batch -/

/-- reading below a batch root of level `n` (height `4 * n`) -/
def TopOK (c : HashCtx) (σ : Store) (Ht : Nat) (key : List Bool) (n : Nat) : Prop :=
  ∀ (p k : List Bool) (s : T Trie.Bytes) (root : Trie.Bytes) (batch : Batch) (i : Nat),
    Canon (4 * n) s → Vals32 s → p.length + 4 * n = Ht → key = p ++ k →
    Covers σ (pairsOf c n p s) →
    (s = .empty → root = []) → (s ≠ .empty → root ≠ [] ∧ root.take 32 = hashT c (4 * n) p s) →
    getS c σ Ht key (4 * n) root batch i = .ok (get s k)

theorem getS_in (ok : HashOK c Ht) {σ : Store} {key : List Bool} (klen : key.length = Ht) {n : Nat}
    (ih : TopOK c σ Ht key n) :
    ∀ (m : Nat), m ≤ 3 → ∀ (q p k : List Bool) (sub : T Trie.Bytes) (b : Batch),
      q.length + m = 4 → Canon (4 * n + m) sub → Vals32 sub → p.length + (4 * n + m) = Ht → key = p ++ k →
      Lay c b (4 * n + m) p sub q →
      slotAt b (idx q) = some ((refOf (4 * n + m) p sub).map (render c)) →
      (∀ q' s, q'.length = m → descend sub q' = some s → Covers σ (pairsOf c n (p ++ q') s)) →
      getS c σ Ht key (4 * n + m) (refBytes c (4 * n + m) p sub) b (idx q) = .ok (get sub k) := by
  intro m
  induction m with
  | zero =>
    intro _ q p k sub b _ cn v32 hp hkey _ _ cov
    have cv := cov [] sub rfl rfl
    simp only [List.append_nil] at cv
    refine ih p k sub _ b (idx q) cn v32 hp hkey cv (fun e => by subst e; rfl) (fun hne => ?_)
    obtain ⟨e, _⟩ := refBytes_ne (c := c) (h := 4 * n + 0) (p := p) hne
    have hl : (hashT c (4 * n + 0) p sub).length = 32 := by
      rcases hashT_empty_or_len ok (4 * n + 0) p sub with ⟨e', _⟩ | ⟨_, e'⟩
      · exact absurd e' hne
      · exact e'
    rw [e]
    exact ⟨by simp, List.take_left' hl⟩
  | succ m ihm =>
    intro hm q p k sub b hq cn v32 hp hkey lay hslot cov
    have h4 : (4 * n + (m + 1)) % 4 ≠ 0 := by omega
    have hqne : q ≠ [] := by intro e; subst e; simp at hq; omega
    cases sub with
    | empty => exact getS_done (by rw [refBytes_empty]; exact getStep_nil)
    | leaf sk sv =>
      have hne : (T.leaf sk sv : T Trie.Bytes) ≠ .empty := by simp
      obtain ⟨e, e'⟩ := refBytes_ne (c := c) (h := 4 * n + (m + 1)) (p := p) hne
      have hl : (hashT c (4 * n + (m + 1)) p (T.leaf sk sv)).length = 32 := ok.outLen _
      rw [e'] at hslot
      have ld := load_inner (σ := σ) (root := refBytes c (4 * n + (m + 1)) p (T.leaf sk sv)) h4 hslot hl
      have hrne : refBytes c (4 * n + (m + 1)) p (T.leaf sk sv) ≠ [] := by rw [e]; simp
      apply getS_done
      rw [getStep_load hrne ld]
      simp only [isLeaf, ↓reduceIte, beq_self_eq_true]
      have s1 := lay [false] (by simp) (by simp; omega)
      have s2 := lay [true] (by simp) (by simp; omega)
      rw [idx_snoc] at s1 s2
      simp only [Bool.false_eq_true, ↓reduceIte, slotP, List.isEmpty_nil, Option.map_some, render] at s1 s2
      have hsk : (p ++ sk).length = Ht := by simp only [Canon] at cn; simp; omega
      exact afterLoad_leaf ok hkey hsk klen v32 s1 s2
    | node l r =>
      have hne : (T.node l r : T Trie.Bytes) ≠ .empty := by simp
      obtain ⟨e, e'⟩ := refBytes_ne (c := c) (h := 4 * n + (m + 1)) (p := p) hne
      have hl : (hashT c (4 * n + (m + 1)) p (T.node l r)).length = 32 := ok.outLen _
      rw [e'] at hslot
      have ld := load_inner (σ := σ) (root := refBytes c (4 * n + (m + 1)) p (T.node l r)) h4 hslot hl
      have hrne : refBytes c (4 * n + (m + 1)) p (T.node l r) ≠ [] := by rw [e]; simp
      -- the key has a bit left
      have hklen : k.length = 4 * n + (m + 1) := by
        have := klen; rw [hkey] at this; simp at this; omega
      obtain ⟨bit, k', rfl, hk'⟩ := key_cases k hklen
      have hbit : key[Ht - (4 * n + (m + 1))]? = some bit := by rw [hkey]; exact key_bit hp
      obtain ⟨layc, slotc⟩ := lay_child lay bit (by omega)
      have s1 := (lay_child lay false (by omega)).2
      have s2 := (lay_child lay true (by omega)).2
      rw [idx_snoc] at s1 s2
      simp only [Bool.false_eq_true, ↓reduceIte] at s1 s2
      have hstep : getStep c σ Ht key (4 * n + m + 1) (refBytes c (4 * n + (m + 1)) p (T.node l r)) b (idx q) =
          .down (refBytes c (4 * n + m) (p ++ [bit]) (if bit then r else l)) b (idx (q ++ [bit])) := by
        show getStep c σ Ht key (4 * n + (m + 1)) _ b (idx q) = _
        rw [getStep_load hrne ld]
        simp only [isLeaf, Bool.false_eq_true, ↓reduceIte, show ((0 : UInt8) == 1) = false from rfl]
        rw [afterLoad_node s1 s2 hbit, idx_snoc]
        cases bit <;> rfl
      have hd : getS c σ Ht key (4 * n + (m + 1)) (refBytes c (4 * n + (m + 1)) p (T.node l r)) b (idx q) =
          getS c σ Ht key (4 * n + m) (refBytes c (4 * n + m) (p ++ [bit]) (if bit then r else l)) b (idx (q ++ [bit])) :=
        getS_down hstep
      rw [hd]
      obtain ⟨_, cc⟩ := canon_child cn bit
      have vc : Vals32 (if bit then r else l) := by cases bit <;> simp [v32.1, v32.2]
      have := ihm (by omega) (q ++ [bit]) (p ++ [bit]) k' (if bit then r else l) b (by simp; omega) cc vc
        (by simp; omega) (by simp [hkey]) layc slotc
        (fun q' s hq' hd => by
          have := cov (bit :: q') s (by simp [hq']) (by simpa [descend] using hd)
          simpa using this)
      rw [this]
      cases bit <;> simp [Trie.get]

/-- the boundary case with a shortcut batch -/
theorem getS_leaf_root (ok : HashOK c Ht) {σ : Store} {key : List Bool} (klen : key.length = Ht) {h : Nat}
    {p k sk : List Bool} {sv root : Trie.Bytes} {batch : Batch} {i : Nat}
    (h4 : h % 4 = 0) (cn : Canon h (T.leaf sk sv)) (v32 : Vals32 (T.leaf sk sv)) (hp : p.length + h = Ht)
    (hkey : key = p ++ k) (hrne : root ≠ []) (hr : root.take 32 = hashT c h p (T.leaf sk sv))
    (hσ : σ (hashT c h p (T.leaf sk sv)) = some (serialize (batchOf c h p (T.leaf sk sv)))) :
    getS c σ Ht key h root batch i = .ok (get (T.leaf sk sv) k) := by
  have ld := load_boundary ok h4 cn v32 hp hr hσ i batch
  apply getS_done
  rw [getStep_load hrne ld]
  have hsk : (p ++ sk).length = Ht := by simp only [Canon] at cn; simp; omega
  refine afterLoad_leaf ok hkey hsk klen v32 ?_ ?_ <;> rfl

theorem getS_top (ok : HashOK c Ht) {σ : Store} {key : List Bool} (klen : key.length = Ht) :
    ∀ n, TopOK c σ Ht key n := by
  intro n
  induction n with
  | zero =>
    intro p k s root batch i cn v32 hp hkey cv r0 r1
    cases s with
    | empty => rw [r0 rfl]; exact getS_done getStep_nil
    | leaf sk sv =>
      obtain ⟨hrne, hr⟩ := r1 (by simp)
      exact getS_leaf_root ok klen (by omega) cn v32 hp hkey hrne hr (covers_head cv (by simp))
    | node l r => exact absurd cn (by simp [Canon])
  | succ n ih =>
    intro p k s root batch i cn v32 hp hkey cv r0 r1
    cases s with
    | empty => rw [r0 rfl]; exact getS_done getStep_nil
    | leaf sk sv =>
      obtain ⟨hrne, hr⟩ := r1 (by simp)
      exact getS_leaf_root ok klen (by omega) cn v32 hp hkey hrne hr (covers_head cv (by simp))
    | node l r =>
      obtain ⟨hrne, hr⟩ := r1 (by simp)
      have ld := load_boundary ok (by omega) cn v32 hp hr (covers_head cv (by simp)) i batch
      rw [norm_of_not_shortcut _ rfl] at ld
      have hklen : k.length = 4 * n + 3 + 1 := by
        have := klen; rw [hkey] at this; simp at this; omega
      obtain ⟨bit, k', rfl, hk'⟩ := key_cases k hklen
      have hbit : key[Ht - 4 * (n + 1)]? = some bit := by rw [hkey]; exact key_bit hp
      have lay := lay_batchOf c (4 * (n + 1)) p (T.node l r)
      have e43 : 4 * (n + 1) - 1 = 4 * n + 3 := by omega
      have i0 : idx [] = 0 := rfl
      obtain ⟨layc, slotc⟩ := lay_child lay bit (by simp)
      have s1 := (lay_child lay false (by simp)).2
      have s2 := (lay_child lay true (by simp)).2
      rw [idx_snoc, i0, e43] at s1 s2
      rw [e43] at layc slotc
      simp only [Bool.false_eq_true, ↓reduceIte] at s1 s2
      have hstep : getStep c σ Ht key (4 * n + 3 + 1) root batch i =
          .down (refBytes c (4 * n + 3) (p ++ [bit]) (if bit then r else l)) (batchOf c (4 * (n + 1)) p (T.node l r)) (idx ([] ++ [bit])) := by
        show getStep c σ Ht key (4 * (n + 1)) root batch i = _
        rw [getStep_load hrne ld]
        simp only [isLeaf]
        rw [afterLoad_node s1 s2 hbit, idx_snoc, i0]
        cases bit <;> rfl
      have hd : getS c σ Ht key (4 * (n + 1)) root batch i =
          getS c σ Ht key (4 * n + 3) (refBytes c (4 * n + 3) (p ++ [bit]) (if bit then r else l))
            (batchOf c (4 * (n + 1)) p (T.node l r)) (idx ([] ++ [bit])) := getS_down hstep
      rw [hd]
      obtain ⟨_, cc⟩ := canon_child cn bit
      have vc : Vals32 (if bit then r else l) := by cases bit <;> simp [v32.1, v32.2]
      have := getS_in ok klen ih 3 (by omega) ([] ++ [bit]) (p ++ [bit]) k' (if bit then r else l)
        (batchOf c (4 * (n + 1)) p (T.node l r)) (by simp) cc vc (by simp; omega) (by simp [hkey]) layc slotc
        (fun q' s hq' hd => by
          have := covers_sub cv (bit :: q') (by simp [hq']) s (by simpa [descend] using hd)
          simpa using this)
      rw [this]
      cases bit <;> simp [Trie.get]

end Aergo.TrieStore
