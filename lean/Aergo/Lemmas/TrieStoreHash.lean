/-
Storage layer of the trie (C10), content addressing: two batch roots with the same hash have the same
serialised batch — provided the hash function is injective (and free of the one-byte-shift overlap
`DefaultLeaf ++ H x = H y ++ DefaultLeaf`) on the finite list of strings hashed for the trees at hand.
Hence committing only adds pairs or rewrites identical bytes, and a store keeps covering every tree
committed to it.
-/
import Aergo.Lemmas.TrieStoreGet

namespace Aergo.TrieStore
open Aergo.Trie Aergo.TrieBatch

variable {c : HashCtx} {Ht n : Nat}

/-- The hash function behaves on the explicit finite list `L`: injective on it, and no digest of one
element, prefixed by `DefaultLeaf`, equals the digest of another followed by `DefaultLeaf`
(an interior node hashes `left ++ right` with an empty child written as the single byte `DefaultLeaf`,
so `(empty, r)` and `(l, empty)` have the same pre-image exactly in that case).
This is `¬ BrokenOn H L L` of Lemmas/TrieProof.lean. -/
structure HashGoodOn (H : Trie.Bytes → Trie.Bytes) (L : List Trie.Bytes) : Prop where
  inj : ∀ x ∈ L, ∀ y ∈ L, H x = H y → x = y
  noOverlap : ∀ x ∈ L, ∀ y ∈ L, defaultLeaf ++ H x ≠ H y ++ defaultLeaf

theorem hashGoodOn_iff_not_broken (H : Trie.Bytes → Trie.Bytes) (L : List Trie.Bytes) :
    HashGoodOn H L ↔ ¬ BrokenOn H L L := by
  constructor
  · rintro ⟨hi, ho⟩ (⟨x, hx, y, hy, ne, e⟩ | ⟨x, hx, y, hy, e⟩)
    · exact ne (hi x hx y hy e)
    · have hx' : x ∈ L := by simpa using hx
      have hy' : y ∈ L := by simpa using hy
      exact ho x hx' y hy' e
  · intro nb
    refine ⟨fun x hx y hy e => ?_, fun x hx y hy e => nb (Or.inr ⟨x, by simp [hx], y, by simp [hy], e⟩)⟩
    by_cases hxy : x = y
    · exact hxy
    · exact absurd (Or.inl ⟨x, hx, y, hy, hxy, e⟩) nb

theorem HashGoodOn.mono {H : Trie.Bytes → Trie.Bytes} {L L' : List Trie.Bytes} (g : HashGoodOn H L)
    (sub : ∀ x ∈ L', x ∈ L) : HashGoodOn H L' :=
  ⟨fun x hx y hy => g.inj x (sub x hx) y (sub y hy), fun x hx y hy => g.noOverlap x (sub x hx) y (sub y hy)⟩

theorem slotP_empty {V : Type} (h : Nat) (p q : List Bool) : slotP h p (T.empty : T V) q = none := by
  cases q <;> simp [slotP]

theorem hashedT_node_mem {h : Nat} {p : List Bool} {l r : T Trie.Bytes} (bit : Bool) :
    ∀ x ∈ hashedT c (h - 1) (p ++ [bit]) (if bit then r else l), x ∈ hashedT c h p (T.node l r) := by
  intro x hx
  cases bit <;> simp_all [hashedT]

theorem vals32_child {l r : T Trie.Bytes} (v : Vals32 (T.node l r)) (bit : Bool) : Vals32 (if bit then r else l) := by
  cases bit <;> simp [v.1, v.2]

theorem hashT_ne_len (ok : HashOK c Ht) {h : Nat} {p : List Bool} {t : T Trie.Bytes} (hne : t ≠ .empty) :
    (hashT c h p t).length = 32 := by
  rcases hashT_empty_or_len ok h p t with ⟨e, _⟩ | ⟨_, e⟩
  · exact absurd e hne
  · exact e

theorem hashT_len1 (ok : HashOK c Ht) {h : Nat} {p : List Bool} {t : T Trie.Bytes} (hl : (hashT c h p t).length = 1) :
    t = .empty ∧ hashT c h p t = defaultLeaf := by
  rcases hashT_empty_or_len ok h p t with ⟨e, e'⟩ | ⟨_, e⟩
  · exact ⟨e, e'⟩
  · omega

/-- pre-image of a shortcut's hash -/
theorem leaf_pre_len (ok : HashOK c Ht) {h : Nat} {p k : List Bool} {v : Trie.Bytes} (hk : (p ++ k).length = Ht)
    (hv : v.length = 32) : (c.enc (p ++ k) ++ v ++ [byteOf h]).length = 65 := by
  simp [ok.encLen _ hk, hv]

theorem node_pre_len (ok : HashOK c Ht) (h1 h2 : Nat) (p1 p2 : List Bool) (l r : T Trie.Bytes) :
    (hashT c h1 p1 l ++ hashT c h2 p2 r).length ≤ 64 := by
  rcases hashT_len ok h1 p1 l with a | a <;> rcases hashT_len ok h2 p2 r with b | b <;> simp [a, b]

/-- **Equal hashes, equal layouts.** -/
theorem same_hash_same_layout (ok : HashOK c Ht) {L : List Trie.Bytes} (g : HashGoodOn c.H L) :
    ∀ (s1 : T Trie.Bytes) (h1 : Nat) (p1 : List Bool) (h2 : Nat) (p2 : List Bool) (s2 : T Trie.Bytes),
      Canon h1 s1 → Vals32 s1 → p1.length + h1 = Ht → Canon h2 s2 → Vals32 s2 → p2.length + h2 = Ht →
      (∀ x ∈ hashedT c h1 p1 s1, x ∈ L) → (∀ x ∈ hashedT c h2 p2 s2, x ∈ L) →
      hashT c h1 p1 s1 = hashT c h2 p2 s2 →
      isLeaf s1 = isLeaf s2 ∧ (s1 = .empty ↔ s2 = .empty) ∧
        ∀ q, (slotP h1 p1 s1 q).map (render c) = (slotP h2 p2 s2 q).map (render c) := by
  intro s1
  induction s1 with
  | empty =>
    intro h1 p1 h2 p2 s2 _ _ _ _ _ _ _ _ e
    have : s2 = .empty := by
      have hl : (hashT c h2 p2 s2).length = 1 := by rw [← e]; rfl
      exact (hashT_len1 ok hl).1
    subst this
    exact ⟨rfl, Iff.rfl, fun q => by simp [slotP_empty]⟩
  | leaf k1 v1 =>
    intro h1 p1 h2 p2 s2 c1 w1 l1 c2 w2 l2 m1 m2 e
    have hk1 : (p1 ++ k1).length = Ht := by simp only [Canon] at c1; simp; omega
    cases s2 with
    | empty =>
      have : (hashT c h1 p1 (T.leaf k1 v1)).length = 1 := by rw [e]; rfl
      have := hashT_len1 ok this
      simp at this
    | leaf k2 v2 =>
      have hk2 : (p2 ++ k2).length = Ht := by simp only [Canon] at c2; simp; omega
      have pre := g.inj _ (m1 _ (by simp [hashedT])) _ (m2 _ (by simp [hashedT])) e
      have e1 := List.append_inj (List.append_inj' pre (by simp)).1 (by rw [ok.encLen _ hk1, ok.encLen _ hk2])
      refine ⟨rfl, by simp, fun q => ?_⟩
      cases q with
      | nil => simp [slotP]
      | cons b bs =>
        simp only [slotP]
        split
        · cases b <;> simp [render, e1.1, e1.2]
        · rfl
    | node l2 r2 =>
      have pre := g.inj _ (m1 _ (by simp [hashedT])) _ (m2 _ (by simp [hashedT])) e
      have a := leaf_pre_len (h := h1) ok hk1 w1
      have b := node_pre_len ok (h2 - 1) (h2 - 1) (p2 ++ [false]) (p2 ++ [true]) l2 r2
      rw [pre] at a
      omega
  | node l1 r1 ihl ihr =>
    intro h1 p1 h2 p2 s2 c1 w1 l1' c2 w2 l2' m1 m2 e
    cases s2 with
    | empty =>
      have : (hashT c h1 p1 (T.node l1 r1)).length = 1 := by rw [e]; rfl
      have := hashT_len1 ok this
      simp at this
    | leaf k2 v2 =>
      have hk2 : (p2 ++ k2).length = Ht := by simp only [Canon] at c2; simp; omega
      have pre := g.inj _ (m1 _ (by simp [hashedT])) _ (m2 _ (by simp [hashedT])) e
      have a := leaf_pre_len (h := h2) ok hk2 w2
      have b := node_pre_len ok (h1 - 1) (h1 - 1) (p1 ++ [false]) (p1 ++ [true]) l1 r1
      rw [← pre] at a
      omega
    | node l2 r2 =>
      have pre : hashT c (h1 - 1) (p1 ++ [false]) l1 ++ hashT c (h1 - 1) (p1 ++ [true]) r1 =
          hashT c (h2 - 1) (p2 ++ [false]) l2 ++ hashT c (h2 - 1) (p2 ++ [true]) r2 :=
        g.inj _ (m1 _ (by simp [hashedT])) _ (m2 _ (by simp [hashedT])) e
      -- the two halves are equal, unless the digests overlap
      have halves : hashT c (h1 - 1) (p1 ++ [false]) l1 = hashT c (h2 - 1) (p2 ++ [false]) l2 ∧
          hashT c (h1 - 1) (p1 ++ [true]) r1 = hashT c (h2 - 1) (p2 ++ [true]) r2 := by
        have plen := congrArg List.length pre
        simp only [List.length_append] at plen
        rcases hashT_len ok (h1 - 1) (p1 ++ [false]) l1 with a1 | a1 <;>
          rcases hashT_len ok (h2 - 1) (p2 ++ [false]) l2 with a2 | a2
        · exact List.append_inj pre (by omega)
        · -- l1 empty, l2 not: then r1 is not empty and r2 is
          exfalso
          have b1 : (hashT c (h1 - 1) (p1 ++ [true]) r1).length = 32 := by
            rcases hashT_len ok (h1 - 1) (p1 ++ [true]) r1 with x | x <;>
              rcases hashT_len ok (h2 - 1) (p2 ++ [true]) r2 with y | y <;> omega
          have b2 : (hashT c (h2 - 1) (p2 ++ [true]) r2).length = 1 := by omega
          obtain ⟨_, el1⟩ := hashT_len1 ok a1
          obtain ⟨_, er2⟩ := hashT_len1 ok b2
          have r1ne : r1 ≠ .empty := by intro h; subst h; simp [hashT, defaultLeaf] at b1
          have l2ne : l2 ≠ .empty := by intro h; subst h; simp [hashT, defaultLeaf] at a2
          obtain ⟨x, hx, ex⟩ := hashT_is_hash (c := c) (h1 - 1) (p1 ++ [true]) r1 r1ne
          obtain ⟨y, hy, ey⟩ := hashT_is_hash (c := c) (h2 - 1) (p2 ++ [false]) l2 l2ne
          rw [el1, er2, ex, ey] at pre
          exact g.noOverlap x (m1 x (hashedT_node_mem true x hx)) y (m2 y (hashedT_node_mem false y hy)) pre
        · exfalso
          have b2 : (hashT c (h2 - 1) (p2 ++ [true]) r2).length = 32 := by
            rcases hashT_len ok (h1 - 1) (p1 ++ [true]) r1 with x | x <;>
              rcases hashT_len ok (h2 - 1) (p2 ++ [true]) r2 with y | y <;> omega
          have b1 : (hashT c (h1 - 1) (p1 ++ [true]) r1).length = 1 := by omega
          obtain ⟨_, el2⟩ := hashT_len1 ok a2
          obtain ⟨_, er1⟩ := hashT_len1 ok b1
          have r2ne : r2 ≠ .empty := by intro h; subst h; simp [hashT, defaultLeaf] at b2
          have l1ne : l1 ≠ .empty := by intro h; subst h; simp [hashT, defaultLeaf] at a1
          obtain ⟨x, hx, ex⟩ := hashT_is_hash (c := c) (h2 - 1) (p2 ++ [true]) r2 r2ne
          obtain ⟨y, hy, ey⟩ := hashT_is_hash (c := c) (h1 - 1) (p1 ++ [false]) l1 l1ne
          rw [el2, er1, ex, ey] at pre
          exact g.noOverlap x (m2 x (hashedT_node_mem true x hx)) y (m1 y (hashedT_node_mem false y hy)) pre.symm
        · exact List.append_inj pre (by omega)
      obtain ⟨g1, cl1⟩ := canon_child c1 false
      obtain ⟨_, cr1⟩ := canon_child c1 true
      obtain ⟨g2, cl2⟩ := canon_child c2 false
      obtain ⟨_, cr2⟩ := canon_child c2 true
      have L := ihl (h1 - 1) (p1 ++ [false]) (h2 - 1) (p2 ++ [false]) l2 cl1 w1.1 (by simp; omega) cl2 w2.1 (by simp; omega)
        (fun x hx => m1 x (hashedT_node_mem false x hx)) (fun x hx => m2 x (hashedT_node_mem false x hx)) halves.1
      have R := ihr (h1 - 1) (p1 ++ [true]) (h2 - 1) (p2 ++ [true]) r2 cr1 w1.2 (by simp; omega) cr2 w2.2 (by simp; omega)
        (fun x hx => m1 x (hashedT_node_mem true x hx)) (fun x hx => m2 x (hashedT_node_mem true x hx)) halves.2
      refine ⟨rfl, by simp, fun q => ?_⟩
      cases q with
      | nil => simp [slotP]
      | cons b bs =>
        simp only [slotP]
        have child : isLeaf (if b then r1 else l1) = isLeaf (if b then r2 else l2) ∧
            ((if b then r1 else l1) = .empty ↔ (if b then r2 else l2) = .empty) ∧
            hashT c (h1 - 1) (p1 ++ [b]) (if b then r1 else l1) = hashT c (h2 - 1) (p2 ++ [b]) (if b then r2 else l2) ∧
            ∀ q, (slotP (h1 - 1) (p1 ++ [b]) (if b then r1 else l1) q).map (render c) =
              (slotP (h2 - 1) (p2 ++ [b]) (if b then r2 else l2) q).map (render c) := by
          cases b
          · exact ⟨L.1, L.2.1, halves.1, L.2.2⟩
          · exact ⟨R.1, R.2.1, halves.2, R.2.2⟩
        obtain ⟨ck, ce, ch, cs⟩ := child
        split
        · rw [refOf_map_eq, refOf_map_eq]
          by_cases hem : (if b then r1 else l1) = .empty
          · simp [hem, ce.mp hem]
          · have hem2 : (if b then r2 else l2) ≠ .empty := fun h => hem (ce.mpr h)
            rw [if_neg hem, if_neg hem2, (refBytes_ne hem).1, (refBytes_ne hem2).1, ch, ck]
        · exact cs bs

/-! ### the pairs of a tree -/

theorem pathsN_length : ∀ (n : Nat) (q : List Bool), q ∈ pathsN n → q.length = n := by
  intro n
  induction n with
  | zero => intro q h; simp [pathsN] at h; simp [h]
  | succ n ih =>
    intro q h
    simp only [pathsN, List.mem_flatMap] at h
    obtain ⟨q', hq', hm⟩ := h
    have := ih q' hq'
    simp at hm
    rcases hm with rfl | rfl <;> simp [this]

theorem descend_sub : ∀ (q : List Bool) (h : Nat) (p : List Bool) (t s : T Trie.Bytes),
    descend t q = some s → Canon h t → Vals32 t →
    (t = .empty ∨ q.length ≤ h) ∧ Canon (h - q.length) s ∧ Vals32 s ∧
      ∀ x ∈ hashedT c (h - q.length) (p ++ q) s, x ∈ hashedT c h p t := by
  intro q
  induction q with
  | nil =>
    intro h p t s hd cn v
    simp only [descend, Option.some.injEq] at hd
    subst hd
    exact ⟨Or.inr (by simp), by simpa using cn, v, by simp⟩
  | cons b bs ih =>
    intro h p t s hd cn v
    cases t with
    | empty => simp [descend] at hd
    | leaf k v => simp [descend] at hd
    | node l r =>
      simp only [descend] at hd
      obtain ⟨h1, cc⟩ := canon_child cn b
      obtain ⟨a, cs, vs, ms⟩ := ih (h - 1) (p ++ [b]) _ s hd cc (vals32_child v b)
      have hle : bs.length ≤ h - 1 := by
        rcases a with a | a
        · -- the child is empty: then so is s, and bs = []
          cases bs with
          | nil => simp
          | cons _ _ => rw [a] at hd; simp [descend] at hd
        · exact a
      have e : h - (b :: bs).length = h - 1 - bs.length := by simp; omega
      refine ⟨Or.inr (by simp; omega), by rw [e]; exact cs, vs, fun x hx => ?_⟩
      rw [e] at hx
      have hx' : x ∈ hashedT c (h - 1 - bs.length) (p ++ [b] ++ bs) s := by simpa using hx
      exact hashedT_node_mem b x (ms x hx')

theorem pairsOf_mem : ∀ (n : Nat) (p : List Bool) (t : T Trie.Bytes) (kv : Trie.Bytes × Trie.Bytes),
    Canon (4 * n) t → Vals32 t → p.length + 4 * n = Ht → kv ∈ pairsOf c n p t →
    ∃ h' p' s, s ≠ .empty ∧ Canon h' s ∧ Vals32 s ∧ p'.length + h' = Ht ∧
      (∀ x ∈ hashedT c h' p' s, x ∈ hashedT c (4 * n) p t) ∧
      kv = (hashT c h' p' s, serialize (batchOf c h' p' s)) := by
  intro n
  induction n with
  | zero =>
    intro p t kv cn v hp hm
    cases t with
    | empty => simp [pairsOf] at hm
    | leaf k w =>
      simp only [pairsOf, List.mem_singleton] at hm
      exact ⟨0, p, _, by simp, cn, v, hp, fun x hx => hx, hm⟩
    | node l r => exact absurd cn (by simp [Canon])
  | succ n ih =>
    intro p t kv cn v hp hm
    have top : t ≠ .empty → ∃ h' p' s, s ≠ .empty ∧ Canon h' s ∧ Vals32 s ∧ p'.length + h' = Ht ∧
        (∀ x ∈ hashedT c h' p' s, x ∈ hashedT c (4 * (n + 1)) p t) ∧
        (hashT c (4 * (n + 1)) p t, serialize (batchOf c (4 * (n + 1)) p t)) = (hashT c h' p' s, serialize (batchOf c h' p' s)) :=
      fun hne => ⟨4 * (n + 1), p, t, hne, cn, v, hp, fun x hx => hx, rfl⟩
    cases t with
    | empty => simp [pairsOf] at hm
    | leaf k w =>
      simp only [pairsOf, List.mem_cons, List.mem_flatMap] at hm
      rcases hm with rfl | ⟨q, hq, hm⟩
      · exact top (by simp)
      · have := pathsN_length 4 q hq
        cases q with
        | nil => simp at this
        | cons _ _ => simp [descend] at hm
    | node l r =>
      simp only [pairsOf, List.mem_cons, List.mem_flatMap] at hm
      rcases hm with rfl | ⟨q, hq, hm⟩
      · exact top (by simp)
      · have ql := pathsN_length 4 q hq
        cases hd : descend (T.node l r) q with
        | none => simp [hd] at hm
        | some s =>
          simp only [hd] at hm
          obtain ⟨_, cs, vs, ms⟩ := descend_sub (c := c) q (4 * (n + 1)) p _ s hd cn v
          have e : 4 * (n + 1) - q.length = 4 * n := by omega
          rw [e] at cs ms
          obtain ⟨h', p', s', a1, a2, a3, a4, a5, a6⟩ := ih (p ++ q) s kv cs vs (by simp; omega) hm
          exact ⟨h', p', s', a1, a2, a3, a4, fun x hx => ms x (a5 x hx), a6⟩

theorem batchOf_eq_of_layout {h1 h2 : Nat} {p1 p2 : List Bool} {s1 s2 : T Trie.Bytes}
    (hk : isLeaf s1 = isLeaf s2)
    (hs : ∀ q, (slotP h1 p1 s1 q).map (render c) = (slotP h2 p2 s2 q).map (render c)) :
    batchOf c h1 p1 s1 = batchOf c h2 p2 s2 := by
  simp only [batchOf, layout, List.map_map, hk]
  congr 1
  apply List.map_congr_left
  intro q _
  exact hs q

/-- **Content addressing**: a key determines its value, across trees and positions. -/
theorem pair_unique (ok : HashOK c Ht) {L : List Trie.Bytes} (g : HashGoodOn c.H L)
    {n1 n2 : Nat} {p1 p2 : List Bool} {t1 t2 : T Trie.Bytes}
    (c1 : Canon (4 * n1) t1) (w1 : Vals32 t1) (l1 : p1.length + 4 * n1 = Ht)
    (c2 : Canon (4 * n2) t2) (w2 : Vals32 t2) (l2 : p2.length + 4 * n2 = Ht)
    (m1 : ∀ x ∈ hashedT c (4 * n1) p1 t1, x ∈ L) (m2 : ∀ x ∈ hashedT c (4 * n2) p2 t2, x ∈ L)
    {kv1 kv2 : Trie.Bytes × Trie.Bytes} (i1 : kv1 ∈ pairsOf c n1 p1 t1) (i2 : kv2 ∈ pairsOf c n2 p2 t2)
    (hk : kv1.1 = kv2.1) : kv1.2 = kv2.2 := by
  obtain ⟨h1, q1, s1, _, a2, a3, a4, a5, rfl⟩ := pairsOf_mem n1 p1 t1 kv1 c1 w1 l1 i1
  obtain ⟨h2, q2, s2, _, b2, b3, b4, b5, rfl⟩ := pairsOf_mem n2 p2 t2 kv2 c2 w2 l2 i2
  obtain ⟨k1, _, k3⟩ := same_hash_same_layout ok g s1 h1 q1 h2 q2 s2 a2 a3 a4 b2 b3 b4
    (fun x hx => m1 x (a5 x hx)) (fun x hx => m2 x (b5 x hx)) hk
  simp only [batchOf_eq_of_layout k1 k3]

/-! ### commits -/

theorem commitS_cons (σ : Store) (kv : Trie.Bytes × Trie.Bytes) (ps : List (Trie.Bytes × Trie.Bytes)) :
    commitS σ (kv :: ps) = commitS (put σ kv.1 kv.2) ps := rfl

/-- a pair survives a commit that writes nothing else under its key -/
theorem commitS_preserve : ∀ (ps : List (Trie.Bytes × Trie.Bytes)) (σ : Store) (k v : Trie.Bytes),
    σ k = some v → (∀ kv ∈ ps, kv.1 = k → kv.2 = v) → commitS σ ps k = some v := by
  intro ps
  induction ps with
  | nil => intro σ k v h _; exact h
  | cons kv ps ih =>
    intro σ k v h hu
    rw [commitS_cons]
    apply ih
    · simp only [put]
      split
      · rename_i e; rw [hu kv (by simp) e.symm]
      · exact h
    · exact fun kv' m => hu kv' (List.mem_cons_of_mem _ m)

/-- a commit changes a key only by writing one of its pairs -/
theorem commitS_cases : ∀ (ps : List (Trie.Bytes × Trie.Bytes)) (σ : Store) (k : Trie.Bytes),
    commitS σ ps k = σ k ∨ ∃ kv ∈ ps, kv.1 = k ∧ commitS σ ps k = some kv.2 := by
  intro ps
  induction ps with
  | nil => intro σ k; exact Or.inl rfl
  | cons kv ps ih =>
    intro σ k
    rw [commitS_cons]
    rcases ih (put σ kv.1 kv.2) k with h | ⟨kv', m, e, h⟩
    · by_cases e : k = kv.1
      · exact Or.inr ⟨kv, by simp, e.symm, by rw [h]; simp [put, e]⟩
      · exact Or.inl (by rw [h]; simp [put, e])
    · exact Or.inr ⟨kv', List.mem_cons_of_mem _ m, e, h⟩

theorem commitS_covers : ∀ (ps : List (Trie.Bytes × Trie.Bytes)) (σ : Store),
    (∀ kv1 ∈ ps, ∀ kv2 ∈ ps, kv1.1 = kv2.1 → kv1.2 = kv2.2) → Covers (commitS σ ps) ps := by
  intro ps
  induction ps with
  | nil => intro σ _ kv h; simp at h
  | cons kv ps ih =>
    intro σ hu kv' hm
    rw [commitS_cons]
    rcases List.mem_cons.mp hm with rfl | hm'
    · apply commitS_preserve
      · simp [put]
      · exact fun kv'' m e => hu kv'' (List.mem_cons_of_mem _ m) kv' (by simp) e
    · exact ih _ (fun a ha b hb => hu a (List.mem_cons_of_mem _ ha) b (List.mem_cons_of_mem _ hb)) kv' hm'

/-! ### a sequence of commits -/

/-- a tree as the trie commits it at height `4 * n`: canonical, values of 32 bytes -/
def Committed (n : Nat) (t : T Trie.Bytes) : Prop := Canon (4 * n) t ∧ Vals32 t

/-- every byte string hashed for the trees `ts` (each at height `4 * n`) -/
def hashedAll (c : HashCtx) (n : Nat) (ts : List (T Trie.Bytes)) : List Trie.Bytes :=
  ts.flatMap (hashedT c (4 * n) [])

theorem hashedAll_mem {n : Nat} {ts : List (T Trie.Bytes)} {t : T Trie.Bytes} (m : t ∈ ts) :
    ∀ x ∈ hashedT c (4 * n) [] t, x ∈ hashedAll c n ts :=
  fun _ hx => List.mem_flatMap.mpr ⟨t, m, hx⟩

theorem storeAfter_snoc (c : HashCtx) (n : Nat) (ts : List (T Trie.Bytes)) (t : T Trie.Bytes) :
    storeAfter c n (ts ++ [t]) = commitS (storeAfter c n ts) (pairsOf c n [] t) := by
  simp [storeAfter, List.foldl_append]

/-- whatever a sequence of commits leaves under a key was there before or is a pair of one of the trees -/
theorem foldl_commit_mem {n : Nat} : ∀ (ts : List (T Trie.Bytes)) (σ : Store) (k v : Trie.Bytes),
    ts.foldl (fun σ t => commitS σ (pairsOf c n [] t)) σ k = some v →
    σ k = some v ∨ ∃ t ∈ ts, (k, v) ∈ pairsOf c n [] t := by
  intro ts
  induction ts with
  | nil => intro σ k v h; exact Or.inl h
  | cons t ts ih =>
    intro σ k v h
    simp only [List.foldl_cons] at h
    rcases ih _ k v h with h' | ⟨t', m, h'⟩
    · rcases commitS_cases (pairsOf c n [] t) σ k with e | ⟨kv, mkv, ek, e⟩
      · exact Or.inl (by rw [← e]; exact h')
      · right
        refine ⟨t, by simp, ?_⟩
        rw [e] at h'
        have : kv = (k, v) := by cases kv; simp_all
        rw [← this]; exact mkv
    · exact Or.inr ⟨t', List.mem_cons_of_mem _ m, h'⟩

/-- later commits keep covering an earlier tree -/
theorem covers_after (ok : HashOK c (4 * n)) {L : List Trie.Bytes} (g : HashGoodOn c.H L) {t0 : T Trie.Bytes}
    (c0 : Committed n t0) (m0 : ∀ x ∈ hashedT c (4 * n) [] t0, x ∈ L) :
    ∀ (ts : List (T Trie.Bytes)) (σ : Store), Covers σ (pairsOf c n [] t0) →
      (∀ t ∈ ts, Committed n t) → (∀ t ∈ ts, ∀ x ∈ hashedT c (4 * n) [] t, x ∈ L) →
      Covers (ts.foldl (fun σ t => commitS σ (pairsOf c n [] t)) σ) (pairsOf c n [] t0) := by
  intro ts
  induction ts with
  | nil => intro σ cv _ _; exact cv
  | cons t ts ih =>
    intro σ cv hc hm
    simp only [List.foldl_cons]
    refine ih _ ?_ (fun t' m => hc t' (List.mem_cons_of_mem _ m)) (fun t' m => hm t' (List.mem_cons_of_mem _ m))
    intro kv hkv
    apply commitS_preserve _ _ _ _ (cv kv hkv)
    intro kv' hkv' e
    have ct := hc t (by simp)
    exact pair_unique ok g ct.1 ct.2 (by simp) c0.1 c0.2 (by simp) (hm t (by simp)) m0 hkv' hkv e

/-- committing a tree makes the store cover it, whatever the store held before -/
theorem commit_covers (ok : HashOK c (4 * n)) {t : T Trie.Bytes} (ct : Committed n t)
    (g : HashGoodOn c.H (hashedT c (4 * n) [] t)) (σ : Store) :
    Covers (commitS σ (pairsOf c n [] t)) (pairsOf c n [] t) :=
  commitS_covers _ σ fun _ h1 _ h2 e =>
    pair_unique ok g ct.1 ct.2 (by simp) ct.1 ct.2 (by simp) (fun _ h => h) (fun _ h => h) h1 h2 e

theorem storeAfter_covers (ok : HashOK c (4 * n)) {ts : List (T Trie.Bytes)} (hc : ∀ t ∈ ts, Committed n t)
    (g : HashGoodOn c.H (hashedAll c n ts)) {t : T Trie.Bytes} (m : t ∈ ts) :
    Covers (storeAfter c n ts) (pairsOf c n [] t) := by
  obtain ⟨s, r, rfl⟩ := List.append_of_mem m
  simp only [storeAfter, List.foldl_append, List.foldl_cons]
  refine covers_after ok g (hc t m) (hashedAll_mem m) r _ ?_ (fun t' m' => hc t' (by simp [m']))
    (fun t' m' => hashedAll_mem (by simp [m']))
  exact commit_covers ok (hc t m) (g.mono (hashedAll_mem m)) _

/-- reading at the root of a tree the store covers -/
theorem getRoot_covers (ok : HashOK c (4 * n)) {t : T Trie.Bytes} (ct : Committed n t) {σ : Store}
    (cv : Covers σ (pairsOf c n [] t)) (key : List Bool) (hk : key.length = 4 * n) :
    getRoot c σ (4 * n) (rootOf c (4 * n) t) key = .ok (get t key) := by
  refine getS_top ok hk n [] key t _ _ 0 ct.1 ct.2 (by simp) rfl cv ?_ ?_
  · intro e; subst e; rfl
  · intro hne
    have hl := hashT_ne_len ok (h := 4 * n) (p := []) hne
    have : rootOf c (4 * n) t = hashT c (4 * n) [] t := by cases t <;> simp_all [rootOf]
    rw [this]
    refine ⟨?_, List.take_of_length_le (by omega)⟩
    intro e; rw [e] at hl; simp at hl

/-! ### values of reachable tries -/

theorem look_mem {V : Type} : ∀ (kvs : List (KV V)) (k : List Bool) (ov : Option V), look kvs k = some ov → (k, ov) ∈ kvs := by
  intro kvs
  induction kvs with
  | nil => intro k ov h; simp [look] at h
  | cons kv rest ih =>
    intro k ov h
    obtain ⟨k', ov'⟩ := kv
    simp only [look] at h
    split at h
    · rename_i e; simp only [Option.some.injEq] at h; subst h; subst e; simp
    · exact List.mem_cons_of_mem _ (ih k ov h)

/-- every value a map built from batches returns was put by one of the batches (or was in the initial map) -/
theorem foldl_applyF_vals {V : Type} (P : V → Prop) : ∀ (bs : List (List (KV V))) (f : List Bool → Option V),
    (∀ k v, f k = some v → P v) → (∀ b ∈ bs, ∀ kv ∈ b, ∀ v, kv.2 = some v → P v) →
    ∀ k v, bs.foldl applyF f k = some v → P v := by
  intro bs
  induction bs with
  | nil => intro f hf _ k v h; exact hf k v h
  | cons b bs ih =>
    intro f hf hb
    simp only [List.foldl_cons]
    refine ih (applyF f b) ?_ (fun b' m => hb b' (List.mem_cons_of_mem _ m))
    intro k v h
    simp only [applyF] at h
    cases hl : look b k with
    | none => rw [hl] at h; exact hf k v h
    | some ov =>
      rw [hl] at h
      simp only at h
      exact hb b (by simp) (k, ov) (look_mem b k ov hl) v h

theorem vals32_of_get : ∀ (t : T Trie.Bytes) (h : Nat), Canon h t →
    (∀ k v, k.length = h → get t k = some v → v.length = 32) → Vals32 t := by
  intro t
  induction t with
  | empty => intro _ _ _; trivial
  | leaf k v => intro h cn hg; exact hg k v (by simpa [Canon] using cn) (by simp [Trie.get])
  | node l r ihl ihr =>
    intro h cn hg
    obtain ⟨h1, cl⟩ := canon_child cn false
    obtain ⟨_, cr⟩ := canon_child cn true
    exact ⟨ihl (h - 1) cl (fun k v hk e => hg (false :: k) v (by simp; omega) (by simpa [Trie.get] using e)),
      ihr (h - 1) cr (fun k v hk e => hg (true :: k) v (by simp; omega) (by simpa [Trie.get] using e))⟩

end Aergo.TrieStore
