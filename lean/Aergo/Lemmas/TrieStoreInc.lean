/-
`updatedNodes` bookkeeping (C10), second part: what one `Update` leaves in `updatedNodes` is enough for
the next commit. For a call of `updU` on a canonical subtree:
  * `genuine` — every recorded entry is the (hash, batch) pair of some canonical subtree,
  * `present` — every batch root of the NEW subtree is recorded, unless its key is the key of a batch
                root of the OLD subtree (then the store already holds it: content addressing),
  * `frame`   — entries recorded before the call survive it, unless their key is the key of an old
                batch root or the hash of one of the new subtree's shortcuts at some height.
The hash function is assumed good (`HashGoodOn`) on an explicit finite list `L` and never to return
the all-zero key on it (`deleteOldNode(nil)` deletes that key).
-/
import Aergo.Lemmas.TrieStoreUpd

namespace Aergo.TrieStore
open Aergo.Trie Aergo.TrieBatch

variable {c : HashCtx} {Ht : Nat} {L : List Trie.Bytes}

/-! ### batch roots of a subtree at any height -/

/-- the (hash, batch) pairs of the batch roots inside the subtree `t` at height `h` (any `h`) -/
def pairsAt (c : HashCtx) : Nat → List Bool → T Trie.Bytes → List (Trie.Bytes × Trie.Bytes)
  | _, _, .empty => []
  | h, p, .leaf k v => if h % 4 = 0 then [(hashT c h p (.leaf k v), batchVal c h p (.leaf k v))] else []
  | h, p, .node l r =>
    (if h % 4 = 0 then [(hashT c h p (.node l r), batchVal c h p (.node l r))] else []) ++
      (pairsAt c (h - 1) (p ++ [false]) l ++ pairsAt c (h - 1) (p ++ [true]) r)

theorem pairsAt_descend : ∀ (q : List Bool) (h : Nat) (p : List Bool) (t s : T Trie.Bytes),
    descend t q = some s → ∀ kv ∈ pairsAt c (h - q.length) (p ++ q) s, kv ∈ pairsAt c h p t := by
  intro q
  induction q with
  | nil => intro h p t s hd kv hkv; simp only [descend, Option.some.injEq] at hd; subst hd; simpa using hkv
  | cons b bs ih =>
    intro h p t s hd kv hkv
    cases t with
    | empty => simp [descend] at hd
    | leaf k v => simp [descend] at hd
    | node l r =>
      simp only [descend] at hd
      have e : h - (b :: bs).length = h - 1 - bs.length := by simp; omega
      rw [e] at hkv
      have hkv' : kv ∈ pairsAt c (h - 1 - bs.length) (p ++ [b] ++ bs) s := by simpa using hkv
      have := ih (h - 1) (p ++ [b]) _ s hd kv hkv'
      simp only [pairsAt, List.mem_append]
      right
      cases b
      · exact Or.inl (by simpa using this)
      · exact Or.inr (by simpa using this)

theorem pairsOf_sub_pairsAt : ∀ (n : Nat) (p : List Bool) (t : T Trie.Bytes), Canon (4 * n) t → Vals32 t →
    ∀ kv ∈ pairsOf c n p t, kv ∈ pairsAt c (4 * n) p t := by
  intro n
  induction n with
  | zero =>
    intro p t cn v32 kv hkv
    cases t with
    | empty => simp [pairsOf] at hkv
    | leaf k v => simpa [pairsOf, pairsAt, batchVal] using hkv
    | node l r => exact absurd cn (by simp [Canon])
  | succ n ih =>
    intro p t cn v32 kv hkv
    have h4 : 4 * (n + 1) % 4 = 0 := by omega
    cases t with
    | empty => simp [pairsOf] at hkv
    | leaf k v =>
      simp only [pairsOf, List.mem_cons, List.mem_flatMap] at hkv
      rcases hkv with rfl | ⟨q, hq, hm⟩
      · simp [pairsAt, h4, batchVal]
      · have := pathsN_length 4 q hq
        cases q with
        | nil => simp at this
        | cons _ _ => simp [descend] at hm
    | node l r =>
      simp only [pairsOf, List.mem_cons, List.mem_flatMap] at hkv
      rcases hkv with rfl | ⟨q, hq, hm⟩
      · simp [pairsAt, h4, batchVal]
      · have ql := pathsN_length 4 q hq
        cases hd : descend (T.node l r) q with
        | none => simp [hd] at hm
        | some s =>
          simp only [hd] at hm
          obtain ⟨_, cs, vs, _⟩ := descend_sub (c := c) q (4 * (n + 1)) p _ s hd cn v32
          have e : 4 * (n + 1) - q.length = 4 * n := by omega
          rw [e] at cs
          have := ih (p ++ q) s cs vs kv hm
          rw [← e] at this
          exact pairsAt_descend q (4 * (n + 1)) p _ s hd kv this

/-! ### genuine entries -/

/-- an entry that is the (hash, batch) pair of a canonical non-empty subtree somewhere below the path `p0`,
all of whose hashed strings are in `L` -/
def GenuineUnder (c : HashCtx) (Ht : Nat) (L : List Trie.Bytes) (p0 : List Bool) (e : Trie.Bytes × Trie.Bytes) : Prop :=
  ∃ h q s, s ≠ T.empty ∧ Canon h s ∧ Vals32 s ∧ (p0 ++ q).length + h = Ht ∧ (∀ x ∈ hashedT c h (p0 ++ q) s, x ∈ L) ∧
    e = (hashT c h (p0 ++ q) s, batchVal c h (p0 ++ q) s)

abbrev Genuine (c : HashCtx) (Ht : Nat) (L : List Trie.Bytes) (e : Trie.Bytes × Trie.Bytes) : Prop := GenuineUnder c Ht L [] e

theorem GenuineUnder.weaken {p0 : List Bool} {e : Trie.Bytes × Trie.Bytes} (g : GenuineUnder c Ht L p0 e) : Genuine c Ht L e := by
  obtain ⟨h, q, s, a1, a2, a3, a4, a5, a6⟩ := g
  exact ⟨h, p0 ++ q, s, a1, a2, a3, by simpa using a4, by simpa using a5, by simpa using a6⟩

theorem GenuineUnder.extend {p0 : List Bool} {b : Bool} {e : Trie.Bytes × Trie.Bytes} (g : GenuineUnder c Ht L (p0 ++ [b]) e) :
    GenuineUnder c Ht L p0 e := by
  obtain ⟨h, q, s, a1, a2, a3, a4, a5, a6⟩ := g
  exact ⟨h, b :: q, s, a1, a2, a3, by simpa using a4, by simpa using a5, by simpa using a6⟩

/-- content addressing: genuine entries with the same key have the same value -/
theorem genuine_unique (ok : HashOK c Ht) (g : HashGoodOn c.H L) {e1 e2 : Trie.Bytes × Trie.Bytes}
    (g1 : Genuine c Ht L e1) (g2 : Genuine c Ht L e2) (hk : e1.1 = e2.1) : e1.2 = e2.2 := by
  obtain ⟨h1, q1, s1, _, a2, a3, a4, a5, rfl⟩ := g1
  obtain ⟨h2, q2, s2, _, b2, b3, b4, b5, rfl⟩ := g2
  obtain ⟨k1, _, k3⟩ := same_hash_same_layout ok g s1 h1 ([] ++ q1) h2 ([] ++ q2) s2 a2 a3 a4 b2 b3 b4 a5 b5 hk
  simp only [batchVal, batchOf_eq_of_layout k1 k3]

theorem genuine_key {e : Trie.Bytes × Trie.Bytes} (g1 : Genuine c Ht L e) : ∃ x ∈ L, e.1 = c.H x := by
  obtain ⟨h, q, s, a1, _, _, _, a5, rfl⟩ := g1
  obtain ⟨x, hx, e⟩ := hashT_is_hash (c := c) h ([] ++ q) s a1
  exact ⟨x, a5 x hx, e⟩

/-- the pairs of a canonical subtree are genuine, below its own path -/
theorem pairsAt_genuine : ∀ (t : T Trie.Bytes) (h : Nat) (p : List Bool), Canon h t → Vals32 t → p.length + h = Ht →
    (∀ x ∈ hashedT c h p t, x ∈ L) → ∀ kv ∈ pairsAt c h p t, GenuineUnder c Ht L p kv := by
  intro t
  induction t with
  | empty => intro h p _ _ _ _ kv hkv; simp [pairsAt] at hkv
  | leaf k v =>
    intro h p cn v32 hp hL kv hkv
    simp only [pairsAt] at hkv
    split at hkv
    · simp only [List.mem_singleton] at hkv
      exact ⟨h, [], _, by simp, cn, v32, by simpa using hp, by simpa using hL, by simpa using hkv⟩
    · simp at hkv
  | node l r ihl ihr =>
    intro h p cn v32 hp hL kv hkv
    simp only [pairsAt, List.mem_append] at hkv
    obtain ⟨h1, cl⟩ := canon_child cn false
    obtain ⟨_, cr⟩ := canon_child cn true
    rcases hkv with hkv | hkv | hkv
    · split at hkv
      · simp only [List.mem_singleton] at hkv
        exact ⟨h, [], _, by simp, cn, v32, by simpa using hp, by simpa using hL, by simpa using hkv⟩
      · simp at hkv
    · exact (ihl (h - 1) (p ++ [false]) cl v32.1 (by simp; omega) (fun x hx => hL x (hashedT_node_mem false x hx)) kv hkv).extend
    · exact (ihr (h - 1) (p ++ [true]) cr v32.2 (by simp; omega) (fun x hx => hL x (hashedT_node_mem true x hx)) kv hkv).extend

/-! ### `updatedNodes` operations -/

theorem mem_delU {un : UN} {root : Trie.Bytes} {e : Trie.Bytes × Trie.Bytes} :
    e ∈ delU un root ↔ e ∈ un ∧ e.1 ≠ nodeKey root := by
  simp [delU]

theorem mem_setU {un : UN} {k v : Trie.Bytes} {e : Trie.Bytes × Trie.Bytes} :
    e ∈ setU un k v ↔ e = (k, v) ∨ (e ∈ un ∧ e.1 ≠ k) := by
  simp [setU]

theorem nodeKey_of_ne {root : Trie.Bytes} (h : root ≠ []) : nodeKey root = root := by
  cases root <;> simp_all [nodeKey]

theorem mem_storeNodeU {val : ValFn} {un : UN} {h : Nat} {p : List Bool} {new : T Trie.Bytes} {old : Trie.Bytes}
    {e : Trie.Bytes × Trie.Bytes} (he : e ∈ storeNodeU c val un h p new old) :
    e = (hashT c h p new, val h p new) ∨ e ∈ un := by
  simp only [storeNodeU] at he
  split at he
  · rcases mem_setU.mp he with h1 | h1
    · exact Or.inl h1
    · exact Or.inr h1.1
  · rcases mem_setU.mp (mem_delU.mp he).1 with h1 | h1
    · exact Or.inl h1
    · exact Or.inr h1.1

/-- the new entry is recorded (its key is not the all-zero key) -/
theorem storeNodeU_new {val : ValFn} (un : UN) (h : Nat) (p : List Bool) (new : T Trie.Bytes) (old : Trie.Bytes)
    (hz : hashT c h p new ≠ zeroKey) : (hashT c h p new, val h p new) ∈ storeNodeU c val un h p new old := by
  simp only [storeNodeU]
  split
  · exact mem_setU.mpr (Or.inl rfl)
  · rename_i hne
    refine mem_delU.mpr ⟨mem_setU.mpr (Or.inl rfl), ?_⟩
    by_cases ho : old = []
    · subst ho; simpa [nodeKey] using hz
    · rw [nodeKey_of_ne ho]
      intro e
      apply hne
      have : old.isEmpty = false := by cases old <;> simp_all
      have e' : hashT c h p new = old := e
      simp [this, e']

/-- an older entry survives `storeNode` unless it has the new key or the old root's key -/
theorem storeNodeU_keep {val : ValFn} {un : UN} {h : Nat} {p : List Bool} {new : T Trie.Bytes} {old : Trie.Bytes}
    {e : Trie.Bytes × Trie.Bytes} (he : e ∈ un) :
    e ∈ storeNodeU c val un h p new old ∨ e.1 = hashT c h p new ∨ e.1 = nodeKey old := by
  by_cases h1 : e.1 = hashT c h p new
  · exact Or.inr (Or.inl h1)
  by_cases h2 : e.1 = nodeKey old
  · exact Or.inr (Or.inr h2)
  left
  simp only [storeNodeU]
  split
  · exact mem_setU.mpr (Or.inr ⟨he, h1⟩)
  · exact mem_delU.mpr ⟨mem_setU.mpr (Or.inr ⟨he, h1⟩), h2⟩

/-! ### shortcut strings -/

/-- the (full key, value) pairs of a subtree below the path `p` -/
def leavesOf : List Bool → T Trie.Bytes → List (List Bool × Trie.Bytes)
  | _, .empty => []
  | p, .leaf k v => [(p ++ k, v)]
  | p, .node l r => leavesOf (p ++ [false]) l ++ leavesOf (p ++ [true]) r

/-- the byte strings `leafHash` would hash for the shortcuts of `t`, at every height up to `Ht` -/
def leafStrs (c : HashCtx) (Ht : Nat) (p : List Bool) (t : T Trie.Bytes) : List Trie.Bytes :=
  (leavesOf p t).flatMap fun kv => (List.range (Ht + 1)).map fun h' => c.enc kv.1 ++ kv.2 ++ [byteOf h']

/-- what has to be in `L` for a subtree: its hashed strings and its shortcut strings -/
def Closed (c : HashCtx) (Ht : Nat) (L : List Trie.Bytes) (h : Nat) (p : List Bool) (t : T Trie.Bytes) : Prop :=
  (∀ x ∈ hashedT c h p t, x ∈ L) ∧ (∀ x ∈ leafStrs c Ht p t, x ∈ L)

theorem leafStrs_node (p : List Bool) (l r : T Trie.Bytes) (x : Trie.Bytes) :
    x ∈ leafStrs c Ht p (.node l r) ↔ x ∈ leafStrs c Ht (p ++ [false]) l ∨ x ∈ leafStrs c Ht (p ++ [true]) r := by
  simp [leafStrs, leavesOf, List.mem_flatMap]

theorem Closed.child {h : Nat} {p : List Bool} {l r : T Trie.Bytes} (cl : Closed c Ht L h p (.node l r)) (b : Bool) :
    Closed c Ht L (h - 1) (p ++ [b]) (if b then r else l) := by
  refine ⟨fun x hx => cl.1 x (hashedT_node_mem b x hx), fun x hx => cl.2 x ?_⟩
  rw [leafStrs_node]
  cases b
  · exact Or.inl hx
  · exact Or.inr hx

/-- a shortcut that has moved up one level: the strings of the child are strings of the parent -/
theorem Closed.moved {h : Nat} {p : List Bool} {b : Bool} {k : List Bool} {v : Trie.Bytes} (hh : 1 ≤ h) (hle : h ≤ Ht)
    (cl : Closed c Ht L h p (.leaf (b :: k) v)) : Closed c Ht L (h - 1) (p ++ [b]) (.leaf k v) := by
  have same : ∀ x, x ∈ leafStrs c Ht (p ++ [b]) (.leaf k v) ↔ x ∈ leafStrs c Ht p (.leaf (b :: k) v) := by
    intro x; simp [leafStrs, leavesOf]
  refine ⟨fun x hx => cl.2 x ?_, fun x hx => cl.2 x ((same x).mp hx)⟩
  simp only [hashedT, List.mem_singleton] at hx
  subst hx
  simp only [leafStrs, leavesOf, List.flatMap_cons, List.flatMap_nil, List.append_nil, List.mem_map, List.mem_range]
  exact ⟨h - 1, by omega, by simp⟩

/-- hashes of the shortcut strings -/
def LeafK (c : HashCtx) (Ht : Nat) (p : List Bool) (t : T Trie.Bytes) : List Trie.Bytes := (leafStrs c Ht p t).map c.H

/-- standing assumptions on the hash function, relative to the explicit list `L` -/
structure Env (c : HashCtx) (Ht : Nat) (L : List Trie.Bytes) : Prop where
  ok : HashOK c Ht
  good : HashGoodOn c.H L
  /-- `deleteOldNode(nil)` deletes the all-zero key: no node may hash to it -/
  nz : ∀ x ∈ L, c.H x ≠ zeroKey

theorem genuine_ne_zero (env : Env c Ht L) {e : Trie.Bytes × Trie.Bytes} (g : Genuine c Ht L e) : e.1 ≠ zeroKey := by
  obtain ⟨x, hx, ex⟩ := genuine_key g
  rw [ex]; exact env.nz x hx

theorem leavesOf_spec : ∀ (t : T Trie.Bytes) (h : Nat) (p : List Bool), Canon h t → Vals32 t → p.length + h = Ht →
    ∀ kv ∈ leavesOf p t, kv.1.length = Ht ∧ kv.2.length = 32 ∧ ∃ rest, kv.1 = p ++ rest := by
  intro t
  induction t with
  | empty => intro h p _ _ _ kv hkv; simp [leavesOf] at hkv
  | leaf k v =>
    intro h p cn v32 hp kv hkv
    simp only [leavesOf, List.mem_singleton] at hkv
    subst hkv
    simp only [Canon] at cn
    exact ⟨by simp; omega, v32, k, rfl⟩
  | node l r ihl ihr =>
    intro h p cn v32 hp kv hkv
    obtain ⟨h1, cl⟩ := canon_child cn false
    obtain ⟨_, cr⟩ := canon_child cn true
    simp only [leavesOf, List.mem_append] at hkv
    rcases hkv with hkv | hkv
    · obtain ⟨a, b, rest, e⟩ := ihl (h - 1) (p ++ [false]) cl v32.1 (by simp; omega) kv hkv
      exact ⟨a, b, false :: rest, by simpa using e⟩
    · obtain ⟨a, b, rest, e⟩ := ihr (h - 1) (p ++ [true]) cr v32.2 (by simp; omega) kv hkv
      exact ⟨a, b, true :: rest, by simpa using e⟩

/-- **The two sides of a node do not interfere**: a batch root below `p ++ [b]` never has the hash of a shortcut
string of the other side. -/
theorem disjoint_sides (env : Env c Ht L) {p : List Bool} {b : Bool} {kv : Trie.Bytes × Trie.Bytes}
    (gu : GenuineUnder c Ht L (p ++ [b]) kv) {h2 : Nat} {t2 : T Trie.Bytes} (c2 : Canon h2 t2) (v2 : Vals32 t2)
    (l2 : (p ++ [!b]).length + h2 = Ht) (cl2 : ∀ x ∈ leafStrs c Ht (p ++ [!b]) t2, x ∈ L)
    (hk : kv.1 ∈ LeafK c Ht (p ++ [!b]) t2) : False := by
  obtain ⟨h', q, s, sne, cs, vs, ls, hL, rfl⟩ := gu
  simp only [LeafK, List.mem_map] at hk
  obtain ⟨x, hx, ex⟩ := hk
  have xL := cl2 x hx
  simp only [leafStrs, List.mem_flatMap, List.mem_map, List.mem_range] at hx
  obtain ⟨⟨fk, v⟩, hleaf, hh, _, rfl⟩ := hx
  obtain ⟨fkl, vl, rest, efk⟩ := leavesOf_spec t2 h2 (p ++ [!b]) c2 v2 l2 (fk, v) hleaf
  simp only at fkl vl efk
  obtain ⟨y, hy, ey⟩ := hashT_is_hash (c := c) h' (p ++ [b] ++ q) s sne
  have yx : y = c.enc fk ++ v ++ [byteOf hh] := env.good.inj y (hL y hy) _ xL (by rw [← ey]; exact ex.symm)
  cases s with
  | empty => exact sne rfl
  | leaf k' v' =>
    simp only [hashedT, List.mem_singleton] at hy
    subst hy
    have kl : (p ++ [b] ++ q ++ k').length = Ht := by
      simp only [Canon] at cs
      simp only [List.length_append] at ls ⊢
      omega
    have e1 := List.append_inj (List.append_inj' yx (by simp)).1 (by rw [env.ok.encLen _ kl, env.ok.encLen _ fkl])
    have := env.ok.encInj _ _ kl fkl e1.1
    rw [efk] at this
    simp only [List.append_assoc] at this
    have := List.append_cancel_left this
    cases b <;> simp at this
  | node l r =>
    simp only [hashedT, List.mem_cons] at hy
    have ylen : y.length ≤ 64 := by
      have := hashT_is_hash (c := c) h' (p ++ [b] ++ q) (T.node l r) sne
      rcases hy with rfl | hy
      · exact node_pre_len env.ok _ _ _ _ l r
      · -- `y` is the pre-image of the root: `ey` says `hashT … = H y`; the root's pre-image is the only candidate
        have : c.H y = c.H (hashT c (h' - 1) (p ++ [b] ++ q ++ [false]) l ++ hashT c (h' - 1) (p ++ [b] ++ q ++ [true]) r) := by
          rw [← ey]; rfl
        have := env.good.inj y (hL y (by simp [hashedT, hy])) _ (hL _ (by simp [hashedT])) this
        rw [this]
        exact node_pre_len env.ok _ _ _ _ l r
    have : y.length = 65 := by rw [yx]; simp [env.ok.encLen _ fkl, vl]
    omega

/-! ### the invariant of a call -/

/-- What a call (`updU` or one of its parts) guarantees about `updatedNodes`; `OK` are the keys of the old batch roots. -/
structure Inv (c : HashCtx) (Ht : Nat) (L : List Trie.Bytes) (h : Nat) (p : List Bool) (OK : Trie.Bytes → Prop)
    (un : UN) (r : ResU) : Prop where
  genuine : ∀ e ∈ r.2, e ∈ un ∨ Genuine c Ht L e
  present : ∀ kv ∈ pairsAt c h p r.1.1, kv ∈ r.2 ∨ OK kv.1
  frame : ∀ e ∈ un, Genuine c Ht L e → e ∈ r.2 ∨ OK e.1 ∨ e.1 ∈ LeafK c Ht p r.1.1

theorem Inv.mono {h : Nat} {p : List Bool} {OK OK' : Trie.Bytes → Prop} {un : UN} {r : ResU}
    (i : Inv c Ht L h p OK un r) (hm : ∀ k, OK k → OK' k) : Inv c Ht L h p OK' un r :=
  ⟨i.genuine, fun kv hkv => (i.present kv hkv).imp_right (hm _),
    fun e he ge => (i.frame e he ge).imp_right (Or.imp_left (hm _))⟩

end Aergo.TrieStore
