/-
`updatedNodes` bookkeeping (C10), second part: what one `Update` leaves in `updatedNodes` is enough for
the next commit. For a call of `updU` on a canonical subtree:
  * `genuine` — every recorded entry is the (hash, batch) pair of some canonical subtree,
  * `present` — every batch root of the NEW subtree is recorded, unless its key is the key of a batch
                root of the OLD subtree (then the store already holds it: content addressing),
  * `frame`   — entries recorded before the call survive it, unless their key is the key of an old
                batch root or the hash of one of the new subtree's shortcuts at some height.
The hash function is assumed good (`HashGoodOn`) on an explicit finite list `L` and never to return
the all-zero key on it (`deleteOldNode(nil)` deletes that key).
-/
import Aergo.Lemmas.TrieStoreUpd

namespace Aergo.TrieStore
open Aergo.Trie Aergo.TrieBatch

variable {c : HashCtx} {Ht : Nat} {L : List Trie.Bytes}

/-! ### batch roots of a subtree at any height -/

/-- the (hash, batch) pairs of the batch roots inside the subtree `t` at height `h` (any `h`) -/
def pairsAt (c : HashCtx) : Nat → List Bool → T Trie.Bytes → List (Trie.Bytes × Trie.Bytes)
  | _, _, .empty => []
  | h, p, .leaf k v => if h % 4 = 0 then [(hashT c h p (.leaf k v), batchVal c h p (.leaf k v))] else []
  | h, p, .node l r =>
    (if h % 4 = 0 then [(hashT c h p (.node l r), batchVal c h p (.node l r))] else []) ++
      (pairsAt c (h - 1) (p ++ [false]) l ++ pairsAt c (h - 1) (p ++ [true]) r)

theorem pairsAt_descend : ∀ (q : List Bool) (h : Nat) (p : List Bool) (t s : T Trie.Bytes),
    descend t q = some s → ∀ kv ∈ pairsAt c (h - q.length) (p ++ q) s, kv ∈ pairsAt c h p t := by
  intro q
  induction q with
  | nil => intro h p t s hd kv hkv; simp only [descend, Option.some.injEq] at hd; subst hd; simpa using hkv
  | cons b bs ih =>
    intro h p t s hd kv hkv
    cases t with
    | empty => simp [descend] at hd
    | leaf k v => simp [descend] at hd
    | node l r =>
      simp only [descend] at hd
      have e : h - (b :: bs).length = h - 1 - bs.length := by simp; omega
      rw [e] at hkv
      have hkv' : kv ∈ pairsAt c (h - 1 - bs.length) (p ++ [b] ++ bs) s := by simpa using hkv
      have := ih (h - 1) (p ++ [b]) _ s hd kv hkv'
      simp only [pairsAt, List.mem_append]
      right
      cases b
      · exact Or.inl (by simpa using this)
      · exact Or.inr (by simpa using this)

theorem pairsOf_sub_pairsAt : ∀ (n : Nat) (p : List Bool) (t : T Trie.Bytes), Canon (4 * n) t → Vals32 t →
    ∀ kv ∈ pairsOf c n p t, kv ∈ pairsAt c (4 * n) p t := by
  intro n
  induction n with
  | zero =>
    intro p t cn v32 kv hkv
    cases t with
    | empty => simp [pairsOf] at hkv
    | leaf k v => simpa [pairsOf, pairsAt, batchVal] using hkv
    | node l r => exact absurd cn (by simp [Canon])
  | succ n ih =>
    intro p t cn v32 kv hkv
    have h4 : 4 * (n + 1) % 4 = 0 := by omega
    cases t with
    | empty => simp [pairsOf] at hkv
    | leaf k v =>
      simp only [pairsOf, List.mem_cons, List.mem_flatMap] at hkv
      rcases hkv with rfl | ⟨q, hq, hm⟩
      · simp [pairsAt, h4, batchVal]
      · have := pathsN_length 4 q hq
        cases q with
        | nil => simp at this
        | cons _ _ => simp [descend] at hm
    | node l r =>
      simp only [pairsOf, List.mem_cons, List.mem_flatMap] at hkv
      rcases hkv with rfl | ⟨q, hq, hm⟩
      · simp [pairsAt, h4, batchVal]
      · have ql := pathsN_length 4 q hq
        cases hd : descend (T.node l r) q with
        | none => simp [hd] at hm
        | some s =>
          simp only [hd] at hm
          obtain ⟨_, cs, vs, _⟩ := descend_sub (c := c) q (4 * (n + 1)) p _ s hd cn v32
          have e : 4 * (n + 1) - q.length = 4 * n := by omega
          rw [e] at cs
          have := ih (p ++ q) s cs vs kv hm
          rw [← e] at this
          exact pairsAt_descend q (4 * (n + 1)) p _ s hd kv this

/-! ### genuine entries -/

/-- an entry that is the (hash, batch) pair of a canonical non-empty subtree somewhere below the path `p0`,
all of whose hashed strings are in `L` -/
def GenuineUnder (c : HashCtx) (Ht : Nat) (L : List Trie.Bytes) (p0 : List Bool) (e : Trie.Bytes × Trie.Bytes) : Prop :=
  ∃ h q s, s ≠ T.empty ∧ Canon h s ∧ Vals32 s ∧ (p0 ++ q).length + h = Ht ∧ (∀ x ∈ hashedT c h (p0 ++ q) s, x ∈ L) ∧
    e = (hashT c h (p0 ++ q) s, batchVal c h (p0 ++ q) s)

abbrev Genuine (c : HashCtx) (Ht : Nat) (L : List Trie.Bytes) (e : Trie.Bytes × Trie.Bytes) : Prop := GenuineUnder c Ht L [] e

theorem GenuineUnder.weaken {p0 : List Bool} {e : Trie.Bytes × Trie.Bytes} (g : GenuineUnder c Ht L p0 e) : Genuine c Ht L e := by
  obtain ⟨h, q, s, a1, a2, a3, a4, a5, a6⟩ := g
  exact ⟨h, p0 ++ q, s, a1, a2, a3, by simpa using a4, by simpa using a5, by simpa using a6⟩

theorem GenuineUnder.extend {p0 : List Bool} {b : Bool} {e : Trie.Bytes × Trie.Bytes} (g : GenuineUnder c Ht L (p0 ++ [b]) e) :
    GenuineUnder c Ht L p0 e := by
  obtain ⟨h, q, s, a1, a2, a3, a4, a5, a6⟩ := g
  exact ⟨h, b :: q, s, a1, a2, a3, by simpa using a4, by simpa using a5, by simpa using a6⟩

/-- content addressing: genuine entries with the same key have the same value -/
theorem genuine_unique (ok : HashOK c Ht) (g : HashGoodOn c.H L) {e1 e2 : Trie.Bytes × Trie.Bytes}
    (g1 : Genuine c Ht L e1) (g2 : Genuine c Ht L e2) (hk : e1.1 = e2.1) : e1.2 = e2.2 := by
  obtain ⟨h1, q1, s1, _, a2, a3, a4, a5, rfl⟩ := g1
  obtain ⟨h2, q2, s2, _, b2, b3, b4, b5, rfl⟩ := g2
  obtain ⟨k1, _, k3⟩ := same_hash_same_layout ok g s1 h1 ([] ++ q1) h2 ([] ++ q2) s2 a2 a3 a4 b2 b3 b4 a5 b5 hk
  simp only [batchVal, batchOf_eq_of_layout k1 k3]

theorem genuine_key {e : Trie.Bytes × Trie.Bytes} (g1 : Genuine c Ht L e) : ∃ x ∈ L, e.1 = c.H x := by
  obtain ⟨h, q, s, a1, _, _, _, a5, rfl⟩ := g1
  obtain ⟨x, hx, e⟩ := hashT_is_hash (c := c) h ([] ++ q) s a1
  exact ⟨x, a5 x hx, e⟩

/-- the pairs of a canonical subtree are genuine, below its own path -/
theorem pairsAt_genuine : ∀ (t : T Trie.Bytes) (h : Nat) (p : List Bool), Canon h t → Vals32 t → p.length + h = Ht →
    (∀ x ∈ hashedT c h p t, x ∈ L) → ∀ kv ∈ pairsAt c h p t, GenuineUnder c Ht L p kv := by
  intro t
  induction t with
  | empty => intro h p _ _ _ _ kv hkv; simp [pairsAt] at hkv
  | leaf k v =>
    intro h p cn v32 hp hL kv hkv
    simp only [pairsAt] at hkv
    split at hkv
    · simp only [List.mem_singleton] at hkv
      exact ⟨h, [], _, by simp, cn, v32, by simpa using hp, by simpa using hL, by simpa using hkv⟩
    · simp at hkv
  | node l r ihl ihr =>
    intro h p cn v32 hp hL kv hkv
    simp only [pairsAt, List.mem_append] at hkv
    obtain ⟨h1, cl⟩ := canon_child cn false
    obtain ⟨_, cr⟩ := canon_child cn true
    rcases hkv with hkv | hkv | hkv
    · split at hkv
      · simp only [List.mem_singleton] at hkv
        exact ⟨h, [], _, by simp, cn, v32, by simpa using hp, by simpa using hL, by simpa using hkv⟩
      · simp at hkv
    · exact (ihl (h - 1) (p ++ [false]) cl v32.1 (by simp; omega) (fun x hx => hL x (hashedT_node_mem false x hx)) kv hkv).extend
    · exact (ihr (h - 1) (p ++ [true]) cr v32.2 (by simp; omega) (fun x hx => hL x (hashedT_node_mem true x hx)) kv hkv).extend

/-! ### `updatedNodes` operations -/

theorem mem_delU {un : UN} {root : Trie.Bytes} {e : Trie.Bytes × Trie.Bytes} :
    e ∈ delU un root ↔ e ∈ un ∧ e.1 ≠ nodeKey root := by
  simp [delU]

theorem mem_setU {un : UN} {k v : Trie.Bytes} {e : Trie.Bytes × Trie.Bytes} :
    e ∈ setU un k v ↔ e = (k, v) ∨ (e ∈ un ∧ e.1 ≠ k) := by
  simp [setU]

theorem nodeKey_of_ne {root : Trie.Bytes} (h : root ≠ []) : nodeKey root = root := by
  cases root <;> simp_all [nodeKey]

theorem mem_storeNodeU {val : ValFn} {un : UN} {h : Nat} {p : List Bool} {new : T Trie.Bytes} {old : Trie.Bytes}
    {e : Trie.Bytes × Trie.Bytes} (he : e ∈ storeNodeU c val un h p new old) :
    e = (hashT c h p new, val h p new) ∨ e ∈ un := by
  simp only [storeNodeU] at he
  split at he
  · rcases mem_setU.mp he with h1 | h1
    · exact Or.inl h1
    · exact Or.inr h1.1
  · rcases mem_setU.mp (mem_delU.mp he).1 with h1 | h1
    · exact Or.inl h1
    · exact Or.inr h1.1

/-- the new entry is recorded (its key is not the all-zero key) -/
theorem storeNodeU_new {val : ValFn} (un : UN) (h : Nat) (p : List Bool) (new : T Trie.Bytes) (old : Trie.Bytes)
    (hz : hashT c h p new ≠ zeroKey) : (hashT c h p new, val h p new) ∈ storeNodeU c val un h p new old := by
  simp only [storeNodeU]
  split
  · exact mem_setU.mpr (Or.inl rfl)
  · rename_i hne
    refine mem_delU.mpr ⟨mem_setU.mpr (Or.inl rfl), ?_⟩
    by_cases ho : old = []
    · subst ho; simpa [nodeKey] using hz
    · rw [nodeKey_of_ne ho]
      intro e
      apply hne
      have : old.isEmpty = false := by cases old <;> simp_all
      have e' : hashT c h p new = old := e
      simp [this, e']

/-- an older entry survives `storeNode` unless it has the new key or the old root's key -/
theorem storeNodeU_keep {val : ValFn} {un : UN} {h : Nat} {p : List Bool} {new : T Trie.Bytes} {old : Trie.Bytes}
    {e : Trie.Bytes × Trie.Bytes} (he : e ∈ un) :
    e ∈ storeNodeU c val un h p new old ∨ e.1 = hashT c h p new ∨ e.1 = nodeKey old := by
  by_cases h1 : e.1 = hashT c h p new
  · exact Or.inr (Or.inl h1)
  by_cases h2 : e.1 = nodeKey old
  · exact Or.inr (Or.inr h2)
  left
  simp only [storeNodeU]
  split
  · exact mem_setU.mpr (Or.inr ⟨he, h1⟩)
  · exact mem_delU.mpr ⟨mem_setU.mpr (Or.inr ⟨he, h1⟩), h2⟩

/-! ### shortcut strings -/

/-- the (full key, value) pairs of a subtree below the path `p` -/
def leavesOf : List Bool → T Trie.Bytes → List (List Bool × Trie.Bytes)
  | _, .empty => []
  | p, .leaf k v => [(p ++ k, v)]
  | p, .node l r => leavesOf (p ++ [false]) l ++ leavesOf (p ++ [true]) r

/-- the byte strings `leafHash` would hash for the shortcuts of `t`, at every height up to `Ht` -/
def leafStrs (c : HashCtx) (Ht : Nat) (p : List Bool) (t : T Trie.Bytes) : List Trie.Bytes :=
  (leavesOf p t).flatMap fun kv => (List.range (Ht + 1)).map fun h' => c.enc kv.1 ++ kv.2 ++ [byteOf h']

/-- what has to be in `L` for a subtree: its hashed strings and its shortcut strings -/
def Closed (c : HashCtx) (Ht : Nat) (L : List Trie.Bytes) (h : Nat) (p : List Bool) (t : T Trie.Bytes) : Prop :=
  (∀ x ∈ hashedT c h p t, x ∈ L) ∧ (∀ x ∈ leafStrs c Ht p t, x ∈ L)

theorem leafStrs_node (p : List Bool) (l r : T Trie.Bytes) (x : Trie.Bytes) :
    x ∈ leafStrs c Ht p (.node l r) ↔ x ∈ leafStrs c Ht (p ++ [false]) l ∨ x ∈ leafStrs c Ht (p ++ [true]) r := by
  simp [leafStrs, leavesOf, List.mem_flatMap]

theorem Closed.child {h : Nat} {p : List Bool} {l r : T Trie.Bytes} (cl : Closed c Ht L h p (.node l r)) (b : Bool) :
    Closed c Ht L (h - 1) (p ++ [b]) (if b then r else l) := by
  refine ⟨fun x hx => cl.1 x (hashedT_node_mem b x hx), fun x hx => cl.2 x ?_⟩
  rw [leafStrs_node]
  cases b
  · exact Or.inl hx
  · exact Or.inr hx

/-- a shortcut that has moved up one level: the strings of the child are strings of the parent -/
theorem Closed.moved {h : Nat} {p : List Bool} {b : Bool} {k : List Bool} {v : Trie.Bytes} (hh : 1 ≤ h) (hle : h ≤ Ht)
    (cl : Closed c Ht L h p (.leaf (b :: k) v)) : Closed c Ht L (h - 1) (p ++ [b]) (.leaf k v) := by
  have same : ∀ x, x ∈ leafStrs c Ht (p ++ [b]) (.leaf k v) ↔ x ∈ leafStrs c Ht p (.leaf (b :: k) v) := by
    intro x; simp [leafStrs, leavesOf]
  refine ⟨fun x hx => cl.2 x ?_, fun x hx => cl.2 x ((same x).mp hx)⟩
  simp only [hashedT, List.mem_singleton] at hx
  subst hx
  simp only [leafStrs, leavesOf, List.flatMap_cons, List.flatMap_nil, List.append_nil, List.mem_map, List.mem_range]
  exact ⟨h - 1, by omega, by simp⟩

end Aergo.TrieStore
