/-
`updatedNodes` bookkeeping (C10), second part: what one `Update` leaves in `updatedNodes` is enough for
the next commit. For a call of `updU` on a canonical subtree:
  * `genuine` — every recorded entry is the (hash, batch) pair of some canonical subtree,
  * `present` — every batch root of the NEW subtree is recorded, unless its key is the key of a batch
                root of the OLD subtree (then the store already holds it: content addressing),
  * `frame`   — entries recorded before the call survive it, unless their key is the key of an old
                batch root or the hash of one of the new subtree's shortcuts at some height.
The hash function is assumed good (`HashGoodOn`) on an explicit finite list `L` and never to return
the all-zero key on it (`deleteOldNode(nil)` deletes that key).
-/
import Aergo.Lemmas.TrieStoreUpd

namespace Aergo.TrieStore
open Aergo.Trie Aergo.TrieBatch

variable {c : HashCtx} {Ht : Nat} {L : List Trie.Bytes}

/-! ### batch roots of a subtree at any height -/

/-- the (hash, batch) pairs of the batch roots inside the subtree `t` at height `h` (any `h`) -/
def pairsAt (c : HashCtx) : Nat → List Bool → T Trie.Bytes → List (Trie.Bytes × Trie.Bytes)
  | _, _, .empty => []
  | h, p, .leaf k v => if h % 4 = 0 then [(hashT c h p (.leaf k v), batchVal c h p (.leaf k v))] else []
  | h, p, .node l r =>
    (if h % 4 = 0 then [(hashT c h p (.node l r), batchVal c h p (.node l r))] else []) ++
      (pairsAt c (h - 1) (p ++ [false]) l ++ pairsAt c (h - 1) (p ++ [true]) r)

theorem pairsAt_descend : ∀ (q : List Bool) (h : Nat) (p : List Bool) (t s : T Trie.Bytes),
    descend t q = some s → ∀ kv ∈ pairsAt c (h - q.length) (p ++ q) s, kv ∈ pairsAt c h p t := by
  intro q
  induction q with
  | nil => intro h p t s hd kv hkv; simp only [descend, Option.some.injEq] at hd; subst hd; simpa using hkv
  | cons b bs ih =>
    intro h p t s hd kv hkv
    cases t with
    | empty => simp [descend] at hd
    | leaf k v => simp [descend] at hd
    | node l r =>
      simp only [descend] at hd
      have e : h - (b :: bs).length = h - 1 - bs.length := by simp; omega
      rw [e] at hkv
      have hkv' : kv ∈ pairsAt c (h - 1 - bs.length) (p ++ [b] ++ bs) s := by simpa using hkv
      have := ih (h - 1) (p ++ [b]) _ s hd kv hkv'
      simp only [pairsAt, List.mem_append]
      right
      cases b
      · exact Or.inl (by simpa using this)
      · exact Or.inr (by simpa using this)

theorem pairsOf_sub_pairsAt : ∀ (n : Nat) (p : List Bool) (t : T Trie.Bytes), Canon (4 * n) t → Vals32 t →
    ∀ kv ∈ pairsOf c n p t, kv ∈ pairsAt c (4 * n) p t := by
  intro n
  induction n with
  | zero =>
    intro p t cn v32 kv hkv
    cases t with
    | empty => simp [pairsOf] at hkv
    | leaf k v => simpa [pairsOf, pairsAt, batchVal] using hkv
    | node l r => exact absurd cn (by simp [Canon])
  | succ n ih =>
    intro p t cn v32 kv hkv
    have h4 : 4 * (n + 1) % 4 = 0 := by omega
    cases t with
    | empty => simp [pairsOf] at hkv
    | leaf k v =>
      simp only [pairsOf, List.mem_cons, List.mem_flatMap] at hkv
      rcases hkv with rfl | ⟨q, hq, hm⟩
      · simp [pairsAt, h4, batchVal]
      · have := pathsN_length 4 q hq
        cases q with
        | nil => simp at this
        | cons _ _ => simp [descend] at hm
    | node l r =>
      simp only [pairsOf, List.mem_cons, List.mem_flatMap] at hkv
      rcases hkv with rfl | ⟨q, hq, hm⟩
      · simp [pairsAt, h4, batchVal]
      · have ql := pathsN_length 4 q hq
        cases hd : descend (T.node l r) q with
        | none => simp [hd] at hm
        | some s =>
          simp only [hd] at hm
          obtain ⟨_, cs, vs, _⟩ := descend_sub (c := c) q (4 * (n + 1)) p _ s hd cn v32
          have e : 4 * (n + 1) - q.length = 4 * n := by omega
          rw [e] at cs
          have := ih (p ++ q) s cs vs kv hm
          rw [← e] at this
          exact pairsAt_descend q (4 * (n + 1)) p _ s hd kv this

/-! ### genuine entries -/

/-- an entry that is the (hash, batch) pair of a canonical non-empty subtree somewhere below the path `p0`,
all of whose hashed strings are in `L` -/
def GenuineUnder (c : HashCtx) (Ht : Nat) (L : List Trie.Bytes) (p0 : List Bool) (e : Trie.Bytes × Trie.Bytes) : Prop :=
  ∃ h q s, s ≠ T.empty ∧ Canon h s ∧ Vals32 s ∧ (p0 ++ q).length + h = Ht ∧ (∀ x ∈ hashedT c h (p0 ++ q) s, x ∈ L) ∧
    e = (hashT c h (p0 ++ q) s, batchVal c h (p0 ++ q) s)

abbrev Genuine (c : HashCtx) (Ht : Nat) (L : List Trie.Bytes) (e : Trie.Bytes × Trie.Bytes) : Prop := GenuineUnder c Ht L [] e

theorem GenuineUnder.weaken {p0 : List Bool} {e : Trie.Bytes × Trie.Bytes} (g : GenuineUnder c Ht L p0 e) : Genuine c Ht L e := by
  obtain ⟨h, q, s, a1, a2, a3, a4, a5, a6⟩ := g
  exact ⟨h, p0 ++ q, s, a1, a2, a3, by simpa using a4, by simpa using a5, by simpa using a6⟩

theorem GenuineUnder.extend {p0 : List Bool} {b : Bool} {e : Trie.Bytes × Trie.Bytes} (g : GenuineUnder c Ht L (p0 ++ [b]) e) :
    GenuineUnder c Ht L p0 e := by
  obtain ⟨h, q, s, a1, a2, a3, a4, a5, a6⟩ := g
  exact ⟨h, b :: q, s, a1, a2, a3, by simpa using a4, by simpa using a5, by simpa using a6⟩

/-- content addressing: genuine entries with the same key have the same value -/
theorem genuine_unique (ok : HashOK c Ht) (g : HashGoodOn c.H L) {e1 e2 : Trie.Bytes × Trie.Bytes}
    (g1 : Genuine c Ht L e1) (g2 : Genuine c Ht L e2) (hk : e1.1 = e2.1) : e1.2 = e2.2 := by
  obtain ⟨h1, q1, s1, _, a2, a3, a4, a5, rfl⟩ := g1
  obtain ⟨h2, q2, s2, _, b2, b3, b4, b5, rfl⟩ := g2
  obtain ⟨k1, _, k3⟩ := same_hash_same_layout ok g s1 h1 ([] ++ q1) h2 ([] ++ q2) s2 a2 a3 a4 b2 b3 b4 a5 b5 hk
  simp only [batchVal, batchOf_eq_of_layout k1 k3]

theorem genuine_key {e : Trie.Bytes × Trie.Bytes} (g1 : Genuine c Ht L e) : ∃ x ∈ L, e.1 = c.H x := by
  obtain ⟨h, q, s, a1, _, _, _, a5, rfl⟩ := g1
  obtain ⟨x, hx, e⟩ := hashT_is_hash (c := c) h ([] ++ q) s a1
  exact ⟨x, a5 x hx, e⟩

/-- the pairs of a canonical subtree are genuine, below its own path -/
theorem pairsAt_genuine : ∀ (t : T Trie.Bytes) (h : Nat) (p : List Bool), Canon h t → Vals32 t → p.length + h = Ht →
    (∀ x ∈ hashedT c h p t, x ∈ L) → ∀ kv ∈ pairsAt c h p t, GenuineUnder c Ht L p kv := by
  intro t
  induction t with
  | empty => intro h p _ _ _ _ kv hkv; simp [pairsAt] at hkv
  | leaf k v =>
    intro h p cn v32 hp hL kv hkv
    simp only [pairsAt] at hkv
    split at hkv
    · simp only [List.mem_singleton] at hkv
      exact ⟨h, [], _, by simp, cn, v32, by simpa using hp, by simpa using hL, by simpa using hkv⟩
    · simp at hkv
  | node l r ihl ihr =>
    intro h p cn v32 hp hL kv hkv
    simp only [pairsAt, List.mem_append] at hkv
    obtain ⟨h1, cl⟩ := canon_child cn false
    obtain ⟨_, cr⟩ := canon_child cn true
    rcases hkv with hkv | hkv | hkv
    · split at hkv
      · simp only [List.mem_singleton] at hkv
        exact ⟨h, [], _, by simp, cn, v32, by simpa using hp, by simpa using hL, by simpa using hkv⟩
      · simp at hkv
    · exact (ihl (h - 1) (p ++ [false]) cl v32.1 (by simp; omega) (fun x hx => hL x (hashedT_node_mem false x hx)) kv hkv).extend
    · exact (ihr (h - 1) (p ++ [true]) cr v32.2 (by simp; omega) (fun x hx => hL x (hashedT_node_mem true x hx)) kv hkv).extend

/-! ### `updatedNodes` operations -/

theorem mem_delU {un : UN} {root : Trie.Bytes} {e : Trie.Bytes × Trie.Bytes} :
    e ∈ delU un root ↔ e ∈ un ∧ e.1 ≠ nodeKey root := by
  simp [delU]

theorem mem_setU {un : UN} {k v : Trie.Bytes} {e : Trie.Bytes × Trie.Bytes} :
    e ∈ setU un k v ↔ e = (k, v) ∨ (e ∈ un ∧ e.1 ≠ k) := by
  simp [setU]

theorem nodeKey_of_ne {root : Trie.Bytes} (h : root ≠ []) : nodeKey root = root := by
  cases root <;> simp_all [nodeKey]

theorem mem_storeNodeU {val : ValFn} {un : UN} {h : Nat} {p : List Bool} {new : T Trie.Bytes} {old : Trie.Bytes}
    {e : Trie.Bytes × Trie.Bytes} (he : e ∈ storeNodeU c val un h p new old) :
    e = (hashT c h p new, val h p new) ∨ e ∈ un := by
  simp only [storeNodeU] at he
  split at he
  · rcases mem_setU.mp he with h1 | h1
    · exact Or.inl h1
    · exact Or.inr h1.1
  · rcases mem_setU.mp (mem_delU.mp he).1 with h1 | h1
    · exact Or.inl h1
    · exact Or.inr h1.1

/-- the new entry is recorded (its key is not the all-zero key) -/
theorem storeNodeU_new {val : ValFn} (un : UN) (h : Nat) (p : List Bool) (new : T Trie.Bytes) (old : Trie.Bytes)
    (hz : hashT c h p new ≠ zeroKey) : (hashT c h p new, val h p new) ∈ storeNodeU c val un h p new old := by
  simp only [storeNodeU]
  split
  · exact mem_setU.mpr (Or.inl rfl)
  · rename_i hne
    refine mem_delU.mpr ⟨mem_setU.mpr (Or.inl rfl), ?_⟩
    by_cases ho : old = []
    · subst ho; simpa [nodeKey] using hz
    · rw [nodeKey_of_ne ho]
      intro e
      apply hne
      have : old.isEmpty = false := by cases old <;> simp_all
      have e' : hashT c h p new = old := e
      simp [this, e']

/-- an older entry survives `storeNode` unless it has the new key or the old root's key -/
theorem storeNodeU_keep {val : ValFn} {un : UN} {h : Nat} {p : List Bool} {new : T Trie.Bytes} {old : Trie.Bytes}
    {e : Trie.Bytes × Trie.Bytes} (he : e ∈ un) :
    e ∈ storeNodeU c val un h p new old ∨ e.1 = hashT c h p new ∨ e.1 = nodeKey old := by
  by_cases h1 : e.1 = hashT c h p new
  · exact Or.inr (Or.inl h1)
  by_cases h2 : e.1 = nodeKey old
  · exact Or.inr (Or.inr h2)
  left
  simp only [storeNodeU]
  split
  · exact mem_setU.mpr (Or.inr ⟨he, h1⟩)
  · exact mem_delU.mpr ⟨mem_setU.mpr (Or.inr ⟨he, h1⟩), h2⟩

/-! ### shortcut strings -/

/-- the (full key, value) pairs of a subtree below the path `p` -/
def leavesOf : List Bool → T Trie.Bytes → List (List Bool × Trie.Bytes)
  | _, .empty => []
  | p, .leaf k v => [(p ++ k, v)]
  | p, .node l r => leavesOf (p ++ [false]) l ++ leavesOf (p ++ [true]) r

/-- the byte strings `leafHash` would hash for the shortcuts of `t`, at every height up to `Ht` -/
def leafStrs (c : HashCtx) (Ht : Nat) (p : List Bool) (t : T Trie.Bytes) : List Trie.Bytes :=
  (leavesOf p t).flatMap fun kv => (List.range (Ht + 1)).map fun h' => c.enc kv.1 ++ kv.2 ++ [byteOf h']

/-- what has to be in `L` for a subtree: its hashed strings and its shortcut strings -/
def Closed (c : HashCtx) (Ht : Nat) (L : List Trie.Bytes) (h : Nat) (p : List Bool) (t : T Trie.Bytes) : Prop :=
  (∀ x ∈ hashedT c h p t, x ∈ L) ∧ (∀ x ∈ leafStrs c Ht p t, x ∈ L)

theorem leafStrs_node (p : List Bool) (l r : T Trie.Bytes) (x : Trie.Bytes) :
    x ∈ leafStrs c Ht p (.node l r) ↔ x ∈ leafStrs c Ht (p ++ [false]) l ∨ x ∈ leafStrs c Ht (p ++ [true]) r := by
  simp [leafStrs, leavesOf, List.mem_flatMap]

theorem Closed.child {h : Nat} {p : List Bool} {l r : T Trie.Bytes} (cl : Closed c Ht L h p (.node l r)) (b : Bool) :
    Closed c Ht L (h - 1) (p ++ [b]) (if b then r else l) := by
  refine ⟨fun x hx => cl.1 x (hashedT_node_mem b x hx), fun x hx => cl.2 x ?_⟩
  rw [leafStrs_node]
  cases b
  · exact Or.inl hx
  · exact Or.inr hx

/-- a shortcut that has moved up one level: the strings of the child are strings of the parent -/
theorem Closed.moved {h : Nat} {p : List Bool} {b : Bool} {k : List Bool} {v : Trie.Bytes} (hh : 1 ≤ h) (hle : h ≤ Ht)
    (cl : Closed c Ht L h p (.leaf (b :: k) v)) : Closed c Ht L (h - 1) (p ++ [b]) (.leaf k v) := by
  have same : ∀ x, x ∈ leafStrs c Ht (p ++ [b]) (.leaf k v) ↔ x ∈ leafStrs c Ht p (.leaf (b :: k) v) := by
    intro x; simp [leafStrs, leavesOf]
  refine ⟨fun x hx => cl.2 x ?_, fun x hx => cl.2 x ((same x).mp hx)⟩
  simp only [hashedT, List.mem_singleton] at hx
  subst hx
  simp only [leafStrs, leavesOf, List.flatMap_cons, List.flatMap_nil, List.append_nil, List.mem_map, List.mem_range]
  exact ⟨h - 1, by omega, by simp⟩

/-- hashes of the shortcut strings -/
def LeafK (c : HashCtx) (Ht : Nat) (p : List Bool) (t : T Trie.Bytes) : List Trie.Bytes := (leafStrs c Ht p t).map c.H

/-- standing assumptions on the hash function, relative to the explicit list `L` -/
structure Env (c : HashCtx) (Ht : Nat) (L : List Trie.Bytes) : Prop where
  ok : HashOK c Ht
  good : HashGoodOn c.H L
  /-- `deleteOldNode(nil)` deletes the all-zero key: no node may hash to it -/
  nz : ∀ x ∈ L, c.H x ≠ zeroKey

theorem genuine_ne_zero (env : Env c Ht L) {e : Trie.Bytes × Trie.Bytes} (g : Genuine c Ht L e) : e.1 ≠ zeroKey := by
  obtain ⟨x, hx, ex⟩ := genuine_key g
  rw [ex]; exact env.nz x hx

theorem leavesOf_spec : ∀ (t : T Trie.Bytes) (h : Nat) (p : List Bool), Canon h t → Vals32 t → p.length + h = Ht →
    ∀ kv ∈ leavesOf p t, kv.1.length = Ht ∧ kv.2.length = 32 ∧ ∃ rest, kv.1 = p ++ rest := by
  intro t
  induction t with
  | empty => intro h p _ _ _ kv hkv; simp [leavesOf] at hkv
  | leaf k v =>
    intro h p cn v32 hp kv hkv
    simp only [leavesOf, List.mem_singleton] at hkv
    subst hkv
    simp only [Canon] at cn
    exact ⟨by simp; omega, v32, k, rfl⟩
  | node l r ihl ihr =>
    intro h p cn v32 hp kv hkv
    obtain ⟨h1, cl⟩ := canon_child cn false
    obtain ⟨_, cr⟩ := canon_child cn true
    simp only [leavesOf, List.mem_append] at hkv
    rcases hkv with hkv | hkv
    · obtain ⟨a, b, rest, e⟩ := ihl (h - 1) (p ++ [false]) cl v32.1 (by simp; omega) kv hkv
      exact ⟨a, b, false :: rest, by simpa using e⟩
    · obtain ⟨a, b, rest, e⟩ := ihr (h - 1) (p ++ [true]) cr v32.2 (by simp; omega) kv hkv
      exact ⟨a, b, true :: rest, by simpa using e⟩

/-- **The two sides of a node do not interfere**: a batch root below `p ++ [b]` never has the hash of a shortcut
string of the other side. -/
theorem disjoint_sides (env : Env c Ht L) {p : List Bool} {b : Bool} {kv : Trie.Bytes × Trie.Bytes}
    (gu : GenuineUnder c Ht L (p ++ [b]) kv) {h2 : Nat} {t2 : T Trie.Bytes} (c2 : Canon h2 t2) (v2 : Vals32 t2)
    (l2 : (p ++ [!b]).length + h2 = Ht) (cl2 : ∀ x ∈ leafStrs c Ht (p ++ [!b]) t2, x ∈ L)
    (hk : kv.1 ∈ LeafK c Ht (p ++ [!b]) t2) : False := by
  obtain ⟨h', q, s, sne, cs, vs, ls, hL, rfl⟩ := gu
  simp only [LeafK, List.mem_map] at hk
  obtain ⟨x, hx, ex⟩ := hk
  have xL := cl2 x hx
  simp only [leafStrs, List.mem_flatMap, List.mem_map, List.mem_range] at hx
  obtain ⟨⟨fk, v⟩, hleaf, hh, _, rfl⟩ := hx
  obtain ⟨fkl, vl, rest, efk⟩ := leavesOf_spec t2 h2 (p ++ [!b]) c2 v2 l2 (fk, v) hleaf
  simp only at fkl vl efk
  cases s with
  | empty => exact sne rfl
  | leaf k' v' =>
    have yx : c.enc (p ++ [b] ++ q ++ k') ++ v' ++ [byteOf h'] = c.enc fk ++ v ++ [byteOf hh] :=
      env.good.inj _ (hL _ (by simp [hashedT])) _ xL ex.symm
    have kl : (p ++ [b] ++ q ++ k').length = Ht := by
      simp only [Canon] at cs
      simp only [List.length_append] at ls ⊢
      omega
    have e1 := List.append_inj (List.append_inj' yx (by simp)).1 (by rw [env.ok.encLen _ kl, env.ok.encLen _ fkl])
    have := env.ok.encInj _ _ kl fkl e1.1
    rw [efk] at this
    simp only [List.append_assoc] at this
    have := List.append_cancel_left this
    cases b <;> simp at this
  | node l r =>
    have yx : hashT c (h' - 1) (p ++ [b] ++ q ++ [false]) l ++ hashT c (h' - 1) (p ++ [b] ++ q ++ [true]) r =
        c.enc fk ++ v ++ [byteOf hh] :=
      env.good.inj _ (hL _ (by simp [hashedT])) _ xL ex.symm
    have ylen := node_pre_len env.ok (h' - 1) (h' - 1) (p ++ [b] ++ q ++ [false]) (p ++ [b] ++ q ++ [true]) l r
    rw [yx] at ylen
    simp [env.ok.encLen _ fkl, vl] at ylen

/-! ### the invariant of a call -/

/-- What a call (`updU` or one of its parts) guarantees about `updatedNodes`; `OK` are the keys of the old batch roots. -/
structure Inv (c : HashCtx) (Ht : Nat) (L : List Trie.Bytes) (h : Nat) (p : List Bool) (OK : Trie.Bytes → Prop)
    (un : UN) (r : ResU) : Prop where
  genuine : ∀ e ∈ r.2, e ∈ un ∨ Genuine c Ht L e
  present : ∀ kv ∈ pairsAt c h p r.1.1, kv ∈ r.2 ∨ OK kv.1
  frame : ∀ e ∈ un, Genuine c Ht L e → e ∈ r.2 ∨ OK e.1 ∨ e.1 ∈ LeafK c Ht p r.1.1

theorem Inv.mono {h : Nat} {p : List Bool} {OK OK' : Trie.Bytes → Prop} {un : UN} {r : ResU}
    (i : Inv c Ht L h p OK un r) (hm : ∀ k, OK k → OK' k) : Inv c Ht L h p OK' un r :=
  ⟨i.genuine, fun kv hkv => (i.present kv hkv).imp_right (hm _),
    fun e he ge => (i.frame e he ge).imp_right (Or.imp_left (hm _))⟩

/-- facts available at a node once both children have been processed (`un2`: `updatedNodes` at that point) -/
structure Mid (c : HashCtx) (Ht : Nat) (L : List Trie.Bytes) (h : Nat) (p : List Bool) (OK : Trie.Bytes → Prop)
    (un un2 : UN) (l' r' : T Trie.Bytes) : Prop where
  genuine : ∀ e ∈ un2, e ∈ un ∨ Genuine c Ht L e
  presL : ∀ kv ∈ pairsAt c (h - 1) (p ++ [false]) l', kv ∈ un2 ∨ OK kv.1
  presR : ∀ kv ∈ pairsAt c (h - 1) (p ++ [true]) r', kv ∈ un2 ∨ OK kv.1
  frame : ∀ e ∈ un, Genuine c Ht L e →
    e ∈ un2 ∨ OK e.1 ∨ e.1 ∈ LeafK c Ht (p ++ [false]) l' ∨ e.1 ∈ LeafK c Ht (p ++ [true]) r'

/-- the old keys at a node: those of the children, and the node's own old root -/
def OKn (OK : Trie.Bytes → Prop) (old : Trie.Bytes) : Trie.Bytes → Prop := fun k => OK k ∨ (old ≠ [] ∧ k = old)

theorem root_genuine {h : Nat} {p : List Bool} {t : T Trie.Bytes} (hne : t ≠ .empty) (cn : Canon h t) (v32 : Vals32 t)
    (hp : p.length + h = Ht) (cl : Closed c Ht L h p t) : Genuine c Ht L (hashT c h p t, batchVal c h p t) :=
  ⟨h, p, t, hne, cn, v32, by simpa using hp, by simpa using cl.1, by simp⟩

/-- a genuine entry survives `storeNode` of a genuine new root, unless its key is the old root's -/
theorem keep_store (env : Env c Ht L) {un2 : UN} {h : Nat} {p : List Bool} {t : T Trie.Bytes} {old : Trie.Bytes}
    (gr : Genuine c Ht L (hashT c h p t, batchVal c h p t))
    {e : Trie.Bytes × Trie.Bytes} (ge : Genuine c Ht L e) (he : e ∈ un2) :
    e ∈ storeNodeU c (batchVal c) un2 h p t old ∨ (old ≠ [] ∧ e.1 = old) := by
  rcases storeNodeU_keep (c := c) (val := batchVal c) (h := h) (p := p) (new := t) (old := old) he with h1 | h1 | h1
  · exact Or.inl h1
  · left
    have : e = (hashT c h p t, batchVal c h p t) := by
      have := genuine_unique env.ok env.good ge gr h1
      exact Prod.ext h1 this
    rw [this]
    exact storeNodeU_new un2 h p t old (genuine_ne_zero env gr)
  · by_cases ho : old = []
    · subst ho
      exact absurd h1 (genuine_ne_zero env ge)
    · exact Or.inr ⟨ho, by rw [h1, nodeKey_of_ne ho]⟩

theorem keep_del (env : Env c Ht L) {un2 : UN} {old : Trie.Bytes}
    {e : Trie.Bytes × Trie.Bytes} (ge : Genuine c Ht L e) (he : e ∈ un2) :
    e ∈ delU un2 old ∨ (old ≠ [] ∧ e.1 = old) := by
  by_cases h1 : e.1 = nodeKey old
  · by_cases ho : old = []
    · subst ho
      exact absurd h1 (genuine_ne_zero env ge)
    · exact Or.inr ⟨ho, by rw [h1, nodeKey_of_ne ho]⟩
  · exact Or.inl (mem_delU.mpr ⟨he, h1⟩)

/-- `interiorHash` at a node whose children are done -/
theorem interior_inv (env : Env c Ht L) {h : Nat} {p : List Bool} {OK : Trie.Bytes → Prop} {un un2 : UN} {l' r' : T Trie.Bytes}
    (old : Trie.Bytes) (m : Mid c Ht L h p OK un un2 l' r')
    (cn : Canon h (.node l' r')) (v32 : Vals32 (.node l' r')) (hp : p.length + h = Ht) (cl : Closed c Ht L h p (.node l' r')) :
    Inv c Ht L h p (OKn OK old) un (interiorU c (batchVal c) h p old l' r' un2) := by
  have gr := root_genuine (c := c) (L := L) (t := .node l' r') (by simp) cn v32 hp cl
  obtain ⟨h1, ccl⟩ := canon_child cn false
  obtain ⟨_, ccr⟩ := canon_child cn true
  have gl := pairsAt_genuine (c := c) (Ht := Ht) (L := L) l' (h - 1) (p ++ [false]) ccl v32.1 (by simp; omega) (cl.child false).1
  have gR := pairsAt_genuine (c := c) (Ht := Ht) (L := L) r' (h - 1) (p ++ [true]) ccr v32.2 (by simp; omega) (cl.child true).1
  -- an entry present after the children is present at the end, or has the old root's key
  have keep : ∀ e, Genuine c Ht L e → e ∈ un2 →
      e ∈ (interiorU c (batchVal c) h p old l' r' un2).2 ∨ (old ≠ [] ∧ e.1 = old) := by
    intro e ge he
    simp only [interiorU]
    split
    · exact keep_store env gr ge he
    · exact Or.inl he
  refine ⟨?_, ?_, ?_⟩
  · intro e he
    simp only [interiorU] at he
    split at he
    · rcases mem_storeNodeU he with rfl | h2
      · exact Or.inr gr
      · exact m.genuine e h2
    · exact m.genuine e he
  · intro kv hkv
    simp only [interiorU, pairsAt, List.mem_append] at hkv
    rcases hkv with hkv | hkv | hkv
    · split at hkv
      · rename_i h4
        simp only [List.mem_singleton] at hkv
        subst hkv
        left
        simp only [interiorU, if_pos h4]
        exact storeNodeU_new un2 h p _ old (genuine_ne_zero env gr)
      · simp at hkv
    · rcases m.presL kv hkv with h2 | h2
      · rcases keep kv (gl kv hkv).weaken h2 with h3 | h3
        · exact Or.inl h3
        · exact Or.inr (Or.inr h3)
      · exact Or.inr (Or.inl h2)
    · rcases m.presR kv hkv with h2 | h2
      · rcases keep kv (gR kv hkv).weaken h2 with h3 | h3
        · exact Or.inl h3
        · exact Or.inr (Or.inr h3)
      · exact Or.inr (Or.inl h2)
  · intro e he ge
    rcases m.frame e he ge with h2 | h2 | h2 | h2
    · rcases keep e ge h2 with h3 | h3
      · exact Or.inl h3
      · exact Or.inr (Or.inl (Or.inr h3))
    · exact Or.inr (Or.inl (Or.inl h2))
    · right; right
      simp only [LeafK, List.mem_map] at h2 ⊢
      obtain ⟨x, hx, ex⟩ := h2
      exact ⟨x, (leafStrs_node p l' r' x).mpr (Or.inl hx), ex⟩
    · right; right
      simp only [LeafK, List.mem_map] at h2 ⊢
      obtain ⟨x, hx, ex⟩ := h2
      exact ⟨x, (leafStrs_node p l' r' x).mpr (Or.inr hx), ex⟩

theorem leafK_moved (p : List Bool) (b : Bool) (k : List Bool) (v : Trie.Bytes) :
    LeafK c Ht (p ++ [b]) (.leaf k v) = LeafK c Ht p (.leaf (b :: k) v) := by
  simp [LeafK, leafStrs, leavesOf]

theorem leafK_empty (p : List Bool) : LeafK c Ht p (.empty : T Trie.Bytes) = [] := rfl

/-- `moveUpShortcut`: the child shortcut on side `b` takes the node's place -/
theorem shortcutUp_inv (env : Env c Ht L) {h : Nat} {p : List Bool} {OK : Trie.Bytes → Prop} {un un2 : UN}
    (old : Trie.Bytes) (b : Bool) (k : List Bool) (v : Trie.Bytes)
    (gen2 : ∀ e ∈ un2, e ∈ un ∨ Genuine c Ht L e)
    (frame2 : ∀ e ∈ un, Genuine c Ht L e → e ∈ un2 ∨ OK e.1 ∨ e.1 ∈ LeafK c Ht (p ++ [b]) (.leaf k v))
    (h1 : 1 ≤ h) (cn : Canon h (.leaf (b :: k) v)) (v32 : Vals32 (.leaf (b :: k) v)) (hp : p.length + h = Ht)
    (cl : Closed c Ht L h p (.leaf (b :: k) v)) :
    Inv c Ht L h p (OKn OK old) un (shortcutUpU c (batchVal c) h p old b k v un2) := by
  have gr := root_genuine (c := c) (L := L) (t := .leaf (b :: k) v) (by simp) cn v32 hp cl
  have hchild : hashT c (h - 1) (p ++ [b]) (.leaf k v) ∈ LeafK c Ht p (.leaf (b :: k) v) := by
    simp only [LeafK, leafStrs, leavesOf, List.flatMap_cons, List.flatMap_nil, List.append_nil, List.map_map, List.mem_map,
      List.mem_range, Function.comp]
    exact ⟨h - 1, by omega, by simp [hashT]⟩
  have hcne : hashT c (h - 1) (p ++ [b]) (.leaf k v) ≠ [] := by
    intro e
    have := env.ok.outLen (c.enc (p ++ [b] ++ k) ++ v ++ [byteOf (h - 1)])
    simp only [hashT] at e
    rw [e] at this
    simp at this
  have keep : ∀ e, Genuine c Ht L e → e ∈ un2 →
      e ∈ (shortcutUpU c (batchVal c) h p old b k v un2).2 ∨ (old ≠ [] ∧ e.1 = old) ∨ e.1 ∈ LeafK c Ht p (.leaf (b :: k) v) := by
    intro e ge he
    simp only [shortcutUpU]
    split
    · rcases keep_store env gr ge he with h2 | h2
      · exact Or.inl h2
      · exact Or.inr (Or.inl h2)
    · split
      · by_cases h2 : e.1 = nodeKey (hashT c (h - 1) (p ++ [b]) (.leaf k v))
        · right; right
          rw [h2, nodeKey_of_ne hcne]
          exact hchild
        · exact Or.inl (mem_delU.mpr ⟨he, h2⟩)
      · exact Or.inl he
  refine ⟨?_, ?_, ?_⟩
  · intro e he
    simp only [shortcutUpU] at he
    split at he
    · rcases mem_storeNodeU he with rfl | h2
      · exact Or.inr gr
      · exact gen2 e h2
    · split at he
      · exact gen2 e (mem_delU.mp he).1
      · exact gen2 e he
  · intro kv hkv
    simp only [shortcutUpU, pairsAt] at hkv
    split at hkv
    · rename_i h4
      simp only [List.mem_singleton] at hkv
      subst hkv
      left
      simp only [shortcutUpU, if_pos h4]
      exact storeNodeU_new un2 h p _ old (genuine_ne_zero env gr)
    · simp at hkv
  · intro e he ge
    rcases frame2 e he ge with h2 | h2 | h2
    · rcases keep e ge h2 with h3 | h3 | h3
      · exact Or.inl h3
      · exact Or.inr (Or.inl (Or.inr h3))
      · exact Or.inr (Or.inr h3)
    · exact Or.inr (Or.inl (Or.inl h2))
    · right; right
      show e.1 ∈ LeafK c Ht p (.leaf (b :: k) v)
      rw [← leafK_moved]; exact h2

/-- `maybeMoveUpShortcut` / `interiorHash` at a node whose children are done -/
theorem moveUp_inv (env : Env c Ht L) {h : Nat} {p : List Bool} {OK : Trie.Bytes → Prop} {un un2 : UN} {l' r' : T Trie.Bytes}
    (old : Trie.Bytes) (m : Mid c Ht L h p OK un un2 l' r') (h1 : 1 ≤ h)
    (cn : Canon h (moveUp l' r').1) (v32 : Vals32 (moveUp l' r').1) (hp : p.length + h = Ht)
    (cl : Closed c Ht L h p (moveUp l' r').1) :
    Inv c Ht L h p (OKn OK old) un (moveUpU c (batchVal c) h p old l' r' un2) := by
  cases l' with
  | empty =>
    cases r' with
    | empty =>
      refine ⟨?_, ?_, ?_⟩
      · intro e he
        simp only [moveUpU] at he
        split at he
        · exact m.genuine e (mem_delU.mp he).1
        · exact m.genuine e he
      · intro kv hkv; simp [moveUpU, pairsAt] at hkv
      · intro e he ge
        rcases m.frame e he ge with h2 | h2 | h2 | h2
        · simp only [moveUpU]
          split
          · rcases keep_del env (old := old) ge h2 with h3 | h3
            · exact Or.inl h3
            · exact Or.inr (Or.inl (Or.inr h3))
          · exact Or.inl h2
        · exact Or.inr (Or.inl (Or.inl h2))
        · simp [leafK_empty] at h2
        · simp [leafK_empty] at h2
    | leaf k v =>
      refine shortcutUp_inv env old true k v m.genuine ?_ h1 cn v32 hp cl
      intro e he ge
      rcases m.frame e he ge with h2 | h2 | h2 | h2
      · exact Or.inl h2
      · exact Or.inr (Or.inl h2)
      · simp [leafK_empty] at h2
      · exact Or.inr (Or.inr h2)
    | node a b => exact interior_inv env old m cn v32 hp cl
  | leaf k v =>
    cases r' with
    | empty =>
      refine shortcutUp_inv env old false k v m.genuine ?_ h1 cn v32 hp cl
      intro e he ge
      rcases m.frame e he ge with h2 | h2 | h2 | h2
      · exact Or.inl h2
      · exact Or.inr (Or.inl h2)
      · exact Or.inr (Or.inr h2)
      · simp [leafK_empty] at h2
    | leaf k' v' => exact interior_inv env old m cn v32 hp cl
    | node a b => exact interior_inv env old m cn v32 hp cl
  | node a b =>
    cases r' with
    | empty => exact interior_inv env old m cn v32 hp cl
    | leaf k' v' => exact interior_inv env old m cn v32 hp cl
    | node a' b' => exact interior_inv env old m cn v32 hp cl

/-- the values a batch writes are 32 bytes long -/
def KV32 (kvs : List (KV Trie.Bytes)) : Prop := ∀ kv ∈ kvs, ∀ v, kv.2 = some v → v.length = 32

theorem KV32.tails {kvs : List (KV Trie.Bytes)} (k : KV32 kvs) : KV32 (tails kvs) := by
  intro kv hkv v hv
  simp only [Trie.tails, List.mem_map] at hkv
  obtain ⟨kv', m, rfl⟩ := hkv
  exact k kv' m v hv

theorem KV32.sublist {l l' : List (KV Trie.Bytes)} (k : KV32 l) (s : l'.Sublist l) : KV32 l' :=
  fun kv hkv => k kv (s.subset hkv)

theorem closed_empty (h : Nat) (p : List Bool) : Closed c Ht L h p (.empty : T Trie.Bytes) :=
  ⟨by simp [hashedT], by simp [leafStrs, leavesOf]⟩

/-- the children of what `moveUp` returns are closed when the result is -/
theorem closed_of_moveUp {h : Nat} {p : List Bool} {l' r' : T Trie.Bytes} (h1 : 1 ≤ h) (hle : h ≤ Ht)
    (cl : Closed c Ht L h p (moveUp l' r').1) :
    Closed c Ht L (h - 1) (p ++ [false]) l' ∧ Closed c Ht L (h - 1) (p ++ [true]) r' := by
  cases l' with
  | empty =>
    cases r' with
    | empty => exact ⟨closed_empty _ _, closed_empty _ _⟩
    | leaf k v => exact ⟨closed_empty _ _, Closed.moved h1 hle cl⟩
    | node a b => exact ⟨cl.child false, cl.child true⟩
  | leaf k v =>
    cases r' with
    | empty => exact ⟨Closed.moved h1 hle cl, closed_empty _ _⟩
    | leaf k' v' => exact ⟨cl.child false, cl.child true⟩
    | node a b => exact ⟨cl.child false, cl.child true⟩
  | node a b =>
    cases r' with
    | empty => exact ⟨cl.child false, cl.child true⟩
    | leaf k' v' => exact ⟨cl.child false, cl.child true⟩
    | node a' b' => exact ⟨cl.child false, cl.child true⟩

/-- both children were updated, the left one first -/
theorem mid_both (env : Env c Ht L) {h : Nat} {p : List Bool} {OKl OKr : Trie.Bytes → Prop} {un : UN} {resL resR : ResU}
    (iL : Inv c Ht L (h - 1) (p ++ [false]) OKl un resL) (iR : Inv c Ht L (h - 1) (p ++ [true]) OKr resL.2 resR)
    (h1 : 1 ≤ h) (hp : p.length + h = Ht)
    (cl' : Canon (h - 1) resL.1.1) (vl' : Vals32 resL.1.1) (cll : Closed c Ht L (h - 1) (p ++ [false]) resL.1.1)
    (cr' : Canon (h - 1) resR.1.1) (vr' : Vals32 resR.1.1) (clr : Closed c Ht L (h - 1) (p ++ [true]) resR.1.1) :
    Mid c Ht L h p (fun k => OKl k ∨ OKr k) un resR.2 resL.1.1 resR.1.1 := by
  have hpl : (p ++ [false]).length + (h - 1) = Ht := by simp; omega
  have hpr : (p ++ [true]).length + (h - 1) = Ht := by simp; omega
  refine ⟨?_, ?_, ?_, ?_⟩
  · intro e he
    rcases iR.genuine e he with h2 | h2
    · exact iL.genuine e h2
    · exact Or.inr h2
  · intro kv hkv
    rcases iL.present kv hkv with h2 | h2
    · have gu := pairsAt_genuine (c := c) (Ht := Ht) (L := L) _ (h - 1) (p ++ [false]) cl' vl' hpl cll.1 kv hkv
      rcases iR.frame kv h2 gu.weaken with h3 | h3 | h3
      · exact Or.inl h3
      · exact Or.inr (Or.inr h3)
      · exact (disjoint_sides env (b := false) gu cr' vr' hpr clr.2 h3).elim
    · exact Or.inr (Or.inl h2)
  · intro kv hkv
    rcases iR.present kv hkv with h2 | h2
    · exact Or.inl h2
    · exact Or.inr (Or.inr h2)
  · intro e he ge
    rcases iL.frame e he ge with h2 | h2 | h2
    · rcases iR.frame e h2 ge with h3 | h3 | h3
      · exact Or.inl h3
      · exact Or.inr (Or.inl (Or.inr h3))
      · exact Or.inr (Or.inr (Or.inr h3))
    · exact Or.inr (Or.inl (Or.inl h2))
    · exact Or.inr (Or.inr (Or.inl h2))

/-- only the right child was updated -/
theorem mid_right {h : Nat} {p : List Bool} {OKr : Trie.Bytes → Prop} {un : UN} {l : T Trie.Bytes} {resR : ResU}
    (iR : Inv c Ht L (h - 1) (p ++ [true]) OKr un resR) :
    Mid c Ht L h p (fun k => k ∈ (pairsAt c (h - 1) (p ++ [false]) l).map (·.1) ∨ OKr k) un resR.2 l resR.1.1 := by
  refine ⟨iR.genuine, ?_, ?_, ?_⟩
  · intro kv hkv
    exact Or.inr (Or.inl (List.mem_map_of_mem hkv))
  · intro kv hkv
    exact (iR.present kv hkv).imp_right Or.inr
  · intro e he ge
    rcases iR.frame e he ge with h2 | h2 | h2
    · exact Or.inl h2
    · exact Or.inr (Or.inl (Or.inr h2))
    · exact Or.inr (Or.inr (Or.inr h2))

/-- only the left child was updated -/
theorem mid_left {h : Nat} {p : List Bool} {OKl : Trie.Bytes → Prop} {un : UN} {r : T Trie.Bytes} {resL : ResU}
    (iL : Inv c Ht L (h - 1) (p ++ [false]) OKl un resL) :
    Mid c Ht L h p (fun k => OKl k ∨ k ∈ (pairsAt c (h - 1) (p ++ [true]) r).map (·.1)) un resL.2 resL.1.1 r := by
  refine ⟨iL.genuine, ?_, ?_, ?_⟩
  · intro kv hkv
    exact (iL.present kv hkv).imp_right Or.inl
  · intro kv hkv
    exact Or.inr (Or.inr (List.mem_map_of_mem hkv))
  · intro e he ge
    rcases iL.frame e he ge with h2 | h2 | h2
    · exact Or.inl h2
    · exact Or.inr (Or.inl (Or.inl h2))
    · exact Or.inr (Or.inr (Or.inl h2))

/-- what is known of the recursive calls one level down (below the node at height `h`, path `p`) -/
structure ChildSpec (c : HashCtx) (Ht : Nat) (L : List Trie.Bytes) (h : Nat) (p : List Bool)
    (upd : Bool → T Trie.Bytes → List (KV Trie.Bytes) → UN → ResU)
    (updT : T Trie.Bytes → List (KV Trie.Bytes) → T Trie.Bytes × Bool) : Prop where
  tree : ∀ b t kvs un, (upd b t kvs un).1 = updT t kvs
  good : ∀ t kvs, Canon (h - 1) t → Trie.WF (h - 1) kvs → kvs ≠ [] → Good (h - 1) t kvs (updT t kvs)
  vals : ∀ t kvs, Canon (h - 1) t → Vals32 t → Trie.WF (h - 1) kvs → kvs ≠ [] → KV32 kvs → Vals32 (updT t kvs).1
  inv : ∀ b t kvs un, Canon (h - 1) t → Vals32 t → Trie.WF (h - 1) kvs → kvs ≠ [] → KV32 kvs →
    Closed c Ht L (h - 1) (p ++ [b]) (updT t kvs).1 →
    Inv c Ht L (h - 1) (p ++ [b]) (fun k => k ∈ (pairsAt c (h - 1) (p ++ [b]) t).map (·.1)) un (upd b t kvs un)

/-- old keys of the two children -/
def OKc (c : HashCtx) (h : Nat) (p : List Bool) (l r : T Trie.Bytes) : Trie.Bytes → Prop :=
  fun k => k ∈ (pairsAt c (h - 1) (p ++ [false]) l).map (·.1) ∨ k ∈ (pairsAt c (h - 1) (p ++ [true]) r).map (·.1)

theorem splitCoreU_inv (env : Env c Ht L) {h : Nat} {p : List Bool} (old : Trie.Bytes)
    {upd : Bool → T Trie.Bytes → List (KV Trie.Bytes) → UN → ResU}
    {updT : T Trie.Bytes → List (KV Trie.Bytes) → T Trie.Bytes × Bool}
    (cs : ChildSpec c Ht L h p upd updT) (h1 : 1 ≤ h) (hp : p.length + h = Ht)
    {l r : T Trie.Bytes} (cl : Canon (h - 1) l) (cr : Canon (h - 1) r) (vl : Vals32 l) (vr : Vals32 r)
    (lk rk : List (KV Trie.Bytes)) (wl : Trie.WF (h - 1) (tails lk)) (wr : Trie.WF (h - 1) (tails rk))
    (kl : KV32 lk) (kr : KV32 rk) (hne : lk ≠ [] ∨ rk ≠ []) (un : UN)
    (cn' : Canon h (splitCore updT l r lk rk).1) (vn' : Vals32 (splitCore updT l r lk rk).1)
    (cl' : Closed c Ht L h p (splitCore updT l r lk rk).1) :
    Inv c Ht L h p (OKn (OKc c h p l r) old) un (splitCoreU c (batchVal c) h p old upd l r lk rk un) := by
  have hle : h ≤ Ht := by omega
  match lk, rk, hne with
  | [], y :: ys, _ =>
    have ne : tails (y :: ys) ≠ [] := tails_ne_nil (by simp)
    rcases hx : upd true r (tails (y :: ys)) un with ⟨⟨r', d⟩, un1⟩
    have e : updT r (tails (y :: ys)) = (r', d) := by rw [← cs.tree true r _ un, hx]
    have iR := cs.inv true r (tails (y :: ys)) un cr vr wr ne kr.tails
    rw [hx, e] at iR
    simp only [splitCore, e] at cn' vn' cl'
    simp only [splitCoreU, hx]
    cases d with
    | true =>
      simp only [↓reduceIte] at cn' vn' cl' ⊢
      have m := mid_right (l := l) (iR (closed_of_moveUp h1 hle cl').2)
      exact moveUp_inv env old m h1 cn' vn' hp cl'
    | false =>
      simp only [Bool.false_eq_true, ↓reduceIte] at cn' vn' cl' ⊢
      have m := mid_right (l := l) (iR (cl'.child true))
      exact interior_inv env old m cn' vn' hp cl'
  | x :: xs, [], _ =>
    have ne : tails (x :: xs) ≠ [] := tails_ne_nil (by simp)
    rcases hx : upd false l (tails (x :: xs)) un with ⟨⟨l', d⟩, un1⟩
    have e : updT l (tails (x :: xs)) = (l', d) := by rw [← cs.tree false l _ un, hx]
    have iL := cs.inv false l (tails (x :: xs)) un cl vl wl ne kl.tails
    rw [hx, e] at iL
    simp only [splitCore, e] at cn' vn' cl'
    simp only [splitCoreU, hx]
    cases d with
    | true =>
      simp only [↓reduceIte] at cn' vn' cl' ⊢
      have m := mid_left (r := r) (iL (closed_of_moveUp h1 hle cl').1)
      exact moveUp_inv env old m h1 cn' vn' hp cl'
    | false =>
      simp only [Bool.false_eq_true, ↓reduceIte] at cn' vn' cl' ⊢
      have m := mid_left (r := r) (iL (cl'.child false))
      exact interior_inv env old m cn' vn' hp cl'
  | x :: xs, y :: ys, _ =>
    have nel : tails (x :: xs) ≠ [] := tails_ne_nil (by simp)
    have ner : tails (y :: ys) ≠ [] := tails_ne_nil (by simp)
    rcases hx : upd false l (tails (x :: xs)) un with ⟨⟨l', dl⟩, un1⟩
    have e1 : updT l (tails (x :: xs)) = (l', dl) := by rw [← cs.tree false l _ un, hx]
    rcases hy : upd true r (tails (y :: ys)) un1 with ⟨⟨r', dr⟩, un2⟩
    have e2 : updT r (tails (y :: ys)) = (r', dr) := by rw [← cs.tree true r _ un1, hy]
    have iL := cs.inv false l (tails (x :: xs)) un cl vl wl nel kl.tails
    have iR := cs.inv true r (tails (y :: ys)) un1 cr vr wr ner kr.tails
    rw [hx, e1] at iL
    rw [hy, e2] at iR
    have gl := cs.good l (tails (x :: xs)) cl wl nel
    have gr := cs.good r (tails (y :: ys)) cr wr ner
    have v1 := cs.vals l (tails (x :: xs)) cl vl wl nel kl.tails
    have v2 := cs.vals r (tails (y :: ys)) cr vr wr ner kr.tails
    rw [e1] at gl v1
    rw [e2] at gr v2
    simp only [splitCore, e1, e2] at cn' vn' cl'
    simp only [splitCoreU, hx, hy]
    cases hd : (dl || dr) with
    | true =>
      simp only [hd, ↓reduceIte] at cn' vn' cl' ⊢
      obtain ⟨c1, c2⟩ := closed_of_moveUp h1 hle cl'
      have m := mid_both env (resL := ((l', dl), un1)) (resR := ((r', dr), un2)) (iL c1) (iR c2) h1 hp gl.canon v1 c1 gr.canon v2 c2
      exact moveUp_inv env old m h1 cn' vn' hp cl'
    | false =>
      simp only [hd, Bool.false_eq_true, ↓reduceIte] at cn' vn' cl' ⊢
      have c1 := cl'.child false
      have c2 := cl'.child true
      have m := mid_both env (resL := ((l', dl), un1)) (resR := ((r', dr), un2)) (iL c1) (iR c2) h1 hp gl.canon v1 c1 gr.canon v2 c2
      exact interior_inv env old m cn' vn' hp cl'

theorem vals32_get : ∀ (t : T Trie.Bytes) (k : List Bool) (v : Trie.Bytes), Vals32 t → get t k = some v → v.length = 32 := by
  intro t
  induction t with
  | empty => intro k v _ e; simp [Trie.get] at e
  | leaf sk sv =>
    intro k v w e
    simp only [Trie.get] at e
    split at e
    · simp only [Option.some.injEq] at e; subst e; exact w
    · simp at e
  | node l r ihl ihr =>
    intro k v w e
    cases k with
    | nil => simp [Trie.get] at e
    | cons b k =>
      simp only [Trie.get] at e
      cases b
      · exact ihl k v w.1 (by simpa using e)
      · exact ihr k v w.2 (by simpa using e)

/-- `update` keeps the values 32 bytes long -/
theorem update_vals32 {h : Nat} {t : T Trie.Bytes} {kvs : List (KV Trie.Bytes)} (cn : Canon h t) (v32 : Vals32 t)
    (w : Trie.WF h kvs) (hne : kvs ≠ []) (k32 : KV32 kvs) : Vals32 (update h t kvs).1 := by
  have g := update_good h t kvs cn w hne
  refine vals32_of_get _ h g.canon fun k v hk e => ?_
  rw [g.sem k hk] at e
  simp only [applyF] at e
  cases hl : look kvs k with
  | none => rw [hl] at e; exact vals32_get t k v v32 e
  | some ov =>
    rw [hl] at e
    simp only at e
    exact k32 (k, ov) (look_mem kvs k ov hl) v e

theorem inv_trivial {h : Nat} {p : List Bool} {OK : Trie.Bytes → Prop} (un : UN) (d : Bool) :
    Inv c Ht L h p OK un ((.empty, d), un) :=
  ⟨fun e he => Or.inl he, fun kv hkv => by simp [pairsAt] at hkv, fun e he _ => Or.inl he⟩

/-- a single new shortcut stored at a node -/
theorem leafStore_inv (env : Env c Ht L) {h : Nat} {p : List Bool} {OK : Trie.Bytes → Prop} (un : UN) (old : Trie.Bytes)
    (k : List Bool) (v : Trie.Bytes) (cn : Canon h (.leaf k v)) (v32 : Vals32 (.leaf k v)) (hp : p.length + h = Ht)
    (cl : Closed c Ht L h p (.leaf k v)) :
    Inv c Ht L h p (OKn OK old) un
      ((.leaf k v, false), if h % 4 = 0 then storeNodeU c (batchVal c) un h p (.leaf k v) old else un) := by
  have gr := root_genuine (c := c) (L := L) (t := .leaf k v) (by simp) cn v32 hp cl
  refine ⟨?_, ?_, ?_⟩
  · intro e he
    simp only at he
    split at he
    · rcases mem_storeNodeU he with rfl | h2
      · exact Or.inr gr
      · exact Or.inl h2
    · exact Or.inl he
  · intro kv hkv
    simp only [pairsAt] at hkv
    split at hkv
    · rename_i h4
      simp only [List.mem_singleton] at hkv
      subst hkv
      left
      simp only [if_pos h4]
      exact storeNodeU_new un h p _ old (genuine_ne_zero env gr)
    · simp at hkv
  · intro e he ge
    simp only
    split
    · rcases keep_store env gr ge he with h2 | h2
      · exact Or.inl h2
      · exact Or.inr (Or.inl (Or.inr h2))
    · exact Or.inl he

theorem splitU_inv (env : Env c Ht L) {h : Nat} {p : List Bool} (old : Trie.Bytes)
    {upd : Bool → T Trie.Bytes → List (KV Trie.Bytes) → UN → ResU}
    {updT : T Trie.Bytes → List (KV Trie.Bytes) → T Trie.Bytes × Bool}
    (cs : ChildSpec c Ht L (h + 1) p upd updT) (hp : p.length + (h + 1) = Ht)
    {l r : T Trie.Bytes} (cl : Canon h l) (cr : Canon h r) (vl : Vals32 l) (vr : Vals32 r)
    (kvs : List (KV Trie.Bytes)) (w : Trie.WF (h + 1) kvs) (hne : kvs ≠ []) (k32 : KV32 kvs) (un : UN)
    (cn' : Canon (h + 1) (split updT l r kvs).1) (vn' : Vals32 (split updT l r kvs).1)
    (cl' : Closed c Ht L (h + 1) p (split updT l r kvs).1) :
    Inv c Ht L (h + 1) p (OKn (OKc c (h + 1) p l r) old) un (splitU c (batchVal c) (h + 1) p old upd l r kvs un) := by
  have general : split updT l r kvs = splitGen updT l r kvs →
      splitU c (batchVal c) (h + 1) p old upd l r kvs un =
        splitCoreU c (batchVal c) (h + 1) p old upd l r (lkeys kvs) (rkeys kvs) un →
      Inv c Ht L (h + 1) p (OKn (OKc c (h + 1) p l r) old) un (splitU c (batchVal c) (h + 1) p old upd l r kvs un) := by
    intro e1 e2
    rw [e2]
    rw [e1] at cn' vn' cl'
    have wl : Trie.WF (h + 1) (lkeys kvs) := w.sublist (List.takeWhile_sublist _)
    have wr : Trie.WF (h + 1) (rkeys kvs) := w.sublist (List.dropWhile_sublist _)
    have wtl : Trie.WF h (tails (lkeys kvs)) := tails_wf wl lkeys_head
    have wtr : Trie.WF h (tails (rkeys kvs)) := tails_wf wr (rkeys_head w)
    have happ := lkeys_append_rkeys kvs
    have hne' : lkeys kvs ≠ [] ∨ rkeys kvs ≠ [] := by
      by_cases h1 : lkeys kvs = []
      · right; intro h2; rw [h1, h2] at happ; exact hne happ.symm
      · exact Or.inl h1
    exact splitCoreU_inv env old cs (by omega) hp cl cr vl vr (lkeys kvs) (rkeys kvs) wtl wtr
      (k32.sublist (List.takeWhile_sublist _)) (k32.sublist (List.dropWhile_sublist _)) hne' un cn' vn' cl'
  by_cases hE : l = .empty ∧ r = .empty
  · obtain ⟨rfl, rfl⟩ := hE
    match kvs, hne with
    | [(k, some v)], _ => exact leafStore_inv env un old k v cn' vn' hp cl'
    | [(k, none)], _ => exact inv_trivial un true
    | (k, none) :: y :: ys, _ => exact general rfl rfl
    | (k, some v) :: y :: ys, _ => exact general rfl rfl
  · refine general ?_ ?_
    · unfold split
      split
      · exact absurd ⟨rfl, rfl⟩ hE
      · exact absurd ⟨rfl, rfl⟩ hE
      · rfl
    · unfold splitU
      split
      · exact absurd ⟨rfl, rfl⟩ hE
      · exact absurd ⟨rfl, rfl⟩ hE
      · rfl

/-- old keys of a subtree -/
def OKt (c : HashCtx) (h : Nat) (p : List Bool) (t : T Trie.Bytes) : Trie.Bytes → Prop :=
  fun k => k ∈ (pairsAt c h p t).map (·.1)

theorem oldRoot_mem {h : Nat} {p : List Bool} {t : T Trie.Bytes} (h4 : h % 4 = 0) (hne : oldRoot c h p t ≠ []) :
    OKt c h p t (oldRoot c h p t) := by
  cases t with
  | empty => simp [oldRoot] at hne
  | leaf k v => simp [OKt, pairsAt, h4, oldRoot]
  | node l r => simp [OKt, pairsAt, h4, oldRoot]

/-- **The invariant of `updU`**, at every height, on every canonical subtree and legal batch. -/
theorem updU_inv (env : Env c Ht L) : ∀ (h : Nat) (p : List Bool) (t : T Trie.Bytes) (kvs : List (KV Trie.Bytes)) (un : UN),
    Canon h t → Vals32 t → Trie.WF h kvs → kvs ≠ [] → KV32 kvs → p.length + h = Ht →
    Closed c Ht L h p (update h t kvs).1 →
    Inv c Ht L h p (OKt c h p t) un (updU c (batchVal c) h p t kvs un) := by
  intro h
  induction h with
  | zero =>
    intro p t kvs un cn v32 w hne k32 hp cl
    have hlen := w.zero_length
    match kvs, hne, hlen with
    | [(k, ov)], _, _ =>
      have hk : k = [] := List.length_eq_zero_iff.mp (w.1 (k, ov) (by simp))
      subst hk
      cases ov with
      | some v =>
        have vv : v.length = 32 := k32 ([], some v) (by simp) v rfl
        have i := leafStore_inv (OK := fun _ => False) env un (oldRoot c 0 p t) [] v (by simp [Canon]) vv hp
          (by simpa [update] using cl)
        simp only [Nat.zero_mod, ↓reduceIte] at i
        refine Inv.mono (show Inv c Ht L 0 p _ un (updU c (batchVal c) 0 p t [([], some v)] un) from i) ?_
        rintro k (hf | ⟨h1, rfl⟩)
        · exact hf.elim
        · exact oldRoot_mem rfl h1
      | none =>
        refine ⟨?_, ?_, ?_⟩
        · intro e he
          exact Or.inl (mem_delU.mp he).1
        · intro kv hkv; simp [updU, pairsAt] at hkv
        · intro e he ge
          rcases keep_del env (old := oldRoot c 0 p t) ge he with h2 | ⟨h2, h3⟩
          · exact Or.inl h2
          · exact Or.inr (Or.inl (by rw [h3]; exact oldRoot_mem rfl h2))
  | succ h ih =>
    intro p t kvs un cn v32 w hne k32 hp cl
    have cs : ChildSpec c Ht L (h + 1) p (fun b => updU c (batchVal c) h (p ++ [b])) (update h) :=
      { tree := fun b t kvs un => updU_tree (batchVal c) h (p ++ [b]) t kvs un
        good := fun t kvs cn w hne => update_good h t kvs cn w hne
        vals := fun t kvs cn v w hne k => update_vals32 cn v w hne k
        inv := fun b t kvs un cn v w hne k cl => ih (p ++ [b]) t kvs un cn v w hne k (by simp; omega) cl }
    have g := update_good (h + 1) t kvs cn w hne
    have vres := update_vals32 cn v32 w hne k32
    cases t with
    | empty =>
      have i := splitU_inv env (if (h + 1) % 4 = 0 then oldRoot c (h + 1) p .empty else []) cs hp (l := .empty) (r := .empty)
        (by simp [Canon]) (by simp [Canon]) trivial trivial kvs w hne k32 un g.canon vres cl
      refine Inv.mono (show Inv c Ht L (h + 1) p _ un (updU c (batchVal c) (h + 1) p .empty kvs un) from i) ?_
      rintro k ((hf | hf) | ⟨h1, _⟩)
      · simp [pairsAt] at hf
      · simp [pairsAt] at hf
      · simp [oldRoot] at h1
    | leaf sk sv =>
      have hsk : sk.length = h + 1 := cn
      have e1 : addShortcut kvs sk sv = addSc sk sv kvs := addShortcut_eq sk sv kvs w hne
      have w' : Trie.WF (h + 1) (addSc sk sv kvs) := addSc_wf sv w hsk
      have k32' : KV32 (addSc sk sv kvs) := by
        intro kv hkv v hv
        rcases mem_addSc hkv with e | m
        · subst e; simp only [Option.some.injEq] at hv; subst hv; exact v32
        · exact k32 kv m v hv
      -- what `deleteOldNode(root)` at a batch root does to the entries recorded so far
      have pre : ∀ e ∈ un, Genuine c Ht L e →
          e ∈ (if (h + 1) % 4 = 0 then delU un (if (h + 1) % 4 = 0 then oldRoot c (h + 1) p (.leaf sk sv) else []) else un) ∨
            OKt c (h + 1) p (.leaf sk sv) e.1 := by
        intro e he ge
        by_cases h4 : (h + 1) % 4 = 0
        · simp only [h4, ↓reduceIte]
          rcases keep_del env (old := oldRoot c (h + 1) p (.leaf sk sv)) ge he with h2 | ⟨h2, h3⟩
          · exact Or.inl h2
          · exact Or.inr (by rw [h3]; exact oldRoot_mem h4 h2)
        · simp only [h4, ↓reduceIte]; exact Or.inl he
      have sub : ∀ e ∈ (if (h + 1) % 4 = 0 then delU un (if (h + 1) % 4 = 0 then oldRoot c (h + 1) p (.leaf sk sv) else []) else un),
          e ∈ un := by
        intro e he
        split at he
        · exact (mem_delU.mp he).1
        · exact he
      simp only [update, e1] at g vres cl
      simp only [updU, e1]
      cases hE : (addSc sk sv kvs).isEmpty with
      | true =>
        simp only [↓reduceIte]
        refine ⟨fun e he => Or.inl (sub e he), fun kv hkv => by simp [pairsAt] at hkv, fun e he ge => ?_⟩
        rcases pre e he ge with h2 | h2
        · exact Or.inl h2
        · exact Or.inr (Or.inl h2)
      | false =>
        have hne' : addSc sk sv kvs ≠ [] := by intro e; rw [e] at hE; simp at hE
        simp only [hE, Bool.false_eq_true, ↓reduceIte] at g vres cl ⊢
        have i := splitU_inv env (if (h + 1) % 4 = 0 then oldRoot c (h + 1) p (.leaf sk sv) else []) cs hp (l := .empty) (r := .empty)
          (by simp [Canon]) (by simp [Canon]) trivial trivial (addSc sk sv kvs) w' hne' k32'
          (if (h + 1) % 4 = 0 then delU un (if (h + 1) % 4 = 0 then oldRoot c (h + 1) p (.leaf sk sv) else []) else un)
          g.canon vres cl
        have okm : ∀ k, OKn (OKc c (h + 1) p .empty .empty) (if (h + 1) % 4 = 0 then oldRoot c (h + 1) p (.leaf sk sv) else []) k →
            OKt c (h + 1) p (.leaf sk sv) k := by
          rintro k ((hf | hf) | ⟨h1, rfl⟩)
          · simp [pairsAt] at hf
          · simp [pairsAt] at hf
          · by_cases h4 : (h + 1) % 4 = 0
            · simp only [h4, ↓reduceIte] at h1 ⊢
              exact oldRoot_mem h4 h1
            · simp [h4] at h1
        refine ⟨?_, ?_, ?_⟩
        · intro e he
          rcases i.genuine e he with h2 | h2
          · exact Or.inl (sub e h2)
          · exact Or.inr h2
        · intro kv hkv
          exact (i.present kv hkv).imp_right (okm _)
        · intro e he ge
          rcases pre e he ge with h2 | h2
          · rcases i.frame e h2 ge with h3 | h3 | h3
            · exact Or.inl h3
            · exact Or.inr (Or.inl (okm _ h3))
            · exact Or.inr (Or.inr h3)
          · exact Or.inr (Or.inl h2)
    | node l r =>
      obtain ⟨cl0, cr0, _, _⟩ := cn
      have i := splitU_inv env (if (h + 1) % 4 = 0 then oldRoot c (h + 1) p (.node l r) else []) cs hp cl0 cr0 v32.1 v32.2
        kvs w hne k32 un g.canon vres cl
      refine Inv.mono (show Inv c Ht L (h + 1) p _ un (updU c (batchVal c) (h + 1) p (.node l r) kvs un) from i) ?_
      rintro k ((hf | hf) | ⟨h1, rfl⟩)
      · simp only [OKt, pairsAt, List.map_append, List.mem_append]
        exact Or.inr (Or.inl (by simpa using hf))
      · simp only [OKt, pairsAt, List.map_append, List.mem_append]
        exact Or.inr (Or.inr (by simpa using hf))
      · by_cases h4 : (h + 1) % 4 = 0
        · simp only [h4, ↓reduceIte] at h1 ⊢
          exact oldRoot_mem h4 h1
        · simp [h4] at h1

end Aergo.TrieStore
