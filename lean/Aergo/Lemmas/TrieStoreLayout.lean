/-
Storage layer of the trie (C10), structural half: reading a key through a store that *covers* the
pairs of a tree (`Covers σ (pairsOf …)`: every batch root's hash maps to the serialised batch) gives
`Trie.get` of the tree. No assumption on the hash function beyond the output length (`HashOK`).
-/
import Aergo.Lemmas.TrieProof
import Aergo.Lemmas.TrieBatch
import Aergo.Model.TrieStore

namespace Aergo.TrieStore
open Aergo.Trie Aergo.TrieBatch

/-! ### heap indices -/

theorem idx_snoc (q : List Bool) (b : Bool) : idx (q ++ [b]) = 2 * idx q + (if b then 2 else 1) := by
  simp [idx, List.foldl_append]

theorem snoc_cases {α : Type} (q : List α) : q = [] ∨ ∃ q' b, q = q' ++ [b] := by
  rcases List.eq_nil_or_concat q with h | ⟨q', b, h⟩
  · exact Or.inl h
  · exact Or.inr ⟨q', b, by simpa using h⟩

theorem idx_pos (q : List Bool) (h : q ≠ []) : 0 < idx q := by
  rcases snoc_cases q with h' | ⟨q', b, rfl⟩
  · exact absurd h' h
  · rw [idx_snoc]; split <;> omega

theorem paths30_get (q : List Bool) (h1 : q ≠ []) (h4 : q.length ≤ 4) : paths30[idx q - 1]? = some q := by
  match q, h1, h4 with
  | [a], _, _ => cases a <;> rfl
  | [a, b], _, _ => cases a <;> cases b <;> rfl
  | [a, b, c], _, _ => cases a <;> cases b <;> cases c <;> rfl
  | [a, b, c, d], _, _ => cases a <;> cases b <;> cases c <;> cases d <;> rfl
  | _ :: _ :: _ :: _ :: _ :: _, _, h => simp at h

theorem paths30_length : paths30.length = 30 := rfl

theorem mem_pathsN : ∀ (n : Nat) (q : List Bool), q.length = n → q ∈ pathsN n := by
  intro n
  induction n with
  | zero => intro q h; simp [pathsN, List.length_eq_zero_iff.mp h]
  | succ n ih =>
    intro q h
    rcases snoc_cases q with h' | ⟨q', b, rfl⟩
    · subst h'; simp at h
    · have hl : q'.length = n := by simp at h; omega
      simp only [pathsN, List.mem_flatMap]
      exact ⟨q', ih q' hl, by cases b <;> simp⟩

/-! ### slots of `batchOf` -/

/-- bytes of the reference to a subtree (`[]` = nil for an empty one) -/
def refBytes (c : HashCtx) (h : Nat) (p : List Bool) (t : T Trie.Bytes) : Trie.Bytes :=
  ((refOf h p t).map (render c)).getD []

theorem slotAt_batchOf (c : HashCtx) (h : Nat) (p : List Bool) (t : T Trie.Bytes) (q : List Bool)
    (h1 : q ≠ []) (h4 : q.length ≤ 4) :
    slotAt (batchOf c h p t) (idx q) = some ((slotP h p t q).map (render c)) := by
  have hp := idx_pos q h1
  simp only [slotAt, batchOf, layout, List.map_map]
  rw [if_neg (by omega), List.getElem?_map, paths30_get q h1 h4]
  rfl

/-- The batch `b`, seen from the slot at path `q`, holds the layout of `sub`. -/
def Lay (c : HashCtx) (b : Batch) (h : Nat) (p : List Bool) (sub : T Trie.Bytes) (q : List Bool) : Prop :=
  ∀ q', q' ≠ [] → q.length + q'.length ≤ 4 → slotAt b (idx (q ++ q')) = some ((slotP h p sub q').map (render c))

theorem lay_batchOf (c : HashCtx) (h : Nat) (p : List Bool) (t : T Trie.Bytes) : Lay c (batchOf c h p t) h p t [] := by
  intro q' hne hl
  simpa using slotAt_batchOf c h p t q' hne (by simpa using hl)

theorem lay_child {c : HashCtx} {b : Batch} {h : Nat} {p : List Bool} {l r : T Trie.Bytes} {q : List Bool}
    (lay : Lay c b h p (.node l r) q) (bit : Bool) (hq : q.length + 1 ≤ 4) :
    Lay c b (h - 1) (p ++ [bit]) (if bit then r else l) (q ++ [bit]) ∧
    slotAt b (idx (q ++ [bit])) = some ((refOf (h - 1) (p ++ [bit]) (if bit then r else l)).map (render c)) := by
  constructor
  · intro q' hne hl
    have := lay (bit :: q') (by simp) (by simp at hl ⊢; omega)
    rw [List.append_assoc]
    simp only [List.singleton_append]
    rw [this]
    cases q' with
    | nil => exact absurd rfl hne
    | cons x xs => simp [slotP]
  · have := lay [bit] (by simp) (by simpa using hq)
    rw [this]
    simp [slotP]

/-! ### well-formedness of the batches the model builds -/

/-- what makes a slot 33 bytes long -/
def SlotOK (Ht : Nat) : Slot Trie.Bytes → Prop
  | .ref _ _ _ t => t ≠ .empty
  | .key k => k.length = Ht
  | .val v => v.length = 32

theorem canon_child {V : Type} {h : Nat} {l r : T V} (cn : Canon h (.node l r)) (bit : Bool) :
    1 ≤ h ∧ Canon (h - 1) (if bit then r else l) := by
  cases h with
  | zero => exact absurd cn (by simp [Canon])
  | succ h =>
    obtain ⟨cl, cr, _, _⟩ := cn
    refine ⟨by omega, ?_⟩
    cases bit <;> simpa

theorem refOf_ok {Ht h : Nat} {p : List Bool} {t : T Trie.Bytes} {s : Slot Trie.Bytes}
    (e : refOf h p t = some s) : SlotOK Ht s := by
  cases t with
  | empty => simp [refOf] at e
  | leaf k v => simp only [refOf, Option.some.injEq] at e; subst e; simp [SlotOK]
  | node l r => simp only [refOf, Option.some.injEq] at e; subst e; simp [SlotOK]

theorem slotP_ok {Ht : Nat} : ∀ (q : List Bool) (h : Nat) (p : List Bool) (t : T Trie.Bytes) (s : Slot Trie.Bytes),
    Canon h t → Vals32 t → p.length + h = Ht → slotP h p t q = some s → SlotOK Ht s := by
  intro q
  induction q with
  | nil => intro h p t s _ _ _ e; simp [slotP] at e
  | cons b bs ih =>
    intro h p t s cn v32 hp e
    cases t with
    | empty => simp [slotP] at e
    | leaf k v =>
      simp only [slotP] at e
      split at e
      · cases b
        · simp only [Bool.false_eq_true, ↓reduceIte, Option.some.injEq] at e
          subst e
          simp only [SlotOK, List.length_append]
          simp only [Canon] at cn
          omega
        · simp only [↓reduceIte, Option.some.injEq] at e
          subst e
          exact v32
      · simp at e
    | node l r =>
      obtain ⟨h1, cc⟩ := canon_child cn b
      have vc : Vals32 (if b then r else l) := by cases b <;> simp [v32.1, v32.2]
      simp only [slotP] at e
      split at e
      · exact refOf_ok e
      · exact ih (h - 1) (p ++ [b]) _ s cc vc (by simp; omega) e

theorem render_len {c : HashCtx} {Ht : Nat} (ok : HashOK c Ht) {s : Slot Trie.Bytes} (w : SlotOK Ht s) :
    (render c s).length = 33 := by
  cases s with
  | ref f h p t =>
    rcases hashT_empty_or_len ok h p t with ⟨e, _⟩ | ⟨_, e⟩
    · exact absurd e w
    · simp [render, e]
  | key k => simp [render, ok.encLen k w]
  | val v => simp only [SlotOK] at w; simp [render, w]

theorem batchOf_wf {c : HashCtx} {Ht : Nat} (ok : HashOK c Ht) {h : Nat} {p : List Bool} {t : T Trie.Bytes}
    (cn : Canon h t) (v32 : Vals32 t) (hp : p.length + h = Ht) : TrieBatch.WF (batchOf c h p t) := by
  refine ⟨by simp [batchOf, layout, paths30_length], ?_, ?_⟩
  · intro s hs x hx
    simp only [batchOf, layout, List.map_map, List.mem_map] at hs
    obtain ⟨q, _, rfl⟩ := hs
    simp only [Function.comp] at hx
    cases e : slotP h p t q with
    | none => simp [e] at hx
    | some sl =>
      simp only [e, Option.map_some, Option.some.injEq] at hx
      subst hx
      exact render_len ok (slotP_ok q h p t sl cn v32 hp e)
  · intro hs
    cases t with
    | leaf k v => exact ⟨_, _, _, rfl⟩
    | empty => simp [batchOf, isLeaf] at hs
    | node l r => simp [batchOf, isLeaf] at hs

theorem serialize_ne_nil (b : Batch) (hl : b.slots.length = 30) : (serialize b).isEmpty = false := by
  have hb := bitsOf_eq b hl
  have hbl : (bitsOf b).length = 8 * 4 := by rw [hb]; simp [hl]
  obtain ⟨_, u2⟩ := unpack_pack (bitsOf b) 4 hbl
  cases h : serialize b with
  | nil =>
    have : (serialize b).length = 0 := by rw [h]; rfl
    simp [serialize, u2] at this
  | cons _ _ => rfl

/-! ### the store covers a tree -/

/-- every pair reads back from the store -/
def Covers (σ : Store) (ps : List (Trie.Bytes × Trie.Bytes)) : Prop := ∀ kv ∈ ps, σ kv.1 = some kv.2

theorem covers_head {c : HashCtx} {σ : Store} {n : Nat} {p : List Bool} {t : T Trie.Bytes}
    (cv : Covers σ (pairsOf c n p t)) (hne : t ≠ .empty) :
    σ (hashT c (4 * n) p t) = some (serialize (batchOf c (4 * n) p t)) := by
  cases n with
  | zero =>
    cases t with
    | empty => exact absurd rfl hne
    | leaf k v => exact cv (_, _) (List.mem_cons_self ..)
    | node l r => exact cv (_, _) (List.mem_cons_self ..)
  | succ n =>
    cases t with
    | empty => exact absurd rfl hne
    | leaf k v => exact cv (_, _) (List.mem_cons_self ..)
    | node l r => exact cv (_, _) (List.mem_cons_self ..)

theorem covers_sub {c : HashCtx} {σ : Store} {n : Nat} {p : List Bool} {t : T Trie.Bytes}
    (cv : Covers σ (pairsOf c (n + 1) p t)) (q : List Bool) (hq : q.length = 4) (s : T Trie.Bytes)
    (hd : descend t q = some s) : Covers σ (pairsOf c n (p ++ q) s) := by
  intro kv hkv
  apply cv
  cases t with
  | empty =>
    cases q with
    | nil => simp at hq
    | cons _ _ => simp [descend] at hd
  | leaf k v =>
    cases q with
    | nil => simp at hq
    | cons _ _ => simp [descend] at hd
  | node l r =>
    simp only [pairsOf, List.mem_cons, List.mem_flatMap]
    right
    exact ⟨q, mem_pathsN 4 q hq, by rw [hd]; exact hkv⟩

end Aergo.TrieStore
