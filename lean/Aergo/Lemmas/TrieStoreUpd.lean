/-
`updatedNodes` bookkeeping (C10), first part: the tree computed by `updU` is the tree of `Trie.update`
(the bookkeeping is a pure annotation), and `updUH` — the same on hash-annotated trees, what the model
driver executes — agrees with `updU` on correctly annotated trees.
-/
import Aergo.Lemmas.TrieStoreHash
import Aergo.Model.TrieStoreUpd

namespace Aergo.TrieStore
open Aergo.Trie Aergo.TrieBatch

variable {c : HashCtx}

/-! ### `updU` computes `update` -/

theorem interiorU_tree (val : ValFn) (h : Nat) (p : List Bool) (old : Trie.Bytes) (l r : T Trie.Bytes) (un : UN) :
    (interiorU c val h p old l r un).1 = (.node l r, false) := rfl

theorem moveUpU_tree (val : ValFn) (h : Nat) (p : List Bool) (old : Trie.Bytes) (l r : T Trie.Bytes) (un : UN) :
    (moveUpU c val h p old l r un).1 = moveUp l r := by
  cases l <;> cases r <;> rfl

theorem moveUp_node_of_not {V : Type} (l r : T V) :
    moveUp l r = (.node l r, false) ∨ (moveUp l r).2 = true := by
  cases l <;> cases r <;> simp [moveUp]

theorem splitCoreU_tree (val : ValFn) (h : Nat) (p : List Bool) (old : Trie.Bytes)
    (upd : Bool → T Trie.Bytes → List (KV Trie.Bytes) → UN → ResU)
    (updT : T Trie.Bytes → List (KV Trie.Bytes) → T Trie.Bytes × Bool)
    (hu : ∀ b t kvs un, (upd b t kvs un).1 = updT t kvs)
    (l r : T Trie.Bytes) (lk rk : List (KV Trie.Bytes)) (un : UN) :
    (splitCoreU c val h p old upd l r lk rk un).1 = splitCore updT l r lk rk := by
  have right : ∀ (rk' : List (KV Trie.Bytes)) (l0 : T Trie.Bytes) (un0 : UN),
      (match upd true r rk' un0 with
        | ((r', d), un1) => if d then moveUpU c val h p old l0 r' un1 else interiorU c val h p old l0 r' un1).1 =
      (match updT r rk' with
        | (r', d) => if d then moveUp l0 r' else (.node l0 r', false)) := by
    intro rk' l0 un0
    have e := hu true r rk' un0
    rcases hx : upd true r rk' un0 with ⟨⟨r', d⟩, un1⟩
    rw [hx] at e
    rw [← e]
    cases d
    · rfl
    · exact moveUpU_tree ..
  match lk, rk with
  | [], y :: ys => exact right _ l un
  | x :: xs, [] =>
    simp only [splitCoreU, splitCore]
    have e := hu false l (tails (x :: xs)) un
    rcases hx : upd false l (tails (x :: xs)) un with ⟨⟨l', d⟩, un1⟩
    rw [hx] at e
    rw [← e]
    cases d
    · rfl
    · exact moveUpU_tree ..
  | [], [] =>
    simp only [splitCoreU, splitCore]
    have e1 := hu false l (tails []) un
    rcases hx : upd false l (tails []) un with ⟨⟨l', dl⟩, un1⟩
    rw [hx] at e1
    have e2 := hu true r (tails []) un1
    rcases hy : upd true r (tails []) un1 with ⟨⟨r', dr⟩, un2⟩
    rw [hy] at e2
    rw [← e1, ← e2]
    cases h1 : (dl || dr)
    · rfl
    · exact moveUpU_tree ..
  | x :: xs, y :: ys =>
    simp only [splitCoreU, splitCore]
    have e1 := hu false l (tails (x :: xs)) un
    rcases hx : upd false l (tails (x :: xs)) un with ⟨⟨l', dl⟩, un1⟩
    rw [hx] at e1
    have e2 := hu true r (tails (y :: ys)) un1
    rcases hy : upd true r (tails (y :: ys)) un1 with ⟨⟨r', dr⟩, un2⟩
    rw [hy] at e2
    rw [← e1, ← e2]
    cases h1 : (dl || dr)
    · rfl
    · exact moveUpU_tree ..

theorem splitU_tree (val : ValFn) (h : Nat) (p : List Bool) (old : Trie.Bytes)
    (upd : Bool → T Trie.Bytes → List (KV Trie.Bytes) → UN → ResU)
    (updT : T Trie.Bytes → List (KV Trie.Bytes) → T Trie.Bytes × Bool)
    (hu : ∀ b t kvs un, (upd b t kvs un).1 = updT t kvs)
    (l r : T Trie.Bytes) (kvs : List (KV Trie.Bytes)) (un : UN) :
    (splitU c val h p old upd l r kvs un).1 = split updT l r kvs := by
  unfold splitU split
  split
  · rfl
  · rfl
  · rename_i n1 n2
    split
    · exact (n1 _ _ rfl rfl rfl).elim
    · exact (n2 _ rfl rfl rfl).elim
    · exact splitCoreU_tree val h p old upd updT hu l r _ _ un

/-- **The bookkeeping does not change what `update` computes.** -/
theorem updU_tree (val : ValFn) : ∀ (h : Nat) (p : List Bool) (t : T Trie.Bytes) (kvs : List (KV Trie.Bytes)) (un : UN),
    (updU c val h p t kvs un).1 = update h t kvs := by
  intro h
  induction h with
  | zero =>
    intro p t kvs un
    unfold updU update
    split <;> rfl
  | succ h ih =>
    intro p t kvs un
    have hu : ∀ (q : List Bool) b t kvs un, ((fun b => updU c val h (q ++ [b])) b t kvs un).1 = update h t kvs :=
      fun q b t kvs un => ih (q ++ [b]) t kvs un
    cases t with
    | empty =>
      simp only [updU, update]
      exact splitU_tree val (h + 1) p _ _ (update h) (hu p) ..
    | leaf sk sv =>
      simp only [updU, update]
      split
      · rfl
      · exact splitU_tree val (h + 1) p _ _ (update h) (hu p) ..
    | node l r =>
      simp only [updU, update]
      exact splitU_tree val (h + 1) p _ _ (update h) (hu p) ..

/-! ### `updUH` (hashes cached in the tree) agrees with `updU` -/

/-- every cached hash is the hash of the subtree below it -/
def WfH (c : HashCtx) : Nat → List Bool → TH → Prop
  | _, _, .empty => True
  | h, p, .leaf k v hs => hs = hashT c h p (.leaf k v)
  | h, p, .node l r hs =>
    hs = hashT c h p (.node l.erase r.erase) ∧ WfH c (h - 1) (p ++ [false]) l ∧ WfH c (h - 1) (p ++ [true]) r

theorem WfH.ref {h : Nat} {p : List Bool} {t : TH} (w : WfH c h p t) : t.ref = hashT c h p t.erase := by
  cases t with
  | empty => rfl
  | leaf k v hs => exact w
  | node l r hs => exact w.1

theorem WfH.root {h : Nat} {p : List Bool} {t : TH} (w : WfH c h p t) : t.root = oldRoot c h p t.erase := by
  cases t with
  | empty => rfl
  | leaf k v hs => exact w
  | node l r hs => exact w.1

/-- result of `updUH` against result of `updU` -/
def Sim (c : HashCtx) (h : Nat) (p : List Bool) (rH : ResUH) (r : ResU) : Prop :=
  rH.1.1.erase = r.1.1 ∧ rH.1.2 = r.1.2 ∧ rH.2 = r.2 ∧ WfH c h p rH.1.1

theorem mkLeaf_wf (h : Nat) (rp k : List Bool) (v : Trie.Bytes) :
    (mkLeaf c h rp k v).erase = .leaf k v ∧ WfH c h rp.reverse (mkLeaf c h rp k v) := by
  simp [mkLeaf, TH.erase, WfH, hashT, List.reverseAux_eq]

theorem mkNode_wf {h : Nat} {p : List Bool} {l r : TH} (wl : WfH c (h - 1) (p ++ [false]) l) (wr : WfH c (h - 1) (p ++ [true]) r) :
    (mkNode c l r).erase = .node l.erase r.erase ∧ WfH c h p (mkNode c l r) := by
  refine ⟨rfl, ?_, wl, wr⟩
  simp [hashT, wl.ref, wr.ref]

/-- the two recorded-value functions agree -/
def ValAgree (valH : ValFnH) (val : ValFn) : Prop := ∀ h rp t, valH h rp t = val h rp.reverse t.erase

theorem storeNodeUH_eq {valH : ValFnH} {val : ValFn} (va : ValAgree valH val) (un : UN) (h : Nat) (rp : List Bool) (new : TH)
    (old : Trie.Bytes) (w : WfH c h rp.reverse new) (hne : new.erase ≠ .empty) :
    storeNodeUH valH un h rp new old = storeNodeU c val un h rp.reverse new.erase old := by
  have hr : new.root = hashT c h rp.reverse new.erase := by
    rw [w.root]
    cases hnew : new.erase with
    | empty => exact absurd hnew hne
    | leaf _ _ => rfl
    | node _ _ => rfl
  simp only [storeNodeUH, storeNodeU, hr, va h rp new]

theorem interiorUH_sim {valH : ValFnH} {val : ValFn} (va : ValAgree valH val) (h : Nat) (rp : List Bool) (old : Trie.Bytes)
    (l r : TH) (un : UN) (wl : WfH c (h - 1) (rp.reverse ++ [false]) l) (wr : WfH c (h - 1) (rp.reverse ++ [true]) r) :
    Sim c h rp.reverse (interiorUH c valH h rp old l r un) (interiorU c val h rp.reverse old l.erase r.erase un) := by
  obtain ⟨e, w⟩ := mkNode_wf (c := c) (h := h) wl wr
  refine ⟨e, rfl, ?_, w⟩
  simp only [interiorUH, interiorU]
  split
  · rw [storeNodeUH_eq va un h rp _ old w (by rw [e]; simp), e]
  · rfl

theorem shortcutUpUH_sim {valH : ValFnH} {val : ValFn} (va : ValAgree valH val) (h : Nat) (rp : List Bool) (old : Trie.Bytes)
    (b : Bool) (k : List Bool) (v hs : Trie.Bytes) (un : UN)
    (hhs : hs = hashT c (h - 1) (rp.reverse ++ [b]) (.leaf k v)) :
    Sim c h rp.reverse (shortcutUpUH c valH h rp old b k v hs un) (shortcutUpU c val h rp.reverse old b k v un) := by
  obtain ⟨e, w⟩ := mkLeaf_wf (c := c) h rp (b :: k) v
  refine ⟨e, rfl, ?_, w⟩
  simp only [shortcutUpUH, shortcutUpU]
  split
  · rw [storeNodeUH_eq va un h rp _ old w (by rw [e]; simp), e]
  · rw [hhs]

theorem moveUpUH_sim {valH : ValFnH} {val : ValFn} (va : ValAgree valH val) (h : Nat) (rp : List Bool) (old : Trie.Bytes)
    (l r : TH) (un : UN) (wl : WfH c (h - 1) (rp.reverse ++ [false]) l) (wr : WfH c (h - 1) (rp.reverse ++ [true]) r) :
    Sim c h rp.reverse (moveUpUH c valH h rp old l r un) (moveUpU c val h rp.reverse old l.erase r.erase un) := by
  cases l with
  | empty =>
    cases r with
    | empty => exact ⟨rfl, rfl, rfl, trivial⟩
    | leaf k v hs => exact shortcutUpUH_sim va h rp old true k v hs un wr
    | node a b hs => exact interiorUH_sim va h rp old .empty (.node a b hs) un wl wr
  | leaf k v hs =>
    cases r with
    | empty => exact shortcutUpUH_sim va h rp old false k v hs un wl
    | leaf k' v' hs' => exact interiorUH_sim va h rp old (.leaf k v hs) (.leaf k' v' hs') un wl wr
    | node a b hs' => exact interiorUH_sim va h rp old (.leaf k v hs) (.node a b hs') un wl wr
  | node a b hs =>
    cases r with
    | empty => exact interiorUH_sim va h rp old (.node a b hs) .empty un wl wr
    | leaf k' v' hs' => exact interiorUH_sim va h rp old (.node a b hs) (.leaf k' v' hs') un wl wr
    | node a' b' hs' => exact interiorUH_sim va h rp old (.node a b hs) (.node a' b' hs') un wl wr

/-- what the recursive calls deliver -/
def UpdSim (c : HashCtx) (h : Nat) (rp : List Bool)
    (updH : Bool → TH → List (KV Trie.Bytes) → UN → ResUH) (upd : Bool → T Trie.Bytes → List (KV Trie.Bytes) → UN → ResU) : Prop :=
  ∀ b t kvs un, WfH c (h - 1) (rp.reverse ++ [b]) t → Sim c (h - 1) (rp.reverse ++ [b]) (updH b t kvs un) (upd b t.erase kvs un)

theorem splitCoreUH_sim {valH : ValFnH} {val : ValFn} (va : ValAgree valH val) (h : Nat) (rp : List Bool) (old : Trie.Bytes)
    {updH : Bool → TH → List (KV Trie.Bytes) → UN → ResUH} {upd : Bool → T Trie.Bytes → List (KV Trie.Bytes) → UN → ResU}
    (hu : UpdSim c h rp updH upd)
    (l r : TH) (lk rk : List (KV Trie.Bytes)) (un : UN)
    (wl : WfH c (h - 1) (rp.reverse ++ [false]) l) (wr : WfH c (h - 1) (rp.reverse ++ [true]) r) :
    Sim c h rp.reverse (splitCoreUH c valH h rp old updH l r lk rk un)
      (splitCoreU c val h rp.reverse old upd l.erase r.erase lk rk un) := by
  have one : ∀ (dl : Bool) (l' r' : TH) (un' : UN) (d1 d2 : Bool), d1 = d2 →
      WfH c (h - 1) (rp.reverse ++ [false]) l' → WfH c (h - 1) (rp.reverse ++ [true]) r' →
      Sim c h rp.reverse (if d1 then moveUpUH c valH h rp old l' r' un' else interiorUH c valH h rp old l' r' un')
        (if d2 then moveUpU c val h rp.reverse old l'.erase r'.erase un' else interiorU c val h rp.reverse old l'.erase r'.erase un') := by
    intro _ l' r' un' d1 d2 e w1 w2
    subst e
    cases d1
    · exact interiorUH_sim va h rp old l' r' un' w1 w2
    · exact moveUpUH_sim va h rp old l' r' un' w1 w2
  match lk, rk with
  | [], y :: ys =>
    simp only [splitCoreUH, splitCoreU]
    obtain ⟨e1, e2, e3, w⟩ := hu true r (tails (y :: ys)) un wr
    rcases hx : updH true r (tails (y :: ys)) un with ⟨⟨r', d⟩, un1⟩
    rcases hy : upd true r.erase (tails (y :: ys)) un with ⟨⟨r'', d'⟩, un1'⟩
    rw [hx, hy] at e1 e2 e3
    rw [hx] at w
    simp only at e1 e2 e3 w ⊢
    subst e1 e2 e3
    exact one false l r' un1 d d rfl wl w
  | x :: xs, [] =>
    simp only [splitCoreUH, splitCoreU]
    obtain ⟨e1, e2, e3, w⟩ := hu false l (tails (x :: xs)) un wl
    rcases hx : updH false l (tails (x :: xs)) un with ⟨⟨l', d⟩, un1⟩
    rcases hy : upd false l.erase (tails (x :: xs)) un with ⟨⟨l'', d'⟩, un1'⟩
    rw [hx, hy] at e1 e2 e3
    rw [hx] at w
    simp only at e1 e2 e3 w ⊢
    subst e1 e2 e3
    exact one false l' r un1 d d rfl w wr
  | [], [] =>
    simp only [splitCoreUH, splitCoreU]
    obtain ⟨e1, e2, e3, w⟩ := hu false l (tails []) un wl
    rcases hx : updH false l (tails []) un with ⟨⟨l', dl⟩, un1⟩
    rcases hy : upd false l.erase (tails []) un with ⟨⟨l'', dl'⟩, un1'⟩
    rw [hx, hy] at e1 e2 e3
    rw [hx] at w
    simp only at e1 e2 e3 w ⊢
    subst e1 e2 e3
    obtain ⟨f1, f2, f3, w'⟩ := hu true r (tails []) un1 wr
    rcases hx' : updH true r (tails []) un1 with ⟨⟨r', dr⟩, un2⟩
    rcases hy' : upd true r.erase (tails []) un1 with ⟨⟨r'', dr'⟩, un2'⟩
    rw [hx', hy'] at f1 f2 f3
    rw [hx'] at w'
    simp only at f1 f2 f3 w' ⊢
    subst f1 f2 f3
    exact one false l' r' un2 (dl || dr) (dl || dr) rfl w w'
  | x :: xs, y :: ys =>
    simp only [splitCoreUH, splitCoreU]
    obtain ⟨e1, e2, e3, w⟩ := hu false l (tails (x :: xs)) un wl
    rcases hx : updH false l (tails (x :: xs)) un with ⟨⟨l', dl⟩, un1⟩
    rcases hy : upd false l.erase (tails (x :: xs)) un with ⟨⟨l'', dl'⟩, un1'⟩
    rw [hx, hy] at e1 e2 e3
    rw [hx] at w
    simp only at e1 e2 e3 w ⊢
    subst e1 e2 e3
    obtain ⟨f1, f2, f3, w'⟩ := hu true r (tails (y :: ys)) un1 wr
    rcases hx' : updH true r (tails (y :: ys)) un1 with ⟨⟨r', dr⟩, un2⟩
    rcases hy' : upd true r.erase (tails (y :: ys)) un1 with ⟨⟨r'', dr'⟩, un2'⟩
    rw [hx', hy'] at f1 f2 f3
    rw [hx'] at w'
    simp only at f1 f2 f3 w' ⊢
    subst f1 f2 f3
    exact one false l' r' un2 (dl || dr) (dl || dr) rfl w w'

theorem splitUH_sim {valH : ValFnH} {val : ValFn} (va : ValAgree valH val) (h : Nat) (rp : List Bool) (old : Trie.Bytes)
    {updH : Bool → TH → List (KV Trie.Bytes) → UN → ResUH} {upd : Bool → T Trie.Bytes → List (KV Trie.Bytes) → UN → ResU}
    (hu : UpdSim c h rp updH upd)
    (l r : TH) (kvs : List (KV Trie.Bytes)) (un : UN)
    (wl : WfH c (h - 1) (rp.reverse ++ [false]) l) (wr : WfH c (h - 1) (rp.reverse ++ [true]) r) :
    Sim c h rp.reverse (splitUH c valH h rp old updH l r kvs un) (splitU c val h rp.reverse old upd l.erase r.erase kvs un) := by
  have gen := splitCoreUH_sim va h rp old hu l r (kvs.takeWhile fun kv => !headBit kv.1) (kvs.dropWhile fun kv => !headBit kv.1) un wl wr
  -- the two special cases need both subtrees empty
  by_cases hE : l = .empty ∧ r = .empty
  · obtain ⟨rfl, rfl⟩ := hE
    match kvs with
    | [(k, some v)] =>
      obtain ⟨e, w⟩ := mkLeaf_wf (c := c) h rp k v
      refine ⟨e, rfl, ?_, w⟩
      simp only [splitUH, splitU, TH.erase]
      split
      · rw [storeNodeUH_eq va un h rp _ old w (by rw [e]; simp), e]
      · rfl
    | [(k, none)] => exact ⟨rfl, rfl, rfl, trivial⟩
    | [] => simpa [splitUH, splitU, TH.erase] using gen
    | (k, none) :: y :: ys => simpa [splitUH, splitU, TH.erase] using gen
    | (k, some v) :: y :: ys => simpa [splitUH, splitU, TH.erase] using gen
  · have e1 : splitUH c valH h rp old updH l r kvs un =
        splitCoreUH c valH h rp old updH l r (kvs.takeWhile fun kv => !headBit kv.1) (kvs.dropWhile fun kv => !headBit kv.1) un := by
      unfold splitUH
      split
      · exact absurd ⟨rfl, rfl⟩ hE
      · exact absurd ⟨rfl, rfl⟩ hE
      · rfl
    have hE' : ¬(l.erase = .empty ∧ r.erase = .empty) := by
      intro ⟨a, b⟩
      apply hE
      constructor
      · cases l <;> simp_all [TH.erase]
      · cases r <;> simp_all [TH.erase]
    have e2 : splitU c val h rp.reverse old upd l.erase r.erase kvs un =
        splitCoreU c val h rp.reverse old upd l.erase r.erase (kvs.takeWhile fun kv => !headBit kv.1) (kvs.dropWhile fun kv => !headBit kv.1) un := by
      unfold splitU
      split
      · rename_i a b; exact absurd ⟨a, b⟩ hE'
      · rename_i a b; exact absurd ⟨a, b⟩ hE'
      · rfl
    rw [e1, e2]
    exact gen

/-- **`updUH` is `updU`** on a correctly annotated tree: same tree, same flag, same `updatedNodes`, and the result is
correctly annotated again. (`rp` is the reversed path prefix.) -/
theorem updUH_sim {valH : ValFnH} {val : ValFn} (va : ValAgree valH val) :
    ∀ (h : Nat) (rp : List Bool) (t : TH) (kvs : List (KV Trie.Bytes)) (un : UN), WfH c h rp.reverse t →
      Sim c h rp.reverse (updUH c valH h rp t kvs un) (updU c val h rp.reverse t.erase kvs un) := by
  intro h
  induction h with
  | zero =>
    intro rp t kvs un w
    match kvs with
    | (k, some v) :: _ =>
      obtain ⟨e, w'⟩ := mkLeaf_wf (c := c) 0 rp k v
      refine ⟨e, rfl, ?_, w'⟩
      simp only [updUH, updU]
      rw [storeNodeUH_eq va un 0 rp _ _ w' (by rw [e]; simp), e, w.root]
    | (k, none) :: _ =>
      refine ⟨rfl, rfl, ?_, trivial⟩
      simp only [updUH, updU, w.root]
    | [] => exact ⟨rfl, rfl, rfl, trivial⟩
  | succ h ih =>
    intro rp t kvs un w
    have hu : UpdSim c (h + 1) rp (fun b => updUH c valH h (b :: rp)) (fun b => updU c val h (rp.reverse ++ [b])) := by
      intro b t' kvs' un' w'
      have := ih (b :: rp) t' kvs' un' (by simpa using w')
      simpa using this
    have wE : WfH c (h + 1 - 1) (rp.reverse ++ [false]) .empty ∧ WfH c (h + 1 - 1) (rp.reverse ++ [true]) .empty := ⟨trivial, trivial⟩
    cases t with
    | empty =>
      simp only [updUH, updU, TH.erase, TH.root, oldRoot]
      have := splitUH_sim va (h + 1) rp (if (h + 1) % 4 = 0 then [] else []) hu .empty .empty kvs un wE.1 wE.2
      simpa [TH.erase] using this
    | leaf sk sv hs =>
      have hr : (TH.leaf sk sv hs).root = oldRoot c (h + 1) rp.reverse (.leaf sk sv) := w.root
      simp only [updUH, updU, TH.erase, hr]
      split
      · exact ⟨rfl, rfl, rfl, trivial⟩
      · have := splitUH_sim va (h + 1) rp (if (h + 1) % 4 = 0 then oldRoot c (h + 1) rp.reverse (.leaf sk sv) else []) hu
          .empty .empty (addShortcut kvs sk sv)
          (if (h + 1) % 4 = 0 then delU un (if (h + 1) % 4 = 0 then oldRoot c (h + 1) rp.reverse (.leaf sk sv) else []) else un) wE.1 wE.2
        simpa [TH.erase] using this
    | node l r hs =>
      have hr : (TH.node l r hs).root = oldRoot c (h + 1) rp.reverse (.node l.erase r.erase) := w.root
      simp only [updUH, updU, TH.erase, hr]
      exact splitUH_sim va (h + 1) rp _ hu l r kvs un w.2.1 w.2.2

end Aergo.TrieStore
