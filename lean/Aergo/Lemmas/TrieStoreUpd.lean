/-
`updatedNodes` bookkeeping (C10), first part: the tree computed by `updU` is the tree of `Trie.update`
(the bookkeeping is a pure annotation), and `updUH` — the same on hash-annotated trees, what the model
driver executes — agrees with `updU` on correctly annotated trees.
-/
import Aergo.Lemmas.TrieStoreHash
import Aergo.Model.TrieStoreUpd

namespace Aergo.TrieStore
open Aergo.Trie Aergo.TrieBatch

variable {c : HashCtx}

/-! ### `updU` computes `update` -/

theorem interiorU_tree (val : ValFn) (h : Nat) (p : List Bool) (old : Trie.Bytes) (l r : T Trie.Bytes) (un : UN) :
    (interiorU c val h p old l r un).1 = (.node l r, false) := rfl

theorem moveUpU_tree (val : ValFn) (h : Nat) (p : List Bool) (old : Trie.Bytes) (l r : T Trie.Bytes) (un : UN) :
    (moveUpU c val h p old l r un).1 = moveUp l r := by
  cases l <;> cases r <;> rfl

theorem moveUp_node_of_not {V : Type} (l r : T V) :
    moveUp l r = (.node l r, false) ∨ (moveUp l r).2 = true := by
  cases l <;> cases r <;> simp [moveUp]

theorem splitCoreU_tree (val : ValFn) (h : Nat) (p : List Bool) (old : Trie.Bytes)
    (upd : Bool → T Trie.Bytes → List (KV Trie.Bytes) → UN → ResU)
    (updT : T Trie.Bytes → List (KV Trie.Bytes) → T Trie.Bytes × Bool)
    (hu : ∀ b t kvs un, (upd b t kvs un).1 = updT t kvs)
    (l r : T Trie.Bytes) (lk rk : List (KV Trie.Bytes)) (un : UN) :
    (splitCoreU c val h p old upd l r lk rk un).1 = splitCore updT l r lk rk := by
  have right : ∀ (rk' : List (KV Trie.Bytes)) (l0 : T Trie.Bytes) (un0 : UN),
      (match upd true r rk' un0 with
        | ((r', d), un1) => if d then moveUpU c val h p old l0 r' un1 else interiorU c val h p old l0 r' un1).1 =
      (match updT r rk' with
        | (r', d) => if d then moveUp l0 r' else (.node l0 r', false)) := by
    intro rk' l0 un0
    have e := hu true r rk' un0
    rcases hx : upd true r rk' un0 with ⟨⟨r', d⟩, un1⟩
    rw [hx] at e
    rw [← e]
    cases d
    · rfl
    · exact moveUpU_tree ..
  match lk, rk with
  | [], y :: ys => exact right _ l un
  | x :: xs, [] =>
    simp only [splitCoreU, splitCore]
    have e := hu false l (tails (x :: xs)) un
    rcases hx : upd false l (tails (x :: xs)) un with ⟨⟨l', d⟩, un1⟩
    rw [hx] at e
    rw [← e]
    cases d
    · rfl
    · exact moveUpU_tree ..
  | [], [] =>
    simp only [splitCoreU, splitCore]
    have e1 := hu false l (tails []) un
    rcases hx : upd false l (tails []) un with ⟨⟨l', dl⟩, un1⟩
    rw [hx] at e1
    have e2 := hu true r (tails []) un1
    rcases hy : upd true r (tails []) un1 with ⟨⟨r', dr⟩, un2⟩
    rw [hy] at e2
    rw [← e1, ← e2]
    cases h1 : (dl || dr)
    · rfl
    · exact moveUpU_tree ..
  | x :: xs, y :: ys =>
    simp only [splitCoreU, splitCore]
    have e1 := hu false l (tails (x :: xs)) un
    rcases hx : upd false l (tails (x :: xs)) un with ⟨⟨l', dl⟩, un1⟩
    rw [hx] at e1
    have e2 := hu true r (tails (y :: ys)) un1
    rcases hy : upd true r (tails (y :: ys)) un1 with ⟨⟨r', dr⟩, un2⟩
    rw [hy] at e2
    rw [← e1, ← e2]
    cases h1 : (dl || dr)
    · rfl
    · exact moveUpU_tree ..

theorem splitU_tree (val : ValFn) (h : Nat) (p : List Bool) (old : Trie.Bytes)
    (upd : Bool → T Trie.Bytes → List (KV Trie.Bytes) → UN → ResU)
    (updT : T Trie.Bytes → List (KV Trie.Bytes) → T Trie.Bytes × Bool)
    (hu : ∀ b t kvs un, (upd b t kvs un).1 = updT t kvs)
    (l r : T Trie.Bytes) (kvs : List (KV Trie.Bytes)) (un : UN) :
    (splitU c val h p old upd l r kvs un).1 = split updT l r kvs := by
  unfold splitU split
  split
  · rfl
  · rfl
  · rename_i n1 n2
    split
    · exact (n1 _ _ rfl rfl rfl).elim
    · exact (n2 _ rfl rfl rfl).elim
    · exact splitCoreU_tree val h p old upd updT hu l r _ _ un

/-- **The bookkeeping does not change what `update` computes.** -/
theorem updU_tree (val : ValFn) : ∀ (h : Nat) (p : List Bool) (t : T Trie.Bytes) (kvs : List (KV Trie.Bytes)) (un : UN),
    (updU c val h p t kvs un).1 = update h t kvs := by
  intro h
  induction h with
  | zero =>
    intro p t kvs un
    unfold updU update
    split <;> rfl
  | succ h ih =>
    intro p t kvs un
    have hu : ∀ (q : List Bool) b t kvs un, ((fun b => updU c val h (q ++ [b])) b t kvs un).1 = update h t kvs :=
      fun q b t kvs un => ih (q ++ [b]) t kvs un
    cases t with
    | empty =>
      simp only [updU, update]
      exact splitU_tree val (h + 1) p _ _ (update h) (hu p) ..
    | leaf sk sv =>
      simp only [updU, update]
      split
      · rfl
      · exact splitU_tree val (h + 1) p _ _ (update h) (hu p) ..
    | node l r =>
      simp only [updU, update]
      exact splitU_tree val (h + 1) p _ _ (update h) (hu p) ..

end Aergo.TrieStore
