/-
The core refinement lemma of C10: on a canonical tree and a sorted batch, `Trie.update` returns a
canonical tree whose lookup function is the old one overridden by the batch.
-/
import Aergo.Lemmas.TrieBasic

namespace Aergo.Trie
variable {V : Type}

/-- not an interior node -/
def small : T V → Bool
  | .node _ _ => false
  | _ => true

/-- Canonical shape at height `h`: shortcut keys have `h` remaining bits, interior nodes exist only
above height 0 and hold at least two keys (so a lone key always sits at the highest possible node). -/
def Canon : Nat → T V → Prop
  | _, .empty => True
  | h, .leaf k _ => k.length = h
  | 0, .node _ _ => False
  | h + 1, .node l r => Canon h l ∧ Canon h r ∧ ¬(l = .empty ∧ small r = true) ∧ ¬(small l = true ∧ r = .empty)

/-- What `update` must deliver on input `(t, kvs)`; the last two clauses describe the `deleted` flag. -/
structure Good (h : Nat) (t : T V) (kvs : List (KV V)) (res : T V × Bool) : Prop where
  canon : Canon h res.1
  sem : ∀ k, k.length = h → get res.1 k = applyF (get t) kvs k
  empty_flag : res.1 = .empty → res.2 = true
  flag : res.2 = false → small res.1 = true → small t = true ∧ (t = .empty → kvs.length = 1)

theorem canon_small_of_zero {t : T V} (c : Canon 0 t) : small t = true := by
  cases t <;> simp_all [Canon, small]

theorem moveUp_canon {h : Nat} {l r : T V} (cl : Canon h l) (cr : Canon h r) :
    Canon (h + 1) (moveUp l r).1 := by
  cases l <;> cases r <;> simp_all [moveUp, Canon, small]

theorem moveUp_get {l r : T V} (b : Bool) (k : List Bool) :
    get (moveUp l r).1 (b :: k) = if b then get r k else get l k := by
  cases l <;> cases r <;> cases b <;> simp [moveUp, get]

theorem moveUp_empty_flag {l r : T V} (h : (moveUp l r).1 = .empty) : (moveUp l r).2 = true := by
  cases l <;> cases r <;> simp_all [moveUp]

theorem moveUp_flag {l r : T V} (h : (moveUp l r).2 = false) : small (moveUp l r).1 = false := by
  cases l <;> cases r <;> simp_all [moveUp, small]

theorem get_node (l r : T V) (b : Bool) (k : List Bool) :
    get (T.node l r) (b :: k) = if b then get r k else get l k := by
  cases b <;> simp [get]

theorem applyF_split {h : Nat} {kvs : List (KV V)} (w : WF (h + 1) kvs) (l r : T V) (b : Bool) (k : List Bool) :
    applyF (get (T.node l r)) kvs (b :: k) =
      if b then applyF (get r) (tails (rkeys kvs)) k else applyF (get l) (tails (lkeys kvs)) k := by
  simp only [applyF, look_split w, get_node]
  cases b <;> simp

theorem key_cases {h : Nat} (k : List Bool) (hk : k.length = h + 1) : ∃ b k', k = b :: k' ∧ k'.length = h := by
  match k, hk with
  | b :: k', hk => exact ⟨b, k', rfl, by simpa using hk⟩

theorem tails_length (l : List (KV V)) : (tails l).length = l.length := by simp [tails]

theorem tails_ne_nil {l : List (KV V)} (h : l ≠ []) : tails l ≠ [] := by
  cases l <;> simp_all [tails]

theorem applyF_nil (f : List Bool → Option V) (k : List Bool) : applyF f [] k = f k := rfl

theorem split_eq_gen (upd : T V → List (KV V) → T V × Bool) (l r : T V) (kvs : List (KV V))
    (hg : ¬(l = .empty ∧ r = .empty ∧ kvs.length = 1)) : split upd l r kvs = splitGen upd l r kvs := by
  unfold split
  split
  · exact absurd ⟨rfl, rfl, rfl⟩ hg
  · exact absurd ⟨rfl, rfl, rfl⟩ hg
  · rfl

theorem splitCore_good {h : Nat} (upd : T V → List (KV V) → T V × Bool)
    (ih : ∀ t kvs, Canon h t → WF h kvs → kvs ≠ [] → Good h t kvs (upd t kvs))
    {l r : T V} (cl : Canon h l) (cr : Canon h r)
    (hlr : (¬(l = .empty ∧ small r = true) ∧ ¬(small l = true ∧ r = .empty)) ∨ (l = .empty ∧ r = .empty))
    (lk rk : List (KV V)) (wl : WF h (tails lk)) (wr : WF h (tails rk)) (hne : lk ≠ [] ∨ rk ≠ [])
    (hg : l = .empty → r = .empty → lk.length + rk.length ≠ 1) :
    Canon (h + 1) (splitCore upd l r lk rk).1
    ∧ (∀ b k, k.length = h → get (splitCore upd l r lk rk).1 (b :: k) =
        if b then applyF (get r) (tails rk) k else applyF (get l) (tails lk) k)
    ∧ ((splitCore upd l r lk rk).1 = .empty → (splitCore upd l r lk rk).2 = true)
    ∧ ((splitCore upd l r lk rk).2 = false → small (splitCore upd l r lk rk).1 = false) := by
  -- facts about a child that was updated with a non-empty batch and came back unflagged
  have notSmallR : rk ≠ [] → (upd r (tails rk)).2 = false → l = .empty → lk = [] →
      small (upd r (tails rk)).1 = true → False := by
    intro hr hd hl hlk hs
    have G := ih r (tails rk) cr wr (tails_ne_nil hr)
    obtain ⟨sr, hlen⟩ := G.flag hd hs
    rcases hlr with ⟨h1, _⟩ | ⟨_, h2⟩
    · exact h1 ⟨hl, sr⟩
    · have := hlen h2
      rw [tails_length] at this
      exact hg hl h2 (by simp [hlk, this])
  have notSmallL : lk ≠ [] → (upd l (tails lk)).2 = false → r = .empty → rk = [] →
      small (upd l (tails lk)).1 = true → False := by
    intro hl' hd hr hrk hs
    have G := ih l (tails lk) cl wl (tails_ne_nil hl')
    obtain ⟨sl, hlen⟩ := G.flag hd hs
    rcases hlr with ⟨_, h1⟩ | ⟨h2, _⟩
    · exact h1 ⟨sl, hr⟩
    · have := hlen h2
      rw [tails_length] at this
      exact hg h2 hr (by simp [hrk, this])
  match lk, rk, hne with
  | [], y :: ys, _ =>
    have G := ih r (tails (y :: ys)) cr wr (tails_ne_nil (by simp))
    simp only [splitCore]
    cases hd : (upd r (tails (y :: ys))).2 with
    | true =>
      simp only [↓reduceIte]
      refine ⟨moveUp_canon cl G.canon, ?_, moveUp_empty_flag, moveUp_flag⟩
      intro b k hk
      rw [moveUp_get]
      cases b
      · simp [tails, applyF_nil]
      · simpa using G.sem k hk
    | false =>
      simp only [Bool.false_eq_true, ↓reduceIte]
      refine ⟨⟨cl, G.canon, ?_, ?_⟩, ?_, by simp, by simp [small]⟩
      · rintro ⟨hl, hs⟩
        exact notSmallR (by simp) hd hl rfl hs
      · rintro ⟨_, he⟩
        have := G.empty_flag he
        rw [hd] at this; cases this
      · intro b k hk
        rw [get_node]
        cases b
        · simp [tails, applyF_nil]
        · simpa using G.sem k hk
  | x :: xs, [], _ =>
    have G := ih l (tails (x :: xs)) cl wl (tails_ne_nil (by simp))
    simp only [splitCore]
    cases hd : (upd l (tails (x :: xs))).2 with
    | true =>
      simp only [↓reduceIte]
      refine ⟨moveUp_canon G.canon cr, ?_, moveUp_empty_flag, moveUp_flag⟩
      intro b k hk
      rw [moveUp_get]
      cases b
      · simpa using G.sem k hk
      · simp [tails, applyF_nil]
    | false =>
      simp only [Bool.false_eq_true, ↓reduceIte]
      refine ⟨⟨G.canon, cr, ?_, ?_⟩, ?_, by simp, by simp [small]⟩
      · rintro ⟨he, _⟩
        have := G.empty_flag he
        rw [hd] at this; cases this
      · rintro ⟨hs, hr⟩
        exact notSmallL (by simp) hd hr rfl hs
      · intro b k hk
        rw [get_node]
        cases b
        · simpa using G.sem k hk
        · simp [tails, applyF_nil]
  | x :: xs, y :: ys, _ =>
    have Gl := ih l (tails (x :: xs)) cl wl (tails_ne_nil (by simp))
    have Gr := ih r (tails (y :: ys)) cr wr (tails_ne_nil (by simp))
    simp only [splitCore]
    have semB : ∀ (t' : T V), (∀ b k, get t' (b :: k) = if b then get (upd r (tails (y :: ys))).1 k else get (upd l (tails (x :: xs))).1 k) →
        ∀ b k, k.length = h → get t' (b :: k) =
          if b then applyF (get r) (tails (y :: ys)) k else applyF (get l) (tails (x :: xs)) k := by
      intro t' ht b k hk
      rw [ht]
      cases b
      · simpa using Gl.sem k hk
      · simpa using Gr.sem k hk
    cases hd : ((upd l (tails (x :: xs))).2 || (upd r (tails (y :: ys))).2) with
    | true =>
      simp only [↓reduceIte]
      exact ⟨moveUp_canon Gl.canon Gr.canon, semB _ (fun b k => moveUp_get b k), moveUp_empty_flag, moveUp_flag⟩
    | false =>
      simp only [Bool.false_eq_true, ↓reduceIte]
      have hdl : (upd l (tails (x :: xs))).2 = false := by
        cases h1 : (upd l (tails (x :: xs))).2 <;> simp_all
      have hdr : (upd r (tails (y :: ys))).2 = false := by
        cases h1 : (upd r (tails (y :: ys))).2 <;> simp_all
      refine ⟨⟨Gl.canon, Gr.canon, ?_, ?_⟩, semB _ (fun b k => get_node _ _ b k), by simp, by simp [small]⟩
      · rintro ⟨he, _⟩
        have := Gl.empty_flag he
        rw [hdl] at this; cases this
      · rintro ⟨_, he⟩
        have := Gr.empty_flag he
        rw [hdr] at this; cases this
  | [], [], hne => exact absurd hne (by simp)

/-- One level of `update`, given that the recursive call is good one level down. -/
theorem splitGen_good {h : Nat} (upd : T V → List (KV V) → T V × Bool)
    (ih : ∀ t kvs, Canon h t → WF h kvs → kvs ≠ [] → Good h t kvs (upd t kvs))
    {l r : T V} (cl : Canon h l) (cr : Canon h r)
    (hlr : (¬(l = .empty ∧ small r = true) ∧ ¬(small l = true ∧ r = .empty)) ∨ (l = .empty ∧ r = .empty))
    {kvs : List (KV V)} (w : WF (h + 1) kvs) (hne : kvs ≠ [])
    (hg : ¬(l = .empty ∧ r = .empty ∧ kvs.length = 1)) :
    Canon (h + 1) (splitGen upd l r kvs).1
    ∧ (∀ k, k.length = h + 1 → get (splitGen upd l r kvs).1 k = applyF (get (T.node l r)) kvs k)
    ∧ ((splitGen upd l r kvs).1 = .empty → (splitGen upd l r kvs).2 = true)
    ∧ ((splitGen upd l r kvs).2 = false → small (splitGen upd l r kvs).1 = false) := by
  have wl : WF (h + 1) (lkeys kvs) := w.sublist (List.takeWhile_sublist _)
  have wr : WF (h + 1) (rkeys kvs) := w.sublist (List.dropWhile_sublist _)
  have wtl : WF h (tails (lkeys kvs)) := tails_wf wl lkeys_head
  have wtr : WF h (tails (rkeys kvs)) := tails_wf wr (rkeys_head w)
  have happ := lkeys_append_rkeys kvs
  have hne' : lkeys kvs ≠ [] ∨ rkeys kvs ≠ [] := by
    by_cases h1 : lkeys kvs = []
    · right; intro h2; rw [h1, h2] at happ; exact hne happ.symm
    · exact Or.inl h1
  have hlen : (lkeys kvs).length + (rkeys kvs).length = kvs.length := by
    rw [← List.length_append, happ]
  obtain ⟨c, s, e, f⟩ := splitCore_good upd ih cl cr hlr (lkeys kvs) (rkeys kvs) wtl wtr hne'
    (fun hl hr hh => hg ⟨hl, hr, by omega⟩)
  refine ⟨c, ?_, e, f⟩
  intro k hk
  obtain ⟨b, k', rfl, hk'⟩ := key_cases k hk
  rw [applyF_split w]
  exact s b k' hk'

theorem applyF_congr {f g : List Bool → Option V} (kvs : List (KV V)) (k : List Bool) (h : f k = g k) :
    applyF f kvs k = applyF g kvs k := by
  simp only [applyF]; split <;> simp_all

/-- `split` on a subtree that is (considered) empty. -/
theorem split_empty_good {h : Nat} (upd : T V → List (KV V) → T V × Bool)
    (ih : ∀ t kvs, Canon h t → WF h kvs → kvs ≠ [] → Good h t kvs (upd t kvs))
    {kvs : List (KV V)} (w : WF (h + 1) kvs) (hne : kvs ≠ []) :
    Canon (h + 1) (split upd .empty .empty kvs).1
    ∧ (∀ k, k.length = h + 1 → get (split upd .empty .empty kvs).1 k = applyF (fun _ => none) kvs k)
    ∧ ((split upd .empty .empty kvs).1 = .empty → (split upd .empty .empty kvs).2 = true)
    ∧ ((split upd .empty .empty kvs).2 = false → small (split upd .empty .empty kvs).1 = true → kvs.length = 1) := by
  by_cases hl : kvs.length = 1
  · match kvs, hl with
    | [(k, ov)], _ =>
      have hk := w.1 (k, ov) (by simp)
      cases ov with
      | some v =>
        refine ⟨by simpa [split, Canon] using hk, ?_, by simp [split], by simp⟩
        intro k' _
        simp only [split, get, applyF, look]
        split <;> simp_all
      | none =>
        refine ⟨by simp [split, Canon], ?_, by simp [split], by simp⟩
        intro k' _
        simp only [split, get, applyF, look]
        split <;> simp_all
  · have hg : ¬((T.empty : T V) = .empty ∧ (T.empty : T V) = .empty ∧ kvs.length = 1) := fun h => hl h.2.2
    rw [split_eq_gen _ _ _ _ hg]
    obtain ⟨c, s, e, f⟩ := splitGen_good upd ih (l := .empty) (r := .empty) (by simp [Canon]) (by simp [Canon])
      (Or.inr ⟨rfl, rfl⟩) w hne hg
    refine ⟨c, ?_, e, ?_⟩
    · intro k hk
      rw [s k hk]
      apply applyF_congr
      obtain ⟨b, k', rfl, _⟩ := key_cases k hk
      cases b <;> simp [get]
    · intro h1 h2
      rw [f h1] at h2; cases h2

/-- **`Trie.update` refines the map update** on canonical trees and sorted batches, at every height. -/
theorem update_good : ∀ (h : Nat) (t : T V) (kvs : List (KV V)),
    Canon h t → WF h kvs → kvs ≠ [] → Good h t kvs (update h t kvs) := by
  intro h
  induction h with
  | zero =>
    intro t kvs c w hne
    have hlen := w.zero_length
    match kvs, hne, hlen with
    | [(k, ov)], _, _ =>
      have hk : k = [] := List.length_eq_zero_iff.mp (w.1 (k, ov) (by simp))
      subst hk
      have key0 : ∀ k' : List Bool, k'.length = 0 → k' = [] := fun k' h => List.length_eq_zero_iff.mp h
      cases ov with
      | some v =>
        refine ⟨by simp [update, Canon], ?_, by simp [update], ?_⟩
        · intro k' hk'; rw [key0 k' hk']; simp [update, get, applyF, look]
        · intro _ _; exact ⟨canon_small_of_zero c, fun _ => rfl⟩
      | none =>
        refine ⟨by simp [update, Canon], ?_, by simp [update], by simp [update]⟩
        intro k' hk'; rw [key0 k' hk']; simp [update, get, applyF, look]
  | succ h ih =>
    intro t kvs c w hne
    cases t with
    | empty =>
      obtain ⟨c', s, e, f⟩ := split_empty_good (update h) ih w hne
      refine ⟨by simpa [update] using c', ?_, by simpa [update] using e, ?_⟩
      · intro k hk
        have := s k hk
        simpa [update, get] using this
      · intro h1 h2
        exact ⟨rfl, fun _ => f (by simpa [update] using h1) (by simpa [update] using h2)⟩
    | leaf sk sv =>
      have hsk : sk.length = h + 1 := c
      have e1 : addShortcut kvs sk sv = addSc sk sv kvs := addShortcut_eq sk sv kvs w hne
      have w' : WF (h + 1) (addSc sk sv kvs) := addSc_wf sv w hsk
      simp only [update, e1]
      cases hE : (addSc sk sv kvs).isEmpty with
      | true =>
        have hnil : addSc sk sv kvs = [] := by simpa using hE
        simp only [↓reduceIte]
        refine ⟨by simp [Canon], ?_, by simp, by simp⟩
        intro k _
        rw [← look_addSc sk sv kvs w.2 k, hnil]
        simp [get, applyF, look]
      | false =>
        have hne' : addSc sk sv kvs ≠ [] := by
          intro e; rw [e] at hE; simp at hE
        simp only [Bool.false_eq_true, ↓reduceIte]
        obtain ⟨c', s, e, _⟩ := split_empty_good (update h) ih w' hne'
        refine ⟨c', ?_, e, fun _ _ => ⟨rfl, fun h => by cases h⟩⟩
        intro k hk
        rw [s k hk, look_addSc sk sv kvs w.2 k]
    | node l r =>
      obtain ⟨cl, cr, n1, n2⟩ := c
      have hg : ¬(l = .empty ∧ r = .empty ∧ kvs.length = 1) := by
        rintro ⟨hl, hr, _⟩
        exact n1 ⟨hl, by simp [hr, small]⟩
      simp only [update]
      rw [split_eq_gen _ _ _ _ hg]
      obtain ⟨c', s, e, f⟩ := splitGen_good (update h) ih cl cr (Or.inl ⟨n1, n2⟩) w hne hg
      refine ⟨c', s, e, ?_⟩
      intro h1 h2
      rw [f h1] at h2; cases h2

end Aergo.Trie
