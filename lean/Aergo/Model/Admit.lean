/-
Model layer `Admit` (C14): what a node does with a transaction received from a client or a peer,
as far as *crashing* is concerned.  Every function returns a three-way `Outcome`:

    ok a | reject class | panic site

Go constructs are modelled with their failure: `a[i]` out of range ⇒ `panic`, `x.(string)` on a
non-string ⇒ `panic`, `v, ok := x.(string)` ⇒ no panic, `a[i:j]` beyond the capacity ⇒ `panic`.
The functions are transcriptions (Go → Lean, branch by branch, in source order) of

  types/transaction.go         Validate, validate, ValidateSystemTx, validateNameTx, _validateNameTx,
                               validateAllowedChar, ValidateWithSenderState (governance part)
  contract/system/validation.go ValidateSystemTx, validateFor{Staking,Vote,Unstaking}, parseIDForProposal,
                               validateById;  execute.go newSysCmd;  vote.go newVoteCmd, voteCmd.run;
                               voteresult.go SubVote/AddVote (only their slicing / nil arithmetic)
  contract/name/execute.go     ValidateNameTx, ExecuteNameTx (argument handling)
  contract/enterprise/         validate.go ValidateEnterpriseTx, checkAdmin, checkArgs, check*;
                               changecluster.go ValidateChangeCluster; config.go Conf.Validate;
                               execute.go ExecuteEnterpriseTx (argument handling); admin.go getAdmins
  mempool/mempool.go           verifyTx, validateTx (governance branch) = `admit`
  chain/chainhandle.go         executeTx, governance.go executeGovernanceTx = `execute`

What the model does *not* compute it takes as facts in `Env` (observed by the harness through the
real accessors, universally quantified in the theorems): hash/signature checks, base58/base58check/
base64/multiaddr/peer-id decoders applied to string arguments, the sender's records in the system,
name and enterprise contracts, and two facts about the Go runtime and stored data that decide a
slicing panic (`candCap`, `adminsReadable`).

Repairs.  `u : List Site` is the list of sites whose guard is still missing in the tree being
modelled.  `fixGuard u s bad r` is the *proposed repair* of site `s` (notes/C14.md has the diff): a
check placed before the dangerous operation that returns an existing error.  It is active exactly
when `s ∉ u`.  The pinned tree is `pinned`; after a `fix:` commit for a site, delete it from
`pinned` (one line) — the raw operation below the guard keeps its panic semantics, so the totality
theorems for the repaired tree are proved, not assumed.
-/
import Aergo.Model.Json

namespace Aergo.Admit
open Aergo.Json

/-! ### Outcomes -/

/-- Rejection classes (never error strings). -/
inductive Rej
  | format | chain | size | hash | amount | price | account | recipient | type_ | payload | args
  | public_ | sig | nonce | balance | state | unsupported
deriving DecidableEq, Repr

/-- Panic-capable sites carried by the model as explicit traps. `siteKeys` gives the source
expression(s) of each. -/
inductive Site
  -- types/transaction.go
  | tNameUpdTo      -- validateNameTx      ci.Args[1].(string)
  | tNameOwner0     -- validateNameTx      ci.Args[0]           (v1setOwner)
  | tNameCommon0    -- _validateNameTx     ci.Args[0]
  -- contract/system/validation.go
  | sParseId0       -- parseIDForProposal  ci.Args[0]
  | sCandSlice      -- ValidateSystemTx    ci.Args[1:]
  -- contract/system/vote.go (newVoteCmd)
  | vDaoSlice       -- ctx.Call.Args[1:]
  | vDaoId          -- ctx.Call.Args[0].(string)
  | vDaoVal         -- ctx.Call.Args[1].(string)
  | vBpCand         -- v.(string)
  -- contract/system/voteresult.go
  | rAddSlice       -- AddVote  vote.Candidate[offset : offset+PeerIDLength]
  | rSubNil         -- SubVote  new(big.Int).Sub(voteResult.rmap[key], …) with no entry for key
  -- contract/name/execute.go
  | nVal0           -- ValidateNameTx  ci.Args[0].(string)
  | nExCreate0      -- ExecuteNameTx   ci.Args[0].(string)      (create)
  | nExUpd0         -- ExecuteNameTx   ci.Args[0].(string)#1    (update)
  | nExUpd1         -- ExecuteNameTx   ci.Args[1].(string)
  | nExOwner0       -- ExecuteNameTx   ci.Args[0].(string)#2    (setOwner)
  -- contract/enterprise/validate.go
  | eAdmin0         -- ValidateEnterpriseTx  ci.Args[0].(string)   (appendAdmin/removeAdmin)
  | eEnable0        -- ValidateEnterpriseTx  ci.Args[0].(string)#1 (enableConf, after the comma-ok)
  | eEnable1        -- ValidateEnterpriseTx  ci.Args[1]
  | eCtx0           -- ValidateEnterpriseTx  context.Args[0]
  | eCtxTail        -- ValidateEnterpriseTx  context.Args[1:]
  | eCtx1           -- ValidateEnterpriseTx  context.Args[1]
  | eCheckArgs0     -- checkArgs             ci.Args[0].(string)
  | eRpcVals0       -- checkRPCPermissions   values[0]
  -- contract/enterprise/config.go, admin.go
  | cRpcSplit       -- Conf.Validate  strings.Split(v, ":")[1]
  | gAdmins         -- getAdmins      data[i : i+types.AddressLength]
  -- contract/enterprise/execute.go
  | xCtx0           -- ExecuteEnterpriseTx  context.Args[0]
  | xEnable1        -- ExecuteEnterpriseTx  context.Call.Args[1]
  | xAny0           -- ExecuteEnterpriseTx  context.ArgsAny[0]
deriving DecidableEq, Repr

inductive Outcome (α : Type) where
  | ok (a : α)
  | reject (r : Rej)
  | panic (s : Site)
deriving Repr, DecidableEq

namespace Outcome
@[inline] def bind {α β : Type} (x : Outcome α) (f : α → Outcome β) : Outcome β :=
  match x with
  | .ok a => f a
  | .reject r => .reject r
  | .panic s => .panic s
instance : Monad Outcome where
  pure := .ok
  bind := Outcome.bind
end Outcome

/-- The sites whose guard is missing on the pinned tree (each confirmed on the real code by the
harness, class ids in `notes/C14.md`).  Repairing a site = deleting it here. -/
def pinned : List Site := [.tNameUpdTo, .tNameOwner0, .vDaoVal, .eAdmin0, .eCheckArgs0, .rAddSlice, .gAdmins]

/-- The proposed repair of site `s`: `if bad { return <existing error of class r> }`, present iff `s ∉ u`. -/
def fixGuard (u : List Site) (s : Site) (bad : Bool) (r : Rej) : Outcome Unit :=
  if bad && !u.contains s then .reject r else .ok ()

/-- `if c { return err }`. -/
def rejectIf (c : Bool) (r : Rej) : Outcome Unit := if c then .reject r else .ok ()

/-! ### Go primitives with their failure -/

/-- `a[i]` -/
def idx (s : Site) (xs : List α) (i : Nat) : Outcome α :=
  match xs[i]? with
  | some v => .ok v
  | none => .panic s

/-- `a[i:]` -/
def sliceFrom (s : Site) (xs : List α) (i : Nat) : Outcome (List α) :=
  if i ≤ xs.length then .ok (xs.drop i) else .panic s

/-- `x.(string)` -/
def asStr (s : Site) : JVal → Outcome Str
  | .str x => .ok x
  | _ => .panic s

/-- `v, ok := x.(string)` -/
def str? : JVal → Option Str
  | .str x => some x
  | _ => none

def isStr (v : JVal) : Bool := (str? v).isSome

/-- `for _, v := range xs { _ = v.(string) }` -/
def asStrAll (s : Site) : List JVal → Outcome Unit
  | [] => .ok ()
  | v :: r => do
    let _ ← asStr s v
    asStrAll s r

/-- `a[i].(string)`: index, then assert (one Go expression, one site). -/
def argStr (s : Site) (xs : List JVal) (i : Nat) : Outcome Str := do
  let v ← idx s xs i
  asStr s v

/-! ### Strings -/

/-- `strings.ToUpper` as far as comparison with ASCII constants can tell: a–z, U+0131 → I, U+017F → S are
the only runes whose upper case is ASCII (enumerated against Go's tables by the harness). -/
def upperRune (c : Nat) : Nat :=
  if 97 ≤ c && c ≤ 122 then c - 32 else if c == 0x131 then 73 else if c == 0x17F then 83 else c
def toUpper (s : Str) : Str := s.map upperRune

/-- `unicode.ToLower` as far as membership in an ASCII set can tell (A–Z, U+0130 → i, U+212A → k). -/
def lowerRune (c : Nat) : Nat :=
  if 65 ≤ c && c ≤ 90 then c + 32 else if c == 0x130 then 105 else if c == 0x212A then 107 else c

/-- `allowedNameChar` of types/transaction.go. -/
def allowedNameChar : Str := str% "abcdefghijklmnopqrstuvwxyz1234567890"

/-- `validateAllowedChar([]byte(s)) == nil` (s non-nil). -/
def allowedChars (s : Str) : Bool := s.all fun c => allowedNameChar.contains (lowerRune c)

/-- No element equal to an earlier one (`unique[x] != 0` never fires). -/
def nodup : List Str → Bool
  | [] => true
  | x :: r => !r.contains x && nodup r

/-- `new(big.Int).SetString(s, 10)`: optional sign, then at least one decimal digit. -/
def parseBigInt (s : Str) : Option Int :=
  let (neg, ds) := match s with
    | 45 :: r => (true, r)
    | 43 :: r => (false, r)
    | r => (false, r)
  if ds.isEmpty || !ds.all isDigit then none
  else
    let n : Int := (ds.foldl (fun a d => a * 10 + (d - 48)) 0 : Nat)
    some (if neg then -n else n)

/-- `strings.Split(s, ":")` -/
def splitColon (s : Str) : List Str :=
  let (cur, acc) := s.foldl (fun (st : Str × List Str) c => if c == 58 then ([], st.1.reverse :: st.2) else (c :: st.1, st.2)) ([], [])
  (cur.reverse :: acc).reverse

/-! ### The environment: transaction, node configuration, observed facts -/

structure Tx where
  nilBody : Bool := false      -- tx.GetTx() == nil || GetBody() == nil
  chainOk : Bool               -- chain-id hash matches
  sizeOk : Bool                -- proto.Size(tx) ≤ TxMaxSize
  hashOk : Bool                -- tx.Hash == CalculateTxHash()
  sigOk : Bool                 -- key.VerifyTx… == nil
  account : List Nat           -- bytes ([] ⇔ nil after protobuf decoding)
  recipient : List Nat
  amount : Nat
  gasPrice : Nat
  type : Int
  payload : List Nat
  nonce : Nat
deriving Repr

/-- Facts about a string argument `Args[i]`, computed by the library decoders. -/
structure ArgF where
  addr : Option (List Nat) := none   -- types.DecodeAddress(s): the decoded bytes
  b58 : Option Nat := none           -- base58.Decode(s): length of the result
  pidOk : Bool := false              -- types.IDFromBytes(decoded) == nil
  listOk : Bool := false             -- types.ParseListEntry(s) == nil
  b64Ok : Bool := false              -- base64.Decode(strings.Split(s, ":")[0]) == nil
deriving Repr, Inhabited

/-- `enterprise.Conf` -/
structure Conf where
  on : Bool
  values : List Str
deriving Repr

structure Env where
  tx : Tx
  -- node configuration
  isPublic : Bool
  dpos : Bool                  -- InitGovernance(consensus == "dpos")
  raft : Bool                  -- consensus.UseRaft()
  maxAER : Nat
  -- sender / block
  forkVersion : Int
  blockNo : Nat                -- number of the block the transaction is validated for / executed in
  stNonce : Nat
  balance : Nat
  -- aergo.system
  staked : Nat                 -- staking amount of the sender
  stakeRec : Bool              -- staking record has a non-nil Amount
  stakedWhen : Nat
  stakingMin : Nat
  voteRec : List Bool          -- old vote record (Amount ≠ nil) per issue: voteBP, BPCOUNT, STAKINGMIN, GASPRICE, NAMEPRICE
  oldVoteOk : List Bool        -- every candidate of that old record has an entry in the issue's tally
  candCap : Nat                -- cap() of the candidate buffer newVoteCmd builds with append (Go runtime fact)
  -- aergo.name
  namePrice : Nat
  nameOwned : Bool             -- getOwner(scs, Args[0]) ≠ nil
  acctEqName : Bool            -- bytes.Equal(tx.Account, []byte(Args[0]))
  acctIsOwner : Bool           -- bytes.Equal(tx.Account, getOwner(scs, Args[0]))
  contractOwned : Bool         -- getOwner(scs, "aergo.name") ≠ nil
  -- aergo.enterprise
  adminsReadable : Bool        -- getAdmins does not run off its data (len % 33 = 0, or the capacity saves it)
  admins : List (List Nat)
  adminsEnc : List Str         -- types.EncodeAddress of each admin
  senderInAdmins : Bool        -- bytes.Index(bytes.Join(admins, nil), sender) ≠ -1
  confKey : Option Conf        -- getConf(scs, Args[0])
  confWhite : Option Conf      -- getConf(scs, "ACCOUNTWHITE")
  ccPeerOk : Bool              -- types.IDB58Decode(peerid) == nil
  ccAddrOk : Bool              -- types.ParseMultiaddr(address) == nil
  ccIdOk : Bool                -- strconv.ParseUint(id, 16, 64) == nil
  -- string arguments
  argF : List ArgF
deriving Repr

def Env.arg (e : Env) (i : Nat) : ArgF := e.argF.getD i {}

def aergoSystem : Str := str% "aergo.system"
def aergoName : Str := str% "aergo.name"
def aergoEnterprise : Str := str% "aergo.enterprise"

def addressLength : Nat := 33
def nameLength : Nat := 12
def peerIDLength : Nat := 39
def maxCandidates : Nat := 30
def stakingDelay : Nat := 86400
def votingDelay : Nat := 86400

/-! ### types/transaction.go -/

/-- `types.OpSysTx`; `GetOpSysTx` is a map lookup whose zero value is `OpvoteBP`: every unknown
(or missing) name is a BP vote. -/
inductive SysOp | voteBP | voteDAO | stake | unstake
deriving DecidableEq, Repr

def getOpSysTx (name : Str) : SysOp :=
  if name == str% "v1voteDAO" then .voteDAO
  else if name == str% "v1stake" then .stake
  else if name == str% "v1unstake" then .unstake
  else .voteBP

/-- Is candidate `i` (a string) acceptable to the voteBP loop: base58 decodes, is a peer id. -/
def candOk (e : Env) (i : Nat) : Bool := (e.arg i).b58.isSome && (e.arg i).pidOk

def indices (xs : List α) : List Nat := List.range xs.length

/-- `types.ValidateSystemTx` (after the Unmarshal). -/
def typesSystem (u : List Site) (e : Env) (ci : CallInfo) : Outcome Unit :=
  match getOpSysTx ci.name with
  | .stake | .unstake => .ok ()
  | .voteBP => do
    -- for i, v := range ci.Args: i ≥ MaxCandidates, non-string, duplicate, base58, IDFromBytes: all ErrTxInvalidPayload
    rejectIf (ci.args.length > maxCandidates) .payload
    rejectIf (!ci.args.all isStr) .payload
    rejectIf (!nodup (ci.args.filterMap str?)) .payload
    rejectIf (!(indices ci.args).all (candOk e)) .payload
    -- proposed repair of rAddSlice: reject candidates that are not PeerIDLength bytes
    fixGuard u .rAddSlice (!(indices ci.args).all fun i => (e.arg i).b58 == some peerIDLength) .payload
  | .voteDAO => do
    rejectIf (ci.args.length < 1) .args
    rejectIf (!ci.args.all isStr) .payload
    rejectIf (!nodup (ci.args.filterMap str?)) .payload

/-- `_validateNameTx` -/
def typesNameCommon (ci : CallInfo) : Outcome Unit := do
  rejectIf (ci.args.length < 1) .args
  let a0 ← idx .tNameCommon0 ci.args 0
  match str? a0 with
  | none => .reject .args
  | some nameParam => do
    rejectIf (byteLen nameParam > nameLength) .args
    rejectIf (byteLen nameParam != nameLength) .args
    rejectIf (!allowedChars nameParam) .args

/-- `validateNameTx` (after the Unmarshal). -/
def typesName (u : List Site) (e : Env) (ci : CallInfo) : Outcome Unit :=
  if ci.name == str% "v1createName" then do
    typesNameCommon ci
    rejectIf (ci.args.length != 1) .args
  else if ci.name == str% "v1updateName" then do
    typesNameCommon ci
    rejectIf (ci.args.length != 2) .args
    fixGuard u .tNameUpdTo (!(ci.args.getD 1 .null |> isStr)) .args     -- repair: comma-ok
    let _to ← argStr .tNameUpdTo ci.args 1
    match (e.arg 1).addr with
    | none => .reject .args
    | some to => rejectIf (to.length > addressLength) .args
  else if ci.name == str% "v1setOwner" then do
    fixGuard u .tNameOwner0 (ci.args.length < 1) .args                  -- repair: length check
    let a0 ← idx .tNameOwner0 ci.args 0
    match str? a0 with
    | none => .reject .args
    | some _ => rejectIf (e.arg 0).addr.isNone .args
  else .reject .payload

/-- `validate` + the `govValidators` table built by `InitGovernance`. -/
def typesGov (u : List Site) (e : Env) : Outcome Unit :=
  if e.tx.recipient == aergoSystem then
    if !e.dpos then .reject .type_ else
    match unmarshalCallInfo e.tx.payload with
    | none => .reject .payload
    | some ci => typesSystem u e ci
  else if e.tx.recipient == aergoName then
    match unmarshalCallInfo e.tx.payload with
    | none => .reject .payload
    | some ci => typesName u e ci
  else if e.tx.recipient == aergoEnterprise then
    rejectIf e.isPublic .public_
  else .reject .recipient

/-- `(*transaction).Validate` -/
def typesValidate (u : List Site) (e : Env) : Outcome Unit := do
  let tx := e.tx
  rejectIf tx.nilBody .format
  rejectIf (!tx.chainOk) .chain
  rejectIf (!tx.sizeOk) .size
  rejectIf tx.account.isEmpty .format
  rejectIf (!tx.hashOk) .hash
  rejectIf (tx.amount > e.maxAER) .amount
  rejectIf (tx.gasPrice > e.maxAER) .price
  rejectIf (tx.account.length > addressLength) .account
  rejectIf (tx.recipient.length > addressLength) .recipient
  if tx.type == 2 then do          -- REDEPLOY, falls through to NORMAL
    rejectIf e.isPublic .type_
    rejectIf tx.recipient.isEmpty .recipient
    rejectIf (tx.recipient.isEmpty && tx.payload.isEmpty) .recipient
  else if tx.type == 0 then        -- NORMAL
    rejectIf (tx.recipient.isEmpty && tx.payload.isEmpty) .recipient
  else if tx.type == 1 then do     -- GOVERNANCE
    rejectIf tx.payload.isEmpty .format
    typesGov u e
  else if tx.type == 3 then do     -- FEEDELEGATION
    rejectIf tx.recipient.isEmpty .recipient
    rejectIf tx.payload.isEmpty .format
  else if tx.type == 4 || tx.type == 5 then   -- TRANSFER, CALL
    rejectIf tx.recipient.isEmpty .recipient
  else if tx.type == 6 || tx.type == 7 then do -- DEPLOY, MULTICALL
    rejectIf (!tx.recipient.isEmpty) .recipient
    rejectIf tx.payload.isEmpty .format
    rejectIf (tx.type == 7 && tx.amount != 0) .amount
  else .reject .type_

/-- `ValidateWithSenderState`, governance case. `strict`: the caller treats ErrTxNonceToohigh as an
error (executeTx) or not (mempool.put). -/
def senderState (e : Env) (strict : Bool) : Outcome Unit := do
  rejectIf (e.stNonce + 1 > e.tx.nonce) .nonce
  if e.tx.recipient == aergoSystem then
    match unmarshalCallInfo e.tx.payload with
    | none => .reject .payload
    | some ci => rejectIf (ci.name == str% "v1stake" && e.tx.amount > e.balance) .balance
  else if e.tx.recipient == aergoName || e.tx.recipient == aergoEnterprise then .ok ()
  else .reject .recipient
  rejectIf (strict && e.stNonce + 1 < e.tx.nonce) .nonce

/-! ### contract/system -/

/-- Index of a proposal id in the voting catalog after voteBP: `isValidID` + `strings.ToUpper`. -/
def proposalIndex (id : Str) : Option Nat :=
  let up := toUpper id
  if up == str% "BPCOUNT" then some 1
  else if up == str% "STAKINGMIN" then some 2
  else if up == str% "GASPRICE" then some 3
  else if up == str% "NAMEPRICE" then some 4
  else none

/-- `validateById` -/
def validateById (e : Env) (issue : Nat) (c : Int) : Bool :=
  if c == 0 then false
  else if issue == 1 then !(c > 100)
  else !(c > (e.maxAER : Int))

/-- `validateForVote` with the issue's old record. -/
def validateForVote (e : Env) (issue : Nat) : Outcome Unit := do
  rejectIf (e.staked == 0) .state                                             -- ErrMustStakeBeforeVote
  rejectIf (e.voteRec.getD issue false && e.stakedWhen + votingDelay > e.blockNo) .state

/-- What `system.ValidateSystemTx` leaves in the context for the command. -/
structure SysCtx where
  ci : CallInfo
  op : SysOp
  issue : Nat          -- 0 = voteBP, 1.. = proposal
  proposal : Bool      -- context.Proposal ≠ nil

/-- `system.ValidateSystemTx` -/
def sysValidate (u : List Site) (e : Env) : Outcome SysCtx :=
  match unmarshalCallInfo e.tx.payload with
  | none => .reject .payload
  | some ci =>
    match getOpSysTx ci.name with
    | .stake => do
      rejectIf (e.balance < e.tx.amount) .balance
      rejectIf (e.stakeRec && e.stakedWhen + stakingDelay > e.blockNo) .state       -- ErrLessTimeHasPassed
      rejectIf (e.stakingMin > e.staked + e.tx.amount) .state                       -- ErrTooSmallAmount
      pure ⟨ci, .stake, 0, false⟩
    | .voteBP => do
      validateForVote e 0
      pure ⟨ci, .voteBP, 0, false⟩
    | .unstake => do
      rejectIf (e.staked == 0) .state
      rejectIf (e.staked < e.tx.amount) .state
      rejectIf (e.stakedWhen + stakingDelay > e.blockNo) .state
      rejectIf (e.staked - e.tx.amount != 0 && e.stakingMin > e.staked - e.tx.amount) .state
      pure ⟨ci, .unstake, 0, false⟩
    | .voteDAO => do
      rejectIf (e.forkVersion < 2) .state
      -- parseIDForProposal
      let a0 ← idx .sParseId0 ci.args 0
      match str? a0 with
      | none => .reject .args
      | some id =>
        match (if byteLen id < 1 then none else proposalIndex id) with
        | none => .reject .args
        | some issue => do
          -- getProposal always finds the four system proposals; Blockfrom = Blockto = 0
          let candis ← sliceFrom .sCandSlice ci.args 1
          rejectIf (candis.length > 1) .args                                      -- MultipleChoice = 1
          fixGuard u .vDaoVal (candis.length < 1) .args                           -- proposed repair
          rejectIf (!candis.all fun c =>
            match str? c with
            | none => false
            | some s => match parseBigInt s with
              | none => false
              | some n => validateById e issue n) .args
          validateForVote e issue
          pure ⟨ci, .voteDAO, issue, true⟩

/-- Total length of the candidate buffer `newVoteCmd` builds for a BP vote. -/
def candTotal (e : Env) (args : List JVal) : Nat :=
  ((indices args).map fun i => ((e.arg i).b58.getD 0)).sum

/-- `for offset := 0; offset < len(c); offset += 39 { c[offset : offset+39] }` on a buffer of length
`n` and capacity `cap`: panics iff the last chunk runs beyond the capacity. -/
def chunksFit (n cap : Nat) : Bool := (n + peerIDLength - 1) / peerIDLength * peerIDLength ≤ cap

/-- `newSysCmd` + `cmd.run()` after a successful validation. -/
def sysRun (e : Env) (c : SysCtx) : Outcome Unit :=
  match c.op with
  | .stake | .unstake => .ok ()
  | .voteBP | .voteDAO => do
    if c.proposal then do
      let _ ← sliceFrom .vDaoSlice c.ci.args 1
      let _ ← argStr .vDaoId c.ci.args 0
      let _ ← argStr .vDaoVal c.ci.args 1
    else
      asStrAll .vBpCand c.ci.args
    -- run(): updateVoteResult: sub(old vote), add(new vote)
    if e.voteRec.getD c.issue false && !e.oldVoteOk.getD c.issue true then .panic .rSubNil
    if !c.proposal && !chunksFit (candTotal e c.ci.args) e.candCap then .panic .rAddSlice
    pure ()

/-- `system.ExecuteSystemTx` -/
def sysExecute (u : List Site) (e : Env) : Outcome Unit := do
  let c ← sysValidate u e
  sysRun e c

/-! ### contract/name -/

/-- `name.ValidateNameTx` -/
def nameValidate (e : Env) : Outcome CallInfo := do
  rejectIf (e.balance < e.tx.amount) .balance
  match unmarshalCallInfo e.tx.payload with
  | none => .reject .payload
  | some ci => do
    let _nameArg ← argStr .nVal0 ci.args 0
    if ci.name == str% "v1createName" then do
      rejectIf (e.namePrice > e.tx.amount) .state
      rejectIf e.nameOwned .state
    else if ci.name == str% "v1updateName" then do
      rejectIf (e.namePrice > e.tx.amount) .state
      rejectIf (!e.acctEqName && !e.acctIsOwner) .state
    else if ci.name == str% "v1setOwner" then
      rejectIf e.contractOwned .state
    else .reject .payload
    pure ci

/-- `name.ExecuteNameTx`: argument handling (what CreateName/UpdateName/SetContractOwner then do
to the state is not modelled: it has no payload-dependent indexing). -/
def nameExecute (e : Env) : Outcome Unit := do
  let ci ← nameValidate e
  if ci.name == str% "v1createName" then do
    let _ ← argStr .nExCreate0 ci.args 0
  else if ci.name == str% "v1updateName" then do
    let _ ← argStr .nExUpd0 ci.args 0
    let _ ← argStr .nExUpd1 ci.args 1
  else if ci.name == str% "v1setOwner" then do
    let _ ← argStr .nExOwner0 ci.args 0
  pure ()

/-! ### contract/enterprise -/

structure EntCtx where
  ci : CallInfo
  args : List Str := []          -- context.Args
  anyLen : Nat := 0              -- len(context.ArgsAny)

def hasValue (c : Option Conf) (v : Str) : Bool :=
  match c with
  | some c => c.values.contains v
  | none => false

/-- `getAdmins` + `checkAdmin`. `allowUnset`: the caller tolerates ErrTxEnterpriseAdminIsNotSet. -/
def checkAdmin (e : Env) (allowUnset : Bool) : Outcome Unit := do
  if !e.adminsReadable then .panic .gAdmins
  if e.admins.isEmpty then rejectIf (!allowUnset) .state
  else rejectIf (!e.senderInAdmins) .state

/-- `for _, v := range c.Values { if strings.Contains(strings.ToUpper(strings.Split(v, ":")[1]), "W") { return nil } }`
followed by the error return. -/
def rpcHasWrite : List Str → Outcome Unit
  | [] => .reject .state
  | v :: r => do
    let p ← idx .cRpcSplit (splitColon v) 1
    if (toUpper p).contains 87 then .ok () else rpcHasWrite r

/-- `(*Conf).Validate(key, context)` on conf `c`, with `context.Conf = ctxConf`. -/
def confValidate (e : Env) (key : Str) (c : Conf) (ctxConf : Option Conf) : Outcome Unit :=
  if !c.on then .ok () else
  let k := toUpper key
  if k == str% "RPCPERMISSIONS" then rpcHasWrite c.values
  else if k == str% "ACCOUNTWHITE" then
    rejectIf (!e.adminsEnc.any fun a => hasValue ctxConf a) .state
  else .ok ()

def enterpriseKey (k : Str) : Bool :=
  k == str% "RPCPERMISSIONS" || k == str% "P2PWHITE" || k == str% "P2PBLACK" || k == str% "ACCOUNTWHITE"

/-- `checkRPCPermissions` -/
def checkRpc (e : Env) (i : Nat) (v : Str) : Outcome Bool := do
  let values := splitColon v
  if values.length != 2 then pure false else
  let _ ← idx .eRpcVals0 values 0
  pure (e.arg i).b64Ok

/-- `op(arg)` of checkArgs for the arguments after the key (`i` = index in `ci.Args`). -/
def checkOps (e : Env) (key : Str) : Nat → List Str → Outcome Unit
  | _, [] => .ok ()
  | i, v :: r => do
    if key == str% "P2PWHITE" || key == str% "P2PBLACK" then rejectIf (!(e.arg i).listOk) .args
    else if key == str% "ACCOUNTWHITE" then rejectIf (e.arg i).addr.isNone .args
    else if key == str% "RPCPERMISSIONS" then do
      let ok ← checkRpc e i v
      rejectIf (!ok) .args
    checkOps e key (i + 1) r

/-- `checkArgs`: the strings appended to `context.Args`, or a rejection. -/
def checkArgs (u : List Site) (e : Env) (ci : CallInfo) : Outcome (List Str) := do
  fixGuard u .eCheckArgs0 (!(ci.args.getD 0 .null |> isStr)) .args            -- proposed repair: comma-ok
  let a0 ← argStr .eCheckArgs0 ci.args 0
  let key := toUpper a0
  rejectIf (!enterpriseKey key) .args
  rejectIf (!ci.args.all isStr) .args
  let strs := ci.args.filterMap str?
  rejectIf (strs.any fun s => s.contains 92) .args
  rejectIf (!nodup strs) .args
  checkOps e key 1 (strs.drop 1)
  pure strs

/-- `ValidateChangeCluster` + `CcArgument.parse` -/
def validateChangeCluster (e : Env) (ci : CallInfo) : Outcome Unit := do
  rejectIf (ci.args.length != 1) .args
  match ci.args with
  | [.obj kvs] =>
    let get (k : Str) : Option Str := match objGet kvs k with
      | some (.str s) => some s
      | _ => none
    match get (str% "command") with
    | none => .reject .args
    | some cmd =>
      if cmd == str% "add" then
        match get (str% "name"), get (str% "address"), get (str% "peerid") with
        | some _, some _, some _ => do
          rejectIf (!e.ccPeerOk) .args
          rejectIf (!e.ccAddrOk) .args
        | _, _, _ => .reject .args
      else if cmd == str% "remove" then
        match get (str% "id") with
        | some _ => rejectIf (!e.ccIdOk) .args
        | none => .reject .args
      else .reject .args
  | _ => .reject .args

/-- `enterprise.ValidateEnterpriseTx` -/
def entValidate (u : List Site) (e : Env) : Outcome EntCtx :=
  match unmarshalCallInfo e.tx.payload with
  | none => .reject .payload
  | some ci =>
    if ci.name == str% "appendAdmin" || ci.name == str% "removeAdmin" then do
      rejectIf (ci.args.length != 1) .args
      fixGuard u .eAdmin0 (!(ci.args.getD 0 .null |> isStr)) .args              -- proposed repair: comma-ok
      let arg ← argStr .eAdmin0 ci.args 0
      let address := ((e.arg 0).addr).getD []
      rejectIf address.isEmpty .args
      fixGuard u .gAdmins (address.length != addressLength) .args               -- proposed repair: 33-byte admins only
      checkAdmin e true
      if ci.name == str% "appendAdmin" then
        rejectIf (e.admins.contains address) .state
      else do
        rejectIf (!e.admins.contains address) .state
        match e.confWhite with
        | some c => rejectIf (c.on && c.values.contains arg) .state
        | none => pure ()
      pure { ci, args := [arg] }
    else if ci.name == str% "setConf" then do
      rejectIf (ci.args.length ≤ 1) .args
      let ctxArgs ← checkArgs u e ci
      let key ← idx .eCtx0 ctxArgs 0
      checkAdmin e false
      let vals ← sliceFrom .eCtxTail ctxArgs 1
      let newConf : Conf := match e.confKey with
        | some c => { c with values := vals }
        | none => { on := false, values := vals }
      let _ ← idx .eCtx0 ctxArgs 0
      match e.confKey with
      | some stored => confValidate e key stored (some newConf)
      | none => pure ()
      pure { ci, args := ctxArgs }
    else if ci.name == str% "appendConf" || ci.name == str% "removeConf" then do
      rejectIf (ci.args.length != 2) .args
      let ctxArgs ← checkArgs u e ci
      checkAdmin e false
      let key ← idx .eCtx0 ctxArgs 0
      let conf : Conf := e.confKey.getD { on := false, values := [] }
      let v ← idx .eCtx1 ctxArgs 1
      let conf' ← (if ci.name == str% "appendConf" then do
          rejectIf (conf.values.contains v) .state
          pure { conf with values := conf.values ++ [v] }
        else do
          rejectIf (!conf.values.contains v) .state
          pure { conf with values := conf.values.erase v } : Outcome Conf)
      confValidate e key conf' (some conf')
      pure { ci, args := ctxArgs }
    else if ci.name == str% "enableConf" then do
      rejectIf (ci.args.length != 2) .args
      match str? (ci.args.getD 0 .null) with
      | none => .reject .args
      | some _ => do
        let arg0 ← argStr .eEnable0 ci.args 0
        rejectIf (!enterpriseKey (toUpper arg0)) .args
        let a1 ← idx .eEnable1 ci.args 1
        match a1 with
        | .bool value => do
          checkAdmin e false
          let conf : Conf := match e.confKey with
            | some c => { c with on := value }
            | none => { on := value, values := [] }
          confValidate e arg0 conf (some conf)
          pure { ci, args := [arg0] }
        | _ => .reject .args
    else if ci.name == str% "changeCluster" then do
      rejectIf (!e.raft) .unsupported
      validateChangeCluster e ci
      checkAdmin e false
      pure { ci, anyLen := 1 }
    else .reject .payload

/-- `enterprise.ExecuteEnterpriseTx`: argument handling after the validation. -/
def entExecute (u : List Site) (e : Env) : Outcome Unit := do
  let c ← entValidate u e
  let n := c.ci.name
  if n == str% "appendAdmin" || n == str% "removeAdmin" || n == str% "setConf" || n == str% "appendConf"
      || n == str% "removeConf" then do
    let _ ← idx .xCtx0 c.args 0
  else if n == str% "enableConf" then do
    let _ ← idx .xCtx0 c.args 0
    let _ ← idx .xEnable1 c.ci.args 1
  else if n == str% "changeCluster" then do
    let _ ← idx .xAny0 (List.replicate c.anyLen ()) 0
  pure ()

/-! ### The two entry points of the property -/

/-- `mempool.validateTx`, governance branch (after ValidateWithSenderState). -/
def poolGov (u : List Site) (e : Env) : Outcome Unit :=
  if e.tx.recipient == aergoSystem then do let _ ← sysValidate u e
  else if e.tx.recipient == aergoName then do let _ ← nameValidate e
  else if e.tx.recipient == aergoEnterprise then do let _ ← entValidate u e
  else .ok ()

/-- Pool admission of a governance transaction: `verifyTx` (Validate + signature), then `put`'s
`validateTx`. -/
def admit (u : List Site) (e : Env) : Outcome Unit := do
  typesValidate u e
  rejectIf (!e.tx.sigOk) .sig
  senderState e false
  poolGov u e

/-- `executeGovernanceTx` -/
def execGov (u : List Site) (e : Env) : Outcome Unit := do
  rejectIf e.tx.payload.isEmpty .format
  if e.tx.recipient == aergoSystem then sysExecute u e
  else if e.tx.recipient == aergoName then nameExecute e
  else if e.tx.recipient == aergoEnterprise then entExecute u e
  else .reject .recipient

/-- `executeTx` on a governance transaction, up to the receipt. -/
def execute (u : List Site) (e : Env) : Outcome Unit := do
  typesValidate u e
  senderState e true
  execGov u e

/-! ### The site table (tie T) -/

/-- How an inventory entry of `Aergo.Gen.AssertSites.sites` is accounted for. -/
inductive SiteClass
  | trap (s : Site)    -- carried by the model as the explicit trap `s`
  | dom (s : Site)     -- same operand and index as trap `s`, in a branch `s` (or its guard) dominates
  | mapIdx             -- index of a Go map: reading never panics; the maps written are non-nil literals
  | stateData          -- operand is a record read from contract storage / a static table, not payload-derived
  | bounded            -- index bounded by the loop or length test around it, on non-payload data
  | offPath            -- not on the path of a governance transaction
deriving DecidableEq, Repr

end Aergo.Admit
