/-
Model layer `Admit` (C14): what a node does with a transaction received from a client or a peer,
as far as *crashing* is concerned.  Every function returns a three-way `Outcome`:

    ok a | reject class | panic site

Go constructs are modelled with their failure: `a[i]` out of range ⇒ `panic`, `x.(string)` on a
non-string ⇒ `panic`, `v, ok := x.(string)` ⇒ no panic, `a[i:j]` beyond the capacity ⇒ `panic`.
The functions are transcriptions (Go → Lean, branch by branch, in source order) of

  types/transaction.go         Validate, validate, ValidateSystemTx, validateNameTx, _validateNameTx,
                               validateAllowedChar, ValidateWithSenderState (governance part)
  contract/system/validation.go ValidateSystemTx, validateFor{Staking,Vote,Unstaking}, parseIDForProposal,
                               validateById;  execute.go newSysCmd;  vote.go newVoteCmd, voteCmd.run;
                               voteresult.go SubVote/AddVote (only their slicing / nil arithmetic)
  contract/name/execute.go     ValidateNameTx, ExecuteNameTx (argument handling)
  contract/enterprise/         validate.go ValidateEnterpriseTx, checkAdmin, checkArgs, check*;
                               changecluster.go ValidateChangeCluster; config.go Conf.Validate;
                               execute.go ExecuteEnterpriseTx (argument handling); admin.go getAdmins
  mempool/mempool.go           verifyTx, validateTx (governance branch) = `poolAdmit`
  chain/chainhandle.go         executeTx, governance.go executeGovernanceTx = `execute`

What the model does *not* compute it takes as facts in `Env` (observed by the harness through the
real accessors, universally quantified in the theorems): hash/signature checks, base58/base58check/
base64/multiaddr/peer-id decoders applied to string arguments, the sender's records in the system,
name and enterprise contracts, and two facts about the Go runtime and stored data that decide a
slicing panic (`candCap`, `adminsReadable`).

Repairs.  `u : List Site` is the list of sites whose guard is missing in the tree being modelled.
`fixGuard u s bad r` is the repair of site `s` (notes/C14.md has the diff; six of them are now in
/repo): a check placed before the dangerous operation that returns an existing error.  It is active
exactly when `s ∉ u`.  The pinned tree is `pinned`; after a `fix:` commit for a site, delete it from
`pinned` (one line) — the raw operation below the guard keeps its panic semantics, so the totality
theorems for the repaired tree are proved, not assumed.
-/
import Aergo.Model.Json

namespace Aergo.Admit
open Aergo.Json

/-! ### Outcomes -/

/-- Rejection classes (never error strings). -/
inductive Rej
  | format | chain | size | hash | amount | price | account | recipient | type_ | payload | args
  | public_ | sig | nonce | balance | state | unsupported
  | fee        -- fee.TxMaxFee: "the minimum required amount of gas"
  | fd         -- the contract refuses the delegated fee (typed reply of the chain service carrying an error)
  | internal   -- no reply from the chain service within the timeout
deriving DecidableEq, Repr

/-- Panic-capable sites carried by the model as explicit traps. `siteKeys` gives the source
expression(s) of each. -/
inductive Site
  -- types/transaction.go
  | tNameUpdTo      -- validateNameTx      ci.Args[1].(string)
  | tNameOwner0     -- validateNameTx      ci.Args[0]           (v1setOwner)
  | tNameCommon0    -- _validateNameTx     ci.Args[0]
  -- contract/system/validation.go
  | sParseId0       -- parseIDForProposal  ci.Args[0]
  | sCandSlice      -- ValidateSystemTx    ci.Args[1:]
  -- contract/system/vote.go (newVoteCmd)
  | vDaoSlice       -- ctx.Call.Args[1:]
  | vDaoId          -- ctx.Call.Args[0].(string)
  | vDaoVal         -- ctx.Call.Args[1].(string)
  | vBpCand         -- v.(string)
  -- contract/system/voteresult.go
  | rAddSlice       -- AddVote  vote.Candidate[offset : offset+PeerIDLength]
  | rSubNil         -- SubVote  new(big.Int).Sub(voteResult.rmap[key], …) with no entry for key
  -- contract/name/execute.go
  | nVal0           -- ValidateNameTx  ci.Args[0].(string)
  | nExCreate0      -- ExecuteNameTx   ci.Args[0].(string)      (create)
  | nExUpd0         -- ExecuteNameTx   ci.Args[0].(string)#1    (update)
  | nExUpd1         -- ExecuteNameTx   ci.Args[1].(string)
  | nExOwner0       -- ExecuteNameTx   ci.Args[0].(string)#2    (setOwner)
  -- contract/enterprise/validate.go
  | eAdmin0         -- ValidateEnterpriseTx  ci.Args[0].(string)   (appendAdmin/removeAdmin)
  | eEnable0        -- ValidateEnterpriseTx  ci.Args[0].(string)#1 (enableConf, after the comma-ok)
  | eEnable1        -- ValidateEnterpriseTx  ci.Args[1]
  | eCtx0           -- ValidateEnterpriseTx  context.Args[0]
  | eCtxTail        -- ValidateEnterpriseTx  context.Args[1:]
  | eCtx1           -- ValidateEnterpriseTx  context.Args[1]
  | eCheckArgs0     -- checkArgs             ci.Args[0].(string)
  | eRpcVals0       -- checkRPCPermissions   values[0]
  | eCc0            -- ValidateChangeCluster ci.Args[0]
  -- contract/enterprise/config.go, admin.go
  | cRpcSplit       -- Conf.Validate  strings.Split(v, ":")[1]
  | gAdmins         -- getAdmins      data[i : i+types.AddressLength]
  | cDeser0         -- deserializeConf data[0]   (getConf guards only `data == nil`: a stored EMPTY record would panic)
  -- contract/enterprise/execute.go
  | xCtx0           -- ExecuteEnterpriseTx  context.Args[0]
  | xEnable1        -- ExecuteEnterpriseTx  context.Call.Args[1]
  | xAny0           -- ExecuteEnterpriseTx  context.ArgsAny[0]
  -- contract/system/voteresult.go (Sync, threshold), types/vote.go (VoteList.Less)
  | rSyncTop        -- Sync       resultList.Votes[0]
  | rThreshDiv      -- threshold  new(big.Int).Div(total, unit)            (division)
  | tLessSlice      -- Less       vl.Votes[j].Candidate[7:]
  -- fee/gas.go
  | fCalcGas        -- CalcGas    new(big.Int).Div(fee, gasPrice)          (division)
  -- mempool/mempool.go
  | pFdRsp          -- validateTx rsp.(message.CheckFeeDelegationRsp)      (type assertion on an actor reply)
deriving DecidableEq, Repr

inductive Outcome (α : Type) where
  | ok (a : α)
  | reject (r : Rej)
  | panic (s : Site)
deriving Repr, DecidableEq

namespace Outcome
@[inline] def bind {α β : Type} (x : Outcome α) (f : α → Outcome β) : Outcome β :=
  match x with
  | .ok a => f a
  | .reject r => .reject r
  | .panic s => .panic s
instance : Monad Outcome where
  pure := .ok
  bind := Outcome.bind
end Outcome

/-- The sites that can still panic on the pinned tree.  Six guards proposed by this check were applied
to /repo (commits b11917e3, 2586c6fa, 9f771520: `tNameUpdTo`, `tNameOwner0`, `eAdmin0`, `eCheckArgs0`,
`gAdmins`, `vDaoVal`).  Left, both execution-only and recorded as known findings:
 * `rAddSlice` — a BP vote for a peer id that is not 39 bytes (the guard would change which historical
   voteBP transactions validate: it needs a hard-fork gate);
 * `rSubNil`   — its consequence: a misframed old vote record makes the account's next vote/unstake
   subtract from a nil tally entry.  (No guard of its own: it is excluded by the state invariant
   `OldVotesOk`, which only the `rAddSlice` guard can establish.)
Repairing a site = deleting it here. -/
def pinned : List Site := [.rAddSlice, .rSubNil]

/-- The proposed repair of site `s`: `if bad { return <existing error of class r> }`, present iff `s ∉ u`. -/
def fixGuard (u : List Site) (s : Site) (bad : Bool) (r : Rej) : Outcome Unit :=
  if bad && !u.contains s then .reject r else .ok ()

/-- `if c { return err }`. -/
def rejectIf (c : Bool) (r : Rej) : Outcome Unit := if c then .reject r else .ok ()

/-! ### Go primitives with their failure -/

/-- `a[i]` -/
def idx (s : Site) (xs : List α) (i : Nat) : Outcome α :=
  match xs[i]? with
  | some v => .ok v
  | none => .panic s

/-- `a[i:]` -/
def sliceFrom (s : Site) (xs : List α) (i : Nat) : Outcome (List α) :=
  if i ≤ xs.length then .ok (xs.drop i) else .panic s

/-- `new(big.Int).Div(a, b)` on non-negative operands / `a / b` on unsigned integers: panics for `b = 0`. -/
def divNat (s : Site) (a b : Nat) : Outcome Nat :=
  if b == 0 then .panic s else .ok (a / b)

/-- `new(big.Int).Div(a, b)` (Euclidean division): panics for `b = 0`. -/
def divInt (s : Site) (a b : Int) : Outcome Int :=
  if b == 0 then .panic s else .ok (Int.ediv a b)

/-- `x.(string)` -/
def asStr (s : Site) : JVal → Outcome Str
  | .str x => .ok x
  | _ => .panic s

/-- `v, ok := x.(string)` -/
def str? : JVal → Option Str
  | .str x => some x
  | _ => none

def isStr (v : JVal) : Bool := (str? v).isSome

/-- `for _, v := range xs { _ = v.(string) }` -/
def asStrAll (s : Site) : List JVal → Outcome Unit
  | [] => .ok ()
  | v :: r => do
    let _ ← asStr s v
    asStrAll s r

/-- `a[i].(string)`: index, then assert (one Go expression, one site). -/
def argStr (s : Site) (xs : List JVal) (i : Nat) : Outcome Str := do
  let v ← idx s xs i
  asStr s v

/-! ### Strings -/

/-- `strings.ToUpper` as far as comparison with ASCII constants can tell: a–z, U+0131 → I, U+017F → S are
the only runes whose upper case is ASCII (enumerated against Go's tables by the harness). -/
def upperRune (c : Nat) : Nat :=
  if 97 ≤ c && c ≤ 122 then c - 32 else if c == 0x131 then 73 else if c == 0x17F then 83 else c
def toUpper (s : Str) : Str := s.map upperRune

/-- `unicode.ToLower` as far as membership in an ASCII set can tell (A–Z, U+0130 → i, U+212A → k). -/
def lowerRune (c : Nat) : Nat :=
  if 65 ≤ c && c ≤ 90 then c + 32 else if c == 0x130 then 105 else if c == 0x212A then 107 else c

/-- `allowedNameChar` of types/transaction.go. -/
def allowedNameChar : Str := str% "abcdefghijklmnopqrstuvwxyz1234567890"

/-- `validateAllowedChar([]byte(s)) == nil` (s non-nil). -/
def allowedChars (s : Str) : Bool := s.all fun c => allowedNameChar.contains (lowerRune c)

/-- No element equal to an earlier one (`unique[x] != 0` never fires). -/
def nodup : List Str → Bool
  | [] => true
  | x :: r => !r.contains x && nodup r

/-- `new(big.Int).SetString(s, 10)`: optional sign, then at least one decimal digit. -/
def parseBigInt (s : Str) : Option Int :=
  let (neg, ds) := match s with
    | 45 :: r => (true, r)
    | 43 :: r => (false, r)
    | r => (false, r)
  if ds.isEmpty || !ds.all isDigit then none
  else
    let n : Int := (ds.foldl (fun a d => a * 10 + (d - 48)) 0 : Nat)
    some (if neg then -n else n)

/-- `strings.Split(s, ":")` -/
def splitColon (s : Str) : List Str :=
  let (cur, acc) := s.foldl (fun (st : Str × List Str) c => if c == 58 then ([], st.1.reverse :: st.2) else (c :: st.1, st.2)) ([], [])
  (cur.reverse :: acc).reverse

/-! ### The environment: transaction, node configuration, observed facts -/

structure Tx where
  nilBody : Bool := false      -- tx.GetTx() == nil || GetBody() == nil
  chainOk : Bool               -- chain-id hash matches
  sizeOk : Bool                -- proto.Size(tx) ≤ TxMaxSize
  hashOk : Bool                -- tx.Hash == CalculateTxHash()
  sigOk : Bool                 -- key.VerifyTx… == nil
  account : List Nat           -- bytes ([] ⇔ nil after protobuf decoding)
  recipient : List Nat
  amount : Nat
  gasPrice : Nat
  type : Int
  payload : List Nat
  nonce : Nat
  gasLimit : Nat := 0          -- tx.Body.GasLimit
deriving Repr

/-- Facts about a string argument `Args[i]`, computed by the library decoders. -/
structure ArgF where
  addr : Option (List Nat) := none   -- types.DecodeAddress(s): the decoded bytes
  b58 : Option Nat := none           -- base58.Decode(s): length of the result
  pidOk : Bool := false              -- types.IDFromBytes(decoded) == nil
  listOk : Bool := false             -- types.ParseListEntry(s) == nil
  b64Ok : Bool := false              -- base64.Decode(strings.Split(s, ":")[0]) == nil
deriving Repr, Inhabited

/-- `enterprise.Conf` -/
structure Conf where
  on : Bool
  values : List Str
deriving Repr

/-- Reply of the chain service to the pool's `CheckFeeDelegation` request. `untyped`: a value that is not a
`message.CheckFeeDelegationRsp` (what the hub's future carries when no chain service is registered). -/
inductive FdReply | ok | refused | timeout | untyped
deriving DecidableEq, Repr

/-- One entry of a parameter-vote tally (`VoteResult.rmap`): the candidate string, its amount, and whether the
sender's old vote record names it. -/
structure TallyRow where
  cand : List Nat
  amt : Int
  inOld : Bool := false
deriving Repr, DecidableEq

structure Env where
  tx : Tx
  -- node configuration
  isPublic : Bool
  dpos : Bool                  -- InitGovernance(consensus == "dpos")
  raft : Bool                  -- consensus.UseRaft()
  maxAER : Nat
  -- sender / block
  forkVersion : Int
  blockNo : Nat                -- number of the block the transaction is validated for / executed in
  stNonce : Nat
  balance : Nat
  -- aergo.system
  staked : Nat                 -- staking amount of the sender
  stakeRec : Bool              -- staking record has a non-nil Amount
  stakedWhen : Nat
  stakingMin : Int             -- system.GetStakingMinimum(): a voted parameter; negative values can be voted in
  voteRec : List Bool          -- old vote record (Amount ≠ nil) per issue: voteBP, BPCOUNT, STAKINGMIN, GASPRICE, NAMEPRICE
  oldVoteOk : List Bool        -- every candidate of that old record has an entry in the issue's tally
  voteAmt : List Nat           -- amount of that old record
  candCap : Nat                -- cap() of the candidate buffer newVoteCmd builds with append (Go runtime fact)
  -- aergo.name
  namePrice : Int              -- system.GetNamePrice()
  nameOwned : Bool             -- getOwner(scs, Args[0]) ≠ nil
  acctEqName : Bool            -- bytes.Equal(tx.Account, []byte(Args[0]))
  acctIsOwner : Bool           -- bytes.Equal(tx.Account, getOwner(scs, Args[0]))
  contractOwned : Bool         -- getOwner(scs, "aergo.name") ≠ nil
  -- aergo.enterprise
  adminsReadable : Bool        -- getAdmins does not run off its data (len % 33 = 0, or the capacity saves it)
  admins : List (List Nat)
  adminsEnc : List Str         -- types.EncodeAddress of each admin
  senderInAdmins : Bool        -- bytes.Index(bytes.Join(admins, nil), sender) ≠ -1
  confKey : Option Conf        -- getConf(scs, Args[0])
  confWhite : Option Conf      -- getConf(scs, "ACCOUNTWHITE")
  confKeyEmpty : Bool := false   -- the record stored for Args[0] is non-nil and EMPTY (what SetData(key, nil) leaves after a commit)
  confWhiteEmpty : Bool := false -- the same for ACCOUNTWHITE
  ccPeerOk : Bool              -- types.IDB58Decode(peerid) == nil
  ccAddrOk : Bool              -- types.ParseMultiaddr(address) == nil
  ccIdOk : Bool                -- strconv.ParseUint(id, 16, 64) == nil
  -- string arguments
  argF : List ArgF
  -- fees (every transaction type)
  zeroFee : Bool := true       -- fee.IsZeroFee()
  gasPrice : Int := 50000000000 -- system.GetGasPrice() (pool) = bs.GasPrice (block): a voted parameter
  -- the pool's checks of the other transaction types
  rcptResolved : Bool := false -- name.GetAddress(scs, recipient) ≠ nil for a recipient that is neither 33 bytes nor special
  rcptBalance : Nat := 0       -- balance of the (resolved) recipient (fee delegation: it pays)
  blockMulticall : Bool := false
  blockDeploy : Bool := false
  fdReply : FdReply := .ok     -- what the chain service answers to message.CheckFeeDelegation
  -- parameter votes: the tally of the issue(s) the transaction touches, and the staking total
  tally : List (List TallyRow) := []   -- per issue (0 = voteBP: not used), in the order `buildVoteList` ranges over the map
  stakingTotal : Nat := 0
deriving Repr

def Env.arg (e : Env) (i : Nat) : ArgF := e.argF.getD i {}

def aergoSystem : Str := str% "aergo.system"
def aergoName : Str := str% "aergo.name"
def aergoEnterprise : Str := str% "aergo.enterprise"

def addressLength : Nat := 33
def nameLength : Nat := 12
def peerIDLength : Nat := 39
def maxCandidates : Nat := 30
def stakingDelay : Nat := 86400
def votingDelay : Nat := 86400

/-! ### types/transaction.go -/

/-- `types.OpSysTx`; `GetOpSysTx` is a map lookup whose zero value is `OpvoteBP`: every unknown
(or missing) name is a BP vote. -/
inductive SysOp | voteBP | voteDAO | stake | unstake
deriving DecidableEq, Repr

def getOpSysTx (name : Str) : SysOp :=
  if name == str% "v1voteDAO" then .voteDAO
  else if name == str% "v1stake" then .stake
  else if name == str% "v1unstake" then .unstake
  else .voteBP

/-- Is candidate `i` (a string) acceptable to the voteBP loop: base58 decodes, is a peer id. -/
def candOk (e : Env) (i : Nat) : Bool := (e.arg i).b58.isSome && (e.arg i).pidOk

def indices (xs : List α) : List Nat := List.range xs.length

/-- `types.ValidateSystemTx` (after the Unmarshal). -/
def typesSystem (u : List Site) (e : Env) (ci : CallInfo) : Outcome Unit :=
  match getOpSysTx ci.name with
  | .stake | .unstake => .ok ()
  | .voteBP => do
    -- for i, v := range ci.Args: i ≥ MaxCandidates, non-string, duplicate, base58, IDFromBytes: all ErrTxInvalidPayload
    rejectIf (ci.args.length > maxCandidates) .payload
    rejectIf (!ci.args.all isStr) .payload
    rejectIf (!nodup (ci.args.filterMap str?)) .payload
    rejectIf (!(indices ci.args).all (candOk e)) .payload
    -- proposed (NOT applied) repair of rAddSlice: reject candidates that are not PeerIDLength bytes
    fixGuard u .rAddSlice (!(indices ci.args).all fun i => (e.arg i).b58 == some peerIDLength) .payload
  | .voteDAO => do
    rejectIf (ci.args.length < 1) .args
    rejectIf (!ci.args.all isStr) .payload
    rejectIf (!nodup (ci.args.filterMap str?)) .payload

/-- `_validateNameTx` -/
def typesNameCommon (ci : CallInfo) : Outcome Unit := do
  rejectIf (ci.args.length < 1) .args
  let a0 ← idx .tNameCommon0 ci.args 0
  match str? a0 with
  | none => .reject .args
  | some nameParam => do
    rejectIf (byteLen nameParam > nameLength) .args
    rejectIf (byteLen nameParam != nameLength) .args
    rejectIf (!allowedChars nameParam) .args

/-- `validateNameTx` (after the Unmarshal). -/
def typesName (u : List Site) (e : Env) (ci : CallInfo) : Outcome Unit :=
  if ci.name == str% "v1createName" then do
    typesNameCommon ci
    rejectIf (ci.args.length != 1) .args
  else if ci.name == str% "v1updateName" then do
    typesNameCommon ci
    rejectIf (ci.args.length != 2) .args
    fixGuard u .tNameUpdTo (!(ci.args.getD 1 .null |> isStr)) .args     -- repair: comma-ok
    let _to ← argStr .tNameUpdTo ci.args 1
    match (e.arg 1).addr with
    | none => .reject .args
    | some to => rejectIf (to.length > addressLength) .args
  else if ci.name == str% "v1setOwner" then do
    fixGuard u .tNameOwner0 (ci.args.length < 1) .args                  -- repair: length check
    let a0 ← idx .tNameOwner0 ci.args 0
    match str? a0 with
    | none => .reject .args
    | some _ => rejectIf (e.arg 0).addr.isNone .args
  else .reject .payload

/-- `validate` + the `govValidators` table built by `InitGovernance`. -/
def typesGov (u : List Site) (e : Env) : Outcome Unit :=
  if e.tx.recipient == aergoSystem then
    if !e.dpos then .reject .type_ else
    match unmarshalCallInfo e.tx.payload with
    | none => .reject .payload
    | some ci => typesSystem u e ci
  else if e.tx.recipient == aergoName then
    match unmarshalCallInfo e.tx.payload with
    | none => .reject .payload
    | some ci => typesName u e ci
  else if e.tx.recipient == aergoEnterprise then
    rejectIf e.isPublic .public_
  else .reject .recipient

/-- `(*transaction).Validate` -/
def typesValidate (u : List Site) (e : Env) : Outcome Unit := do
  let tx := e.tx
  rejectIf tx.nilBody .format
  rejectIf (!tx.chainOk) .chain
  rejectIf (!tx.sizeOk) .size
  rejectIf tx.account.isEmpty .format
  rejectIf (!tx.hashOk) .hash
  rejectIf (tx.amount > e.maxAER) .amount
  rejectIf (tx.gasPrice > e.maxAER) .price
  rejectIf (tx.account.length > addressLength) .account
  rejectIf (tx.recipient.length > addressLength) .recipient
  if tx.type == 2 then do          -- REDEPLOY, falls through to NORMAL
    rejectIf e.isPublic .type_
    rejectIf tx.recipient.isEmpty .recipient
    rejectIf (tx.recipient.isEmpty && tx.payload.isEmpty) .recipient
  else if tx.type == 0 then        -- NORMAL
    rejectIf (tx.recipient.isEmpty && tx.payload.isEmpty) .recipient
  else if tx.type == 1 then do     -- GOVERNANCE
    rejectIf tx.payload.isEmpty .format
    typesGov u e
  else if tx.type == 3 then do     -- FEEDELEGATION
    rejectIf tx.recipient.isEmpty .recipient
    rejectIf tx.payload.isEmpty .format
  else if tx.type == 4 || tx.type == 5 then   -- TRANSFER, CALL
    rejectIf tx.recipient.isEmpty .recipient
  else if tx.type == 6 || tx.type == 7 then do -- DEPLOY, MULTICALL
    rejectIf (!tx.recipient.isEmpty) .recipient
    rejectIf tx.payload.isEmpty .format
    rejectIf (tx.type == 7 && tx.amount != 0) .amount
  else .reject .type_

/-- `ValidateWithSenderState`, governance case. `strict`: the caller treats ErrTxNonceToohigh as an
error (executeTx) or not (mempool.put). -/
def senderGov (e : Env) : Outcome Unit :=
  if e.tx.recipient == aergoSystem then
    match unmarshalCallInfo e.tx.payload with
    | none => .reject .payload
    | some ci => rejectIf (ci.name == str% "v1stake" && e.tx.amount > e.balance) .balance
  else if e.tx.recipient == aergoName || e.tx.recipient == aergoEnterprise then .ok ()
  else .reject .recipient

/-! #### fee/ (gas.go, fee.go, payload.go): what `ValidateMaxFee` computes -/

def payloadMaxSize : Nat := 200 * 1024
def baseTxAergo : Nat := 2000000000000000
def aerPerByte : Nat := 5000000000000

/-- `paymentDataSize`, capped by the callers at `payloadMaxSize`. -/
def paidBytes (payloadLen : Nat) : Nat := min (payloadLen - 200) payloadMaxSize

/-- `fee.TxGas` -/
def txGas (e : Env) : Nat := if e.zeroFee then 0 else 100000 + paidBytes e.tx.payload.length * 5

/-- `fee.GasEnabled` -/
def gasEnabled (e : Env) : Bool := !e.zeroFee && e.forkVersion ≥ 2

/-- `fee.MaxPayloadFee` (fee enabled) -/
def maxPayloadFee (payloadLen : Nat) : Nat :=
  if payloadLen == 0 then baseTxAergo
  else baseTxAergo + aerPerByte * paidBytes payloadLen + aerPerByte * (payloadMaxSize - 200)

/-- `fee.MaxGasLimit(balance, gasPrice)`: `CalcGas` = `new(big.Int).Div(balance, gasPrice)`, `math.MaxUint64`
unless the quotient is a uint64.  THE division by the voted gas price. -/
def maxGasLimit (balance gasPrice : Int) : Outcome Nat := do
  let q ← divInt .fCalcGas balance gasPrice
  pure (if 0 ≤ q && q < 18446744073709551616 then q.toNat else 18446744073709551615)

/-- `if gasLimit == 0 { gasLimit = MaxGasLimit(balance, gasPrice) }` -/
def gasLimitOf (e : Env) (balance : Int) : Outcome Nat :=
  if e.tx.gasLimit == 0 then maxGasLimit balance e.gasPrice else .ok e.tx.gasLimit

/-- `fee.TxMaxFee`: `none` = the "minimum required amount of gas" error. -/
def txMaxFee (e : Env) (balance : Int) : Outcome (Option Int) :=
  if e.zeroFee then .ok (some 0)
  else if e.forkVersion < 2 then .ok (some (maxPayloadFee e.tx.payload.length))
  else do
    let gl ← gasLimitOf e balance
    pure (if txGas e > gl then none else some (e.gasPrice * gl))

/-- `(*transaction).ValidateMaxFee(balance, gasPrice, version)` -/
def validateMaxFee (e : Env) (balance : Int) : Outcome Unit := do
  match ← txMaxFee e balance with
  | none => .reject .fee
  | some f => rejectIf (f > balance) .balance

/-- `ValidateWithSenderState`, the switch on the type. -/
def senderType (e : Env) : Outcome Unit :=
  let t := e.tx.type
  if t == 0 || t == 2 || t == 4 || t == 5 || t == 6 then do   -- NORMAL, REDEPLOY, TRANSFER, CALL, DEPLOY
    rejectIf (e.balance < e.tx.amount) .balance
    validateMaxFee e ((e.balance - e.tx.amount : Nat) : Int)
  else if t == 1 then senderGov e
  else if t == 3 then rejectIf (e.tx.amount > e.balance) .balance   -- FEEDELEGATION
  else .ok ()                                                       -- MULTICALL: no case

def senderState (e : Env) (strict : Bool) : Outcome Unit := do
  rejectIf (e.stNonce + 1 > e.tx.nonce) .nonce
  senderType e
  rejectIf (strict && e.stNonce + 1 < e.tx.nonce) .nonce

/-! ### contract/system -/

/-- Index of a proposal id in the voting catalog after voteBP: `isValidID` + `strings.ToUpper`. -/
def proposalIndex (id : Str) : Option Nat :=
  let up := toUpper id
  if up == str% "BPCOUNT" then some 1
  else if up == str% "STAKINGMIN" then some 2
  else if up == str% "GASPRICE" then some 3
  else if up == str% "NAMEPRICE" then some 4
  else none

/-- `validateById`: zero is refused for every issue; the upper bound is on the magnitude (`CmpAbs`, since fix
b0b4c2db: the value that comes into force is `|c|`). -/
def validateById (e : Env) (issue : Nat) (c : Int) : Bool :=
  if c == 0 then false
  else if issue == 1 then !(c.natAbs > 100)
  else !(c.natAbs > e.maxAER)

/-- `validateForVote` with the issue's old record. -/
def validateForVote (e : Env) (issue : Nat) : Outcome Unit := do
  rejectIf (e.staked == 0) .state                                             -- ErrMustStakeBeforeVote
  rejectIf (e.voteRec.getD issue false && e.stakedWhen + votingDelay > e.blockNo) .state

/-- What `system.ValidateSystemTx` leaves in the context for the command. -/
structure SysCtx where
  ci : CallInfo
  op : SysOp
  issue : Nat          -- 0 = voteBP, 1.. = proposal
  proposal : Bool      -- context.Proposal ≠ nil

/-- `system.ValidateSystemTx` -/
def sysValidate (u : List Site) (e : Env) : Outcome SysCtx :=
  match unmarshalCallInfo e.tx.payload with
  | none => .reject .payload
  | some ci =>
    match getOpSysTx ci.name with
    | .stake => do
      rejectIf (e.balance < e.tx.amount) .balance
      rejectIf (e.stakeRec && e.stakedWhen + stakingDelay > e.blockNo) .state       -- ErrLessTimeHasPassed
      rejectIf (e.stakingMin > ((e.staked + e.tx.amount : Nat) : Int)) .state       -- ErrTooSmallAmount
      pure ⟨ci, .stake, 0, false⟩
    | .voteBP => do
      validateForVote e 0
      pure ⟨ci, .voteBP, 0, false⟩
    | .unstake => do
      rejectIf (e.staked == 0) .state
      rejectIf (e.staked < e.tx.amount) .state
      rejectIf (e.stakedWhen + stakingDelay > e.blockNo) .state
      rejectIf (e.staked - e.tx.amount != 0 && e.stakingMin > ((e.staked - e.tx.amount : Nat) : Int)) .state
      pure ⟨ci, .unstake, 0, false⟩
    | .voteDAO => do
      rejectIf (e.forkVersion < 2) .state
      -- parseIDForProposal
      let a0 ← idx .sParseId0 ci.args 0
      match str? a0 with
      | none => .reject .args
      | some id =>
        match (if byteLen id < 1 then none else proposalIndex id) with
        | none => .reject .args
        | some issue => do
          -- getProposal always finds the four system proposals; Blockfrom = Blockto = 0
          let candis ← sliceFrom .sCandSlice ci.args 1
          rejectIf (candis.length > 1) .args                                      -- MultipleChoice = 1
          fixGuard u .vDaoVal (candis.length < 1) .args                           -- proposed repair
          rejectIf (!candis.all fun c =>
            match str? c with
            | none => false
            | some s => match parseBigInt s with
              | none => false
              | some n => validateById e issue n) .args
          validateForVote e issue
          pure ⟨ci, .voteDAO, issue, true⟩

/-- Total length of the candidate buffer `newVoteCmd` builds for a BP vote. -/
def candTotal (e : Env) (args : List JVal) : Nat :=
  ((indices args).map fun i => ((e.arg i).b58.getD 0)).sum

/-- `for offset := 0; offset < len(c); offset += 39 { c[offset : offset+39] }` on a buffer of length
`n` and capacity `cap`: panics iff the last chunk runs beyond the capacity. -/
def chunksFit (n cap : Nat) : Bool := (n + peerIDLength - 1) / peerIDLength * peerIDLength ≤ cap

/-- `cmd.sub(oldvote)` on the sender's old record of issue `i` (when `cond`): `SubVote` subtracts from
the tally entry of every candidate of the record; a candidate without entry is a nil `*big.Int`. -/
def subOld (e : Env) (i : Nat) (cond : Bool) : Outcome Unit :=
  if cond && e.voteRec.getD i false && !e.oldVoteOk.getD i true then .panic .rSubNil else .ok ()

/-- `cmd.add(newVote)` of a BP vote: `AddVote` walks the candidate buffer in 39-byte steps. -/
def addNew (e : Env) (proposal : Bool) (args : List JVal) : Outcome Unit :=
  if !proposal && !chunksFit (candTotal e args) e.candCap then .panic .rAddSlice else .ok ()

/-! #### Parameter votes: the tally, its sort, the threshold (`voteresult.go`, `types/vote.go`) -/

/-- Issue's tally as the sender's facts give it. -/
def Env.rows (e : Env) (i : Nat) : List TallyRow := e.tally.getD i []

/-- `SubVote` on a parameter tally: every candidate of the old record loses the old amount. -/
def subRows (rows : List TallyRow) (oldAmt : Nat) : List TallyRow :=
  rows.map fun r => if r.inOld then { r with amt := r.amt - oldAmt } else r

/-- `AddVote` of one candidate: its entry (created with 0 when absent) gains the amount. -/
def addRow (rows : List TallyRow) (c : List Nat) (amt : Nat) : List TallyRow :=
  if rows.any (·.cand == c) then rows.map fun r => if r.cand == c then { r with amt := r.amt + amt } else r
  else rows ++ [{ cand := c, amt := amt }]

def addRows (rows : List TallyRow) (cs : List (List Nat)) (amt : Nat) : List TallyRow :=
  cs.foldl (fun rs c => addRow rs c amt) rows

/-- An element of `buildVoteList`: candidate bytes and `Amount = v.Bytes()` (the absolute value). -/
structure VoteEnt where
  cand : List Nat
  amt : Nat
deriving Repr, DecidableEq

def buildVoteList (rows : List TallyRow) : List VoteEnt := rows.map fun r => ⟨r.cand, r.amt.natAbs⟩

/-- `new(big.Int).SetBytes(b)` -/
def bigOfBytes (b : List Nat) : Nat := b.foldl (fun a x => a * 256 + x) 0

/-- `bytes.Compare` as an integer sign. -/
def bytesCmp : List Nat → List Nat → Int
  | [], [] => 0
  | [], _ :: _ => -1
  | _ :: _, [] => 1
  | x :: xs, y :: ys => if x < y then -1 else if x > y then 1 else bytesCmp xs ys

def natCmp (a b : Nat) : Int := if a < b then -1 else if a > b then 1 else 0

/-- `types.VoteList.Less(i, j)` on the two entries.  Since fix 3f9132cd the peer-id branch (`Candidate[7:]` of BOTH
entries) is taken only when the j-th candidate has at least 7 bytes; before (site `tLessSlice` unguarded) a 39-byte
candidate next to a shorter one made the second slice expression panic.  The slices keep their panic semantics. -/
def lessKey (u : List Site) (a b : VoteEnt) : Outcome Int :=
  if a.cand.length == 39 && (b.cand.length ≥ 7 || u.contains .tLessSlice) then do
    let x ← sliceFrom .tLessSlice a.cand 7
    let y ← sliceFrom .tLessSlice b.cand 7
    pure (natCmp (bigOfBytes x) (bigOfBytes y))
  else .ok (natCmp (bigOfBytes a.cand) (bigOfBytes b.cand))

def voteLess (u : List Site) (a b : VoteEnt) : Outcome Bool :=
  if a.amt < b.amt then .ok true
  else if a.amt == b.amt then do
    let c ← lessKey u a b
    pure ((if c == 0 then bytesCmp a.cand b.cand else c) > 0)
  else .ok false

/-- Insert into a list sorted by `sort.Reverse(voteList)` (descending), comparing as insertion sort does. -/
def insertDesc (u : List Site) (x : VoteEnt) : List VoteEnt → Outcome (List VoteEnt)
  | [] => .ok [x]
  | y :: r =>
    -- Reverse.Less(x, y) = Less(y, x)
    voteLess u y x >>= fun b =>
      if b then .ok (x :: y :: r)
      else insertDesc u x r >>= fun r' => .ok (y :: r')

/-- `sort.Sort(sort.Reverse(voteList))` (as an insertion sort: which pairs the library compares depends on its
algorithm and on the map iteration order; the totality theorem is for every list and every pair). -/
def sortDesc (u : List Site) : List VoteEnt → Outcome (List VoteEnt)
  | [] => .ok []
  | x :: r => do
    let r' ← sortDesc u r
    insertDesc u x r'

/-- `VoteResult.threshold(power)`: since fix f9db0000 a tally below 100 aer (`unit = 0`) returns false before
the division; before (site `rThreshDiv` unguarded) `Div(total, 0)` panicked. -/
def threshold (u : List Site) (power total : Nat) : Outcome Bool :=
  if power == 0 then .ok false
  else
    let unit := power / 100
    if unit == 0 && !u.contains .rThreshDiv then .ok false
    else do
      let q ← divNat .rThreshDiv total unit
      pure (q ≤ 150)

/-- `VoteResult.Sync` of a parameter tally after `sub(old)` / `add(new)`: sort, `Votes[0]`, threshold. -/
def syncDao (u : List Site) (e : Env) (issue : Nat) (hadOld : Bool) (newCands : List (List Nat)) (newAmt : Nat) : Outcome Unit := do
  let rows := if hadOld then subRows (e.rows issue) (e.voteAmt.getD issue 0) else e.rows issue
  let rows := addRows rows newCands newAmt
  let sorted ← sortDesc u (buildVoteList rows)
  let top ← idx .rSyncTop sorted 0
  let _ ← threshold u top.amt e.stakingTotal
  pure ()

/-- The candidates a parameter vote names: `json.Marshal(Args[1:])` read back by `AddVote` (strings as UTF-8 bytes). -/
def daoCands (args : List JVal) : List (List Nat) := (args.drop 1).filterMap fun v => (str? v).map encodeUtf8

/-- The candidates of the sender's old record on a parameter issue, as the tally flags them. -/
def oldCands (e : Env) (issue : Nat) : List (List Nat) := ((e.rows issue).filter (·.inOld)).map (·.cand)

/-- Argument handling of `newVoteCmd`. -/
def voteArgs (c : SysCtx) : Outcome Unit :=
  if c.proposal then do
    let _ ← sliceFrom .vDaoSlice c.ci.args 1
    let _ ← argStr .vDaoId c.ci.args 0
    let _ ← argStr .vDaoVal c.ci.args 1
    pure ()
  else asStrAll .vBpCand c.ci.args

/-- `refreshAllVote` (unstaking): every old vote larger than the remaining stake is taken out of its
tally (`cmd.sub(oldvote)`), put back with the new amount (`cmd.add`), and the tally is synced; issues in
catalog order. -/
def refreshOne (u : List Site) (e : Env) (newStaked : Nat) (i : Nat) : Outcome Unit := do
  subOld e i (e.voteAmt.getD i 0 > newStaked)
  if (e.voteRec.getD i false && e.voteAmt.getD i 0 > newStaked) && i != 0 then syncDao u e i true (oldCands e i) newStaked
  else .ok ()

def refreshAllVote (u : List Site) (e : Env) (newStaked : Nat) : List Nat → Outcome Unit
  | [] => .ok ()
  | i :: r => do
    refreshOne u e newStaked i
    refreshAllVote u e newStaked r

/-- `newSysCmd` + `cmd.run()` after a successful validation. -/
def sysRun (u : List Site) (e : Env) (c : SysCtx) : Outcome Unit :=
  match c.op with
  | .stake => .ok ()
  | .unstake => refreshAllVote u e (e.staked - e.tx.amount) [0, 1, 2, 3, 4]
  | .voteBP | .voteDAO => do
    voteArgs c
    -- run(): updateVoteResult: sub(old vote), add(new vote), Sync
    subOld e c.issue true
    addNew e c.proposal c.ci.args
    if c.proposal then syncDao u e c.issue (e.voteRec.getD c.issue false) (daoCands c.ci.args) e.staked else .ok ()

/-- `system.ExecuteSystemTx` -/
def sysExecute (u : List Site) (e : Env) : Outcome Unit := do
  let c ← sysValidate u e
  sysRun u e c

/-! ### contract/name -/

/-- `name.ValidateNameTx` -/
def nameState (e : Env) (ci : CallInfo) : Outcome Unit :=
  if ci.name == str% "v1createName" then do
    rejectIf (e.namePrice > (e.tx.amount : Int)) .state
    rejectIf e.nameOwned .state
  else if ci.name == str% "v1updateName" then do
    rejectIf (e.namePrice > (e.tx.amount : Int)) .state
    rejectIf (!e.acctEqName && !e.acctIsOwner) .state
  else if ci.name == str% "v1setOwner" then
    rejectIf e.contractOwned .state
  else .reject .payload

def nameValidate (e : Env) : Outcome CallInfo := do
  rejectIf (e.balance < e.tx.amount) .balance
  match unmarshalCallInfo e.tx.payload with
  | none => .reject .payload
  | some ci => do
    let _nameArg ← argStr .nVal0 ci.args 0
    nameState e ci
    pure ci

/-- `name.ExecuteNameTx`: argument handling (what CreateName/UpdateName/SetContractOwner then do
to the state is not modelled: it has no payload-dependent indexing). -/
def nameExecArgs (ci : CallInfo) : Outcome Unit :=
  if ci.name == str% "v1createName" then do
    let _ ← argStr .nExCreate0 ci.args 0
    pure ()
  else if ci.name == str% "v1updateName" then do
    let _ ← argStr .nExUpd0 ci.args 0
    let _ ← argStr .nExUpd1 ci.args 1
    pure ()
  else if ci.name == str% "v1setOwner" then do
    let _ ← argStr .nExOwner0 ci.args 0
    pure ()
  else .ok ()

def nameExecute (e : Env) : Outcome Unit := do
  let ci ← nameValidate e
  nameExecArgs ci

/-! ### contract/enterprise -/

structure EntCtx where
  ci : CallInfo
  args : List Str := []          -- context.Args
  anyLen : Nat := 0              -- len(context.ArgsAny)

def hasValue (c : Option Conf) (v : Str) : Bool :=
  match c with
  | some c => c.values.contains v
  | none => false

/-- `enterprise.serializeConf`: the bytes `setConf` stores — the on/off flag, then every value behind a backslash. -/
def serConf (c : Conf) : List Nat := (if c.on then 1 else 0) :: c.values.flatMap fun v => 92 :: encodeUtf8 v

/-- `getConf` → `deserializeConf(data)`: `data == nil` is tested, `data[0]` is then read. `emptyRec`: the stored record is
non-nil with length 0 (no writer produces it: `Props.C14.serializeConf_nonempty`; `SetData(key, nil)` would after a commit). -/
def confRead (emptyRec : Bool) : Outcome Unit :=
  if emptyRec then idx .cDeser0 ([] : List Nat) 0 >>= fun _ => .ok () else .ok ()

/-- `getAdmins` + `checkAdmin`. `allowUnset`: the caller tolerates ErrTxEnterpriseAdminIsNotSet. -/
def checkAdmin (e : Env) (allowUnset : Bool) : Outcome Unit :=
  if !e.adminsReadable then .panic .gAdmins
  else if e.admins.isEmpty then rejectIf (!allowUnset) .state
  else rejectIf (!e.senderInAdmins) .state

/-- `for _, v := range c.Values { if strings.Contains(strings.ToUpper(strings.Split(v, ":")[1]), "W") { return nil } }`
followed by the error return. -/
def rpcHasWrite : List Str → Outcome Unit
  | [] => .reject .state
  | v :: r => do
    let p ← idx .cRpcSplit (splitColon v) 1
    if (toUpper p).contains 87 then .ok () else rpcHasWrite r

/-- `(*Conf).Validate(key, context)` on conf `c`, with `context.Conf = ctxConf`. -/
def confValidate (e : Env) (key : Str) (c : Conf) (ctxConf : Option Conf) : Outcome Unit :=
  if !c.on then .ok ()
  else if toUpper key == str% "RPCPERMISSIONS" then rpcHasWrite c.values
  else if toUpper key == str% "ACCOUNTWHITE" then
    rejectIf (!e.adminsEnc.any fun a => hasValue ctxConf a) .state
  else .ok ()

def enterpriseKey (k : Str) : Bool :=
  k == str% "RPCPERMISSIONS" || k == str% "P2PWHITE" || k == str% "P2PBLACK" || k == str% "ACCOUNTWHITE"

/-- `checkRPCPermissions` -/
def checkRpc (e : Env) (i : Nat) (v : Str) : Outcome Bool :=
  if (splitColon v).length != 2 then .ok false
  else do
    let _ ← idx .eRpcVals0 (splitColon v) 0
    pure (e.arg i).b64Ok

/-- `op(arg)` of checkArgs for the arguments after the key (`i` = index in `ci.Args`). -/
def checkOp (e : Env) (key : Str) (i : Nat) (v : Str) : Outcome Unit :=
  if key == str% "P2PWHITE" || key == str% "P2PBLACK" then rejectIf (!(e.arg i).listOk) .args
  else if key == str% "ACCOUNTWHITE" then rejectIf (e.arg i).addr.isNone .args
  else if key == str% "RPCPERMISSIONS" then do
    let ok ← checkRpc e i v
    rejectIf (!ok) .args
  else .ok ()

def checkOps (e : Env) (key : Str) : Nat → List Str → Outcome Unit
  | _, [] => .ok ()
  | i, v :: r => do
    checkOp e key i v
    checkOps e key (i + 1) r

/-- `checkArgs`: the strings appended to `context.Args`, or a rejection. -/
def checkArgs (u : List Site) (e : Env) (ci : CallInfo) : Outcome (List Str) := do
  fixGuard u .eCheckArgs0 (!(ci.args.getD 0 .null |> isStr)) .args            -- proposed repair: comma-ok
  let a0 ← argStr .eCheckArgs0 ci.args 0
  let key := toUpper a0
  rejectIf (!enterpriseKey key) .args
  rejectIf (!ci.args.all isStr) .args
  let strs := ci.args.filterMap str?
  rejectIf (strs.any fun s => s.contains 92) .args
  rejectIf (!nodup strs) .args
  checkOps e key 1 (strs.drop 1)
  pure strs

/-- `ValidateChangeCluster` + `CcArgument.parse` -/
def ccGet (kvs : List (Str × JVal)) (k : Str) : Option Str :=
  match objGet kvs k with
  | some (.str s) => some s
  | _ => none

/-- `CcArgument.parse` -/
def ccParse (e : Env) (kvs : List (Str × JVal)) : Outcome Unit :=
  match ccGet kvs (str% "command") with
  | none => .reject .args
  | some cmd =>
    if cmd == str% "add" then
      match ccGet kvs (str% "name"), ccGet kvs (str% "address"), ccGet kvs (str% "peerid") with
      | some _, some _, some _ => do
        rejectIf (!e.ccPeerOk) .args
        rejectIf (!e.ccAddrOk) .args
      | _, _, _ => .reject .args
    else if cmd == str% "remove" then
      match ccGet kvs (str% "id") with
      | some _ => rejectIf (!e.ccIdOk) .args
      | none => .reject .args
    else .reject .args

def validateChangeCluster (e : Env) (ci : CallInfo) : Outcome Unit := do
  rejectIf (ci.args.length != 1) .args
  let a0 ← idx .eCc0 ci.args 0
  match a0 with
  | .obj kvs => ccParse e kvs
  | _ => .reject .args

/-- State checks of appendAdmin / removeAdmin. -/
def adminState (e : Env) (ci : CallInfo) (arg : Str) (address : List Nat) : Outcome Unit :=
  if ci.name == str% "appendAdmin" then
    rejectIf (e.admins.contains address) .state
  else do
    rejectIf (!e.admins.contains address) .state
    confRead e.confWhiteEmpty
    match e.confWhite with
    | some c => rejectIf (c.on && c.values.contains arg) .state
    | none => .ok ()

/-- setConf validates the *stored* configuration (with `context.Conf` = the new one). -/
def validateStored (e : Env) (key : Str) (newConf : Conf) : Outcome Unit :=
  match e.confKey with
  | some stored => confValidate e key stored (some newConf)
  | none => .ok ()

/-- `types.ToAddress(arg)` for `Args[0]` (nil on a decoding error). -/
def addrOf (e : Env) : List Nat := ((e.arg 0).addr).getD []

/-- `setConfValues`: the stored configuration with the new values, or a fresh one. -/
def newConfOf (e : Env) (vals : List Str) : Conf :=
  match e.confKey with
  | some c => { c with values := vals }
  | none => { on := false, values := vals }

/-- `getConf` or `&Conf{On: false}`. -/
def storedOr (e : Env) : Conf := e.confKey.getD { on := false, values := [] }

/-- `enableConf(scs, key, value)` -/
def enabledConf (e : Env) (value : Bool) : Conf :=
  match e.confKey with
  | some c => { c with on := value }
  | none => { on := value, values := [] }

/-- appendConf / removeConf applied to the configuration. -/
def modConf (ci : CallInfo) (conf : Conf) (v : Str) : Outcome Conf :=
  if ci.name == str% "appendConf" then do
    rejectIf (conf.values.contains v) .state
    pure { conf with values := conf.values ++ [v] }
  else do
    rejectIf (!conf.values.contains v) .state
    pure { conf with values := conf.values.erase v }

/-- case AppendAdmin, RemoveAdmin -/
def entAdmin (u : List Site) (e : Env) (ci : CallInfo) : Outcome EntCtx := do
  rejectIf (ci.args.length != 1) .args
  fixGuard u .eAdmin0 (!(ci.args.getD 0 .null |> isStr)) .args              -- proposed repair: comma-ok
  let arg ← argStr .eAdmin0 ci.args 0
  rejectIf (addrOf e).isEmpty .args
  fixGuard u .gAdmins ((addrOf e).length != addressLength) .args            -- proposed repair: 33-byte admins only
  checkAdmin e true
  adminState e ci arg (addrOf e)
  pure { ci, args := [arg] }

/-- case SetConf -/
def entSetConf (u : List Site) (e : Env) (ci : CallInfo) : Outcome EntCtx := do
  rejectIf (ci.args.length ≤ 1) .args
  let ctxArgs ← checkArgs u e ci
  let key ← idx .eCtx0 ctxArgs 0
  checkAdmin e false
  let vals ← sliceFrom .eCtxTail ctxArgs 1
  confRead e.confKeyEmpty                      -- setConfValues → getConf
  let _ ← idx .eCtx0 ctxArgs 0
  validateStored e key (newConfOf e vals)
  pure { ci, args := ctxArgs }

/-- case AppendConf, RemoveConf -/
def entModConf (u : List Site) (e : Env) (ci : CallInfo) : Outcome EntCtx := do
  rejectIf (ci.args.length != 2) .args
  let ctxArgs ← checkArgs u e ci
  checkAdmin e false
  let key ← idx .eCtx0 ctxArgs 0
  confRead e.confKeyEmpty                      -- getConf
  let v ← idx .eCtx1 ctxArgs 1
  let conf' ← modConf ci (storedOr e) v
  confValidate e key conf' (some conf')
  pure { ci, args := ctxArgs }

/-- case EnableConf, after the key was accepted -/
def entEnableVal (e : Env) (ci : CallInfo) (arg0 : Str) : JVal → Outcome EntCtx
  | .bool value => do
    checkAdmin e false
    confRead e.confKeyEmpty                    -- enableConf → getConf
    confValidate e arg0 (enabledConf e value) (some (enabledConf e value))
    pure { ci, args := [arg0] }
  | _ => .reject .args

/-- case EnableConf -/
def entEnable (e : Env) (ci : CallInfo) : Outcome EntCtx := do
  rejectIf (ci.args.length != 2) .args
  let a0 ← idx .eEnable0 ci.args 0
  match str? a0 with
  | none => .reject .args
  | some _ => do
    let arg0 ← argStr .eEnable0 ci.args 0
    rejectIf (!enterpriseKey (toUpper arg0)) .args
    let a1 ← idx .eEnable1 ci.args 1
    entEnableVal e ci arg0 a1

/-- case ChangeCluster -/
def entCluster (e : Env) (ci : CallInfo) : Outcome EntCtx := do
  rejectIf (!e.raft) .unsupported
  validateChangeCluster e ci
  checkAdmin e false
  pure { ci, anyLen := 1 }

/-- `enterprise.ValidateEnterpriseTx` -/
def entValidate (u : List Site) (e : Env) : Outcome EntCtx :=
  match unmarshalCallInfo e.tx.payload with
  | none => .reject .payload
  | some ci =>
    if ci.name == str% "appendAdmin" || ci.name == str% "removeAdmin" then entAdmin u e ci
    else if ci.name == str% "setConf" then entSetConf u e ci
    else if ci.name == str% "appendConf" || ci.name == str% "removeConf" then entModConf u e ci
    else if ci.name == str% "enableConf" then entEnable e ci
    else if ci.name == str% "changeCluster" then entCluster e ci
    else .reject .payload

/-- `enterprise.ExecuteEnterpriseTx`: argument handling after the validation. -/
def entExecArgs (c : EntCtx) : Outcome Unit :=
  let n := c.ci.name
  if n == str% "appendAdmin" || n == str% "removeAdmin" || n == str% "setConf" || n == str% "appendConf"
      || n == str% "removeConf" then do
    let _ ← idx .xCtx0 c.args 0
    pure ()
  else if n == str% "enableConf" then do
    let _ ← idx .xCtx0 c.args 0
    let _ ← idx .xEnable1 c.ci.args 1
    pure ()
  else if n == str% "changeCluster" then do
    let _ ← idx .xAny0 (List.replicate c.anyLen ()) 0
    pure ()
  else .ok ()

def entExecute (u : List Site) (e : Env) : Outcome Unit := do
  let c ← entValidate u e
  entExecArgs c

/-! ### The two entry points of the property -/

/-- Forget the result (`if _, err := f(); err != nil { return err }`). -/
def void (x : Outcome α) : Outcome Unit := x >>= fun _ => .ok ()

/-- `mempool.validateTx`, governance branch (after ValidateWithSenderState). -/
def poolGov (u : List Site) (e : Env) : Outcome Unit :=
  if e.tx.recipient == aergoSystem then void (sysValidate u e)
  else if e.tx.recipient == aergoName then void (nameValidate e)
  else if e.tx.recipient == aergoEnterprise then void (entValidate u e)
  else .ok ()

def specialAccounts : List Str := [aergoSystem, aergoName, aergoEnterprise, str% "aergo.vault"]

/-- `mp.getAddress(recipient) != nil` for a non-nil recipient: 33 bytes and special names resolve to themselves,
anything else is looked up in the name contract. -/
def rcptAddrOk (e : Env) : Bool :=
  e.tx.recipient.length == addressLength || specialAccounts.contains e.tx.recipient || e.rcptResolved

/-- case NORMAL, TRANSFER, CALL (and REDEPLOY falling through): the recipient check (quirk transactions — a fixed
list of historical hashes — are not modelled). -/
def poolRecipient (e : Env) : Outcome Unit := do
  let r := e.tx.recipient
  let nameRcpt := !r.isEmpty && r.length ≤ nameLength          -- HasNameRecipient
  rejectIf (!(nameRcpt || specialAccounts.contains r) && r.length != addressLength) .recipient
  rejectIf (!rcptAddrOk e) .recipient

/-- case FEEDELEGATION: recipient, its balance against the maximum fee, the chain service's verdict. -/
def poolFeeDelegation (e : Env) : Outcome Unit := do
  let r := e.tx.recipient
  rejectIf r.isEmpty .recipient
  rejectIf (r.length ≤ nameLength && !rcptAddrOk e) .recipient
  validateMaxFee e e.rcptBalance
  match e.fdReply with
  | .timeout => .reject .internal
  | .untyped => .panic .pFdRsp           -- rsp.(message.CheckFeeDelegationRsp)
  | .refused => .reject .fd
  | .ok => .ok ()

/-- `mempool.validateTx`, the switch on the type for everything but governance. -/
def poolOther (e : Env) : Outcome Unit :=
  let t := e.tx.type
  if t == 2 then do                    -- REDEPLOY
    rejectIf e.isPublic .type_
    rejectIf e.tx.recipient.isEmpty .recipient
    poolRecipient e
  else if t == 0 || t == 4 || t == 5 then poolRecipient e
  else if t == 7 then rejectIf e.blockMulticall .type_
  else if t == 6 then do
    rejectIf (!e.tx.recipient.isEmpty) .recipient
    rejectIf e.blockDeploy .type_
  else if t == 3 then poolFeeDelegation e
  else .ok ()

/-- Pool admission: `verifyTx` (Validate + signature), then `put`'s `validateTx` (sender state, then the
switch on the transaction type). -/
def poolAdmit (u : List Site) (e : Env) : Outcome Unit := do
  typesValidate u e
  rejectIf (!e.tx.sigOk) .sig
  senderState e false
  if e.tx.type == 1 then poolGov u e else poolOther e

/-- `executeGovernanceTx` -/
def execGov (u : List Site) (e : Env) : Outcome Unit := do
  rejectIf e.tx.payload.isEmpty .format
  if e.tx.recipient == aergoSystem then sysExecute u e
  else if e.tx.recipient == aergoName then nameExecute e
  else if e.tx.recipient == aergoEnterprise then entExecute u e
  else .reject .recipient

/-- The other types after the sender-state check: `contract.Execute` (base fee, `fee.GasLimit`), the fee-delegation
`ValidateMaxFee` on the recipient, the VM (not modelled: a scripted stub in the harness) and the receipt
(`fee.ReceiptGasUsed`).  Their only partial operation outside the VM is the division by the block's gas price in
`fee.CalcGas`, reached whenever gas is enabled; it is modelled as one division by that price. -/
def execOther (e : Env) : Outcome Unit :=
  if gasEnabled e then void (divInt .fCalcGas 0 e.gasPrice) else .ok ()

/-- `executeTx`, up to the receipt. -/
def execute (u : List Site) (e : Env) : Outcome Unit := do
  typesValidate u e
  senderState e true
  if e.tx.type == 1 then execGov u e else execOther e

/-! ### The table of partial operations (tie T)

`tools/goext partialops` follows the call graph from the admission / execution entry points, lists every
partial operation (index, slice, unchecked type assertion, explicit panic, division, nil-able arithmetic argument,
map write) of every reachable function, and discharges by syntax the ones guarded inside their own function
(`Aergo.Gen.PartialOps.auto`, with the rule).  Everything else (`open_`) must have an entry here with the reason
why it cannot crash the node on an admitted transaction:

 * `trap ss`    — carried by the model as the explicit traps `ss`: the guard is in ANOTHER function (validation
                  establishes it, execution relies on it); the totality theorems of `Props.C14` are about these;
 * `stored inv` — decoder of a record the same contract encoded (named encoder / invariant); the harness runs it on
                  every state it builds;
 * `lib why`    — bound guaranteed by a library / language contract;
 * `ctor why`   — write to a map that every constructor of the struct creates;
 * `bounded why`— bound established by the surrounding code in a form the syntactic rules do not see;
 * `storageErr` — explicit `panic` on a storage error or on a corrupt record (not reachable from a payload);
 * `offPath why`— in the inventory only through the over-approximation of the call graph (method names).
-/

inductive OpClass
  | trap (ss : List Site)
  | stored (inv : String)
  | lib (why : String)
  | ctor (why : String)
  | bounded (why : String)
  | storageErr
  | offPath (why : String)
deriving DecidableEq, Repr

open OpClass Site in
/-- `(key, occurrences in the function, class)` for every open partial operation of the current source, sorted by
key as the extractor emits them.  `Props.C14.every_open_op_accounted`: the generated `(key, n)` list is exactly this one. -/
def openOps : List (String × Nat × OpClass) := [
  ("chain/chainhandle.go:executeTx:slice:_[:maxRetSize-4]", 1, bounded "adjustRv: len(ret) > maxRetSize is tested on the line above"),
  ("chain/debugger.go:Debugger.Check:index:stopConds[_]", 2, offPath "debugger conditions (method names Check/String)"),
  ("chain/debugger.go:StopCond.String:index:stopConds[_]", 1, offPath "debugger conditions (method names Check/String)"),
  ("consensus/impl/raftv2/blockfactory.go:GetName:index:consensus.ConsensusName[consensus.ConsensusRAFT]", 1, lib "static table indexed by a constant"),
  ("consensus/impl/raftv2/raftlogger.go:defaultArgsFormat:slice:_[:len(_)-1]", 1, offPath "raft log formatting"),
  ("consensus/impl/raftv2/raftserver.go:raftServer.GetClusterProgress:mapwrite:_.MemberProgresses[_]", 1, ctor "the map is created by the constructor of its struct / by make in the package initialiser (newVoteResult, newVprStore, newTopVoters, newVpr, systemParams literal, initSysCmd)"),
  ("consensus/raftCommon.go:Member.CalculateMemberID:slice:_[:8]", 1, lib "sha1.Sum-style fixed-size digest"),
  ("contract/enterprise/changecluster.go:CcArgument.get:index:_[_]", 1, lib "CcArgument is a named map type: a map read"),
  ("contract/enterprise/config.go:Conf.RemoveValue:slice:_.Values[:_]", 1, bounded "i is the range index of c.Values"),
  ("contract/enterprise/config.go:Conf.RemoveValue:slice:_.Values[_+1:]", 1, bounded "i is the range index of c.Values"),
  ("contract/enterprise/config.go:Conf.Validate:index:strings.Split(_, \":\")[1]", 1, trap [cRpcSplit]),
  ("contract/enterprise/config.go:getConf:index:_[0]", 1, trap [cDeser0]),
  ("contract/enterprise/config.go:getConf:slice:strings.Split(string(_), \"\\\\\")[1:]", 1, lib "strings.Split returns at least one element"),
  ("contract/enterprise/execute.go:ExecuteEnterpriseTx:index:_.ArgsAny[0]", 1, trap [xAny0]),
  ("contract/enterprise/execute.go:ExecuteEnterpriseTx:index:_.Args[0]", 6, trap [xCtx0]),
  ("contract/enterprise/execute.go:ExecuteEnterpriseTx:index:_.Call.Args[1]", 1, trap [xEnable1]),
  ("contract/enterprise/execute.go:ExecuteEnterpriseTx:slice:_.Admins[:_]", 1, bounded "i is the range index of context.Admins"),
  ("contract/enterprise/execute.go:ExecuteEnterpriseTx:slice:_.Admins[_+1:]", 1, bounded "i is the range index of context.Admins"),
  ("contract/enterprise/validate.go:ValidateEnterpriseTx:assert:_.Args[0].(string)", 1, trap [eEnable0]),
  ("contract/enterprise/validate.go:ValidateEnterpriseTx:index:_.Args[0]", 6, trap [eCtx0, eCheckArgs0]),
  ("contract/enterprise/validate.go:ValidateEnterpriseTx:index:_.Args[1]", 4, trap [eCtx1]),
  ("contract/enterprise/validate.go:ValidateEnterpriseTx:slice:_.Args[1:]", 1, trap [eCtxTail]),
  ("contract/enterprise/validate.go:ValidateEnterpriseTx:slice:_[_ : _+types.AddressLength]", 1, trap [gAdmins]),
  ("contract/name/execute.go:ExecuteNameTx:assert:_.Args[0].(string)", 3, trap [nExCreate0, nExUpd0, nExOwner0]),
  ("contract/name/execute.go:ExecuteNameTx:assert:_.Args[1].(string)", 1, trap [nExUpd1]),
  ("contract/name/execute.go:ExecuteNameTx:index:_.Args[0]", 3, trap [nExCreate0, nExUpd0, nExOwner0]),
  ("contract/name/execute.go:ExecuteNameTx:index:_.Args[1]", 1, trap [nExUpd1]),
  ("contract/name/execute.go:ValidateNameTx:assert:_.Args[0].(string)", 1, trap [nVal0]),
  ("contract/name/execute.go:ValidateNameTx:index:_.Args[0]", 1, trap [nVal0]),
  ("contract/name/name.go:getNameMap:index:_[0]", 1, stored "deserializeNameMap: written by serializeNameMap (version 1, two length-prefixed fields); absent key = nil; read for every name sender/recipient the harness resolves"),
  ("contract/name/name.go:getNameMap:panic:panic(\"could not deserializeOwner, not supported version\")", 1, storageErr),
  ("contract/name/name.go:getNameMap:slice:_[_:_]", 4, stored "deserializeNameMap: written by serializeNameMap (version 1, two length-prefixed fields); absent key = nil; read for every name sender/recipient the harness resolves"),
  ("contract/system/execute.go:ExecuteSystemTx:assert:_.(string)", 1, trap [vBpCand]),
  ("contract/system/execute.go:ExecuteSystemTx:assert:_.Call.Args[0].(string)", 1, trap [vDaoId]),
  ("contract/system/execute.go:ExecuteSystemTx:assert:_.Call.Args[1].(string)", 1, trap [vDaoVal]),
  ("contract/system/execute.go:ExecuteSystemTx:index:_.Call.Args[0]", 1, trap [vDaoId]),
  ("contract/system/execute.go:ExecuteSystemTx:index:_.Call.Args[1]", 1, trap [vDaoVal]),
  ("contract/system/execute.go:ExecuteSystemTx:slice:_.Call.Args[1:]", 1, trap [vDaoSlice]),
  ("contract/system/param.go:parameters.setNextBlockParam:mapwrite:_.params[nextBlockParamKey(_)]", 1, ctor "the map is created by the constructor of its struct / by make in the package initialiser (newVoteResult, newVprStore, newTopVoters, newVpr, systemParams literal, initSysCmd)"),
  ("contract/system/staking.go:getStaking:slice:_[8:]", 1, stored "deserializeStaking: written by serializeStaking; read by every system transaction the harness executes"),
  ("contract/system/staking.go:getStaking:slice:_[:8]", 1, stored "deserializeStaking: written by serializeStaking; read by every system transaction the harness executes"),
  ("contract/system/validation.go:ValidateSystemTx:index:_.Args[0]", 1, trap [sParseId0]),
  ("contract/system/validation.go:ValidateSystemTx:index:_.Candidates[_]", 3, bounded "indices supplied by sort.Slice / guarded by i < len; the four system proposals have no candidate list"),
  ("contract/system/validation.go:ValidateSystemTx:slice:_.Args[1:]", 1, trap [sCandSlice]),
  ("contract/system/vote.go:deserializeVote:panic:panic(\"voting data corruption\")", 1, stored "written by serializeVote/serializeVoteEx/serializeVoteList; read by every vote/unstake the harness executes"),
  ("contract/system/vote.go:deserializeVote:slice:_[:len(_)-_]", 1, stored "written by serializeVote/serializeVoteEx/serializeVoteList; read by every vote/unstake the harness executes"),
  ("contract/system/vote.go:deserializeVote:slice:_[len(_)-_:]", 1, stored "written by serializeVote/serializeVoteEx/serializeVoteList; read by every vote/unstake the harness executes"),
  ("contract/system/vote.go:deserializeVoteEx:slice:_[8 : 8+_]", 1, stored "written by serializeVote/serializeVoteEx/serializeVoteList; read by every vote/unstake the harness executes"),
  ("contract/system/vote.go:deserializeVoteEx:slice:_[8+_:]", 1, stored "written by serializeVote/serializeVoteEx/serializeVoteList; read by every vote/unstake the harness executes"),
  ("contract/system/vote.go:deserializeVoteEx:slice:_[:8]", 1, stored "written by serializeVote/serializeVoteEx/serializeVoteList; read by every vote/unstake the harness executes"),
  ("contract/system/voteresult.go:VoteResult.AddVote:mapwrite:_.rmap[_]", 2, ctor "the map is created by the constructor of its struct / by make in the package initialiser (newVoteResult, newVprStore, newTopVoters, newVpr, systemParams literal, initSysCmd)"),
  ("contract/system/voteresult.go:VoteResult.AddVote:mapwrite:_.rmap[base58.Encode(_)]", 2, ctor "the map is created by the constructor of its struct / by make in the package initialiser (newVoteResult, newVprStore, newTopVoters, newVpr, systemParams literal, initSysCmd)"),
  ("contract/system/voteresult.go:VoteResult.AddVote:slice:_.Candidate[_ : _+PeerIDLength]", 1, trap [rAddSlice]),
  ("contract/system/voteresult.go:VoteResult.SubVote:mapwrite:_.rmap[_]", 2, ctor "the map is created by the constructor of its struct / by make in the package initialiser (newVoteResult, newVprStore, newTopVoters, newVpr, systemParams literal, initSysCmd)"),
  ("contract/system/voteresult.go:VoteResult.SubVote:nilarg:_.rmap[_]", 2, trap [rSubNil]),
  ("contract/system/voteresult.go:VoteResult.SubVote:slice:_.Candidate[_ : _+PeerIDLength]", 1, stored "old BP vote record = whole 39-byte ids: invariant OldVotesOk (hypothesis of the execution theorems; broken only through the known finding rAddSlice)"),
  ("contract/system/voteresult.go:VoteResult.Sync:index:_.Votes[0]", 2, trap [rSyncTop]),
  ("contract/system/voteresult.go:VoteResult.threshold:div:new(big.Int).Div(_, _)", 1, trap [rThreshDiv]),
  ("contract/system/voteresult.go:VoteResult.threshold:panic:panic(\"failed to get staking total when calculate bp count\")", 1, storageErr),
  ("contract/system/voteresult.go:loadVoteResult:mapwrite:_.rmap[base58.Encode(_.Candidate)]", 1, ctor "the map is created by the constructor of its struct / by make in the package initialiser (newVoteResult, newVprStore, newTopVoters, newVpr, systemParams literal, initSysCmd)"),
  ("contract/system/voteresult.go:loadVoteResult:mapwrite:_.rmap[string(_.Candidate)]", 1, ctor "the map is created by the constructor of its struct / by make in the package initialiser (newVoteResult, newVprStore, newTopVoters, newVpr, systemParams literal, initSysCmd)"),
  ("contract/system/voteresult.go:loadVoteResult:slice:_[_ : _+8]", 1, stored "written by serializeVote/serializeVoteEx/serializeVoteList; read by every vote/unstake the harness executes"),
  ("contract/system/voteresult.go:loadVoteResult:slice:_[_+8 : _]", 1, stored "written by serializeVote/serializeVoteEx/serializeVoteList; read by every vote/unstake the harness executes"),
  ("contract/system/vprt.go:toVotingPower:assert:_.Value.(*votingPower)", 1, bounded "only *votingPower values are put into the bucket lists and the rank tree (vprStore.update/addTail, topVoters.update)"),
  ("contract/system/vprt.go:topVoters.lowest:assert:_.Value.(*votingPower)", 1, bounded "only *votingPower values are put into the bucket lists and the rank tree (vprStore.update/addTail, topVoters.update)"),
  ("contract/system/vprt.go:topVoters.set:mapwrite:_.powers[_]", 1, ctor "the map is created by the constructor of its struct / by make in the package initialiser (newVoteResult, newVprStore, newTopVoters, newVpr, systemParams literal, initSysCmd)"),
  ("contract/system/vprt.go:vpr.prepare:mapwrite:_.changes[_]", 1, ctor "the map is created by the constructor of its struct / by make in the package initialiser (newVoteResult, newVprStore, newTopVoters, newVpr, systemParams literal, initSysCmd)"),
  ("contract/system/vprt.go:vprStore.update:assert:_.Remove(_).(*votingPower)", 1, bounded "only *votingPower values are put into the bucket lists and the rank tree (vprStore.update/addTail, topVoters.update)"),
  ("contract/system/vprt.go:vprStore.update:index:_[0]", 1, lib "getBucketIdx: types.AccountID is a [32]byte array"),
  ("contract/system/vprt.go:vprStore.update:mapwrite:_.buckets[_]", 1, ctor "the map is created by the constructor of its struct / by make in the package initialiser (newVoteResult, newVprStore, newTopVoters, newVpr, systemParams literal, initSysCmd)"),
  ("fee/gas.go:CalcGas:div:new(big.Int).Div(_, _)", 1, trap [fCalcGas]),
  ("mempool/mempool.go:MemPool.getAccountState:mapwrite:balance[_]", 1, offPath "mp.testConfig is set only by the pool unit tests"),
  ("mempool/mempool.go:MemPool.getAccountState:mapwrite:nonce[_]", 1, offPath "mp.testConfig is set only by the pool unit tests"),
  ("mempool/mempool.go:MemPool.validateTx:assert:_.(message.CheckFeeDelegationRsp)", 1, trap [pFdRsp]),
  ("mempool/whitelist.go:whitelistConf.Check:index:_.whitelist[_]", 1, lib "whitelist is a map field: a map read"),
  ("state/block.go:BlockState.AddReceipt:slice:_[24:]", 1, lib "bloom GobEncode output starts with a 24-byte header"),
  ("types/account.go:DecodeAddressBytes:index:_[0]", 1, lib "base58check.Decode returns at least the version byte or an error (checked in the library source)"),
  ("types/account.go:DecodeAddressBytes:slice:_[1:]", 1, lib "base58check.Decode returns at least the version byte or an error (checked in the library source)"),
  ("types/blockchain.go:AvgTime.Get:assert:_.(time.Duration)", 1, offPath "block producer signing-time statistics (reached only through the method-name over-approximation Get/Add)"),
  ("types/blockchain.go:AvgTime.Get:panic:panic(\"AvgTxSignTime is not set\")", 1, offPath "block producer signing-time statistics (reached only through the method-name over-approximation Get/Add)"),
  ("types/blockchain.go:MovingAverage.Add:div:(_.curPos + 1) % _.size", 1, offPath "block producer signing-time statistics (reached only through the method-name over-approximation Get/Add)"),
  ("types/blockchain.go:MovingAverage.Add:index:_.values[_.curPos]", 2, offPath "block producer signing-time statistics (reached only through the method-name over-approximation Get/Add)"),
  ("types/blockchain.go:MovingAverage.calculateAvg:div:_.sum / int64(_.count)", 1, offPath "block producer signing-time statistics (reached only through the method-name over-approximation Get/Add)"),
  ("types/blockchain.go:MovingAverage.calculateAvg:index:_.values[_.curPos]", 1, offPath "block producer signing-time statistics (reached only through the method-name over-approximation Get/Add)"),
  ("types/logging.go:LogPeerShort.String:slice:_[len(_)-6:]", 1, offPath "p2p log formatting"),
  ("types/quirk.go:init:mapwrite:quirkTxMap[_]", 1, ctor "the map is created by the constructor of its struct / by make in the package initialiser (newVoteResult, newVprStore, newTopVoters, newVpr, systemParams literal, initSysCmd)"),
  ("types/raft.go:ConfChangeProgress.ToString:index:ConfChangeState_name[int32(_.State)]", 1, lib "protobuf-generated enum name table: a map read"),
  ("types/raft.go:MembershipChange.ToString:index:MembershipChangeType_name[int32(_.Type)]", 1, lib "protobuf-generated enum name table: a map read"),
  ("types/raft.go:RaftConfChangeToString:index:raftpb.ConfChangeType_name[int32(_.Type)]", 1, lib "protobuf-generated enum name table: a map read"),
  ("types/receipt.go:AddressPadding:index:_[0]", 1, bounded "id := make([]byte, AddressLength) in the same function"),
  ("types/receipt.go:AddressPadding:slice:_[1:]", 1, bounded "id := make([]byte, AddressLength) in the same function"),
  ("types/receipt.go:NewReceipt:slice:_[:33]", 1, bounded "AccountState.ID() pads every id to 33 bytes"),
  ("types/receipt.go:Receipt.marshalBody:slice:_[:4]", 8, bounded "l := make([]byte, 8) in the same function"),
  ("types/receipt.go:Receipt.marshalBodyV2:slice:_[:4]", 8, bounded "l := make([]byte, 8) in the same function"),
  ("types/rpc.go:ConfigItem.Add:index:_.Props[_]", 1, offPath "RPC config reply (method name Add)"),
  ("types/vote.go:OpSysTx.ID:slice:_.String()[prefixLen:]", 1, bounded "op < OpSysTxMax is tested above; every stringer name starts with Op"),
  ("types/vote.go:initSysCmd:mapwrite:cmdToOp[_.Cmd()]", 1, ctor "the map is created by the constructor of its struct / by make in the package initialiser (newVoteResult, newVprStore, newTopVoters, newVpr, systemParams literal, initSysCmd)")
]

open OpClass Site in
/-- Traps of the model whose Go expression is today guarded inside its own function (the extractor discharges it:
rule `lenguard`).  Kept so that every trap stays anchored to its source expression; the model still carries the
trap and proves the guard sufficient. -/
def guardedInSource : List (String × Nat × OpClass) := [
  ("types/transaction.go:InitGovernance:index:_.Args[1]", 1, trap [tNameUpdTo]),
  ("types/transaction.go:InitGovernance:index:_.Args[0]", 2, trap [tNameOwner0, tNameCommon0]),
  ("types/vote.go:VoteList.Less:slice:_.Votes[_].Candidate[7:]", 2, trap [tLessSlice]),
  ("contract/enterprise/validate.go:ValidateEnterpriseTx:index:_.Args[0]", 9, trap [eAdmin0, eEnable0]),
  ("contract/enterprise/validate.go:ValidateEnterpriseTx:index:_.Args[1]", 1, trap [eEnable1]),
  ("contract/enterprise/validate.go:ValidateEnterpriseTx:index:_[0]", 1, trap [eRpcVals0]),
  ("contract/enterprise/changecluster.go:ValidateChangeCluster:index:_.Args[0]", 2, trap [eCc0])
]

open Site in
/-- All constructors of `Site`. -/
def allSites : List Site := [tNameUpdTo, tNameOwner0, tNameCommon0, sParseId0, sCandSlice, vDaoSlice, vDaoId, vDaoVal, vBpCand,
  rAddSlice, rSubNil, nVal0, nExCreate0, nExUpd0, nExUpd1, nExOwner0, eAdmin0, eEnable0, eEnable1, eCtx0, eCtxTail, eCtx1,
  eCheckArgs0, eRpcVals0, eCc0, cRpcSplit, gAdmins, cDeser0, xCtx0, xEnable1, xAny0, rSyncTop, rThreshDiv, tLessSlice, fCalcGas, pFdRsp]

/-- The encoder / reader / writer of enterprise configuration records as the model transcribes them (`serConf`,
`confRead`): `deserializeConf` reads `data[0]` behind a `data == nil` test only, so an EMPTY stored record must be
impossible — `setConf` stores what `serializeConf` returns, and that always starts with the on/off byte. -/
def knownShapes : List (String × List String) := [
  ("contract/enterprise/config.go:serializeConf", ["var ret []byte", "if c.On { ret = append(ret, 1) } else { ret = append(ret, 0) }", "for _, v := range c.Values { ret = append(ret, '\\\\') ret = append(ret, []byte(v)...) }", "return ret"]),
  ("contract/enterprise/config.go:getConf", ["data, err := scs.GetData(dbkey.EnterpriseConf(key))", "if err != nil || data == nil { return nil, err }", "return deserializeConf(data), err"]),
  ("contract/enterprise/config.go:setConf", ["return scs.SetData(dbkey.EnterpriseConf(key), serializeConf(conf))"])
]

/-- The dispatch points of the current source (command names, system operations, transaction types, recipients):
`(file:func:switch tag, sorted case labels)`.  The model's `typesValidate`, `senderType`, `poolOther`, `typesName`,
`nameState`, `nameExecArgs`, `entValidate`, `entExecArgs`, `getOpSysTx`, `sysValidate` branch on exactly these. -/
def knownDispatch : List (String × String) := [
  ("chain/chainhandle.go:executeTx:switch txBody.Type", "types.TxType_CALL types.TxType_DEPLOY types.TxType_FEEDELEGATION types.TxType_GOVERNANCE types.TxType_MULTICALL types.TxType_NORMAL types.TxType_REDEPLOY types.TxType_TRANSFER"),
  ("consensus/impl/raftv2/cluster.go:Cluster.isEnableChangeMembership:switch cc.Type", "raftpb.ConfChangeAddNode raftpb.ConfChangeRemoveNode"),
  ("consensus/impl/raftv2/cluster.go:Cluster.makeProposal:switch req.Type", "default types.MembershipChangeType_ADD_MEMBER types.MembershipChangeType_REMOVE_MEMBER"),
  ("consensus/impl/raftv2/cluster.go:Cluster.validateChangeMembership:switch cc.Type", "default raftpb.ConfChangeAddNode raftpb.ConfChangeRemoveNode"),
  ("contract/enterprise/execute.go:ExecuteEnterpriseTx:switch context.Call.Name", "AppendAdmin AppendConf ChangeCluster EnableConf RemoveAdmin RemoveConf SetConf default"),
  ("contract/enterprise/validate.go:ValidateEnterpriseTx:switch ci.Name", "AppendAdmin AppendConf ChangeCluster EnableConf RemoveAdmin RemoveConf SetConf default"),
  ("contract/name/execute.go:ExecuteNameTx:switch ci.Name", "types.NameCreate types.NameUpdate types.SetContractOwner"),
  ("contract/name/execute.go:ValidateNameTx:switch ci.Name", "default types.NameCreate types.NameUpdate types.SetContractOwner"),
  ("contract/system/execute.go:ExecuteSystemTx:table map[types.OpSysTx]sysCmdCtor", "types.Opstake types.Opunstake types.OpvoteBP types.OpvoteDAO"),
  ("contract/system/validation.go:ValidateSystemTx:switch context.op", "default types.Opstake types.Opunstake types.OpvoteBP types.OpvoteDAO"),
  ("mempool/mempool.go:MemPool.validateTx:switch string(tx.GetBody().GetRecipient())", "types.AergoEnterprise types.AergoName types.AergoSystem"),
  ("mempool/mempool.go:MemPool.validateTx:switch tx.GetBody().GetType()", "types.TxType_CALL types.TxType_DEPLOY types.TxType_FEEDELEGATION types.TxType_GOVERNANCE types.TxType_MULTICALL types.TxType_NORMAL types.TxType_REDEPLOY types.TxType_TRANSFER"),
  ("types/transaction.go:InitGovernance:switch ci.Name", "NameCreate NameUpdate SetContractOwner default"),
  ("types/transaction.go:ValidateSystemTx:switch op", "Opstake Opunstake OpvoteBP OpvoteDAO default"),
  ("types/transaction.go:transaction.Validate:switch tx.GetBody().Type", "TxType_CALL TxType_DEPLOY TxType_FEEDELEGATION TxType_GOVERNANCE TxType_MULTICALL TxType_NORMAL TxType_REDEPLOY TxType_TRANSFER default"),
  ("types/transaction.go:transaction.ValidateWithSenderState:switch string(tx.GetBody().GetRecipient())", "AergoEnterprise AergoName AergoSystem default"),
  ("types/transaction.go:transaction.ValidateWithSenderState:switch tx.GetBody().GetType()", "TxType_CALL TxType_DEPLOY TxType_FEEDELEGATION TxType_GOVERNANCE TxType_NORMAL TxType_REDEPLOY TxType_TRANSFER")
]

end Aergo.Admit
