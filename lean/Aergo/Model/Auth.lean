/-
Model layer `Auth` (C04): authorisation and replay protection of executed transactions.

Transcribed from (pinned tree, after repairs 4499f0c6 and b35524dc):

* `types/transaction.go`  `transaction.Validate` (91-178) → `validate`, `typeCheck`;
  `ValidateWithSenderState` (304-345) → `validateSender` (uint64 wrap-around of `nonce+1` included);
* `account/key/sign.go`   `VerifyTx`, `VerifyTxWithAddress`, `CalculateHashWithoutSign` → `Verify pk (H (signInput t)) t.sign`
  with `signInput = encode txSignSpec` (field list regenerated from the source, `Aergo.Gen.Enc`);
* `types/blockchain.go`   `Tx.CalculateTxHash` → `H (hashInput t)`, `hashInput = encode txHashSpec`;
  `NeedNameVerify/HasNameAccount` → `Tx.named`;
* `contract/name/name.go` `GetAddress`, `GetOwner`, `Resolve` (legacy = false) → `getAddress`, `getOwner`, `resolve`;
  names are read with `GetInitialData`, i.e. as of the state the block started from (`Ledger.names`), writes of
  the current block are only visible to `ValidateNameTx` (`Ledger.pend`) and become readable after the block
  (`commitNames`);
* `mempool/mempool.go`    `verifyTx` (570-593) → `poolVerify`; `put`/`validateTx` sender-state part → `poolAdmit`;
* `chain/signVerifier.go` `verifyTx` (115-154) → `blockSigOk` (mempool short-cut only for non-name senders);
* `chain/chainhandle.go`  `executeTx` (963-1128: name resolution, `HasVerifedAccount` comparison, `Validate`,
  `ValidateWithSenderState`, nonce written on success *and* on a run-time failure) → `executeTx`;
  `blockExecutor.execute` (738-787: all txs, then `WaitVerifyDone`) + `BlockValidator.ValidateBody/WaitVerifyDone`
  → `execBlock` (the signature verdict used for a block is the one computed for that block).

* `types/blockchain.go` `ValidChildOf`, `chain/chainhandle.go` `addBlock` (chain-id version check, repair bd63ef2d),
  `newBlockExecutor` (`bi = NewBlockHeaderInfo(block)`) → `HdrCid`, `acceptHeader`, `execHBlock`, `runChain`;
* `mempool/mempool.go`    `loadTxs` (repair d1ee2c8f) → `poolLoad`;
* `consensus/chain/tx.go` `GatherTXs`, `consensus/chain/block.go` `GenerateBlock`/`ConnectBlock`, `newBlockExecutor`
  `commitOnly` → `gatherTxs`, `produceBlock` (`executeTx` no longer strips the verified account: repair 7dc29266); `runNode`.

SHA-256 is the parameter `H`, ECDSA verification the parameter `Verify pk msg sig`: uninterpreted.
What a transaction does besides the nonce (balances, names) is the parameter `body : Body`; its type cannot
return nonces, which is the frame fact "only executeTx/resetAccount write the sender's nonce" (true for every
`SetNonce` call site of the tree except `luaDeployContract`, which bumps the *deploying contract's* nonce
inside LuaJIT — not buildable here, see notes). `stdBody` is the concrete body for the transactions the
correspondence harness generates (transfers, calls of non-contracts, `aergo.name` create/update), zero fee.
Core Lean only (linked into `model-c04`).
-/
import Aergo.Model.Enc

namespace Aergo.Auth
open Aergo.Enc Aergo.Gen.Enc

/-- Error classes of `transaction.Validate`. -/
inductive VErr
  | format | chainId | size | hash | amount | price | account | recipient | type | payload
deriving DecidableEq, Repr

/-- The call a governance payload decodes to (JSON decoding itself is C14's; the harness states what it encoded). -/
inductive Cmd
  | none
  | create (name : Bytes)
  | update (name : Bytes) (to : Bytes)
  /-- a DEPLOY transaction; `addr` = `contract.CreateContractID(account, nonce)` (a SHA-256 value: stated by the harness) -/
  | deploy (addr : Bytes)
  /-- a call whose payload is a stub-VM script; `fail` = the script ends in a VM error (`{"err":"vm"}`) -/
  | script (fail : Bool)
  /-- a call of `aergo.system`: `stake` = the call is `v1stake` (the only one whose amount `ValidateWithSenderState`
  compares with the balance); other calls (`v1unstake`, `v1voteBP`, `v1voteDAO`, …) carry `false` -/
  | sys (stake : Bool)
  /-- an `aergo.system` payload that is not a JSON call -/
  | sysBad
deriving DecidableEq, Repr

/-- `types.Tx`: the body fields, the carried `Hash`, and three observed attributes (`size` = `proto.Size`,
`gov` = what the governance payload validator `validate(body)` answers, `cmd` = the decoded call). -/
structure Tx where
  nonce : Nat
  account : Bytes
  recipient : Bytes
  amount : Bytes
  payload : Bytes
  gasLimit : Nat
  gasPrice : Bytes
  type : Nat
  chainIdHash : Bytes
  sign : Bytes
  hash : Bytes
  size : Nat
  gov : Option VErr
  cmd : Cmd
deriving DecidableEq, Repr

/-- The record the digest field lists are evaluated on. -/
def Tx.toRec (t : Tx) : Rec where
  raw f :=
    if f = "Account" then t.account else if f = "Recipient" then t.recipient
    else if f = "Amount" then t.amount else if f = "Payload" then t.payload
    else if f = "GasPrice" then t.gasPrice else if f = "ChainIdHash" then t.chainIdHash
    else if f = "Sign" then t.sign else []
  num f := if f = "Nonce" then t.nonce else if f = "GasLimit" then t.gasLimit else if f = "Type" then t.type else 0

/-- Input of `key.CalculateHashWithoutSign`. -/
def signInput (t : Tx) : Bytes := encode txSignSpec t.toRec
/-- Input of `Tx.CalculateTxHash`. -/
def hashInput (t : Tx) : Bytes := encode txHashSpec t.toRec

/-- `new(big.Int).SetBytes(b)`. -/
def beNat (b : Bytes) : Nat := b.foldl (fun a x => a * 256 + x.toNat) 0

/-- The special account names as ASCII bytes (literal lists: kernel-reducible, unlike `String.toUTF8`). -/
def aergoDot : Bytes := [97, 101, 114, 103, 111, 46]                                   -- "aergo."
def aergoSystem : Bytes := aergoDot ++ [115, 121, 115, 116, 101, 109]                   -- "aergo.system"
def aergoName : Bytes := aergoDot ++ [110, 97, 109, 101]                                -- "aergo.name"
def aergoEnterprise : Bytes := aergoDot ++ [101, 110, 116, 101, 114, 112, 114, 105, 115, 101]  -- "aergo.enterprise"
def aergoVault : Bytes := aergoDot ++ [118, 97, 117, 108, 116]                          -- "aergo.vault"

/-- `types.MaxAER` on main net: 500,000,000 aergo (elsewhere `initChainParams` replaces it by the genesis total). -/
def maxAERMainNet : Nat := 500000000 * 10 ^ 18
def txMaxSize : Nat := 200 * 1024
def addressLength : Nat := 33
def nameLength : Nat := 12

/-- The `switch tx.GetBody().Type` of `Validate` (0 NORMAL, 1 GOVERNANCE, 2 REDEPLOY, 3 FEEDELEGATION,
4 TRANSFER, 5 CALL, 6 DEPLOY, 7 MULTICALL). -/
def typeCheck (isPublic : Bool) (t : Tx) : Option VErr :=
  let rnil := t.recipient.isEmpty
  let pnil := t.payload.isEmpty
  let normal : Option VErr := if rnil && pnil then some .recipient else none
  if t.type = 2 then (if isPublic then some .type else if rnil then some .recipient else normal)
  else if t.type = 0 then normal
  else if t.type = 1 then (if pnil then some .format else t.gov)
  else if t.type = 3 then (if rnil then some .recipient else if pnil then some .format else none)
  else if t.type = 4 ∨ t.type = 5 then (if rnil then some .recipient else none)
  else if t.type = 6 ∨ t.type = 7 then
    (if !rnil then some .recipient else if pnil then some .format
     else if t.type = 7 ∧ beNat t.amount ≠ 0 then some .amount else none)
  else some .type

section
variable (H : Bytes → Bytes) (Verify : Bytes → Bytes → Bytes → Bool)

/-- `transaction.Validate(chainidhash, isPublic)`; `none` = nil error. `maxAER` = the package variable `types.MaxAER`. -/
def validate (maxAER : Nat) (cid : Bytes) (isPublic : Bool) (t : Tx) : Option VErr :=
  if cid ≠ t.chainIdHash then some .chainId
  else if t.size > txMaxSize then some .size
  else if t.account.isEmpty then some .format
  else if t.hash ≠ H (hashInput t) then some .hash
  else if beNat t.amount > maxAER then some .amount
  else if beNat t.gasPrice > maxAER then some .price
  else if t.account.length > addressLength then some .account
  else if t.recipient.length > addressLength then some .recipient
  else typeCheck isPublic t

end

/-- Error classes of `ValidateWithSenderState`. -/
inductive SErr
  | nonceLow | nonceHigh | balance | fee | payload | recipient
deriving DecidableEq, Repr

/-- What the node is configured with / what is not modelled here (fees: C01). -/
structure Env where
  isPublic : Bool
  /-- `types.MaxAER` (main net: 5·10^26; other nets: total genesis balance, chain/common.go:86) -/
  maxAER : Nat
  /-- `fee.TxMaxFee(version, len(payload), gasLimit, balance, gasPrice)`; `none` = its error. -/
  maxFee : Tx → Nat → Option Nat
  /-- the `aergo.system` branch of `ValidateWithSenderState` (payload decode, stake against balance). -/
  sysCheck : Tx → Nat → Option SErr

/-- uint64 arithmetic. -/
def wrap64 (n : Nat) : Nat := n % 2 ^ 64

/-- `ValidateWithSenderState(senderState, gasPrice, version)`. -/
def validateSender (env : Env) (stNonce stBal : Nat) (t : Tx) : Option SErr :=
  if wrap64 (stNonce + 1) > t.nonce then some .nonceLow else
  let amount := beNat t.amount
  let r : Option SErr :=
    if t.type = 0 ∨ t.type = 2 ∨ t.type = 4 ∨ t.type = 5 ∨ t.type = 6 then
      (if stBal < amount then some .balance else
       match env.maxFee t (stBal - amount) with
       | none => some .fee
       | some f => if f > stBal - amount then some .balance else none)
    else if t.type = 1 then
      (if t.recipient = aergoSystem then env.sysCheck t stBal
       else if t.recipient = aergoName ∨ t.recipient = aergoEnterprise then none
       else some .recipient)
    else if t.type = 3 then (if amount > stBal then some .balance else none)
    else none
  match r with
  | some e => some e
  | none => if wrap64 (stNonce + 1) < t.nonce then some .nonceHigh else none

/-! ### Names -/

structure NameEntry where
  owner : Bytes
  dest : Bytes
deriving DecidableEq, Repr

abbrev Names := Bytes → Option NameEntry

def isSpecial (n : Bytes) : Bool :=
  n == aergoSystem || n == aergoName || n == aergoEnterprise || n == aergoVault

/-- `name.GetAddress` / `name.Resolve` (legacy = false) / `MemPool.getAddress`: an address or a special account is
itself, a name is its registered destination, `[]` (Go nil) if not registered. -/
def getAddress (ns : Names) (n : Bytes) : Bytes :=
  if n.length = addressLength ∨ isSpecial n = true then n
  else match ns n with
    | some e => e.dest
    | none => []

/-- `name.GetOwner`: no short-cut for addresses or special accounts. -/
def getOwner (ns : Names) (n : Bytes) : Bytes :=
  match ns n with
  | some e => e.owner
  | none => []

/-- `Tx.NeedNameVerify` = `HasNameAccount`. -/
def Tx.named (t : Tx) : Bool := decide (t.account.length ≤ nameLength)

/-! ### Ledger, world, bodies -/

/-- Everything a transaction body may read and write. -/
structure Ledger where
  bal : Bytes → Nat
  /-- names as `GetInitialData` reads them: the state the block started from -/
  names : Names
  /-- name records written by earlier transactions of the same block (read by `GetData` only) -/
  pend : List (Bytes × NameEntry)
  /-- contract accounts: the creator recorded at deployment (`dbkey.CreatorMeta`), `[]` = not a contract -/
  creator : Bytes → Bytes

structure World where
  nonce : Bytes → Nat
  led : Ledger

/-- Reject classes of `executeTx` (a rejected transaction makes a received block invalid; a producer drops it). -/
inductive XErr
  | signMismatch            -- `HasVerifedAccount` comparison
  | v (e : VErr)
  | s (e : SErr)
  | body (code : Nat)       -- non-runtime error of the type-specific part
deriving DecidableEq, Repr

inductive BodyOut
  | ok (l : Ledger)
  /-- run-time failure (receipt status ERROR): the ledger after `resetAccount` (pre-state minus the fee) -/
  | runtimeFail (l : Ledger)
  | reject (e : XErr)

/-- The type-specific part of `executeTx`: sees and returns the ledger only (never nonces). -/
abbrev Body := Ledger → Tx → (sender : Bytes) → BodyOut

def upd {β : Type} (f : Bytes → β) (k : Bytes) (v : β) : Bytes → β := fun x => if x = k then v else f x

/-- One executed transaction: the account whose nonce it consumed (resolved sender) and the transaction. -/
structure LogEntry where
  account : Bytes
  tx : Tx
  failed : Bool
deriving DecidableEq, Repr

def LogEntry.nonce (e : LogEntry) : Nat := e.tx.nonce
def LogEntry.hash (e : LogEntry) : Bytes := e.tx.hash

section
variable (H : Bytes → Bytes) (Verify : Bytes → Bytes → Bytes → Bool)

/-- `executeTx`. `verified` = the verified account the pool attached (`[]`: none — always so for the
transactions of a received block). `cid` = `bi.ChainIdHash()` of the block being executed. -/
def executeTx (env : Env) (body : Body) (cid : Bytes) (W : World) (verified : Bytes) (t : Tx) :
    Except XErr (World × LogEntry) :=
  let account := getAddress W.led.names t.account
  if !verified.isEmpty && verified ≠ account then .error .signMismatch else
  match validate H env.maxAER cid env.isPublic t with
  | some e => .error (.v e)
  | none =>
  match validateSender env (W.nonce account) (W.led.bal account) t with
  | some e => .error (.s e)
  | none =>
  match body W.led t account with
  | .reject e => .error e
  | .ok l => .ok ({ nonce := upd W.nonce account t.nonce, led := l }, ⟨account, t, false⟩)
  | .runtimeFail l => .ok ({ nonce := upd W.nonce account t.nonce, led := l }, ⟨account, t, true⟩)

/-- The loop of `blockExecutor.execute` over the block's transactions (each a fresh `types.NewTransaction`). -/
def execTxs (env : Env) (body : Body) (cid : Bytes) : World → List Tx → Except XErr (World × List LogEntry)
  | W, [] => .ok (W, [])
  | W, t :: ts =>
    match executeTx H env body cid W [] t with
    | .error e => .error e
    | .ok (W1, e) =>
      match execTxs env body cid W1 ts with
      | .error e' => .error e'
      | .ok (W2, es) => .ok (W2, e :: es)

/-- The key a block-level signature check uses: the registered owner of a name sender (in the committed
state the block is validated on), the sender field otherwise. -/
def blockKey (ns : Names) (t : Tx) : Bytes := if t.named then getOwner ns t.account else t.account

/-- `SignVerifier.verifyTx`: `hit t` = a transaction with this carried hash is in the mempool. -/
def blockSigOk (ns : Names) (useMempool : Bool) (hit : Tx → Bool) (t : Tx) : Bool :=
  if t.account.isEmpty then false
  else if useMempool && !t.named && hit t then true
  else Verify (blockKey ns t) (H (signInput t)) t.sign

def lookupLast (n : Bytes) : List (Bytes × NameEntry) → Option NameEntry
  | [] => none
  | (k, e) :: r => match lookupLast n r with
    | some e' => some e'
    | none => if k = n then some e else none

/-- End of block (`BlockState.Update`): the staged name records become readable. -/
def commitNames (l : Ledger) : Ledger :=
  { l with names := fun n => match lookupLast n l.pend with
                             | some e => some e
                             | none => l.names n,
           pend := [] }

inductive BErr
  | tx (e : XErr)
  | sig
deriving DecidableEq, Repr

/-- A received block: every transaction executes (`executeTx`), then the signature verdict of *this* block's
transactions is awaited (`ValidateBody` → `RequestVerifyTxs`, `WaitVerifyDone`); names as of the parent state. -/
def execBlock (env : Env) (body : Body) (cid : Bytes) (useMempool : Bool) (hit : Tx → Bool)
    (W : World) (txs : List Tx) : Except BErr (World × List LogEntry) :=
  match execTxs H env body cid W txs with
  | .error e => .error (.tx e)
  | .ok (W1, log) =>
    if txs.all (blockSigOk H Verify W.led.names useMempool hit) then
      .ok ({ W1 with led := commitNames W1.led }, log)
    else .error .sig

/-- A branch: blocks executed one after the other from `W` (`cidOf i` = chain-id hash of the i-th block's
header info; the mempool contents may differ from block to block: `hitOf i`). `none` if some block is invalid. -/
def runBranch (env : Env) (body : Body) (cidOf : Nat → Bytes) (useMempool : Bool) (hitOf : Nat → Tx → Bool) :
    Nat → World → List (List Tx) → Option (World × List LogEntry)
  | _, W, [] => some (W, [])
  | i, W, b :: bs =>
    match execBlock H Verify env body (cidOf i) useMempool (hitOf i) W b with
    | .error _ => none
    | .ok (W1, log) =>
      match runBranch env body cidOf useMempool hitOf (i + 1) W1 bs with
      | none => none
      | some (W2, log') => some (W2, log ++ log')

/-! ### Block headers: the chain id a received block carries -/

/-- `BlockHeader.ChainID` of a block: a 4-byte little-endian version followed by the rest (magic, public /
main-net flags, consensus name). Shorter byte strings are not headers `ValidChildOf` accepts. -/
structure HdrCid where
  version : Nat
  rest : Bytes
deriving DecidableEq, Repr

/-- `Block.ValidChildOf(bestBlock)` = `types.ChainIdEqualWithoutVersion` (types/blockchain.go:339-349,
types/genesis.go:198-203): everything but the version has to agree. -/
def validChildOf (best cur : HdrCid) : Bool := best.rest == cur.rest

/-- What `ChainService.addBlock` checks about the chain id of a received block's header (chainhandle.go, right after
`ValidChildOf`; `BlockValidator.ValidateHeader` checks nothing about it): the id is this chain's up to the version, and
the version is the one the node's hard-fork configuration gives for the block's number (`cfgVer` =
`cfg.Hardfork.Version`, `height` = the block's number). The second conjunct is the repair of finding
C04-header-fork-version-unchecked; without it (`acceptHeaderUnchecked`) the producer of a block chooses the rules
it is executed under and the chain-id hash its transactions are bound to: `Props.C04.header_version_check_needed`. -/
def acceptHeader (cfgVer : Nat → Nat) (best : HdrCid) (height : Nat) (h : HdrCid) : Bool :=
  validChildOf best h && h.version == cfgVer height

/-- The check as it was before the repair: `ValidChildOf` only. -/
def acceptHeaderUnchecked (_cfgVer : Nat → Nat) (best : HdrCid) (_height : Nat) (h : HdrCid) : Bool :=
  validChildOf best h

inductive HErr
  | header
  | blk (e : BErr)
deriving DecidableEq, Repr

/-- One received block with its header: the header check, then `execBlock` with `bi.ChainIdHash()` where
`bi = types.NewBlockHeaderInfo(block)` (chainhandle.go:694): the hash `hc` of the chain id bytes **the header carries**. -/
def execHBlockWith (accept : (Nat → Nat) → HdrCid → Nat → HdrCid → Bool)
    (env : Env) (body : Body) (hc : HdrCid → Bytes) (cfgVer : Nat → Nat) (useMempool : Bool) (hit : Tx → Bool)
    (best : HdrCid) (height : Nat) (W : World) (hdr : HdrCid) (txs : List Tx) : Except HErr (World × List LogEntry) :=
  if accept cfgVer best height hdr then
    match execBlock H Verify env body (hc hdr) useMempool hit W txs with
    | .ok r => .ok r
    | .error e => .error (.blk e)
  else .error .header

def execHBlock := @execHBlockWith H Verify acceptHeader

/-- A chain of received blocks on top of a block whose header carries `best` (block `i` is the first one; `hdrOf j` =
header chain id of block `j`). The log pairs every executed transaction with the number of its block. -/
def runChainWith (accept : (Nat → Nat) → HdrCid → Nat → HdrCid → Bool)
    (env : Env) (body : Body) (hc : HdrCid → Bytes) (cfgVer : Nat → Nat) (hdrOf : Nat → HdrCid)
    (useMempool : Bool) (hitOf : Nat → Tx → Bool) :
    Nat → HdrCid → World → List (List Tx) → Option (World × List (Nat × LogEntry))
  | _, _, W, [] => some (W, [])
  | i, best, W, b :: bs =>
    match execHBlockWith H Verify accept env body hc cfgVer useMempool (hitOf i) best i W (hdrOf i) b with
    | .error _ => none
    | .ok (W1, log) =>
      match runChainWith accept env body hc cfgVer hdrOf useMempool hitOf (i + 1) (hdrOf i) W1 bs with
      | none => none
      | some (W2, log') => some (W2, log.map (fun e => (i, e)) ++ log')

def runChain := @runChainWith H Verify acceptHeader

/-! ### Pool admission -/

inductive AErr
  | exists_
  | v (e : VErr)
  | sig
  | s (e : SErr)
  | extra (code : Nat)
deriving DecidableEq, Repr

/-- The key `MemPool.verifyTx` verifies against: `getAddress(account)` for a name sender. -/
def poolKey (ns : Names) (t : Tx) : Bytes := if t.named then getAddress ns t.account else t.account

/-- `MemPool.verifyTx`: `Validate(acceptChainIdHash, isPublic)`, signature; returns the verified account
(`[]` for an address sender). -/
def poolVerify (env : Env) (acceptCid : Bytes) (ns : Names) (t : Tx) : Except AErr Bytes :=
  match validate H env.maxAER acceptCid env.isPublic t with
  | some e => .error (.v e)
  | none =>
    if Verify (poolKey ns t) (H (signInput t)) t.sign then .ok (if t.named then poolKey ns t else [])
    else .error .sig

/-- The account `put` files a transaction under. -/
def listAccount (verified : Bytes) (t : Tx) : Bytes := if verified.isEmpty then t.account else verified

/-- `TxVerifier.Receive` up to the list insertion: hash already pooled?, `verifyTx`, then `put`'s
`ValidateWithSenderState` against the pool's state view (too-high nonces are kept as orphans) and the
remaining admission checks `extra` (recipient form, name-contract state: not C04's). Returns the list account. -/
def poolAdmit (env : Env) (acceptCid : Bytes) (W : World) (inPool : Bytes → Bool)
    (extra : World → Bytes → Tx → Option Nat) (t : Tx) : Except AErr Bytes :=
  if inPool t.hash then .error .exists_ else
  match poolVerify H Verify env acceptCid W.led.names t with
  | .error e => .error e
  | .ok verified =>
    let acc := listAccount verified t
    match validateSender env (W.nonce acc) (W.led.bal acc) t with
    | some .nonceHigh | none =>
      (match extra W acc t with
       | some c => .error (.extra c)
       | none => .ok acc)
    | some e => .error (.s e)

/-- `MemPool.loadTxs`, one record of the dump file read at start-up: `verifyTx` (`Validate` for the accepted chain-id
hash, signature, verified account of a name sender), then `put` — what `TxVerifier.Receive` does with a submitted
transaction (`poolAdmit`; a record whose hash is already pooled is dropped by `put` instead of before `verifyTx`, the
pool is the same). This is the repair of finding C04-loadtxs-unverified. -/
def poolLoad := @poolAdmit H Verify

/-- The record handling as it was before the repair: `mp.put(types.NewTransaction(&buf))` directly — no `verifyTx`
(no `Validate`, no signature check, no verified account): `Props.C04.load_verify_needed`. -/
def poolLoadUnverified (env : Env) (W : World) (inPool : Bytes → Bool)
    (extra : World → Bytes → Tx → Option Nat) (t : Tx) : Except AErr Bytes :=
  if inPool t.hash then .error .exists_ else
  let acc := listAccount [] t
  match validateSender env (W.nonce acc) (W.led.bal acc) t with
  | some .nonceHigh | none =>
    (match extra W acc t with
     | some c => .error (.extra c)
     | none => .ok acc)
  | some e => .error (.s e)

/-- A pooled transaction and the account it is filed under. -/
structure PEntry where
  tx : Tx
  acc : Bytes
deriving DecidableEq, Repr

/-- `MemPool.exist(hash)`: lookup by the carried hash. -/
def inPool (P : List PEntry) (h : Bytes) : Bool := P.any (fun e => e.tx.hash == h)

/-- `reorganizer.swapTxMapping`: every transaction of the abandoned branch that is not in the new branch is
sent back to the pool (`MemPoolPut`), i.e. goes through the full admission again, against the new state. -/
def reoffer (env : Env) (acceptCid : Bytes) (W : World) (extra : World → Bytes → Tx → Option Nat) :
    List PEntry → List Tx → List PEntry
  | P, [] => P
  | P, t :: ts =>
    match poolAdmit H Verify env acceptCid W (inPool P) extra t with
    | .ok acc => reoffer env acceptCid W extra (P ++ [⟨t, acc⟩]) ts
    | .error _ => reoffer env acceptCid W extra P ts

/-- The verified account a pooled transaction carries (`SetVerifedAccount` in `MemPool.verifyTx`): the address the pool
checked the signature of a name sender against — the account it is filed under; none for an address sender. -/
def verifiedOf (p : PEntry) : Bytes := if p.tx.named then p.acc else []

/-- The node's own block factory, `BlockGenerator.GatherTXs` (consensus/chain/tx.go:109-220): the candidates `MemPoolGet`
returned (pool entries, in whatever order the pool's map yields them), each run through `executeTx` with its verified
account on the running block state; a candidate that `executeTx` rejects is skipped (its partial effects are rolled back),
the others form the block in this order. -/
def gatherTxs (env : Env) (body : Body) (cid : Bytes) : World → List PEntry → World × List LogEntry
  | W, [] => (W, [])
  | W, p :: ps =>
    match executeTx H env body cid W (verifiedOf p) p.tx with
    | .error _ => gatherTxs env body cid W ps
    | .ok (W1, e) => ((gatherTxs env body cid W1 ps).1, e :: (gatherTxs env body cid W1 ps).2)

/-- `ConnectBlock` → `addBlock(block, bstate)` → `newBlockExecutor` with `commitOnly`: the node's own block is committed
as the factory executed it — **no block-level signature check**; all authorisation rests on the pool's gate. -/
def produceBlock (env : Env) (body : Body) (cid : Bytes) (W : World) (cands : List PEntry) : World × List LogEntry :=
  let r := gatherTxs H env body cid W cands
  ({ r.1 with led := commitNames r.1.led }, r.2)

/-- One step of a node's main chain: a block received from the network (with the chain id its header carries, and
what the node's pool holds at that moment), or a block the node produces itself from candidates of its pool. -/
inductive NodeStep
  | recv (hdr : HdrCid) (txs : List Tx) (useMempool : Bool) (hit : Tx → Bool)
  | own (cands : List PEntry)

/-- The main chain of a node as it grows block by block on top of a block carrying chain id `best` (block `i` first):
received blocks go through `execHBlock`, own blocks through `produceBlock` under the header an honest factory stamps
(`NewBlockHeaderInfoFromPrevBlock`: this chain's id in the version configured for the block's number). -/
def runNode (env : Env) (body : Body) (hc : HdrCid → Bytes) (cfgVer : Nat → Nat) :
    Nat → HdrCid → World → List NodeStep → Option (World × List LogEntry)
  | _, _, W, [] => some (W, [])
  | i, best, W, .recv hdr txs useMempool hit :: r =>
    match execHBlock H Verify env body hc cfgVer useMempool hit best i W hdr txs with
    | .error _ => none
    | .ok (W1, log) =>
      match runNode env body hc cfgVer (i + 1) hdr W1 r with
      | none => none
      | some (W2, log') => some (W2, log ++ log')
  | i, best, W, .own cands :: r =>
    match runNode env body hc cfgVer (i + 1) ⟨cfgVer i, best.rest⟩
        (produceBlock H env body (hc ⟨cfgVer i, best.rest⟩) W cands).1 r with
    | none => none
    | some (W2, log') => some (W2, (produceBlock H env body (hc ⟨cfgVer i, best.rest⟩) W cands).2 ++ log')

end

/-! ### The concrete body used by the correspondence driver (zero fee, no contracts) -/

/-- `system.GetNamePrice()` default: 1 aergo. -/
def namePrice : Nat := 10 ^ 18

def pendOwner (l : Ledger) (n : Bytes) : Bytes :=
  match lookupLast n l.pend with
  | some e => e.owner
  | none => getOwner l.names n

/-- lower-case `getAddress(scs, name)` of name.go: the registered destination, no short-cuts. -/
def rawDest (ns : Names) (n : Bytes) : Bytes :=
  match ns n with
  | some e => e.dest
  | none => []

/-- body error codes -/
def cInsufficient : Nat := 1
def cTooSmall : Nat := 2
def cOccupied : Nat := 3
def cOwner : Nat := 4
def cNotCreated : Nat := 5
def cUnsupported : Nat := 99

/-- `state.SendBalance(a, b, amt)` on the balance map (no-op when both are the same account). The two new
balances are computed *before* the closures are built: a definition returning a function is compiled with the
extra argument, so computing them inside would re-read the old map on every later lookup. -/
def moved (bal : Bytes → Nat) (a b : Bytes) (va vb : Nat) : Bytes → Nat := upd (upd bal a va) b vb

def move (l : Ledger) (a b : Bytes) (amt : Nat) : Ledger :=
  if a = b then l else
  let va := l.bal a - amt
  let vb := l.bal b + amt
  { l with bal := moved l.bal a b va vb }

/-- `name.ValidateNameTx(body, sender, scs)` (used by the pool's `validateTx` and first thing in `ExecuteNameTx`):
balance, price, occupied / owner checks; `none` = ok, `some code` = its error. -/
def nameValidate (l : Ledger) (t : Tx) (sender : Bytes) : Option Nat :=
  let amount := beNat t.amount
  if l.bal sender < amount then some cInsufficient else
  match t.cmd with
  | .create n =>
    if namePrice > amount then some cTooSmall
    else if !(pendOwner l n).isEmpty then some cOccupied else none
  | .update n _ =>
    if namePrice > amount then some cTooSmall
    else if t.account ≠ n ∧ t.account ≠ pendOwner l n then some cOwner else none
  | _ => some cUnsupported

/-- Transfers / calls (accounts without code, stub contracts), stub-contract deployment and `aergo.name`
create/update; fork version ≥ 4, zero fee. Contract code is the stub VM's: a call with an empty payload does nothing. -/
def stdBody : Body := fun l t sender =>
  let amount := beNat t.amount
  if t.type = 0 ∨ t.type = 4 ∨ t.type = 5 then
    let rcpt := getAddress l.names t.recipient
    if rcpt.isEmpty then
      -- unknown name: a new contract account is created and `Create` fails without code: run-time failure
      (if t.payload.isEmpty then .runtimeFail l else .reject (.body cUnsupported))
    else if !(l.creator rcpt).isEmpty then
      -- the recipient is a contract (checkExecution, version ≥ 4)
      (if t.type = 0 ∨ (t.type = 4 ∧ (!t.payload.isEmpty ∨ amount = 0)) then .runtimeFail l
       else if !t.payload.isEmpty then
         (match t.cmd with
          | .script true => .runtimeFail l                 -- VM error: everything but nonce (and fee) undone
          | .script false => .ok (move l sender rcpt amount)
          | _ => .reject (.body cUnsupported))
       else .ok (move l sender rcpt amount))
    else if t.type = 5 then .runtimeFail l        -- CALL of an account without code: "not found contract"
    else .ok (move l sender rcpt amount)
  else if t.type = 3 then
    -- fee delegation: the called contract pays the (here: zero) fee; on a VM error `resetAccount(sender, nil, &nonce)`
    -- and `resetAccount(receiver, fee, nil)`: the SENDER's nonce is consumed all the same (done by `executeTx`)
    let rcpt := getAddress l.names t.recipient
    if (l.creator rcpt).isEmpty ∨ sender = rcpt then .reject (.body cUnsupported)
    else
      (match t.cmd with
       | .script true => .runtimeFail l
       | .script false => .ok (move l sender rcpt amount)
       | _ => .reject (.body cUnsupported))
  else if t.type = 6 then
    (match t.cmd with
     | .deploy addr =>
       -- `state.CreateAccountState`: "account already exists" when the address has any state (here: it is a contract
       -- already, or it holds a balance — somebody funded the address before the deployment)
       if !(l.creator addr).isEmpty || l.bal addr != 0 then .reject (.body cUnsupported)
       else
         let l1 := move l sender addr amount
         let cr := upd l1.creator addr sender
         .ok { l1 with creator := cr }
     | _ => .reject (.body cUnsupported))
  else if t.type = 1 ∧ t.recipient = aergoName then
    (match nameValidate l t sender with
     | some c => .reject (.body c)
     | none =>
       match t.cmd with
       | .create n =>
         .ok { move l sender aergoName amount with pend := l.pend ++ [(n, ⟨sender, sender⟩)] }
       | .update n to =>
         if (rawDest l.names n).length ≤ nameLength then .reject (.body cNotCreated)
         else
           -- `UpdateName`: the owner of a name pointing to a contract is the contract's creator
           let dest := getAddress l.names to
           let owner := if (l.creator dest).isEmpty then dest else l.creator dest
           .ok { move l sender aergoName amount with pend := l.pend ++ [(n, ⟨owner, dest⟩)] }
       | _ => .reject (.body cUnsupported))
  else .reject (.body cUnsupported)

def cRecipient : Nat := 6

/-- The rest of `MemPool.validateTx` after `ValidateWithSenderState`, for the transaction kinds `stdBody` covers:
recipient form / resolvability for transfers and calls, `name.ValidateNameTx` for `aergo.name` calls. -/
def stdExtra (W : World) (acc : Bytes) (t : Tx) : Option Nat :=
  if t.type = 0 ∨ t.type = 4 ∨ t.type = 5 then
    let nameRcpt := !t.recipient.isEmpty && decide (t.recipient.length ≤ nameLength)
    if !(nameRcpt || isSpecial t.recipient) && decide (t.recipient.length ≠ addressLength) then some cRecipient
    else if (getAddress W.led.names t.recipient).isEmpty then some cRecipient
    else none
  else if t.type = 1 ∧ t.recipient = aergoName then nameValidate { W.led with pend := [] } t acc
  else if t.type = 6 then (if !t.recipient.isEmpty then some cRecipient else none)
  else if t.type = 3 then
    -- recipient resolvable; `ValidateMaxFee` of the contract (zero fee); `CheckFeeDelegation` (stub: allowed)
    (if (getAddress W.led.names t.recipient).isEmpty then some cRecipient else none)
  else some cUnsupported

/-! ### An ideal signature scheme and the identity hash, for the executable driver and for non-vacuity examples -/

/-- The signature of `pk` on `msg`: an injective encoding of the pair. -/
def sigEnc (pk msg : Bytes) : Bytes := 1 :: (le 2 pk.length ++ pk ++ msg)

/-- Accepts exactly the signature made with this (non-empty) key for this message. -/
def idealVerify (pk msg sig : Bytes) : Bool := !pk.isEmpty && sig == sigEnc pk msg

/-- The `aergo.system` branch of `ValidateWithSenderState` (types/transaction.go:327-336): the payload must decode as a
call; only `v1stake` compares its amount with the balance. -/
def stdSysCheck (t : Tx) (bal : Nat) : Option SErr :=
  match t.cmd with
  | .sys true => if beNat t.amount > bal then some .balance else none
  | .sys false => none
  | _ => some .payload

def zeroFeeEnv (isPublic : Bool) (maxAER : Nat) : Env :=
  { isPublic := isPublic, maxAER := maxAER, maxFee := fun _ _ => some 0, sysCheck := stdSysCheck }

end Aergo.Auth
