/-
Model layer `BlockId` (C18, part 3): how a block obtained from the network gets its identifier.

* `blockHash` — `(*types.Block).BlockHash` (types/blockchain.go): the carried `Hash` field if it is
  non-empty, the digest of the header only when it is empty. `H` (SHA-256 over the header fields,
  `calculateBlockHash`) is a parameter; the header is the abstract digest input.
* `Recv` / `step` — `BlocksChunkReceiver.ReceiveResp` / `handleInWaiting` / `cancelReceiving` /
  `ignoreMsg` (p2p/blkreceiver.go) without the timeout branch: each received block is compared
  with the requested identifier through its carried `Hash` field, never through `H header`.
-/
namespace Aergo.BlockId

abbrev Bytes := List UInt8

/-- `types.Block` as far as identification is concerned -/
structure Block where
  hash : Bytes       -- carried `Hash` field (sender supplied)
  header : Bytes     -- the header (digest input)
  size : Nat         -- `block.Size()`
deriving Repr, DecidableEq

/-- `(*Block).BlockHash` -/
def blockHash (H : Bytes → Bytes) (b : Block) : Bytes :=
  if b.hash.isEmpty then H b.header else b.hash

inductive RecvErr
  | remoteFail | missingHash | tooMany | unexpected | tooBig | tooFew
deriving Repr, DecidableEq

inductive St | waiting | canceled | finished
deriving Repr, DecidableEq

/-- a `GetBlockResponse` (or something else: `isBlockResp = false`) -/
structure Resp where
  isBlockResp : Bool
  statusOK : Bool
  blocks : List Block
  hasNext : Bool
deriving Repr, DecidableEq

/-- what the receiver tells the syncer -/
inductive Out
  | nothing
  | deliver (blocks : List Block)
  | fail (e : RecvErr)
deriving Repr, DecidableEq

structure Recv where
  requested : List Bytes
  got : List Block          -- `br.got[:br.offset]`
  st : St
deriving Repr, DecidableEq

def Recv.init (requested : List Bytes) : Recv := ⟨requested, [], .waiting⟩

/-- `cancelReceiving(err, hasNext)` with a timeout that has not expired -/
def cancel (r : Recv) (e : RecvErr) (hasNext : Bool) : Recv × Out :=
  ({ r with st := if hasNext then .canceled else .finished }, .fail e)

/-- the `for _, block := range body.Blocks` loop of `handleInWaiting` -/
def addBlocks (maxBlock : Nat) (requested : List Bytes) : List Block → List Block → Except RecvErr (List Block)
  | got, [] => .ok got
  | got, b :: bs =>
    match requested[got.length]? with
    | none => .error .tooMany
    | some h =>
      if h != b.hash then .error .unexpected
      else if b.size > maxBlock then .error .tooBig
      else addBlocks maxBlock requested (got ++ [b]) bs

/-- `ReceiveResp` -/
def step (maxBlock : Nat) (r : Recv) (resp : Resp) : Recv × Out :=
  match r.st with
  | .finished | .canceled => (r, .nothing)
  | .waiting =>
    if !resp.statusOK then cancel r .remoteFail false
    else if !resp.isBlockResp || resp.blocks.isEmpty then cancel r .missingHash false
    else match addBlocks maxBlock r.requested r.got resp.blocks with
      | .error e => cancel r e resp.hasNext
      | .ok got =>
        let r' := { r with got := got }
        if resp.hasNext then (r', .nothing)
        else if got.length < r.requested.length then cancel r' .tooFew false
        else ({ r' with st := .finished }, .deliver got)

/-- a whole session: all outputs -/
def run (maxBlock : Nat) : Recv → List Resp → List Out
  | _, [] => []
  | r, x :: xs => let (r', o) := step maxBlock r x; o :: run maxBlock r' xs

end Aergo.BlockId
