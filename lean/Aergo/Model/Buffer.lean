/-
Model layer `Buffer` (C12): the undo log of account states and contract storage.

Transcribed from /repo/state/statedb (pinned tree):

* `Buf`            statebuffer.go `stateBuffer{entries, indexes, nextIdx}`; `stack` of util.go
* `Buf.put/get/has/snapshot/rollback/reset/isEmpty/exportAll` (`export` is a Lean keyword)   statebuffer.go, same names
* `Storage`        storage.go `bufferedStorage{Buffer, Trie, dirty}`; `update`, `stage`
* `cacheSnapshot/cacheRollback`   storage.go `storageCache.Snapshot/Rollback`
* `SDB`            statedb.go `StateDB{Buffer, Cache, Trie}`; `putState`, `getState`, `updateStorage`,
                   `update`, `commit` (= `Commit`: stage every storage, stage the account buffer)
* `openStorage/stage`      contract.go `OpenContractState`, `StageContractState`
* `setData/deleteData/getData`   contract.go `ContractState.SetData/DeleteData/GetData`
* `blockSnapshot/blockRollback`  /repo/state/block.go `BlockState.Snapshot/Rollback`

Representation choices (all visible to the correspondence run):

* A Go map keyed by `HashID`/`AccountID` is an association list kept *strictly ascending by key*
  (`AMap`); the harness numbers keys in byte order of their hashes, so `Nat` order = `HashID.Compare`.
  A Go map has no order, so any canonical order is faithful; `export`'s `sort.Slice` by key is the
  identity on a list that is already ascending, and is therefore not a separate step here.
* The index stack of a key is a `List Nat` with the top at the head (`peek` = head, `pop` = tail).
* Runtime panics of the Go code are explicit: `Res.panic` (index out of range in `entries[peek()]`),
  `none` from `rollback` (see there).
* The tries are *abstract maps* (`AMap`) from key to the stored datum: `Trie.Get` followed by
  `loadData` of the returned hash. The model never computes a hash. `update` applies the exported
  batch to that map (`Trie.Update`: value `[]byte{0}` = DefaultLeaf = delete). That the real trie
  realises this map is C10's subject, not C12's.
* `types.State` is reduced to the two fields this layer touches: `nonce` (stands for
  nonce/balance/code hash — whatever the caller put) and `sroot` (StorageRoot). The storage root is
  represented by the *content* of the storage trie it commits to.

Not modelled: `bufferedStorage.checkpoint/rollback(revision)` and `metaEntry` (no caller outside
tests), `SetRoot/LoadCache/Revert`, code/raw KV, the data store (a `Commit` is always preceded by
`Update` in every caller in /repo; the model's `commit` op is that pair), locks.
-/

namespace Aergo.Buffer

/-! ### Go maps with comparable keys: association lists ascending by key -/

abbrev AMap (β : Type) := List (Nat × β)

namespace AMap
variable {β : Type}

/-- `m[k]` with the comma-ok idiom. -/
def get : AMap β → Nat → Option β
  | [], _ => none
  | (k', v) :: t, k => if k' = k then some v else get t k

/-- `m[k] = v`. -/
def set : AMap β → Nat → β → AMap β
  | [], k, v => [(k, v)]
  | (k', v') :: t, k, v =>
    if k < k' then (k, v) :: (k', v') :: t
    else if k = k' then (k, v) :: t
    else (k', v') :: set t k v

/-- `delete(m, k)`. -/
def erase (m : AMap β) (k : Nat) : AMap β := m.filter (fun p => p.1 ≠ k)

def keys (m : AMap β) : List Nat := m.map (·.1)

/-- keys strictly ascending (the canonical form of a Go map). -/
def WF (m : AMap β) : Prop := m.Pairwise (fun a b => a.1 < b.1)

end AMap

/-! ### stateBuffer -/

/-- `stateBuffer`: `entries` is the undo log (oldest first), `indexes[k]` the stack of positions of
`k`'s entries (top = most recent), `nextIdx` the next position. An entry is `(KeyID, Value)`. -/
structure Buf (α : Type) where
  entries : List (Nat × α)
  indexes : AMap (List Nat)
  nextIdx : Nat
deriving Repr, DecidableEq

/-- Result of a lookup that indexes `entries` in Go. -/
inductive Res (α : Type) where
  | absent            -- Go: `nil` entry
  | found (a : α)
  | panic             -- Go: index out of range
deriving Repr, DecidableEq

namespace Buf
variable {α : Type}

/-- `newStateBuffer`. -/
def empty : Buf α := ⟨[], [], 0⟩

/-- `stateBuffer.get`: `if index, ok := indexes[key]; ok { return entries[index.peek()] }; return nil`.
`peek` of an empty stack is −1, which panics in `entries[-1]`. -/
def get (b : Buf α) (k : Nat) : Res α :=
  match b.indexes.get k with
  | none => .absent
  | some [] => .panic
  | some (i :: _) =>
    match b.entries[i]? with
    | some e => .found e.2
    | none => .panic

/-- `stateBuffer.has`. -/
def has (b : Buf α) (k : Nat) : Bool := (b.indexes.get k).isSome

/-- `stateBuffer.snapshot`. -/
def snapshot (b : Buf α) : Nat := b.nextIdx

/-- `stateBuffer.put`: append the entry, push the old `nextIdx` on the key's stack (`push` on a nil
stack allocates one), increment `nextIdx`. -/
def put (b : Buf α) (k : Nat) (v : α) : Buf α :=
  let stk := (b.indexes.get k).getD []
  ⟨b.entries ++ [(k, v)], b.indexes.set k (b.nextIdx :: stk), b.nextIdx + 1⟩

/-- One iteration of the loop in `stateBuffer.rollback` for an entry with key `k`:
`indexes.pop(k); if indexes.peek(k) < 0 { delete(indexes, k) }`. `pop`/`peek` on a missing key act
on a nil `*stack` and return −1; `delete` of a missing key is a no-op. -/
def popKey (idx : AMap (List Nat)) (k : Nat) : AMap (List Nat) :=
  match idx.get k with
  | none => idx
  | some stk =>
    match stk.tail with
    | [] => idx.erase k
    | s' => idx.set k s'

/-- The loop `for i := nextIdx-1; i >= snapshot; i-- { et := entries[i]; … }` with `i = n + d`
counting down; `none` = index out of range. -/
def unwind (es : List (Nat × α)) (n : Nat) : Nat → AMap (List Nat) → Option (AMap (List Nat))
  | 0, idx => some idx
  | d + 1, idx =>
    match es[n + d]? with
    | none => none
    | some e => unwind es n d (popKey idx e.1)

/-- `stateBuffer.rollback(snapshot)`. For `snapshot ≤ nextIdx` this is the Go code. For
`snapshot > nextIdx` the Go code skips the loop and evaluates `entries[:snapshot]` beyond `len`,
which panics or — when the slice capacity allows — resurrects stale entries without indexes; no
caller passes a revision it did not obtain from an earlier `snapshot` of the same buffer, and the
model leaves that case undefined (`none`) rather than inventing a value. -/
def rollback (b : Buf α) (n : Nat) : Option (Buf α) :=
  if n ≤ b.nextIdx then
    match unwind b.entries n (b.nextIdx - n) b.indexes with
    | some idx => some ⟨b.entries.take n, idx, n⟩
    | none => none
  else none

/-- `stateBuffer.reset` = `rollback(0)`. -/
def reset (b : Buf α) : Option (Buf α) := b.rollback 0

/-- `stateBuffer.isEmpty`. -/
def isEmpty (b : Buf α) : Bool := b.entries.isEmpty

/-- The entry list built by `stateBuffer.export` (and visited by `stage`): for every key of
`indexes`, the entry at the top of its stack; a key whose stack is empty is skipped (`idx < 0`);
ascending by key. `none` = index out of range. (Go returns `et.Hash()` per entry; the model keeps
the value, see the header. The `et.(metaEntry)` test of the Go code can never succeed — entries are
`*metaEntry` — and no caller creates meta entries.) -/
def exportFrom (es : List (Nat × α)) : AMap (List Nat) → Option (List (Nat × α))
  | [] => some []
  | (_, []) :: t => exportFrom es t
  | (_, i :: _) :: t =>
    match es[i]?, exportFrom es t with
    | some e, some r => some (e :: r)
    | _, _ => none

def exportAll (b : Buf α) : Option (List (Nat × α)) := exportFrom b.entries b.indexes

end Buf

/-! ### the specification side: what a buffer *means* -/

/-- The latest write to `k` in a log (newest last), if any. -/
def lastWrite {α : Type} (es : List (Nat × α)) (k : Nat) : Option α :=
  (es.reverse.find? (fun e => e.1 = k)).map (·.2)

/-- Positions of `k` in a log given newest-first, most recent position first. -/
def idxOf {α : Type} (k : Nat) : List (Nat × α) → List Nat
  | [] => []
  | e :: t => if e.1 = k then t.length :: idxOf k t else idxOf k t

/-- The stack `indexes[k]` must hold for log `es`. -/
def stackOf {α : Type} (es : List (Nat × α)) (k : Nat) : Option (List Nat) :=
  let s := idxOf k es.reverse
  if s = [] then none else some s

/-- Representation invariant of `stateBuffer`. -/
structure Buf.Inv {α : Type} (b : Buf α) : Prop where
  len : b.nextIdx = b.entries.length
  wf : b.indexes.WF
  rep : ∀ k, b.indexes.get k = stackOf b.entries k

/-! ### histories of one buffer (used by the statements of `Props/C12`) -/

/-- A mutation of a `stateBuffer`. -/
inductive Buf.Op (α : Type) where
  | put (k : Nat) (v : α)
  | rollback (m : Nat)

/-- Run a history. A rollback is admitted when its revision is not below `floor` (the revision of the
snapshot under consideration — going below it invalidates that snapshot) and `Buf.rollback` is
defined (`m ≤ nextIdx`: `m` was a revision of this buffer and has not been invalidated). -/
def Buf.run {α : Type} (floor : Nat) : Buf α → List (Buf.Op α) → Option (Buf α)
  | b, [] => some b
  | b, .put k v :: t => Buf.run floor (b.put k v) t
  | b, .rollback m :: t =>
    if floor ≤ m then
      match b.rollback m with
      | some b' => Buf.run floor b' t
      | none => none
    else none

/-- A history with explicit snapshot handles: `snap` pushes the current revision on a stack of live
snapshots, `rollbackTo j` reverts to the `j`-th live snapshot and discards the later ones (they are
invalidated), keeping the `j`-th itself. This is how every caller nests snapshots. -/
inductive Buf.NOp (α : Type) where
  | put (k : Nat) (v : α)
  | snap
  | rollbackTo (j : Nat)

def Buf.runN {α : Type} : Buf α × List Nat → List (Buf.NOp α) → Option (Buf α × List Nat)
  | s, [] => some s
  | (b, st), .put k v :: t => Buf.runN (b.put k v, st) t
  | (b, st), .snap :: t => Buf.runN (b, st ++ [b.snapshot]) t
  | (b, st), .rollbackTo j :: t =>
    match st[j]? with
    | none => none          -- no such live snapshot
    | some m =>
      match b.rollback m with
      | some b' => Buf.runN (b', st.take (j + 1)) t
      | none => none

/-! ### bufferedStorage, storageCache -/

/-- A storage entry value: `some v` for `SetData`, `none` for `DeleteData` (nil value). Values are
tokens; the harness maps token `t` to bytes. -/
abbrev SVal := Option Nat

/-- `bufferedStorage`. `trie` is the content of the storage trie (key ↦ datum). -/
structure Storage where
  buf : Buf SVal
  trie : AMap Nat
  dirty : Bool
deriving Repr, DecidableEq

/-- `Trie.Update(keys, vals)` on the abstract content: DefaultLeaf deletes. -/
def applyBatch : AMap Nat → List (Nat × SVal) → AMap Nat
  | t, [] => t
  | t, (k, some v) :: r => applyBatch (t.set k v) r
  | t, (k, none) :: r => applyBatch (t.erase k) r

namespace Storage

/-- `newBufferedStorage(root, store)`; the root is given by the content it commits to. -/
def new (content : AMap Nat) : Storage := ⟨Buf.empty, content, false⟩

/-- `ContractState.GetData`: buffer entry first (a delete entry reads as nil), else the trie. -/
def getData (s : Storage) (k : Nat) : Res SVal :=
  match s.buf.get k with
  | .found v => .found v
  | .absent => .found (s.trie.get k)
  | .panic => .panic

/-- `ContractState.HasKey` = `bufferedStorage.has(key, lookupTrie = true)`: the key has a buffered entry
(of any kind - a delete marker counts) or the storage trie holds a value for it. (No caller in the
pinned tree; tied by the correspondence run.) -/
def hasKey (s : Storage) (k : Nat) : Bool := s.buf.has k || (s.trie.get k).isSome

/-- `ContractState.SetData`. -/
def setData (s : Storage) (k v : Nat) : Storage := { s with buf := s.buf.put k (some v) }

/-- `ContractState.DeleteData`. -/
def deleteData (s : Storage) (k : Nat) : Storage := { s with buf := s.buf.put k none }

/-- `bufferedStorage.update`: export the buffer into the trie; `dirty` when the root moved (root
equality is content equality: tries are canonical — C10 — and hashes collision-free). -/
def update (s : Storage) : Option Storage :=
  match s.buf.exportAll with
  | none => none
  | some batch =>
    let t := applyBatch s.trie batch      -- an empty batch is skipped in Go; same result
    some { s with trie := t, dirty := s.dirty || decide (t ≠ s.trie) }

/-- `bufferedStorage.stage`: persist, then `Buffer.reset()`. -/
def stage (s : Storage) : Option Storage :=
  match s.buf.reset with
  | some b => some { s with buf := b }
  | none => none

end Storage

/-- `storageCache.Snapshot`: revision of every staged storage. -/
def cacheSnapshot (c : AMap Storage) : AMap Nat := c.map (fun p => (p.1, p.2.buf.snapshot))

/-- `storageCache.Rollback`: roll back every storage the snapshot knows, drop the others. -/
def cacheRollback (snap : AMap Nat) : AMap Storage → Option (AMap Storage)
  | [] => some []
  | (c, st) :: t =>
    match snap.get c with
    | some r =>
      match st.buf.rollback r, cacheRollback snap t with
      | some b, some t' => some ((c, { st with buf := b }) :: t')
      | _, _ => none
    | none => cacheRollback snap t

/-! ### StateDB, BlockState -/

/-- The part of `types.State` this layer reads or writes: `sroot` is written by `updateStorage`,
the other fields only by callers (`AccountState.SetNonce/AddBalance/SubBalance`, `ContractState.SetCode`
through the shared `*types.State`); `code` stands for `CodeHash` (0 = none). -/
structure AVal where
  nonce : Nat
  sroot : AMap Nat
  bal : Nat := 0
  code : Nat := 0
deriving Repr, DecidableEq

/-- `StateDB`. `trie` is the content of the account trie. -/
structure SDB where
  buf : Buf AVal
  cache : AMap Storage
  trie : AMap AVal
deriving Repr, DecidableEq

/-- `BlockSnapshot`. -/
structure BlockSnap where
  state : Nat
  storage : AMap Nat
deriving Repr, DecidableEq

namespace SDB

/-- `NewStateDB(store, root, _)`, the root given by the account-trie content. -/
def new (content : AMap AVal) : SDB := ⟨Buf.empty, [], content⟩

/-- `StateDB.PutState`. -/
def putState (s : SDB) (a : Nat) (v : AVal) : SDB := { s with buf := s.buf.put a v }

/-- `StateDB.getState`: buffer first, then trie; `found none` = Go `nil` state. -/
def getState (s : SDB) (a : Nat) : Res (Option AVal) :=
  match s.buf.get a with
  | .found v => .found (some v)
  | .absent => .found (s.trie.get a)
  | .panic => .panic

/-- `OpenContractState` for an account whose current state is `st`: the staged storage if there is
one (the same object — `none` here means "use the cache entry"), else a fresh buffer on the
account's storage root. -/
def openStorage (s : SDB) (c : Nat) : Res Storage :=
  match s.cache.get c with
  | some st => .found st
  | none =>
    match s.getState c with
    | .found (some v) => .found (Storage.new v.sroot)
    | .found none => .found (Storage.new [])      -- GetAccountState: empty State
    | .absent => .panic
    | .panic => .panic

/-- `StageContractState`. -/
def stage (s : SDB) (c : Nat) (st : Storage) : SDB := { s with cache := s.cache.set c st }

/-- `BlockState.Snapshot`. -/
def blockSnapshot (s : SDB) : BlockSnap := ⟨s.buf.snapshot, cacheSnapshot s.cache⟩

/-- `BlockState.Rollback`: cache first, then the account buffer. -/
def blockRollback (s : SDB) (sn : BlockSnap) : Option SDB :=
  match cacheRollback sn.storage s.cache, s.buf.rollback sn.state with
  | some c, some b => some { s with cache := c, buf := b }
  | _, _ => none

/-- The loop of `StateDB.updateStorage` over the cache (Go: map order; here ascending — the order
only permutes the appended account entries). `done` accumulates the updated storages. -/
def updateStorageLoop : List (Nat × Storage) → SDB → AMap Storage → Option (SDB × AMap Storage)
  | [], s, done => some (s, done)
  | (c, st) :: t, s, done =>
    match st.update with
    | none => none
    | some st' =>
      if st'.dirty then
        match s.getState c with
        | .found ov =>
          let v : AVal := match ov with
            | some v => { v with sroot := st'.trie }
            | none => { nonce := 0, sroot := st'.trie }
          updateStorageLoop t (s.putState c v) (done ++ [(c, st')])
        | _ => none
      else updateStorageLoop t s (done ++ [(c, st')])

/-- `StateDB.update`: `updateStorage`, then export the account buffer into the account trie
(account entries are never deletions). -/
def update (s : SDB) : Option SDB :=
  match updateStorageLoop s.cache s [] with
  | none => none
  | some (s1, cache') =>
    match s1.buf.exportAll with
    | none => none
    | some batch =>
      some { buf := s1.buf, cache := cache', trie := batch.foldl (fun t e => t.set e.1 e.2) s1.trie }

/-- the record `updateStorage` creates for an account that has none -/
def _root_.Aergo.Buffer.emptyRec : AVal := { nonce := 0, sroot := [] }

/-- `bufferedStorage.update` as a total function (it is defined under the invariant) -/
def _root_.Aergo.Buffer.Storage.flushed (st : Storage) : Storage :=
  match st.update with
  | some st' => st'
  | none => st

/-- the specification of what `updateStorage` does to the record of an account whose staged storage
is `st`: re-put with the new storage root when the storage is dirty (created empty if there was no
record), untouched otherwise -/
def _root_.Aergo.Buffer.recAfter (old : Option AVal) (st : Storage) : Option AVal :=
  if st.flushed.dirty then some { (old.getD emptyRec) with sroot := st.flushed.trie } else old

def stageAll : AMap Storage → Option (AMap Storage)
  | [] => some []
  | (c, st) :: t =>
    match st.stage, stageAll t with
    | some st', some t' => some ((c, st') :: t')
    | _, _ => none

/-- `StateDB.Commit`: stage every cached storage (buffers reset, tries and dirty flags stay), stage
and reset the account buffer. What reaches the store is whatever the tries and the latest buffer
entries hold at that moment. -/
def commit (s : SDB) : Option SDB :=
  match stageAll s.cache, s.buf.reset with
  | some c, some b => some { s with cache := c, buf := b }
  | _, _ => none

end SDB

/-! ### the specification of reads -/

/-- What a storage key reads as: the latest surviving buffered write (a delete reads as absent),
else the trie. -/
def Storage.view (st : Storage) (k : Nat) : SVal :=
  match lastWrite st.buf.entries k with
  | some v => v
  | none => st.trie.get k

/-- What an account reads as: the latest surviving buffered state, else the trie. -/
def SDB.view (s : SDB) (a : Nat) : Option AVal :=
  match lastWrite s.buf.entries a with
  | some v => some v
  | none => s.trie.get a

/-! ### histories of a block's working state (used by the statements of `Props/C12`) -/

/-- `Storage` after a list of `SetData`/`DeleteData` calls (`some v` / `none`). -/
def Storage.writes (st : Storage) (ws : List (Nat × SVal)) : Storage :=
  ws.foldl (fun s w => { s with buf := s.buf.put w.1 w.2 }) st

/-- Representation invariant of a `StateDB`: every buffer satisfies its own. -/
structure SDB.Inv (s : SDB) : Prop where
  buf : s.buf.Inv
  wf : s.cache.WF
  sto : ∀ p ∈ s.cache, p.2.buf.Inv

/-- A mutation of the working state of a block (between `Update`s). -/
inductive SDB.Op where
  /-- `StateDB.PutState` -/
  | putState (a : Nat) (v : AVal)
  /-- `SetData` through a `ContractState` opened on the staged storage of `c` -/
  | setData (c k v : Nat)
  /-- `DeleteData`, likewise -/
  | deleteData (c k : Nat)
  /-- `StageContractState` of a storage that `OpenContractState` created on `content` while `c` had
  no staged storage, after the writes `ws` -/
  | stageNew (c : Nat) (content : AMap Nat) (ws : List (Nat × SVal))
  /-- `ContractState.Rollback(r)` through a handle on the staged storage of `c` (a VM recovery
  point reverting a nested call, contract/vm_state.go `revertState`) -/
  | storageRollback (c r : Nat)
  /-- `BlockState.Rollback` -/
  | rollback (sn : BlockSnap)
deriving DecidableEq, Repr

/-- `sn` was taken at or after `base`: no revision of `sn` is below `base`'s, and every storage
staged at `base` is known to `sn`. (A rollback to a snapshot that does not cover `base`
invalidates `base`.) -/
def BlockSnap.covers (base sn : BlockSnap) : Bool :=
  decide (base.state ≤ sn.state) &&
    base.storage.all (fun p => match sn.storage.get p.1 with
      | some r => decide (p.2 ≤ r)
      | none => false)

/-- A contract-level revision `r` of `c` does not go below what the block snapshot recorded for `c`
(a storage the snapshot does not know was staged later: any revision of it is above the snapshot). -/
def revOK (snap : AMap Nat) (c r : Nat) : Bool :=
  match snap.get c with
  | some r0 => decide (r0 ≤ r)
  | none => true

/-- `ContractState.Rollback(r)` on the staged storage of `c`. -/
def SDB.storageRollback (s : SDB) (c r : Nat) : Option SDB :=
  match s.cache.get c with
  | some st =>
    match st.buf.rollback r with
    | some b => some { s with cache := s.cache.set c { st with buf := b } }
    | none => none
  | none => none

/-- Run a history of block-level mutations above the snapshot `base`. `none`: an operation was not
admissible (a write through a handle on a storage that is not staged, staging over a staged
storage, a rollback - block-level or contract-level - below `base` or to an invalidated snapshot). -/
def SDB.run (base : BlockSnap) : SDB → List SDB.Op → Option SDB
  | s, [] => some s
  | s, .putState a v :: t => SDB.run base (s.putState a v) t
  | s, .setData c k v :: t =>
    match s.cache.get c with
    | some st => SDB.run base { s with cache := s.cache.set c (st.setData k v) } t
    | none => none
  | s, .deleteData c k :: t =>
    match s.cache.get c with
    | some st => SDB.run base { s with cache := s.cache.set c (st.deleteData k) } t
    | none => none
  | s, .stageNew c content ws :: t =>
    match s.cache.get c with
    | none => SDB.run base (s.stage c ((Storage.new content).writes ws)) t
    | some _ => none
  | s, .storageRollback c r :: t =>
    if revOK base.storage c r then
      match s.storageRollback c r with
      | some s' => SDB.run base s' t
      | none => none
    else none
  | s, .rollback sn :: t =>
    if base.covers sn then
      match s.blockRollback sn with
      | some s' => SDB.run base s' t
      | none => none
    else none

/-! ### histories with explicit, nested block snapshots; the surviving operations

The callers take a `BlockState.Snapshot()` per transaction and revert to it when the transaction is
rejected; contract-level recovery points nest inside. A history is a list of `BOp`; `runB` executes it
on the model (log + index stacks + revisions); `survivors` is the *list of operations that were not
reverted* - a function of the history alone; `runPlain` executes a list of operations with no
snapshot at all. `Props.C12.reverted_never_happened` says the two agree. -/

/-- One mutation applied to a `StateDB`, without reference to any snapshot. -/
def SDB.apply (s : SDB) : SDB.Op → Option SDB
  | .putState a v => some (s.putState a v)
  | .setData c k v =>
    match s.cache.get c with
    | some st => some { s with cache := s.cache.set c (st.setData k v) }
    | none => none
  | .deleteData c k =>
    match s.cache.get c with
    | some st => some { s with cache := s.cache.set c (st.deleteData k) }
    | none => none
  | .stageNew c content ws =>
    match s.cache.get c with
    | none => some (s.stage c ((Storage.new content).writes ws))
    | some _ => none
  | .storageRollback c r => s.storageRollback c r
  | .rollback sn => s.blockRollback sn

/-- A history with nested block snapshots. -/
inductive BOp where
  /-- a mutation (`.rollback sn` is not admitted here: block rollbacks go through `rollbackTo`) -/
  | op (o : SDB.Op)
  /-- `BlockState.Snapshot()`, pushed on the stack of live snapshots -/
  | snap
  /-- `BlockState.Rollback` to the `j`-th live snapshot; the later ones are discarded -/
  | rollbackTo (j : Nat)
  /-- forget all live snapshots but the first `n` without reverting anything (the executor drops its
  snapshot when the transaction succeeded) -/
  | keep (n : Nat)
deriving DecidableEq, Repr

/-- Admissibility of a mutation while `top` is the innermost live block snapshot: a contract-level
rollback must not go below it (`revertState` only reverts to recovery points of the running
transaction, and the executor's snapshot was taken before the transaction started). -/
def BOp.admissible (top : Option BlockSnap) : SDB.Op → Bool
  | .rollback _ => false
  | .storageRollback c r =>
    match top with
    | some sn => revOK sn.storage c r
    | none => true
  | _ => true

/-- Execute a history on the model. -/
def runB : SDB × List BlockSnap → List BOp → Option (SDB × List BlockSnap)
  | st, [] => some st
  | (s, sn), .op o :: t =>
    if BOp.admissible sn.getLast? o then
      match s.apply o with
      | some s' => runB (s', sn) t
      | none => none
    else none
  | (s, sn), .snap :: t => runB (s, sn ++ [s.blockSnapshot]) t
  | (s, sn), .rollbackTo j :: t =>
    match sn[j]? with
    | none => none
    | some b =>
      match s.blockRollback b with
      | some s' => runB (s', sn.take (j + 1)) t
      | none => none
  | (s, sn), .keep n :: t => runB (s, sn.take n) t

/-- The surviving operations: `marks[j]` is the length of the surviving list when the `j`-th live
snapshot was taken; reverting to it truncates the list there. (This is the list the harness replays
on a fresh StateDB: its field `live`.) -/
def survivorsAux : List SDB.Op × List Nat → List BOp → List SDB.Op × List Nat
  | st, [] => st
  | (live, marks), .op o :: t => survivorsAux (live ++ [o], marks) t
  | (live, marks), .snap :: t => survivorsAux (live, marks ++ [live.length]) t
  | (live, marks), .rollbackTo j :: t =>
    match marks[j]? with
    | some m => survivorsAux (live.take m, marks.take (j + 1)) t
    | none => survivorsAux (live, marks) t
  | (live, marks), .keep n :: t => survivorsAux (live, marks.take n) t

def survivors (h : List BOp) : List SDB.Op := (survivorsAux ([], []) h).1

/-- Execute operations one after the other; no snapshot involved. -/
def runPlain : SDB → List SDB.Op → Option SDB
  | s, [] => some s
  | s, o :: t =>
    match s.apply o with
    | some s' => runPlain s' t
    | none => none

/-! ### an independent specification: plain maps, a snapshot is a copy

No log, no index stacks, no revisions: the visible account records and the visible content of every
staged storage are maps; `snap` pushes a copy of both, `rollbackTo j` puts the `j`-th copy back.
(The Go reference of harness/c12 - `refStore` with `snapRecs` - is this.) -/

structure Spec where
  acct : AMap AVal
  staged : AMap (AMap Nat)
deriving Repr, DecidableEq

/-- writes applied to a content map -/
def applyWrites : AMap Nat → List (Nat × SVal) → AMap Nat
  | m, [] => m
  | m, (k, some v) :: t => applyWrites (m.set k v) t
  | m, (k, none) :: t => applyWrites (m.erase k) t

namespace Spec

def apply (σ : Spec) : SDB.Op → Spec
  | .putState a v => { σ with acct := σ.acct.set a v }
  | .setData c k v =>
    match σ.staged.get c with
    | some m => { σ with staged := σ.staged.set c (m.set k v) }
    | none => σ
  | .deleteData c k =>
    match σ.staged.get c with
    | some m => { σ with staged := σ.staged.set c (m.erase k) }
    | none => σ
  | .stageNew c content ws => { σ with staged := σ.staged.set c (applyWrites content ws) }
  | .storageRollback _ _ => σ      -- not part of the specification (see `Spec.covers`)
  | .rollback _ => σ

def runPlain (σ : Spec) (ops : List SDB.Op) : Spec := ops.foldl Spec.apply σ

/-- A history with snapshots as copies. -/
def run : Spec × List Spec → List BOp → Spec × List Spec
  | st, [] => st
  | (σ, stk), .op o :: t => run (σ.apply o, stk) t
  | (σ, stk), .snap :: t => run (σ, stk ++ [σ]) t
  | (σ, stk), .rollbackTo j :: t =>
    match stk[j]? with
    | some σ' => run (σ', stk.take (j + 1)) t
    | none => run (σ, stk) t
  | (σ, stk), .keep n :: t => run (σ, stk.take n) t

end Spec

/-- The histories the specification speaks about: no contract-level rollback (its specification is
the per-buffer one, `rollback_restores_nested`), no raw block rollback. -/
def BOp.plain : BOp → Bool
  | .op (.storageRollback _ _) => false
  | .op (.rollback _) => false
  | _ => true

/-- What the model state shows, compared with a specification state: every account reads the same,
the same contracts are staged and every key of a staged storage reads the same. -/
def StorAbs : Option Storage → Option (AMap Nat) → Prop
  | some st, some m => ∀ k, st.view k = m.get k
  | none, none => True
  | _, _ => False

def Abs (s : SDB) (σ : Spec) : Prop :=
  (∀ a, s.view a = σ.acct.get a) ∧ (∀ c, StorAbs (s.cache.get c) (σ.staged.get c))

/-! ### what reaches the key/value store

`Commit` writes, per buffer, the value of the top entry of every key (`stateBuffer.stage`), plus the
trie nodes (`Trie.StageUpdates`, here: the trie content as one datum) and the root marker.
`ContractState.SetCode` / `SetRawKV` write to the store AT CALL TIME (`saveData → store.Set`), under
the hash of the bytes: they are not part of any snapshot and a rollback does not take them back. -/

inductive Datum where
  | acct (v : AVal)                 -- a marshalled account record
  | sval (v : Nat)                  -- a storage value
  | tomb                            -- `txn.Set([]byte{0}, nil)`: what `stage` writes for a delete entry
  | strie (c : Nat) (content : AMap Nat)   -- nodes of a storage trie
  | atrie (content : AMap AVal)     -- nodes of the account trie, and the marker of its root
  | raw (t : Nat)                   -- `SetRawKV` (contract code)
deriving Repr, DecidableEq

/-- what `bufferedStorage.stage` persists -/
def Storage.persisted (c : Nat) (st : Storage) : List Datum :=
  .strie c st.trie :: ((st.buf.exportAll.getD []).map fun e =>
    match e.2 with
    | some v => Datum.sval v
    | none => Datum.tomb)

/-- what `StateDB.Commit` persists (in addition to what the store already holds) -/
def SDB.persisted (s : SDB) : List Datum :=
  (s.cache.flatMap fun p => p.2.persisted p.1) ++
    (.atrie s.trie :: ((s.buf.exportAll.getD []).map fun e => Datum.acct e.2))

/-- A block: a history in which `SetCode`s (raw writes) are interleaved; then `Update` and `Commit`.
The result: the committed StateDB and everything written to the store. -/
inductive POp where
  | db (o : BOp)
  | raw (t : Nat)
deriving DecidableEq, Repr

def POp.dbOps : List POp → List BOp
  | [] => []
  | .db o :: t => o :: POp.dbOps t
  | .raw _ :: t => POp.dbOps t

def POp.raws : List POp → List Nat
  | [] => []
  | .db _ :: t => POp.raws t
  | .raw x :: t => x :: POp.raws t

/-- the surviving operations of a block, raw writes included: a raw write inside a reverted span is
not among them (but it has reached the store) -/
def survivorsPAux : List POp × List Nat → List POp → List POp × List Nat
  | st, [] => st
  | (live, marks), .db (.op o) :: t => survivorsPAux (live ++ [.db (.op o)], marks) t
  | (live, marks), .raw x :: t => survivorsPAux (live ++ [.raw x], marks) t
  | (live, marks), .db .snap :: t => survivorsPAux (live, marks ++ [live.length]) t
  | (live, marks), .db (.rollbackTo j) :: t =>
    match marks[j]? with
    | some m => survivorsPAux (live.take m, marks.take (j + 1)) t
    | none => survivorsPAux (live, marks) t
  | (live, marks), .db (.keep n) :: t => survivorsPAux (live, marks.take n) t

def survivorsP (h : List POp) : List POp := (survivorsPAux ([], []) h).1

/-- Execute a block and commit it: `(committed StateDB, data written to the store)`. -/
def commitBlock (s0 : SDB) (h : List POp) : Option (SDB × List Datum) :=
  match runB (s0, []) (POp.dbOps h) with
  | none => none
  | some (s, _) =>
    match s.update with
    | none => none
    | some s1 =>
      match s1.commit with
      | none => none
      | some s2 => some (s2, (POp.raws h).map Datum.raw ++ s1.persisted)

end Aergo.Buffer
