/-
Model layer `Chain` (C05, C07): what a node's chain service does with an arriving block.

Transcribed from /repo (function by function; line map in notes/C05.md):

* chain/chainhandle.go  addBlock, addBlockInternal, newChainProcessor (run loop), chainProcessor.addBlock /
                        execute / connectToChain / reorganize, executeBlock, resolveOrphan, isOrphan,
                        handleOrphan, getTx
* chain/chaindb.go      connectToChain, setLatest, addTxsOfBlock, addBlock, isMainChain, swapChainMapping,
                        writeReceiptsAndOperations, deleteReceiptsAndOperations, GetBlockByNo
* chain/reorg.go        needReorg, reorg, gather, rollback, rollforward, swapChain, deleteOldReceipts,
                        swapTxMapping, swapChainMapping, marker write/delete
* chain/orphanpool.go   addOrphan, removeOldest, removeOrphan
* consensus/impl/dpos/status.go NeedReorganization (veto below LIB); dpos.go IsConnectedBlock

Block execution is a parameter `exec : Root → Block → Option Root` (the root reached by executing the
block's transactions on a state root, `none` = validation or a transaction failed); C01–C03 are about
execution itself. `executeBlock` additionally compares the result with the root the header claims
(`BlockValidator.ValidatePost`) and asks the consensus (`IsBlockValid`, a scripted bit of the block here).

Ids, roots and transaction hashes are natural numbers (the harness sends hash prefixes); id 0 is never
the id of a block (it stands for the empty previous-hash of genesis). The two key/value families of the
chain DB that matter are modelled as total functions (`blocks`, `byNo`, `txIdx`, `rcpt`).
The model transcribes what the code does, including: the bad-block cache receives the
*arriving* block even when the block that failed is a resolved orphan or a block of a reorganisation;
`rollback` moves the state root to the fork point; when roll-forward fails `reorg` puts it back to the old best
block's root (repo commit 9256a8e2), the receipts and `MemPoolDel`s of the blocks that did execute stay.
-/

namespace Aergo.Chain

/-- A block as the chain service sees it. `pre`/`res` are not read by the model functions: they carry the
execution table of the driver (`tableExec`). -/
structure Block where
  id : Nat
  parent : Nat
  no : Nat
  txs : List Nat
  claimed : Nat
  consOk : Bool := true
  pre : Nat := 0
  res : Option Nat := none
  tag : Nat := 0      -- fingerprint of everything else in the block (two arrivals are the same content iff all fields agree)
  early : Bool := false  -- the block fails `BlockValidator.ValidateBlock` (wrong TxsRootHash): refused before anything is executed
  verBad : Bool := false -- the fork version in the block's chain id is not the one configured for its number (bd63ef2d)
  sigBad : Bool := false -- the consensus refuses the block's signature (`ChainConsensus.VerifySign`)
deriving DecidableEq, Repr, Inhabited

/-- Messages sent to other components (mempool, syncer, p2p). -/
inductive Msg where
  | del (block : Nat)     -- MemPoolDel{Block}
  | put (tx : Nat)        -- MemPoolPut{Tx}
  | sync (no : Nat)       -- SyncStart{TargetNo}
  | notify (block : Nat)  -- NotifyNewBlock
  | upd (block : Nat)     -- ChainConsensus.Update(block): the consensus status follows the chain service
deriving DecidableEq, Repr

/-- Point update of a total map. -/
def upd {β : Type} (f : Nat → β) (k : Nat) (v : β) : Nat → β := fun x => if x = k then v else f x

structure Node where
  blocks : Nat → Option Block            -- hash ↦ block
  byNo : Nat → Option Nat                -- height ↦ hash
  latest : Nat                           -- cached latest height (ChainDB.latest)
  latestKey : Nat                        -- persisted latest height (the record under dbkey.LatestBlock)
  best : Block                           -- cached best block (ChainDB.bestBlock)
  txIdx : Nat → Option (Nat × Nat)       -- tx hash ↦ (block hash, index)
  rcpt : Nat → Nat → Bool                -- receipts record under (block hash, height)
  marker : Option (Nat × Nat × Nat)      -- reorg marker (branch start, old best, new top)
  sdbRoot : Nat                          -- state DB root
  orphans : List (Nat × Block)           -- orphan pool: (parent id, block), oldest first
  orphanCap : Nat
  bad : List (Nat × Block)               -- bad-block cache (id ↦ the block that failed), least recently used first
  badCap : Nat
  lib : Nat                              -- last irreversible height known to the consensus
  out : List Msg                         -- messages sent while handling the current arrival

def genesis (g : Block) (orphanCap badCap : Nat) : Node where
  blocks := upd (fun _ => none) g.id (some g)
  byNo := upd (fun _ => none) 0 (some g.id)
  latest := 0
  latestKey := 0
  best := g
  txIdx := fun _ => none
  rcpt := fun _ _ => false
  marker := none
  sdbRoot := g.claimed
  orphans := []
  orphanCap := orphanCap
  bad := []
  badCap := badCap
  lib := 0
  out := []

/-- `ChainDB.GetBlockByNo`: hash by height, then block by hash. -/
def blockByNo (N : Node) (h : Nat) : Option Block := (N.byNo h).bind N.blocks

/-- `ChainDB.addTxsOfBlock`: position by position, later positions overwrite earlier ones. -/
def addTxsFrom (id : Nat) : List Nat → Nat → (Nat → Option (Nat × Nat)) → (Nat → Option (Nat × Nat))
  | [], _, f => f
  | t :: ts, i, f => addTxsFrom id ts (i + 1) (upd f t (some (id, i)))

def addTxs (f : Nat → Option (Nat × Nat)) (b : Block) : Nat → Option (Nat × Nat) := addTxsFrom b.id b.txs 0 f

section
variable (exec : Nat → Block → Option Nat)

/-- `ChainService.executeBlock` for a block from the network: consensus check, validation + execution on
the current state root, comparison with the claimed root, commit (root moves), receipts record (only when
there is at least one receipt, i.e. one transaction), `MemPoolDel`, `ChainConsensus.Update(block)`. `none`: an error,
nothing changed (but see `failNote`). -/
def executeBlock (N : Node) (b : Block) : Option Node :=
  if !b.consOk then none else
  match exec N.sdbRoot b with
  | none => none
  | some r =>
    if r ≠ b.claimed then none else
    some { N with sdbRoot := r,
                  rcpt := if b.txs.isEmpty then N.rcpt else fun i n => if i = b.id ∧ n = b.no then true else N.rcpt i n,
                  out := N.out ++ [Msg.del b.id, Msg.upd b.id] }

/-- What a failing `executeBlock` leaves behind: when the failure comes out of `blockExecutor.execute` (a transaction,
the signatures, the claimed state root or receipts root) the consensus is told to go back to the best block
(`cs.Update(bestBlock)`, chainhandle.go:851); a consensus refusal (`IsBlockValid`) and a `ValidateBlock` failure
(`newBlockExecutor`) return before that. -/
def failNote (N : Node) (b : Block) : Node :=
  if b.consOk && !b.early then { N with out := N.out ++ [Msg.upd N.best.id] } else N

/-- `chainProcessor.connectToChain`: block record, height index, latest key, cached tip, tx index — one DB transaction. -/
def connect (N : Node) (b : Block) : Node :=
  { N with blocks := upd N.blocks b.id (some b),
           byNo := upd N.byNo b.no (some b.id),
           latest := b.no,
           latestKey := b.no,
           best := b,
           txIdx := addTxs N.txIdx b }

/-- `chainProcessor.execute`. -/
def execute (N : Node) (b : Block) : Option Node :=
  match executeBlock exec N b with
  | none => none
  | some N1 => let N2 := connect N1 b; some { N2 with out := N2.out ++ [Msg.notify b.id] }

/-- `chainProcessor.addBlock` (side branch): the block record only. -/
def storeSide (N : Node) (b : Block) : Node := { N with blocks := upd N.blocks b.id (some b) }

def apply (main : Bool) (N : Node) (b : Block) : Option Node :=
  if main then execute exec N b else some (storeSide N b)

/-- The `run` closure of `newChainProcessor` for a block from the network: apply, then connect the orphan
parked under this block's id, and so on. Result: (no error, node, `cp.lastBlock`). The fuel is the number
of pool entries + 1 (every iteration but the first consumes one entry; see `runLoop_fuel`). -/
def runLoop (main : Bool) : Nat → Node → Block → Option Block → Bool × Node × Option Block
  | 0, N, _, last => (true, N, last)
  | fuel + 1, N, blk, last =>
    match apply exec main N blk with
    | none => (false, failNote N blk, last)
    | some N1 =>
      let last1 := if main then last else some blk
      match N1.orphans.find? (fun e => e.1 == blk.id) with
      | none => (true, N1, last1)
      | some (_, o) =>
        if blk.no + 1 ≠ o.no then (false, N1, last1)     -- "invalid orphan block no": the entry stays
        else runLoop main fuel { N1 with orphans := N1.orphans.filter (fun e => e.1 != blk.id) } o last1

structure Gather where
  brStart : Block
  newB : List Block    -- top first (reorganizer.newBlocks)
  oldB : List Block    -- top first (reorganizer.oldBlocks)

/-- `reorganizer.gather`: walk down from the branch top; at heights ≤ latest collect the main-chain block
as roll-back target unless it *is* the branch block (fork point found). `br.no` is `brBlockNo`. -/
def gatherLoop (N : Node) : Nat → Block → List Block → List Block → Option Gather
  | 0, _, _, _ => none
  | fuel + 1, br, old, new =>
    let down (old : List Block) : Option Gather :=
      if br.no = 0 then none                         -- ErrNotExistBranchRoot
      else match N.blocks br.parent with
        | none => none
        | some p => if br.no - 1 ≠ p.no then none    -- errMsgInvalidOldBlock
                    else gatherLoop N fuel p old (new ++ [br])
    if br.no ≤ N.latest then
      match blockByNo N br.no with
      | none => none                                 -- errMsgNoBlock
      | some m =>
        if br.id = m.id then
          if N.latest = br.no then none              -- ErrInvalidBranchRoot
          else if new.isEmpty || old.isEmpty then none  -- ErrGatherChain
          else some ⟨br, new, old⟩
        else down (old ++ [m])
    else down old

def gather (N : Node) (top : Block) : Option Gather := gatherLoop N (top.no + 1) top [] []

/-- `reorganizer.rollforward` over the new blocks, lowest first: stops at the first failure and keeps
whatever the blocks before it did. -/
def rollforward : Node → List Block → Bool × Node
  | N, [] => (true, N)
  | N, b :: bs =>
    match executeBlock exec N b with
    | none => (false, failNote N b)
    | some N1 => rollforward N1 bs

def insertSorted (x : Nat) : List Nat → List Nat
  | [] => [x]
  | y :: ys => if x < y then x :: y :: ys else if x = y then y :: ys else y :: insertSorted x ys

/-- Sorted, duplicate-free (the Go side iterates a map keyed by tx id; the harness sorts). -/
def sortDedup (l : List Nat) : List Nat := l.foldr insertSorted []

/-- `reorganizer.swapChain`: marker, delete old receipts, swap tx mapping (+ `MemPoolPut` of the
transactions only on the old branch), swap height mapping and tip, delete marker. -/
def swapChain (N : Node) (g : Gather) (top : Block) : Bool × Node :=
  let N0 := { N with marker := some (g.brStart.id, N.best.id, top.id) }
  let rc := g.oldB.foldl (fun r b => fun i n => if i = b.id ∧ n = b.no then false else r i n) N0.rcpt
  let newAsc := g.newB.reverse
  let oldTxs := g.oldB.flatMap (·.txs)
  let remaining := sortDedup (oldTxs.filter (fun t => !(newAsc.any (fun b => b.txs.contains t))))
  let idx1 := newAsc.foldl addTxs N0.txIdx
  let idx2 := remaining.foldl (fun f t => upd f t none) idx1
  let N1 := { N0 with rcpt := rc, txIdx := idx2, out := N0.out ++ remaining.map Msg.put }
  if N1.latest ≥ top.no then (false, N1)             -- ErrInvalidSwapChain (logger.Fatal in reorg)
  else
    (true, { N1 with byNo := newAsc.foldl (fun f b => upd f b.no (some b.id)) N1.byNo,
                     latest := top.no, latestKey := top.no, best := top, marker := none })

inductive ReorgRes where
  | done | veto | failed
deriving DecidableEq, Repr

/-- `ChainService.reorg` (not recovery). -/
def reorg (N : Node) (top : Block) : ReorgRes × Node :=
  match gather N top with
  | none => (.failed, N)
  | some g =>
    if g.brStart.no < N.lib then (.veto, N)          -- !NeedReorganization(brStart.no)
    else
      -- rollback: state root to the fork point, `cs.Update(brStartBlock)`
      let N1 := { N with sdbRoot := g.brStart.claimed, out := N.out ++ [Msg.upd g.brStart.id] }
      match rollforward exec N1 g.newB.reverse with
      | (false, N2) =>
        -- state root back to the old best block (9256a8e2), `cs.Update(bestBlock)`, and the mempool is told to re-check
        -- everything against the (unchanged) best block (245caf14)
        (.failed, { N2 with sdbRoot := N.best.claimed, out := N2.out ++ [Msg.upd N.best.id, Msg.del N.best.id] })
      | (true, N2) =>
        match swapChain N2 g top with
        | (true, N3) => (.done, N3)
        | (false, N3) => (.failed, N3)

/-- `OrphanPool.addOrphan` (+ `removeOldest`). `none`: `ErrRemoveOldestOrphan` (capacity 0). -/
def addOrphan (N : Node) (b : Block) : Option Node :=
  if N.orphans.any (fun e => e.1 == b.parent) then some N
  else if N.orphans.length = N.orphanCap then
    match N.orphans with
    | [] => none
    | _ :: rest => some { N with orphans := rest ++ [(b.parent, b)] }
  else some { N with orphans := N.orphans ++ [(b.parent, b)] }

/-- `errBlocks.Add(hashID, newBlock)` (hashicorp LRU: an existing key gets the new value and becomes most recent;
beyond the capacity the least recently used entry goes). -/
def cacheBad (N : Node) (b : Block) : Node :=
  let l := (N.bad.filter (fun e => e.1 != b.id)) ++ [(b.id, b)]
  { N with bad := if l.length > N.badCap then l.drop (l.length - N.badCap) else l }

/-- `errBlocks.Get(hashID)`: a hit makes the entry most recent. -/
def touchBad (N : Node) (id : Nat) : Option Block × Node :=
  match N.bad.find? (fun e => e.1 == id) with
  | none => (none, N)
  | some e => (some e.2, { N with bad := (N.bad.filter (fun x => x.1 != id)) ++ [e] })

inductive Res where
  | ok | cached | err | reorgErr
deriving DecidableEq, Repr

/-- `ChainDB.isMainChain`: `none` = "failed to getting block hash by no". -/
def isMainChain (N : Node) (b : Block) : Option Bool :=
  if b.no > 0 ∧ b.no ≠ N.latest + 1 then some false
  else match N.byNo N.latest with
    | none => none
    | some h => some (b.parent = h)

/-- `ChainService.addBlock` for a block received from the network (`usedBState = nil`). -/
def addBlock (N0 : Node) (b : Block) : Res × Node :=
  let (hit, N) := touchBad { N0 with out := [] } b.id
  if hit = some b then (.cached, N)              -- only a cached block with the very same content short-circuits
  else if (N.blocks b.id).isSome then (.ok, N)                    -- IsConnectedBlock
  else if b.verBad then (.err, N)                                 -- "invalid chain id version" (bd63ef2d), not cached
  else if b.sigBad then (.err, cacheBad N b)                      -- VerifySign fails: cached
  else match N.blocks b.parent with
  | none =>                                                       -- isOrphan → handleOrphan
    match addOrphan N b with
    | none => (.err, N)
    | some N1 => (.ok, { N1 with out := N1.out ++ [Msg.sync b.no] })
  | some prev =>
    if prev.no + 1 ≠ b.no then (.err, cacheBad N b)               -- errBlockInvalidNo (repo commit dd88a2dd)
    else
    match isMainChain N b with
    | none => (.err, cacheBad N b)
    | some main =>
      match runLoop exec main (N.orphans.length + 1) N b none with
      | (false, N1, _) => (.err, cacheBad N1 b)
      | (true, N1, last) =>
        if main then (.ok, N1)
        else match last with
          | none => (.ok, N1)
          | some l =>
            if N1.latest < l.no then                              -- needReorg
              match reorg exec N1 l with
              | (.failed, N2) => (.reorgErr, cacheBad N2 b)
              | (_, N2) => (.ok, N2)
            else (.ok, N1)

/-- `ChainService.addBlock` for a block the node produced itself (`usedBState ≠ nil`; the consensus has no WAL, as
DPoS and SBP): refused as stale unless its parent is the best block (not cached), never parked; the p2p layer is told
first (`notifyBlockByBP`), the block is applied once — no orphan is resolved under it —, committed from the block state
the producer hands over (for the model: `exec` on the state root the producer built it on, which is the best block's)
and connected with its block record (`skipAdd = isByBP && HasWAL() = false`). The side-branch arm is transcribed as it
is written; under the invariant the stale test makes it unreachable. -/
def addOwn (N0 : Node) (b : Block) : Res × Node :=
  let (hit, N) := touchBad { N0 with out := [] } b.id
  if hit = some b then (.cached, N)
  else if (N.blocks b.id).isSome then (.ok, N)                    -- IsConnectedBlock
  else if b.parent ≠ N.best.id then (.err, N)                     -- errBlockStale, not cached
  else if b.verBad then (.err, N)                                 -- "invalid chain id version", not cached
  else if b.sigBad then (.err, cacheBad N b)                      -- VerifySign fails: cached
  else match N.blocks b.parent with
  | none => (.err, N)                                             -- "block received from BP can not be orphan", not cached
  | some prev =>
    if prev.no + 1 ≠ b.no then (.err, cacheBad N b)               -- errBlockInvalidNo
    else
    match isMainChain N b with
    | none => (.err, cacheBad N b)
    | some main =>
      let N1 := { N with out := N.out ++ [Msg.notify b.id] }      -- notifyBlockByBP
      if main then
        match executeBlock exec N1 b with
        | none => (.err, cacheBad (failNote N1 b) b)
        | some N2 => (.ok, connect N2 b)
      else
        let N2 := storeSide N1 b
        if N2.latest < b.no then                                  -- needReorg(cp.lastBlock)
          match reorg exec N2 b with
          | (.failed, N3) => (.reorgErr, cacheBad N3 b)
          | (_, N3) => (.ok, N3)
        else (.ok, N2)

end

/-- What reaches the chain service: a block from the network, a block of the node's own block factory, or the
consensus moving the last irreversible height. -/
inductive Arrival where
  | net (b : Block)
  | own (b : Block)
  | lib (n : Nat)
deriving Repr

def Arrival.block? : Arrival → Option Block
  | .net b => some b
  | .own b => some b
  | .lib _ => none

def arrive (exec : Nat → Block → Option Nat) (N : Node) : Arrival → Node
  | .net b => (addBlock exec N b).2
  | .own b => (addOwn exec N b).2
  | .lib n => { N with lib := n }

/-- The node after a history of arrivals on a fresh node. -/
def runHistory (exec : Nat → Block → Option Nat) (g : Block) (oc bc : Nat) (h : List Arrival) : Node :=
  h.foldl (arrive exec) (genesis g oc bc)

/-- Query "transaction by hash" (`ChainService.getTx`). -/
inductive TxAns where
  | notFound | noBlock | badIdx | notMain (block idx : Nat) | confirmed (block idx : Nat)
deriving DecidableEq, Repr

def getTx (N : Node) (t : Nat) : TxAns :=
  match N.txIdx t with
  | none => .notFound
  | some (bid, i) =>
    match N.blocks bid with
    | none => .noBlock
    | some b =>
      if i ≥ b.txs.length then .badIdx
      else if N.byNo b.no = some b.id then .confirmed bid i else .notMain bid i

/-- Query "receipts of the block with this hash" (`ChainService.getReceipts`): only for the main-chain block at its
height, and only when a receipts record exists under (hash, height). -/
def rcptByHash (N : Node) (id : Nat) : Bool :=
  match N.blocks id with
  | none => false
  | some b => (N.byNo b.no == some b.id) && N.rcpt b.id b.no

/-- Query "receipts of the block at this height" (`ChainService.getReceiptsByNo`). -/
def rcptByNo (N : Node) (h : Nat) : Bool :=
  match blockByNo N h with
  | none => false
  | some b => N.rcpt b.id b.no

/-- The execution table the driver uses: the block executes on `pre` only, with result `res`. -/
def tableExec (r : Nat) (b : Block) : Option Nat := if r = b.pre then b.res else none

/-! ### checking the theorems' hypotheses on a concrete run

The property theorems assume, about the blocks of a history: identifiers name contents (`UKeyed`, honesty) and `ExecLaw`
for the execution function. For the table a run hands to the driver both are decidable; `lawOk` checks the three
`ExecLaw` conditions for the least ghost function it computes (`Lemmas/ChainLaw.lean: lawOk_sound`). -/

/-- No two blocks of the list carry the same identifier with different content. -/
def idsKeyed (l : List Block) : Bool := l.all fun a => l.all fun b => a.id != b.id || a == b

def look (m : List (Nat × List Nat)) (r : Nat) : List Nat :=
  match m.find? (fun e => e.1 == r) with
  | none => []
  | some e => e.2

def unionNat (a b : List Nat) : List Nat := b.foldl (fun acc x => if acc.contains x then acc else acc ++ [x]) a

/-- One propagation round of "transactions executed on the way to this root". -/
def lawRound (tbl : List Block) (m : List (Nat × List Nat)) : List (Nat × List Nat) :=
  m.map fun e => (e.1, (tbl.filter (fun b => b.res == some e.1)).foldl
    (fun acc b => unionNat (unionNat acc (look m b.pre)) b.txs) e.2)

def iter {α : Type} (f : α → α) : Nat → α → α
  | 0, a => a
  | n + 1, a => iter f n (f a)

def lawRoots (tbl : List Block) : List Nat :=
  unionNat [] (tbl.flatMap fun b => b.pre :: (match b.res with | some r => [r] | none => []))

/-- The ghost function of a table (as an association list root ↦ transactions). -/
def lawGhost (tbl : List Block) : List (Nat × List Nat) :=
  let roots := lawRoots tbl
  iter (lawRound tbl) (roots.length + 1) (roots.map fun r => (r, []))

def nodupB : List Nat → Bool
  | [] => true
  | x :: xs => !xs.contains x && nodupB xs

/-- The three `ExecLaw` conditions for every block of the table that executes, with the ghost function `m`. -/
def lawOkWith (tbl : List Block) (m : List (Nat × List Nat)) : Bool :=
  tbl.all fun b =>
    match b.res with
    | none => true
    | some r' =>
      nodupB b.txs && b.txs.all (fun t => !(look m b.pre).contains t) &&
      (look m b.pre).all (fun t => (look m r').contains t) && b.txs.all (fun t => (look m r').contains t)

def lawOk (tbl : List Block) : Bool := lawOkWith tbl (lawGhost tbl)

/-- The execution function of a run: the table restricted to the blocks of the run. -/
def execOn (tbl : List Block) (r : Nat) (b : Block) : Option Nat := if tbl.contains b then tableExec r b else none

end Aergo.Chain
