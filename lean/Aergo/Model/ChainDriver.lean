import Aergo.Model.DriverLib
import Aergo.Model.Chain

/-! The session step function of the model drivers of C05 and C07 (`model-c05`, `model-c07`): one chain-service
session is threaded through the lines.

    new <orphanCap> <badCap> <genesis id> <genesis root>
    lib <n>                                   the consensus' last irreversible height (veto below it)
    add <id> <parent> <no> <pre> <res|-> <claimed> <consOk 0|1> <tag> <tx,tx,..|-> <e|->
                                              one arrival from the network; the block executes on state root <pre> only,
                                              reaching <res>; flags `e`: it fails validation before anything is executed,
                                              `v`: the fork version in its chain id is not the configured one,
                                              `s`: the consensus refuses its block signature
    own <the same fields>                     one block the node produced itself (`usedBState ≠ nil`)
    obs <maxHeight> <id/no,..|-> <tx,..|->    the observable state over this universe
    law                                       the theorems' hypotheses on the blocks of this session so far

Ids, roots and tx hashes are fixed-width hex tokens (`-` = none/empty). Core only. -/
open Aergo Aergo.DriverLib Aergo.Chain

namespace C05Drv

def width : Nat := 12

def hexNat (s : String) : Option Nat :=
  if s == "-" then some 0 else
  s.toList.foldlM (fun acc c => do let d ← hexDigit c; pure (acc * 16 + d)) 0

def natHexAux : Nat → Nat → List Char → List Char
  | 0, _, acc => acc
  | w + 1, n, acc => natHexAux w (n / 16) (hexChar (n % 16) :: acc)

def tok (n : Nat) : String := if n = 0 then "-" else String.ofList (natHexAux width n [])

def commas (s : String) : List String := if s == "-" then [] else s.splitOn ","

def joinOr (l : List String) (sep : String) : String := if l.isEmpty then "-" else sep.intercalate l

def pList (s : String) : Option (List Nat) := (commas s).mapM hexNat

def pPair (s : String) : Option (Nat × Nat) :=
  match s.splitOn "/" with
  | [a, b] => do pure (← hexNat a, ← b.toNat?)
  | _ => none

def showMsg : Msg → String
  | .del b => s!"d:{tok b}"
  | .put t => s!"p:{tok t}"
  | .sync n => s!"s:{n}"
  | .notify b => s!"n:{tok b}"
  | .upd b => s!"u:{tok b}"

/-- The messages in the order they were sent (the harness sorts each run of `MemPoolPut`s: they come out of a Go map;
the model sends them sorted). -/
def showMsgs (out : List Msg) : String := s!"msgs={joinOr (out.map showMsg) ","}"

def showRes : Res → String
  | .ok => "ok" | .cached => "cached" | .err => "err" | .reorgErr => "reorg"

def showTx (N : Node) (t : Nat) : String :=
  match getTx N t with
  | .notFound => "-"
  | .noBlock => "noblock"
  | .badIdx => "badidx"
  | .notMain _ _ => "nm"
  | .confirmed b i => s!"{tok b}:{i}"

def bit (b : Bool) : String := if b then "1" else "0"

def obs (N : Node) (maxH : Nat) (ids : List (Nat × Nat)) (txs : List Nat) : String :=
  let byno := (List.range (maxH + 1)).map fun h => match N.byNo h with | none => "-" | some i => tok i
  let blocks := String.join (ids.map fun p => bit (N.blocks p.1).isSome)
  let rc := String.join (ids.map fun p => bit (N.rcpt p.1 p.2))
  let tx := txs.map (showTx N)
  let orph := N.orphans.map fun e => s!"{tok e.1}:{tok e.2.id}"
  let bad := N.bad.map fun e => tok e.1
  let rq := String.join (ids.map fun p => bit (rcptByHash N p.1))
  let rn := String.join ((List.range (maxH + 1)).map fun h => bit (rcptByNo N h))
  s!"best={tok N.best.id}/{N.best.no} latest={N.latest} lkey={N.latestKey} root={tok N.sdbRoot} marker={bit N.marker.isSome} " ++
  s!"byno={joinOr byno ","} blocks={if blocks.isEmpty then "-" else blocks} tx={joinOr tx ","} " ++
  s!"rcpt={if rc.isEmpty then "-" else rc} rq={if rq.isEmpty then "-" else rq} rn={rn} orph={joinOr orph ","} bad={joinOr bad ","}"

structure Sess where
  N : Node
  seen : List Block     -- genesis and every block offered so far

def pBlock (id parent no pre res claimed cons tag txs fl : String) : Option Block :=
  match hexNat id, hexNat parent, no.toNat?, hexNat pre, hexNat res, hexNat claimed, hexNat tag, pList txs with
  | some id, some parent, some no, some pre, some res, some claimed, some tag, some txs =>
    if (cons != "0" && cons != "1") || !(fl == "-" || fl.toList.all (fun c => c == 'e' || c == 'v' || c == 's')) then none else
    some { id := id, parent := parent, no := no, txs := txs, claimed := claimed, consOk := cons == "1",
           pre := pre, res := if res = 0 then none else some res, tag := tag, early := fl.toList.contains 'e',
           verBad := fl.toList.contains 'v', sigBad := fl.toList.contains 's' }
  | _, _, _, _, _, _, _, _ => none

def lawLine (l : List Block) : String :=
  if !idsKeyed l then "ids-forged"
  else if lawOk l then "ok" else "execlaw-violated"

def step (s : Option Sess) (line : String) : Option Sess × String :=
  match words line, s with
  | ["new", oc, bc, gid, groot], _ =>
    match oc.toNat?, bc.toNat?, hexNat gid, hexNat groot with
    | some oc, some bc, some gid, some groot =>
      let g : Block := { id := gid, parent := 0, no := 0, txs := [], claimed := groot }
      (some ⟨genesis g oc bc, [g]⟩, "ok")
    | _, _, _, _ => (s, "bad-op")
  | ["lib", n], some S =>
    match n.toNat? with
    | some n => (some { S with N := { S.N with lib := n } }, "ok")
    | none => (s, "bad-op")
  | ["add", id, parent, no, pre, res, claimed, cons, tag, txs, fl], some S =>
    match pBlock id parent no pre res claimed cons tag txs fl with
    | some b =>
      let (r, N') := addBlock tableExec S.N b
      (some ⟨N', S.seen ++ [b]⟩, s!"{showRes r} {showMsgs N'.out}")
    | none => (s, "bad-op")
  | ["own", id, parent, no, pre, res, claimed, cons, tag, txs, fl], some S =>
    match pBlock id parent no pre res claimed cons tag txs fl with
    | some b =>
      let (r, N') := addOwn tableExec S.N b
      (some ⟨N', S.seen ++ [b]⟩, s!"{showRes r} {showMsgs N'.out}")
    | none => (s, "bad-op")
  | ["obs", mh, ids, txs], some S =>
    match mh.toNat?, (commas ids).mapM pPair, pList txs with
    | some mh, some ids, some txs => (s, obs S.N mh ids txs)
    | _, _, _ => (s, "bad-op")
  | ["law"], some S => (s, lawLine S.seen)
  | _, _ => (s, "bad-op")

end C05Drv

