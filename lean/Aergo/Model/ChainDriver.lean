import Aergo.Model.DriverLib
import Aergo.Model.Chain

/-! The session step function of the model drivers of C05 and C07 (`model-c05`, `model-c07`): one chain-service
session is threaded through the lines.

    new <orphanCap> <badCap> <genesis id> <genesis root>
    lib <n>                                   the consensus' last irreversible height (veto below it)
    add <id> <parent> <no> <pre> <res|-> <claimed> <consOk 0|1> <tag> <tx,tx,..|->
                                              one arrival; the block executes on state root <pre> only, reaching <res>
    obs <maxHeight> <id/no,..|-> <tx,..|->    the observable state over this universe

Ids, roots and tx hashes are fixed-width hex tokens (`-` = none/empty). Core only. -/
open Aergo Aergo.DriverLib Aergo.Chain

namespace C05Drv

def width : Nat := 12

def hexNat (s : String) : Option Nat :=
  if s == "-" then some 0 else
  s.toList.foldlM (fun acc c => do let d ← hexDigit c; pure (acc * 16 + d)) 0

def natHexAux : Nat → Nat → List Char → List Char
  | 0, _, acc => acc
  | w + 1, n, acc => natHexAux w (n / 16) (hexChar (n % 16) :: acc)

def tok (n : Nat) : String := if n = 0 then "-" else String.ofList (natHexAux width n [])

def commas (s : String) : List String := if s == "-" then [] else s.splitOn ","

def joinOr (l : List String) (sep : String) : String := if l.isEmpty then "-" else sep.intercalate l

def pList (s : String) : Option (List Nat) := (commas s).mapM hexNat

def pPair (s : String) : Option (Nat × Nat) :=
  match s.splitOn "/" with
  | [a, b] => do pure (← hexNat a, ← b.toNat?)
  | _ => none

def showMsgs (out : List Msg) : String :=
  let dels := out.filterMap fun | .del b => some (tok b) | _ => none
  let puts := out.filterMap fun | .put t => some (tok t) | _ => none
  let syncs := out.filterMap fun | .sync n => some (toString n) | _ => none
  let nots := out.filterMap fun | .notify b => some (tok b) | _ => none
  s!"del={joinOr dels ","} put={joinOr puts ","} sync={joinOr syncs ","} notify={joinOr nots ","}"

def showRes : Res → String
  | .ok => "ok" | .cached => "cached" | .err => "err" | .reorgErr => "reorg"

def showTx (N : Node) (t : Nat) : String :=
  match getTx N t with
  | .notFound => "-"
  | .noBlock => "noblock"
  | .badIdx => "badidx"
  | .notMain _ _ => "nm"
  | .confirmed b i => s!"{tok b}:{i}"

def bit (b : Bool) : String := if b then "1" else "0"

def obs (N : Node) (maxH : Nat) (ids : List (Nat × Nat)) (txs : List Nat) : String :=
  let byno := (List.range (maxH + 1)).map fun h => match N.byNo h with | none => "-" | some i => tok i
  let blocks := String.join (ids.map fun p => bit (N.blocks p.1).isSome)
  let rc := String.join (ids.map fun p => bit (N.rcpt p.1 p.2))
  let tx := txs.map (showTx N)
  let orph := N.orphans.map fun e => s!"{tok e.1}:{tok e.2.id}"
  let bad := N.bad.map fun e => tok e.1
  s!"best={tok N.best.id}/{N.best.no} latest={N.latest} root={tok N.sdbRoot} marker={bit N.marker.isSome} " ++
  s!"byno={joinOr byno ","} blocks={if blocks.isEmpty then "-" else blocks} tx={joinOr tx ","} " ++
  s!"rcpt={if rc.isEmpty then "-" else rc} orph={joinOr orph ","} bad={joinOr bad ","}"

def step (s : Option Node) (line : String) : Option Node × String :=
  match words line, s with
  | ["new", oc, bc, gid, groot], _ =>
    match oc.toNat?, bc.toNat?, hexNat gid, hexNat groot with
    | some oc, some bc, some gid, some groot =>
      (some (genesis { id := gid, parent := 0, no := 0, txs := [], claimed := groot } oc bc), "ok")
    | _, _, _, _ => (s, "bad-op")
  | ["lib", n], some N =>
    match n.toNat? with
    | some n => (some { N with lib := n }, "ok")
    | none => (s, "bad-op")
  | ["add", id, parent, no, pre, res, claimed, cons, tag, txs], some N =>
    match hexNat id, hexNat parent, no.toNat?, hexNat pre, hexNat res, hexNat claimed, hexNat tag, pList txs with
    | some id, some parent, some no, some pre, some res, some claimed, some tag, some txs =>
      if cons != "0" && cons != "1" then (s, "bad-op") else
      let b : Block := { id := id, parent := parent, no := no, txs := txs, claimed := claimed, consOk := cons == "1",
                         pre := pre, res := if res = 0 then none else some res, tag := tag }
      let (r, N') := addBlock tableExec N b
      (some N', s!"{showRes r} {showMsgs N'.out}")
    | _, _, _, _, _, _, _, _ => (s, "bad-op")
  | ["obs", mh, ids, txs], some N =>
    match mh.toNat?, (commas ids).mapM pPair, pList txs with
    | some mh, some ids, some txs => (s, obs N mh ids txs)
    | _, _, _ => (s, "bad-op")
  | _, _ => (s, "bad-op")

end C05Drv

