/-
Model layer `ChainId` (C19): types/genesis.go `ChainID.Bytes` / `ChainID.Read` (lines 82-158),
`ChainIdVersion`, `DecodeChainIdVersion`, `ChainIdEqualWithoutVersion` (lines 186-204), and
types/blockchain.go `MakeChainId` (lines 649-658).

Layout: version (int32, 4 bytes LE) ‖ PublicNet (1 byte) ‖ MainNet (1 byte) ‖ Magic ‖ "/" ‖ Consensus.
`Read` splits the remainder at every "/" (`strings.Split`) and wants exactly two parts.
Go strings are byte strings here. `none` of `read` = an error return; `none` of `makeChainId` = the
run-time panic of `cid[:4]` on a slice shorter than 4 (capacity = length assumed, as for receipts).
-/
import Aergo.Model.Receipt

namespace Aergo.ChainId
open Aergo.Enc Aergo.Receipt

structure ChainID where
  version : Int        -- int32
  publicNet : Bool
  mainNet : Bool
  magic : Bytes
  consensus : Bytes
deriving DecidableEq, Repr

/-- `uint32(v)` of an int32 / `int32(u)` of a uint32 -/
def u32OfI32 (v : Int) : Nat := (v % 4294967296).toNat
def i32OfU32 (n : Nat) : Int := if n < 2147483648 then (n : Int) else (n : Int) - 4294967296

def boolByte (b : Bool) : UInt8 := if b then 1 else 0

/-- `ChainID.Bytes` -/
def bytes (c : ChainID) : Bytes :=
  le 4 (u32OfI32 c.version) ++ (boolByte c.publicNet :: boolByte c.mainNet :: (c.magic ++ (47 :: c.consensus)))

/-- split at the first "/" -/
def cut : Bytes → Option (Bytes × Bytes)
  | [] => none
  | b :: rest =>
    if b = 47 then some ([], rest)
    else match cut rest with
      | some (a, c) => some (b :: a, c)
      | none => none

/-- `ChainID.Read` -/
def read (d : Bytes) : Option ChainID := do
  let (v, d) ← readLE 4 d
  let (p, d) ← readLE 1 d          -- binary.Read into a bool: byte != 0
  let (m, d) ← readLE 1 d
  let (magic, cons) ← cut d        -- no "/" : one part
  if cons.contains 47 then none    -- a second "/" : three or more parts
  else pure { version := i32OfU32 v, publicNet := p != 0, mainNet := m != 0, magic := magic, consensus := cons }

/-- `DecodeChainIdVersion` -/
def decodeVersion (cid : Bytes) : Int :=
  if cid.length < 4 then -1 else i32OfU32 (fromLE (cid.take 4))

/-- `MakeChainId(cid, v)`: the same id with the version prefix replaced. -/
def makeChainId (cid : Bytes) (v : Int) : Option Bytes :=
  if cid.length < 4 then none
  else if cid.take 4 = le 4 (u32OfI32 v) then some cid
  else some (le 4 (u32OfI32 v) ++ cid.drop 4)

/-- `ChainIdEqualWithoutVersion` -/
def eqWithoutVersion (a b : Bytes) : Bool :=
  if a.length < 4 || b.length < 4 then false else a.drop 4 == b.drop 4

/-- The chain ids whose encoding can be read back. -/
def ChainID.wf (c : ChainID) : Bool :=
  decide (-2147483648 ≤ c.version) && decide (c.version < 2147483648) &&
  !c.magic.contains 47 && !c.consensus.contains 47

end Aergo.ChainId
