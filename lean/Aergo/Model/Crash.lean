/-
Model layer `Crash` (C06): the durable state of a node = two key/value stores (chain DB, state DB), the
*write units* every chain operation issues to them in program order, a crash = a prefix of that
sequence, and the restart path that runs on whatever the crash left behind.

Transcribed from /repo (line map in notes/C06.md):

* chain/chainhandle.go   addBlock / addBlockInternal (dispatch: already stored, orphan, main chain, side
                         branch), newChainProcessor run loop + resolveOrphan, chainProcessor.addBlock,
                         execute → executeBlock (state commit, receipts) → connectToChain, reorganize,
                         blockExecutor.commit, executeBlockReco
* chain/chaindb.go       Init → loadChainData, recover; connectToChain, addTxsOfBlock, addBlock,
                         swapChainMapping, writeReceiptsAndOperations, deleteReceiptsAndOperations,
                         writeReorgMarker, deleteReorgMarker, getBlock (hash check), GetBlockByNo
* chain/reorg.go         reorg, gather, gatherReco, initRecovery, rollback, rollforward, swapChain,
                         deleteOldReceipts, swapTxMapping, swapChainMapping
* chain/recover.go       ChainService.Recover, recoverNormal, recoverReorg, ReorgMarker.RecoverChainMapping
* state/statedb/statedb.go  Commit (one bulk: trie nodes + account records, then the state marker), HasMarker
* state/chain.go         ChainStateDB.Init (state opened at the best block's root), UpdateRoot, SetRoot

Block execution is abstract: a block carries the state root its execution reaches (`root`); the state
commit of a block is one bulk `[data root, mark root]` (no `data` entry for a block without transactions:
its root is its parent's root and nothing new is written but the marker). Blocks, transactions and state
roots are named by natural numbers (the harness numbers them). The consensus is the harness' stub: its
persisted status is the id of the block it was last updated with, `NeedReorganization` never vetoes.
-/

namespace Aergo.Crash

structure Block where
  id : Nat
  parent : Nat
  no : Nat
  root : Nat
  txs : List Nat
deriving DecidableEq, Repr, Inhabited

/-- `chain.ReorgMarker` (gob under `_reorg_marker_`). -/
structure Marker where
  start : Nat
  startNo : Nat
  best : Nat
  bestNo : Nat
  top : Nat
  topNo : Nat
deriving DecidableEq, Repr

/-- Key classes of the two stores. `stData`/`stMark` live in the state DB, everything else in the chain DB. -/
inductive Key where
  | latest                  -- dbkey.LatestBlock
  | byNo (n : Nat)          -- 8-byte height ↦ block hash
  | block (id : Nat)        -- block hash ↦ block
  | tx (t : Nat)            -- tx hash ↦ TxIdx
  | rcpt (id no : Nat)      -- dbkey.Receipts(hash, no)
  | iops (no : Nat)         -- dbkey.InternalOps(no)
  | marker                  -- dbkey.ReOrg
  | cons                    -- dbkey.DposLibStatus
  | stData (r : Nat)        -- trie nodes / account records that root r needs (abstract: one entry)
  | stMark (r : Nat)        -- Hasher(root) ↦ StateMarker
deriving DecidableEq, Repr

inductive Val where
  | num (n : Nat)
  | id (i : Nat)
  | blk (b : Block)
  | txIdx (id idx : Nat)
  | unit
  | mk (m : Marker)
deriving DecidableEq, Repr

abbrev Store := Key → Option Val

/-- One write handed to a store / transaction / bulk. -/
inductive W where
  | set (k : Key) (v : Val)
  | del (k : Key)
deriving DecidableEq, Repr

def W.key : W → Key
  | .set k _ => k
  | .del k => k

def W.val : W → Option Val
  | .set _ v => some v
  | .del _ => none

def W.apply (w : W) (D : Store) : Store := fun k => if k = w.key then w.val else D k

def applyOps (ws : List W) (D : Store) : Store := ws.foldl (fun D w => w.apply D) D

inductive Kind where
  | set | del | tx | bulk
deriving DecidableEq, Repr

inductive DB where
  | C | S
deriving DecidableEq, Repr

/-- A durable write unit: a single Set/Delete, a committed transaction, a flushed bulk. -/
structure Unit where
  db : DB
  kind : Kind
  ops : List W
deriving Repr

def applyUnits (us : List Unit) (D : Store) : Store := us.foldl (fun D u => applyOps u.ops D) D

/-- The durable state after a crash that let the first `k` units through. -/
def crash (us : List Unit) (k : Nat) (D : Store) : Store := applyUnits (us.take k) D

/-- A crash inside unit `k` (a bulk flushed in pieces): `k` whole units and the first `j` entries of the next. -/
def crashTorn (us : List Unit) (k j : Nat) (D : Store) : Store :=
  match us[k]? with
  | some u => applyOps (u.ops.take j) (crash us k D)
  | none => crash us k D

/-! ### Typed reads -/

def getLatest (D : Store) : Option Nat :=
  match D .latest with
  | some (.num n) => some n
  | _ => none

def getByNo (D : Store) (n : Nat) : Option Nat :=
  match D (.byNo n) with
  | some (.id i) => some i
  | _ => none

/-- `ChainDB.getBlock`: the record under the hash, refused when it carries another hash. -/
def getBlock (D : Store) (i : Nat) : Option Block :=
  match D (.block i) with
  | some (.blk b) => if b.id = i then some b else none
  | _ => none

def blockByNo (D : Store) (n : Nat) : Option Block := (getByNo D n).bind (getBlock D)

def getTx (D : Store) (t : Nat) : Option (Nat × Nat) :=
  match D (.tx t) with
  | some (.txIdx i j) => some (i, j)
  | _ => none

def hasRcpt (D : Store) (i n : Nat) : Bool := (D (.rcpt i n)).isSome

def getMarker (D : Store) : Option Marker :=
  match D .marker with
  | some (.mk m) => some m
  | _ => none

def getCons (D : Store) : Option Nat :=
  match D .cons with
  | some (.id i) => some i
  | _ => none

/-- `StateDB.HasMarker`. -/
def hasStMark (D : Store) (r : Nat) : Bool := (D (.stMark r)).isSome

def hasStData (D : Store) (r : Nat) : Bool := (D (.stData r)).isSome

/-! ### Write units of the chain operations -/

/-- `StateDB.Commit` of the block state: one bulk; the marker is staged last (`stage` → `setMarker`). -/
def stateUnit (b : Block) : Unit :=
  ⟨.S, .bulk, (if b.txs.isEmpty then [] else [.set (.stData b.root) .unit]) ++ [.set (.stMark b.root) .unit]⟩

/-- `writeReceiptsAndOperations`: nothing at all when there is no receipt. -/
def rcptUnits (b : Block) : List Unit :=
  if b.txs.isEmpty then [] else [⟨.C, .tx, [.set (.rcpt b.id b.no) .unit]⟩]

/-- `executeBlock`: state commit, then receipts. -/
def execUnits (b : Block) : List Unit := stateUnit b :: rcptUnits b

def txIdxFrom (id : Nat) : List Nat → Nat → List W
  | [], _ => []
  | t :: ts, i => .set (.tx t) (.txIdx id i) :: txIdxFrom id ts (i + 1)

/-- `addTxsOfBlock`. -/
def txIdxOps (b : Block) : List W := txIdxFrom b.id b.txs 0

/-- `chainProcessor.connectToChain`: one transaction — block record, latest, height index, consensus status, tx index. -/
def connectUnit (b : Block) : Unit :=
  ⟨.C, .tx, [.set (.block b.id) (.blk b), .set .latest (.num b.no), .set (.byNo b.no) (.id b.id), .set .cons (.id b.id)] ++ txIdxOps b⟩

/-- `chainProcessor.execute` of a main-chain block. -/
def connectUnits (b : Block) : List Unit := execUnits b ++ [connectUnit b]

/-- `chainProcessor.addBlock` of a side-branch block. -/
def sideUnit (b : Block) : Unit := ⟨.C, .tx, [.set (.block b.id) (.blk b)]⟩

def markerOf (start best top : Block) : Marker :=
  ⟨start.id, start.no, best.id, best.no, top.id, top.no⟩

def insertAsc (x : Nat) : List Nat → List Nat
  | [] => [x]
  | y :: ys => if x ≤ y then x :: y :: ys else y :: insertAsc x ys

/-- Insertion sort, ascending (structural recursion, so that sample values evaluate in the kernel). -/
def sortAsc (l : List Nat) : List Nat := l.foldr insertAsc []

/-- Transactions of the old branch that the new branch does not contain (`swapTxMapping`: the map `oldTxs`
after the deletions); the Go loop ranges over a map, the canonical order here is ascending. -/
def oldOnlyTxs (old new : List Block) : List Nat :=
  sortAsc ((old.flatMap (·.txs)).filter (fun t => !(new.flatMap (·.txs)).contains t))

/-- `swapChainMapping` (ChainDB): one bulk — heights of the new branch ascending, latest, consensus status. -/
def mappingUnit (new : List Block) (top : Block) : Unit :=
  ⟨.C, .bulk, new.reverse.map (fun b => .set (.byNo b.no) (.id b.id)) ++ [.set .latest (.num top.no), .set .cons (.id top.id)]⟩

/-- `reorganizer.swapChain`: marker, old receipts, tx index of every new block (ascending, one transaction
each), deletion of the abandoned transactions, height mapping (skipped in recovery when the cached best
is already the new top), marker deletion. `old`/`new` are as gathered: descending from the tip. -/
def swapUnits (m : Marker) (old new : List Block) (top : Block) (skipMapping : Bool) : List Unit :=
  [⟨.C, .tx, [.set .marker (.mk m)]⟩,
   ⟨.C, .tx, old.flatMap (fun b => [.del (.rcpt b.id b.no), .del (.iops b.no)])⟩] ++
  new.reverse.map (fun b => ⟨.C, .tx, txIdxOps b⟩) ++
  [⟨.C, .bulk, (oldOnlyTxs old new).map (fun t => .del (.tx t))⟩] ++
  (if skipMapping then [] else [mappingUnit new top]) ++
  [⟨.C, .tx, [.del .marker]⟩]

/-- `rollforward` with `executeBlock`. -/
def rollforwardUnits (new : List Block) : List Unit := new.reverse.flatMap execUnits

/-! ### The running node -/

structure Node where
  D : Store
  best : Block            -- ChainDB.bestBlock / latest (cached)
  sdbRoot : Nat           -- ChainStateDB root (in memory)
  orphans : List Block    -- orphan pool: one slot per parent id (capacity not modelled: never reached)

/-- `reorganizer.gather`: walk down from the branch top; `fuel` = top.no + 1 suffices. -/
def gather (D : Store) (bestNo : Nat) : Nat → Block → List Block → List Block → Option (Block × List Block × List Block)
  | 0, _, _, _ => none
  | fuel + 1, br, old, new =>
    let down (old : List Block) : Option (Block × List Block × List Block) :=
      if br.no = 0 then none else
      match getBlock D br.parent with
      | none => none
      | some p => if br.no - 1 ≠ p.no then none else gather D bestNo fuel p old (new ++ [br])
    if br.no ≤ bestNo then
      match blockByNo D br.no with
      | none => none
      | some mb =>
        if mb.id = br.id then
          (if bestNo = br.no ∨ new.isEmpty ∨ old.isEmpty then none else some (br, old, new))
        else down (old ++ [mb])
    else down old

/-- `gatherReco`'s inner loop: the blocks from `b` down to (excluding) height `startNo`, following parents. -/
def walkTo (D : Store) (startNo : Nat) : Nat → Block → Option (List Block)
  | 0, b => if b.no > startNo then none else some []
  | fuel + 1, b =>
    if b.no > startNo then
      match getBlock D b.parent with
      | none => none
      | some p => (walkTo D startNo fuel p).map (b :: ·)
    else some []

/-- `cs.reorg(top, nil)`: gather, roll forward (state commits + receipts), swap. -/
def reorg (N : Node) (top : Block) : Option (Node × List Unit) :=
  match gather N.D N.best.no (top.no + 1) top [] [] with
  | none => none
  | some (start, old, new) =>
    let us := rollforwardUnits new ++ swapUnits (markerOf start N.best top) old new top false
    some ({ N with D := applyUnits us N.D, best := top, sdbRoot := top.root }, us)

def connect (N : Node) (b : Block) : Node × List Unit :=
  let us := connectUnits b
  ({ N with D := applyUnits us N.D, best := b, sdbRoot := b.root }, us)

def addSide (N : Node) (b : Block) : Node × List Unit :=
  ({ N with D := applyOps (sideUnit b).ops N.D }, [sideUnit b])

/-- `cdb.isMainChain`. -/
def isMainChain (N : Node) (b : Block) : Bool :=
  if b.no > 0 ∧ b.no ≠ N.best.no + 1 then false
  else getByNo N.D N.best.no == some b.parent

/-- The run loop of `newChainProcessor` for a block from the network: apply, then the orphan parked under
the applied block's id, and so on. Returns the last applied block. -/
def runLoop (isMain : Bool) : Nat → Node → Block → List Unit → Option (Node × Block × List Unit)
  | 0, _, _, _ => none
  | fuel + 1, N, b, acc =>
    let (N1, us) := if isMain then connect N b else addSide N b
    match N1.orphans.find? (fun o => o.parent = b.id) with
    | none => some (N1, b, acc ++ us)
    | some o =>
      if b.no + 1 ≠ o.no then none else
      runLoop isMain fuel { N1 with orphans := N1.orphans.filter (fun x => x.parent ≠ b.id) } o (acc ++ us)

inductive FeedRes where
  | ok | err
deriving DecidableEq, Repr

/-- `ChainService.addBlock` for a *valid* block received from the network (the bad-block cache, the
timestamp/signature checks and the "number = parent's number + 1" check of `addBlockInternal` never fire on
the blocks of the C06 scenarios and are not modelled; invalid blocks are C03/C05's ground). -/
def feed (N : Node) (b : Block) : Node × FeedRes × List Unit :=
  if (getBlock N.D b.id).isSome then (N, .ok, [])                       -- IsConnectedBlock
  else if (getBlock N.D b.parent).isNone then                           -- isOrphan → handleOrphan
    (if N.orphans.any (fun o => o.parent = b.parent) then N else { N with orphans := N.orphans ++ [b] }, .ok, [])
  else
    let isMain := isMainChain N b
    match runLoop isMain (N.orphans.length + 1) N b [] with
    | none => (N, .err, [])
    | some (N1, last, us) =>
      if !isMain ∧ N1.best.no < last.no then                            -- reorganize: needReorg(lastBlock)
        match reorg N1 last with
        | none => (N1, .err, us)
        | some (N2, us2) => (N2, .ok, us ++ us2)
      else (N1, .ok, us)

/-! ### Restart -/

inductive Err where
  | noLatest        -- empty chain DB (never for a node that has its genesis)
  | loadBest        -- ErrorLoadBestBlock
  | noBlock         -- ErrNoBlock from a getBlock on the recovery path
  | prevHash        -- ErrInvalidPrevHash
  | recoBest        -- ErrRecoInvalidBest
  | badMarker       -- ErrInvalidReorgMarker
  | noStateMarker   -- ErrStateNoMarker
  | loop            -- the model's fuel ran out (a stored parent whose number does not decrease)
deriving DecidableEq, Repr

/-- The second loop of `RecoverChainMapping`: heights of the old branch from its tip down to `startNo`+1. -/
def oldMappingOps (D : Store) (startNo : Nat) : Nat → Block → Except Err (List W)
  | 0, b => if b.no > startNo then .error .loop else .ok []
  | fuel + 1, b =>
    if b.no > startNo then
      match getBlock D b.parent with
      | none => .error .noBlock
      | some p =>
        if b.no ≠ p.no + 1 then .error .prevHash else
        match oldMappingOps D startNo fuel p with
        | .error e => .error e
        | .ok ws => .ok (.set (.byNo b.no) (.id b.id) :: ws)
    else .ok []

/-- Heights `hi, hi-1, …, lo+1`. -/
def downFrom (hi lo : Nat) : List Nat := (List.range (hi - lo)).map (fun i => hi - i)

/-- `ReorgMarker.RecoverChainMapping` when the loaded best block is not the marker's old best: one bulk. -/
def recoverMappingUnit (D : Store) (m : Marker) : Except Err (Block × Unit) :=
  match getBlock D m.best with
  | none => .error .noBlock
  | some bb =>
    match oldMappingOps D m.startNo (bb.no + 1) bb with
    | .error e => .error e
    | .ok sets =>
      .ok (bb, ⟨.C, .bulk, (downFrom m.topNo m.bestNo).map (fun n => .del (.byNo n)) ++ sets ++ [.set .latest (.num m.bestNo)]⟩)

/-- `ChainDB.Init`: loadChainData, then recover(). Returns the store, the cached best block, the units written. -/
def initChainDB (D : Store) : Except Err (Store × Block × List Unit) :=
  match getLatest D with
  | none => .error .noLatest
  | some n =>
    match blockByNo D n with
    | none => .error .loadBest
    | some best =>
      match getMarker D with
      | none => .ok (D, best, [])
      | some m =>
        if best.id = m.best then .ok (D, best, [])
        else
          match recoverMappingUnit D m with
          | .error e => .error e
          | .ok (bb, u) => .ok (applyOps u.ops D, bb, [u])

/-- `rollforward` with `executeBlockReco`: every new block's state root must carry its marker. -/
def recoRollforward (D : Store) : List Block → Bool
  | [] => true
  | b :: bs => hasStMark D b.root && recoRollforward D bs

/-- `ChainService.Recover` on a booted node. -/
def recover (N : Node) : Except Err (Node × List Unit) :=
  match getMarker N.D with
  | none => .ok (N, [])                                   -- recoverNormal: the state DB was opened at best's root
  | some m =>
    if N.best.id ≠ m.best then .error .recoBest else
    match getBlock N.D m.top with
    | none => .error .noBlock
    | some top =>
      match getBlock N.D m.start, getBlock N.D m.best with
      | some start, some bb =>
        if bb.no ≥ top.no ∨ start.no ≥ bb.no ∨ start.no ≥ top.no then .error .badMarker else
        match walkTo N.D start.no (bb.no + 1) bb, walkTo N.D start.no (top.no + 1) top with
        | some old, some new =>
          if !recoRollforward N.D new.reverse then .error .noStateMarker else
          let us := swapUnits m old new top (N.best.id == top.id)
          .ok ({ N with D := applyUnits us N.D, best := top, sdbRoot := top.root }, us)
        | _, _ => .error .noBlock
      | _, _ => .error .noBlock

/-- The whole restart: `ChainDB.Init`, `ChainStateDB.Init` at the best block's root, `ChainService.Recover`.
The result carries the units written by Init (first component of the pair of lists) and by Recover. -/
def restart (D : Store) : Except Err (Node × List Unit × List Unit) :=
  match initChainDB D with
  | .error e => .error e
  | .ok (D1, best, us1) =>
    match recover ⟨D1, best, best.root, []⟩ with
    | .error e => .error e
    | .ok (N, us2) => .ok (N, us1, us2)

/-- Genesis store: block record, latest, height 0, state of the genesis root. -/
def genesisStore (g : Block) : Store :=
  applyOps [.set (.block g.id) (.blk g), .set .latest (.num g.no), .set (.byNo g.no) (.id g.id),
            .set (.stData g.root) .unit, .set (.stMark g.root) .unit] (fun _ => none)

/-! ### Outside the property's quantifier: a lagging state DB

The property quantifies over prefixes of the *global* sequence of durable writes. Two independent stores give
that order only if every state-DB flush is durable before the next chain-DB write is issued. `crashLag` is the
other case: the chain DB holds the first `k` units, the state DB has lost its units from position `s` on. The
restart is then only required to be *fail-stop* (refuse to come up, or come up coherent): see
`restart_state_complete`. -/

def crashLag (us : List Unit) (k s : Nat) (D : Store) : Store :=
  applyUnits (us.take s ++ ((us.take k).drop s).filter (fun u => decide (u.db = .C))) D

/-- `crashLag` where the state DB additionally got the first `j` entries of its unit at position `s` (a torn state
bulk: trie nodes and account records without the completion marker, which `StateDB.Commit` stages last). -/
def crashLagTorn (us : List Unit) (k s j : Nat) (D : Store) : Store :=
  match us[s]? with
  | some u =>
    applyUnits (((us.take k).drop (s + 1)).filter (fun u => decide (u.db = .C)))
      (applyOps (u.ops.take j) (applyUnits (us.take s) D))
  | none => crashLag us k s D

/-! ### Blocks whose execution fails

`bad i` = the execution of block `i` fails (`executeBlock` → `validatePost`: the state root / receipts root of the
header is not reached): nothing of that block is committed. On the tip the run loop stops with the error
(`chainProcessor.execute`); a side-branch block is stored without being executed (`chainProcessor.addBlock`); a
reorganisation through such a block fails in the roll-forward after the blocks below it have been executed and
committed, the state root is set back to the old best block's (memory only) and nothing else is written
(reorg.go `reorg`: the error branch after `rollforward`). -/

/-- `rollforward` over the new branch (ascending): the units of the blocks before the first one that fails, and
whether all were executed. -/
def rollforwardUntil (bad : Nat → Bool) : List Block → List Unit × Bool
  | [] => ([], true)
  | b :: bs =>
    if bad b.id then ([], false)
    else
      let r := rollforwardUntil bad bs
      (execUnits b ++ r.1, r.2)

def reorgB (bad : Nat → Bool) (N : Node) (top : Block) : Option (Node × List Unit × Bool) :=
  match gather N.D N.best.no (top.no + 1) top [] [] with
  | none => none
  | some (start, old, new) =>
    let r := rollforwardUntil bad new.reverse
    if r.2 then
      let us := r.1 ++ swapUnits (markerOf start N.best top) old new top false
      some ({ N with D := applyUnits us N.D, best := top, sdbRoot := top.root }, us, true)
    else some ({ N with D := applyUnits r.1 N.D }, r.1, false)

/-- The run loop when execution may fail: on the main chain a failing block stops the loop (an orphan taken from
the pool for it is gone). -/
def runLoopB (bad : Nat → Bool) (isMain : Bool) : Nat → Node → Block → List Unit → Option (Node × Block × List Unit × Bool)
  | 0, _, _, _ => none
  | fuel + 1, N, b, acc =>
    if isMain ∧ bad b.id then some (N, b, acc, false) else
    let (N1, us) := if isMain then connect N b else addSide N b
    match N1.orphans.find? (fun o => o.parent = b.id) with
    | none => some (N1, b, acc ++ us, true)
    | some o =>
      if b.no + 1 ≠ o.no then none else
      runLoopB bad isMain fuel { N1 with orphans := N1.orphans.filter (fun x => x.parent ≠ b.id) } o (acc ++ us)

/-- `ChainService.addBlock` when the execution of some blocks fails (the in-memory cache of errored blocks is not
modelled: a block is fed once per process life in the C06 scenarios). `feedB (fun _ => false) = feed`
(`feedB_valid`). -/
def feedB (bad : Nat → Bool) (N : Node) (b : Block) : Node × FeedRes × List Unit :=
  if (getBlock N.D b.id).isSome then (N, .ok, [])
  else if (getBlock N.D b.parent).isNone then
    (if N.orphans.any (fun o => o.parent = b.parent) then N else { N with orphans := N.orphans ++ [b] }, .ok, [])
  else
    let isMain := isMainChain N b
    match runLoopB bad isMain (N.orphans.length + 1) N b [] with
    | none => (N, .err, [])
    | some (N1, last, us, ok) =>
      if !ok then (N1, .err, us)
      else if !isMain ∧ N1.best.no < last.no then
        match reorgB bad N1 last with
        | none => (N1, .err, us)
        | some (N2, us2, ok2) => (N2, if ok2 then .ok else .err, us ++ us2)
      else (N1, .ok, us)

end Aergo.Crash
