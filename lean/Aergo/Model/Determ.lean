/-! # Determ — the places where block execution iterates a Go map, with the iteration order as an argument (C02)

In a model, execution is a function, so "same block + same prior state ⇒ same result" is `rfl`.  What
can differ between two real executions is (a) the order in which Go walks a `map`, which the runtime
randomises on every `range`, and (b) which of the two execution modes ran (the block producer skips
failing transactions, the validator executes exactly the block's list).  This file transcribes every
state-feeding `range` over a map with its iteration order made an explicit argument `order` (a list of the
map's keys / entries, in the order the runtime happened to produce them), and the control skeleton of both
execution modes.  Core Lean only (linked into `model-c02`).

| model                         | Go                                                                    |
|-------------------------------|-----------------------------------------------------------------------|
| `less`, `lessPanics`          | `types/vote.go` `VoteList.Less` (as repaired by 1c75543b: `bytes.Compare` fallback) |
| `rankSort`, `buildVoteList`   | `contract/system/voteresult.go` `buildVoteList`: `for k, v := range vr.rmap` + `sort.Sort(sort.Reverse(voteList))` |
| `kupd`, `Vpr.applyStep`, `Vpr.apply`, `Vpr.rowWrites` | `contract/system/vprt.go` `vpr.apply` (`for id, delta := range v.changes`, `topVoters.addVotingPower/update`, `vprStore.update`: `remove` + `orderedListAdd`; `for i := range updRows { store.write }`) |
| `lowestAfter`                 | `vpr.updateLowest` inside that loop (not state: read by `vpr.equals` only) |
| `collect`, `IsExport`         | `state/statedb/statebuffer.go` `export`: `for _, v := range buffer.indexes` + `sort.Slice` by key |
| `dbSets`                      | `stateBuffer.stage`, `pkg/trie/trie_cache.go` `CacheDB.commit`, `StateDB.Commit` (`txn.Set` per map entry) |
| `idxRollback`                 | `statebuffer.go` `bufferIndex.rollback` |
| `updateStorage`               | `state/statedb/statedb.go` `StateDB.updateStorage` (`for id, storage := range states.Cache.storages`) |
| `cacheSnapshot`, `cacheRollback` | `state/statedb/storage.go` `storageCache.Snapshot/Rollback` |
| `genesisBalances`             | `state/chain.go` `SetGenesis` (`for address, balance := range genesis.Balance`) |
| `swapDeletes`                 | `chain/reorg.go` `swapTxMapping` (`for _, oldTx := range oldTxs { bulk.Delete }`, then one `MemPoolPut` per entry) |
| `gather`, `validate`, `Env`, `Out` | `consensus/chain/tx.go` `GatherTXs` loop; `chain/chainhandle.go` `blockExecutor.execute` loop; `NewTxExecutor` (execution mode, context, node-local inputs as an explicit argument) |
| `produceBlock`, `validateBlock` | `GenerateBlock` / `GatherTXs` tail (`SendBlockReward(bState, chain.CoinbaseAccount)`, header coinbase) and `newBlockExecutor` (`coinbaseAccount: block.GetHeader().GetCoinbaseAccount()`) + `execute` |
| `tryFold`                     | the loops above that `return err` from inside the `range` |

A Go map whose *contents* (not its iteration order) matter is a finite partial function; where only the
contents are compared it is modelled as a Lean function `Nat → Option α` (`Fun.upd`), so that "two maps
are equal" is function equality.  Where the code builds an ordered structure (vote list, voting-power
bucket) the structure is a list and is modelled literally. -/

namespace Aergo.Determ

/-! ## bytes -/

abbrev Bytes := List Nat

/-- `new(big.Int).SetBytes(b)`: big-endian value. -/
def beNat (b : Bytes) : Nat := b.foldl (fun a x => a * 256 + x) 0

/-- `bytes.Compare`. -/
def bcmp : Bytes → Bytes → Ordering
  | [], [] => .eq
  | [], _ :: _ => .lt
  | _ :: _, [] => .gt
  | x :: xs, y :: ys => if x < y then .lt else if y < x then .gt else bcmp xs ys

/-! ## vote list: `VoteList.Less`, `buildVoteList` -/

/-- One `types.Vote` of a vote list: candidate bytes and tallied amount. -/
structure Entry where
  cand : Bytes
  amt : Nat
deriving DecidableEq, Repr

/-- The integer key `Less(i, j)` compares when amounts tie; which slice is read is decided by the length of
the *left* candidate (`len(vl.Votes[i].Candidate) == 39`) for both operands. -/
def lessKey (left : Entry) (c : Bytes) : Nat :=
  if left.cand.length = 39 then beNat (c.drop 7) else beNat c

/-- `VoteList.Less(i, j)` with `a = Votes[i]`, `b = Votes[j]`:
`amount(a) < amount(b)`, or equal amounts and `c > 0` where `c` compares the integer keys and, when they
are equal, `bytes.Compare(a.Candidate, b.Candidate)`. -/
def less (a b : Entry) : Bool :=
  if a.amt < b.amt then true
  else if a.amt = b.amt then
    let ka := lessKey a a.cand
    let kb := lessKey a b.cand
    if kb < ka then true else if ka < kb then false else bcmp a.cand b.cand == .gt
  else false

/-- Inputs on which the Go function panics (`Candidate[7:]` of a candidate shorter than 7 bytes). -/
def lessPanics (a b : Entry) : Bool := a.amt == b.amt && a.cand.length == 39 && b.cand.length < 7

/-- `sort.Sort(sort.Reverse(list))` by insertion: `x` goes before the first element that is `Less` than it.
Any correct sorting algorithm returns a permutation without a `Less`-ascent; when `Less` is a strict
total order on the entries there is only one such permutation (`Props.C02.voteList_order_unique`). -/
def rankInsert (x : Entry) : List Entry → List Entry
  | [] => [x]
  | y :: r => if less y x then x :: y :: r else y :: rankInsert x r

def rankSort (l : List Entry) : List Entry := l.foldr rankInsert []

/-- `VoteResult.buildVoteList`: `order` = the entries of `vr.rmap` (decoded candidate, amount) in the order
the runtime iterates the map. -/
def buildVoteList (order : List Entry) : List Entry := rankSort order

/-! ## voting-power rank: `vpr.apply` -/

/-- A list of (account id, power) kept strictly descending by id: the content of one `vprStore` bucket in
list order (`orderedListAdd` inserts before the first element whose id is ≤ the new id). The same
structure, with power 0 = absent, is the canonical form of the map `topVoters.powers`. -/
abbrev KL := List (Nat × Int)

def kget : KL → Nat → Int
  | [], _ => 0
  | (k', v) :: r, k => if k' = k then v else kget r k

/-- `orderedListAdd(bu, v, e ↦ cmp(e, v) ≤ 0)`. -/
def kinsert (e : Nat × Int) : KL → KL
  | [] => [e]
  | y :: r => if y.1 ≤ e.1 then e :: y :: r else y :: kinsert e r

/-- `vprStore.update` on one bucket: `remove(bu, id)`; a zero power voter is not re-inserted. -/
def kupd (e : Nat × Int) (l : KL) : KL :=
  let l' := l.filter (fun y => y.1 ≠ e.1)
  if e.2 = 0 then l' else kinsert e l'

def nBuckets : Nat := 71

/-- `getBucketIdx`: first byte of the 32-byte account id modulo `vprBucketsMax`. -/
def bucketIdx (id : Nat) : Nat := (id / 256 ^ 31) % nBuckets

structure Vpr where
  /-- `voters.powers` -/
  powers : KL
  /-- `store.buckets[i]`, `i < 71` -/
  buckets : List KL
  /-- `totalPower` -/
  total : Int
deriving DecidableEq, Repr

def Vpr.empty : Vpr := ⟨[], List.replicate nBuckets [], 0⟩

/-- One iteration of `for id, delta := range v.changes` with `delta ≠ 0`:
`addVotingPower` (old power + delta; a voter whose power became zero leaves `powers`), `store.update`,
`addTotal`. -/
def Vpr.applyStep (v : Vpr) (c : Nat × Int) : Vpr :=
  let np := kget v.powers c.1 + c.2
  let i := bucketIdx c.1
  { powers := kupd (c.1, np) v.powers
    buckets := v.buckets.set i (kupd (c.1, np) (v.buckets.getD i []))
    total := v.total + c.2 }

/-- `vpr.apply`: `order` = the entries of `v.changes` in iteration order; zero deltas are skipped (they stay
in `changes`). -/
def Vpr.apply (v : Vpr) (order : List (Nat × Int)) : Vpr :=
  (order.filter (fun c => c.2 ≠ 0)).foldl Vpr.applyStep v

/-- `for i := range updRows { store.write(s, i) }`: the `SetData(SystemVpr(i), bucket i)` calls, in the
iteration order `rows` of the set of updated rows. -/
def Vpr.rowWrites (v : Vpr) (rows : List Nat) : List (Nat × KL) := rows.map (fun i => (i, v.buckets.getD i []))

/-- `vpr.lowest` after the loop, as the id it points at. `updateLowest(vp)`: zero ⇒ reset to the tree's
minimum (not modelled here: no zero result in the example), `lowest == nil` ⇒ `vp`, `vp.lt(lowest)` ⇒ `vp`.
Order dependent (see `Props.C02`); read only by `vpr.equals`. -/
def lowestAfter (order : List (Nat × Int)) : Option (Nat × Int) :=
  order.foldl (fun low c => match low with
    | none => some c
    | some l => if c.2 < l.2 then some c else some l) none

/-! ## maps compared by content -/

abbrev Fun (α : Type) := Nat → Option α

def Fun.upd {α : Type} (f : Fun α) (k : Nat) (v : Option α) : Fun α := fun k' => if k' = k then v else f k'

/-- `txn.Set(key, value)` for every pair, in order (`stateBuffer.stage`: key = hash of the value;
`CacheDB.commit`: key = node hash; `StateDB.Commit`: the same per storage). -/
def dbSets {α : Type} (db : Fun α) (order : List (Nat × α)) : Fun α :=
  order.foldl (fun d p => d.upd p.1 (some p.2)) db

/-- `swapTxMapping`: `bulk.Delete(oldTx.Hash)` per remaining old transaction. -/
def swapDeletes {α : Type} (db : Fun α) (order : List Nat) : Fun α :=
  order.foldl (fun d k => d.upd k none) db

/-- `bufferIndex.rollback(snapshot)`: every key's stack is popped while its top is ≥ `snapshot`; a key whose
stack became empty is deleted. A stack is the list of entry indexes, newest first. -/
def idxRollback (idx : Fun (List Nat)) (snapshot : Nat) (order : List Nat) : Fun (List Nat) :=
  order.foldl (fun m k => match m k with
    | none => m
    | some st =>
      let st' := st.dropWhile (fun i => snapshot ≤ i)
      m.upd k (if st' = [] then none else some st')) idx

/-- The account record as far as `updateStorage` touches it. -/
structure Acct where
  nonce : Nat := 0
  bal : Nat := 0
  storageRoot : Nat := 0
deriving DecidableEq, Repr, Inhabited

/-- One `bufferedStorage` of the cache as `updateStorage` sees it: whether `storage.update()` succeeds,
the root it leaves, whether `isDirty()`. -/
structure Stor where
  ok : Bool
  dirty : Bool
  root : Nat
deriving DecidableEq, Repr

/-- `StateDB.updateStorage`. The accounts buffer is seen through `getState` (latest entry of the key, else
the trie): `view`. A failing `storage.update()` rolls the buffer back and returns the error: `none`. -/
def updateStorage (view : Fun Acct) (order : List (Nat × Stor)) : Option (Fun Acct) :=
  if order.any (fun c => !c.2.ok) then none
  else some (order.foldl (fun b c =>
    if c.2.dirty then b.upd c.1 (some { (b c.1).getD {} with storageRoot := c.2.root }) else b) view)

/-- `storageCache.Snapshot`: `result[aid] = bs.Buffer.snapshot()`. `rev aid` is that buffer's revision. -/
def cacheSnapshot (rev : Nat → Nat) (order : List Nat) : Fun Nat :=
  order.foldl (fun m aid => m.upd aid (some (rev aid))) (fun _ => none)

/-- `storageCache.Rollback(snap)`: a storage present in the snapshot is rolled back to its revision
(`rb`), one that is not is dropped from the cache. -/
def cacheRollback {β : Type} (rb : β → Nat → β) (snap : Fun Nat) (cache : Fun β) (order : List Nat) : Fun β :=
  order.foldl (fun c aid => match c aid with
    | none => c
    | some bs => match snap aid with
      | some r => c.upd aid (some (rb bs r))
      | none => c.upd aid none) cache

/-- `SetGenesis`: `GetAccountState(addr); AddBalance(v); PutState()` per entry of `genesis.Balance`
(several address strings may decode to one account). -/
def genesisBalances (view : Nat → Nat) (order : List (Nat × Nat)) : Nat → Nat :=
  order.foldl (fun b p => fun k => if k = p.1 then b k + p.2 else b k) view

/-! ## state buffer export -/

/-- `for _, v := range buffer.indexes { bufs = append(bufs, entries[v.peek()]) }` with `order` = the keys of
`indexes` in iteration order and `top k` = the latest entry of key `k` (meta entries are skipped: `none`). -/
def collect {α : Type} (top : Nat → Option α) (order : List Nat) : List (Nat × α) :=
  order.filterMap (fun k => (top k).map (fun v => (k, v)))

/-- What `sort.Slice(bufs, key <)` may return for `bufs`: a permutation sorted by key. -/
def IsExport {α : Type} (bufs out : List (Nat × α)) : Prop :=
  out.Perm bufs ∧ out.Pairwise (fun a b => a.1 < b.1)

/-! ## the two execution modes, on two nodes -/

/-- What the block factory's own checks say before a candidate is executed (`checkBpTimeout`,
`ctx.Done()`): go on, block timeout (`ErrTimeout`: stop), contract timeout (`VmTimeoutError`: stop and
mark the tx). `errBlockSizeLimit` stops the same way. -/
inductive Pre where
  | go | tmo | vmtmo
deriving DecidableEq, Repr

/-- The class of the error `chain.NewTxExecutor` returns: `nil`; an error (`GatherTXs` skips the tx, the validator
rejects the block); `*contract.VmTimeoutError` coming out of the VM *after* the call has started and possibly
written (`GatherTXs` stops and keeps the block built so far). -/
inductive Out where
  | ok | fail | timeout
deriving DecidableEq, Repr

/-- Everything one execution of a transaction sees besides the block state and the transaction: the execution
mode (`contract.BlockFactory` on the producer, `contract.ChainService` on a validator), whether the execution
context has already ended when the transaction starts (`execCtx.Err() != nil`: the block-generation deadline
passed, or the node is shutting down; a validator runs under `context.Background()`), and the node itself (its
configuration: coinbase account, worker counts, data directory; its mempool; its wall clock). -/
structure Env (ν : Type) where
  producer : Bool
  ctxDone : Bool
  node : ν

section exec
variable {σ τ ρ ν : Type}

/-- the environment of a validator: `ChainService` mode, `context.Background()` -/
def Env.validator (n : ν) : Env ν := ⟨false, false, n⟩

/-- `GatherTXs` on node `n`: `exec e s tx = (class, s', receipt)` is `chain.NewTxExecutor` (snapshot, `executeTx`,
rollback on error). Every candidate comes with what the block factory's checks said (`Pre`) and with whether the
context had ended when its execution started. An error tx is skipped (`continue`), a timeout — from the checks
or from inside the VM — ends the loop. Returns the collected txs, the block state and the receipts. -/
def gather (exec : Env ν → σ → τ → Out × σ × ρ) (n : ν) : σ → List (Pre × Bool × τ) → List τ × σ × List ρ
  | s, [] => ([], s, [])
  | s, (.go, d, t) :: rest =>
    let r := exec ⟨true, d, n⟩ s t
    match r.1 with
    | .ok =>
      let g := gather exec n r.2.1 rest
      (t :: g.1, g.2.1, r.2.2 :: g.2.2)
    | .fail => gather exec n r.2.1 rest
    | .timeout => ([], r.2.1, [])
  | s, (_, _, _) :: _ => ([], s, [])

/-- `blockExecutor.execute` tx loop on node `n`: the first failing tx rejects the block. -/
def validate (exec : Env ν → σ → τ → Out × σ × ρ) (n : ν) : σ → List τ → Option (σ × List ρ)
  | s, [] => some (s, [])
  | s, t :: ts =>
    let r := exec (Env.validator n) s t
    match r.1 with
    | .ok => (validate exec n r.2.1 ts).map (fun v => (v.1, r.2.2 :: v.2))
    | _ => none

/-- A block as far as execution reads it: the coinbase account of the header and the transactions. -/
structure Blk (κ τ : Type) where
  coinbase : κ
  txs : List τ

/-- `BlockGenerator.GenerateBlock` on node `n`: `GatherTXs`, then `SendBlockReward(bState, chain.CoinbaseAccount)`
with the node's *own* configured account `cb n`, which is also written into the header (`types.NewBlock(…,
chain.CoinbaseAccount, …)`). -/
def produceBlock {κ : Type} (exec : Env ν → σ → τ → Out × σ × ρ) (reward : κ → σ → σ) (cb : ν → κ) (n : ν) (s : σ)
    (cands : List (Pre × Bool × τ)) : Blk κ τ × σ × List ρ :=
  let g := gather exec n s cands
  (⟨cb n, g.1⟩, reward (cb n) g.2.1, g.2.2)

/-- `newBlockExecutor` + `execute` on node `n'`: the tx loop, then `SendBlockReward(bState, coinbaseAccount)` with
`coinbaseAccount: block.GetHeader().GetCoinbaseAccount()` — the header's account, not the node's. -/
def validateBlock {κ : Type} (exec : Env ν → σ → τ → Out × σ × ρ) (reward : κ → σ → σ) (n' : ν) (s : σ)
    (b : Blk κ τ) : Option (σ × List ρ) :=
  (validate exec n' s b.txs).map (fun v => (reward b.coinbase v.1, v.2))

end exec

/-! ## loops that leave early, sequences of loops -/

/-- A `range` whose body returns the error of a failing entry (`stateBuffer.stage`, `StateDB.Commit`,
`storageCache.Rollback`, the second loop of `vpr.apply`, `SetGenesis`), literally: entries are visited in `order`
until one fails; `none` = the error was returned (the caller then abandons the batch / the block). Whether an
entry fails depends on the entry only (a marshalling or database error of that entry). -/
def tryFold {α β : Type} (bad : α → Bool) (f : β → α → β) : β → List α → Option β
  | b, [] => some b
  | b, a :: as => if bad a then none else tryFold bad f (f b a) as

/-- One map iteration of a history: the loop body `run` and the iteration order the runtime happened to produce
this time. -/
structure Visit (σ κ : Type) where
  run : σ → List κ → σ
  order : List κ

/-- A history of map iterations: each loop of each block, in program order, each with its own iteration order. -/
def runVisits {σ κ : Type} (s : σ) (vs : List (Visit σ κ)) : σ := vs.foldl (fun s v => v.run s v.order) s

/-- Two histories run the same loops, each on a permutation of the other's iteration order. -/
inductive SameUpToOrder {σ κ : Type} : List (Visit σ κ) → List (Visit σ κ) → Prop
  | nil : SameUpToOrder [] []
  | cons {v v' : Visit σ κ} {vs vs' : List (Visit σ κ)} :
      v.run = v'.run → v.order.Perm v'.order → SameUpToOrder vs vs' → SameUpToOrder (v :: vs) (v' :: vs')

/-- the same for plain lists of orders (rounds of one loop) -/
inductive PermEach {κ : Type} : List (List κ) → List (List κ) → Prop
  | nil : PermEach [] []
  | cons {o o' : List κ} {os os' : List (List κ)} : o.Perm o' → PermEach os os' → PermEach (o :: os) (o' :: os')

end Aergo.Determ
