/-! Shared plumbing of the per-property model drivers (`lean_exe model-cXX`, root `Drv.CXX`).
One output line per input line; state threaded through `step`. Core-only. -/

namespace Aergo.DriverLib

/-- Split an operation line into blank-separated words. -/
def words (line : String) : List String := (line.splitOn " ").filter (· ≠ "")

partial def loop {σ : Type} (hin hout : IO.FS.Stream) (step : σ → String → σ × String) (s : σ) : IO Unit := do
  let line ← hin.getLine
  if line.isEmpty then return ()
  let (s', out) := step s line.trimAsciiEnd.toString
  hout.putStrLn out
  loop hin hout step s'

/-- Run a stateful layer over stdin/stdout. -/
def run {σ : Type} (init : σ) (step : σ → String → σ × String) : IO UInt32 := do
  loop (← IO.getStdin) (← IO.getStdout) step init
  (← IO.getStdout).flush
  return 0

/-- Run a stateless layer. -/
def runPure (f : String → String) : IO UInt32 := run () (fun _ l => ((), f l))

def hexDigit (c : Char) : Option Nat :=
  if '0' ≤ c ∧ c ≤ '9' then some (c.toNat - '0'.toNat)
  else if 'a' ≤ c ∧ c ≤ 'f' then some (c.toNat - 'a'.toNat + 10)
  else if 'A' ≤ c ∧ c ≤ 'F' then some (c.toNat - 'A'.toNat + 10)
  else none

/-- Decode a hex string into bytes ("-" denotes the empty string). -/
def unhex (s : String) : Option (List UInt8) :=
  if s == "-" then some [] else
  let rec go : List Char → Option (List UInt8)
    | [] => some []
    | [_] => none
    | a :: b :: rest => do
      let x ← hexDigit a
      let y ← hexDigit b
      let r ← go rest
      pure (UInt8.ofNat (x * 16 + y) :: r)
  go s.toList

def hexChar (n : Nat) : Char := if n < 10 then Char.ofNat (48 + n) else Char.ofNat (87 + n)

/-- Encode bytes as lower-case hex ("-" for the empty string). -/
def hex (b : List UInt8) : String :=
  if b.isEmpty then "-" else
  String.ofList (b.flatMap fun x => [hexChar (x.toNat / 16), hexChar (x.toNat % 16)])

end Aergo.DriverLib
