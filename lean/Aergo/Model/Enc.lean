/-
Model layer `Enc` (C19, C09, C04): digest inputs as field-spec-driven encodings.

`Aergo.Gen.Enc` (regenerated from types/blockchain.go, account/key/sign.go on every run) lists
which fields each digest function writes, in order and with which fixed-width encoding.
`encode spec r` is the byte string handed to SHA-256. The hash itself is a parameter.
-/
import Aergo.Gen.Enc

namespace Aergo.Enc
open Aergo.Gen.Enc

abbrev Bytes := List UInt8

/-- Little-endian encoding on `w` bytes (what `binary.Write(_, LittleEndian, x)` produces for a
fixed-width integer whose unsigned / two's-complement value is `n`). -/
def le : Nat → Nat → Bytes
  | 0, _ => []
  | w + 1, n => UInt8.ofNat (n % 256) :: le w (n / 256)

/-- A record: bytes-typed fields and integer-typed fields (as their unsigned bit pattern). -/
structure Rec where
  raw : String → Bytes
  num : String → Nat

def width : Kind → Nat
  | .raw => 0
  | .u64le | .i64le => 8
  | .u32le | .i32le => 4

def encField (r : Rec) (fk : String × Kind) : Bytes :=
  match fk.2 with
  | .raw => r.raw fk.1
  | k => le (width k) (r.num fk.1)

/-- Concatenation of the encoded fields, exactly the sequence of `Write`s. -/
def encode (spec : List (String × Kind)) (r : Rec) : Bytes :=
  (spec.map (encField r)).flatten

def names (spec : List (String × Kind)) : List String := spec.map (·.1)

/-- Does the digest described by `spec` read field `f`? -/
def covers (spec : List (String × Kind)) (f : String) : Bool := (names spec).contains f

end Aergo.Enc
