/-
Model layer `Frame` (C18): the p2p wire frame of `p2p/v030/v030io.go`.

A frame is a fixed header followed by the payload. Which header bytes hold which message field,
and in which encoding, is `Aergo.Gen.Frame` (`marshalLayout`, `parseLayout`, `headerLength`),
regenerated from `marshalHeader` / `parseHeader` / `msgHeaderLength` on every run (tie T). What is
hand-written here is the interpretation of those tables (`binary.BigEndian.PutUintNN`, `copy`,
`UintNN`, `MustParseBytes`) and the control flow of `ReadMsg` / `WriteMsg`:

* `writeMsg max m`  — `(*V030ReadWriter).WriteMsg` into a writer that never fails;
* `readMsg max bs`  — `(*V030ReadWriter).ReadMsg` from a stream that delivers `bs` and then EOF;
  returns the outcome *and* the size of the payload buffer the call allocated (`make([]byte, bodyLen)`).

`max` is `p2pcommon.MaxPayloadLength` (a package variable). A Go panic is an explicit outcome
(`panic`), so "never panics" is a theorem about the model and not a side effect of totality.
Integers are `Nat` with the Go type's range as a well-formedness hypothesis (`Msg.WF`); the
`int64` timestamp is carried as its `uint64` bit pattern (`uint64(m.Timestamp())`).
-/
import Aergo.Gen.Frame

namespace Aergo.Frame
open Aergo.Gen.Frame

abbrev Bytes := List UInt8

/-- Big-endian encoding of `n mod 256^w` on `w` bytes (`binary.BigEndian.PutUint32/64`). -/
def be : Nat → Nat → Bytes
  | 0, _ => []
  | w + 1, n => be w (n / 256) ++ [UInt8.ofNat (n % 256)]

/-- Big-endian decoding (`binary.BigEndian.Uint32/64`). -/
def fromBE (bs : Bytes) : Nat := bs.foldl (fun a b => a * 256 + b.toNat) 0

/-- `p2pcommon.Message` as seen by the codec. `len` is `Length()`, which the interface keeps
separate from `len(Payload())`. -/
structure Msg where
  sub : Nat
  len : Nat
  ts : Nat
  id : Bytes
  orig : Bytes
  payload : Bytes
deriving Repr, DecidableEq

/-- Ranges of the Go types: `uint32`, `uint32`, `int64` as `uint64` pattern, `[16]byte`, `[16]byte`. -/
def Msg.WF (m : Msg) : Prop :=
  m.sub < 2 ^ 32 ∧ m.len < 2 ^ 32 ∧ m.ts < 2 ^ 64 ∧ m.id.length = 16 ∧ m.orig.length = 16

def Msg.zero : Msg := ⟨0, 0, 0, List.replicate 16 0, List.replicate 16 0, []⟩

/-- numeric view of a header field (0 for the identifier fields: such a table would not compile in Go) -/
def Msg.num (m : Msg) : Field → Nat
  | .Subprotocol => m.sub
  | .Length => m.len
  | .Timestamp => m.ts
  | _ => 0

/-- byte-array view of a header field -/
def Msg.raw (m : Msg) : Field → Bytes
  | .ID => m.id
  | .OriginalID => m.orig
  | _ => []

def slotInBuf (s : Slot) : Bool := s.lo ≤ s.hi && s.hi ≤ headerLength

/-- Bytes written by one statement of `marshalHeader`. `none`: the statement panics at run time
(`PutUint32` on a slice shorter than 4, `PutUint64` on one shorter than 8) or the table is not
something Go would compile (bounds outside the fixed array). -/
def encSlot (m : Msg) (s : Slot) : Option Bytes :=
  if !slotInBuf s then none else
  match s.enc with
  | .u32be => if s.hi - s.lo < 4 then none else some (be 4 (m.num s.field))
  | .u64be => if s.hi - s.lo < 8 then none else some (be 8 (m.num s.field))
  | .bytes16 => some ((m.raw s.field).take (s.hi - s.lo))

/-- overwrite `buf[lo : lo+|bs|]` -/
def put (buf : Bytes) (lo : Nat) (bs : Bytes) : Bytes :=
  buf.take lo ++ bs ++ buf.drop (lo + bs.length)

/-- `marshalHeader`: the statements of the generated table applied, in order, to the writer's
header buffer `buf` (a struct field that is reused from one message to the next, so it starts
with whatever the previous header left). -/
def marshalHeader (buf : Bytes) (m : Msg) : Option Bytes :=
  marshalLayout.foldlM (fun b s => (encSlot m s).map (put b s.lo)) buf

/-- Go's `b[lo:hi]` on a buffer that is long enough -/
def slice (h : Bytes) (lo hi : Nat) : Bytes := (h.drop lo).take (hi - lo)

/-- Store a decoded value into the message under construction. -/
def setNum (m : Msg) (f : Field) (n : Nat) : Option Msg :=
  match f with
  | .Subprotocol => some { m with sub := n }
  | .Length => some { m with len := n }
  | .Timestamp => some { m with ts := n }
  | _ => none

def setRaw (m : Msg) (f : Field) (b : Bytes) : Option Msg :=
  match f with
  | .ID => some { m with id := b }
  | .OriginalID => some { m with orig := b }
  | _ => none

/-- One statement of `parseHeader`. `none`: run-time panic (`Uint32` on fewer than 4 bytes,
`MustParseBytes` on a slice whose length is not 16) or a table Go would not compile. -/
def decSlot (h : Bytes) (m : Msg) (s : Slot) : Option Msg :=
  if !slotInBuf s then none else
  match s.enc with
  | .u32be => if s.hi - s.lo < 4 then none else setNum m s.field (fromBE ((slice h s.lo s.hi).take 4))
  | .u64be => if s.hi - s.lo < 8 then none else setNum m s.field (fromBE ((slice h s.lo s.hi).take 8))
  | .bytes16 => if s.hi - s.lo ≠ 16 then none else setRaw m s.field (slice h s.lo s.hi)

/-- `parseHeader` on a full header buffer; fields no statement sets keep Go's zero value. -/
def parseHeader (h : Bytes) : Option Msg :=
  parseLayout.foldlM (decSlot h) Msg.zero

/-! ### WriteMsg -/

inductive WErr
  | sizeMismatch   -- "Invalid payload size": Length() ≠ uint32(len(Payload()))
  | tooBig         -- "too big payload"
  | wrongWrite     -- "wrong write": only for payloads of 4 GiB or more whose length wraps to Length()
deriving Repr, DecidableEq

inductive WRes
  | ok (bytes : Bytes)
  | err (e : WErr)
  | panic
deriving Repr, DecidableEq

/-- `WriteMsg` into a writer that accepts everything. `buf` = previous content of `rw.writeBuf`.
In the `wrongWrite` case the Go code has already handed header and payload to the buffered writer. -/
def writeMsg (max : Nat) (buf : Bytes) (m : Msg) : WRes :=
  if m.len ≠ m.payload.length % 2 ^ 32 then .err .sizeMismatch
  else if m.len > max then .err .tooBig
  else match marshalHeader buf m with
    | none => .panic
    | some h => if m.payload.length ≠ m.len then .err .wrongWrite else .ok (h ++ m.payload)

/-! ### ReadMsg -/

inductive RErr
  | eof      -- the stream ended inside (or before) the header: ReadMsg returns the reader's io.EOF
  | tooBig   -- declared length > max: refused before the payload buffer is made
  | short    -- the stream ended inside the payload
deriving Repr, DecidableEq

inductive RRes
  | ok (m : Msg) (rest : Bytes)
  | err (e : RErr)
  | panic
deriving Repr, DecidableEq

structure ROut where
  res : RRes
  /-- length of the payload buffer the call allocated (`make([]byte, bodyLen)`), 0 if it did not get there -/
  alloc : Nat
deriving Repr, DecidableEq

/-- `ReadMsg` on a stream that yields `bs` then EOF. -/
def readMsg (max : Nat) (bs : Bytes) : ROut :=
  if bs.length < headerLength then ⟨.err .eof, 0⟩
  else match parseHeader (bs.take headerLength) with
    | none => ⟨.panic, 0⟩
    | some m =>
      if m.len > max then ⟨.err .tooBig, 0⟩
      else
        let body := bs.drop headerLength
        if body.length < m.len then ⟨.err .short, m.len⟩
        else ⟨.ok { m with payload := body.take m.len } (body.drop m.len), m.len⟩

/-- The length a header declares (bytes of the `Length` slot of `parseLayout`), if it has one. -/
def declared (bs : Bytes) : Option Nat := (parseHeader (bs.take headerLength)).map (·.len)

/-- Repeated `ReadMsg` on one connection until the first error: the messages read, the outcome that
stopped the loop, and the largest single allocation. `fuel` bounds the recursion for the
definition only (each successful read consumes at least the header, so `bs.length` suffices). -/
def readAll (max : Nat) : Nat → Bytes → List Msg × RRes × Nat
  | 0, _ => ([], .err .eof, 0)
  | fuel + 1, bs =>
    match readMsg max bs with
    | ⟨.ok m rest, a⟩ =>
      let (ms, e, a') := readAll max fuel rest
      (m :: ms, e, Nat.max a a')
    | ⟨r, a⟩ => ([], r, a)

end Aergo.Frame
