/-
Model layer `Gov` (C15): governance accounting of /repo/contract/system and /repo/contract/name.

Transcribed from
  contract/system/staking.go     stakeCmd.run, unstakeCmd.run, addTotal, subTotal, (de)serializeStaking
  contract/system/validation.go  ValidateSystemTx, validateForStaking, validateForVote, validateForUnstaking,
                                 checkStakingBefore, parseIDForProposal, validateById
  contract/system/vote.go        newVoteCmd, voteCmd.run, updateVoteResult, refreshAllVote, getVote/setVote,
                                 vprCmd.addVpr/subVpr (normal case), (de)serializeVote{,Ex,List}
  contract/system/voteresult.go  SubVote, AddVote, buildVoteList, Sync, threshold, loadVoteResult
  contract/system/vprt.go        vpr.add/sub/prepare/apply, topVoters.addVotingPower/update (powers map),
                                 vprStore.update/remove/orderedListAdd/write/read, loadVpr, votingPower.(un)marshal
  contract/system/param.go       GetParam, updateParam, CommitParams, loadParams
  contract/name/{name,execute}.go ValidateNameTx, ExecuteNameTx, CreateName, UpdateName, SetContractOwner,
                                 GetAddress, (de)serializeNameMap
  types/vote.go                  VoteList.Less
  state/account.go               SendBalance

What the code does, including its quirks:
* `Staking.When` is shared by the three delays: staking, unstaking *and voting* write it, and each delay
  is measured from it;
* `validateForStaking` applies the delay when a staking *record* exists (`GetAmount() != nil`), even with
  amount 0; `validateForVote` applies it when a vote *record* exists;
* a tally is loaded into a map of `big.Int`, the old vote is subtracted (a missing key is a nil
  `*big.Int`: panic), the new one added, and `Bytes()` (absolute value) is written back;
* `refreshAllVote` runs before `subTotal`, so the threshold test of a parameter vote refreshed by an
  unstake still sees the old staking total;
* `threshold` divides by `power / 100`; since repair f9db0000 a tally below 100 aer (no hundredth) simply does
  not reach the threshold (before it: division by zero, a Go panic inside block execution);
* `VoteList.Less` breaks ties by `Candidate[7:]` read as a big-endian integer when the *left* candidate
  is 39 bytes long (and, since repair 3f9132cd, the right one at least 7), else by the whole candidate as
  an integer (leading zero bytes do not count), and — since repair 1c75543b — by `bytes.Compare` of the
  whole candidates when those integers are equal;
* a parameter candidate is any string `big.Int.SetString(·, 10)` accepts — an optional sign, then digits;
  `validateById` bounds its magnitude (since repair b0b4c2db; before, a negative number passed every upper
  bound); the value that is persisted *and* (since repair 949e5958) kept in memory when it wins is
  `Bytes()` of it, the absolute value;
* the voting-power rank ignores a `sub` for an account that is not yet a voter in memory, ignores an
  `add` of 0, keeps zero deltas in `changes`, removes a voter whose power becomes 0, and keeps each
  bucket ordered by *descending* account id;
* name validation reads the write buffer (`GetData`) while `getAddress` reads the committed storage
  (`GetInitialData`): a name created in the current block is "not created yet" for `UpdateName`.

Abstractions: amounts are unbounded `Nat`/`Int` (`big.Int`; `Bytes()` = absolute value), block numbers are
`Nat` (no uint64 wrap: `when + delay` stays below 2^64 for every block number below 2^64 - 86400),
Go maps are association lists (iteration order is an argument where it matters: `rankOf`), an account is
its address bytes plus its account id (= SHA-256 of the address, supplied by the harness: the model never
hashes). Records are kept structured; the byte-level codecs are separate functions (`ser*`/`deser*`) with
their round-trip laws in `Props.C15`. A `voteBP` whose concatenated candidate bytes are not a multiple of
39 is *not* modelled (`Res.misaligned`): the real code then frames the record wrongly
(DESIGN §5 lead 4b, finding C15-votebp-candidate-not-39-bytes).
`topVoters.members` (a red-black tree ordered by descending power, then descending id) is not a state
component of the model: it is specified as `membersOf` = the voters sorted by that order (after repair
36df0321 the real tree is that; before it a stale node stayed behind). Not modelled: `vpr.lowest` (written,
never read by the node); the two hard-coded account-id
exceptions of addVpr/subVpr; proposals other than the four built-in ones; contract creators in UpdateName.
Core Lean only (linked into `model-c15`).
-/

namespace Aergo.Gov

abbrev Bytes := List UInt8

/-! ### Association lists (Go maps) -/

abbrev AMap (κ ν : Type) := List (κ × ν)

def AMap.get {κ ν} [DecidableEq κ] : AMap κ ν → κ → Option ν
  | [], _ => none
  | (k', v) :: r, k => if k' = k then some v else AMap.get r k

def AMap.del {κ ν} [DecidableEq κ] (m : AMap κ ν) (k : κ) : AMap κ ν :=
  m.filter (fun e => decide (e.1 ≠ k))

def AMap.set {κ ν} [DecidableEq κ] (m : AMap κ ν) (k : κ) (v : ν) : AMap κ ν :=
  (k, v) :: AMap.del m k

/-! ### Integers and bytes -/

/-- `new(big.Int).SetBytes(b)`: big-endian, leading zero bytes do not count. -/
def beNat (b : Bytes) : Nat := b.foldl (fun a x => a * 256 + x.toNat) 0

/-- `big.Int.Bytes()` of a non-negative value: minimal big-endian, `[]` for 0 (fuel = the value). -/
def natBEAux : Nat → Nat → Bytes
  | 0, _ => []
  | f + 1, n => if n = 0 then [] else natBEAux f (n / 256) ++ [UInt8.ofNat (n % 256)]

def natBE (n : Nat) : Bytes := natBEAux n n

/-- `k` little-endian bytes of `n` (value taken modulo 256^k). -/
def leBytes : Nat → Nat → Bytes
  | 0, _ => []
  | k + 1, n => UInt8.ofNat (n % 256) :: leBytes k (n / 256)

/-- `binary.LittleEndian.PutUint64` (value taken modulo 2^64). -/
def le64 (n : Nat) : Bytes := leBytes 8 n

/-- little-endian value of a byte string (`binary.LittleEndian.Uint64` on 8 bytes, `Uint16` on 2). -/
def leNat : Bytes → Nat
  | [] => 0
  | x :: r => x.toNat + 256 * leNat r

/-- `binary.Write(…, LittleEndian, uint16(n))`. -/
def le16 (n : Nat) : Bytes := leBytes 2 n

/-- `bytes.Compare(a, b) ≤ 0` (lexicographic). -/
def bytesLe : Bytes → Bytes → Bool
  | [], _ => true
  | _ :: _, [] => false
  | x :: a, y :: b => if x < y then true else if y < x then false else bytesLe a b

/-! ### Byte-level codecs (separate from the state machine; tied by the `codec` driver ops) -/

def peerIDLength : Nat := 39

/-- serializeStaking: 8 bytes little-endian `When`, then `Amount`. -/
def serStaking (whenNo : Nat) (amount : Bytes) : Bytes := le64 whenNo ++ amount
/-- deserializeStaking (`data[:8]` panics below 8 bytes: `none`). -/
def deserStaking (d : Bytes) : Option (Nat × Bytes) :=
  if d.length < 8 then none else some (leNat (d.take 8), d.drop 8)

/-- serializeVote: candidate bytes then amount bytes, no framing. -/
def serVote (cand amount : Bytes) : Bytes := cand ++ amount
/-- deserializeVote: `pos := len % 39`; candidate = all but the last `pos` bytes. (The Go check
`len(candidate) % 39 != 0` can never fire: `len - len % 39` is a multiple of 39.) -/
def deserVote (d : Bytes) : Bytes × Bytes :=
  let pos := d.length % peerIDLength
  (d.take (d.length - pos), d.drop (d.length - pos))

/-- serializeVoteEx: 8 bytes little-endian candidate length, candidate, amount. -/
def serVoteEx (cand amount : Bytes) : Bytes := le64 cand.length ++ cand ++ amount
/-- deserializeVoteEx (`none`: a Go slice-bounds panic). -/
def deserVoteEx (d : Bytes) : Option (Bytes × Bytes) :=
  if d.length < 8 then none else
  let size := leNat (d.take 8)
  if d.length < 8 + size then none else some ((d.drop 8).take size, d.drop (8 + size))

/-- serializeVoteList: each vote serialized and prefixed by its 8-byte little-endian length. -/
def serVoteList (ex : Bool) : List (Bytes × Bytes) → Bytes
  | [] => []
  | (c, a) :: r =>
    let s := if ex then serVoteEx c a else serVote c a
    le64 s.length ++ s ++ serVoteList ex r

/-- deserializeVoteList (fuel bounds the loop; `none`: slice-bounds panic). -/
def deserVoteListAux (ex : Bool) : Nat → Bytes → Option (List (Bytes × Bytes))
  | 0, _ => some []
  | f + 1, d =>
    if d.isEmpty then some [] else
    if d.length < 8 then none else
    let size := leNat (d.take 8)
    if d.length < 8 + size then none else
    let v := (d.drop 8).take size
    let rest := d.drop (8 + size)
    match (if ex then deserVoteEx v else some (deserVote v)), deserVoteListAux ex f rest with
    | some x, some r => some (x :: r)
    | _, _ => none

def deserVoteList (ex : Bool) (d : Bytes) : Option (List (Bytes × Bytes)) := deserVoteListAux ex (d.length + 1) d

/-- votingPower.marshal: 32-byte account id, uint16 address length, address, uint16 power length, power bytes. -/
def marshalVP (id addr pwr : Bytes) : Bytes := id ++ le16 addr.length ++ addr ++ le16 pwr.length ++ pwr

/-- votingPower.unmarshal: returns (id, addr, power bytes, consumed). The power slice is bounded by `sz2`
only when more bytes follow. -/
def unmarshalVP (b : Bytes) : Option (Bytes × Bytes × Bytes × Nat) :=
  if b.length < 34 then none else
  let sz1 := leNat ((b.drop 32).take 2)
  if b.length < 36 + sz1 then none else
  let sz2 := leNat ((b.drop (34 + sz1)).take 2)
  let pw := if 36 + sz1 + sz2 < b.length then (b.drop (36 + sz1)).take sz2 else b.drop (36 + sz1)
  some (b.take 32, (b.drop 34).take sz1, pw, 36 + sz1 + sz2)

/-- vprStore.write: the bucket's entries marshalled one after the other. -/
def marshalBucket : List (Bytes × Bytes × Bytes) → Bytes
  | [] => []
  | (id, addr, pwr) :: r => marshalVP id addr pwr ++ marshalBucket r

/-- vprStore.read: `for off < len(buf) { off += unmarshal(buf[off:]) }`. -/
def unmarshalBucketAux : Nat → Bytes → Option (List (Bytes × Bytes × Bytes))
  | 0, _ => some []
  | f + 1, b =>
    if b.isEmpty then some [] else
    match unmarshalVP b with
    | none => none
    | some (id, addr, pw, n) =>
      match unmarshalBucketAux f (b.drop n) with
      | some r => some ((id, addr, pw) :: r)
      | none => none

def unmarshalBucket (b : Bytes) : Option (List (Bytes × Bytes × Bytes)) := unmarshalBucketAux (b.length + 1) b

/-- serializeNameMap (version 1). -/
def serNameMap (owner dest : Bytes) : Bytes := [1] ++ le64 owner.length ++ owner ++ le64 dest.length ++ dest
/-- deserializeNameMap (`none`: panic on a wrong version or short data). -/
def deserNameMap (d : Bytes) : Option (Bytes × Bytes) :=
  match d with
  | [] => none
  | v :: r =>
    if v ≠ 1 then none else
    if r.length < 8 then none else
    let n1 := leNat (r.take 8)
    let r1 := r.drop 8
    if r1.length < n1 + 8 then none else
    let n2 := leNat ((r1.drop n1).take 8)
    let r2 := r1.drop (n1 + 8)
    if r2.length < n2 then none else some (r1.take n1, r2.take n2)

/-! ### Ranking order: `types.VoteList.Less` -/

/-- One entry of a vote list: candidate bytes and amount. -/
abbrev Entry := Bytes × Nat

/-- `VoteList.Less(i, j)` with `a = Votes[i]`, `b = Votes[j]` (after repair 1c75543b: when the integer
keys tie, `bytes.Compare` of the whole candidates decides; after repair 3f9132cd: the peer-id branch
`Candidate[7:]` is taken only when the *right* candidate is at least 7 bytes long — before it the slice
panicked for a 39-character parameter candidate tied with a short one). -/
def less (a b : Entry) : Bool :=
  if a.2 < b.2 then true
  else if a.2 = b.2 then
    let ka := if a.1.length = 39 ∧ 7 ≤ b.1.length then beNat (a.1.drop 7) else beNat a.1
    let kb := if a.1.length = 39 ∧ 7 ≤ b.1.length then beNat (b.1.drop 7) else beNat b.1
    if ka > kb then true
    else if ka = kb then !bytesLe a.1 b.1
    else false
  else false

/-- `sort.Sort(sort.Reverse(list))` as insertion of each element before the first one that is `Less` than it:
the result has no `Less`-ascent. Input order = map iteration order (an argument). -/
def rankInsert (x : Entry) : List Entry → List Entry
  | [] => [x]
  | y :: r => if less y x then x :: y :: r else y :: rankInsert x r

def rankSort (l : List Entry) : List Entry := l.foldr rankInsert []

/-! ### State -/

inductive Issue | bp | bpCount | stakingMin | gasPrice | namePrice
deriving DecidableEq, Repr

/-- GetVotingCatalog(): the BP election first, then the four parameters. -/
def catalog : List Issue := [.bp, .bpCount, .stakingMin, .gasPrice, .namePrice]

def Issue.ex : Issue → Bool
  | .bp => false
  | _ => true

structure Staking where
  amount : Nat
  when : Nat
deriving DecidableEq, Repr

structure Vote where
  cands : List Bytes
  amount : Nat
deriving DecidableEq, Repr

/-- One voter of the voting-power rank. -/
structure VP where
  id : Bytes
  addr : Bytes
  power : Int
deriving DecidableEq, Repr

structure Vpr where
  powers : AMap Bytes VP
  buckets : AMap Nat (List VP)
  total : Int
  changes : AMap Bytes (Bytes × Int)
deriving DecidableEq, Repr

def Vpr.empty : Vpr := ⟨[], [], 0, []⟩

structure NameRec where
  owner : Bytes
  dest : Bytes
deriving DecidableEq, Repr

structure St where
  fv : Nat
  /-- address → account id (declared accounts) -/
  accts : AMap Bytes Bytes
  bal : AMap Bytes Nat
  stakes : AMap Bytes Staking
  total : Nat
  /-- (issue, voter) → vote record -/
  votes : AMap (Issue × Bytes) Vote
  /-- (issue, candidate) → amount: the persisted vote list of the issue, as a map -/
  tally : AMap (Issue × Bytes) Nat
  /-- SystemVoteTotal of the parameter issues -/
  vtotal : AMap Issue Nat
  vpr : Vpr
  /-- the persisted buckets (SystemVpr(i)), entries with `Bytes()`-ed powers -/
  vprDisk : AMap Nat (List VP)
  /-- systemParams.params: current values and next-block values -/
  params : AMap Issue Int
  nextParams : AMap Issue Int
  /-- SystemParam(id) in the state db -/
  paramsDisk : AMap Issue Nat
  names : AMap Bytes NameRec
  namesInit : AMap Bytes NameRec
deriving Repr

def sysAddr : Bytes := [97, 101, 114, 103, 111, 46, 115, 121, 115, 116, 101, 109]
def nameAddr : Bytes := [97, 101, 114, 103, 111, 46, 110, 97, 109, 101]
def entAddr : Bytes := [97, 101, 114, 103, 111, 46, 101, 110, 116, 101, 114, 112, 114, 105, 115, 101]
def vaultAddr : Bytes := [97, 101, 114, 103, 111, 46, 118, 97, 117, 108, 116]

def isSpecial (a : Bytes) : Bool := a = sysAddr || a = nameAddr || a = entAddr || a = vaultAddr

def stakingDelay : Nat := 86400
def votingDelay : Nat := 86400

def aergo : Nat := 1000000000000000000

/-- DefaultParams (bpCount is fixed by the first InitSystemParams call: 3 in the harness). -/
def defaultParam : Issue → Int
  | .bp => 0
  | .bpCount => 3
  | .stakingMin => 10000 * aergo
  | .gasPrice => 50000000000
  | .namePrice => aergo

def St.init (fv : Nat) : St :=
  { fv := fv, accts := [], bal := [], stakes := [], total := 0, votes := [], tally := [], vtotal := [],
    vpr := Vpr.empty, vprDisk := [], params := [], nextParams := [], paramsDisk := [], names := [], namesInit := [] }

/-- GetParam: the current value, else the default. -/
def St.param (s : St) (i : Issue) : Int :=
  match s.params.get i with
  | some v => v
  | none => defaultParam i

/-- Balance lookup (an account without state has balance 0). -/
def bget (m : AMap Bytes Nat) (a : Bytes) : Nat :=
  match m.get a with
  | some b => b
  | none => 0

def St.balOf (s : St) (a : Bytes) : Nat := bget s.bal a

inductive Res
  | ok | insufficient | lessTime | tooSmall | mustStakeVote | mustStakeUnstake | exceed
  | notSupported | daoBadId | daoTooFew | daoTooMany | daoBadNumber | daoBadRange
  | occupied | ownerMismatch | notCreated | ownerSet
  | panic | misaligned
deriving DecidableEq, Repr

/-- state.SendBalance: nothing between one account and itself; refused when the sender lacks the amount. -/
def sendBalance (bal : AMap Bytes Nat) (src dst : Bytes) (amt : Nat) : Option (AMap Bytes Nat) :=
  if src = dst then some bal else
  if bget bal src < amt then none else
  let bal1 := bal.set src (bget bal src - amt)
  some (bal1.set dst (bget bal1 dst + amt))

/-! ### Voting-power rank (vprt.go) -/

def bucketIdx (id : Bytes) : Nat :=
  match id with
  | [] => 0
  | x :: _ => x.toNat % 71

/-- vpr.add: nothing for power 0; else `changes[id] += power` (entry created with the address). -/
def Vpr.add (v : Vpr) (id addr : Bytes) (power : Nat) : Vpr :=
  if power = 0 then v else
  match v.changes.get id with
  | some (a, d) => { v with changes := v.changes.set id (a, d + power) }
  | none => { v with changes := v.changes.set id (addr, (power : Int)) }

/-- vpr.sub: nothing for an account that is not a voter in memory; else `changes[id] -= power`. -/
def Vpr.sub (v : Vpr) (id addr : Bytes) (power : Nat) : Vpr :=
  match v.powers.get id with
  | none => v
  | some _ =>
    match v.changes.get id with
    | some (a, d) => { v with changes := v.changes.set id (a, d - power) }
    | none => { v with changes := v.changes.set id (addr, -(power : Int)) }

/-- orderedListAdd with the predicate of vprStore.update: insert before the first element whose id is
`≤` the new one (buckets are kept in descending id order). -/
def bucketInsert (x : VP) : List VP → List VP
  | [] => [x]
  | e :: r => if bytesLe e.id x.id then x :: e :: r else e :: bucketInsert x r

def bucketRemove (id : Bytes) (l : List VP) : List VP := l.filter (fun e => decide (e.id ≠ id))

def getBucket (b : AMap Nat (List VP)) (i : Nat) : List VP :=
  match b.get i with
  | some l => l
  | none => []

/-- `Bytes()` of every power: what vprStore.write persists. -/
def persistBucket (l : List VP) : List VP := l.map fun e => { e with power := (e.power.natAbs : Int) }

/-- One iteration of the loop of vpr.apply for a non-zero delta:
topVoters.addVotingPower + update, vprStore.update, addTotal, and the bucket write that follows. -/
def applyOne (s : Vpr × AMap Nat (List VP)) (id addr : Bytes) (delta : Int) : Vpr × AMap Nat (List VP) :=
  let (v, disk) := s
  let vp : VP := match v.powers.get id with
    | some p => { p with power := p.power + delta }
    | none => ⟨id, addr, delta⟩
  let powers := match v.powers.get id with
    | some _ => if vp.power = 0 then v.powers.del id else v.powers.set id vp
    | none => v.powers.set id vp
  let i := bucketIdx id
  let bu := bucketRemove id (getBucket v.buckets i)
  let bu' := if vp.power = 0 then bu else bucketInsert vp bu
  ({ v with powers := powers, buckets := v.buckets.set i bu', total := v.total + delta, changes := v.changes.del id },
   disk.set i (persistBucket bu'))

/-- vpr.apply over the pending changes in the order `order` (Go: map iteration order). Zero deltas stay. -/
def applyAll (s : Vpr × AMap Nat (List VP)) : List (Bytes × (Bytes × Int)) → Vpr × AMap Nat (List VP)
  | [] => s
  | (id, (addr, d)) :: r => if d = 0 then applyAll s r else applyAll (applyOne s id addr d) r

def vprApply (v : Vpr) (disk : AMap Nat (List VP)) : Vpr × AMap Nat (List VP) := applyAll (v, disk) v.changes

/-- loadVpr: buckets 0..70 in order; every persisted entry becomes a voter (topVoters.update: an id already
present keeps its first record and takes the new power; zero powers are dropped from the map) and is
appended to its bucket; the total is the sum. -/
def loadEntry (v : Vpr) (i : Nat) (e : VP) : Vpr :=
  let rv : VP := match v.powers.get e.id with
    | some p => { p with power := e.power }
    | none => e
  let powers := match v.powers.get e.id with
    | some p => if p.power = 0 then v.powers.del e.id else v.powers.set e.id rv
    | none => v.powers.set e.id e
  { v with powers := powers, buckets := v.buckets.set i (getBucket v.buckets i ++ [rv]), total := v.total + rv.power }

def loadBucket (disk : AMap Nat (List VP)) (v : Vpr) (i : Nat) : Vpr :=
  (getBucket disk i).foldl (fun v e => loadEntry v i e) v

def loadVpr (disk : AMap Nat (List VP)) : Vpr := (List.range 71).foldl (loadBucket disk) Vpr.empty

/-- What `topVoters.members` holds: the voters by descending power, then descending account id
(comparator of newTopVoters). -/
def memberBefore (a b : VP) : Bool :=
  if a.power > b.power then true else if a.power = b.power then !bytesLe a.id b.id else false

def memberInsert (x : VP) : List VP → List VP
  | [] => [x]
  | y :: r => if memberBefore x y then x :: y :: r else y :: memberInsert x r

def membersOf (v : Vpr) : List VP := (v.powers.map (·.2)).foldr memberInsert []

/-! ### Tallies (voteresult.go) -/

/-- VoteResult.SubVote on the loaded map of `big.Int` (a missing key: nil pointer, `none`). -/
def subVotes (t : AMap (Issue × Bytes) Int) (i : Issue) (amt : Nat) : List Bytes → Option (AMap (Issue × Bytes) Int)
  | [] => some t
  | c :: cs =>
    match t.get (i, c) with
    | none => none
    | some x => subVotes (t.set (i, c) (x - amt)) i amt cs

/-- Lookup in a loaded tally (`map[string]*big.Int`), 0 for a missing key. -/
def iget (t : AMap (Issue × Bytes) Int) (k : Issue × Bytes) : Int :=
  match t.get k with
  | some x => x
  | none => 0

/-- VoteResult.AddVote (a missing key starts at 0). -/
def addVotes (t : AMap (Issue × Bytes) Int) (i : Issue) (amt : Nat) : List Bytes → AMap (Issue × Bytes) Int
  | [] => t
  | c :: cs => addVotes (t.set (i, c) (iget t (i, c) + amt)) i amt cs

def tallyLoad (t : AMap (Issue × Bytes) Nat) : AMap (Issue × Bytes) Int := t.map fun e => (e.1, (e.2 : Int))
/-- buildVoteList: `Amount: v.Bytes()` — the absolute value. -/
def tallyStore (t : AMap (Issue × Bytes) Int) : AMap (Issue × Bytes) Nat := t.map fun e => (e.1, e.2.natAbs)

/-- The vote list of an issue in the order `perm` of its map. -/
def entriesOf (t : AMap (Issue × Bytes) Nat) (i : Issue) : List Entry :=
  (t.filter (fun e => decide (e.1.1 = i))).map fun e => (e.1.2, e.2)

/-- The persisted ranking of an issue: `sort.Sort(sort.Reverse(·))` of its entries. -/
def rankOf (t : AMap (Issue × Bytes) Nat) (i : Issue) : List Entry := rankSort (entriesOf t i)

/-- A non-empty string of decimal digits → number; anything else: `none`. -/
def parseDigits (b : Bytes) : Option Nat :=
  if b.isEmpty then none else
  b.foldl (fun acc x => match acc with
    | none => none
    | some n => if 48 ≤ x.toNat ∧ x.toNat ≤ 57 then some (n * 10 + (x.toNat - 48)) else none) (some 0)

/-- `big.Int.SetString(s, 10)`: an optional `+` or `-`, then at least one digit, nothing else. The result is
(negative?, magnitude). -/
def parseSigned (b : Bytes) : Option (Bool × Nat) :=
  match b with
  | 45 :: r => (parseDigits r).map fun n => (true, n)
  | 43 :: r => (parseDigits r).map fun n => (false, n)
  | _ => (parseDigits b).map fun n => (false, n)

/-- The magnitude of a decimal string: what `value.Bytes()` keeps of it (`updateParam` persists it and, since
repair 949e5958, keeps it in memory; before, the signed value stayed in memory). -/
def parseDec (b : Bytes) : Option Nat := (parseSigned b).map (·.2)

/-- VoteResult.threshold (after repair f9db0000: a top tally below 100 aer has no hundredth and decides nothing;
before it the division by zero was a Go panic). The result is always `some _`: the `Option` is kept for
`syncParam`, whose other panic (empty list) remains. -/
def threshold (total power : Nat) : Option Bool :=
  if power = 0 then some false
  else if power / 100 = 0 then some false
  else some (decide (total / (power / 100) ≤ 150))

/-- The sender's account id (`Sender.AccountID()`; supplied with the account declaration). -/
def St.idOf (s : St) (a : Bytes) : Bytes :=
  match s.accts.get a with
  | some x => x
  | none => []

def oldCands : Option Vote → List Bytes
  | some v => v.cands
  | none => []

def oldAmount : Option Vote → Nat
  | some v => v.amount
  | none => 0

/-- cmd.sub(old); cmd.add(new) on the voting-power rank (from hard fork 2 on). -/
def revoteVpr (s : St) (a : Bytes) (oldA newA : Nat) : Vpr :=
  if s.fv < 2 then s.vpr else ((s.vpr.sub (s.idOf a) a oldA).add (s.idOf a) a newA)

/-- loadVoteResult, SubVote(old), AddVote(new), buildVoteList (`none`: nil `*big.Int` in SubVote). -/
def revoteTally (t : AMap (Issue × Bytes) Nat) (i : Issue) (old : Option Vote) (new : Vote) :
    Option (AMap (Issue × Bytes) Nat) :=
  match subVotes (tallyLoad t) i (oldAmount old) (oldCands old) with
  | none => none
  | some t1 => some (tallyStore (addVotes t1 i new.amount new.cands))

/-- SystemVoteTotal of a parameter issue: `total - old + new`, written with `Bytes()`. -/
def revoteVtotal (vt : AMap Issue Nat) (i : Issue) (oldA newA : Nat) : AMap Issue Nat :=
  if i.ex then
    let cur : Int := match vt.get i with | some x => (x : Int) | none => 0
    vt.set i (cur - oldA + newA).natAbs
  else vt

/-- The parameter part of `VoteResult.Sync`: the leading entry against the threshold.
`none`: panic (empty list); `some none`: no change; `some (some v)`: updateParam. -/
def syncParam (total : Nat) (t : AMap (Issue × Bytes) Nat) (i : Issue) : Option (Option Nat) :=
  match rankOf t i with
  | [] => none   -- resultList.Votes[0]: index out of range
  | top :: _ =>
    match threshold total top.2 with
    | none => none
    | some false => some none
    | some true => some (parseDec top.1)   -- `none` here: "abnormal winner" error; cannot arise, candidates were validated

/-- Old/new contribution of one voter to the issue's tally and the VPR, then `VoteResult.Sync`:
vpr.apply, rebuild the list, (parameter issues) threshold → updateParam, total. -/
def revote (s : St) (i : Issue) (a : Bytes) (old : Option Vote) (new : Vote) : Option St :=
  match revoteTally s.tally i old new with
  | none => none
  | some t2 =>
    let va := vprApply (revoteVpr s a (oldAmount old) new.amount) s.vprDisk
    let s1 := { s with tally := t2, vtotal := revoteVtotal s.vtotal i (oldAmount old) new.amount,
                       vpr := va.1, vprDisk := va.2 }
    if i.ex then
      match syncParam s.total t2 i with
      | none => none
      | some none => some s1
      | some (some v) => some { s1 with paramsDisk := s1.paramsDisk.set i v, nextParams := s1.nextParams.set i (v : Int) }
    else some s1

/-- getVote: a record exists iff its serialisation is non-empty (serializeVote of no candidates and a zero
amount is empty; serializeVoteEx never is). -/
def St.voteOf (s : St) (i : Issue) (a : Bytes) : Option Vote := s.votes.get (i, a)

/-- setVote. -/
def setVote (m : AMap (Issue × Bytes) Vote) (i : Issue) (a : Bytes) (v : Vote) : AMap (Issue × Bytes) Vote :=
  if i = .bp ∧ v.cands = [] ∧ v.amount = 0 then m.del (i, a) else m.set (i, a) v

/-! ### Staking, unstaking, voting (system contract) -/

def St.stakedAmount (s : St) (a : Bytes) : Nat :=
  match s.stakes.get a with
  | some st => st.amount
  | none => 0

def minStake (s : St) : Int := s.param .stakingMin

/-- validateForStaking: a staking *record* exists (`GetAmount() != nil`) and its delay has not expired. -/
def St.stakeLocked (s : St) (a : Bytes) (h : Nat) : Bool :=
  match s.stakes.get a with
  | some st => decide (st.when + stakingDelay > h)
  | none => false

def St.stakedWhen (s : St) (a : Bytes) : Nat :=
  match s.stakes.get a with
  | some st => st.when
  | none => 0

/-- ValidateSystemTx(stake): balance, then validateForStaking (delay, minimum). `none`: passed. -/
def stakeCheck (s : St) (a : Bytes) (h amt : Nat) : Option Res :=
  if s.balOf a < amt then some .insufficient
  else if s.stakeLocked a h then some .lessTime
  else if minStake s > ((s.stakedAmount a + amt : Nat) : Int) then some .tooSmall
  else none

/-- stakeCmd.run: record (amount added, When = block number), total, balance. -/
def stakeRun (s : St) (a : Bytes) (h amt : Nat) : Res × St :=
  match sendBalance s.bal a sysAddr amt with
  | none => (.insufficient, s)
  | some bal =>
    (.ok, { s with stakes := s.stakes.set a ⟨s.stakedAmount a + amt, h⟩, total := s.total + amt, bal := bal })

def stake (s : St) (a : Bytes) (h amt : Nat) : Res × St :=
  match stakeCheck s a h amt with
  | some r => (r, s)
  | none => stakeRun s a h amt

/-- refreshAllVote: every issue in catalog order whose recorded amount exceeds the new stake is shrunk. -/
def refreshVotes (a : Bytes) (staked : Nat) : List Issue → St → Option St
  | [], s => some s
  | i :: is, s =>
    match s.voteOf i a with
    | none => refreshVotes a staked is s
    | some old =>
      if old.amount ≤ staked then refreshVotes a staked is s else
      let new : Vote := ⟨old.cands, staked⟩
      match revote { s with votes := setVote s.votes i a new } i a (some old) new with
      | none => none
      | some s' => refreshVotes a staked is s'

/-- ValidateSystemTx(unstake) = validateForUnstaking: staked at all, not more than staked, delay, minimum. -/
def unstakeCheck (s : St) (a : Bytes) (h amt : Nat) : Option Res :=
  if s.stakedAmount a = 0 then some .mustStakeUnstake
  else if s.stakedAmount a < amt then some .exceed
  else if s.stakedWhen a + stakingDelay > h then some .lessTime
  else if s.stakedAmount a - amt ≠ 0 ∧ minStake s > ((s.stakedAmount a - amt : Nat) : Int) then some .tooSmall
  else none

/-- The state handed to `refreshAllVote`: the record already lowered and re-dated. -/
def unstakeMid (s : St) (a : Bytes) (h amt : Nat) : St :=
  { s with stakes := s.stakes.set a ⟨s.stakedAmount a - amt, h⟩ }

/-- unstakeCmd.run: record, refreshAllVote, subTotal, balance. -/
def unstakeRun (s : St) (a : Bytes) (h amt : Nat) : Res × St :=
  match refreshVotes a (s.stakedAmount a - amt) catalog (unstakeMid s a h amt) with
  | none => (.panic, s)
  | some s2 =>
    match sendBalance s2.bal sysAddr a amt with
    | none => (.insufficient, s)
    | some bal => (.ok, { s2 with total := ((s2.total : Int) - amt).natAbs, bal := bal })

def unstake (s : St) (a : Bytes) (h amt : Nat) : Res × St :=
  match unstakeCheck s a h amt with
  | some r => (r, s)
  | none => unstakeRun s a h amt

/-- validateForVote: staked at all; a vote *record* for the issue exists and the delay has not expired. -/
def voteCheck (s : St) (i : Issue) (a : Bytes) (h : Nat) : Option Res :=
  if s.stakedAmount a = 0 then some .mustStakeVote
  else if (s.voteOf i a).isSome ∧ s.stakedWhen a + votingDelay > h then some .lessTime
  else none

/-- The state after updateStaking (When = block number) and updateVote. -/
def voteMid (s : St) (i : Issue) (a : Bytes) (h : Nat) (cands : List Bytes) : St :=
  { s with stakes := s.stakes.set a ⟨s.stakedAmount a, h⟩, votes := setVote s.votes i a ⟨cands, s.stakedAmount a⟩ }

/-- newVoteCmd + voteCmd.run for a prepared candidate list. -/
def voteRun (s : St) (i : Issue) (a : Bytes) (h : Nat) (cands : List Bytes) : Res × St :=
  match revote (voteMid s i a h cands) i a (s.voteOf i a) ⟨cands, s.stakedAmount a⟩ with
  | none => (.panic, s)
  | some s2 => (.ok, s2)

def castVote (s : St) (i : Issue) (a : Bytes) (h : Nat) (cands : List Bytes) : Res × St :=
  match voteCheck s i a h with
  | some r => (r, s)
  | none => voteRun s i a h cands

/-- `Candidate[offset : offset+39]` for every offset: the 39-byte chunks of the concatenated candidates. -/
def chunks39 : Nat → Bytes → List Bytes
  | 0, _ => []
  | f + 1, b => if b.isEmpty then [] else b.take 39 :: chunks39 f (b.drop 39)

/-- v1voteBP with the base58-decoded candidates. -/
def voteBP (s : St) (a : Bytes) (h : Nat) (decoded : List Bytes) : Res × St :=
  let flat := decoded.flatten
  if flat.length % 39 ≠ 0 then (.misaligned, s) else
  castVote s .bp a h (chunks39 flat.length flat)

def issueOfId (id : String) : Option Issue :=
  match id.toUpper with
  | "BPCOUNT" => some .bpCount
  | "STAKINGMIN" => some .stakingMin
  | "GASPRICE" => some .gasPrice
  | "NAMEPRICE" => some .namePrice
  | _ => none

def maxAER : Nat := 500000000 * aergo

/-- validateById on a non-negative number. -/
def validById (i : Issue) (n : Nat) : Bool :=
  if n = 0 then false else
  match i with
  | .bpCount => decide (n ≤ 100)
  | .bp => true
  | _ => decide (n ≤ maxAER)

/-- validateById on a signed number: zero is refused and the upper bounds apply to the magnitude (since repair
b0b4c2db; before it a negative number passed every upper bound, and a BPCOUNT of 10^21 made GetRankers panic). -/
def validSigned (i : Issue) (v : Bool × Nat) : Bool := validById i v.2

/-- A candidate of a parameter vote that is a number outside the parameter's range. -/
def daoArgBad (i : Issue) (c : Bytes) : Bool :=
  match parseSigned c with
  | some v => !validSigned i v
  | none => true

/-- v1voteDAO: `args` are the JSON string arguments after the id (MultipleChoice = 1, no candidate
list, no block range for the four built-in proposals). No argument at all is refused since repair 9f771520
(before it: `Args[1]` panicked in newVoteCmd after validation had passed). -/
def voteDAO (s : St) (a : Bytes) (h : Nat) (id : String) (args : List Bytes) : Res × St :=
  if s.fv < 2 then (.notSupported, s) else
  match issueOfId id with
  | none => (.daoBadId, s)
  | some i =>
    if args.length < 1 then (.daoTooFew, s) else
    if args.length > 1 then (.daoTooMany, s) else
    if args.any (fun c => (parseSigned c).isNone) then (.daoBadNumber, s) else
    if args.any (daoArgBad i) then (.daoBadRange, s) else
    castVote s i a h args

/-! ### Plain transfers -/

/-- A TRANSFER transaction without fee: ValidateWithSenderState refuses an amount above the balance (also
from an account to itself), then contract.Execute does SendBalance. -/
def transfer (s : St) (src dst : Bytes) (amt : Nat) : Res × St :=
  if s.balOf src < amt then (.insufficient, s) else
  match sendBalance s.bal src dst amt with
  | none => (.insufficient, s)
  | some bal => (.ok, { s with bal := bal })

/-! ### Names (name contract) -/

/-- name.getAddress: the *committed* destination of a name (`GetInitialData`), empty when unbound. -/
def St.committedDest (s : St) (n : Bytes) : Bytes :=
  match s.namesInit.get n with
  | some r => r.dest
  | none => []

/-- name.getOwner(…, useInitial = false): the owner in the buffered view. -/
def St.ownerOf (s : St) (n : Bytes) : Option Bytes := (s.names.get n).map (·.owner)

/-- name.GetAddress: addresses and special accounts resolve to themselves, a name to its committed destination. -/
def St.resolve (s : St) (n : Bytes) : Bytes :=
  if n.length = 33 ∨ isSpecial n then n else s.committedDest n

/-- The account that receives name payments: the contract owner once set, else `aergo.name`. -/
def St.nameState (s : St) : Bytes :=
  match s.names.get nameAddr with
  | some r => r.owner
  | none => nameAddr

def namePrice (s : St) : Int := s.param .namePrice

/-- v1createName: `txAcc` is the sender address. -/
def nameCreate (s : St) (txAcc : Bytes) (name : Bytes) (amt : Nat) : Res × St :=
  if s.balOf txAcc < amt then (.insufficient, s) else
  if namePrice s > (amt : Int) then (.tooSmall, s) else
  if (s.names.get name).isSome then (.occupied, s) else
  match sendBalance s.bal txAcc s.nameState amt with
  | none => (.insufficient, s)
  | some bal => (.ok, { s with bal := bal, names := s.names.set name ⟨txAcc, txAcc⟩ })

/-- v1updateName: `txAcc` is the account field of the transaction (an address or a name), `sender` the
account it resolves to, `to` the decoded destination argument. -/
def nameUpdate (s : St) (txAcc sender : Bytes) (name to : Bytes) (amt : Nat) : Res × St :=
  if s.balOf sender < amt then (.insufficient, s) else
  if namePrice s > (amt : Int) then (.tooSmall, s) else
  if txAcc ≠ name ∧ some txAcc ≠ s.ownerOf name then (.ownerMismatch, s) else
  if (s.committedDest name).length ≤ 12 then (.notCreated, s) else
  match sendBalance s.bal sender s.nameState amt with
  | none => (.insufficient, s)
  | some bal => (.ok, { s with bal := bal, names := s.names.set name ⟨s.resolve to, s.resolve to⟩ })

/-- v1setOwner: the whole balance of `aergo.name` goes to the new owner (also when the new owner is the
sender: since repair 583738ca the live sender record is credited, DESIGN §5 lead 11). -/
def nameSetOwner (s : St) (owner : Bytes) : Res × St :=
  if (s.names.get nameAddr).isSome then (.ownerSet, s) else
  match sendBalance s.bal nameAddr owner (s.balOf nameAddr) with
  | none => (.insufficient, s)
  | some bal => (.ok, { s with bal := bal, names := s.names.set nameAddr ⟨owner, nameAddr⟩ })

/-! ### Block boundary and restart -/

/-- Block connected: storage committed (`GetInitialData` now sees the block's writes), CommitParams(true). -/
def endBlock (s : St) : St :=
  { s with namesInit := s.names,
           params := s.nextParams.foldr (fun e p => p.set e.1 e.2) s.params,
           nextParams := [] }

/-- Node restart at a block boundary: InitSystemParams (next-block values discarded, values reloaded from
the state db) and InitVotingPowerRank (rank rebuilt from the persisted buckets). -/
def restart (s : St) : St :=
  { s with params := s.paramsDisk.map (fun e => (e.1, (e.2 : Int))), nextParams := [], vpr := loadVpr s.vprDisk }

/-! ### Operations -/

inductive Op
  | stake (a : Bytes) (h amt : Nat)
  | unstake (a : Bytes) (h amt : Nat)
  | voteBP (a : Bytes) (h : Nat) (cands : List Bytes)
  | voteDAO (a : Bytes) (h : Nat) (id : String) (args : List Bytes)
  | transfer (src dst : Bytes) (amt : Nat)
  | nameCreate (a name : Bytes) (amt : Nat)
  | nameUpdate (txAcc sender name to : Bytes) (amt : Nat)
  | setOwner (owner : Bytes)
  | endBlock
  | restart

def step (s : St) : Op → Res × St
  | .stake a h amt => stake s a h amt
  | .unstake a h amt => unstake s a h amt
  | .voteBP a h c => voteBP s a h c
  | .voteDAO a h id args => voteDAO s a h id args
  | .transfer x y amt => transfer s x y amt
  | .nameCreate a n amt => nameCreate s a n amt
  | .nameUpdate t sd n to amt => nameUpdate s t sd n to amt
  | .setOwner o => nameSetOwner s o
  | .endBlock => (.ok, endBlock s)
  | .restart => (.ok, restart s)

def runOps (s : St) : List Op → St
  | [] => s
  | o :: os => runOps (step s o).2 os

end Aergo.Gov
