/-
Model layer `GovNode` (C15, node level): what happens to the governance state of a *node* — the storage of its
best block plus the process-wide memory (`votingPowerRank`, `systemParams`) — when blocks are connected, fail,
are abandoned, or the chain is reorganised.

Transcribed from
  consensus/chain/tx.go            GatherTXs: the block factory executes the candidate transactions on the
                                   process-wide memory; a refused transaction is skipped (its state changes are
                                   rolled back), a later transaction of the same account then has a nonce gap
                                   (types.ValidateWithSenderState: ErrTxNonceToohigh) and is refused too
  chain/chainhandle.go             addBlockInternal (errBlockStale: the node's own block is dropped, nothing is
                                   reloaded), executeBlock (failure: `cs.Update(bestBlock)`)
  consensus/impl/dpos/status.go    Status.Update: block connected → CommitParams(true); otherwise (rollback) →
                                   InitVPR reload from the block's state, CommitParams(false)
  chain/reorg.go                   reorg: rollback() = Update(branch root), rollforward() = executeBlock of every
                                   new block, on failure SetRoot(old best) + Update(old best), on success
                                   InitSystemParams(RESET)
  contract/system/param.go         CommitParams, InitSystemParams/loadParams

Quirk kept on purpose (finding C15-stale-own-block-leaves-memory-dirty, notes/C15.md): a block the factory
produced and that is never connected leaves its effects in memory (`stale`).
Repaired in /repo 01aa461f (found by this check, kept as the witnesses `reorg_old_params_before_repair` and
`failed_reorg_activated_params_before_repair` in Props.C15): the rollback branch of Status.Update reloads the rank
but keeps the *current* parameter values, so the new branch of a reorganisation used to be executed with the
parameters of the old tip, and a failed first block of the new branch could get its pending parameter values
activated (`cs.Update(old best)` taking the connected branch of Status.Update). Now reorganizer.rollback() and the
failure path reload the parameters from the state (`reloadParams`).

A node is its working state `cur` (storage of the best block between events; memory = `vpr`, `params`,
`nextParams`) and the snapshots of the ancestors of the best block, parent first (taken when they were the best
block; of a snapshot only the storage part is ever used). Core Lean only.
-/
import Aergo.Model.Gov

namespace Aergo.Gov

/-- The account a transaction operation is sent by (`none`: not a transaction). -/
def Op.sender : Op → Option Bytes
  | .stake a _ _ => some a
  | .unstake a _ _ => some a
  | .voteBP a _ _ => some a
  | .voteDAO a _ _ _ => some a
  | .transfer a _ _ => some a
  | .nameCreate a _ _ => some a
  | .nameUpdate _ sd _ _ _ => some sd
  | .setOwner _ => none
  | .endBlock => none
  | .restart => none

/-- The transactions of one block executed in order on `s`. A refused one leaves the state as it was; every later
transaction of the same sender is refused as well (nonce gap). Returns the state and, per transaction, whether it
was executed. -/
def runTxsAux : St → List Bytes → List Op → St × List Bool
  | s, _, [] => (s, [])
  | s, skip, o :: os =>
    match o.sender with
    | none => let r := runTxsAux s skip os; (r.1, false :: r.2)
    | some a =>
      if skip.contains a then let r := runTxsAux s skip os; (r.1, false :: r.2)
      else
        let (res, s') := step s o
        if res = .ok then let r := runTxsAux s' skip os; (r.1, true :: r.2)
        else let r := runTxsAux s (a :: skip) os; (r.1, false :: r.2)

def runTxs (s : St) (txs : List Op) : St × List Bool := runTxsAux s [] txs

/-- The memory of `m` over the storage of `p`. -/
def withMem (p m : St) : St := { p with vpr := m.vpr, params := m.params, nextParams := m.nextParams }

/-- CommitParams(true) alone (the parameter part of `endBlock`). -/
def commitParams (s : St) : St :=
  { s with params := s.nextParams.foldr (fun e p => p.set e.1 e.2) s.params, nextParams := [] }

/-- The rollback branch of Status.Update on a block whose storage is `p`, the process memory being that of `m`:
the rank is rebuilt from `p`, pending parameter values are dropped, the current parameter values stay. -/
def updateElse (p m : St) : St :=
  { p with vpr := loadVpr p.vprDisk, params := m.params, nextParams := [] }

/-- InitSystemParams: pending values dropped, current values reloaded from the storage. -/
def reloadParams (s : St) : St :=
  { s with params := s.paramsDisk.map (fun e => (e.1, (e.2 : Int))), nextParams := [] }

structure Node where
  cur : St
  hist : List St

/-- Block events. `reorg k blocks failAt`: the new branch `blocks` (oldest first) is rooted at `hist[k]`;
`failAt = some j`: the execution of `blocks[j]` fails. -/
inductive Ev
  | own (txs : List Op)
  | stale (txs : List Op)
  | net (txs : List Op)
  | netFail (txs : List Op)
  | reorg (k : Nat) (blocks : List (List Op)) (failAt : Option Nat)
  | restart

/-- A block executed on `n.cur` and connected (Status.Update, connected branch: CommitParams(true)). -/
def Node.connect (n : Node) (txs : List Op) : Node :=
  { cur := endBlock (runTxs n.cur txs).1, hist := n.cur :: n.hist }

/-- Roll-forward of a reorganisation: `j` counts the blocks already connected. `inl`: the branch was connected;
`inr s`: block `failAt` failed, `s` is the state its execution left in memory. -/
def rollForward : Node → Nat → Option Nat → List (List Op) → Node ⊕ St
  | n, _, _, [] => .inl n
  | n, j, failAt, b :: bs =>
    if failAt = some j then .inr (runTxs n.cur b).1
    else rollForward (n.connect b) (j + 1) failAt bs

def Node.step (n : Node) : Ev → Node
  | .own txs => n.connect txs
  | .net txs => n.connect txs
  | .stale txs => { n with cur := withMem n.cur (runTxs n.cur txs).1 }
  | .netFail txs => { n with cur := updateElse n.cur (runTxs n.cur txs).1 }
  | .restart => { n with cur := restart n.cur }
  | .reorg k blocks failAt =>
    match n.hist.drop k with
    | [] => n
    | root :: rest =>
      -- rollback(): Update(branch root) + reloadSystemParams
      match rollForward { cur := reloadParams (updateElse root n.cur), hist := rest } 0 failAt blocks with
      | .inl n' => { n' with cur := reloadParams n'.cur }                 -- swapChain, InitSystemParams(RESET)
      | .inr s => { n with cur := reloadParams (updateElse n.cur s) }     -- SetRoot(old best), Update(old best), reloadSystemParams

def Node.run (n : Node) : List Ev → Node
  | [] => n
  | e :: es => Node.run (n.step e) es

/-- A DPoS genesis: the tallies of the genesis producers are written with amount 0 (chain.InitGenesisBPs). -/
def genesisWith (fv : Nat) (bps : List Bytes) : St :=
  { St.init fv with tally := bps.map fun c => ((Issue.bp, c), 0) }

/-! ### Consumers of the ranking -/

/-- getVoteResult(…, n): the first `n` entries of the persisted list (all of them when it is shorter). -/
def voteResultTop (t : AMap (Issue × Bytes) Nat) (i : Issue) (n : Nat) : List Entry := (rankOf t i).take n

/-- GetBpCount(): the current BPCOUNT parameter as an unsigned number. -/
def St.bpCount (s : St) : Nat := (s.param .bpCount).toNat

/-- system.GetRankers: the candidates of the first GetBpCount() entries of the producer ranking. -/
def rankers (s : St) : List Bytes := (voteResultTop s.tally .bp s.bpCount).map (·.1)

end Aergo.Gov
